(* Proofs about countClusters / clamp / the Shape glue (C01 part 1). *)
From TV Require Import Model.ShapeGlue Spec.ShapeGlue.

(* ---------- small facts about the specification functions ---------- *)

Lemma mult_app c a b : mult c (a ++ b) = mult c a + mult c b.
Proof. unfold mult. rewrite filter_app, zlen_app. reflexivity. Qed.

Lemma mult_cons c x l : mult c (x :: l) = (if c =? x then 1 else 0) + mult c l.
Proof. unfold mult. cbn [filter]. destruct (c =? x); [rewrite zlen_cons|]; lia. Qed.

Lemma mult_nonneg c l : 0 <= mult c l.
Proof. unfold mult. apply zlen_nonneg. Qed.

Lemma mult_zero c l : Forall (fun x => x <> c) l -> mult c l = 0.
Proof.
  induction 1; [reflexivity|]. rewrite mult_cons, IHForall.
  destruct (Z.eqb_spec c x); [congruence|lia].
Qed.

Lemma na_app e c a b : next_above e c (a ++ b) = next_above (next_above e c b) c a.
Proof. unfold next_above. apply fold_right_app. Qed.

Lemma na_cons e c x l : next_above e c (x :: l) = if c <? x then Z.min x (next_above e c l) else next_above e c l.
Proof. reflexivity. Qed.

Lemma na_below e c l : Forall (fun x => x <= c) l -> next_above e c l = e.
Proof.
  induction 1; [reflexivity|]. rewrite na_cons, IHForall.
  destruct (Z.ltb_spec c x); [lia|reflexivity].
Qed.

Lemma na_lower m e c l : Forall (fun x => m <= x) l -> m <= e -> m <= next_above e c l.
Proof.
  induction 1; intros; [exact H|]. rewrite na_cons.
  destruct (c <? x); [apply Z.min_glb; auto|auto].
Qed.

Lemma na_head e g c t : Forall (fun x => c <= x) t -> c <= e -> g < c -> next_above e g (c :: t) = c.
Proof.
  intros. rewrite na_cons. destruct (Z.ltb_spec g c); [|lia].
  pose proof (na_lower c e g t H H0). lia.
Qed.

Lemma na_member e g m p : In m p -> Forall (fun x => m <= x) p -> g < m -> m <= e -> next_above e g p = m.
Proof.
  induction p as [|x p IH]; intros Hin Hall Hg He; [destruct Hin|].
  inversion Hall; subst. rewrite na_cons.
  destruct (Z.ltb_spec g x); [|lia].
  destruct (Z.eq_dec x m) as [->|Hne].
  - pose proof (na_lower m e g p H2 He). lia.
  - destruct Hin as [->|Hin]; [congruence|]. rewrite (IH Hin H2 Hg He). lia.
Qed.

Lemma na_min a e c l : next_above (Z.min a e) c l = Z.min a (next_above e c l).
Proof.
  induction l as [|x l IH]; [reflexivity|]. rewrite !na_cons, IH.
  destruct (c <? x); lia.
Qed.

(* ---------- monotone lists ---------- *)

Definition dirlt (rtl : bool) (a b : Z) : Prop := if rtl then b < a else a < b.
Definition dirle (rtl : bool) (a b : Z) : Prop := if rtl then b <= a else a <= b.

Lemma mono_cons rtl a l : mono rtl (a :: l) = true -> mono rtl l = true.
Proof. destruct l; [reflexivity|]. cbn [mono]. intros H; apply andb_prop in H; tauto. Qed.

Lemma mono_hd rtl a l : mono rtl (a :: l) = true -> Forall (dirle rtl a) l.
Proof.
  revert a; induction l as [|b l IH]; intros a H; [constructor|].
  pose proof (mono_cons _ _ _ H) as Hm.
  cbn [mono] in H. apply andb_prop in H. destruct H as [H _].
  assert (Hab : dirle rtl a b) by (unfold dirle; destruct rtl; lia).
  constructor; [exact Hab|].
  specialize (IH b Hm). eapply Forall_impl; [|exact IH].
  intros x Hx. unfold dirle in *. destruct rtl; lia.
Qed.

Lemma mono_app rtl a b : mono rtl (a ++ b) = true ->
  mono rtl a = true /\ mono rtl b = true /\ Forall (fun x => Forall (dirle rtl x) b) a.
Proof.
  induction a as [|x a IH]; intros H.
  - repeat split; auto.
  - rewrite <- app_comm_cons in H. pose proof (mono_hd _ _ _ H) as Hh.
    destruct (IH (mono_cons _ _ _ H)) as (Ha & Hb & Hab).
    split; [|split; [exact Hb|]].
    + destruct a as [|y a]; [reflexivity|]. cbn [mono app] in *. apply andb_prop in H. destruct H as [H _].
      rewrite H. exact Ha.
    + constructor; [|exact Hab]. apply Forall_app in Hh. tauto.
Qed.

(* the glyphs that follow the run of g *)
Fixpoint dropeq (g : Z) (l : list Z) : list Z :=
  match l with
  | c :: r => if c =? g then dropeq g r else l
  | [] => []
  end.

Lemma count_run_fst g l : fst (count_run g l) = mult g l - mult g (dropeq g l).
Proof.
  induction l as [|c r IH]; [reflexivity|]. cbn [count_run dropeq]. rewrite mult_cons.
  rewrite (Z.eqb_sym g c). destruct (c =? g) eqn:E.
  - destruct (count_run g r) as [n nx]. cbn [fst] in *. lia.
  - cbn [fst]. rewrite mult_cons, (Z.eqb_sym g c), E. lia.
Qed.

Lemma count_run_snd g l : snd (count_run g l) = hd_error (dropeq g l).
Proof.
  induction l as [|c r IH]; [reflexivity|]. cbn [count_run dropeq].
  destruct (c =? g); [|reflexivity]. destruct (count_run g r); exact IH.
Qed.

Lemma na_dropeq e g l : next_above e g l = next_above e g (dropeq g l).
Proof.
  induction l as [|c r IH]; [reflexivity|]. cbn [dropeq].
  destruct (Z.eqb_spec c g); [|reflexivity]. subst. rewrite na_cons, Z.ltb_irrefl. exact IH.
Qed.

Lemma dropeq_sorted rtl g r : mono rtl (g :: r) = true ->
  mono rtl (dropeq g r) = true /\ Forall (dirlt rtl g) (dropeq g r).
Proof.
  induction r as [|x r IH]; intros H; [split; [reflexivity|constructor]|].
  cbn [dropeq]. destruct (Z.eqb_spec x g).
  - subst. apply IH. exact (mono_cons _ _ _ H).
  - pose proof (mono_cons _ _ _ H) as Hm. pose proof (mono_hd _ _ _ H) as Hh.
    split; [exact Hm|]. inversion Hh; subst.
    assert (dirlt rtl g x) by (unfold dirlt, dirle in *; destruct rtl; lia).
    constructor; [exact H0|]. pose proof (mono_hd _ _ _ Hm).
    eapply Forall_impl; [|exact H1]. intros y Hy. unfold dirlt, dirle in *. destruct rtl; lia.
Qed.

(* ---------- the loop ---------- *)

Lemma cc_loop_clusters rtl e l : forall cur runes glyphs prev,
  map cg_cl (cc_loop rtl e cur runes glyphs prev l) = l.
Proof.
  induction l as [|g r IH]; intros; [reflexivity|]. cbn [cc_loop].
  destruct (negb (g =? cur)).
  - destruct (count_run g r) as [n nx]. cbn [map cg_cl]. f_equal. apply IH.
  - cbn [map cg_cl]. f_equal. apply IH.
Qed.

(* what the run of a new cluster g looks like in a monotone list W = pre ++ g :: r whose earlier part is strictly before g *)
Lemma new_cluster_mult rtl g pre r :
  mono rtl (g :: r) = true -> Forall (fun x => x <> g) pre ->
  1 + fst (count_run g r) = mult g (pre ++ g :: r).
Proof.
  intros Hm Hpre. rewrite count_run_fst, mult_app, mult_cons, Z.eqb_refl, (mult_zero g pre Hpre).
  destruct (dropeq_sorted _ _ _ Hm) as [_ Hd].
  rewrite (mult_zero g (dropeq g r)); [lia|].
  eapply Forall_impl; [|exact Hd]. intros x Hx. unfold dirlt in Hx. destruct rtl; lia.
Qed.

Lemma ltr_next g pre r e :
  mono false (g :: r) = true -> Forall (fun x => x <= g) pre -> Forall (fun x => 0 <= x < e) r ->
  (let next0 := match snd (count_run g r) with Some c => c | None => -1 end in
   if next0 =? -1 then e else next0) = next_above e g (pre ++ g :: r).
Proof.
  intros Hm Hpre Hr. rewrite na_app, (na_below _ g pre Hpre), na_cons, Z.ltb_irrefl, (na_dropeq e g r).
  rewrite count_run_snd. destruct (dropeq_sorted _ _ _ Hm) as [Hs Hd].
  assert (Hsub : forall x, In x (dropeq g r) -> In x r).
  { clear. induction r as [|c r IH]; cbn [dropeq]; intros x Hx; [exact Hx|].
    destruct (c =? g); [right; auto|exact Hx]. }
  destruct (dropeq g r) as [|c t] eqn:E; cbn [hd_error]; [reflexivity|].
  inversion Hd; subst. cbn [dirlt] in H1.
  rewrite Forall_forall in Hr. pose proof (Hr c (Hsub c (or_introl eq_refl))).
  destruct (Z.eqb_spec c (-1)); [lia|].
  symmetry. apply na_head; [|lia|lia].
  exact (mono_hd _ _ _ Hs).
Qed.

Lemma rtl_next g pre r e cur :
  mono true (g :: r) = true -> Forall (fun x => cur <= x) pre -> Forall (fun x => x < e) pre ->
  (pre = [] \/ (In cur pre /\ g < cur)) ->
  (if match pre with [] => true | _ => false end then e else cur) = next_above e g (pre ++ g :: r).
Proof.
  intros Hm Hge Hlt Hc. rewrite na_app.
  rewrite (na_below e g (g :: r)).
  2:{ constructor; [lia|]. pose proof (mono_hd _ _ _ Hm). eapply Forall_impl; [|exact H]. cbn [dirle]. intros; lia. }
  destruct Hc as [->|[Hin Hg]]; [reflexivity|].
  destruct pre as [|p0 pre]; [destruct Hin|].
  symmetry. apply na_member; auto.
  rewrite Forall_forall in Hlt. specialize (Hlt _ Hin). lia.
Qed.

(* loop invariant.  W = pre ++ l is the whole glyph list. *)
Definition inv (rtl : bool) (e : Z) (W pre : list Z) (cur runes glyphs prev : Z) : Prop :=
  Forall (fun x => dirle rtl x cur) pre /\
  ((pre = [] /\ cur = -1 /\ prev = e) \/ (In cur pre /\ prev = cur)) /\
  (0 <= cur -> glyphs = mult cur W /\ runes = next_above e cur W - cur).

Lemma cc_loop_ok rtl e W : Forall (fun x => 0 <= x < e) W -> mono rtl W = true ->
  forall l pre cur runes glyphs prev, W = pre ++ l -> inv rtl e W pre cur runes glyphs prev ->
  Forall (fun g => glyph_ok e W g = true) (cc_loop rtl e cur runes glyphs prev l).
Proof.
  intros HW Hmono. induction l as [|g r IH]; intros pre cur runes glyphs prev EW (Hle & Hcur & Hcnt); [constructor|].
  assert (Hg : 0 <= g < e).
  { rewrite Forall_forall in HW. apply HW. rewrite EW. apply in_or_app. right. left. reflexivity. }
  assert (EW' : W = (pre ++ [g]) ++ r) by (rewrite <- app_assoc; exact EW).
  cbn [cc_loop]. destruct (Z.eqb_spec g cur) as [->|Hne]; cbn [negb].
  - destruct (Hcnt (proj1 Hg)) as [Hgl Hru].
    constructor.
    + unfold glyph_ok. cbn [cg_cl cg_rc cg_gc]. rewrite Hgl, Hru, !Z.eqb_refl. reflexivity.
    + apply (IH (pre ++ [cur])); [exact EW'|]. split; [|split].
      * apply Forall_app. split; [exact Hle|]. constructor; [|constructor]. unfold dirle. destruct rtl; lia.
      * right. split; [apply in_or_app; right; left; reflexivity|]. destruct Hcur as [(_ & Hc & _)|[_ Hp]]; [lia|exact Hp].
      * exact Hcnt.
  - rewrite EW in Hmono. destruct (mono_app _ _ _ Hmono) as (_ & Hgr & Hcross).
    assert (Hpre_le : Forall (fun x => dirle rtl x g) pre).
    { eapply Forall_impl; [|exact Hcross]. intros x Hx. inversion Hx; auto. }
    assert (Hcg : pre = [] \/ (In cur pre /\ dirlt rtl cur g)).
    { destruct Hcur as [(Hp & _)|[Hin _]]; [left; exact Hp|right]. split; [exact Hin|].
      rewrite Forall_forall in Hpre_le. specialize (Hpre_le _ Hin). unfold dirle, dirlt in *. destruct rtl; lia. }
    assert (Hpre_lt : Forall (fun x => dirlt rtl x g) pre).
    { destruct Hcg as [->|[_ Hlt]]; [constructor|].
      eapply Forall_impl; [|exact Hle]. intros x Hx. unfold dirle, dirlt in *. destruct rtl; lia. }
    destruct (count_run g r) as [n nx] eqn:E.
    assert (Hgl : 1 + n = mult g W).
    { rewrite EW. replace n with (fst (count_run g r)) by (rewrite E; reflexivity).
      apply (new_cluster_mult rtl); [exact Hgr|].
      eapply Forall_impl; [|exact Hpre_lt]. intros x Hx. unfold dirlt in Hx. destruct rtl; lia. }
    assert (Hru : (if rtl then prev - g
                   else (if (match nx with Some c => c | None => -1 end) =? -1 then e
                         else match nx with Some c => c | None => -1 end) - g)
                  = next_above e g W - g).
    { rewrite EW. destruct rtl.
      - f_equal. rewrite <- (rtl_next g pre r e cur); auto.
        + destruct Hcur as [(-> & _ & Hp)|[Hin Hp]]; [exact Hp|]. destruct pre; [destruct Hin|exact Hp].
        + apply Forall_forall. intros x Hx. rewrite Forall_forall in HW. specialize (HW x).
          rewrite EW in HW. specialize (HW (in_or_app _ _ _ (or_introl Hx))). lia.
      - f_equal. replace nx with (snd (count_run g r)) by (rewrite E; reflexivity).
        apply ltr_next; auto.
        apply Forall_forall. intros x Hx. rewrite Forall_forall in HW. apply HW. rewrite EW.
          apply in_or_app. right. right. exact Hx. }
    constructor.
    + unfold glyph_ok. cbn [cg_cl cg_rc cg_gc]. rewrite Hgl, Hru, !Z.eqb_refl. reflexivity.
    + apply (IH (pre ++ [g])); [exact EW'|]. split; [|split].
      * apply Forall_app. split; [exact Hpre_le|]. constructor; [|constructor]. unfold dirle. destruct rtl; lia.
      * right. split; [apply in_or_app; right; left; reflexivity|reflexivity].
      * intros _. split; [exact Hgl|exact Hru].
Qed.

Lemma in_range_Forall s e l : in_range s e l = true -> Forall (fun x => s <= x < e) l.
Proof.
  unfold in_range. rewrite forallb_forall, Forall_forall. intros H x Hx.
  specialize (H x Hx). apply andb_prop in H. lia.
Qed.

Lemma count_clusters_glyphs rtl s e cls : 0 <= s -> mono rtl cls = true -> in_range s e cls = true ->
  map cg_cl (count_clusters cls e rtl) = cls /\
  Forall (fun g => glyph_ok e cls g = true) (count_clusters cls e rtl).
Proof.
  intros Hs Hm Hr. split; [apply cc_loop_clusters|].
  unfold count_clusters. apply (cc_loop_ok rtl e cls) with (pre := []); auto.
  - eapply Forall_impl; [|exact (in_range_Forall _ _ _ Hr)]. intros; cbv beta in *; lia.
  - split; [constructor|]. split; [left; auto|]. intros; lia.
Qed.

(* ---------- the sum over clusters telescopes ---------- *)

Definition csum (e : Z) (l : list Z) : Z := zsum (map (fun c => next_above e c l - c) (nodup Z.eq_dec l)).

Lemma fold_min_swap a b r : Z.min b (fold_right Z.min a r) = Z.min a (fold_right Z.min b r).
Proof. induction r as [|x r IH]; cbn [fold_right]; lia. Qed.

Lemma lmin_cons2 a b r : lmin (a :: b :: r) = Z.min a (lmin (b :: r)).
Proof. cbn [lmin fold_right]. apply fold_min_swap. Qed.

Lemma lmin_le x l : In x l -> lmin l <= x.
Proof.
  destruct l as [|a r]; [intros []|]. revert a. induction r as [|b r IH]; intros a Hin.
  - destruct Hin as [->|[]]. cbn. lia.
  - rewrite lmin_cons2. destruct Hin as [->|Hin]; [lia|]. specialize (IH b Hin). lia.
Qed.

Lemma lmin_lower m l : l <> [] -> Forall (fun x => m <= x) l -> m <= lmin l.
Proof.
  destruct l as [|a r]; [congruence|]. intros _. revert a. induction r as [|b r IH]; intros a H.
  - inversion H; subst. cbn. lia.
  - rewrite lmin_cons2. inversion H; subst. specialize (IH b H3). lia.
Qed.

Lemma na_upper e c a r : In a r -> c < a -> next_above e c r <= a.
Proof.
  induction r as [|x r IH]; intros Hin Hc; [destruct Hin|]. rewrite na_cons.
  destruct Hin as [->|Hin].
  - destruct (Z.ltb_spec c a); lia.
  - specialize (IH Hin Hc). destruct (c <? x); lia.
Qed.

Lemma na_dup e c a r : In a r -> next_above e c (a :: r) = next_above e c r.
Proof.
  intros Hin. rewrite na_cons. destruct (Z.ltb_spec c a); [|reflexivity].
  pose proof (na_upper e c a r Hin H). lia.
Qed.

Lemma zsum_map_ext {A} (f g : A -> Z) l : (forall x, In x l -> f x = g x) -> zsum (map f l) = zsum (map g l).
Proof. intros H. rewrite (map_ext_in f g l H). reflexivity. Qed.

Lemma csum_telescopes rtl : forall l e, mono rtl l = true -> Forall (fun x => x < e) l -> l <> [] ->
  csum e l = e - lmin l.
Proof.
  induction l as [|a r IH]; intros e Hm Hlt Hne; [congruence|].
  pose proof (mono_cons _ _ _ Hm) as Hmr. pose proof (mono_hd _ _ _ Hm) as Hh.
  inversion Hlt as [|? ? Ha Hr]; subst.
  unfold csum. cbn [nodup]. destruct (in_dec Z.eq_dec a r) as [Hin|Hnin].
  - assert (r <> []) by (destruct r; [destruct Hin|congruence]).
    rewrite (zsum_map_ext _ (fun c => next_above e c r - c)).
    2:{ intros c _. rewrite (na_dup e c a r Hin). reflexivity. }
    fold (csum e r). rewrite (IH e Hmr Hr H).
    destruct r as [|b r]; [congruence|]. rewrite lmin_cons2. pose proof (lmin_le a (b :: r) Hin). lia.
  - cbn [map zsum fold_right]. fold zsum.
    destruct r as [|b r].
    + rewrite na_cons, Z.ltb_irrefl. cbn. lia.
    + assert (Hstrict : Forall (dirlt rtl a) (b :: r)).
      { rewrite Forall_forall in Hh |- *. intros x Hx. specialize (Hh x Hx).
        assert (x <> a) by (intros ->; exact (Hnin Hx)). unfold dirle, dirlt in *. destruct rtl; lia. }
      rewrite lmin_cons2. destruct rtl; cbn [dirlt dirle] in *.
      * (* non-increasing: nothing is above a; the rest sees a as its end *)
        assert (Hs' : Forall (fun x => x < a) (b :: r)) by (eapply Forall_impl; [|exact Hstrict]; intros x Hx; exact Hx).
        clear Hstrict; rename Hs' into Hstrict.
        rewrite na_cons, Z.ltb_irrefl, (na_below e a (b :: r)).
        2:{ eapply Forall_impl; [|exact Hstrict]. intros; cbv beta in *; lia. }
        rewrite (zsum_map_ext _ (fun c => next_above a c (b :: r) - c)).
        2:{ intros c Hc. apply nodup_In in Hc. rewrite Forall_forall in Hstrict. specialize (Hstrict c Hc).
            rewrite na_cons. destruct (Z.ltb_spec c a); [|lia].
            rewrite <- na_min. replace (Z.min a e) with a by lia. reflexivity. }
        fold (csum a (b :: r)). rewrite (IH a Hmr); [|exact Hstrict|congruence].
        pose proof (lmin_le b (b :: r) (or_introl eq_refl)). inversion Hstrict; subst. lia.
      * (* non-decreasing: the next cluster after a is b *)
        assert (Hs' : Forall (fun x => a < x) (b :: r)) by (eapply Forall_impl; [|exact Hstrict]; intros x Hx; exact Hx).
        clear Hstrict; rename Hs' into Hstrict.
        rewrite na_cons, Z.ltb_irrefl.
        inversion Hstrict; subst.
        rewrite (na_head e a b r); [|exact (mono_hd _ _ _ Hmr)|inversion Hr; lia|lia].
        rewrite (zsum_map_ext _ (fun c => next_above e c (b :: r) - c)).
        2:{ intros c Hc. apply nodup_In in Hc. rewrite Forall_forall in Hstrict. specialize (Hstrict c Hc).
            rewrite na_cons. destruct (Z.ltb_spec c a); [lia|reflexivity]. }
        fold (csum e (b :: r)). rewrite (IH e Hmr Hr); [|congruence].
        assert (b <= lmin (b :: r)).
        { apply lmin_lower; [congruence|]. constructor; [lia|]. exact (mono_hd _ _ _ Hmr). }
        pose proof (lmin_le b (b :: r) (or_introl eq_refl)). lia.
Qed.

Lemma rc_of_ok e cls out c : map cg_cl out = cls -> Forall (fun g => glyph_ok e cls g = true) out ->
  In c cls -> rc_of out c = next_above e c cls - c.
Proof.
  intros Hmap Hok Hin. unfold rc_of.
  destruct (find (fun g => cg_cl g =? c) out) as [g|] eqn:F.
  - apply find_some in F. destruct F as [Hg Hc]. apply Z.eqb_eq in Hc. subst c.
    rewrite Forall_forall in Hok. specialize (Hok g Hg). unfold glyph_ok in Hok.
    apply andb_prop in Hok. destruct Hok as [_ H]. apply Z.eqb_eq in H. exact H.
  - exfalso. rewrite <- Hmap in Hin. apply in_map_iff in Hin. destruct Hin as (g & Hc & Hg).
    pose proof (find_none _ _ F g Hg) as Hn. cbv beta in Hn. rewrite Hc, Z.eqb_refl in Hn. discriminate.
Qed.

Lemma sum_rune_counts_ok rtl e cls out :
  map cg_cl out = cls -> Forall (fun g => glyph_ok e cls g = true) out ->
  mono rtl cls = true -> Forall (fun x => x < e) cls -> cls <> [] ->
  sum_rune_counts out = e - lmin cls.
Proof.
  intros Hmap Hok Hm Hlt Hne. unfold sum_rune_counts. rewrite Hmap.
  rewrite (zsum_map_ext _ (fun c => next_above e c cls - c)).
  - fold (csum e cls). apply (csum_telescopes rtl); auto.
  - intros c Hc. apply nodup_In in Hc. apply (rc_of_ok e cls); auto.
Qed.

Lemma uniform_of_glyph_ok e cls out : Forall (fun g => glyph_ok e cls g = true) out -> uniform_counts out.
Proof.
  intros Hok g h Hg Hh Hc. rewrite Forall_forall in Hok.
  pose proof (Hok g Hg) as Og. pose proof (Hok h Hh) as Oh. unfold glyph_ok in *.
  apply andb_prop in Og, Oh. destruct Og as [G1 G2], Oh as [H1 H2].
  apply Z.eqb_eq in G1, G2, H1, H2. rewrite Hc in *. split; lia.
Qed.

Lemma uniform_b_of_prop out : uniform_counts out -> uniform_counts_b out = true.
Proof.
  induction out as [|g r IH]; intros U; [reflexivity|]. cbn [uniform_counts_b].
  apply andb_true_intro. split.
  - apply forallb_forall. intros h Hh. destruct (Z.eqb_spec (cg_cl g) (cg_cl h)); [|reflexivity].
    destruct (U g h (or_introl eq_refl) (or_intror Hh) e). cbn [negb orb].
    apply andb_true_intro. split; apply Z.eqb_eq; assumption.
  - apply IH. intros a b Ha Hb. apply U; right; assumption.
Qed.

Lemma count_clusters_accounting rtl s e cls : 0 <= s -> mono rtl cls = true -> in_range s e cls = true ->
  accounting_ok rtl s e (count_clusters cls e rtl) = true.
Proof.
  intros Hs Hm Hr. destruct (count_clusters_glyphs rtl s e cls Hs Hm Hr) as [Hmap Hok].
  unfold accounting_ok. rewrite Hmap, Hm, Hr. cbn [andb].
  rewrite (proj2 (forallb_forall _ _)); [|rewrite Forall_forall in Hok; exact Hok].
  rewrite (uniform_b_of_prop _ (uniform_of_glyph_ok _ _ _ Hok)). cbn [andb].
  destruct cls as [|a r] eqn:E; [reflexivity|]. apply Z.eqb_eq.
  apply (sum_rune_counts_ok rtl); auto; [|congruence].
  eapply Forall_impl; [|exact (in_range_Forall _ _ _ Hr)]. intros; cbv beta in *; lia.
Qed.

(* the statement of DESIGN 6/C01.1 in Prop form *)
Lemma count_clusters_correct_lemma rtl s e cls : 0 <= s -> mono rtl cls = true -> in_range s e cls = true ->
  let out := count_clusters cls e rtl in
  map cg_cl out = cls
  /\ (forall g, In g out -> cg_gc g = mult (cg_cl g) cls /\ cg_rc g = next_above e (cg_cl g) cls - cg_cl g)
  /\ uniform_counts out
  /\ (cls <> [] -> sum_rune_counts out = e - lmin cls)
  /\ (cls <> [] -> (sum_rune_counts out = e - s <-> lmin cls = s)).
Proof.
  intros Hs Hm Hr out. destruct (count_clusters_glyphs rtl s e cls Hs Hm Hr) as [Hmap Hok].
  assert (Hsum : cls <> [] -> sum_rune_counts out = e - lmin cls).
  { intros Hne. apply (sum_rune_counts_ok rtl); auto.
    eapply Forall_impl; [|exact (in_range_Forall _ _ _ Hr)]. intros; cbv beta in *; lia. }
  split; [exact Hmap|]. split; [|split; [exact (uniform_of_glyph_ok _ _ _ Hok)|split; [exact Hsum|]]].
  - intros g Hg. rewrite Forall_forall in Hok. specialize (Hok g Hg). unfold glyph_ok in Hok.
    apply andb_prop in Hok. destruct Hok as [A B]. apply Z.eqb_eq in A, B. auto.
  - intros Hne. rewrite (Hsum Hne). lia.
Qed.

(* ---------- clamp, bounds, reporting ---------- *)

Lemma clamp_range v lo hi : lo <= hi -> lo <= clamp v lo hi <= hi.
Proof. unfold clamp. intros. destruct (Z.ltb_spec v lo); [lia|]. destruct (Z.gtb_spec v hi); lia. Qed.

Lemma clamp_id v lo hi : lo <= v <= hi -> clamp v lo hi = v.
Proof. unfold clamp. intros. destruct (Z.ltb_spec v lo); [lia|]. destruct (Z.gtb_spec v hi); lia. Qed.

Lemma clamp_mono a b lo hi : lo <= hi -> a <= b -> clamp a lo hi <= clamp b lo hi.
Proof.
  unfold clamp. intros.
  destruct (Z.ltb_spec a lo), (Z.ltb_spec b lo), (Z.gtb_spec a hi), (Z.gtb_spec b hi); lia.
Qed.

Lemma shape_bounds_ok n rs re : 0 <= n ->
  let '(s, e) := shape_bounds n rs re in 0 <= s /\ s <= e /\ e <= n.
Proof.
  intros Hn. unfold shape_bounds. destruct (Z.ltb_spec re rs).
  - pose proof (clamp_range re 0 n Hn). pose proof (clamp_range rs 0 n Hn).
    pose proof (clamp_mono re rs 0 n Hn). lia.
  - pose proof (clamp_range re 0 n Hn). pose proof (clamp_range rs 0 n Hn).
    pose proof (clamp_mono rs re 0 n Hn). lia.
Qed.

Lemma add_runes_ok n off len : 0 <= off -> 0 <= len -> off + len <= n ->
  exists cl, add_runes_clusters n off len = Ok cl /\ zlen cl = len /\ Forall (fun c => off <= c < off + len) cl
             /\ (len > 0 -> lmin cl = off).
Proof.
  intros. unfold add_runes_clusters.
  destruct (Z.leb_spec 0 off); [|lia]. destruct (Z.leb_spec 0 len); [|lia]. destruct (Z.leb_spec (off + len) n); [|lia].
  cbn [andb]. eexists. split; [reflexivity|].
  assert (G : forall k b, Forall (fun c => off + Z.of_nat b <= c < off + Z.of_nat b + Z.of_nat k)
                                 (map (fun i => off + Z.of_nat i) (seq b k))).
  { induction k as [|k IH]; intros b; [constructor|]. cbn [seq map]. constructor; [lia|].
    eapply Forall_impl; [|exact (IH (S b))]. intros; cbv beta in *; lia. }
  split; [|split].
  - unfold zlen. rewrite map_length, seq_length. lia.
  - eapply Forall_impl; [|exact (G (Z.to_nat len) 0%nat)]. intros; cbv beta in *; lia.
  - intros Hl. destruct (Z.to_nat len) as [|k] eqn:E; [lia|]. cbn [seq map].
    assert (L : off <= lmin (off + Z.of_nat 0 :: map (fun i => off + Z.of_nat i) (seq 1 k))).
    { apply lmin_lower; [congruence|]. constructor; [lia|].
      eapply Forall_impl; [|exact (G k 1%nat)]. intros; cbv beta in *; lia. }
    pose proof (lmin_le (off + Z.of_nat 0) (off + Z.of_nat 0 :: map (fun i => off + Z.of_nat i) (seq 1 k)) (or_introl eq_refl)).
    lia.
Qed.

Section GlueProofs.
  Variable engine : list Z -> list Z.

  (* Shape never panics in its own slice expression, whatever the bounds, and reports the requested range *)
  Lemma shape_glue_total n rs re rtl : 0 <= n ->
    exists o, shape_glue engine n rs re rtl = Ok o /\ so_offset o = rs /\ so_count o = re - rs.
  Proof.
    intros Hn. unfold shape_glue. pose proof (shape_bounds_ok n rs re Hn) as Hb.
    destruct (shape_bounds n rs re) as [s e]. destruct Hb as (H0 & H1 & H2).
    destruct (add_runes_ok n s (e - s)) as (cl & -> & _); try lia.
    cbn [bind]. eexists. split; [reflexivity|]. split; reflexivity.
  Qed.

  (* bounds within the text: the engine sees exactly the runes [rs, re), and if its output is monotone in the run
     direction, stays inside the range and keeps the smallest cluster, every input rune is accounted for *)
  Lemma shape_glue_accounts n rs re rtl : 0 <= rs -> rs <= re -> re <= n ->
    exists inp o, add_runes_clusters n rs (re - rs) = Ok inp /\ zlen inp = re - rs
      /\ shape_glue engine n rs re rtl = Ok o
      /\ so_offset o = rs /\ so_count o = re - rs
      /\ map cg_cl (so_glyphs o) = engine inp
      /\ (mono rtl (engine inp) = true -> in_range rs re (engine inp) = true ->
          accounting_ok rtl rs re (so_glyphs o) = true
          /\ (engine inp <> [] -> lmin (engine inp) = rs -> sum_rune_counts (so_glyphs o) = re - rs)).
  Proof.
    intros H0 H1 H2. unfold shape_glue, shape_bounds.
    destruct (Z.ltb_spec re rs); [lia|]. rewrite !clamp_id by lia.
    destruct (add_runes_ok n rs (re - rs)) as (cl & E & L & _); try lia.
    exists cl. eexists. rewrite E. cbn [bind]. split; [reflexivity|]. split; [exact L|].
    split; [reflexivity|]. cbn [so_offset so_count so_glyphs].
    split; [reflexivity|]. split; [reflexivity|]. split; [apply cc_loop_clusters|].
    intros Hm Hr. split; [apply (count_clusters_accounting rtl rs re); auto|].
    intros Hne Hmin. destruct (count_clusters_correct_lemma rtl rs re (engine cl) H0 Hm Hr) as (_ & _ & _ & _ & Hiff).
    apply (Hiff Hne). exact Hmin.
  Qed.
End GlueProofs.
