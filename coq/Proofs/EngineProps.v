(* setUnicodeProps raises bsfHasNonASCII whenever it leaves a continuation glyph in the buffer (for ALL buffers and all
   Unicode data whose general categories are below 32); insertDottedCircle either does nothing or raises the flag. *)
From TV Require Import Model.Buffer Spec.Buffer Proofs.ShapeGlue Proofs.Buffer Proofs.BufferOps Proofs.BufferNewOps Proofs.BufferAll.
From TV Require Import Model.Engine Proofs.Engine.

(* the HasNonASCII component of a flag triple *)
Definition na (f : bool * bool * bool) : bool := fst (fst f).

Lemma small_bit x n : 0 <= x < 32 -> 5 <= n -> Z.testbit x n = false.
Proof.
  intros Hx Hn. destruct (Z.eq_dec x 0) as [->|N]; [apply Z.testbit_0_l|].
  apply Z.bits_above_log2; [lia|].
  assert (Z.log2 x < 5) by (apply Z.log2_lt_pow2; [lia|change (2 ^ 5) with 32; lia]). lia.
Qed.

Lemma in_rng_out lo hi x : x < lo \/ hi < x -> in_rng lo hi x = false.
Proof.
  intros H. unfold in_rng. destruct (Z.leb_spec lo x); destruct (Z.leb_spec x hi); cbn [andb]; try reflexivity; lia.
Qed.

Lemma no_cont_groups_uniform l : Forall (fun g => is_cont g = false) l -> groups_uniform l = true.
Proof.
  induction l as [|a l IH]; intros H; [reflexivity|].
  inversion H as [|? ? Ha Hl]; subst. destruct l as [|b r]; [reflexivity|].
  change (groups_uniform (a :: b :: r)) with ((negb (is_cont b) || (cl a =? cl b)) && groups_uniform (b :: r)).
  rewrite (IH Hl). inversion Hl as [|? ? Hb _]; subst. rewrite Hb. reflexivity.
Qed.

Lemma sf_nonascii_or_scratch e f : sf_nonascii (or_scratch e f) = sf_nonascii e || na f.
Proof. destruct f as [[a d] c]. reflexivity. Qed.

Section EngineProps.
  Variable ugc : Z -> Z.
  Variable udi : Z -> bool.
  Variable umcc : Z -> Z.
  Variable uextpict : Z -> bool.
  Variable nominal : Z -> Z * bool.

  Lemma compute_props_lt u : u < 128 -> compute_props ugc udi umcc u = (ugc u, (false, false, false)).
  Proof. intros H. unfold compute_props. destruct (Z.ltb_spec u 128); [reflexivity|lia]. Qed.

  Lemma compute_props_ge u : 128 <= u -> na (snd (compute_props ugc udi umcc u)) = true.
  Proof.
    intros H. unfold compute_props. destruct (Z.ltb_spec u 128); [lia|].
    destruct (udi u); [|reflexivity].
    destruct (u =? 8204); [reflexivity|]. destruct (u =? 8205); [reflexivity|].
    destruct (_ || _); [reflexivity|]. destruct (in_rng _ _ _); [reflexivity|]. destruct (u =? 847); reflexivity.
  Qed.

  (* the flags are only or-ed, and a continuation glyph in the result forces HasNonASCII *)
  Lemma sup_loop_na : (forall u, 0 <= ugc u < 32) ->
    forall n l first prev fl, (length l <= n)%nat ->
    na (snd (sup_loop ugc udi umcc uextpict first prev l fl)) = false ->
    na fl = false /\ Forall (fun g => is_cont g = false) (fst (sup_loop ugc udi umcc uextpict first prev l fl)).
  Proof.
    intros Hgc. induction n as [|n IH]; intros l first prev fl Hn.
    - destruct l; [cbn [sup_loop fst snd]; auto|cbn in Hn; lia].
    - destruct l as [|g r]; [cbn [sup_loop fst snd]; auto|]. cbn [length] in Hn.
      destruct fl as [[a d] c].
      destruct (Z.ltb_spec (cp g) 128) as [Hlt|Hge].
      + (* an ASCII glyph: no branch of the loop applies, its props are its general category *)
        cbn [sup_loop]. rewrite (compute_props_lt _ Hlt).
        rewrite (in_rng_out 127995 127999) by lia. rewrite andb_false_r.
        assert (Hri : is_ri (cp g) = false) by (apply in_rng_out; lia). rewrite Hri, andb_false_r.
        unfold is_zwj. cbn [up set_up]. rewrite (small_bit _ 8 (Hgc (cp g))) by lia. rewrite andb_false_r.
        rewrite (in_rng_out 65438 65439), (in_rng_out 917536 917631) by lia. cbn [orb].
        pose proof (IH r false (set_up g (ugc (cp g))) (a || false, d || false, c || false) ltac:(lia)) as H.
        destruct (sup_loop ugc udi umcc uextpict false _ r _) as [t fl2]. cbn [fst snd] in *.
        intros E. destruct (H E) as [Ha Ht]. split.
        * unfold na in *. cbn [fst] in *. rewrite orb_false_r in Ha. exact Ha.
        * constructor; [|exact Ht]. unfold is_cont. cbn [up set_up]. apply small_bit; [apply Hgc|lia].
      + (* a non-ASCII glyph: the flag is raised *)
        intros E. exfalso. revert E. cbn [sup_loop].
        pose proof (compute_props_ge _ Hge) as Hf.
        destruct (compute_props ugc udi umcc (cp g)) as [p f]. destruct f as [[a' d'] c'].
        unfold na in Hf. cbn [fst snd] in Hf. subst a'. rewrite orb_true_r.
        assert (R : forall first' prev' g' d1 c1,
                  na (snd (let '(t, fl2) := sup_loop ugc udi umcc uextpict first' prev' r (true, d1, c1) in (g' :: t, fl2))) = false -> False).
        { intros first' prev' g' d1 c1. pose proof (IH r first' prev' (true, d1, c1) ltac:(lia)) as H.
          destruct (sup_loop ugc udi umcc uextpict first' prev' r (true, d1, c1)) as [t fl2]. cbn [fst snd] in *.
          intros E. destruct (H E) as [Ha _]. discriminate Ha. }
        destruct (_ && in_rng 127995 127999 (cp g)); [apply R|].
        destruct (negb first && is_ri (cp g)).
        { destruct (_ && _); apply R. }
        destruct (is_zwj _).
        { destruct r as [|h r']; [cbn [snd na fst]; discriminate|].
          destruct (uextpict (cp h)); [|apply R].
          destruct (compute_props ugc udi umcc (cp h)) as [p' f']. destruct f' as [[a'' d''] c''].
          cbn [length] in Hn. cbn [orb].
          pose proof (IH r' false (set_cont (set_up h p')) (true, d || d' || d'', c || c' || c'') ltac:(lia)) as H.
          destruct (sup_loop ugc udi umcc uextpict false _ r' _) as [t fl2]. cbn [fst snd] in *.
          intros E. destruct (H E) as [Ha _]. discriminate Ha. }
        destruct (_ || _); apply R.
  Qed.

  Lemma set_unicode_props_nonascii e : (forall u, 0 <= ugc u < 32) ->
    sf_nonascii (set_unicode_props ugc udi umcc uextpict e) = false ->
    Forall (fun g => is_cont g = false) (info (eb (set_unicode_props ugc udi umcc uextpict e))).
  Proof.
    intros Hgc. unfold set_unicode_props.
    pose proof (sup_loop_na Hgc (length (info (eb e))) (info (eb e)) true g0 (false, false, false) (le_n _)) as H.
    destruct (sup_loop ugc udi umcc uextpict true g0 (info (eb e)) (false, false, false)) as [l f]. cbn [fst snd] in H.
    rewrite sf_nonascii_or_scratch, eb_or_scratch. cbn [sf_nonascii with_eb eb info with_info].
    intros E. apply orb_false_elim in E. destruct E as [_ E]. exact (proj2 (H E)).
  Qed.

  Lemma insert_dotted_circle_nonascii e e' :
    insert_dotted_circle ugc udi umcc nominal e = Ok e' -> e' = e \/ sf_nonascii e' = true.
  Proof.
    unfold insert_dotted_circle.
    destruct (f_no_dc e); [intros E; inversion E; auto|].
    destruct (_ || _ || (zlen (info (eb e)) =? 0) || _); [intros E; inversion E; auto|].
    destruct (negb (snd (nominal 9676))); [intros E; inversion E; auto|].
    pose proof (compute_props_ge 9676 ltac:(lia)) as Hf.
    destruct (compute_props ugc udi umcc 9676) as [p f]. cbn [snd] in Hf.
    destruct (clear_output (eb e)) as [b1| | |]; cbn [bind]; try discriminate.
    destruct (getg (info b1) 0) as [g| | |]; cbn [bind]; try discriminate.
    destruct (swap_buffers _) as [b2| | |]; cbn [bind]; try discriminate.
    intros E. inversion E. right. cbn [with_eb sf_nonascii]. rewrite sf_nonascii_or_scratch, Hf. apply orb_true_r.
  Qed.
End EngineProps.

Check set_unicode_props_nonascii.
Check no_cont_groups_uniform.
Check insert_dotted_circle_nonascii.
Print Assumptions set_unicode_props_nonascii.
Print Assumptions insert_dotted_circle_nonascii.
Print Assumptions no_cont_groups_uniform.
