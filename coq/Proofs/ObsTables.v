(* Table facts behind C06: the observation of a rune computed from the regenerated tables (Model/ObsOfRune.v)
   satisfies the hypotheses obs_wf_g / obs_wf_l / obs_wf_w of the segmenter theorems, for EVERY rune (int32).
   Method: boolean side conditions decided on the RANGE tables by kernel computation (disjointness of a table from a
   class family after sorting all ranges; the expanded intervals of a one-rune class; the position of a class in its
   list), lifted to all code points by the lemmas of Proofs/Unicode.v (unicode.Is = membership, lookups = linear
   scans, class uniqueness).  Nothing here evaluates a lookup at more than the five runes 0, 10, 13, U+200D, U+2029. *)
From Coq Require Import Sorting.Permutation.
From TV Require Import Lib.GoNum Lib.Res Model.Unicode Model.Lang Spec.Unicode Proofs.Unicode.
From TV Require Import Model.ObsOfRune Spec.UAX14 Spec.UAX29.
From TV Require Import Model.Segmenter Proofs.SegG Proofs.SegL Proofs.SegW.
Open Scope Z_scope.

(* ============================================================================================== *)
(* 1. generic lemmas on class families *)

Fixpoint nodupb (l : list nat) : bool :=
  match l with [] => true | x :: t => negb (existsb (Nat.eqb x) t) && nodupb t end.

Lemma nodupb_sound l : nodupb l = true -> NoDup l.
Proof.
  induction l as [|x t IH]; intro H; [constructor|].
  cbn [nodupb] in H. apply andb_prop in H as [H1 H2]. constructor; [|apply IH; exact H2].
  intro Hin. apply negb_true_iff in H1. assert (existsb (Nat.eqb x) t = true); [|congruence].
  apply existsb_exists. exists x. split; [exact Hin|apply Nat.eqb_refl].
Qed.

Lemma nodup_fst_inj {B} (o : list (nat * B)) : NoDup (map fst o) ->
  forall p q, In p o -> In q o -> fst p = fst q -> p = q.
Proof.
  induction o as [|x o IH]; intros N p q Hp Hq E; [contradiction|].
  cbn [map] in N. inversion N as [|? ? Hnot N']; subst.
  destruct Hp as [->|Hp]; destruct Hq as [->|Hq].
  - reflexivity.
  - exfalso. apply Hnot. rewrite E. apply in_map. exact Hq.
  - exfalso. apply Hnot. rewrite <- E. apply in_map. exact Hp.
  - apply IH; assumption.
Qed.

(* a family whose ids are pairwise distinct: the scan returns id i exactly on the runes of the table listed under i *)
Definition family_ids_ok (o : list (nat * rtab)) : bool := family_ok o && nodupb (map fst o).

Lemma scan_iff_mem o r i t : family_ids_ok o = true -> In (i, t) o ->
  (scan_classes o r = Some i <-> mem t r = true).
Proof.
  unfold family_ids_ok. intros H Hin. apply andb_prop in H as [Hf Hn]. apply nodupb_sound in Hn. split.
  - intro Hs. destruct (Proofs.Unicode.scan_some _ _ _ Hs) as [p [Hp [Hi Hm]]].
    assert (p = (i, t)) as -> by (apply (nodup_fst_inj o Hn); [exact Hp|exact Hin|exact Hi]). exact Hm.
  - intro Hm. destruct (scan_classes o r) as [j|] eqn:Hs.
    + destruct (Proofs.Unicode.scan_some _ _ _ Hs) as [q [Hq [Hj Hmq]]].
      pose proof (class_unique o r Hf (i, t) q Hin Hq Hm Hmq) as E. cbn [fst] in E. congruence.
    + pose proof (Proofs.Unicode.scan_none _ _ Hs (i, t) Hin) as E. cbn [snd] in E. congruence.
Qed.

(* a table disjoint from every class of a family: decided by adding it to the family under a fresh id *)
Definition fresh_id (o : list (nat * rtab)) : nat := S (fold_right Nat.max 0%nat (map fst o)).
Definition disjoint_from_family (t : rtab) (o : list (nat * rtab)) : bool := family_ok ((fresh_id o, t) :: o).

Lemma fresh_id_above (o : list (nat * rtab)) p : In p o -> (fst p < fresh_id o)%nat.
Proof.
  unfold fresh_id. induction o as [|x o IH]; [contradiction|]. cbn [map fold_right].
  intros [->|Hp]; [lia|]. specialize (IH Hp). lia.
Qed.

Lemma disjoint_from_family_sound t o r : disjoint_from_family t o = true -> mem t r = true -> scan_classes o r = None.
Proof.
  unfold disjoint_from_family. intros Hf Hm. destruct (scan_classes o r) as [j|] eqn:Hs; [|reflexivity]. exfalso.
  destruct (Proofs.Unicode.scan_some _ _ _ Hs) as [q [Hq [_ Hmq]]].
  pose proof (class_unique _ r Hf (fresh_id o, t) q (or_introl eq_refl) (or_intror Hq) Hm Hmq) as E. cbn [fst] in E.
  pose proof (fresh_id_above o q Hq). lia.
Qed.

(* a table that holds exactly one rune: decided on its expanded intervals *)
Definition one_rune_table (t : rtab) (a : Z) : bool :=
  table_ok t && match intervals_of t with [(x, y)] => (x =? a) && (y =? a) | _ => false end.

Lemma one_rune_table_sound t a r : one_rune_table t a = true -> (mem t r = true <-> r = a).
Proof.
  unfold one_rune_table. intro H. apply andb_prop in H as [Hok Hiv].
  apply table_ok_sound in Hok as [_ [F _]].
  destruct (intervals_of t) as [|[x y] [|]] eqn:E; try discriminate.
  apply andb_prop in Hiv as [Hx Hy]. apply Z.eqb_eq in Hx, Hy. subst x y. split.
  - intro Hm. destruct (mem_intervals t r F Hm) as [iv [Hin Hr]]. rewrite E in Hin.
    destruct Hin as [<-|[]]. unfold in_iv in Hr. cbn [fst snd] in Hr.
    apply andb_prop in Hr as [H1 H2]. apply Z.leb_le in H1, H2. lia.
  - intros ->. apply (intervals_mem t a (a, a) F); [rewrite E; left; reflexivity|].
    unfold in_iv. cbn [fst snd]. rewrite Z.leb_refl. reflexivity.
Qed.

(* unicode.Is on a table split once by computation *)
Lemma unicode_is_split_mem tab t r : tab = split_tab t -> table_ok t = true -> is_rune r ->
  unicode_is_split tab r = Ok (mem t r).
Proof. intros -> Hok Hr. exact (unicode_is_mem t r Hok Hr). Qed.

(* ============================================================================================== *)
(* 2. the side conditions, decided on the regenerated tables *)

Lemma pic_tab_eq : pic_tab = split_tab ut_Extended_Pictographic. Proof. vm_compute. reflexivity. Qed.
Lemma wide_tab_eq : wide_tab = split_tab ut_LargeEastAsian. Proof. vm_compute. reflexivity. Qed.
Lemma word_tab_eq : word_tab = split_tab ut_Word. Proof. vm_compute. reflexivity. Qed.
Lemma zwj_tab_eq : zwj_tab = split_tab lb_ZWJ. Proof. vm_compute. reflexivity. Qed.
Lemma pic_table_ok : table_ok ut_Extended_Pictographic = true. Proof. vm_compute. reflexivity. Qed.
Lemma wide_table_ok : table_ok ut_LargeEastAsian = true. Proof. vm_compute. reflexivity. Qed.
Lemma word_table_ok : table_ok ut_Word = true. Proof. vm_compute. reflexivity. Qed.
Lemma zwj_table_ok : table_ok lb_ZWJ = true. Proof. vm_compute. reflexivity. Qed.

(* Extended_Pictographic is disjoint from every grapheme break class *)
Lemma pic_disjoint_grapheme : disjoint_from_family ut_Extended_Pictographic graphemeBreaks_order = true.
Proof. vm_compute. reflexivity. Qed.

(* ids are pairwise distinct in the three break families *)
Lemma lineBreaks_ids_ok : family_ids_ok lineBreaks_order = true. Proof. vm_compute. reflexivity. Qed.
Lemma graphemeBreaks_ids_ok : family_ids_ok graphemeBreaks_order = true. Proof. vm_compute. reflexivity. Qed.
Lemma wordBreaks_ids_ok : family_ids_ok wordBreaks_order = true. Proof. vm_compute. reflexivity. Qed.
Lemma categories_ids_ok : family_ids_ok categories_order = true. Proof. vm_compute. reflexivity. Qed.

(* positions of the classes the rules name, in the library's class lists (ids as used by lbc_list / gbc_list) *)
Lemma pos_lb_LF : In (2%nat, lb_LF) lineBreaks_order. Proof. apply (nth_error_In _ 2). reflexivity. Qed.
Lemma pos_lb_ZWJ : In (31%nat, lb_ZWJ) lineBreaks_order. Proof. apply (nth_error_In _ 31). reflexivity. Qed.
Lemma pos_gb_CR : In (0%nat, gb_CR) graphemeBreaks_order. Proof. apply (nth_error_In _ 0). reflexivity. Qed.
Lemma pos_gb_LF : In (4%nat, gb_LF) graphemeBreaks_order. Proof. apply (nth_error_In _ 4). reflexivity. Qed.
Lemma pos_gc_Mc : In (cat_Mc, gc_Mc) categories_order. Proof. apply (nth_error_In _ 9). reflexivity. Qed.
Lemma pos_gc_Mn : In (cat_Mn, gc_Mn) categories_order. Proof. apply (nth_error_In _ 11). reflexivity. Qed.

(* exact content of the one-rune classes *)
Lemma gb_CR_content : one_rune_table gb_CR 13 = true. Proof. vm_compute. reflexivity. Qed.
Lemma gb_LF_content : one_rune_table gb_LF 10 = true. Proof. vm_compute. reflexivity. Qed.
Lemma lb_LF_content : one_rune_table lb_LF 10 = true. Proof. vm_compute. reflexivity. Qed.
Lemma lb_ZWJ_content : one_rune_table lb_ZWJ 8205 = true. Proof. vm_compute. reflexivity. Qed.

(* word classes of CR, LF, U+200D (three point evaluations of the linear scan) *)
Lemma wb_of_CR : scan_classes wordBreaks_order 13 = Some 9%nat. Proof. vm_compute. reflexivity. Qed.
Lemma wb_of_LF : scan_classes wordBreaks_order 10 = Some 9%nat. Proof. vm_compute. reflexivity. Qed.
Lemma wb_of_ZWJ : scan_classes wordBreaks_order 8205 = Some 2%nat. Proof. vm_compute. reflexivity. Qed.

(* ============================================================================================== *)
(* 3. the observation as linear scans and memberships *)

Definition obs_scan (r : Z) : obs :=
  mkObs (lbc_of_id (match scan_classes lineBreaks_order r with Some i => i | None => lineBreaks_default end))
        (match scan_classes categories_order r with Some c => Nat.eqb c cat_Mn || Nat.eqb c cat_Mc | None => false end)
        (match scan_classes categories_order r with Some _ => false | None => true end)
        (mem ut_LargeEastAsian r) (mem ut_Extended_Pictographic r) (mem lb_ZWJ r)
        (gbc_of_lookup (scan_classes graphemeBreaks_order r))
        (wbc_of_lookup (scan_classes wordBreaks_order r))
        (r =? 10) (r =? 13) (r =? 8205) (r =? 34)
        (mem ut_Word r).

Lemma obs_of_rune_res_scan r : is_rune r -> obs_of_rune_res r = Ok (obs_scan r).
Proof.
  intro Hr. unfold obs_of_rune_res.
  rewrite (lookup_line_break_scan r Hr). cbn [bind].
  rewrite (lookup_type_scan r Hr). cbn [bind].
  rewrite (unicode_is_split_mem _ _ r wide_tab_eq wide_table_ok Hr). cbn [bind].
  rewrite (unicode_is_split_mem _ _ r pic_tab_eq pic_table_ok Hr). cbn [bind].
  rewrite (unicode_is_split_mem _ _ r zwj_tab_eq zwj_table_ok Hr). cbn [bind].
  rewrite (lookup_grapheme_break_scan r Hr). cbn [bind].
  rewrite (lookup_word_break_scan r Hr). cbn [bind].
  rewrite (unicode_is_split_mem _ _ r word_tab_eq word_table_ok Hr). cbn [bind].
  reflexivity.
Qed.

Lemma obs_of_rune_scan r : is_rune r -> obs_of_rune r = obs_scan r.
Proof. intro Hr. unfold obs_of_rune. rewrite (obs_of_rune_res_scan r Hr). reflexivity. Qed.

Lemma obs_of_rune_total_lemma : forall r, is_rune r -> obs_of_rune_res r = Ok (obs_of_rune r).
Proof. intros r Hr. rewrite (obs_of_rune_scan r Hr). exact (obs_of_rune_res_scan r Hr). Qed.

(* ============================================================================================== *)
(* 4. class constructors and ids *)

Lemma lbc_of_id_ZWJ i : lbc_beq (lbc_of_id i) LB_ZWJ = Nat.eqb i 31.
Proof. unfold lbc_of_id, lbc_list. do 44 (destruct i as [|i]; [reflexivity|]). destruct i; reflexivity. Qed.
Lemma lbc_of_id_LF i : lbc_beq (lbc_of_id i) LB_LF = Nat.eqb i 2.
Proof. unfold lbc_of_id, lbc_list. do 44 (destruct i as [|i]; [reflexivity|]). destruct i; reflexivity. Qed.
Lemma gbc_of_lookup_CR c : gbc_beq (gbc_of_lookup c) GB_CR = match c with Some i => Nat.eqb i 0 | None => false end.
Proof. destruct c as [i|]; [|reflexivity]. unfold gbc_of_lookup, gbc_list. do 14 (destruct i as [|i]; [reflexivity|]). destruct i; reflexivity. Qed.
Lemma gbc_of_lookup_LF c : gbc_beq (gbc_of_lookup c) GB_LF = match c with Some i => Nat.eqb i 4 | None => false end.
Proof. destruct c as [i|]; [|reflexivity]. unfold gbc_of_lookup, gbc_list. do 14 (destruct i as [|i]; [reflexivity|]). destruct i; reflexivity. Qed.

Lemma some_eqb_iff (c : option nat) k : match c with Some i => Nat.eqb i k | None => false end = true <-> c = Some k.
Proof.
  destruct c as [i|]; [|split; discriminate]. rewrite Nat.eqb_eq. split; [intros ->; reflexivity|intro H; inversion H; reflexivity].
Qed.

(* ============================================================================================== *)
(* 5. the three hypotheses of the segmenter theorems, for every rune *)

Lemma obs_scan_wf_g r : obs_wf_g (obs_scan r) = true.
Proof.
  unfold obs_wf_g. unfold obs_scan at 1 2 3 4 5 6. cbn [o_pic o_gb o_cr o_lf].
  apply andb_true_intro; split; [apply andb_true_intro; split|].
  - destruct (mem ut_Extended_Pictographic r) eqn:E; [|reflexivity].
    rewrite (disjoint_from_family_sound _ _ r pic_disjoint_grapheme E). reflexivity.
  - apply Bool.eqb_true_iff, Bool.eq_true_iff_eq. rewrite gbc_of_lookup_CR, some_eqb_iff, Z.eqb_eq.
    rewrite (scan_iff_mem _ r _ _ graphemeBreaks_ids_ok pos_gb_CR).
    symmetry. apply one_rune_table_sound. exact gb_CR_content.
  - apply Bool.eqb_true_iff, Bool.eq_true_iff_eq. rewrite gbc_of_lookup_LF, some_eqb_iff, Z.eqb_eq.
    rewrite (scan_iff_mem _ r _ _ graphemeBreaks_ids_ok pos_gb_LF).
    symmetry. apply one_rune_table_sound. exact gb_LF_content.
Qed.

Lemma default_not (k : nat) c : Nat.eqb lineBreaks_default k = false ->
  (Nat.eqb (match c with Some i => i | None => lineBreaks_default end) k = true <-> c = Some k).
Proof.
  intro Hd. destruct c as [i|].
  - rewrite Nat.eqb_eq. split; [intros ->; reflexivity|intro H; inversion H; reflexivity].
  - rewrite Hd. split; discriminate.
Qed.

Lemma obs_scan_wf_l r : obs_wf_l (obs_scan r) = true.
Proof.
  unfold obs_wf_l. unfold obs_scan at 1 2 3 4. cbn [o_zwjtab o_lb o_lf].
  apply andb_true_intro; split.
  - apply Bool.eqb_true_iff, Bool.eq_true_iff_eq. rewrite lbc_of_id_ZWJ, (default_not 31 _ eq_refl).
    rewrite (scan_iff_mem _ r _ _ lineBreaks_ids_ok pos_lb_ZWJ). reflexivity.
  - apply Bool.eqb_true_iff, Bool.eq_true_iff_eq. rewrite lbc_of_id_LF, (default_not 2 _ eq_refl), Z.eqb_eq.
    rewrite (scan_iff_mem _ r _ _ lineBreaks_ids_ok pos_lb_LF).
    symmetry. apply one_rune_table_sound. exact lb_LF_content.
Qed.

Lemma obs_scan_wf_w r : obs_wf_w (obs_scan r) = true.
Proof.
  unfold obs_wf_w, wb_is. unfold obs_scan at 1 2 3 4 5 6. cbn [o_cr o_lf o_zwj o_wb].
  apply andb_true_intro; split; [apply andb_true_intro; split|].
  - destruct (r =? 13) eqn:E; [|reflexivity]. apply Z.eqb_eq in E. subst r. rewrite wb_of_CR. reflexivity.
  - destruct (r =? 10) eqn:E; [|reflexivity]. apply Z.eqb_eq in E. subst r. rewrite wb_of_LF. reflexivity.
  - destruct (r =? 8205) eqn:E; [|reflexivity]. apply Z.eqb_eq in E. subst r. rewrite wb_of_ZWJ. reflexivity.
Qed.

Lemma obs_of_rune_wf_g_lemma : forall r, is_rune r -> obs_wf_g (obs_of_rune r) = true.
Proof. intros r Hr. rewrite (obs_of_rune_scan r Hr). apply obs_scan_wf_g. Qed.
Lemma obs_of_rune_wf_l_lemma : forall r, is_rune r -> obs_wf_l (obs_of_rune r) = true.
Proof. intros r Hr. rewrite (obs_of_rune_scan r Hr). apply obs_scan_wf_l. Qed.
Lemma obs_of_rune_wf_w_lemma : forall r, is_rune r -> obs_wf_w (obs_of_rune r) = true.
Proof. intros r Hr. rewrite (obs_of_rune_scan r Hr). apply obs_scan_wf_w. Qed.

(* the two sentinels of the segmenter model *)
Lemma obs_of_rune_sentinels_lemma : obs_of_rune 0 = obs_nul /\ obs_of_rune 8233 = obs_psep.
Proof. split; vm_compute; reflexivity. Qed.

(* what the flags mean, as memberships in the regenerated tables *)
Lemma obs_of_rune_flags_lemma : forall r, is_rune r ->
  o_pic (obs_of_rune r) = mem ut_Extended_Pictographic r /\
  o_wide (obs_of_rune r) = mem ut_LargeEastAsian r /\
  o_word (obs_of_rune r) = mem ut_Word r /\
  o_zwjtab (obs_of_rune r) = (r =? 8205) /\
  o_mnmc (obs_of_rune r) = (mem gc_Mn r || mem gc_Mc r) /\
  (o_cn (obs_of_rune r) = true <-> forall p : nat * rtab, In p categories_order -> mem (snd p) r = false).
Proof.
  intros r Hr. rewrite (obs_of_rune_scan r Hr). unfold obs_scan. cbn [o_pic o_wide o_word o_zwjtab o_mnmc o_cn].
  repeat split; try reflexivity.
  - apply Bool.eq_true_iff_eq. rewrite Z.eqb_eq. apply one_rune_table_sound. exact lb_ZWJ_content.
  - apply Bool.eq_true_iff_eq. rewrite Bool.orb_true_iff.
    rewrite <- (scan_iff_mem _ r _ _ categories_ids_ok pos_gc_Mn), <- (scan_iff_mem _ r _ _ categories_ids_ok pos_gc_Mc).
    destruct (scan_classes categories_order r) as [c|]; [|split; [discriminate|intros [H|H]; discriminate]].
    rewrite Bool.orb_true_iff, !Nat.eqb_eq. split; (intros [H|H]; [left|right]); congruence.
  - destruct (scan_classes categories_order r) as [c|] eqn:E; [discriminate|]. intros _. exact (Proofs.Unicode.scan_none _ _ E).
  - intro H. destruct (scan_classes categories_order r) as [c|] eqn:E; [|reflexivity].
    destruct (Proofs.Unicode.scan_some _ _ _ E) as [p [Hp [_ Hm]]]. rewrite (H p Hp) in Hm. discriminate.
Qed.

(* ============================================================================================== *)
(* 6. the hypotheses over rune strings *)

Lemma forallb_map_runes (P : obs -> bool) : (forall r, is_rune r -> P (obs_of_rune r) = true) ->
  forall runes, Forall is_rune runes -> forallb P (map obs_of_rune runes) = true.
Proof.
  intros H runes F. induction F as [|r t Hr _ IH]; [reflexivity|].
  cbn [map forallb]. rewrite (H r Hr), IH. reflexivity.
Qed.

Lemma grapheme_runes_lemma : forall runes, Forall is_rune runes ->
  exists attrs, compute_attrs (map obs_of_rune runes) = Ok attrs /\
                map a_grapheme attrs = gb_spec (map obs_of_rune runes).
Proof. intros runes F. apply grapheme_lemma. exact (forallb_map_runes _ obs_of_rune_wf_g_lemma runes F). Qed.

Lemma word_runes_lemma : forall runes, Forall is_rune runes ->
  exists attrs, compute_attrs (map obs_of_rune runes) = Ok attrs /\
                map a_word attrs = wb_spec (map obs_of_rune runes).
Proof. intros runes F. apply word_lemma. exact (forallb_map_runes _ obs_of_rune_wf_w_lemma runes F). Qed.

Lemma line_runes_lemma : forall runes, Forall is_rune runes ->
  exists attrs, compute_attrs (map obs_of_rune runes) = Ok attrs /\
                map (fun a => (a_line a, a_mandatory a)) attrs = map flags_of (lb_spec (map obs_of_rune runes)).
Proof. intros runes F. apply line_lemma. exact (forallb_map_runes _ obs_of_rune_wf_l_lemma runes F). Qed.
