(* C02: the empty paragraph (n = 0: a single break attribute, no runs), excluded from lines_contiguous / wrap_terminates
   by 1 <= n.  What the model (and the implementation) returns: done at once, NextLine = 0, Truncated = 0, the nil line —
   or the truncator alone when TruncateAfterLines = 1 and TextContinues. *)
From TV Require Import Model.Wrap Spec.Wrap Proofs.Wrap Proofs.WrapLines.

Definition empty_result (cfg : wcfg) : wrapped :=
  if (c_trunc cfg =? 1) && c_cont cfg then
    let t := c_truncator cfg in
    mkWrapped (Some [mkOut (o_adv t) (o_dir t) 0 0 (o_src t) (o_lo t) (o_len t) 0]) 0 0
  else mkWrapped None 0 0.

Lemma runs_ok_0 : forall runs, runs_ok runs 0 -> runs = [].
Proof.
  intros runs [C P]. destruct runs as [|r rs]; [reflexivity|]. exfalso.
  pose proof (chain_pos_lt _ _ _ C P ltac:(discriminate)). lia.
Qed.

Lemma empty_first : forall w cfg attrs mw, zlen attrs - 1 = 0 ->
  exists w', wrap_next_line (prepare w cfg attrs [] 0 0) mw = Ok (w', empty_result cfg, true)
             /\ w_more w' = false /\ w_start w' = 0.
Proof.
  intros w cfg attrs mw Hn. unfold wrap_next_line, prepare. cbn [w_more negb peek w_runs w_idx zlen length Z.of_nat Z.leb].
  unfold peek; cbn [w_runs w_idx]. change (zlen (@nil out) <=? 0) with true. cbn [negb].
  unfold post_process. cbn [w_cfg w_br b_n new_breaker w_start w_truncating set_cfg set_more]. rewrite Hn.
  unfold empty_result. cbn [orb Z.leb].
  destruct (0 <? c_trunc cfg) eqn:T.
  - destruct (c_trunc cfg - 1 =? 0) eqn:K.
    + apply Z.eqb_eq in K. replace (c_trunc cfg =? 1) with true by (symmetry; apply Z.eqb_eq; lia). cbn [andb].
      change (0 <? 0 - 0) with false. cbn [orb].
      destruct (c_cont cfg).
      * match goal with |- exists w', Ok (?x, _, _) = _ /\ _ => exists x end. split; [|split; reflexivity]. cbn. f_equal. f_equal. f_equal.
        unfold compute_bidi_ordering. cbn. repeat match goal with |- context [if ?c then _ else _] => destruct c end; reflexivity.
      * match goal with |- exists w', Ok (?x, _, _) = _ /\ _ => exists x end. split; [|split; reflexivity]. reflexivity.
    + apply Z.eqb_neq in K. replace (c_trunc cfg =? 1) with false by (symmetry; apply Z.eqb_neq; lia). cbn [andb].
      match goal with |- exists w', Ok (?x, _, _) = _ /\ _ => exists x end. split; [|split; reflexivity]. reflexivity.
  - apply Z.ltb_ge in T. replace (c_trunc cfg =? 1) with false by (symmetry; apply Z.eqb_neq; lia). cbn [andb].
    match goal with |- exists w', Ok (?x, _, _) = _ /\ _ => exists x end. split; [|split; reflexivity]. reflexivity.
Qed.

Lemma after_done : forall widths w, w_more w = false ->
  run_calls w widths = Ok (w, map (fun _ => (mkWrapped None 0 (w_start w), true)) widths).
Proof.
  induction widths as [|mw rest IH]; intros w Hm; cbn [run_calls map]; [reflexivity|].
  unfold wrap_next_line. rewrite Hm. cbn [negb bind]. rewrite (IH w Hm). reflexivity.
Qed.

Lemma empty_calls : forall w cfg attrs runs mw widths,
  runs_ok runs 0 -> zlen attrs - 1 = 0 ->
  exists w', run_calls (prepare w cfg attrs runs 0 0) (mw :: widths)
             = Ok (w', (empty_result cfg, true) :: map (fun _ => (mkWrapped None 0 0, true)) widths).
Proof.
  intros w cfg attrs runs mw widths HR Hn. rewrite (runs_ok_0 runs HR).
  destruct (empty_first w cfg attrs mw Hn) as (w' & E & M & S).
  exists w'. cbn [run_calls]. rewrite E. cbn [bind]. rewrite (after_done widths w' M), S. reflexivity.
Qed.

Lemma empty_wrap : forall w cfg attrs runs mw,
  runs_ok runs 0 -> zlen attrs - 1 = 0 ->
  exists w', wrap_paragraph w cfg mw attrs runs
             = Ok (w', match wl_line (empty_result cfg) with Some l => [l] | None => [] end, 0).
Proof.
  intros w cfg attrs runs mw HR Hn. rewrite (runs_ok_0 runs HR).
  destruct (empty_first w cfg attrs mw Hn) as (w' & E & M & St0). exists w'.
  unfold wrap_paragraph.
  replace (if negb (c_cont cfg && (c_trunc cfg =? 1)) then
             if negb (has_mandatory (S (length attrs)) (new_breaker attrs)) then
               match @nil out with [first] => if ceil26 (o_adv first) <=? mw then Some first else None | _ => None end
             else None else None) with (@None out) by (destruct (negb _); [destruct (negb _)|]; reflexivity).
  unfold para_fuel. cbn [paragraph_loop]. rewrite E. cbn [bind].
  assert (T : wl_truncated (empty_result cfg) = 0) by (unfold empty_result; destruct (_ && _); reflexivity).
  rewrite T. destruct (wl_line (empty_result cfg)); reflexivity.
Qed.
