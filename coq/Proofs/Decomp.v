(* Lemmas for C20: mirroring, Hangul, canonical composition / decomposition. *)
From TV Require Import Lib.GoNum Lib.Res Model.Unicode Model.Lang Spec.Unicode.

(* ============================================================================================== *)
(* 9. mirroring *)

Lemma assoc_in {V} k (l : list (Z * V)) v : assoc k l = Some v -> In (k, v) l.
Proof.
  induction l as [|[k' v'] l IH]; [discriminate|]. cbn [assoc]. destruct (k =? k') eqn:E.
  - apply Z.eqb_eq in E. intro H; inversion H; subst. left; reflexivity.
  - intro H. right. apply IH. exact H.
Qed.
Lemma assoc2_in {V} a b (l : list ((Z * Z) * V)) v : assoc2 a b l = Some v -> In ((a, b), v) l.
Proof.
  induction l as [|[[a' b'] v'] l IH]; [discriminate|]. cbn [assoc2]. destruct ((a =? a') && (b =? b')) eqn:E.
  - apply andb_prop in E as [E1 E2]. apply Z.eqb_eq in E1, E2. intro H; inversion H; subst. left; reflexivity.
  - intro H. right. apply IH. exact H.
Qed.

Definition mirror_table_ok : bool :=
  forallb (fun p => match assoc (snd p) mirroring_pairs with Some m => m =? fst p | None => false end) mirroring_pairs.
Lemma mirror_table_ok_true : mirror_table_ok = true. Proof. vm_compute. reflexivity. Qed.

Lemma mirror_involution_lemma : forall c : Z,
  fst (lookup_mirror (fst (lookup_mirror c))) = c
  /\ (snd (lookup_mirror c) = true -> lookup_mirror (fst (lookup_mirror c)) = (c, true)).
Proof.
  intro c. unfold lookup_mirror at 2 4 5. destruct (assoc c mirroring_pairs) as [m|] eqn:E; cbn [fst snd].
  - apply assoc_in in E. pose proof mirror_table_ok_true as H. unfold mirror_table_ok in H.
    rewrite forallb_forall in H. specialize (H _ E). cbn [fst snd] in H.
    unfold lookup_mirror. destruct (assoc m mirroring_pairs) as [m'|]; [|discriminate].
    apply Z.eqb_eq in H. subst. split; reflexivity.
  - unfold lookup_mirror. rewrite E. split; [reflexivity|discriminate].
Qed.

(* ============================================================================================== *)
(* 10. Hangul and canonical (de)composition *)

Lemma mod32_neg x : -4294967296 <= x < 0 -> x mod 4294967296 = x + 4294967296.
Proof.
  intro H. rewrite <- (Z.mod_small (x + 4294967296) 4294967296) by lia.
  rewrite <- (Z_mod_plus_full x 1 4294967296). reflexivity.
Qed.

Lemma sint32_id x : -2147483648 <= x < 2147483648 -> sint32 x = x.
Proof.
  intro H. unfold sint32, wrap32.
  destruct (Z_lt_dec x 0).
  - rewrite mod32_neg by lia.
    destruct (x + 4294967296 <? 2147483648) eqn:E; [apply Z.ltb_lt in E|apply Z.ltb_ge in E]; lia.
  - rewrite Z.mod_small by lia. destruct (x <? 2147483648) eqn:E; [apply Z.ltb_lt in E|apply Z.ltb_ge in E]; lia.
Qed.

Lemma hangul_si c : is_rune c -> 0 <= sint32 (c - HangulSBase) < HangulSCount -> sint32 (c - HangulSBase) = c - HangulSBase.
Proof.
  unfold is_rune, HangulSBase, HangulSCount. intros Hc Hsi.
  destruct (Z_le_dec (-2147483648) (c - 44032)); [apply sint32_id; lia|].
  exfalso. unfold sint32, wrap32 in Hsi. rewrite mod32_neg in Hsi by lia.
  destruct (c - 44032 + 4294967296 <? 2147483648) eqn:E; [apply Z.ltb_lt in E|apply Z.ltb_ge in E]; lia.
Qed.

(* name quotient and remainder of x by the constant d, keeping only their linear characterisation *)
Ltac divmod x d q m :=
  pose proof (Z.div_mod x d ltac:(lia)) as ?Hdm; pose proof (Z.mod_pos_bound x d ltac:(lia)) as ?Hmb;
  set (q := x / d) in *; set (m := x mod d) in *; clearbody q m.

Lemma hangul_decompose_compose : forall c a b, is_rune c ->
  decompose_hangul c = (a, b, true) -> compose_hangul a b = (c, true).
Proof.
  intros c a b Hc. unfold decompose_hangul. pose proof (hangul_si c Hc) as Hsi.
  set (si := sint32 (c - HangulSBase)) in *.
  destruct ((si <? 0) || (si >=? HangulSCount)) eqn:E0; [discriminate|].
  apply orb_false_iff in E0 as [E1 E2]. apply Z.ltb_ge in E1. rewrite Z.geb_leb in E2. apply Z.leb_gt in E2.
  specialize (Hsi (conj E1 E2)). clearbody si.
  assert (Hcs : c = si + HangulSBase) by lia. subst c. clear Hsi Hc.
  unfold HangulSBase, HangulSCount, HangulTCount, HangulNCount, HangulLBase, HangulVBase, HangulTBase in *.
  rewrite Z.rem_mod_nonneg, !Z.quot_div_nonneg by lia.
  assert (0 <= si mod 588) by (apply Z.mod_pos_bound; lia).
  rewrite Z.rem_mod_nonneg, Z.quot_div_nonneg by lia.
  unfold compose_hangul, HangulSBase, HangulSCount, HangulTCount, HangulNCount, HangulLBase, HangulVBase, HangulTBase, HangulLCount, HangulVCount.
  destruct (negb (si mod 28 =? 0)) eqn:E3; intro Hx; apply pair_equal_spec in Hx as [Hx _];
    apply pair_equal_spec in Hx as [Ha Hb]; subst a b.
  - apply negb_true_iff in E3. apply Z.eqb_neq in E3.
    replace (44032 + si / 28 * 28 - 44032) with (si / 28 * 28) by lia.
    rewrite Z.rem_mod_nonneg by (try apply Z.mul_nonneg_nonneg; try apply Z.div_pos; lia). rewrite Z.mod_mul by lia.
    divmod si 28 q m.
    replace (44032 + q * 28 >=? 44032) with true by (symmetry; rewrite Z.geb_leb; apply Z.leb_le; lia).
    replace (44032 + q * 28 <? 44032 + 11172) with true by (symmetry; apply Z.ltb_lt; lia).
    replace (4519 + m >? 4519) with true by (symmetry; rewrite Z.gtb_ltb; apply Z.ltb_lt; lia).
    replace (4519 + m <? 4519 + 28) with true by (symmetry; apply Z.ltb_lt; lia).
    cbn [andb Z.eqb]. f_equal. lia.
  - apply negb_false_iff in E3. apply Z.eqb_eq in E3.
    pose proof (Z.div_mod si 28 ltac:(lia)) as D28. rewrite E3 in D28. clear E3.
    set (q := si / 28) in *. clearbody q.
    divmod si 588 q2 m2. divmod m2 28 q3 m3.
    replace (4352 + q2 >=? 44032) with false by (symmetry; rewrite Z.geb_leb; apply Z.leb_gt; lia).
    cbn [andb].
    replace (4352 + q2 >=? 4352) with true by (symmetry; rewrite Z.geb_leb; apply Z.leb_le; lia).
    replace (4352 + q2 <? 4352 + 19) with true by (symmetry; apply Z.ltb_lt; lia).
    replace (4449 + q3 >=? 4449) with true by (symmetry; rewrite Z.geb_leb; apply Z.leb_le; lia).
    replace (4449 + q3 <? 4449 + 21) with true by (symmetry; apply Z.ltb_lt; lia).
    cbn [andb]. f_equal. lia.
Qed.

Lemma hangul_compose_decompose : forall a b c,
  compose_hangul a b = (c, true) -> decompose_hangul c = (a, b, true).
Proof.
  intros a b c. unfold compose_hangul, HangulSBase, HangulSCount, HangulTCount, HangulNCount, HangulLBase, HangulVBase, HangulTBase, HangulLCount, HangulVCount.
  destruct ((a >=? 44032) && (a <? 44032 + 11172) && (b >? 4519) && (b <? 4519 + 28) && (Z.rem (a - 44032) 28 =? 0)) eqn:E1.
  - repeat (apply andb_prop in E1 as [E1 ?]).
    rewrite Z.geb_leb in E1. rewrite Z.gtb_ltb in *. apply Z.leb_le in E1.
    repeat match goal with H : (_ <? _) = true |- _ => apply Z.ltb_lt in H end.
    match goal with H : (_ =? _) = true |- _ => apply Z.eqb_eq in H; rename H into Hrem end.
    rewrite Z.rem_mod_nonneg in Hrem by lia.
    intro H'; apply pair_equal_spec in H' as [H' _]; subst c.
    unfold decompose_hangul, HangulSBase, HangulSCount, HangulTCount, HangulNCount, HangulLBase, HangulVBase, HangulTBase.
    rewrite sint32_id by lia.
    pose proof (Z.div_mod (a - 44032) 28 ltac:(lia)) as D. rewrite Hrem in D. clear Hrem.
    set (q := (a - 44032) / 28) in *. clearbody q.
    assert (Ha : a = 44032 + 28 * q) by lia. subst a. clear D.
    set (t := b - 4519) in *. assert (Hb : b = 4519 + t) by (unfold t; lia). clearbody t. subst b.
    replace (44032 + 28 * q + t - 44032) with (t + q * 28) by lia.
    replace ((t + q * 28 <? 0) || (t + q * 28 >=? 11172)) with false
      by (symmetry; apply orb_false_iff; split; [apply Z.ltb_ge; lia|rewrite Z.geb_leb; apply Z.leb_gt; lia]).
    rewrite Z.rem_mod_nonneg, !Z.quot_div_nonneg by lia.
    rewrite Z.mod_add, Z.div_add by lia. rewrite Z.mod_small, Z.div_small by lia.
    replace (negb (t =? 0)) with true by (symmetry; apply negb_true_iff; apply Z.eqb_neq; lia).
    f_equal. f_equal; lia.
  - destruct ((a >=? 4352) && (a <? 4352 + 19) && (b >=? 4449) && (b <? 4449 + 21)) eqn:E2; [|discriminate].
    repeat (apply andb_prop in E2 as [E2 ?]).
    rewrite Z.geb_leb in *. apply Z.leb_le in E2.
    repeat match goal with H : (_ <? _) = true |- _ => apply Z.ltb_lt in H end.
    repeat match goal with H : (_ <=? _) = true |- _ => apply Z.leb_le in H end.
    intro H'; apply pair_equal_spec in H' as [H' _]; subst c. clear E1.
    unfold decompose_hangul, HangulSBase, HangulSCount, HangulTCount, HangulNCount, HangulLBase, HangulVBase, HangulTBase.
    rewrite sint32_id by lia.
    set (li := a - 4352) in *. assert (Ha : a = 4352 + li) by (unfold li; lia). clearbody li. subst a.
    set (vi := b - 4449) in *. assert (Hb : b = 4449 + vi) by (unfold vi; lia). clearbody vi. subst b.
    replace (44032 + li * 588 + vi * 28 - 44032) with (vi * 28 + li * 588) by lia.
    replace ((vi * 28 + li * 588 <? 0) || (vi * 28 + li * 588 >=? 11172)) with false
      by (symmetry; apply orb_false_iff; split; [apply Z.ltb_ge; lia|rewrite Z.geb_leb; apply Z.leb_gt; lia]).
    rewrite Z.rem_mod_nonneg, !Z.quot_div_nonneg by lia.
    assert (Hm588 : (vi * 28 + li * 588) mod 588 = vi * 28) by (rewrite Z.mod_add by lia; apply Z.mod_small; lia).
    assert (Hd588 : (vi * 28 + li * 588) / 588 = li) by (rewrite Z.div_add by lia; rewrite Z.div_small by lia; lia).
    assert (Hm28 : (vi * 28 + li * 588) mod 28 = 0).
    { replace (vi * 28 + li * 588) with (0 + (vi + li * 21) * 28) by lia. rewrite Z.mod_add by lia. reflexivity. }
    rewrite Hm28. cbn [Z.eqb negb].
    rewrite Z.rem_mod_nonneg by lia. rewrite Hm588, Hd588.
    rewrite Z.quot_div_nonneg by lia. rewrite Z.div_mul by lia. reflexivity.
Qed.

(* ---- Decompose / Compose over the tables ---- *)

Definition zzb_eq (x y : Z * Z * bool) : bool :=
  (fst (fst x) =? fst (fst y)) && (snd (fst x) =? snd (fst y)) && Bool.eqb (snd x) (snd y).
Lemma zzb_eq_true x y : zzb_eq x y = true -> x = y.
Proof.
  destruct x as [[a b] c], y as [[a' b'] c']. unfold zzb_eq. cbn [fst snd]. intro H.
  apply andb_prop in H as [H H3]. apply andb_prop in H as [H1 H2].
  apply Z.eqb_eq in H1, H2. apply eqb_prop in H3. congruence.
Qed.

(* every non-zero entry of the compose map (0 marks an excluded pair) decomposes back to its key, through the
   whole Decompose function *)
Definition compose_table_ok : bool :=
  forallb (fun p => (snd p =? 0) || zzb_eq (decompose (snd p)) (fst (fst p), snd (fst p), true)) compose_pairs.
Lemma compose_table_ok_true : compose_table_ok = true. Proof. vm_compute. reflexivity. Qed.

Lemma compose_then_decompose : forall a b c, compose a b = (c, true) -> decompose c = (a, b, true).
Proof.
  intros a b c. unfold compose. destruct (compose_hangul a b) as [ab ok] eqn:Eh. destruct ok.
  - intro H. apply pair_equal_spec in H as [-> _].
    apply hangul_compose_decompose in Eh. unfold decompose. rewrite Eh. reflexivity.
  - destruct (assoc2 a b compose_pairs) as [u|] eqn:Ea.
    + intro H. apply pair_equal_spec in H as [-> Hnz].
      apply assoc2_in in Ea. pose proof compose_table_ok_true as T. unfold compose_table_ok in T.
      rewrite forallb_forall in T. specialize (T _ Ea). cbn [fst snd] in T.
      apply negb_true_iff in Hnz. rewrite Hnz in T. cbn [orb] in T. apply zzb_eq_true in T. exact T.
    + cbn. intro H. apply pair_equal_spec in H as [_ H]. discriminate.
Qed.

Lemma composition_exclusions_eq : composition_exclusions = composition_exclusions_def.
Proof. vm_compute. reflexivity. Qed.

Lemma not_excluded_roundtrips c : In c (map fst decompose1_pairs ++ map fst decompose2_pairs) ->
  excluded c = false -> roundtrips c = true.
Proof.
  intros Hin Hex. destruct (roundtrips c) eqn:E; [reflexivity|]. exfalso.
  assert (In c composition_exclusions).
  { rewrite composition_exclusions_eq. unfold composition_exclusions_def. apply filter_In. split; [exact Hin|]. rewrite E. reflexivity. }
  unfold excluded in Hex. assert (existsb (Z.eqb c) composition_exclusions = true); [|congruence].
  apply existsb_exists. exists c. split; [assumption|apply Z.eqb_refl].
Qed.

Lemma decompose_then_compose : forall c a b, is_rune c ->
  decompose c = (a, b, true) -> excluded c = false -> compose a b = (c, true).
Proof.
  intros c a b Hc Hd Hex.
  assert (Hcases : decompose_hangul c = (a, b, true) \/ In c (map fst decompose1_pairs ++ map fst decompose2_pairs)).
  { unfold decompose in Hd. destruct (decompose_hangul c) as [[x y] ok] eqn:Eh. destruct ok.
    - left. exact Hd.
    - right. apply in_or_app. destruct (assoc c decompose1_pairs) as [m1|] eqn:E1.
      + left. apply assoc_in in E1. apply in_map_iff. exists (c, m1). split; [reflexivity|exact E1].
      + destruct (assoc c decompose2_pairs) as [[x' y']|] eqn:E2.
        * right. apply assoc_in in E2. apply in_map_iff. exists (c, (x', y')). split; [reflexivity|exact E2].
        * apply pair_equal_spec in Hd as [_ Hd]. discriminate. }
  destruct Hcases as [Hh|Hin].
  - apply (hangul_decompose_compose c a b Hc) in Hh. unfold compose. rewrite Hh. reflexivity.
  - pose proof (not_excluded_roundtrips c Hin Hex) as R. unfold roundtrips in R. rewrite Hd in R.
    destruct (compose a b) as [c' ok]. destruct ok; [|discriminate]. apply Z.eqb_eq in R. subst. reflexivity.
Qed.

(* the exclusions are exactly the singleton decompositions plus the pair decompositions without a reverse entry;
   no Hangul syllable is excluded *)
Lemma hangul_not_excluded : forall c, is_rune c -> snd (decompose_hangul c) = true -> excluded c = false.
Proof.
  intros c Hc Hh. unfold decompose_hangul in Hh. pose proof (hangul_si c Hc) as Hsi.
  set (si := sint32 (c - HangulSBase)) in *.
  destruct ((si <? 0) || (si >=? HangulSCount)) eqn:E0; [discriminate|].
  apply orb_false_iff in E0 as [E1 E2]. apply Z.ltb_ge in E1. rewrite Z.geb_leb in E2. apply Z.leb_gt in E2.
  specialize (Hsi (conj E1 E2)). unfold HangulSBase, HangulSCount in *.
  unfold excluded. apply not_true_is_false. intro Hex. apply existsb_exists in Hex as [x [Hx Heq]].
  apply Z.eqb_eq in Heq. subst x.
  assert (Hall : forallb (fun x => (x <? 44032) || (44032 + 11172 <=? x)) composition_exclusions = true) by (vm_compute; reflexivity).
  rewrite forallb_forall in Hall. specialize (Hall c Hx). apply orb_prop in Hall as [Hl|Hl];
  [apply Z.ltb_lt in Hl|apply Z.leb_le in Hl]; lia.
Qed.
