(* C03: no returned line spans a valid mandatory break (mandatory_break_ends_line over RETURNED lines).
   Ingredients: the converse of is_valid_sound (a cluster boundary of the cursor run is accepted by isValid), an
   invariant over the line iterator of the breaker ("every valid mandatory boundary beyond the line start is still ahead
   of the iterator, or pending re-issue") threaded through both loops of wrapNextLine, postProcessLine and any sequence of
   WrapNextLine calls.  The invariant is lost only when a call returns a nil line while the wrapper stays live (the
   pattern of the repaired finding F37), which mandatory_lines_all excludes by hypothesis; Proofs/WrapValid.v proves that
   no call does (calls_valid) and states the result without that hypothesis (mandatory_lines_full). *)
From TV Require Import Model.Wrap Spec.Wrap Spec.WrapCut Proofs.Wrap Proofs.WrapCut Proofs.WrapLines Proofs.WrapTotal
  Proofs.WrapStore Proofs.WrapMand.

(* ---- the converse of is_valid_sound ---------------------------------------------------------------------- *)

Lemma is_valid_spec2 : forall st run opt,
  let gs := out_glyphs st run in
  o_lo run = 0 -> o_len run = zlen (src_array st (o_src run)) ->
  wf_glyphs (o_dir run) gs (o_off run) (o_cnt run) = true ->
  exists v, is_valid st opt (map3_spec gs (o_off run) (o_cnt run)) run = Ok v
    /\ (v = true <-> cluster_start gs (o_off run) (o_cnt run) (opt + 1) = true).
Proof.
  intros st run opt gs Hlo Hlen Hwf.
  assert (Hgs : gs = src_array st (o_src run)) by (apply out_glyphs_whole; auto).
  pose proof (wf_glyphs_cnt _ _ _ _ Hwf) as Hcnt.
  assert (Hm : zlen (map3_spec gs (o_off run) (o_cnt run)) = o_cnt run) by (apply map3_spec_len; lia).
  unfold is_valid. fold gs. rewrite Hm.
  destruct ((opt - o_off run + 1 <? o_cnt run) && (0 <=? opt - o_off run)) eqn:E.
  - apply andb_prop in E. destruct E as [E1 E2]. apply Z.ltb_lt in E1. apply Z.leb_le in E2.
    rewrite (zget_ok 0) by lia. cbn [bind]. rewrite (zget_ok 0) by lia. cbn [bind].
    destruct (map3_spec_first _ _ _ _ (opt - o_off run) Hwf ltac:(lia)) as (A1 & A2 & _).
    destruct (map3_spec_first _ _ _ _ (opt - o_off run + 1) Hwf ltac:(lia)) as (B1 & B2 & _).
    set (j1 := znth 0 (map3_spec gs (o_off run) (o_cnt run)) (opt - o_off run)) in *.
    set (j2 := znth 0 (map3_spec gs (o_off run) (o_cnt run)) (opt - o_off run + 1)) in *.
    rewrite Hlen, <- Hgs.
    replace ((zlen gs <=? j1) || (zlen gs <=? j2)) with false.
    2:{ symmetry. apply orb_false_iff; split; apply Z.leb_gt; lia. }
    rewrite (zget_ok glyph_zero gs j1) by lia. cbn [bind]. rewrite (zget_ok glyph_zero gs j2) by lia. cbn [bind].
    replace (o_off run + (opt - o_off run)) with opt in A2 by lia.
    replace (o_off run + (opt - o_off run + 1)) with (opt + 1) in B2 by lia.
    pose proof (wf_glyphs_clusters _ _ _ _ Hwf) as CL.
    eexists. split; [reflexivity|]. split.
    + intros V. apply negb_true_iff in V. apply Z.eqb_neq in V.
      unfold cluster_start. apply orb_true_iff. right. apply existsb_exists.
      exists (znth glyph_zero gs j2). split; [apply znth_In; lia|]. apply Z.eqb_eq.
      destruct (Z.eq_dec (g_cluster (znth glyph_zero gs j2)) (opt + 1)) as [Q|Q]; [exact Q|]. exfalso. apply V.
      apply holds_true in B2.
      apply (cl_holds_unique _ _ _ CL opt).
      * apply in_logical. apply znth_In. lia.
      * apply in_logical. apply znth_In. lia.
      * exact A2.
      * apply holds_true. lia.
    + intros CS. apply negb_true_iff. apply Z.eqb_neq.
      apply cluster_start_cases in CS. destruct CS as [CS|[CS|(g & Hg & Hc)]]; [lia|lia|].
      destruct (cl_in _ _ _ CL g ltac:(apply in_logical; exact Hg)) as (Q1 & Q2 & Q3).
      assert (E3 : g_cluster (znth glyph_zero gs j2) = g_cluster g).
      { apply (cl_holds_unique _ _ _ CL (opt + 1)).
        - apply in_logical. apply znth_In. lia.
        - apply in_logical. exact Hg.
        - exact B2.
        - apply holds_true. lia. }
      apply holds_true in A2. lia.
  - exists true. split; [reflexivity|]. split; [|reflexivity]. intros _. unfold cluster_start.
    apply andb_false_iff in E. destruct E as [E|E].
    + apply Z.ltb_ge in E. replace (o_off run + o_cnt run <=? opt + 1) with true by (symmetry; apply Z.leb_le; lia).
      apply orb_true_iff. left. apply orb_true_r.
    + apply Z.leb_gt in E. replace (opt + 1 <=? o_off run) with true by (symmetry; apply Z.leb_le; lia). reflexivity.
Qed.

(* pbo_safe (WrapStore.v) + a rejected option lies before the line start or is not a cluster boundary of every run *)
Lemma pbo_safe2 : forall n w opt lc,
  Inv n w -> XI n w -> fst opt < n ->
  (s_alt (w_sc w) <> [] -> lend (w_start w) (s_alt (w_sc w)) <= fst opt) ->
  exists w' r cand, process_break_option w opt lc = Ok (w', r, cand) /\ XI n w' /\ sk (w_st w') = sk (w_st w)
    /\ (r <> BreakInvalid -> PO (w_st w') (w_runs w') cand /\ CBall (w_st w') (w_runs w') (fst opt + 1))
    /\ (r = BreakInvalid -> fst opt < w_start w \/ ~ CBall (w_st w) (w_runs w) (fst opt + 1)).
Proof.
  intros n w opt lc HI HX Hopt Hord. pose proof HI as (HR & HP & HS & HM & HB).
  unfold process_break_option.
  destruct (fst opt <? w_start w) eqn:E0.
  { exists w, BreakInvalid, out_zero. split; [reflexivity|]. split; [exact HX|]. split; [reflexivity|].
    split; [congruence|]. intros _. left. apply Z.ltb_lt. exact E0. }
  apply Z.ltb_ge in E0.
  assert (Hidx0 : 0 <= w_idx w).
  { destruct HP as (_ & pre & post & m & e & _ & Hidx & _). rewrite <- Hidx. apply zlen_nonneg. }
  destruct (fill_until_safe n (S (length (w_runs w))) w (fst opt) HX Hidx0 ltac:(unfold zlen; lia)) as (w1 & FU & X1 & S1).
  rewrite FU. cbn [bind].
  destruct (fill_until_ok n _ _ _ _ HR HP HM FU) as (F1 & P1 & M1 & Y1).
  destruct (fill_until_ext _ _ _ _ FU) as (_ & _ & Hstop).
  destruct F1 as (F1a & F1b & F1c & F1d & F1e & F1f & F1g & F1h & F1i).
  pose proof P1 as (Hpos & pre & post & m & e & Hsplit & Hidx & Hpre & Hpost & Halt & He1 & He2).
  assert (Hm : m <= fst opt).
  { destruct (s_alt (w_sc w1)) eqn:A.
    - specialize (He1 eq_refl). lia.
    - assert (e = m) by (apply He2; congruence). subst e.
      destruct Y1 as [Y1|(e' & Y1 & Y2)]; [congruence| |].
      + rewrite <- Y1 in Hord. rewrite F1c in Halt. rewrite (lend_chain _ _ _ Halt) in Hord. apply Hord. congruence.
      + pose proof (chain_fun _ _ _ _ Halt Y1). lia. }
  destruct post as [|r0 post'].
  { exfalso. inversion Hpost. lia. }
  rewrite (peek_split w1 pre (r0 :: post') Hsplit Hidx) in Hstop |- *.
  destruct (chain_cons_inv _ _ _ _ Hpost) as [Hoff Hpost'].
  pose proof X1 as ((HW1 & HM1 & HC1) & HA1 & HS1 & HB1).
  assert (Hr0 : r0 = znth out_zero (w_runs w1) (w_idx w1)) by (rewrite Hsplit, <- Hidx; symmetry; apply znth_app_exact).
  assert (Hci : 0 <= w_idx w1 < zlen (w_runs w1)).
  { rewrite Hsplit, <- Hidx, zlen_app, zlen_cons. pose proof (zlen_nonneg pre). pose proof (zlen_nonneg post'). lia. }
  destruct (wf_runs_nth _ _ _ HW1 (w_idx w1) Hci) as (G0 & G1 & G2 & G3 & G4 & G5 & G6 & G7). rewrite <- Hr0 in *.
  destruct (map_run_safe n w1 (w_idx w1) r0 (proj1 X1) Hci Hr0) as (mp & MR & XM & MM). rewrite MR. cbn [bind].
  replace (w_st (set_mp w1 mp)) with (w_st w1) by (destruct w1; reflexivity).
  replace (w_start (set_mp w1 mp)) with (w_start w1) by (destruct w1; reflexivity).
  replace (mapping_of (w_mp (set_mp w1 mp))) with (mapping_of mp) by (destruct w1; reflexivity). rewrite MM, <- G1.
  pose proof (XI_set_mp n w1 mp X1 XM) as X2.
  destruct (is_valid_spec2 (w_st w1) r0 (fst opt) G2 ltac:(rewrite G1; exact G3) ltac:(rewrite G7; exact G5)) as (v & IV & IVs).
  rewrite G7, <- G1 in IV, IVs. rewrite IV. cbn [bind].
  destruct v; cbn [negb].
  2:{ exists (set_mp w1 mp), BreakInvalid, out_zero. split; [reflexivity|]. split; [exact X2|]. split; [destruct w1; exact S1|].
      split; [congruence|]. intros _. right. intros CB.
      assert (G0' : In r0 (w_runs w)) by (rewrite <- F1e; exact G0).
      specialize (CB r0 G0').
      rewrite <- (skl_cluster_start _ _ _ _ _ (sk_array (w_st w1) (w_st w) (o_src r0) S1)) in CB.
      apply IVs in CB. discriminate. }
  pose proof (proj1 IVs eq_refl) as IVt.
  assert (Hend : fst opt < o_off r0 + o_cnt r0) by lia.
  destruct (cut_safe n (w_st w1) (w_runs w1) r0 (w_start w1) (fst opt) (alt_empty (set_mp w1 mp)) HW1 G0
              ltac:(lia) ltac:(lia) ltac:(lia) (HC1 r0 G0) ltac:(rewrite Z.min_l by lia; exact IVt))
    as (st' & rc & CR & S2 & P2 & O1 & O2).
  rewrite CR. cbn [bind fst snd]. cbv zeta.
  pose proof (XI_set_st n _ st' X2 ltac:(destruct w1; exact S2)) as X3.
  set (w3 := set_st (set_mp w1 mp) st') in *.
  assert (R3 : w_runs w3 = w_runs w1 /\ w_st w3 = st') by (unfold w3; destruct w1; split; reflexivity). destruct R3 as [R3 R4].
  assert (Fin3 : PO (w_st w3) (w_runs w3) rc /\ CBall (w_st w3) (w_runs w3) (fst opt + 1)).
  { rewrite R3, R4. split; [exact P2|]. apply (CBall_sk (w_st w1)); [symmetry; exact S2|].
    intros r Hr. destruct (HR) as [_ HAP]. rewrite <- F1e, Hsplit in HAP. apply Forall_app in HAP. destruct HAP as [AP1 AP2]. apply Forall_cons_iff in AP2. destruct AP2 as [AP3 AP4].
    rewrite Hsplit in Hr. apply in_app_or in Hr. destruct Hr as [Hr|[<-|Hr]].
    - apply cluster_start_out. right. destruct (chain_in_bounds _ _ _ _ Hpre AP1 Hr). unfold out_end in *. lia.
    - rewrite Z.min_l in O2 by lia. exact IVt.
    - apply cluster_start_out. left. destruct (chain_in_bounds _ _ _ _ Hpost' AP4 Hr). unfold out_end in *. lia. }
  assert (S3 : sk (w_st w3) = sk (w_st w)) by (rewrite R4, S2; exact S1).
  repeat match goal with |- context [if ?c then _ else _] => destruct c end;
    (eexists _, _, _; split; [reflexivity|]; split; [exact X3|]; split; [exact S3|]; split; [intros _; exact Fin3|intros Q; discriminate Q]).
Qed.

(* ---- the line iterator: no line boundary is skipped -------------------------------------------------------- *)

(* the option before boundary p has not been consumed, or is pending re-issue *)
Definition U (b : breaker) (p : Z) : Prop := b_wpos b < p \/ (b_wpos b = p /\ b_isUnusedW b = true).

Lemma U_intro : forall b p, b_wpos b <= p -> b_isUnusedW b = true -> U b p.
Proof. intros b p H F. unfold U. destruct (Z.eq_dec (b_wpos b) p); [right; auto|left; lia]. Qed.

Lemma nwb_gap : forall b b' o, 0 <= b_wpos b -> next_word_break b = (b', Some o) ->
  b_wpos b <= b_wpos b' /\ forall p, U b p -> line_boundary (b_attrs b) p = true -> b_wpos b' <= p.
Proof.
  intros b b' o H0 H. unfold next_word_break in H. destruct (b_isUnusedW b) eqn:F.
  - inversion H; subst; clear H. cbn. split; [lia|]. intros p [Hp|[Hp _]] _; lia.
  - destruct (next_word_raw b) as [b1 [o1|]] eqn:R; [|inversion H].
    destruct (next_word_raw_spec b b1 o1 H0 R) as (_ & R2 & R3 & _ & _ & _ & R7).
    inversion H; subst; clear H. cbn. split; [lia|].
    intros p [Hp|[_ Hp]] Hl; [|congruence].
    destruct (Z_lt_le_dec p (b_wpos b1)) as [A|A]; [|exact A].
    rewrite (R7 p ltac:(lia)) in Hl. discriminate.
Qed.

(* ---- cluster_boundary (Spec) is CBall on well-formed runs ---------------------------------------------------- *)

Lemma cluster_boundary_CBall : forall st rs n p, wf_runs st rs n = true -> cluster_boundary st rs p = true -> CBall st rs p.
Proof.
  intros st rs n p HW HC r Hr. destruct (wf_runs_in st rs n HW r Hr) as (F1 & F2 & F3 & F4 & F5 & F6 & F7 & F8).
  destruct (Z_le_dec p (o_off r)) as [A|A]; [apply cluster_start_out; left; lia|].
  destruct (Z_le_dec (o_off r + o_cnt r) p) as [B|B]; [apply cluster_start_out; right; lia|].
  pose proof (wf_glyphs_clusters _ _ _ _ F6) as CL.
  destruct (cl_cover _ _ _ CL p ltac:(lia)) as (x & Hx & Hh). apply in_logical in Hx. apply holds_true in Hh.
  unfold cluster_boundary in HC. rewrite forallb_forall in HC. specialize (HC r Hr). rewrite forallb_forall in HC. specialize (HC x Hx).
  apply negb_true_iff in HC. apply andb_false_iff in HC.
  unfold cluster_start. apply orb_true_iff. right. apply existsb_exists. exists x. split; [exact Hx|]. apply Z.eqb_eq.
  destruct HC as [HC|HC]; apply Z.ltb_ge in HC; lia.
Qed.

(* ---- the invariant through the two loops of wrapNextLine ------------------------------------------------------- *)

Section Mand.
Variables (n : Z) (attrs : list Z) (st0 : store) (runs : list out).

(* p is a valid mandatory break inside the text: flagged line + mandatory by the segmenter, not the text end, and a
   cluster boundary of every run (judged on the store skeleton, which no call changes) *)
Definition vm (p : Z) : Prop :=
  line_boundary attrs p = true /\ mandatory_boundary attrs p = true /\ p < n /\ CBall st0 runs p.

(* on return from a loop started at line start s: no valid mandatory break lies strictly inside the best line, and (when
   the call will return a non-nil line, not done) every valid mandatory break beyond it is still ahead of the iterator *)
Definition PostM (s : Z) (lc : line_cfg) (w' : W) (d : bool) : Prop :=
  (forall p, s < p -> vm p -> best_end w' <= p)
  /\ (d = false -> lc_truncating lc = false -> has_best w' = true ->
      forall p, best_end w' < p -> vm p -> U (w_br w') p).

Lemma inner_M : forall fuel w wopt lc w' d,
  JT n w -> OrdI w -> 1 <= b_wpos (w_br w) <= n -> fst (b_unusedW (w_br w)) = b_wpos (w_br w) - 1 ->
  fst wopt = b_wpos (w_br w) - 1 ->
  (forall p, w_start w < p -> vm p -> b_wpos (w_br w) <= p) ->
  best_end w <= Z.max (w_start w) (b_wpos (w_br w)) ->
  (b_isUnusedW (w_br w) = true \/ has_best w = false \/ lc_truncating lc = true) ->
  inner_loop fuel w wopt lc = Ok (w', d) -> PostM (w_start w) lc w' d.
Proof.
  induction fuel as [|fuel IH]; intros w wopt lc w' d HT HO HW HU HWo Ki Bi Fi H; cbn [inner_loop] in H; [discriminate|].
  destruct (JT_checkpoint n w HT) as (T1 & Csv & Calt & Cbe & Cbr & Cbest).
  pose proof (best_end_ge n w (proj1 HT)) as BG.
  set (w1 := checkpoint w) in *.
  destruct (next_grapheme_break (br_fuel w1) (w_br w1)) as [[b1 ro]| | |] eqn:NG; cbn [bind fst snd] in H; try discriminate.
  pose proof T1 as ((_ & B1 & _) & _).
  destruct (ngb_spec n _ _ _ _ B1 NG) as (Bb1 & SW & UG & X & Y). rewrite Cbr in SW, UG, X, Y.
  destruct SW as (S1 & S2 & S3 & S4 & S5).
  pose proof (JT_set_br n w1 b1 T1 Bb1) as T2.
  destruct (set_br_proj w1 b1) as (Q1 & Q2 & Q3 & Q4 & Q5).
  assert (Q6 : best_end (set_br w1 b1) = best_end w) by (rewrite best_end_set_br; exact Cbe).
  assert (Q7 : w_start w1 = w_start w) by (destruct w; reflexivity).
  set (w2 := set_br w1 b1) in *.
  rewrite Calt in Q1. rewrite Csv in Q5. rewrite Cbest in Q4. rewrite Q7 in Q3.
  destruct (Bk_ug_n n _ Bb1) as (G1 & G2 & G3).
  set (b := w_br w) in *.
  destruct ro as [opt|].
  2:{ cbv beta iota zeta in H.
      assert (Rw2 : restore w2 = w2) by (unfold w2, w1; destruct w as [? ? ? ? ? ? ? ? ? [? ? ? ? ?] ?]; reflexivity).
      assert (Old : forall wx, w_br wx = b1 -> best_end wx = best_end w -> has_best wx = has_best w -> PostM (w_start w) lc wx false).
      { intros wx Bx Ex Hx. split.
        - intros p Hp Hv. rewrite Ex. specialize (Ki p Hp Hv). lia.
        - intros _ Hlc Hhb p Hp Hv. rewrite Ex in Hp. rewrite Bx. rewrite Hx in Hhb.
          destruct Fi as [Fi|[Fi|Fi]]; [|congruence|congruence].
          apply U_intro; [rewrite S1; apply Ki; [lia|exact Hv]|rewrite S4; exact Fi]. }
      unfold word_fallback in H.
      destruct (negb (lc_truncating lc) && negb (has_best w2)) eqn:FB.
      2:{ injection H as <- <-. apply Old; [exact Q2|exact Q6|exact (has_best_same w w2 Q4)]. }
      apply andb_prop in FB. destruct FB as [FB1 FB2]. apply negb_true_iff in FB1, FB2.
      rewrite (has_best_same w w2 Q4) in FB2. rewrite Rw2 in H.
      assert (Hord : s_alt (w_sc w2) <> [] -> lend (w_start w2) (s_alt (w_sc w2)) <= fst wopt).
      { rewrite Q1. rewrite (JT_no_best_alt n w HT FB2). congruence. }
      destruct (process_break_option w2 wopt lc) as [[[w3 r] cand]| | |] eqn:PB; cbn [bind] in H; try discriminate.
      destruct (JP_pbo n w2 wopt lc w3 r cand (proj1 T2) ltac:(lia) Hord PB) as (P3 & F3 & BE3 & LE3 & C3 & L3).
      destruct F3 as (_ & _ & F3s & _ & _ & _ & F3b & F3v & F3best).
      rewrite Q2 in F3b. rewrite Q5 in F3v. rewrite Q4 in F3best. rewrite Q3 in F3s. rewrite Q6 in BE3.
      destruct (restore_proj w3) as (R1 & R2 & R3 & R4).
      cbv beta iota zeta in H.
      assert (Hcase : (r = BreakInvalid /\ w' = restore w3 /\ d = false) \/ (r <> BreakInvalid /\ w' = mark_best w3 [cand] /\ d = false)).
      { destruct r; injection H as <- <-; first [left; repeat split; reflexivity | right; repeat split; try reflexivity; discriminate]. }
      clear H. destruct Hcase as [(Hr & -> & ->)|(Hr & -> & ->)].
      - apply Old; [rewrite R2; exact F3b|rewrite best_end_restore; exact BE3|].
        rewrite (has_best_same w3 (restore w3) R4). apply has_best_same. exact F3best.
      - destruct (C3 Hr) as (C31 & C32 & C33). rewrite Q3 in C31.
        assert (Hsv : lend (w_start w3) (s_save (w_sc w3)) <= fst wopt + 1).
        { rewrite F3v, F3s, (JT_no_best_alt n w HT FB2). unfold lend; cbn. lia. }
        destruct (JT_mark_best n w3 cand (fst wopt + 1) P3 C33 C32 Hsv ltac:(lia)) as [T4 BE4].
        destruct (mark_best_proj w3 [cand]) as (M1 & M2 & M3 & M4).
        split.
        + intros p Hp Hv. rewrite BE4. specialize (Ki p Hp Hv). lia.
        + intros _ _ _ p Hp Hv. rewrite BE4 in Hp. rewrite M2, F3b. left. rewrite S1. lia. }
  destruct X as (X1 & X2 & X3 & X4 & X5 & X6 & X7 & X8).
  assert (X1' : fst opt = fst (b_unusedG b1)) by (rewrite X1; reflexivity).
  assert (Hord : s_alt (w_sc w2) <> [] -> lend (w_start w2) (s_alt (w_sc w2)) <= fst opt).
  { rewrite Q1, Q3. intros Hne. destruct (HO Hne) as [O1|O1]; fold b in O1; lia. }
  destruct (process_break_option w2 opt lc) as [[[w3 r] cand]| | |] eqn:PB; cbn [bind] in H; try discriminate.
  destruct (JP_pbo n w2 opt lc w3 r cand (proj1 T2) ltac:(lia) Hord PB) as (P3 & F3 & BE3 & LE3 & C3 & L3).
  destruct (pbo_kind _ _ _ _ _ _ PB) as (K1 & K2 & K3).
  destruct F3 as (_ & _ & F3s & _ & _ & _ & F3b & F3v & F3best).
  rewrite Q2 in F3b. rewrite Q5 in F3v. rewrite Q4 in F3best. rewrite Q3 in F3s, LE3. rewrite Q1 in LE3. rewrite Q6 in BE3.
  assert (HB3 : has_best w3 = has_best w) by (apply has_best_same; exact F3best).
  assert (Mw : Bk n (mark_word_unused b1)) by (apply Bk_mark_word; [exact Bb1|rewrite S1; exact HW|rewrite S1, S2; exact HU]).
  rewrite Q1, Q3 in Hord. rewrite Q3 in C3.
  assert (Hsv : r <> BreakInvalid -> lend (w_start w3) (s_save (w_sc w3)) <= fst opt).
  { intros Hr. destruct (C3 Hr) as (C31 & _). rewrite F3v, F3s. destruct (s_alt (w_sc w)) eqn:A; [unfold lend; cbn; lia|].
    apply Hord. congruence. }
  (* the option lies before the current line-break position *)
  assert (Hg : fst opt + 1 <= b_wpos b) by lia.
  assert (Best1 : r <> BreakInvalid -> JT n (mark_best w3 [cand]) /\ best_end (mark_best w3 [cand]) = fst opt + 1
                   /\ lend (w_start w3) (s_alt (w_sc w3)) < fst opt + 1).
  { intros Hr. destruct (C3 Hr) as (C31 & C32 & C33).
    destruct (JT_mark_best n w3 cand (fst opt + 1) P3 C33 C32 ltac:(specialize (Hsv Hr); lia) ltac:(lia)) as [T4 BE4].
    destruct (chain_app_lend _ _ _ _ C33 C32) as [CL _]. auto. }
  destruct (mark_best_proj w3 [cand]) as (M1 & M2 & M3 & M4).
  destruct (restore_proj w3) as (R1 & R2 & R3 & R4).
  assert (HBr : has_best (restore w3) = has_best w) by (apply has_best_same; rewrite R4; exact F3best).
  destruct r.
  - (* BreakInvalid *)
    rewrite <- F3s, <- R3. apply (IH (restore w3) wopt lc w' d); auto.
    + apply JT_restore; exact P3.
    + unfold OrdI. rewrite R1, R2, R3, F3v, F3s, F3b. intros Hne. destruct (HO Hne) as [O|O]; fold b in O; [left; rewrite S3; exact O|right; lia].
    + rewrite R2, F3b, S1. exact HW.
    + rewrite R2, F3b, S1, S2. exact HU.
    + rewrite R2, F3b, S1. exact HWo.
    + rewrite R2, F3b, R3, F3s, S1. exact Ki.
    + rewrite best_end_restore, BE3, R3, F3s, R2, F3b, S1. exact Bi.
    + rewrite R2, F3b, S4, HBr. exact Fi.
  - (* EndLine *)
    cbv beta iota zeta in H. injection H as <- <-. destruct (Best1 ltac:(discriminate)) as (_ & BE4 & _).
    split; [|discriminate]. intros p Hp Hv. rewrite BE4. specialize (Ki p Hp Hv). lia.
  - (* Truncated *)
    cbv beta iota zeta in H. injection H as <- <-. destruct (Best1 ltac:(discriminate)) as (_ & _ & CL).
    split; [|discriminate]. intros p Hp Hv. specialize (Ki p Hp Hv). destruct (has_best w3).
    + rewrite BE3. lia.
    + destruct (JT_restore n w3 P3) as [P3r _].
      destruct (JP_mark_best_nil n (restore w3) P3r ltac:(destruct w3; cbn; apply Z.le_refl)) as [_ BE5].
      rewrite BE5, R1, R3, F3v. rewrite F3s in *. lia.
  - (* NewLineBeforeBreak *)
    cbv beta iota zeta in H. rewrite R2, F3b in H. injection H as <- <-.
    destruct (set_br_proj (restore w3) (mark_grapheme_unused (mark_word_unused b1))) as (U1 & U2 & U3 & U4 & U5).
    split.
    + intros p Hp Hv. rewrite best_end_set_br, best_end_restore, BE3. specialize (Ki p Hp Hv). lia.
    + intros _ _ _ p Hp Hv. rewrite best_end_set_br, best_end_restore, BE3 in Hp. rewrite U2.
      apply U_intro; [cbn; rewrite S1; apply Ki; [lia|exact Hv]|reflexivity].
  - (* Fits *)
    destruct (Best1 ltac:(discriminate)) as (T4 & BE4 & CL). rewrite F3b in H.
    pose proof (JT_set_br n _ _ T4 Mw) as T5.
    destruct (set_br_proj (mark_best w3 [cand]) (mark_word_unused b1)) as (U1 & U2 & U3 & U4 & U5).
    assert (St5 : w_start (set_br (mark_best w3 [cand]) (mark_word_unused b1)) = w_start w) by (rewrite U3, M3; exact F3s).
    rewrite <- St5. apply (IH (set_br (mark_best w3 [cand]) (mark_word_unused b1)) wopt lc w' d); [exact T5| | | | | | | |exact H].
    + unfold OrdI. rewrite U1, U2, U3, M1, M3. cbn. intros _. right. lia.
    + rewrite U2; cbn. rewrite S1; exact HW.
    + rewrite U2; cbn. rewrite S1, S2; exact HU.
    + rewrite U2; cbn. rewrite S1; exact HWo.
    + rewrite St5, U2. cbn. rewrite S1. exact Ki.
    + rewrite best_end_set_br, BE4, St5, U2. cbn. rewrite S1. lia.
    + left. rewrite U2. reflexivity.
  - (* CannotFit *)
    destruct (lc_truncating lc) eqn:Hlc.
    + cbv beta iota zeta in H. injection H as <- <-. split; [|discriminate].
      intros p Hp Hv. rewrite BE3. specialize (Ki p Hp Hv). lia.
    + rewrite F3b in H. cbv beta iota zeta in H. injection H as <- <-.
      destruct (Best1 ltac:(discriminate)) as (T4 & BE4 & CL). destruct (C3 ltac:(discriminate)) as (C31 & _).
      destruct (set_br_proj (mark_best w3 [cand]) (mark_word_unused b1)) as (U1 & U2 & U3 & U4 & U5).
      split.
      * intros p Hp Hv. rewrite best_end_set_br, BE4. specialize (Ki p Hp Hv). lia.
      * intros _ _ _ p Hp Hv. rewrite best_end_set_br, BE4 in Hp. rewrite U2.
        apply U_intro; [cbn; rewrite S1; apply Ki; [lia|exact Hv]|reflexivity].
Qed.

Lemma outer_M : forall fuel w lc w' d,
  JT n w -> OrdO w -> XI n w -> BW (w_br w) -> b_attrs (w_br w) = attrs -> sk (w_st w) = sk st0 -> w_runs w = runs ->
  (forall p, w_start w < p -> vm p -> U (w_br w) p) ->
  best_end w <= Z.max (w_start w) (b_wpos (w_br w)) ->
  outer_loop fuel w lc = Ok (w', d) -> PostM (w_start w) lc w' d.
Proof.
  induction fuel as [|fuel IH]; intros w lc w' d HT HO HX HBW HA Hsk Hruns Ko Bo H; cbn [outer_loop] in H; [discriminate|].
  destruct (JT_checkpoint n w HT) as (T1 & Csv & Calt & Cbe & Cbr & Cbest).
  pose proof (best_end_ge n w (proj1 HT)) as BG.
  pose proof (XI_checkpoint n w HX) as XC1.
  assert (St1 : w_st (checkpoint w) = w_st w) by (destruct w; reflexivity).
  assert (Rn1 : w_runs (checkpoint w) = w_runs w) by (destruct w; reflexivity).
  set (w1 := checkpoint w) in *.
  destruct (next_word_break (w_br w1)) as [b1 ro] eqn:NW.
  pose proof T1 as ((_ & B1 & _) & _).
  destruct (nwb_spec n _ _ _ B1 NW) as (Bb1 & SG & FW & UW & X). rewrite Cbr in SG, UW, X, B1, NW.
  destruct SG as (S1 & S2 & S3 & S5).
  destruct (nwb_canon _ _ _ HBW NW) as (HBW1 & HA1 & Hn1 & HCan).
  pose proof (JT_set_br n w1 b1 T1 Bb1) as T2.
  destruct (set_br_proj w1 b1) as (Q1 & Q2 & Q3 & Q4 & Q5).
  assert (Q6 : best_end (set_br w1 b1) = best_end w) by (rewrite best_end_set_br; exact Cbe).
  assert (Q7 : w_start w1 = w_start w) by (destruct w; reflexivity).
  pose proof (XI_set_br n w1 b1 XC1) as XC2.
  assert (St2 : w_st (set_br w1 b1) = w_st w) by (rewrite <- St1; destruct w1; reflexivity).
  assert (Rn2 : w_runs (set_br w1 b1) = w_runs w) by (rewrite <- Rn1; destruct w1; reflexivity).
  set (w2 := set_br w1 b1) in *.
  rewrite Calt in Q1. rewrite Csv in Q5. rewrite Cbest in Q4. rewrite Q7 in Q3.
  destruct (Bk_ug_n n _ Bb1) as (G1 & G2 & G3).
  set (b := w_br w) in *.
  destruct ro as [opt|].
  2:{ cbv beta iota zeta in H. injection H as <- <-. destruct X as (X1 & X2 & X3 & X4 & X5).
      split; [|discriminate]. intros p Hp Hv. exfalso. destruct Hv as (V1 & V2 & V3 & V4).
      destruct (Ko p Hp (conj V1 (conj V2 (conj V3 V4)))) as [Up|[_ Up]]; [|congruence].
      rewrite HA in X5. rewrite (X5 p ltac:(lia)) in V1. discriminate. }
  destruct X as (X1 & X3 & X6 & X7 & X8 & X9 & X10).
  assert (X1' : fst opt = fst (b_unusedW b1)) by (rewrite X1; reflexivity).
  destruct (nwb_gap b b1 opt ltac:(destruct B1 as (_ & B1 & _); exact B1) NW) as (Wle & Gap).
  destruct (HCan opt eq_refl) as [Can _]. rewrite HA in Can, Gap. rewrite (proj1 B1) in Can.
  (* every valid mandatory break beyond the line start lies at or after the option just read *)
  assert (P0 : forall p, w_start w < p -> vm p -> b_wpos b1 <= p).
  { intros p Hp Hv. apply Gap; [apply Ko; assumption|exact (proj1 Hv)]. }
  assert (Bmax : best_end w <= Z.max (w_start w) (b_wpos b1)) by lia.
  assert (Hord : s_alt (w_sc w2) <> [] -> lend (w_start w2) (s_alt (w_sc w2)) <= fst opt).
  { rewrite Q1, Q3. intros Hne. destruct (HO Hne) as [O1 O2]; fold b in O1; lia. }
  destruct (pbo_safe2 n w2 opt lc (proj1 (proj1 T2)) XC2 ltac:(lia) Hord) as (w3 & r & cand & PB & XC3 & Sk3 & Fin3 & Inv3).
  rewrite PB in H. cbn [bind] in H.
  destruct (JP_pbo n w2 opt lc w3 r cand (proj1 T2) ltac:(lia) Hord PB) as (P3 & F3 & BE3 & LE3 & C3 & L3).
  destruct (pbo_kind _ _ _ _ _ _ PB) as (K1 & K2 & K3).
  destruct F3 as (F3c & _ & F3s & _ & F3r & _ & F3b & F3v & F3best).
  rewrite Q2 in F3b. rewrite Q5 in F3v. rewrite Q4 in F3best. rewrite Q3 in F3s, LE3. rewrite Q1 in LE3. rewrite Q6 in BE3.
  rewrite Rn2 in F3r. rewrite Q3, St2, Rn2 in Inv3.
  assert (HB3 : has_best w3 = has_best w) by (apply has_best_same; exact F3best).
  assert (Mw : Bk n (mark_word_unused b1)) by (apply Bk_mark_word; [exact Bb1|lia|lia]).
  rewrite Q1, Q3 in Hord. rewrite Q3 in C3.
  assert (Hsv : r <> BreakInvalid -> lend (w_start w3) (s_save (w_sc w3)) <= fst opt).
  { intros Hr. destruct (C3 Hr) as (C31 & _). rewrite F3v, F3s. destruct (s_alt (w_sc w)) eqn:A; [unfold lend; cbn; lia|].
    apply Hord. congruence. }
  rewrite St2 in Sk3.
  destruct (mark_best_proj w3 [cand]) as (M1 & M2 & M3 & M4).
  destruct (restore_proj w3) as (R1 & R2 & R3 & R4).
  assert (HBr : has_best (restore w3) = has_best w) by (apply has_best_same; rewrite R4; exact F3best).
  assert (Best1 : r <> BreakInvalid -> XI n (mark_best w3 [cand]) /\ JT n (mark_best w3 [cand])
                   /\ lend (w_start w3) (s_alt (w_sc w3)) < fst opt + 1 /\ best_end (mark_best w3 [cand]) = fst opt + 1).
  { intros Hr. destruct (C3 Hr) as (C31 & C32 & C33). destruct (Fin3 Hr) as [FP FC].
    destruct (JT_mark_best n w3 cand (fst opt + 1) P3 C33 C32 ltac:(specialize (Hsv Hr); lia) ltac:(lia)) as [T4 BE4].
    destruct (chain_app_lend _ _ _ _ C33 C32) as [CL _].
    split; [eapply XI_mark_best1; eauto|split; [exact T4|split; [exact CL|exact BE4]]]. }
  assert (Stm : forall sfx, w_st (mark_best w3 sfx) = w_st w3) by (intros; destruct w3; reflexivity).
  assert (Rnm : forall sfx, w_runs (mark_best w3 sfx) = w_runs w3) by (intros; destruct w3; reflexivity).
  (* the grapheme loop entered from a state that carries the checkpoint of this iteration *)
  assert (G : forall wx, JP n wx -> s_save (w_sc wx) = s_alt (w_sc w) -> w_start wx = w_start w ->
              b_prevW (w_br wx) = b_prevW b1 -> b_wpos (w_br wx) = b_wpos b1 -> b_unusedW (w_br wx) = b_unusedW b1 ->
              best_end wx <= Z.max (w_start w) (b_wpos b1) ->
              (b_isUnusedW (w_br wx) = true \/ has_best wx = false \/ lc_truncating lc = true) ->
              inner_loop (br_fuel wx) (restore wx) opt lc = Ok (w', d) -> PostM (w_start w) lc w' d).
  { intros wx Px Sx Stx Pwx Wx Ux Bx Fx Hx. destruct (restore_proj wx) as (Rx1 & Rx2 & Rx3 & Rx4).
    rewrite <- Stx, <- Rx3. eapply (inner_M _ _ opt); [apply JT_restore; exact Px| | | | | | | |exact Hx].
    - unfold OrdI. rewrite Rx1, Rx2, Rx3, Sx, Stx, Pwx. intros Hne. left. destruct (HO Hne) as [O1 O2]. fold b in O1, O2.
      destruct (b_isUnusedW b) eqn:FB; [cbn in O2; lia|]. rewrite (X9 eq_refl). exact O1.
    - rewrite Rx2, Wx. lia.
    - rewrite Rx2, Wx, Ux. lia.
    - rewrite Rx2, Wx. lia.
    - rewrite Rx3, Stx, Rx2, Wx. exact P0.
    - rewrite best_end_restore, Rx3, Stx, Rx2, Wx. exact Bx.
    - rewrite Rx2, (has_best_same wx (restore wx) Rx4). exact Fx. }
  destruct r.
  - (* BreakInvalid: the option is discarded *)
    cbv beta iota zeta in H. rewrite R2, F3b in H.
    destruct (set_br_proj (restore w3) (discard_word b1)) as (D1 & D2 & D3 & D4 & D5).
    assert (Sr : sk (w_st (set_br (restore w3) (discard_word b1))) = sk st0) by (rewrite <- Hsk, <- Sk3; destruct w3; reflexivity).
    rewrite <- F3s, <- R3, <- D3.
    apply (IH (set_br (restore w3) (discard_word b1)) lc w' d);
      [apply JT_set_br; [apply JT_restore; exact P3|apply Bk_discard; assumption]| |apply XI_set_br; apply XI_restore; exact XC3| | | | | | |exact H].
    + unfold OrdO. rewrite D1, D2, D3, R1, R3, F3v, F3s. cbn [discard_word b_unusedW b_isUnusedW]. rewrite FW.
      intros Hne. destruct (HO Hne) as [O1 O2]. fold b in O1, O2.
      destruct (b_isUnusedW b) eqn:FB; [cbn in O2; lia|]. rewrite (X9 eq_refl). split; [exact O1|reflexivity].
    + rewrite D2. apply BW_discard; assumption.
    + rewrite D2. cbn. rewrite HA1. exact HA.
    + exact Sr.
    + replace (w_runs (set_br (restore w3) (discard_word b1))) with (w_runs w3) by (destruct w3; reflexivity). rewrite F3r. exact Hruns.
    + intros p Hp Hv. rewrite D3, R3, F3s in Hp. rewrite D2. pose proof (P0 p Hp Hv) as Pp.
      unfold U. cbn [discard_word b_wpos b_isUnusedW].
      left. destruct (Z.eq_dec p (b_wpos b1)) as [E|E]; [exfalso|lia].
      destruct (Inv3 eq_refl) as [I|I]; [lia|]. apply I. replace (fst opt + 1) with p by lia.
      destruct Hv as (_ & _ & _ & V4). rewrite Hruns. apply (CBall_sk st0); [symmetry; exact Hsk|exact V4].
    + rewrite best_end_set_br, best_end_restore, BE3, D3, R3, F3s, D2. cbn [discard_word b_wpos]. exact Bmax.
  - (* EndLine *)
    cbv beta iota zeta in H. injection H as <- <-. destruct (Best1 ltac:(discriminate)) as (_ & _ & _ & BE4).
    split; [|discriminate]. intros p Hp Hv. rewrite BE4. specialize (P0 p Hp Hv). lia.
  - (* Truncated *)
    assert (Ht : lc_truncating lc = true) by (apply K3; right; reflexivity).
    destruct (Best1 ltac:(discriminate)) as (_ & _ & CL & _).
    assert (X' : JP n (if has_best w3 then w3 else mark_best (restore w3) []) /\ w_br (if has_best w3 then w3 else mark_best (restore w3) []) = b1
                 /\ s_save (w_sc (if has_best w3 then w3 else mark_best (restore w3) [])) = s_alt (w_sc w)
                 /\ w_start (if has_best w3 then w3 else mark_best (restore w3) []) = w_start w
                 /\ best_end (if has_best w3 then w3 else mark_best (restore w3) []) <= Z.max (w_start w) (b_wpos b1)).
    { destruct (has_best w3).
      - split; [exact P3|]. repeat split; auto. rewrite BE3. exact Bmax.
      - destruct (JT_restore n w3 P3) as [P3r _].
        destruct (JP_mark_best_nil n (restore w3) P3r ltac:(destruct w3; cbn; apply Z.le_refl)) as [P4 BE5]. split; [exact P4|].
        rewrite BE5, R1, R3, F3v, F3s. pose proof (proj2 HT) as HTa. destruct w3; cbn in *. repeat split; auto. lia. }
    destruct X' as (X'1 & X'2 & X'3 & X'4 & X'5).
    cbv beta iota zeta in H. destruct (policy_never _).
    + injection H as <- <-. split; [|discriminate]. intros p Hp Hv. specialize (P0 p Hp Hv). lia.
    + apply (G _ X'1 X'3 X'4); auto; rewrite X'2; reflexivity.
  - (* NewLineBeforeBreak *)
    cbv beta iota zeta in H. rewrite R2, F3b in H.
    pose proof (JT_set_br n _ _ (JT_restore n w3 P3) Mw) as T5.
    destruct (set_br_proj (restore w3) (mark_word_unused b1)) as (U1 & U2 & U3 & U4 & U5).
    assert (BE5 : best_end (set_br (restore w3) (mark_word_unused b1)) = best_end w) by (rewrite best_end_set_br, best_end_restore; exact BE3).
    destruct (_ || _).
    + injection H as <- <-. split.
      * intros p Hp Hv. rewrite BE5. specialize (P0 p Hp Hv). lia.
      * intros _ _ _ p Hp Hv. rewrite BE5 in Hp. rewrite U2. apply U_intro; [cbn; apply P0; [lia|exact Hv]|reflexivity].
    + apply (G (set_br (restore w3) (mark_word_unused b1)) (proj1 T5));
        [rewrite U5; destruct w3; cbn in *; exact F3v|rewrite U3, R3; exact F3s|rewrite U2; reflexivity|rewrite U2; reflexivity
        |rewrite U2; reflexivity|rewrite BE5; exact Bmax|left; rewrite U2; reflexivity|exact H].
  - (* Fits *)
    destruct (Best1 ltac:(discriminate)) as (B1x & T4 & CL & BE4).
    cbv beta iota zeta in H. destruct (snd opt) eqn:SO.
    + injection H as <- <-. split.
      * intros p Hp Hv. rewrite BE4. specialize (P0 p Hp Hv). lia.
      * intros _ _ _ p Hp Hv. rewrite BE4 in Hp. rewrite M2, F3b. left. lia.
    + assert (Sr : sk (w_st (mark_best w3 [cand])) = sk st0) by (rewrite Stm, Sk3; exact Hsk).
      rewrite <- F3s, <- M3. apply (IH (mark_best w3 [cand]) lc w' d); [exact T4| |exact B1x| | | | | | |exact H].
      * unfold OrdO. rewrite M1, M2, M3, F3b, FW. intros _. split; [lia|reflexivity].
      * rewrite M2, F3b. exact HBW1.
      * rewrite M2, F3b, HA1. exact HA.
      * exact Sr.
      * rewrite Rnm, F3r. exact Hruns.
      * intros p Hp Hv. rewrite M3, F3s in Hp. rewrite M2, F3b. pose proof (P0 p Hp Hv) as Pp.
        left. destruct (Z.eq_dec p (b_wpos b1)) as [E|E]; [exfalso|lia].
        destruct Hv as (_ & V2 & V3 & _). destruct Can as [_ Can]. rewrite SO in Can.
        replace (fst opt + 1) with p in Can by lia. rewrite V2 in Can.
        replace (fst opt =? n - 1) with false in Can by (symmetry; apply Z.eqb_neq; lia). discriminate.
      * rewrite BE4, M3, F3s, M2, F3b. lia.
  - (* CannotFit *)
    assert (Hhb : has_best w3 = false) by (apply K2; reflexivity).
    cbv beta iota zeta in H. destruct (policy_never w3).
    + destruct (lc_truncating lc) eqn:Hlc.
      * injection H as <- <-. split; [|discriminate]. intros p Hp Hv. rewrite BE3. specialize (P0 p Hp Hv). lia.
      * injection H as <- <-. destruct (Best1 ltac:(discriminate)) as (_ & _ & _ & BE4). split.
        -- intros p Hp Hv. rewrite BE4. specialize (P0 p Hp Hv). lia.
        -- intros _ _ _ p Hp Hv. rewrite BE4 in Hp. rewrite M2, F3b. left. lia.
    + apply (G w3 P3); auto; try (rewrite F3b; reflexivity). rewrite BE3. exact Bmax.
Qed.

(* ---- one WrapNextLine call ------------------------------------------------------------------------------------ *)

(* the invariant between calls: every valid mandatory break beyond the line start is ahead of the line iterator *)
Definition KoM (w : W) : Prop := forall p, w_start w < p -> vm p -> U (w_br w) p.

Lemma wnl_M : forall w mw w' wl d,
  CI n attrs w -> XB n w -> BW (w_br w) -> w_more w = true -> sk (w_st w) = sk st0 -> w_runs w = runs -> KoM w ->
  wrap_next_line w mw = Ok (w', wl, d) ->
  (forall p, w_start w < p < wl_next wl -> line_boundary attrs p = true -> mandatory_boundary attrs p = true ->
             CBall st0 runs p -> False)
  /\ (d = false -> wl_line wl <> None -> KoM w').
Proof.
  intros w mw w' wl d HC HB HBW Hm Hsk Hruns Ko H. unfold wrap_next_line in H. rewrite Hm in H. cbn [negb] in H.
  destruct (CI_peek n attrs w HC) as (ci & run & PK). rewrite PK in H. cbn [negb] in H.
  destruct (CI_start_line n attrs w HC) as (T0 & O0 & A0 & N0 & Acc0).
  pose proof HC as (HR & HP & HS & HM & HBk & HA & Hst & HT & HF).
  set (lc := mkLC _ _ _) in H.
  destruct (outer_loop _ (start_line w) lc) as [[w2 d2]| | |] eqn:OL; cbn [bind] in H; try discriminate.
  destruct (outer_loop_ok n _ _ _ _ _ (proj1 (proj1 T0)) OL) as [_ O2].
  destruct (outer_loop_J n (phi n (w_br w)) attrs _ _ _ _ _ T0 O0 (N0 lc) A0 (fun _ => Acc0) OL) as (P2 & N2 & A2 & Post2 & Acc2).
  assert (PM : PostM (w_start w) lc w2 d2).
  { replace (w_start w) with (w_start (start_line w)) by (destruct w; reflexivity).
    eapply outer_M; [exact T0|exact O0|apply XI_start_line; exact HB| | | | | | |exact OL].
    - destruct w; exact HBW.
    - exact A0.
    - destruct w; exact Hsk.
    - destruct w; exact Hruns.
    - destruct w; exact Ko.
    - destruct w; unfold best_end; cbn. lia. }
  destruct PM as [PE PK'].
  destruct O2 as (Oc & Ot & Os & Om & Or & On & Oa).
  replace (w_cfg (start_line w)) with (w_cfg w) in * by (destruct w; reflexivity).
  replace (w_truncating (start_line w)) with (w_truncating w) in * by (destruct w; reflexivity).
  replace (w_start (start_line w)) with (w_start w) in * by (destruct w; reflexivity).
  replace (w_more (start_line w)) with (w_more w) in * by (destruct w; reflexivity).
  replace (w_runs (start_line w)) with (w_runs w) in * by (destruct w; reflexivity).
  cbv beta iota zeta in H. injection H as PP. rewrite post_process_split in PP.
  destruct (pp_first w2 (s_best (w_sc w2))) as [w1 l1] eqn:PF.
  pose proof P2 as (I2 & B2 & S2 & St2 & BP2 & _ & BN2).
  assert (HL : forall l, s_best (w_sc w2) = Some l -> chain (w_start w2) l (lend (w_start w2) l)).
  { intros l Hl. destruct I2 as (_ & _ & _ & _ & HBo). destruct (HBo l Hl) as [e He]. rewrite (lend_chain _ _ _ He). exact He. }
  destruct (pp_first_spec _ _ _ _ HL PF) as (F1 & F2 & F3 & F4 & F5 & F6 & F7 & F8 & F9 & F10).
  fold (best_end w2) in F9.
  rewrite <- F1 in PP.
  destruct (pp_tail_spec n w1 l1 d2 w' wl d ltac:(rewrite F8; exact (proj1 B2)) ltac:(rewrite F9; exact BN2) PP)
    as (G1 & G2 & G3 & G4 & G5 & G6 & G7 & G8 & G9 & G10 & G11 & G12 & G13 & G14 & G15 & G16).
  assert (TF : tfinal w1 = lc_truncating lc).
  { unfold tfinal, lc. cbn. rewrite F2, F1, Ot, Oc, HT.
    destruct (c_trunc (w_cfg w) =? 1) eqn:E1.
    - apply Z.eqb_eq in E1. rewrite E1. reflexivity.
    - apply Z.eqb_neq in E1. destruct (0 <? c_trunc (w_cfg w)); [|reflexivity]. cbn. apply Z.eqb_neq. lia. }
  split.
  - intros p Hp V1 V2 V4. rewrite G8, F9 in Hp.
    assert (Hv : vm p) by (unfold vm; repeat split; auto; lia).
    specialize (PE p ltac:(lia) Hv). lia.
  - intros -> Hline. destruct (G11 eq_refl) as (D1 & D2 & D3 & D4 & D5).
    assert (Hlc : lc_truncating lc = false) by (rewrite <- TF; exact D4).
    destruct (G15 D4) as (Tl & _). rewrite Tl in Hline.
    assert (Hhb : has_best w2 = true).
    { unfold has_best. destruct (s_best (w_sc w2)) as [lb|] eqn:EB; [|congruence].
      pose proof (N2 Hlc lb EB) as Nb. destruct lb; [congruence|reflexivity]. }
    unfold KoM. rewrite G7, F9, G5, F8. intros p Hp Hv. exact (PK' D2 Hlc Hhb p Hp Hv).
Qed.

(* ---- any number of calls ------------------------------------------------------------------------------------------ *)

(* no call returned a nil line while reporting "not done" (the pattern of finding F37) *)
Definition no_live_nil (rs : list (wrapped * bool)) : bool :=
  forallb (fun x => match wl_line (fst x) with None => snd x | Some _ => true end) rs.

(* reading the recorded results from rune position [pos]: the text of each call's line is [pos, wl_next); no position
   strictly inside it satisfies Q *)
Fixpoint mand_ok (Q : Z -> Prop) (pos : Z) (rs : list (wrapped * bool)) : Prop :=
  match rs with
  | [] => True
  | (wl, d) :: rest => (forall p, pos < p < wl_next wl -> Q p -> False) /\ mand_ok Q (wl_next wl) rest
  end.

Definition vm0 (p : Z) : Prop :=
  line_boundary attrs p = true /\ mandatory_boundary attrs p = true /\ CBall st0 runs p.

Lemma run_calls_M : forall widths w (live : bool) w' rs,
  (match live return Prop with
   | true => CI n attrs w /\ w_more w = true /\ XB n w /\ BW (w_br w) /\ sk (w_st w) = sk st0 /\ w_runs w = runs /\ KoM w
   | false => w_more w = false end) ->
  run_calls w widths = Ok (w', rs) -> no_live_nil rs = true -> mand_ok vm0 (w_start w) rs.
Proof.
  induction widths as [|mw rest IH]; intros w live w' rs HS H NL; cbn [run_calls] in H.
  { inversion H; subst. exact I. }
  destruct (wrap_next_line w mw) as [[[w1 wl] d]| | |] eqn:WN; cbn [bind] in H; try discriminate.
  destruct (run_calls w1 rest) as [[w2 rs2]| | |] eqn:RC; cbn [bind fst snd] in H; try discriminate.
  inversion H; subst w' rs; clear H. cbn [mand_ok]. unfold no_live_nil in NL. cbn [forallb fst snd] in NL.
  apply andb_prop in NL. destruct NL as [NL1 NL2]. destruct live.
  - destruct HS as (HC & Hm & HB & HBW & Hsk & Hruns & Ko).
    destruct (wnl_M w mw w1 wl d HC HB HBW Hm Hsk Hruns Ko WN) as (L & K).
    destruct (wrap_next_line_J n attrs w mw w1 wl d HC Hm WN) as (_ & L2 & _ & L4 & L5).
    pose proof (wrap_next_line_safe n attrs w mw HC HB) as WS. rewrite WN in WS. destruct WS as (XB1 & S1 & R1 & _).
    split.
    + intros p Hp (V1 & V2 & V4). exact (L p Hp V1 V2 V4).
    + rewrite L2. apply (IH w1 (negb d) w2 rs2); [|exact RC|exact NL2].
      destruct d; cbn; [apply L5; reflexivity|]. destruct (L4 eq_refl) as (A & B & _).
      split; [exact A|]. split; [exact B|]. split; [exact XB1|]. split; [eapply wnl_BW; eauto|].
      split; [rewrite S1; exact Hsk|]. split; [rewrite R1; exact Hruns|].
      apply K; [reflexivity|]. destruct (wl_line wl); [discriminate|discriminate NL1].
  - unfold wrap_next_line in WN. rewrite HS in WN. cbn in WN. inversion WN; subst w1 wl d; clear WN. cbn.
    split; [intros p Hp; lia|]. apply (IH w false w2 rs2); auto.
Qed.

End Mand.

(* ---- the statement over Spec/Wrap.v ------------------------------------------------------------------------------- *)

(* a valid mandatory break: a line boundary flagged mandatory by the segmenter that is a cluster boundary of every run *)
Definition valid_mandatory (attrs : list Z) (st : store) (runs : list out) (p : Z) : Prop :=
  line_boundary attrs p = true /\ mandatory_boundary attrs p = true /\ cluster_boundary st runs p = true.

Lemma mand_ok_impl : forall (Q Q' : Z -> Prop), (forall p, Q' p -> Q p) -> forall rs pos, mand_ok Q pos rs -> mand_ok Q' pos rs.
Proof.
  intros Q Q' HQ. induction rs as [|[wl d] rs IH]; intros pos H; cbn [mand_ok] in *; [exact I|].
  destruct H as [H1 H2]. split; [intros p Hp Hq; exact (H1 p Hp (HQ p Hq))|apply IH; exact H2].
Qed.

Lemma KoM_prepare : forall n attrs st0 runs w cfg, KoM n attrs st0 runs (prepare w cfg attrs runs 0 0).
Proof. intros n attrs st0 runs w cfg p Hp Hv. left. exact Hp. Qed.

(* mandatory_break_ends_line over returned lines: Prepare on well-formed runs followed by any number of WrapNextLine calls
   with any widths; as long as no call returns a nil line while live, no call's line [previous NextLine, NextLine) has a
   valid mandatory break strictly inside it *)
Lemma mandatory_lines_all : forall n w cfg attrs runs widths w' rs,
  wf_runs (w_st w) runs n = true -> zlen attrs - 1 = n -> 1 <= n ->
  run_calls (prepare w cfg attrs runs 0 0) widths = Ok (w', rs) ->
  no_live_nil rs = true ->
  mand_ok (valid_mandatory attrs (w_st w) runs) 0 rs.
Proof.
  intros n w cfg attrs runs widths w' rs HW Hn H1 H NL.
  apply (mand_ok_impl (vm0 attrs (w_st w) runs)).
  - intros p (A & B & C). split; [exact A|]. split; [exact B|]. eapply cluster_boundary_CBall; eauto.
  - refine (run_calls_M n attrs (w_st w) runs widths (prepare w cfg attrs runs 0 0) true w' rs _ H NL).
    split; [apply CI_prepare; auto; eapply wf_runs_ok; eauto|]. split; [reflexivity|].
    split; [apply XB_prepare; exact HW|]. split; [apply BW_new|]. split; [reflexivity|]. split; [reflexivity|].
    apply KoM_prepare.
Qed.
