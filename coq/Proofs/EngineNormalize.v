(* otShapeNormalize (Model/Engine.v `normalize`) preserves the engine-level invariant EWF, never panics, and all its loop
   fuels suffice, for EVERY buffer, decomposition / composition function, cmap, variation-sequence table, Unicode data,
   normalization mode and reorderMarks variant.  The rounds are proved separately (EngineDecompose: round1, EngineRound2:
   round2 + CGJ pass with EngineReorder: reorderMarks, EngineRecompose: round3); this file composes them.
   The only way not to return Ok is the recursion budget dfuel of decompose (the Go recursion is unbounded): excluded by
   the data obligation decomp_wf (decompositions are well-founded with depth below dfuel). *)
From TV Require Import Model.Buffer Spec.Buffer Proofs.ShapeGlue Proofs.Buffer Proofs.BufferOps Proofs.BufferNewOps Proofs.BufferAll.
From TV Require Import Model.Engine Proofs.Engine Proofs.EngineReorder Proofs.EngineRound2 Proofs.EngineRecompose Proofs.EngineDecompose.

Lemma swap_at_end b : have_out b = true -> idx b = zlen (info b) ->
  swap_buffers b = Ok (mkB (out b) (info b) 0 false (pos_len b) (pos_cap b) (level b) (fl_concat b) (fl_tatweel b) (has_gf b)).
Proof.
  intros Hh Hi. unfold swap_buffers, next_glyphs. rewrite Hh, Hi. rewrite Z.sub_diag, Z.add_0_r.
  pose proof (zlen_nonneg (info b)) as Hn. destruct (Z.leb_spec 0 (zlen (info b))); [|lia]. rewrite !Z.leb_refl. cbn [Z.leb andb bind].
  unfold slice. rewrite Z.sub_diag. rewrite zfirstn_neg by lia. rewrite app_nil_r.
  cbn [out info idx have_out pos_len pos_cap level fl_concat fl_tatweel has_gf with_idx with_out]. reflexivity.
Qed.

Section Normalize.
  Variable ugc : Z -> Z.
  Variable udi : Z -> bool.
  Variable umcc : Z -> Z.
  Variable uspace : Z -> Z.
  Variable nominal : Z -> Z * bool.
  Variable variation : Z -> Z -> Z * bool.
  Variable sdecomp : Z -> option (Z * Z).
  Variable scomp : Z -> Z -> option Z.
  Variable smode : Z.
  Variable sreorder : Z.
  Variable is_mcm : Z -> bool.
  Variable dfuel : nat.
  Variables lo hi : Z.

  Notation okt := (okt sdecomp dfuel).

  (* what normalize keeps *)
  Definition norm_post (e e' : ebuf) : Prop :=
    EWF lo hi e' /\ level (eb e') = level (eb e) /\ idx (eb e') = 0 /\ dir e' = dir e.

  Lemma swap_end_wf b : (level b =? 2) = false -> WF lo hi b = true -> have_out b = true -> idx b = zlen (info b) ->
    exists b', swap_buffers b = Ok b' /\ WF lo hi b' = true /\ level b' = level b /\ have_out b' = false /\ idx b' = 0
      /\ zlen (info b') = zlen (out b).
  Proof.
    intros Hl Hw Hh Hi. destruct (swap_buffers_wf lo hi b Hl Hw) as (b' & E & W & L); [cbn [pre]; exact Hh|].
    exists b'. rewrite (swap_at_end b Hh Hi) in E. inversion E; subst b'. clear E.
    rewrite (swap_at_end b Hh Hi). repeat split; auto.
  Qed.

  Lemma normalize_okt e : EWF lo hi e ->
    okt (normalize ugc udi umcc uspace nominal variation sdecomp scomp smode sreorder is_mcm dfuel e) (norm_post e).
  Proof.
    intros (Hw & Hl & Hh). unfold normalize.
    destruct (WF_parts lo hi (eb e) Hl Hw) as (I0 & I1 & _).
    destruct (Z.eqb_spec (zlen (info (eb e))) 0) as [Z0|NZ].
    { apply okt_ok. repeat split; auto. lia. }
    cbv zeta.
    destruct (clear_output_wf lo hi (eb e) Hl Hw) as (b0 & E0 & W0 & L0); [cbn [pre]; rewrite Hh; reflexivity|].
    rewrite E0. cbn [bind].
    assert (F0 : have_out b0 = true /\ idx b0 = 0 /\ info b0 = info (eb e)).
    { unfold clear_output in E0. inversion E0; subst b0. repeat split. }
    destruct F0 as (Hh0 & Hi0 & Ei0).
    pose proof (zlen_nonneg (info (eb e))) as Hn.
    assert (G0 : good lo hi (with_eb e b0)).
    { unfold good. cbn [eb with_eb]. repeat split; auto. rewrite L0. exact Hl. }
    eapply okt_bind.
    { apply (round1_okt ugc udi umcc uspace nominal variation sdecomp dfuel lo hi); cbn [eb with_eb]; auto; try lia.
      rewrite Hi0, Ei0. lia. }
    intros [e1 simple] (Fr & Iend & Onz). cbn [fst] in *.
    destruct Fr as ((Hl1 & Hw1 & Hh1) & Lv1 & Z1 & D1 & _). cbn [eb with_eb dir] in Lv1, Z1, D1.
    destruct (swap_end_wf (eb e1) Hl1 Hw1 Hh1 Iend) as (b1 & E1 & W1 & L1 & Hh1' & I1' & Zb1).
    rewrite E1. cbn [bind].
    assert (Hlb1 : (level b1 =? 2) = false) by (rewrite L1; exact Hl1).
    (* second round *)
    assert (R2 : exists b2, (if negb simple then round2 sreorder is_mcm (Z.to_nat (zlen (info b1)) + 1) (zlen (info b1)) b1 0 else Ok b1) = Ok b2
                  /\ stable lo hi b1 b2 /\ idx b2 = idx b1).
    { destruct simple; cbn [negb].
      - exists b1. split; [reflexivity|]. split; [apply stable_refl; auto|reflexivity].
      - apply round2_call_ok; auto. }
    destruct R2 as (b2 & E2 & (W2 & Hh2 & L2 & Z2) & I2). rewrite E2. cbn [bind].
    assert (Hlb2 : (level b2 =? 2) = false) by (rewrite L2; exact Hlb1).
    (* CGJ pass *)
    assert (R3 : exists b3, (if sf_cgj e1 then cgj_pass b2 else Ok b2) = Ok b3 /\ stable lo hi b2 b3 /\ idx b3 = idx b2).
    { destruct (sf_cgj e1).
      - apply cgj_pass_ok; auto.
      - exists b2. split; [reflexivity|]. split; [apply stable_refl; auto|reflexivity]. }
    destruct R3 as (b3 & E3 & (W3 & Hh3 & L3 & Z3) & I3). rewrite E3. cbn [bind].
    assert (Hlb3 : (level b3 =? 2) = false) by (rewrite L3; exact Hlb2).
    destruct (negb simple && _).
    - (* third round *)
      destruct (clear_output_wf lo hi b3 Hlb3 W3) as (b4 & E4 & W4 & L4); [cbn [pre]; rewrite Hh3; reflexivity|].
      rewrite E4. cbn [bind].
      assert (F4 : have_out b4 = true /\ idx b4 = 0 /\ info b4 = info b3 /\ out b4 = []).
      { unfold clear_output in E4. inversion E4; subst b4. repeat split. }
      destruct F4 as (Hh4 & Hi4 & Ei4 & Eo4).
      assert (Hlb4 : (level b4 =? 2) = false) by (rewrite L4; exact Hlb3).
      assert (Pos4 : 0 < zlen (info b4)) by (rewrite Ei4; lia).
      destruct (next_glyph_wf lo hi b4 Hlb4 W4) as (b5 & E5 & W5 & L5); [cbn [pre]; apply Z.ltb_lt; lia|].
      rewrite E5. cbn [bind].
      rewrite (next_glyph_frame b4 Hh4 ltac:(lia) ltac:(lia)) in E5. injection E5 as Eb5.
      assert (Hlb5 : (level b5 =? 2) = false) by (rewrite L5; exact Hlb4).
      assert (F5 : have_out b5 = true /\ idx b5 = 1 /\ zlen (out b5) = 1 /\ info b5 = info b4).
      { rewrite <- Eb5. cbn [have_out idx out info with_idx with_out]. rewrite Hh4, Hi4, Eo4. repeat split. }
      destruct F5 as (Hh5 & Hi5 & Zo5 & Ei5).
      destruct (round3_ok_end ugc udi umcc nominal scomp lo hi (Z.to_nat (zlen (info b5)) + 1) (zlen (info b5)) 0 (with_eb e1 b5))
        as (e5 & E5' & W5' & Hl5' & Hh5' & I5' & D5'); cbn [eb with_eb]; auto; try lia.
      rewrite E5'. cbn [bind].
      destruct (swap_end_wf (eb e5) Hl5' W5' Hh5' I5') as (b6 & E6 & W6 & L6 & Hh6 & I6 & _).
      rewrite E6. cbn [lift bind]. apply okt_ok. unfold norm_post, EWF. cbn [eb with_eb dir] in *.
      assert (Hlb6 : (level b6 =? 2) = false) by (rewrite L6; exact Hl5').
      repeat split; auto; try congruence.
      (* the level: round3 keeps it *)
      destruct (round3_ok ugc udi umcc nominal scomp lo hi (Z.to_nat (zlen (info b5)) + 1) (zlen (info b5)) 0 (with_eb e1 b5))
        as (e5'' & E5'' & _ & Lv5 & _); cbn [eb with_eb]; auto; try lia.
      rewrite E5' in E5''. inversion E5''; subst e5''. cbn [eb with_eb] in Lv5. congruence.
    - apply okt_ok. unfold norm_post, EWF. cbn [eb with_eb dir]. repeat split; auto; congruence.
  Qed.

  (* OutOfFuel (the decompose recursion budget) or Ok with the invariant: never Panic *)
  Lemma normalize_ok e : EWF lo hi e ->
    okf (normalize ugc udi umcc uspace nominal variation sdecomp scomp smode sreorder is_mcm dfuel e) (norm_post e).
  Proof. intros H. apply (okt_okf sdecomp dfuel). apply normalize_okt. exact H. Qed.

  Lemma normalize_total e : decomp_wf sdecomp dfuel -> EWF lo hi e ->
    exists e', normalize ugc udi umcc uspace nominal variation sdecomp scomp smode sreorder is_mcm dfuel e = Ok e' /\ norm_post e e'.
  Proof. intros D H. apply (okt_total sdecomp dfuel _ _ D). apply normalize_okt. exact H. Qed.
End Normalize.
