(* A pass that READS THE CONTEXT meets the contract (C18): the forward half of a joining rule.  A glyph is a "joiner" when
   its glyph id is odd; a joiner followed by a joiner — the next glyph of the run or, at the end of the run, the first
   glyph of the post-context — takes its joined form (glyph id + 100, which keeps it a joiner) and the pair is flagged
   when both glyphs are in the run.  The pass sees the text on its right only through psumR = "the first glyph on the
   right is a joiner".  This instance is a design-level witness that the context half of the contract (psumL / psumR,
   stable, the R' of so_fwd) is satisfiable by a rule whose decision really depends on the neighbouring piece; it is not
   a model of applyArabicJoining. *)
From TV Require Import Model.EngineItem Spec.LocalEngine Proofs.LocalEngine Proofs.EngineItem Proofs.KernMachine.

Definition joiner (x : item) : bool := Z.odd (igid x).
Definition head_joins (l : list item) : bool := match l with x :: _ => joiner x | [] => false end.
Definition joined (x : item) : item := with_g x (set_gid (ig x) (igid x + 100)).

Definition join_step (L R d t : list item) : list item * list item :=
  match t with
  | [] => (d, [])
  | x :: rest =>
    if joiner x && head_joins (rest ++ R) then
      match rest with
      | [] => (d ++ [joined x], [])
      | y :: rest' => let w := flag_window [joined x; y] in (d ++ [hd i0 w], tl w ++ rest')
      end
    else (d ++ [x], rest)
  end.

Definition join_pass : @pass item bool := mkPass join_step (fun _ => false) head_joins.

Lemma joined_props x : icl (joined x) = icl x /\ (iutb x = true -> iutb (joined x) = true) /\ joiner (joined x) = joiner x.
Proof.
  split; [reflexivity|]. split; [auto|]. unfold joiner, joined, igid, with_g, set_gid. cbn [ig gid].
  rewrite Z.odd_add. change (Z.odd 100) with false. destruct (Z.odd (gid (ig x))); reflexivity.
Qed.

Lemma head_joins_flag w X : head_joins (flag_window w ++ X) = head_joins (w ++ X).
Proof.
  unfold flag_window, flag_window_m. destruct w as [|a [|b r]]; try reflexivity. cbn [map app head_joins].
  destruct (icl a =? _); reflexivity.
Qed.

Lemma join_step_refines L R d x rest :
  refines (d ++ x :: rest) (fst (join_step L R d (x :: rest)) ++ snd (join_step L R d (x :: rest))).
Proof.
  unfold join_step. destruct (joiner x && head_joins (rest ++ R)).
  - destruct (joined_props x) as (E & U & _). destruct rest as [|y rest'].
    + cbn [fst snd]. rewrite app_nil_r. apply refines_app; [apply refines_refl|]. constructor; [|constructor]. split; [symmetry; exact E|exact U].
    + cbn [fst snd]. rewrite <- app_assoc. apply refines_app; [apply refines_refl|].
      rewrite app_assoc, hd_tl_window by (unfold flag_window; cbn; destruct (_ =? _); discriminate).
      change (x :: y :: rest') with ([x; y] ++ rest').
      apply refines_app; [|apply refines_refl].
      eapply refines_trans; [|apply flag_window_refines].
      constructor; [split; [symmetry; exact E|exact U]|apply refines_refl].
  - cbn [fst snd]. rewrite <- app_assoc. apply refines_refl.
Qed.

Theorem join_step_ok : step_ok icl iutb sideL sorted join_pass.
Proof.
  constructor.
  - intros L R d t Hne. destruct t as [|x rest]; [contradiction|]. cbn [pstep join_pass]. unfold join_step.
    destruct (joiner x && _); [|cbn; lia]. destruct rest as [|y rest']; [cbn; lia|]. cbn [snd].
    unfold flag_window, flag_window_m. cbn [map tl length app]. lia.
  - intros L R d t Hne HI. destruct t as [|x rest]; [contradiction|].
    eapply sorted_same; [|exact HI]. symmetry. apply refines_icls. apply join_step_refines.
  - intros L R d t y Hne HI Hy. destruct t as [|x rest]; [contradiction|].
    apply (refines_cls _ _ (join_step_refines L R d x rest) y Hy).
  - intros L R d t c Hne HI F. destruct t as [|x rest]; [contradiction|].
    apply (refines_fog c _ _ (join_step_refines L R d x rest) F).
  - (* cut ahead *)
    intros L R R' d t1 t2 c Hne HI HI1 HC HS. cbv zeta. cbn [pstep psumR join_pass] in *.
    destruct t1 as [|x r1]; [contradiction|]. apply cutvL_spec in HC. destruct HC as [C1 C2].
    cbn [app]. unfold join_step.
    destruct r1 as [|y r1'].
    + (* x is the last glyph before the cut: the piece decides from its post-context, the whole run from t2 *)
      cbn [app]. rewrite HS.
      destruct (joiner x && head_joins (t2 ++ R)) eqn:J; [|right; reflexivity].
      destruct t2 as [|z t2'].
      * right. reflexivity.
      * left. cbn [fst snd].
        assert (E : (d ++ [hd i0 (flag_window [joined x; z])]) ++ tl (flag_window [joined x; z]) ++ t2'
                    = d ++ flag_window [joined x; z] ++ t2').
        { rewrite <- app_assoc. reflexivity. }
        rewrite E. apply fog_flag_window.
        -- eapply sorted_same; [|exact HI]. cbn [app]. unfold icls. rewrite !map_app. reflexivity.
        -- intros u Hu. apply C1. apply in_or_app. left. exact Hu.
        -- intros u Hu. apply C2. right. exact Hu.
        -- exists (joined x). split; [left; reflexivity|]. apply (C1 x). apply in_or_app. right. left. reflexivity.
        -- exists z. split; [right; left; reflexivity|]. apply C2. left. reflexivity.
    + (* the next glyph is before the cut as well *)
      right. cbn [app head_joins]. destruct (joiner x && joiner y); reflexivity.
  - (* cut behind: the rule never looks back *)
    intros L L' R d1 d2 t c Hne HI HI2 HC _. cbv zeta. cbn [pstep join_pass]. right.
    destruct t as [|x rest]; [contradiction|]. unfold join_step.
    destruct (joiner x && head_joins (rest ++ R)); [|cbn [fst snd]; rewrite app_assoc; reflexivity].
    destruct rest as [|y rest']; cbn [fst snd]; rewrite app_assoc; reflexivity.
Qed.

(* the pass does not change what it (or any pass with the same summaries) sees of a neighbouring piece *)
Theorem join_stable : stable sorted join_pass join_pass.
Proof.
  intros L R d t Hne HI. split; [|intros X; reflexivity]. intros X. cbn [psumR join_pass pstep].
  destruct t as [|x rest]; [contradiction|]. unfold join_step.
  destruct (joiner x && head_joins (rest ++ R)).
  - destruct rest as [|y rest']; cbn [fst snd].
    + destruct d as [|a d']; cbn [app head_joins]; [apply joined_props|reflexivity].
    + destruct d as [|a d']; [|reflexivity]. cbn [app].
      unfold flag_window, flag_window_m. cbn [map hd head_joins].
      destruct (icl (joined x) =? _); [apply joined_props|]. change (joiner (flag_item m_break (joined x))) with (joiner (joined x)). apply joined_props.
  - cbn [fst snd]. rewrite <- !app_assoc. reflexivity.
Qed.

Theorem join_engine_wf : wf_engine icl iutb sideL sorted [join_pass].
Proof. cbn. split; [exact join_step_ok|]. split; [constructor; [exact join_stable|constructor]|exact I]. Qed.
