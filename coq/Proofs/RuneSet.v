(* Proofs about Model/RuneSet.v: the rune-set container refines a mathematical set of runes. *)
From TV Require Import Lib.GoNum Lib.Res Lib.Bytes Model.RuneSet Spec.RuneSet.
From Coq Require Import Sorting.Permutation ZifyBool.

Local Ltac zdm := Z.div_mod_to_equations.

(* ------------------------------------------------------------------ list helpers *)
Lemma upd_length {A} (l : list A) n f : length (upd l n f) = length l.
Proof. revert n; induction l; destruct n; simpl; auto. Qed.
Lemma nth_upd_same {A} (l : list A) n f d : (n < length l)%nat -> nth n (upd l n f) d = f (nth n l d).
Proof. revert n; induction l; destruct n; simpl; intros; try lia; auto. apply IHl; lia. Qed.
Lemma nth_upd_other {A} (l : list A) n i f d : i <> n -> nth i (upd l n f) d = nth i l d.
Proof. revert n i; induction l; destruct n, i; simpl; intros; try lia; auto. Qed.
Lemma upd_app {A} (l1 : list A) p l2 f : upd (l1 ++ p :: l2) (length l1) f = l1 ++ f p :: l2.
Proof. induction l1; simpl; congruence. Qed.
Lemma zupd_app {A} (l1 : list A) p l2 f : zupd (l1 ++ p :: l2) (zlen l1) f = l1 ++ f p :: l2.
Proof.
  unfold zupd, zlen. destruct (Z.of_nat (length l1) <? 0) eqn:E; [lia|].
  rewrite Nat2Z.id. apply upd_app.
Qed.
Lemma znth_app_exact {A} (d : A) l1 p l2 : znth d (l1 ++ p :: l2) (zlen l1) = p.
Proof.
  unfold znth, zlen. destruct (Z.of_nat (length l1) <? 0) eqn:E; [lia|].
  rewrite Nat2Z.id, app_nth2, Nat.sub_diag; auto.
Qed.
Lemma split_at {A} (l : list A) k : 0 <= k <= zlen l -> l = zfirstn k l ++ zskipn k l /\ zlen (zfirstn k l) = k.
Proof.
  intros. split; [unfold zfirstn, zskipn; symmetry; apply firstn_skipn|apply zlen_zfirstn; lia].
Qed.
Lemma znth_skipn_head {A} (d : A) l k : 0 <= k < zlen l -> zskipn k l = znth d l k :: zskipn (k + 1) l.
Proof.
  unfold zskipn, znth, zlen. intros. destruct (k <? 0) eqn:E; [lia|].
  replace (Z.to_nat (k + 1)) with (S (Z.to_nat k)) by lia.
  assert (Hl : (Z.to_nat k < length l)%nat) by lia. revert Hl. generalize (Z.to_nat k) as n. clear.
  induction l; simpl; intros n Hl; [lia|]. destruct n; auto. apply IHl; lia.
Qed.
Lemma znth_In {A} (d : A) l k : 0 <= k < zlen l -> In (znth d l k) l.
Proof.
  unfold znth, zlen; intros. destruct (k <? 0) eqn:E; [lia|]. apply nth_In; lia.
Qed.
Lemma nth_skipn_add {A} (d : A) l m n : nth n (skipn m l) d = nth (m + n) l d.
Proof. revert l; induction m; intros l; simpl; auto. destruct l; simpl; auto. destruct n; auto. Qed.
Lemma nth_firstn_lt {A} (d : A) l m n : (n < m)%nat -> nth n (firstn m l) d = nth n l d.
Proof. revert l n; induction m; intros l n H; [lia|]. destruct l, n; simpl; auto. apply IHm; lia. Qed.
Lemma znth_firstn {A} (d : A) l k i : 0 <= i < k -> znth d (zfirstn k l) i = znth d l i.
Proof.
  unfold znth, zfirstn; intros. destruct (i <? 0) eqn:E; [lia|]. apply nth_firstn_lt. lia.
Qed.

(* ------------------------------------------------------------------ invariant *)
Fixpoint sorted_from (lo : Z) (rs : RuneSet) : Prop :=
  match rs with
  | [] => True
  | p :: t => lo <= p_ref p /\ sorted_from (p_ref p + 1) t
  end.
Definition word_ok (w : Z) : Prop := 0 <= w < 4294967296.
Definition page_ok (p : runePage) : Prop := p_ref p < 65536 /\ length (p_set p) = 8%nat /\ Forall word_ok (p_set p).
Definition inv (rs : RuneSet) : Prop := sorted_from 0 rs /\ Forall page_ok rs.

Lemma sorted_from_weaken lo lo' rs : lo' <= lo -> sorted_from lo rs -> sorted_from lo' rs.
Proof. destruct rs; simpl; intuition lia. Qed.
Lemma sorted_from_all lo rs : sorted_from lo rs -> Forall (fun p => lo <= p_ref p) rs.
Proof.
  revert lo; induction rs; simpl; intros lo H; constructor; [tauto|].
  destruct H as [H1 H2]. apply IHrs in H2. eapply Forall_impl; [|exact H2]. simpl; intros; lia.
Qed.
Lemma sorted_from_app lo l1 l2 :
  sorted_from lo (l1 ++ l2) <->
  sorted_from lo l1 /\ exists hi, sorted_from hi l2 /\ lo <= hi /\ Forall (fun p => p_ref p < hi) l1.
Proof.
  revert lo; induction l1; simpl; intros lo.
  - split; [intros H; split; auto; exists lo; repeat split; auto; lia|].
    intros [_ [hi [H [H1 _]]]]. eapply sorted_from_weaken; eauto.
  - rewrite IHl1. split.
    + intros [H1 [H2 [hi [H3 [H4 H5]]]]]. repeat split; auto. exists hi. repeat split; auto; [lia|].
      constructor; auto; lia.
    + intros [[H1 H2] [hi [H3 [H4 H5]]]]. inversion H5; subst. repeat split; auto.
      exists hi. repeat split; auto. lia.
Qed.

(* index view of sortedness *)
Lemma sorted_from_nth lo rs i : sorted_from lo rs -> 0 <= i < zlen rs -> lo + i <= p_ref (znth dpage rs i).
Proof.
  revert lo i; induction rs; intros lo i H Hi; [unfold zlen in Hi; simpl in Hi; lia|].
  rewrite zlen_cons in Hi. simpl in H. destruct H as [H1 H2].
  destruct (Z.eq_dec i 0) as [->|Hn]; [unfold znth; simpl; lia|].
  specialize (IHrs (p_ref a + 1) (i - 1) H2 ltac:(lia)).
  replace (znth dpage (a :: rs) i) with (znth dpage rs (i - 1)); [lia|].
  unfold znth. destruct (i - 1 <? 0) eqn:E1; [lia|]. destruct (i <? 0) eqn:E2; [lia|].
  replace (Z.to_nat i) with (S (Z.to_nat (i - 1))) by lia. reflexivity.
Qed.
Lemma sorted_idx lo rs i j : sorted_from lo rs -> 0 <= i -> i < j -> j < zlen rs ->
  p_ref (znth dpage rs i) < p_ref (znth dpage rs j).
Proof.
  intros H Hi Hij Hj.
  pose proof (split_at rs (i + 1) ltac:(lia)) as [E L].
  rewrite E in H. apply sorted_from_app in H. destruct H as [_ [hi [H2 [_ H3]]]].
  assert (A : p_ref (znth dpage rs i) < hi).
  { rewrite Forall_forall in H3. apply H3. rewrite <- (znth_firstn dpage rs (i + 1) i) by lia.
    apply znth_In. lia. }
  assert (B : hi <= p_ref (znth dpage rs j)).
  { pose proof (sorted_from_nth hi (zskipn (i + 1) rs) (j - (i + 1)) H2) as Q.
    rewrite zlen_zskipn in Q by lia. specialize (Q ltac:(lia)).
    replace (znth dpage (zskipn (i + 1) rs) (j - (i + 1))) with (znth dpage rs j) in Q; [lia|].
    unfold znth, zskipn. destruct (j <? 0) eqn:E1; [lia|]. destruct (j - (i + 1) <? 0) eqn:E2; [lia|].
    rewrite nth_skipn_add. f_equal. lia. }
  lia.
Qed.

(* ------------------------------------------------------------------ findPageFrom *)
Definition fpf_post (rs : RuneSet) (ref v : Z) : Prop :=
  (0 <= v < zlen rs /\ p_ref (znth dpage rs v) = ref) \/
  (v < 0 /\ 0 <= - v - 1 <= zlen rs
   /\ (forall i, 0 <= i < - v - 1 -> p_ref (znth dpage rs i) < ref)
   /\ (forall i, - v - 1 <= i < zlen rs -> ref < p_ref (znth dpage rs i))).

Lemma shiftr1 x : Z.shiftr x 1 = x / 2.
Proof. rewrite Z.shiftr_div_pow2 by lia. reflexivity. Qed.

Lemma fpf_loop_spec rs ref lo : sorted_from lo rs ->
  forall fuel low high,
    0 <= low -> high < zlen rs -> low <= high + 1 -> (Z.to_nat (high + 1 - low) < fuel)%nat ->
    (forall i, 0 <= i < low -> p_ref (znth dpage rs i) < ref) ->
    (forall i, high < i < zlen rs -> ref < p_ref (znth dpage rs i)) ->
    exists v, fpf_loop fuel rs ref low high = Ok v /\ fpf_post rs ref v.
Proof.
  intros S. induction fuel; intros low high Hl Hh Hlh Hf Hlow Hhigh; [lia|].
  cbn [fpf_loop]. destruct (high <? low) eqn:E.
  - apply Z.ltb_lt in E. assert (high = low - 1) by lia. subst high.
    eexists; split; [reflexivity|]. right.
    assert (Q : ((low - 1 <? 0) || ((low - 1 <? zlen rs) && (p_ref (znth dpage rs (low - 1)) <? ref))) = true).
    { destruct (low - 1 <? 0) eqn:E1; simpl; auto. apply Z.ltb_ge in E1.
      apply andb_true_iff; split; [apply Z.ltb_lt; lia|]. apply Z.ltb_lt. apply Hlow. lia. }
    rewrite Q. replace (- - (low - 1 + 1 + 1) - 1) with low by lia.
    repeat split; try lia; auto. intros; apply Hhigh; lia.
  - apply Z.ltb_ge in E. rewrite shiftr1.
    assert (M : low <= (low + high) / 2 <= high) by (split; zdm; lia).
    set (mid := (low + high) / 2) in *.
    replace ((mid <? 0) || (zlen rs <=? mid)) with false
      by (symmetry; apply orb_false_iff; split; [apply Z.ltb_ge|apply Z.leb_gt]; lia).
    destruct (p_ref (znth dpage rs mid) =? ref) eqn:E1.
    + apply Z.eqb_eq in E1. eexists; split; [reflexivity|]. left. split; [lia|auto].
    + apply Z.eqb_neq in E1. destruct (p_ref (znth dpage rs mid) <? ref) eqn:E2.
      * apply Z.ltb_lt in E2. apply IHfuel; try lia; auto.
        intros i Hi. destruct (Z.eq_dec i mid) as [->|]; auto.
        destruct (Z_lt_dec i low); [apply Hlow; lia|].
        pose proof (sorted_idx lo rs i mid S ltac:(lia) ltac:(lia) ltac:(lia)). lia.
      * apply Z.ltb_ge in E2. apply IHfuel; try lia; auto.
        intros i Hi. destruct (Z.eq_dec i mid) as [->|]; [lia|].
        destruct (Z_lt_dec high i); [apply Hhigh; lia|].
        pose proof (sorted_idx lo rs mid i S ltac:(lia) ltac:(lia) ltac:(lia)). lia.
Qed.

Lemma findPageFrom_spec rs ref lo low : sorted_from lo rs -> 0 <= low <= zlen rs ->
  (forall i, 0 <= i < low -> p_ref (znth dpage rs i) < ref) ->
  exists v, findPageFrom rs low ref = Ok v /\ fpf_post rs ref v.
Proof.
  intros S Hl Hlow. unfold findPageFrom. eapply fpf_loop_spec; eauto; try lia; try (unfold zlen; lia); intros; lia.
Qed.

(* structural reading of the result *)
Lemma fpf_post_found rs ref v : fpf_post rs ref v -> 0 <= v ->
  exists l1 p l2, rs = l1 ++ p :: l2 /\ zlen l1 = v /\ p_ref p = ref.
Proof.
  intros [[H1 H2]|[H1 _]] Hv; [|lia].
  pose proof (split_at rs v ltac:(lia)) as [E L].
  rewrite (znth_skipn_head dpage rs v) in E by lia.
  eexists _, _, _. split; [exact E|]. split; auto.
Qed.
Lemma fpf_post_missing rs ref v : fpf_post rs ref v -> v < 0 ->
  exists l1 l2, rs = l1 ++ l2 /\ zlen l1 = - v - 1
                /\ Forall (fun p => p_ref p < ref) l1 /\ Forall (fun p => ref < p_ref p) l2.
Proof.
  intros [[H1 H2]|[_ [H1 [H2 H3]]]] Hv; [lia|].
  pose proof (split_at rs (- v - 1) ltac:(lia)) as [E L].
  eexists _, _. split; [exact E|]. split; auto. split.
  - apply Forall_forall. intros p Hp. apply (In_nth _ _ dpage) in Hp. destruct Hp as [n [Hn <-]].
    assert (Z.of_nat n < - v - 1) by (unfold zlen in L; lia).
    replace (nth n (zfirstn (- v - 1) rs) dpage) with (znth dpage (zfirstn (- v - 1) rs) (Z.of_nat n)).
    2:{ unfold znth. destruct (Z.of_nat n <? 0) eqn:E1; [lia|]. rewrite Nat2Z.id; auto. }
    rewrite znth_firstn by lia. apply H2. lia.
  - apply Forall_forall. intros p Hp. apply (In_nth _ _ dpage) in Hp. destruct Hp as [n [Hn <-]].
    unfold zskipn in *. rewrite nth_skipn_add. rewrite skipn_length in Hn.
    specialize (H3 (- v - 1 + Z.of_nat n) ltac:(unfold zlen; lia)).
    unfold znth in H3. destruct (- v - 1 + Z.of_nat n <? 0) eqn:E1; [lia|].
    replace (Z.to_nat (- v - 1 + Z.of_nat n)) with (Z.to_nat (- v - 1) + n)%nat in H3 by lia. exact H3.
Qed.

(* ------------------------------------------------------------------ abstraction: the set of members *)
Fixpoint get (rs : RuneSet) (ref : Z) : option pageSet :=
  match rs with
  | [] => None
  | p :: t => if p_ref p =? ref then Some (p_set p) else get t ref
  end.
Definition set_bit (s : pageSet) (x : Z) : bool := Z.testbit (znth 0 s (word_idx x)) (bit_idx x).
Definition mem (rs : RuneSet) (x : Z) : bool :=
  match get rs (rune_ref x) with Some s => set_bit s x | None => false end.

Lemma get_app_skip l1 l2 ref : Forall (fun p => p_ref p <> ref) l1 -> get (l1 ++ l2) ref = get l2 ref.
Proof.
  induction l1; simpl; intros H; auto. inversion H; subst.
  destruct (p_ref a =? ref) eqn:E; [apply Z.eqb_eq in E; contradiction|auto].
Qed.
Lemma get_none l ref : Forall (fun p => p_ref p <> ref) l -> get l ref = None.
Proof. intros H. rewrite <- (app_nil_r l). rewrite get_app_skip; auto. Qed.
Lemma Forall_lt_ne (l : list runePage) ref : Forall (fun p => p_ref p < ref) l -> Forall (fun p => p_ref p <> ref) l.
Proof. apply Forall_impl; intros; lia. Qed.
Lemma Forall_gt_ne (l : list runePage) ref : Forall (fun p => ref < p_ref p) l -> Forall (fun p => p_ref p <> ref) l.
Proof. apply Forall_impl; intros; lia. Qed.

(* in a sorted set split around a page, the parts before and after do not hold its ref *)
Lemma sorted_split lo l1 p l2 : sorted_from lo (l1 ++ p :: l2) ->
  Forall (fun q => p_ref q < p_ref p) l1 /\ Forall (fun q => p_ref p < p_ref q) l2.
Proof.
  intros H. apply sorted_from_app in H. destruct H as [_ [hi [H1 [_ H2]]]]. simpl in H1. destruct H1 as [H1 H3].
  split; [eapply Forall_impl; [|exact H2]; simpl; intros; lia|].
  apply sorted_from_all in H3. eapply Forall_impl; [|exact H3]. simpl; intros; lia.
Qed.

(* ------------------------------------------------------------------ bit arithmetic *)
Lemma rune_ref_eq r : rune_ok r -> rune_ref r = r / 256.
Proof.
  unfold rune_ok, rune_ref; intros. rewrite Z.shiftr_div_pow2 by lia. change (2 ^ 8) with 256.
  apply wrap16_small. split; zdm; lia.
Qed.
Lemma land_255 r : Z.land r 255 = r mod 256.
Proof. change 255 with (Z.ones 8). rewrite Z.land_ones by lia. reflexivity. Qed.
Lemma land_31 r : Z.land r 31 = r mod 32.
Proof. change 31 with (Z.ones 5). rewrite Z.land_ones by lia. reflexivity. Qed.
Lemma word_idx_eq r : word_idx r = (r mod 256) / 32.
Proof. unfold word_idx. rewrite land_255, Z.shiftr_div_pow2 by lia. reflexivity. Qed.
Lemma bit_idx_eq r : bit_idx r = r mod 32.
Proof. apply land_31. Qed.
Lemma word_idx_range r : 0 <= word_idx r < 8.
Proof. rewrite word_idx_eq. split; zdm; lia. Qed.
Lemma bit_idx_range r : 0 <= bit_idx r < 32.
Proof. rewrite bit_idx_eq. split; zdm; lia. Qed.
Lemma rune_ref_range r : 0 <= rune_ref r < 65536.
Proof. unfold rune_ref. apply wrap16_range. Qed.

Lemma rune_decompose x r : rune_ok x -> rune_ok r ->
  (x =? r) = (rune_ref x =? rune_ref r) && (word_idx x =? word_idx r) && (bit_idx x =? bit_idx r).
Proof.
  intros Hx Hr. rewrite !rune_ref_eq, !word_idx_eq, !bit_idx_eq by auto.
  destruct (x =? r) eqn:E.
  - apply Z.eqb_eq in E; subst. rewrite !Z.eqb_refl. reflexivity.
  - apply Z.eqb_neq in E. symmetry. apply not_true_is_false. intros H.
    apply andb_true_iff in H as [H H3]. apply andb_true_iff in H as [H1 H2].
    apply Z.eqb_eq in H1, H2, H3. apply E. zdm. lia.
Qed.

Lemma pow2_testbit b j : 0 <= b -> 0 <= j -> Z.testbit (Z.shiftl 1 b) j = (b =? j).
Proof. intros. rewrite Z.shiftl_1_l. apply Z.pow2_bits_eqb; lia. Qed.

Lemma contains_bit w b : 0 <= b -> negb (Z.land w (Z.shiftl 1 b) =? 0) = Z.testbit w b.
Proof.
  intros Hb. destruct (Z.testbit w b) eqn:E.
  - apply negb_true_iff, Z.eqb_neq. intros H.
    assert (Q : Z.testbit (Z.land w (Z.shiftl 1 b)) b = true) by (rewrite Z.land_spec, pow2_testbit, E, Z.eqb_refl by lia; auto).
    rewrite H in Q. rewrite Z.bits_0 in Q. discriminate.
  - apply negb_false_iff, Z.eqb_eq. apply Z.bits_inj'. intros n Hn.
    rewrite Z.land_spec, pow2_testbit, Z.bits_0 by lia.
    destruct (b =? n) eqn:E1; [apply Z.eqb_eq in E1; subst; rewrite E; auto|apply andb_false_r].
Qed.
Lemma add_bit w b j : 0 <= b -> 0 <= j -> Z.testbit (Z.lor w (Z.shiftl 1 b)) j = Z.testbit w j || (b =? j).
Proof. intros. rewrite Z.lor_spec, pow2_testbit by lia. reflexivity. Qed.
Lemma ones32_testbit j : 0 <= j -> Z.testbit ones32 j = (j <? 32).
Proof.
  intros. change ones32 with (Z.ones 32). destruct (j <? 32) eqn:E.
  - apply Z.ltb_lt in E. apply Z.ones_spec_low; lia.
  - apply Z.ltb_ge in E. apply Z.ones_spec_high; lia.
Qed.
Lemma del_bit w b j : 0 <= b -> 0 <= j < 32 ->
  Z.testbit (Z.land w (not32 (Z.shiftl 1 b))) j = Z.testbit w j && negb (b =? j).
Proof.
  intros. unfold not32. rewrite Z.land_spec, Z.lxor_spec, ones32_testbit, pow2_testbit by lia.
  replace (j <? 32) with true by (symmetry; apply Z.ltb_lt; lia). reflexivity.
Qed.
Lemma word_ok_lor a b : word_ok a -> word_ok b -> word_ok (Z.lor a b).
Proof.
  unfold word_ok. intros [Ha1 Ha2] [Hb1 Hb2]. split; [apply Z.lor_nonneg; auto|].
  destruct (Z.eq_dec (Z.lor a b) 0) as [->|Hn]; [lia|].
  apply Z.log2_lt_cancel. rewrite Z.log2_lor by lia. change (Z.log2 4294967296) with 32.
  destruct (Z.eq_dec a 0) as [->|]; destruct (Z.eq_dec b 0) as [->|]; simpl Z.log2; try lia.
  - assert (Z.log2 b < 32) by (apply Z.log2_lt_pow2; lia). lia.
  - assert (Z.log2 a < 32) by (apply Z.log2_lt_pow2; lia). lia.
  - assert (Z.log2 a < 32) by (apply Z.log2_lt_pow2; lia).
    assert (Z.log2 b < 32) by (apply Z.log2_lt_pow2; lia). lia.
Qed.
Lemma word_ok_land a b : word_ok a -> 0 <= b -> word_ok (Z.land a b).
Proof.
  unfold word_ok. intros [Ha1 Ha2] Hb. split; [apply Z.land_nonneg; auto|].
  destruct (Z.eq_dec (Z.land a b) 0) as [->|Hn]; [lia|].
  assert (0 <= Z.land a b) by (apply Z.land_nonneg; auto).
  apply Z.log2_lt_cancel. change (Z.log2 4294967296) with 32.
  pose proof (Z.log2_land a b Ha1 Hb).
  destruct (Z.eq_dec a 0) as [->|]; [rewrite Z.land_0_l in Hn; lia|].
  assert (Z.log2 a < 32) by (apply Z.log2_lt_pow2; lia). lia.
Qed.

(* ------------------------------------------------------------------ updates of one word *)
Lemma Forall_upd {A} (P : A -> Prop) l n f : Forall P l -> (forall a, P a -> P (f a)) -> Forall P (upd l n f).
Proof.
  intros H Hf. revert n; induction H; destruct n; simpl; constructor; auto.
Qed.
Lemma zupd_length {A} (l : list A) k f : length (zupd l k f) = length l.
Proof. unfold zupd. destruct (k <? 0); auto. apply upd_length. Qed.
Lemma Forall_zupd {A} (P : A -> Prop) l k f : Forall P l -> (forall a, P a -> P (f a)) -> Forall P (zupd l k f).
Proof. unfold zupd. destruct (k <? 0); auto. apply Forall_upd. Qed.
Lemma znth_zupd {A} (d : A) l k i f : 0 <= k < zlen l -> 0 <= i ->
  znth d (zupd l k f) i = if i =? k then f (znth d l k) else znth d l i.
Proof.
  unfold znth, zupd, zlen. intros Hk Hi.
  destruct (k <? 0) eqn:E1; [lia|]. destruct (i <? 0) eqn:E2; [lia|].
  destruct (i =? k) eqn:E3.
  - assert (i = k) by lia. subst. apply nth_upd_same. lia.
  - apply nth_upd_other. lia.
Qed.

Lemma get_app_mid l1 p l2 ref : p_ref p <> ref -> get (l1 ++ p :: l2) ref = get (l1 ++ l2) ref.
Proof.
  intros H. induction l1; simpl.
  - destruct (p_ref p =? ref) eqn:E; [lia|auto].
  - rewrite IHl1. reflexivity.
Qed.
Lemma mem_at l1 p l2 x : Forall (fun q => p_ref q <> p_ref p) l1 ->
  mem (l1 ++ p :: l2) x = if rune_ref x =? p_ref p then set_bit (p_set p) x else mem (l1 ++ l2) x.
Proof.
  intros H. unfold mem. destruct (rune_ref x =? p_ref p) eqn:E.
  - assert (E' : rune_ref x = p_ref p) by lia. rewrite E'. rewrite get_app_skip by auto.
    simpl. rewrite Z.eqb_refl. reflexivity.
  - rewrite get_app_mid by lia. reflexivity.
Qed.

Lemma sorted_from_raise lo lo' l : sorted_from lo l -> Forall (fun p => lo' <= p_ref p) l -> sorted_from lo' l.
Proof. destruct l; simpl; auto. intros [H1 H2] H. inversion H; subst. split; auto. Qed.
Lemma sorted_replace lo l1 p p' l2 : sorted_from lo (l1 ++ p :: l2) -> p_ref p' = p_ref p -> sorted_from lo (l1 ++ p' :: l2).
Proof.
  intros H E. apply sorted_from_app in H. apply sorted_from_app. destruct H as [H1 [hi [H2 H3]]].
  split; auto. exists hi. split; auto. simpl in *. rewrite E. exact H2.
Qed.
Lemma sorted_insert l1 l2 ref : sorted_from 0 (l1 ++ l2) -> 0 <= ref ->
  Forall (fun p => p_ref p < ref) l1 -> Forall (fun p => ref < p_ref p) l2 ->
  forall s, sorted_from 0 (l1 ++ mkPage ref s :: l2).
Proof.
  intros H Hr F1 F2 s. apply sorted_from_app in H. destruct H as [H1 [hi [H2 H3]]].
  apply sorted_from_app. split; auto. exists ref. split; [|split; auto].
  simpl. split; [lia|]. eapply sorted_from_raise; eauto. eapply Forall_impl; [|exact F2]. simpl; intros; lia.
Qed.

Lemma zero_set_ok : length zero_set = 8%nat /\ Forall word_ok zero_set.
Proof. split; [reflexivity|]. unfold zero_set, word_ok. repeat constructor; lia. Qed.
Lemma set_bit_zero x : set_bit zero_set x = false.
Proof.
  unfold set_bit. pose proof (word_idx_range x).
  assert (znth 0 zero_set (word_idx x) = 0); [|rewrite H0; apply Z.bits_0].
  unfold znth. destruct (word_idx x <? 0); auto.
  destruct (Z.to_nat (word_idx x)) as [|[|[|[|[|[|[|[|n]]]]]]]]; simpl; auto. destruct n; auto.
Qed.

(* modifying the word of rune r in its (existing) page *)
Lemma upd_word_spec l1 p l2 r f (hit : bool -> bool) :
  inv (l1 ++ p :: l2) -> p_ref p = rune_ref r ->
  (forall w, word_ok w -> word_ok (f w)) ->
  (forall w j, 0 <= j < 32 -> Z.testbit (f w) j = if bit_idx r =? j then hit (Z.testbit w j) else Z.testbit w j) ->
  let rs := l1 ++ p :: l2 in
  let rs' := upd_word rs (zlen l1) (word_idx r) f in
  inv rs' /\ forall x, rune_ok x -> rune_ok r -> mem rs' x = if x =? r then hit (mem rs x) else mem rs x.
Proof.
  intros [S F] E Hf Hb rs rs'. unfold rs', rs, upd_word. rewrite zupd_app.
  pose proof (sorted_split _ _ _ _ S) as [F1 F2].
  apply Forall_app in F as [Fa Fb]. inversion Fb as [|? ? [P1 [P2 P3]] Fc]; subst.
  pose proof (word_idx_range r) as Wr. pose proof (bit_idx_range r) as Br.
  split.
  - split; [eapply sorted_replace; eauto|].
    apply Forall_app; split; auto. constructor; auto.
    split; [simpl; auto|]. split; simpl; [rewrite zupd_length; auto|apply Forall_zupd; auto].
  - intros x Hx Hr. rewrite !mem_at by (simpl; apply Forall_lt_ne; auto). simpl p_ref. simpl p_set.
    rewrite (rune_decompose x r) by auto. rewrite E.
    destruct (rune_ref x =? rune_ref r) eqn:E1; simpl andb; [|reflexivity].
    unfold set_bit. pose proof (word_idx_range x) as Wx. pose proof (bit_idx_range x) as Bx.
    rewrite znth_zupd by (unfold zlen; lia).
    destruct (word_idx x =? word_idx r) eqn:E2; simpl andb; [|reflexivity].
    assert (word_idx x = word_idx r) as -> by lia.
    rewrite Hb by lia. rewrite (Z.eqb_sym (bit_idx r)). destruct (bit_idx x =? bit_idx r); reflexivity.
Qed.

Lemma contains_spec rs x : inv rs -> rsContains rs x = Ok (mem rs x).
Proof.
  intros [S F]. destruct (findPageFrom_spec rs (rune_ref x) 0 0 S ltac:(unfold zlen; lia) ltac:(intros; lia)) as [v [E P]].
  unfold rsContains, findPagePos. rewrite E. cbn [bind]. destruct (v <? 0) eqn:Ev.
  - destruct (fpf_post_missing _ _ _ P ltac:(lia)) as [l1 [l2 [-> [_ [F1 F2]]]]].
    unfold mem. rewrite get_app_skip by (apply Forall_lt_ne; auto). rewrite get_none by (apply Forall_gt_ne; auto). reflexivity.
  - destruct (fpf_post_found _ _ _ P ltac:(lia)) as [l1 [p [l2 [-> [L Ep]]]]].
    rewrite <- L, znth_app_exact. pose proof (sorted_split _ _ _ _ S) as [F1 F2].
    rewrite mem_at by (apply Forall_lt_ne; auto). rewrite Ep, Z.eqb_refl.
    rewrite contains_bit by (pose proof (bit_idx_range x); lia). reflexivity.
Qed.

Lemma add_spec rs r : inv rs ->
  exists rs', rsAdd rs r = Ok rs' /\ inv rs' /\
              forall x, rune_ok x -> rune_ok r -> mem rs' x = (x =? r) || mem rs x.
Proof.
  intros I. pose proof I as [S F].
  destruct (findPageFrom_spec rs (rune_ref r) 0 0 S ltac:(unfold zlen; lia) ltac:(intros; lia)) as [v [E P]].
  unfold rsAdd, findOrCreatePage, findPagePos. rewrite E. cbn [bind].
  set (f := fun w => Z.lor w (Z.shiftl 1 (bit_idx r))).
  assert (Hf : forall w, word_ok w -> word_ok (f w)).
  { intros w Hw. apply word_ok_lor; auto. unfold word_ok. rewrite Z.shiftl_1_l.
    pose proof (bit_idx_range r). split; [apply Z.pow_nonneg; lia|].
    change 4294967296 with (2 ^ 32). apply Z.pow_lt_mono_r; lia. }
  assert (Hb : forall w j, 0 <= j < 32 -> Z.testbit (f w) j = if bit_idx r =? j then (fun _ => true) (Z.testbit w j) else Z.testbit w j).
  { intros w j Hj. unfold f. rewrite add_bit by (pose proof (bit_idx_range r); lia).
    destruct (bit_idx r =? j); [apply orb_true_r|apply orb_false_r]. }
  destruct (v <? 0) eqn:Ev; cbn [bind fst snd].
  - destruct (fpf_post_missing _ _ _ P ltac:(lia)) as [l1 [l2 [-> [L [F1 F2]]]]].
    unfold insertPage. rewrite <- L, zfirstn_app_exact, zskipn_app_exact.
    set (p := mkPage (rune_ref r) zero_set).
    assert (I' : inv (l1 ++ p :: l2)).
    { split; [apply sorted_insert; auto; apply rune_ref_range|].
      apply Forall_app in F as [Fa Fb]. apply Forall_app; split; auto. constructor; auto.
      split; [apply rune_ref_range|apply zero_set_ok]. }
    destruct (upd_word_spec l1 p l2 r f (fun _ => true) I' eq_refl Hf Hb) as [I2 M].
    eexists; split; [reflexivity|]. split; [exact I2|].
    intros x Hx Hr. rewrite M by auto.
    rewrite mem_at by (apply Forall_lt_ne; auto). simpl p_ref. simpl p_set. rewrite set_bit_zero.
    destruct (x =? r) eqn:E1; [reflexivity|]. simpl orb.
    destruct (rune_ref x =? rune_ref r) eqn:E2; [|reflexivity].
    unfold mem. assert (rune_ref x = rune_ref r) as -> by lia.
    rewrite get_app_skip by (apply Forall_lt_ne; auto). rewrite get_none by (apply Forall_gt_ne; auto). reflexivity.
  - destruct (fpf_post_found _ _ _ P ltac:(lia)) as [l1 [p [l2 [-> [L Ep]]]]].
    rewrite <- L. destruct (upd_word_spec l1 p l2 r f (fun _ => true) I Ep Hf Hb) as [I2 M].
    eexists; split; [reflexivity|]. split; [exact I2|].
    intros x Hx Hr. rewrite M by auto. destruct (x =? r); reflexivity.
Qed.

Lemma delete_spec rs r : inv rs ->
  exists rs', rsDelete rs r = Ok rs' /\ inv rs' /\
              forall x, rune_ok x -> rune_ok r -> mem rs' x = negb (x =? r) && mem rs x.
Proof.
  intros I. pose proof I as [S F].
  destruct (findPageFrom_spec rs (rune_ref r) 0 0 S ltac:(unfold zlen; lia) ltac:(intros; lia)) as [v [E P]].
  unfold rsDelete, findPagePos. rewrite E. cbn [bind].
  set (f := fun w => Z.land w (not32 (Z.shiftl 1 (bit_idx r)))).
  pose proof (bit_idx_range r) as Br.
  assert (N : 0 <= not32 (Z.shiftl 1 (bit_idx r))).
  { unfold not32. apply Z.lxor_nonneg. split; intros _; [rewrite Z.shiftl_1_l; apply Z.pow_nonneg; lia|unfold ones32; lia]. }
  assert (Hf : forall w, word_ok w -> word_ok (f w)) by (intros; apply word_ok_land; auto).
  assert (Hb : forall w j, 0 <= j < 32 -> Z.testbit (f w) j = if bit_idx r =? j then (fun _ => false) (Z.testbit w j) else Z.testbit w j).
  { intros w j Hj. unfold f. rewrite del_bit by lia.
    destruct (bit_idx r =? j); [apply andb_false_r|apply andb_true_r]. }
  destruct (v <? 0) eqn:Ev.
  - eexists; split; [reflexivity|]. split; auto.
    intros x Hx Hr. destruct (x =? r) eqn:E1; [|reflexivity]. simpl.
    assert (x = r) as -> by lia.
    destruct (fpf_post_missing _ _ _ P ltac:(lia)) as [l1 [l2 [-> [L [F1 F2]]]]].
    unfold mem. rewrite get_app_skip by (apply Forall_lt_ne; auto). rewrite get_none by (apply Forall_gt_ne; auto). reflexivity.
  - destruct (fpf_post_found _ _ _ P ltac:(lia)) as [l1 [p [l2 [-> [L Ep]]]]].
    rewrite <- L. destruct (upd_word_spec l1 p l2 r f (fun _ => false) I Ep Hf Hb) as [I2 M].
    eexists; split; [reflexivity|]. split; [exact I2|].
    intros x Hx Hr. rewrite M by auto. destruct (x =? r); reflexivity.
Qed.

(* ------------------------------------------------------------------ every history *)
Definition rs_apply (acc : res RuneSet) (op : Z * Z) : res RuneSet :=
  do rs <- acc; if fst op =? 0 then rsAdd rs (snd op) else rsDelete rs (snd op).
Definition rs_run (ops : list (Z * Z)) : res RuneSet := fold_left rs_apply ops (Ok []).
Definition ops_ok (ops : list (Z * Z)) : Prop := Forall (fun op => rune_ok (snd op)) ops.

Lemma inv_nil : inv [].
Proof. split; simpl; auto. Qed.

Lemma run_from rs0 (m0 : rset) ops : inv rs0 -> ops_ok ops ->
  (forall x, rune_ok x -> mem rs0 x = m0 x) ->
  exists rs, fold_left rs_apply ops (Ok rs0) = Ok rs /\ inv rs
             /\ forall x, rune_ok x -> mem rs x = fold_left s_apply ops m0 x.
Proof.
  revert rs0 m0. induction ops as [|op ops IH]; intros rs0 m0 I O M.
  - exists rs0. simpl. auto.
  - inversion O as [|? ? O1 O2]; subst. cbn [fold_left]. unfold rs_apply at 2. cbn [bind].
    unfold s_apply at 2. destruct (fst op =? 0).
    + destruct (add_spec rs0 (snd op) I) as [rs1 [E [I1 M1]]]. rewrite E.
      apply IH; auto. intros x Hx. rewrite M1 by auto. unfold s_add. rewrite M by auto. reflexivity.
    + destruct (delete_spec rs0 (snd op) I) as [rs1 [E [I1 M1]]]. rewrite E.
      apply IH; auto. intros x Hx. rewrite M1 by auto. unfold s_del. rewrite M by auto. reflexivity.
Qed.

(* the container refines a mathematical set, for every sequence of Add/Delete from the empty set *)
Lemma runeset_refines_set ops : ops_ok ops ->
  exists rs, rs_run ops = Ok rs /\ inv rs
             /\ forall x, rune_ok x -> rsContains rs x = Ok (s_run ops x).
Proof.
  intros O. destruct (run_from [] s_empty ops inv_nil O) as [rs [E [I M]]].
  - intros; reflexivity.
  - exists rs. split; auto. split; auto. intros x Hx. rewrite contains_spec by auto. rewrite M by auto. reflexivity.
Qed.
