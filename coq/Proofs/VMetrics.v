(* Lemmas about vertical metrics (Model/VMetrics.v). *)
From Coq Require Import Lia Arith PeanoNat.
From TV Require Import Model.VMetrics Spec.VMetrics Proofs.Outline.
Open Scope Z_scope.

(* vmtx goes through the same loader as hmtx: the hmtx theorem, read vertically *)
Lemma vertical_advance_rule_lemma vhea vmtx nl ng upem gid :
  hhea_num_long vhea = Ok nl -> wf_hmtx vmtx nl ng -> 0 <= gid < ng ->
  exists t, load_hmtx vhea vmtx ng = Ok t
            /\ hmtx_is_empty t = false
            /\ vertical_advance upem t gid = - advance_spec vmtx nl gid
            /\ side_bearing t gid = lsb_spec vmtx nl gid.
Proof.
  intros Hn Hw Hg.
  destruct (advance_rule_lemma vhea vmtx nl ng 0 gid Hn Hw Hg) as (t & Hl & Ha0 & Hs).
  destruct (advance_rule_lemma vhea vmtx nl ng 2 gid Hn Hw Hg) as (t' & Hl' & Ha2 & _).
  rewrite Hl in Hl'. inversion Hl'; subst t'. clear Hl'.
  exists t. split; [exact Hl|].
  assert (He : hmtx_is_empty t = false).
  { destruct (hmtx_is_empty t) eqn:E; [|reflexivity].
    unfold horizontal_advance in Ha0, Ha2. rewrite E in Ha0, Ha2.
    inversion Ha0 as [A0]. inversion Ha2 as [A2]. rewrite <- A0 in A2. vm_compute in A2. discriminate. }
  split; [exact He|]. split; [|exact Hs].
  unfold vertical_advance, base_advance. rewrite He.
  unfold horizontal_advance in Ha0. rewrite He in Ha0. rewrite Ha0. reflexivity.
Qed.

(* ------------------------------------------------------------------------------------------------ *)
(* VORG: the binary search finds the entry of the glyph in a sorted array, the default otherwise        *)

Lemma znth_nth {A} (d : A) l (i : nat) : znth d l (Z.of_nat i) = nth i l d.
Proof. unfold znth. replace (Z.of_nat i <? 0) with false by (symmetry; apply Z.ltb_ge; lia). rewrite Nat2Z.id. reflexivity. Qed.

Lemma vorg_assoc_none l gid : (forall k : nat, (k < length l)%nat -> fst (nth k l (0, 0)) <> gid) -> vorg_assoc l gid = None.
Proof.
  induction l as [|[g y] r IH]; intros H; [reflexivity|]. cbn [vorg_assoc].
  destruct (g =? gid) eqn:E.
  - apply Z.eqb_eq in E. exfalso. apply (H 0%nat); [cbn; lia|exact E].
  - apply IH. intros k Hk. apply (H (S k)). cbn; lia.
Qed.

Lemma vorg_assoc_at l gid : forall h : nat, (h < length l)%nat -> fst (nth h l (0, 0)) = gid ->
  (forall k : nat, (k < h)%nat -> fst (nth k l (0, 0)) <> gid) -> vorg_assoc l gid = Some (snd (nth h l (0, 0))).
Proof.
  induction l as [|[g y] r IH]; intros h Hh Hg Hb; [cbn in Hh; lia|]. cbn [vorg_assoc].
  destruct h as [|h].
  - cbn in Hg. subst g. rewrite Z.eqb_refl. reflexivity.
  - destruct (g =? gid) eqn:E.
    + apply Z.eqb_eq in E. exfalso. apply (Hb 0%nat); [lia|exact E].
    + cbn [nth]. apply IH; [cbn in Hh; lia|exact Hg|]. intros k Hk. apply (Hb (S k)). lia.
Qed.

Lemma vorg_search_correct t gid : sorted_entries (vo_entries t) ->
  forall fuel (i j : nat), (i <= j <= length (vo_entries t))%nat -> (j - i < fuel)%nat ->
  (forall k : nat, (k < i)%nat -> fst (nth k (vo_entries t) (0, 0)) < gid) ->
  (forall k : nat, (j <= k < length (vo_entries t))%nat -> gid < fst (nth k (vo_entries t) (0, 0))) ->
  vorg_search fuel t gid (Z.of_nat i) (Z.of_nat j) = vorg_spec t gid.
Proof.
  intros Hs. induction fuel as [|f IH]; intros i j Hij Hf Hlo Hhi; [lia|].
  cbn [vorg_search]. set (l := vo_entries t) in *.
  destruct (Z.of_nat i <? Z.of_nat j) eqn:E.
  - apply Z.ltb_lt in E.
    set (h := (i + (j - i) / 2)%nat).
    assert (Hh : Z.of_nat i + (Z.of_nat j - Z.of_nat i) / 2 = Z.of_nat h).
    { unfold h. rewrite Nat2Z.inj_add, Nat2Z.inj_div, Nat2Z.inj_sub by lia. reflexivity. }
    assert (Hhr : (i <= h < j)%nat).
    { unfold h. split; [lia|]. assert ((j - i) / 2 < j - i)%nat by (apply Nat.div_lt; lia). lia. }
    rewrite Hh, znth_nth.
    destruct (nth h l (0, 0)) as [g y] eqn:En.
    destruct (gid <? g) eqn:E1.
    + apply Z.ltb_lt in E1. apply IH; [lia|lia|exact Hlo|].
      intros k Hk. destruct (Nat.eq_dec k h) as [->|Hne]; [fold l; rewrite En; exact E1|].
      destruct (Nat.lt_ge_cases k j) as [Hkj|Hkj]; [|apply Hhi; lia].
      assert (Hlt := Hs h k ltac:(fold l; lia)). fold l in Hlt. rewrite En in Hlt. cbn [fst] in Hlt. lia.
    + apply Z.ltb_ge in E1. destruct (g <? gid) eqn:E2.
      * apply Z.ltb_lt in E2.
        replace (Z.of_nat h + 1) with (Z.of_nat (S h)) by lia.
        apply IH; [lia|lia| |exact Hhi].
        intros k Hk. destruct (Nat.eq_dec k h) as [->|Hne]; [fold l; rewrite En; exact E2|].
        destruct (Nat.lt_ge_cases k i) as [Hki|Hki]; [apply Hlo; exact Hki|].
        assert (Hlt := Hs k h ltac:(fold l; lia)). fold l in Hlt. rewrite En in Hlt. cbn [fst] in Hlt. lia.
      * apply Z.ltb_ge in E2. assert (g = gid) by lia. subst g.
        unfold vorg_spec. fold l. rewrite (vorg_assoc_at l gid h); [rewrite En; reflexivity|lia|rewrite En; reflexivity|].
        intros k Hk Heq. assert (Hlt := Hs k h ltac:(fold l; lia)). fold l in Hlt. rewrite En, Heq in Hlt. cbn [fst] in Hlt. lia.
  - apply Z.ltb_ge in E. assert (i = j) by lia. subst j.
    unfold vorg_spec. fold l. rewrite vorg_assoc_none; [reflexivity|].
    intros k Hk. destruct (Nat.lt_ge_cases k i) as [Hki|Hki].
    + specialize (Hlo k Hki). fold l in Hlo. lia.
    + specialize (Hhi k ltac:(lia)). fold l in Hhi. lia.
Qed.

Lemma vorg_y_origin_lemma t gid : sorted_entries (vo_entries t) -> vorg_y_origin t gid = vorg_spec t gid.
Proof.
  intros Hs. unfold vorg_y_origin, zlen.
  change 0 with (Z.of_nat 0).
  apply vorg_search_correct; [exact Hs|lia|lia|intros k Hk; lia|intros k Hk; lia].
Qed.

Lemma sorted_strict_entries l : sorted_strict l = true -> sorted_entries l.
Proof.
  induction l as [|a r IH]; intros H i j Hij; [cbn in Hij; lia|].
  destruct r as [|b r'].
  - cbn in Hij. lia.
  - cbn [sorted_strict] in H. apply andb_prop in H. destruct H as [H1 H2]. apply Z.ltb_lt in H1.
    specialize (IH H2).
    destruct i as [|i].
    + destruct j as [|j]; [lia|]. cbn [nth].
      destruct j as [|j]; [exact H1|].
      assert (Hb := IH 0%nat (S j) ltac:(cbn in Hij |- *; lia)). cbn [nth] in Hb |- *. lia.
    + destruct j as [|j]; [lia|]. cbn [nth]. apply IH. cbn in Hij |- *. lia.
Qed.

(* ------------------------------------------------------------------------------------------------ *)
(* GlyphVOrigin                                                                                        *)

Lemma v_origin_vorg_lemma f th tv gid hdr vt :
  parse_vorg (vf_vorg f) = Some vt -> sorted_entries (vo_entries vt) ->
  snd (fst (glyph_v_origin f th tv gid hdr)) = vorg_spec vt gid /\ snd (glyph_v_origin f th tv gid hdr) = true.
Proof.
  intros Hp Hs. unfold glyph_v_origin. rewrite Hp. cbn [fst snd]. split; [apply vorg_y_origin_lemma; exact Hs|reflexivity].
Qed.

Lemma v_origin_vmtx_lemma f gid hdr nlh nlv :
  parse_vorg (vf_vorg f) = None ->
  hhea_num_long (vf_hhea f) = Ok nlh -> wf_hmtx (vf_hmtx f) nlh (vf_nglyphs f) ->
  hhea_num_long (vf_vhea f) = Ok nlv -> wf_hmtx (vf_vmtx f) nlv (vf_nglyphs f) ->
  0 <= gid < vf_nglyphs f -> gid < vf_nglyf f ->
  exists th tv, load_hmtx (vf_hhea f) (vf_hmtx f) (vf_nglyphs f) = Ok th /\ load_hmtx (vf_vhea f) (vf_vmtx f) (vf_nglyphs f) = Ok tv
    /\ glyph_v_origin f th tv gid hdr
       = (Z.quot (advance_spec (vf_hmtx f) nlh gid) 2,
          match hdr with [] => 0 | _ => Z.max (i16_at 4 hdr) (i16_at 8 hdr) end + lsb_spec (vf_vmtx f) nlv gid, true).
Proof.
  intros Hp Hh Hwh Hv Hwv Hg Hgl.
  destruct (advance_rule_lemma _ _ _ _ (vf_upem f) gid Hh Hwh Hg) as (th & Hlh & Hah & _).
  destruct (vertical_advance_rule_lemma _ _ _ _ (vf_upem f) gid Hv Hwv Hg) as (tv & Hlv & Hev & _ & Hsv).
  exists th, tv. split; [exact Hlh|]. split; [exact Hlv|].
  unfold glyph_v_origin. rewrite Hp, Hah.
  destruct (h_extents _ _ _ _) as [[asc desc] ok].
  replace (gid <? vf_nglyf f) with true by (symmetry; apply Z.ltb_lt; exact Hgl).
  rewrite Hev. cbn [negb]. rewrite Hsv.
  destruct hdr as [|b0 hdr']; reflexivity.
Qed.
