(* C03: the required flag of every UAX #14 option the breaker hands out — read from the segmenter or re-issued from
   unusedWordBreak — is exactly "the position after the option is a mandatory boundary and not the text end".
   BW is an invariant of the breaker registers through nextWordBreak, nextGraphemeBreak, both loops of wrapNextLine and
   WrapNextLine itself, from newBreaker on; no other invariant of the wrapper is needed. *)
From TV Require Import Model.Wrap Spec.Wrap Proofs.Wrap Proofs.WrapLines.

Definition canonical (attrs : list Z) (n : Z) (o : bopt) : Prop :=
  line_boundary attrs (fst o + 1) = true
  /\ snd o = mandatory_boundary attrs (fst o + 1) && negb (fst o =? n - 1).

(* an option pending re-issue is canonical (the register may hold an older option while the flag is clear: an option
   rejected by isValid is discarded, discardWordOption) *)
Definition BW (b : breaker) : Prop :=
  0 <= b_wpos b
  /\ (b_isUnusedW b = true -> canonical (b_attrs b) (b_n b) (b_unusedW b) /\ 1 <= b_wpos b <= b_n b).

Lemma BW_new : forall attrs, BW (new_breaker attrs).
Proof. intros. unfold BW, new_breaker; cbn. split; [lia|discriminate]. Qed.

Lemma canonical_required : forall attrs n o, canonical attrs n o ->
  (snd o = true <-> (mandatory_boundary attrs (fst o + 1) = true /\ fst o <> n - 1)).
Proof.
  intros attrs n o [_ H]. rewrite H, andb_true_iff, negb_true_iff, Z.eqb_neq. tauto.
Qed.

(* nextWordBreak hands out canonical options only, and keeps BW *)
Lemma nwb_canon : forall b b' ro, BW b -> next_word_break b = (b', ro) ->
  BW b' /\ b_attrs b' = b_attrs b /\ b_n b' = b_n b
  /\ (forall o, ro = Some o -> canonical (b_attrs b) (b_n b) o /\ 1 <= b_wpos b' <= b_n b).
Proof.
  intros b b' ro (H0 & H2) H. unfold next_word_break in H. destruct (b_isUnusedW b) eqn:F.
  - inversion H; subst; clear H. destruct (H2 eq_refl) as [H1 H3]. unfold BW; cbn.
    split; [split; [lia|discriminate]|]. split; [reflexivity|]. split; [reflexivity|].
    intros o E. inversion E; subst. split; [exact H1|lia].
  - unfold next_word_raw in H. destruct (iter_next (b_attrs b) (b_n b) fl_line (b_wpos b)) as [p ok] eqn:E. destruct ok.
    + apply iter_next_spec in E; [|exact H0]. destruct E as (E1 & E2 & _).
      inversion H; subst; clear H. unfold BW; cbn. rewrite F.
      assert (C : canonical (b_attrs b) (b_n b) (p - 1, has_flag (znth 0 (b_attrs b) p) fl_mandatory && negb (p - 1 =? b_n b - 1))).
      { unfold canonical, line_boundary, mandatory_boundary, attr_at; cbn [fst snd]. replace (p - 1 + 1) with p by lia. split; [exact E2|reflexivity]. }
      split; [split; [lia|discriminate]|]. split; [reflexivity|]. split; [reflexivity|].
      intros o Eo. inversion Eo; subst. split; [exact C|lia].
    + apply iter_next_false in E. destruct E as [E _]. inversion H; subst; clear H. unfold BW; cbn. rewrite F.
      split; [split; [lia|discriminate]|]. split; [reflexivity|]. split; [reflexivity|]. intros o Eo; discriminate.
Qed.

(* the option handed out is the new unusedWordBreak *)
Lemma nwb_unused : forall b b' o, next_word_break b = (b', Some o) -> b_unusedW b' = o.
Proof.
  intros b b' o H. unfold next_word_break in H. destruct (b_isUnusedW b).
  - inversion H; subst; reflexivity.
  - destruct (next_word_raw b) as [b1 [o1|]]; inversion H; subst; reflexivity.
Qed.

(* the registers of the line iterator *)
Definition wsig (b : breaker) := (b_wpos b, b_unusedW b, b_isUnusedW b, b_attrs b, b_n b).
Lemma BW_wsig : forall b b', wsig b' = wsig b -> BW b -> BW b'.
Proof. intros b b' H. unfold wsig in H. inversion H. unfold BW. congruence. Qed.
Lemma BW_mark : forall b, BW b -> canonical (b_attrs b) (b_n b) (b_unusedW b) -> 1 <= b_wpos b <= b_n b -> BW (mark_word_unused b).
Proof. intros b (H0 & H2) HC H. unfold BW; cbn. auto. Qed.
Lemma BW_discard : forall b, BW b -> b_isUnusedW b = false -> BW (discard_word b).
Proof. intros b (H0 & H2) HF. unfold BW; cbn. split; [exact H0|]. intros Q. congruence. Qed.

Lemma ngb_wsig : forall fuel b b' ro, next_grapheme_break fuel b = Ok (b', ro) -> wsig b' = wsig b.
Proof.
  induction fuel; intros b b' ro H; cbn in H; [discriminate|].
  destruct (b_isUnusedG b).
  - cbn in H. destruct ((fst (b_unusedG b) <=? fst (b_prevW b)) && (0 <? fst (b_prevW b))).
    + apply IHfuel in H. exact H.
    + destruct (fst (b_unusedW b) <? fst (b_unusedG b)); inversion H; subst; reflexivity.
  - unfold next_grapheme_raw in H. destruct (iter_next _ _ _ _) as [p ok]. destruct ok.
    + cbn in H. destruct ((p - 1 <=? fst (b_prevW b)) && (0 <? fst (b_prevW b))).
      * apply IHfuel in H. exact H.
      * destruct (fst (b_unusedW b) <? p - 1); inversion H; subst; reflexivity.
    + inversion H; subst; reflexivity.
Qed.

Lemma fill_until_br : forall fuel w b w', fill_until fuel w b = Ok w' -> w_br w' = w_br w.
Proof.
  induction fuel as [|fuel IH]; intros w b w' H; cbn [fill_until] in H; [discriminate|].
  destruct (peek w) as [[ci run] more]. destruct (more && _); [|inversion H; reflexivity].
  destruct (_ <=? w_start w).
  - apply IH in H. rewrite H. destruct w; reflexivity.
  - destruct (o_off run <? w_start w).
    + destruct (map_run w ci run) as [w1| | |] eqn:MR; cbn [bind] in H; try discriminate.
      destruct (map_run_set _ _ _ _ MR) as [mp ->].
      destruct (cut_run _ _ _ _ _ _) as [[st' rc]| | |]; cbn [bind fst snd] in H; try discriminate.
      apply IH in H. rewrite H. destruct w; reflexivity.
    + cbn [bind fst snd] in H. apply IH in H. rewrite H. destruct w; reflexivity.
Qed.
Lemma pbo_br : forall w opt lc w' r c, process_break_option w opt lc = Ok (w', r, c) -> w_br w' = w_br w.
Proof.
  intros w opt lc w' r c H. unfold process_break_option in H.
  destruct (fst opt <? w_start w); [inversion H; reflexivity|].
  destruct (fill_until _ w (fst opt)) as [w1| | |] eqn:FU; cbn [bind] in H; try discriminate.
  apply fill_until_br in FU. destruct (peek w1) as [[ci run] mr].
  destruct (map_run w1 ci run) as [w2| | |] eqn:MR; cbn [bind] in H; try discriminate.
  destruct (map_run_set _ _ _ _ MR) as [mp ->].
  destruct (is_valid _ _ _ run) as [v| | |]; cbn [bind] in H; try discriminate.
  destruct v; cbn [negb] in H; [|inversion H; subst; rewrite <- FU; destruct w1; reflexivity].
  destruct (cut_run _ run _ _ _ _) as [sr| | |]; cbn [bind] in H; try discriminate.
  cbv zeta in H.
  repeat match type of H with context [if ?c then _ else _] => destruct c end; inversion H; subst; rewrite <- FU; destruct w1; reflexivity.
Qed.

Lemma br_ops : forall w b sfx, w_br (checkpoint w) = w_br w /\ w_br (restore w) = w_br w /\ w_br (set_br w b) = b /\ w_br (mark_best w sfx) = w_br w.
Proof. destruct w; repeat split. Qed.

(* the end of the grapheme loop leaves the breaker alone *)
Lemma fallback_br : forall w wopt lc w' d, word_fallback w wopt lc = Ok (w', d) -> w_br w' = w_br w.
Proof.
  intros w wopt lc w' d H. unfold word_fallback in H.
  destruct (negb (lc_truncating lc) && negb (has_best w)); [|injection H as <- _; reflexivity].
  destruct (process_break_option (restore w) wopt lc) as [[[w3 r] cand]| | |] eqn:PB; cbn [bind] in H; try discriminate.
  apply pbo_br in PB. destruct (br_ops w (w_br w) []) as (_ & E & _). rewrite E in PB.
  destruct r; injection H as <- _; rewrite <- PB; destruct w3; reflexivity.
Qed.

(* the grapheme loop never reads the line iterator: it only re-arms the unused flag *)
Lemma inner_BW : forall fuel w wopt lc w' d, BW (w_br w) -> 1 <= b_wpos (w_br w) <= b_n (w_br w) ->
  canonical (b_attrs (w_br w)) (b_n (w_br w)) (b_unusedW (w_br w)) ->
  inner_loop fuel w wopt lc = Ok (w', d) -> BW (w_br w').
Proof.
  induction fuel as [|fuel IH]; intros w wopt lc w' d HB HP HCn H; cbn [inner_loop] in H; [discriminate|].
  destruct (br_ops w (w_br w) []) as (C1 & _). rewrite C1 in H.
  destruct (next_grapheme_break _ (w_br w)) as [[b1 ro]| | |] eqn:NG; cbn [bind fst snd] in H; try discriminate.
  apply ngb_wsig in NG. pose proof (BW_wsig _ _ NG HB) as HB1.
  assert (HP1 : 1 <= b_wpos b1 <= b_n b1) by (unfold wsig in NG; inversion NG; congruence).
  assert (HC1 : canonical (b_attrs b1) (b_n b1) (b_unusedW b1)) by (unfold wsig in NG; inversion NG; congruence).
  destruct ro as [opt|]; [|apply fallback_br in H; rewrite H; destruct (br_ops (checkpoint w) b1 []) as (_ & _ & E & _); rewrite E; exact HB1].
  destruct (process_break_option _ opt lc) as [[[w3 r] cand]| | |] eqn:PB; cbn [bind] in H; try discriminate.
  apply pbo_br in PB. destruct (br_ops (checkpoint w) b1 []) as (_ & _ & E & _). rewrite E in PB.
  destruct r.
  - apply IH in H; [exact H| | |]; destruct (br_ops w3 b1 []) as (_ & E2 & _); rewrite E2, PB; assumption.
  - injection H as E1 _; rewrite <- E1. destruct (br_ops w3 b1 [cand]) as (_ & _ & _ & E2). rewrite E2, PB. exact HB1.
  - injection H as E1 _; rewrite <- E1. destruct (has_best w3); [rewrite PB; exact HB1|].
    destruct (br_ops (restore w3) b1 []) as (_ & _ & _ & E2). destruct (br_ops w3 b1 []) as (_ & E3 & _). rewrite E2, E3, PB. exact HB1.
  - cbv zeta in H. injection H as E1 _; rewrite <- E1.
    match goal with |- BW (w_br (set_br ?x ?y)) => destruct (br_ops x y []) as (_ & _ & E2 & _); rewrite E2 end.
    rewrite ?(proj1 (proj2 (br_ops w3 b1 []))), PB.
    apply (BW_wsig (mark_word_unused b1)); [reflexivity|]. apply BW_mark; assumption.
  - rewrite PB in H. apply IH in H; [exact H| | |].
    + destruct (br_ops (mark_best w3 [cand]) (mark_word_unused b1) []) as (_ & _ & E2 & _). rewrite E2. apply BW_mark; assumption.
    + destruct (br_ops (mark_best w3 [cand]) (mark_word_unused b1) []) as (_ & _ & E2 & _). rewrite E2. exact HP1.
    + destruct (br_ops (mark_best w3 [cand]) (mark_word_unused b1) []) as (_ & _ & E2 & _). rewrite E2. exact HC1.
  - destruct (lc_truncating lc); injection H as E1 _; rewrite <- E1; [rewrite PB; exact HB1|].
    destruct (br_ops (mark_best w3 [cand]) (mark_word_unused (w_br w3)) []) as (_ & _ & E2 & _). rewrite E2, PB. apply BW_mark; assumption.
Qed.

Lemma outer_BW : forall fuel w lc w' d, BW (w_br w) -> outer_loop fuel w lc = Ok (w', d) -> BW (w_br w').
Proof.
  induction fuel as [|fuel IH]; intros w lc w' d HB H; cbn [outer_loop] in H; [discriminate|].
  destruct (br_ops w (w_br w) []) as (C1 & _). rewrite C1 in H.
  destruct (next_word_break (w_br w)) as [b1 ro] eqn:NW.
  destruct (nwb_canon _ _ _ HB NW) as (HB1 & _ & Hn1 & HC).
  destruct (br_ops (checkpoint w) b1 []) as (_ & _ & E & _).
  destruct ro as [opt|]; [|injection H as E1 _; rewrite <- E1; rewrite E; exact HB1].
  destruct (HC opt eq_refl) as [HCn HP1]. rewrite <- Hn1 in HP1.
  pose proof (nwb_unused _ _ _ NW) as HU1.
  assert (HF1 : b_isUnusedW b1 = false).
  { clear - NW. unfold next_word_break in NW. destruct (b_isUnusedW (w_br w)) eqn:F; [inversion NW; reflexivity|].
    unfold next_word_raw in NW. destruct (iter_next _ _ _ _) as [p ok]. destruct ok; inversion NW; subst; cbn; exact F. }
  assert (HC1 : canonical (b_attrs b1) (b_n b1) (b_unusedW b1)).
  { rewrite HU1, Hn1. destruct (nwb_canon _ _ _ HB NW) as (_ & HA1 & _). rewrite HA1. exact HCn. }
  destruct (process_break_option _ opt lc) as [[[w3 r] cand]| | |] eqn:PB; cbn [bind] in H; try discriminate.
  apply pbo_br in PB. rewrite E in PB.
  assert (G : forall wx, w_br wx = b1 \/ w_br wx = mark_word_unused b1 -> inner_loop (br_fuel wx) (restore wx) opt lc = Ok (w', d) -> BW (w_br w')).
  { intros wx Hx Hi. apply inner_BW in Hi; [exact Hi| | |]; destruct (br_ops wx b1 []) as (_ & E2 & _); rewrite E2;
      destruct Hx as [-> | ->]; try assumption; try exact HP1; try exact HC1; try (apply BW_mark; assumption). }
  destruct r; cbv zeta in H.
  - apply IH in H; [exact H|]. destruct (br_ops (restore w3) (discard_word (w_br (restore w3))) []) as (_ & _ & E3 & _). rewrite E3.
    destruct (br_ops w3 b1 []) as (_ & E2 & _). rewrite E2, PB. apply BW_discard; assumption.
  - injection H as E1 _; rewrite <- E1. destruct (br_ops w3 b1 [cand]) as (_ & _ & _ & E2). rewrite E2, PB. exact HB1.
  - assert (E2 : w_br (if has_best w3 then w3 else mark_best (restore w3) []) = b1).
    { destruct (has_best w3); [exact PB|]. destruct (br_ops (restore w3) b1 []) as (_ & _ & _ & E2). destruct (br_ops w3 b1 []) as (_ & E3 & _). rewrite E2, E3. exact PB. }
    destruct (policy_never _); [injection H as E1 _; rewrite <- E1; rewrite E2; exact HB1|]. apply (G _ (or_introl E2) H).
  - destruct (br_ops (restore w3) (mark_word_unused (w_br (restore w3))) []) as (_ & _ & E2 & _).
    destruct (br_ops w3 b1 []) as (_ & E3 & _). rewrite E3, PB in *.
    destruct (_ || _); [injection H as E1 _; rewrite <- E1; rewrite E2; apply BW_mark; assumption|]. apply (G _ (or_intror E2) H).
  - destruct (br_ops w3 b1 [cand]) as (_ & _ & _ & E2).
    destruct (snd opt); [injection H as E1 _; rewrite <- E1; rewrite E2, PB; exact HB1|]. apply IH in H; [exact H|]. rewrite E2, PB. exact HB1.
  - destruct (policy_never w3).
    + destruct (lc_truncating lc); injection H as E1 _; rewrite <- E1; [rewrite PB; exact HB1|].
      destruct (br_ops w3 b1 [cand]) as (_ & _ & _ & E2). rewrite E2, PB. exact HB1.
    + apply (G _ (or_introl PB) H).
Qed.

Lemma post_process_br : forall w line done w' wl d, post_process w line done = (w', wl, d) -> w_br w' = w_br w.
Proof.
  intros w line done w' wl d H. rewrite post_process_split in H.
  destruct (pp_first w line) as [w1 l1] eqn:PF.
  assert (K : w_br w1 = w_br w).
  { unfold pp_first in PF. destruct line as [[|a fl]|]; try (inversion PF; subst; auto).
    cbv zeta in PF. destruct (c_notrim (w_cfg w)); [inversion PF; subst; destruct w; auto|].
    match type of PF with context [if ?c then _ else _] => destruct c end; inversion PF; subst; destruct w; reflexivity. }
  rewrite <- K. unfold pp_tail in H.
  repeat match type of H with context [if ?c then _ else _] => destruct c end; injection H as E1 _ _; rewrite <- E1; destruct w1; reflexivity.
Qed.

Lemma wnl_BW : forall w mw w' wl d, BW (w_br w) -> wrap_next_line w mw = Ok (w', wl, d) -> BW (w_br w').
Proof.
  intros w mw w' wl d HB H. unfold wrap_next_line in H. destruct (negb (w_more w)); [inversion H; subst; exact HB|].
  destruct (peek w) as [[ci run] hasFirst]. destruct (negb hasFirst).
  - inversion H as [PP]. apply post_process_br in PP. rewrite PP. exact HB.
  - destruct (outer_loop _ (start_line w) _) as [[w2 d2]| | |] eqn:OL; cbn [bind] in H; try discriminate.
    apply outer_BW in OL; [|destruct w; exact HB]. inversion H as [PP]. apply post_process_br in PP. rewrite PP. exact OL.
Qed.

Lemma run_calls_BW : forall widths w w' rs, BW (w_br w) -> run_calls w widths = Ok (w', rs) -> BW (w_br w').
Proof.
  induction widths as [|mw rest IH]; intros w w' rs HB H; cbn [run_calls] in H; [inversion H; subst; exact HB|].
  destruct (wrap_next_line w mw) as [[[w1 wl] d]| | |] eqn:WN; cbn [bind] in H; try discriminate.
  destruct (run_calls w1 rest) as [[w2 rs2]| | |] eqn:RC; cbn [bind fst snd] in H; try discriminate.
  inversion H; subst. eapply IH; [|exact RC]. eapply wnl_BW; eauto.
Qed.

(* C03: a valid mandatory boundary that fits ends the line at once *)
Lemma mandatory_fits_ends_line : forall n fuel w lc b1 opt w3 cand,
  JT n w -> OrdO w -> BW (w_br w) ->
  next_word_break (w_br w) = (b1, Some opt) ->
  mandatory_boundary (b_attrs (w_br w)) (fst opt + 1) = true -> fst opt <> n - 1 ->
  process_break_option (set_br (checkpoint w) b1) opt lc = Ok (w3, Fits, cand) ->
  outer_loop (S fuel) w lc = Ok (mark_best w3 [cand], false)
  /\ s_best (w_sc (mark_best w3 [cand])) = Some (s_alt (w_sc w3) ++ [cand])
  /\ 0 < o_cnt cand /\ chain (w_start w) (s_alt (w_sc w3) ++ [cand]) (fst opt + 1)
  /\ best_end (mark_best w3 [cand]) = fst opt + 1.
Proof.
  intros n fuel w lc b1 opt w3 cand HT HO HB NW HM Hn PB.
  destruct (nwb_canon _ _ _ HB NW) as (_ & _ & _ & HC). destruct (HC opt eq_refl) as [C _].
  assert (Bn : b_n (w_br w) = n) by (destruct HT as ((_ & Bk & _) & _); exact (proj1 Bk)).
  rewrite Bn in C. eapply required_fits_ends_line; eauto. apply (canonical_required _ _ _ C). auto.
Qed.
