(* Grapheme cluster boundaries: the cursor automaton computes exactly Spec.UAX29.gb_boundary. *)
From TV Require Import Model.Segmenter Spec.UAX29 Proofs.SegCommon.
Open Scope Z_scope.

Record gst := mkG { gs_last : obs; gs_gb : gbc; gs_ri : bool; gs_picto : pictoSeq }.
Definition gproj (cr : cursor) : gst := mkG (c_r cr) (c_grapheme cr) (c_gRIOdd cr) (c_pictoSequence cr).
Definition gstep (s : gst) (r next : obs) (aft : lbc) : gst * bool :=
  let '(picto, gb11) := update_picto (gs_picto s) (o_pic r) (o_gb r) in
  let '(gri, gb1213) := update_grapheme_ri (gs_ri s) (o_gb r) in
  (mkG r (o_gb r) gri picto, grapheme_decision (gs_last s) r (gs_gb s) (o_gb r) gb11 gb1213).

Lemma step_gproj cr i r next aft :
  gproj (fst (fst (step cr i r next aft))) = fst (gstep (gproj cr) r next aft)
  /\ a_grapheme (snd (fst (step cr i r next aft))) = snd (gstep (gproj cr) r next aft).
Proof.
  unfold step, gstep. cbv zeta. cbn [gproj gs_picto gs_ri gs_last gs_gb start_iteration c_pictoSequence c_isExtPic c_grapheme c_gRIOdd c_prev c_r c_prevGrapheme].
  destruct (update_picto _ _ _) as [picto gb11].
  destruct (update_grapheme_ri _ _) as [gri gb1213].
  destruct (update_word_ri _ _) as [wri wb1516].
  destruct (word_decision _ _ _ _ _ _ _ _) as [isW remove].
  destruct (update_num_sequence _ _) as [ns trigger].
  destruct (line_decision _ _ _ _ _ _ _ _ _ _); cbn; auto.
Qed.

(* ---- invariant: the automaton state is a function of the text to the left ---- *)
Definition hd_gb (left : list obs) : gbc := match left with o :: _ => o_gb o | [] => GB_None end.
Definition zwj_pict (left : list obs) : bool :=
  match left with z :: rest => gb_is GB_ZWJ z && extends_then_pict rest | [] => false end.
Definition picto_of (left : list obs) : pictoSeq :=
  if zwj_pict left then seenPictoZWJ else if extends_then_pict left then inPictoExtend else noPictoSequence.

Definition ginv (left : list obs) (s : gst) : Prop :=
  gs_last s = hd obs_nul left /\ gs_gb s = hd_gb left
  /\ gs_ri s = Nat.odd (leading (gb_is GB_RI) left) /\ gs_picto s = picto_of left.

Lemma ginv_init : ginv [] (mkG obs_nul GB_None false noPictoSequence).
Proof. repeat split. Qed.

Lemma gbc_beq_eq a b : gbc_beq a b = true <-> a = b.
Proof. split; [apply internal_gbc_dec_bl | apply internal_gbc_dec_lb]. Qed.

Lemma ginv_step left s r next aft :
  ginv left s -> forallb obs_wf_g left = true -> obs_wf_g r = true -> ginv (r :: left) (fst (gstep s r next aft)).
Proof.
  intros (H1 & H2 & H3 & H4) Hleft Hwf.
  unfold obs_wf_g in Hwf. apply andb_true_iff in Hwf as [Hwf Hlf]. apply andb_true_iff in Hwf as [Hpic Hcr].
  unfold gstep. rewrite H3, H4.
  destruct (update_picto _ _ _) as [picto gb11] eqn:Hp.
  destruct (update_grapheme_ri _ _) as [gri gb1213] eqn:Hr.
  cbn [fst]. unfold ginv. cbn [gs_last gs_gb gs_ri gs_picto hd hd_gb].
  split; [reflexivity|]. split; [reflexivity|]. split.
  - unfold update_grapheme_ri in Hr. cbn [leading]. unfold gb_is, gbq in *.
    destruct (gbc_beq (o_gb r) GB_RI); inversion Hr; subst; [|reflexivity].
    rewrite Nat.odd_succ, <- Nat.negb_odd. reflexivity.
  - unfold update_picto in Hp. unfold picto_of in *. cbn [zwj_pict extends_then_pict].
    unfold gb_is, gbq in *.
    destruct (o_pic r) eqn:Epic.
    + (* pictographic: no grapheme class *)
      cbn [negb orb] in Hpic. apply gbc_beq_eq in Hpic. rewrite Hpic in *. cbn [gbc_beq] in *.
      cbn [andb]. destruct (zwj_pict left); [|destruct (extends_then_pict left)]; inversion Hp; reflexivity.
    + destruct (zwj_pict left) eqn:Ez.
      * (* after ZWJ: extends_then_pict left is false since its head is a ZWJ *)
        assert (Hf : extends_then_pict left = false).
        { destruct left as [|z rest]; [reflexivity|]. cbn [zwj_pict] in Ez. apply andb_true_iff in Ez as [Ez _].
          cbn [extends_then_pict]. unfold gb_is in *. apply gbc_beq_eq in Ez.
          cbn [forallb] in Hleft. apply andb_true_iff in Hleft as [Hz _].
          unfold obs_wf_g in Hz. apply andb_true_iff in Hz as [Hz _]. apply andb_true_iff in Hz as [Hz _].
          rewrite Ez in Hz. cbn [gbc_beq] in Hz. rewrite orb_false_r in Hz. apply negb_true_iff in Hz.
          rewrite Hz, Ez. reflexivity. }
        rewrite Hf in *.
        destruct (gbc_beq (o_gb r) GB_ZWJ) eqn:E2, (gbc_beq (o_gb r) GB_Extend) eqn:E3;
          cbn in Hp |- *; inversion Hp; subst; try reflexivity;
          apply gbc_beq_eq in E2; apply gbc_beq_eq in E3; congruence.
      * destruct (extends_then_pict left) eqn:Ee; destruct (gbc_beq (o_gb r) GB_Extend) eqn:E1;
          destruct (gbc_beq (o_gb r) GB_ZWJ) eqn:E2; cbn in Hp |- *; inversion Hp; subst; try reflexivity;
          apply gbc_beq_eq in E1; apply gbc_beq_eq in E2; congruence.
Qed.

(* ---- decision ---- *)
Lemma gdecision left s r next aft right' :
  ginv left s -> left <> [] -> forallb obs_wf_g left = true -> obs_wf_g r = true ->
  snd (gstep s r next aft) = gb_boundary left (r :: right').
Proof.
  intros (H1 & H2 & H3 & H4) Hne Hleft Hwf.
  destruct left as [|a left']; [contradiction|]. clear Hne.
  cbn [forallb] in Hleft. apply andb_true_iff in Hleft as [Ha Hleft'].
  unfold obs_wf_g in Hwf, Ha.
  apply andb_true_iff in Hwf as [Hwf Hlf]. apply andb_true_iff in Hwf as [Hpic Hcr].
  apply andb_true_iff in Ha as [Ha Half]. apply andb_true_iff in Ha as [Hapic Hacr].
  apply eqb_prop in Hlf, Hcr, Half, Hacr.
  unfold gstep. rewrite H1, H2, H3, H4.
  unfold update_picto, update_grapheme_ri, picto_of, grapheme_decision, gb_boundary, gb_control, gb_is, gbq.
  cbn [hd hd_gb zwj_pict leading fst snd extends_then_pict].
  unfold gb_is. rewrite Hlf, Hacr.
  set (P := extends_then_pict left') in *.
  set (odd' := Nat.odd (leading (fun o => gbc_beq (o_gb o) GB_RI) left')).
  assert (Hodd : Nat.odd (if gbc_beq (o_gb a) GB_RI then Datatypes.S (leading (fun o => gbc_beq (o_gb o) GB_RI) left') else 0%nat)
                 = gbc_beq (o_gb a) GB_RI && negb odd').
  { destruct (gbc_beq (o_gb a) GB_RI); [|reflexivity]. rewrite Nat.odd_succ, <- Nat.negb_odd. reflexivity. }
  rewrite Hodd.
  destruct (o_pic a) eqn:Epa.
  - cbn [negb orb] in Hapic. apply gbc_beq_eq in Hapic. rewrite Hapic. cbn [gbc_beq andb orb].
    destruct (o_pic r) eqn:Epr.
    + cbn [negb orb] in Hpic. apply gbc_beq_eq in Hpic. rewrite Hpic. cbn. reflexivity.
    + destruct (o_gb r); cbn; reflexivity.
  - destruct (o_pic r) eqn:Epr.
    + cbn [negb orb] in Hpic. apply gbc_beq_eq in Hpic. rewrite Hpic.
      destruct (o_gb a), P, odd'; cbn; reflexivity.
    + destruct (o_gb a), (o_gb r), P, odd'; cbn; reflexivity.
Qed.

(* ---- the whole text ---- *)
Lemma srun_nonempty s rest : srun gstep s rest <> [].
Proof. destruct rest; cbn; discriminate. Qed.

Lemma positions_nonempty {A} (f : list obs -> list obs -> A) left right : positions f left right <> [].
Proof. destruct right; cbn; discriminate. Qed.

Lemma last_positions_gb : forall right left, left <> [] -> last (positions gb_boundary left right) false = true.
Proof.
  induction right as [|o r IH]; intros left Hne.
  - cbn. destruct left; [contradiction | reflexivity].
  - cbn [positions].
    assert (H : forall x (l : list bool), l <> [] -> last (x :: l) false = last l false) by (intros x [|y l] Hl; [contradiction | reflexivity]).
    rewrite H by apply positions_nonempty. apply IH. discriminate.
Qed.

Lemma srun_body : forall rest left s,
  ginv left s -> left <> [] -> forallb obs_wf_g left = true -> forallb obs_wf_g rest = true ->
  removelast (srun gstep s rest) = removelast (positions gb_boundary left rest).
Proof.
  induction rest as [|r rest IH]; intros left s Hinv Hne Hl Hr.
  - reflexivity.
  - cbn [forallb] in Hr. apply andb_true_iff in Hr as [Hwr Hr].
    cbn [srun positions].
    set (next := match rest with [] => obs_psep | n :: _ => n end).
    rewrite !removelast_cons by (apply srun_nonempty || apply positions_nonempty).
    rewrite (gdecision left s r next (after_marks r rest) rest Hinv Hne Hl Hwr).
    f_equal. apply IH.
    + apply ginv_step; assumption.
    + discriminate.
    + cbn [forallb]. rewrite Hwr, Hl. reflexivity.
    + exact Hr.
Qed.

Lemma grapheme_lemma text :
  forallb obs_wf_g text = true ->
  exists attrs, compute_attrs text = Ok attrs /\ map a_grapheme attrs = gb_spec text.
Proof.
  intros Hwf. unfold compute_attrs.
  destruct (loop_total text (new_cursor text) 0 [] ltac:(lia) (wne_ok_new text)) as (attrs & E & L).
  rewrite E. cbn [bind]. eexists; split; [reflexivity|].
  pose proof (loop_trace gproj gstep a_grapheme (fun _ _ => True) (fun a => eq_refl) (fun _ _ _ _ _ _ _ => I) (fun cr i r next aft _ _ => step_gproj cr i r next aft) text (new_cursor text) 0 [] attrs ltac:(lia) I E) as Ht.
  cbn [map app] in Ht.
  unfold gb_spec.
  destruct text as [|r0 rest].
  - (* empty text: one position, both ends *)
    destruct attrs as [|a [|b l]]; cbn in L; try lia. reflexivity.
  - cbn [forallb] in Hwf. apply andb_true_iff in Hwf as [Hw0 Hwr].
    cbn [srun] in Ht.
    set (next := match rest with [] => obs_psep | n :: _ => n end) in Ht.
    destruct attrs as [|a0 tl]; [discriminate|].
    cbn [map] in Ht. injection Ht as _ Htl.
    assert (Hne : tl <> []). { intros ->. symmetry in Htl. revert Htl. apply srun_nonempty. }
    destruct tl as [|a1 tl']; [contradiction|].
    unfold fixups. change (map_last fix_last (fix_first a0 :: a1 :: tl')) with (fix_first a0 :: map_last fix_last (a1 :: tl')).
    cbn [map a_grapheme fix_first positions gb_boundary].
    f_equal.
    rewrite (map_map_last a_grapheme true (fun a => eq_refl)) by discriminate.
    rewrite (app_removelast_last' (positions gb_boundary [r0] rest) false) by apply positions_nonempty.
    rewrite last_positions_gb by discriminate.
    change (map a_grapheme (fix_first a0 :: a1 :: tl')) with (true :: map a_grapheme (a1 :: tl')).
    rewrite removelast_cons by discriminate. cbn [app]. f_equal. f_equal. rewrite Htl.
    apply srun_body.
    + apply (ginv_step [] _ r0 next _ ginv_init eq_refl Hw0).
    + discriminate.
    + cbn [forallb]. rewrite Hw0. reflexivity.
    + exact Hwr.
Qed.
