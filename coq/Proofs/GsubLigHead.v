(* C18: GSUB single + ligature substitution (Model/GsubLig.v) under the invariant of the multiple substitution
   (inv_gm of Proofs/GsubMulti.v: logical order, first cluster not flagged), without the `nomult` side condition of
   Proofs/GsubLig.v (which is only needed next to the mark-to-base model).  The proofs of the contract clauses are those of
   gs_step_ok; new here: a ligature (or a substituted glyph) is flagged only if a glyph of its own cluster was. *)
From TV Require Import Model.GsubLig Spec.LocalEngine Proofs.LocalEngine Proofs.EngineItem Proofs.KernMachine Proofs.MarkBase Proofs.GsubLig Proofs.GsubMulti.

(* every step rewrites a window at the cursor into glyphs of its minimum cluster (gstep_mw without nomult) *)
Lemma gstep_mw_sorted P d x rest : sorted (x :: rest) ->
  exists c cend w w' tail k, x :: rest = w ++ tail
    /\ gs_step P d (x :: rest) = (d ++ firstn k w', skipn k w' ++ tail)
    /\ (length (skipn k w' ++ tail) < length (x :: rest))%nat
    /\ merged_window c cend w w' tail.
Proof.
  intros HS.
  assert (Next : forall x', icl x' = icl x -> (iutb x = true -> iutb x' = true) ->
     exists c cend w w' tail k, x :: rest = w ++ tail
      /\ (d ++ [x'], rest) = (d ++ firstn k w', skipn k w' ++ tail)
      /\ (length (skipn k w' ++ tail) < length (x :: rest))%nat
      /\ merged_window c cend w w' tail).
  { intros x' E U. exists (icl x), (icl x), [x], [x'], rest, 1%nat. split; [reflexivity|]. split; [reflexivity|].
    split; [cbn; lia|]. apply mw_single; assumption. }
  unfold gs_step. destruct (negb _); [apply (Next x); auto|].
  destruct (gs_lig P).
  - destruct (try_ligs_cases P d x rest (gs_ligs P)) as [E|[(lg & E)|(cs & ps & lg & Hcs & Em & E)]]; rewrite E.
    + apply (Next x); auto.
    + destruct (replace_with_props x lg) as (A & B & C0). apply (Next (replace_with x lg)); auto.
    + destruct (mi_bound _ _ _ _ _ Em) as [B Lp].
      assert (Hps : ps <> []) by (intros ->; cbn in Lp; destruct cs; [contradiction|discriminate]).
      assert (Hlast : (last ps O < length rest)%nat).
      { rewrite Forall_forall in B. specialize (B _ (last_in_nat ps Hps)). lia. }
      destruct (ligate_shape d x rest ps lg HS Hps Hlast (mi_le_last _ _ _ _ _ Em)) as (wr & ext & tail & w' & Er & Lwr & EL & Le & MW & _).
      exists (icl x), (icl (last (x :: wr) i0)), (x :: wr ++ ext), w', tail, (length w' - length ext)%nat.
      split; [rewrite Er; cbn [app]; rewrite <- app_assoc; reflexivity|]. split; [exact EL|].
      split; [|exact MW].
      rewrite app_length, skipn_length. rewrite Er. cbn [length]. rewrite !app_length. lia.
  - destruct (find _ (gs_singles P)) as [e|]; [|apply (Next x); auto].
    destruct (replace_with_props x (snd e)) as (A & B & C0). apply (Next (replace_with x (snd e))); auto.
Qed.

Theorem gs_step_ok_sorted P : step_ok icl iutb sideL sorted (gs_pass P).
Proof.
  constructor.
  - (* progress *) intros L R d t Hne. rewrite gs_pass_step. destruct t as [|x rest]; [contradiction|].
    unfold gs_step. destruct (negb _); [cbn; lia|]. destruct (gs_lig P).
    + destruct (try_ligs_cases P d x rest (gs_ligs P)) as [E|[(lg & E)|(cs & ps & lg & Hcs & Em & E)]]; rewrite E; [cbn; lia|cbn; lia|].
      unfold ligate. destruct (merge_zip d (x :: rest) _) as [d1 t1] eqn:EM. cbn [snd].
      assert (length t1 = length (x :: rest)).
      { unfold merge_zip in EM. injection EM as _ <-. rewrite app_length, map_length, <- app_length, firstn_skipn. reflexivity. }
      rewrite skipn_length. destruct t1; cbn [tl length] in *; lia.
    + destruct (find _ (gs_singles P)); cbn; lia.
  - (* invariant *) intros L R d t Hne HS. rewrite gs_pass_step. destruct t as [|x rest]; [contradiction|].
    pose proof HS as HS'. apply sorted_app in HS'. destruct HS' as (_ & St & _).
    destruct (gstep_mw_sorted P d x rest St) as (c & cend & w & w' & tail & k & E1 & E2 & _ & MW).
    destruct (gstep_seq P d x rest c cend w w' tail k E1 E2) as [Q1 Q2]. rewrite Q2.
    apply (mw_sorted d c cend w w' tail); [rewrite <- Q1; exact HS|exact MW].
  - (* clusters *) intros L R d t y Hne HS Hy. rewrite gs_pass_step in Hy. destruct t as [|x rest]; [contradiction|].
    pose proof HS as HS'. apply sorted_app in HS'. destruct HS' as (_ & St & _).
    destruct (gstep_mw_sorted P d x rest St) as (c & cend & w & w' & tail & k & E1 & E2 & _ & MW).
    destruct (gstep_seq P d x rest c cend w w' tail k E1 E2) as [Q1 Q2]. rewrite Q2 in Hy. rewrite Q1.
    apply (mw_cls d c cend w w' tail MW y Hy).
  - (* persistence *) intros L R d t c0 Hne HS F. rewrite gs_pass_step. destruct t as [|x rest]; [contradiction|].
    pose proof HS as HS'. apply sorted_app in HS'. destruct HS' as (_ & St & _).
    destruct (gstep_mw_sorted P d x rest St) as (c & cend & w & w' & tail & k & E1 & E2 & _ & MW).
    destruct (gstep_seq P d x rest c cend w w' tail k E1 E2) as [Q1 Q2]. rewrite Q2. rewrite Q1 in F, HS.
    apply (mw_fog d c cend w w' tail c0 HS MW F).
  - (* cut ahead *)
    intros L R R' d t1 t2 c0 Hne HS HS1 HC _. cbv zeta. rewrite !gs_pass_step.
    destruct t1 as [|x r1]; [contradiction|]. cbn [app].
    apply cutvL_spec in HC. destruct HC as [C1 C2].
    pose proof HS as HS'. apply sorted_app in HS'. destruct HS' as (_ & St & _).
    assert (Hlt : forall y z, In y (x :: r1) -> In z t2 -> icl y < icl z).
    { intros y z Hy Hz. specialize (C1 y (in_or_app _ _ _ (or_intror Hy))). specialize (C2 z Hz). lia. }
    unfold gs_step. destruct (negb _); [right; reflexivity|].
    destruct (gs_lig P).
    + destruct (try_ligs_fwd P d x r1 t2 St Hlt (gs_ligs P)) as [E|(cs & ps & lg & p & Hcs & Em & E & Hp & Lp)].
      * right. rewrite E. destruct (try_ligs P d x r1 (gs_ligs P)) as [r|]; reflexivity.
      * left. rewrite E.
        destruct (mi_bound _ _ _ _ _ Em) as [B Lps].
        assert (Hps : ps <> []) by (intros ->; destruct Hp).
        assert (Hlast : (last ps O < length (r1 ++ t2))%nat).
        { rewrite Forall_forall in B. specialize (B _ (last_in_nat ps Hps)). lia. }
        pose proof (mi_le_last _ _ _ _ _ Em) as Hle.
        destruct (ligate_shape d x (r1 ++ t2) ps lg St Hps Hlast Hle) as (wr & ext & tail & w' & Er & Lwr & EL & Le & MW & _).
        rewrite EL. cbn [fst snd]. rewrite <- app_assoc, (app_assoc (firstn _ w')), firstn_skipn.
        destruct MW as (Hw & _ & Hw' & _ & Ht & Ht' & _).
        assert (Hz0 : exists z0, In z0 t2 /\ In z0 wr).
        { assert (Lw : (length r1 < length wr)%nat) by (specialize (Hle p Hp); lia).
          assert (E0 : wr = firstn (length wr) (r1 ++ t2)).
          { rewrite Er. rewrite firstn_app, Nat.sub_diag, firstn_all. cbn [firstn]. rewrite app_nil_r. reflexivity. }
          rewrite firstn_app in E0. rewrite firstn_all2 in E0 by lia.
          destruct t2 as [|z0 t2']; [rewrite app_length in Hlast; cbn in Hlast; specialize (Hle p Hp); lia|].
          exists z0. split; [left; reflexivity|]. rewrite E0. apply in_or_app. right.
          destruct (length wr - length r1)%nat eqn:D; [lia|]. left. reflexivity. }
        destruct Hz0 as (z0 & Hz0 & Hz0w).
        assert (Hcend : c0 <= icl (last (x :: wr) i0)).
        { specialize (C2 z0 Hz0). assert (In z0 (x :: wr ++ ext)) by (right; apply in_or_app; left; exact Hz0w).
          specialize (Hw z0 H). lia. }
        assert (Hc : icl x < c0) by (apply C1; apply in_or_app; right; left; reflexivity).
        apply fog_spec. left. intros u Hu Eu.
        apply in_app_or in Hu. destruct Hu as [Hu|Hu]; [specialize (C1 u (in_or_app _ _ _ (or_introl Hu))); lia|].
        apply in_app_or in Hu. destruct Hu as [Hu|Hu]; [rewrite (Hw' u Hu) in Eu; lia|].
        assert (icl x <> icl (last (x :: wr) i0)) by lia. specialize (Ht' H u Hu). lia.
    + right. destruct (find _ (gs_singles P)); reflexivity.
  - (* cut behind: the out-buffer is not read *)
    intros L L' R d1 d2 t c0 Hne HS HS2 HC _. cbv zeta. rewrite !gs_pass_step. right.
    assert (St : sorted t). { apply sorted_app in HS2. tauto. }
    rewrite (gs_step_lift P (d1 ++ d2) t St), (gs_step_lift P d2 t St). cbn [fst snd]. rewrite app_assoc. reflexivity.
Qed.

(* ---- where the flags of the rewritten window come from ---- *)
Lemma flag_item_iutb m a : iutb (flag_item m a) = iutb a || utb m.
Proof. reflexivity. Qed.

Lemma take_flags_back : forall comps a, iutb (take_flags a comps) = true ->
  iutb a = true \/ exists y, In y comps /\ icl y = icl a /\ iutb y = true.
Proof.
  unfold take_flags. induction comps as [|y comps IH]; intros a H; cbn [fold_left] in H; [left; exact H|].
  set (a' := if icl y =? icl a then flag_item (gf (ig y)) a else a) in *.
  assert (Ea : icl a' = icl a) by (unfold a'; destruct (icl y =? icl a); reflexivity).
  destruct (IH a' H) as [U|(y0 & Hy0 & E0 & U0)].
  - unfold a' in U. destruct (Z.eqb_spec (icl y) (icl a)) as [E|N]; [|left; exact U].
    rewrite flag_item_iutb in U. apply orb_true_iff in U. destruct U as [U|U]; [left; exact U|].
    right. exists y. split; [left; reflexivity|split; [exact E|exact U]].
  - right. exists y0. split; [right; exact Hy0|split; [congruence|exact U0]].
Qed.

Lemma lig_glyph_iutb x1 comps lg : iutb (lig_glyph x1 comps lg) = iutb (take_flags x1 comps).
Proof. reflexivity. Qed.

Lemma merge_item_flagged c v : iutb (merge_item c v) = true -> icl v = c /\ iutb v = true.
Proof.
  unfold merge_item, iutb, icl, with_g, set_cluster. cbn [ig]. destruct (Z.eqb_spec (cl (ig v)) c) as [E|N]; [auto|].
  cbn. discriminate.
Qed.

Lemma merge_fwd_back t n y' : In y' (merge_fwd t n) -> iutb y' = true -> exists y, In y t /\ icl y = icl y' /\ iutb y = true.
Proof.
  unfold merge_fwd. intros H U. apply in_app_or in H. destruct H as [H|H].
  - apply in_map_iff in H. destruct H as (v & <- & Hv). destruct (merge_item_flagged _ v U) as [E Uv].
    exists v. split; [eapply in_firstn; exact Hv|]. split; [rewrite merge_item_icl; exact E|exact Uv].
  - exists y'. split; [eapply in_skipn; exact H|auto].
Qed.

Lemma in_tl {A} (x : A) l : In x (tl l) -> In x l.
Proof. destruct l; [auto|right; assumption]. Qed.

Lemma ligate_back x rest ps lg y' : sorted (x :: rest) ->
  In y' (fst (ligate [] x rest ps lg) ++ snd (ligate [] x rest ps lg)) -> iutb y' = true ->
  exists y, In y (x :: rest) /\ icl y = icl y' /\ iutb y = true.
Proof.
  intros HS H U. rewrite (ligate_unfold [] x rest ps lg HS) in H. cbv zeta in H. cbn [fst snd app] in H.
  set (n := S (S (last ps O))) in *. set (M := merge_fwd (x :: rest) n) in *.
  assert (HM : forall z, In z M -> iutb z = true -> exists y, In y (x :: rest) /\ icl y = icl z /\ iutb y = true)
    by (intros z Hz Uz; apply (merge_fwd_back (x :: rest) n z Hz Uz)).
  assert (LM : length M = length (x :: rest)) by apply merge_fwd_length.
  destruct H as [<-|H].
  - rewrite lig_glyph_iutb in U. destruct (lig_glyph_props (hd i0 M) (map (fun k => nth k (tl M) i0) ps) lg) as (G1 & _).
    rewrite G1. assert (Hhd : In (hd i0 M) M) by (destruct M; [cbn in LM; lia|left; reflexivity]).
    destruct (take_flags_back _ _ U) as [U0|(y0 & Hy0 & E0 & U0)].
    + apply HM; assumption.
    + apply in_map_iff in Hy0. destruct Hy0 as (k & <- & _).
      destruct (nth_in_or_default k (tl M) i0) as [Hin|Ed]; [|rewrite Ed in U0; discriminate].
      destruct (HM _ (in_tl _ _ Hin) U0) as (y & Hy & Ey & Uy). exists y. split; [exact Hy|split; [congruence|exact Uy]].
  - apply in_app_or in H. destruct H as [H|H].
    + apply drop_at_in in H. apply HM; [apply in_tl; eapply in_firstn; exact H|exact U].
    + apply HM; [apply in_tl; eapply in_skipn; exact H|exact U].
Qed.

Lemma gs_step_back P x rest y' : sorted (x :: rest) ->
  In y' (fst (gs_step P [] (x :: rest)) ++ snd (gs_step P [] (x :: rest))) -> iutb y' = true ->
  exists y, In y (x :: rest) /\ icl y = icl y' /\ iutb y = true.
Proof.
  intros HS H U.
  assert (Same : In y' ([x] ++ rest) -> exists y, In y (x :: rest) /\ icl y = icl y' /\ iutb y = true)
    by (intros H0; exists y'; auto).
  assert (Repl : forall g, In y' ([replace_with x g] ++ rest) -> exists y, In y (x :: rest) /\ icl y = icl y' /\ iutb y = true).
  { intros g [<-|H0]; [exists x; split; [left; reflexivity|split; [reflexivity|exact U]]|exists y'; split; [right; exact H0|auto]]. }
  unfold gs_step in H. destruct (negb _); [apply Same; exact H|].
  destruct (gs_lig P).
  - destruct (try_ligs_cases P [] x rest (gs_ligs P)) as [E|[(lg & E)|(cs & ps & lg & Hcs & Em & E)]]; rewrite E in H.
    + apply Same. exact H.
    + apply (Repl lg). exact H.
    + apply (ligate_back x rest ps lg y' HS H U).
  - destruct (find _ (gs_singles P)) as [e|]; [apply (Repl (snd e)); exact H|apply Same; exact H].
Qed.

Lemma head_clear_mw_weak a c cend w w' tail : sorted (a ++ w ++ tail) -> merged_window c cend w w' tail ->
  (forall y', In y' (a ++ w' ++ tail) -> iutb y' = true -> exists y, In y (a ++ w ++ tail) /\ icl y = icl y' /\ iutb y = true) ->
  head_clear (a ++ w ++ tail) -> head_clear (a ++ w' ++ tail).
Proof.
  intros HS (Hw & (y0 & Hy0 & Ey0) & Hw' & Hne & _) Hback HC.
  assert (Key : forall h, (forall y, In y (a ++ w ++ tail) -> icl y = icl h -> iutb y = false) ->
                forall y, In y (a ++ w' ++ tail) -> icl y = icl h -> iutb y = false).
  { intros h Hh y Hy Ey. destruct (iutb y) eqn:U; [|reflexivity]. destruct (Hback y Hy U) as (y1 & Hy1 & E1 & U1).
    rewrite <- U1. apply Hh; [exact Hy1|congruence]. }
  destruct a as [|h a'].
  - cbn [app] in *. destruct w as [|h w0]; [destruct Hy0|]. destruct w' as [|h' w0']; [contradiction|].
    cbn [app head_clear] in *.
    assert (Eh : icl h = icl h').
    { rewrite (Hw' h' (or_introl eq_refl)). specialize (Hw h (or_introl eq_refl)).
      apply sorted_cons in HS. destruct HS as [HS _]. destruct Hy0 as [<-|Hy0]; [exact Ey0|].
      specialize (HS y0 (in_or_app _ _ _ (or_introl Hy0))). lia. }
    intros y Hy Ey. apply (Key h); [exact HC|exact Hy|congruence].
  - cbn [app head_clear] in *. apply (Key h). exact HC.
Qed.

Lemma gs_head_clear P d x rest : sorted (d ++ x :: rest) -> head_clear (d ++ x :: rest) ->
  head_clear (fst (gs_step P d (x :: rest)) ++ snd (gs_step P d (x :: rest))).
Proof.
  intros HS HC. pose proof HS as HS'. apply sorted_app in HS'. destruct HS' as (_ & St & _).
  destruct (gstep_mw_sorted P d x rest St) as (c & cend & w & w' & tail & k & E1 & E2 & _ & MW).
  destruct (gstep_seq P d x rest c cend w w' tail k E1 E2) as [Q1 Q2]. rewrite Q2. rewrite Q1 in HS, HC.
  apply (head_clear_mw_weak d c cend w w' tail HS MW); [|exact HC].
  rewrite <- Q2, <- Q1. rewrite (gs_step_lift P d (x :: rest) St). cbn [fst snd]. rewrite <- app_assoc.
  intros y' Hy' U. apply in_app_or in Hy'. destruct Hy' as [Hy'|Hy'].
  - exists y'. split; [apply in_or_app; left; exact Hy'|auto].
  - destruct (gs_step_back P x rest y' St Hy' U) as (y & Hy & R). exists y. split; [apply in_or_app; right; exact Hy|exact R].
Qed.

Theorem gs_step_ok_gm P : step_ok icl iutb sideL inv_gm (gs_pass P).
Proof.
  apply (step_ok_strengthen icl iutb sideL sorted head_clear (gs_pass P) (gs_step_ok_sorted P)).
  intros L R d t Hne HS HC. rewrite gs_pass_step. destruct t as [|x rest]; [contradiction|]. apply gs_head_clear; assumption.
Qed.
