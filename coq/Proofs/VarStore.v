(* Lemmas about Model/VarStore.v: region scalars and store deltas. *)
From Coq Require Import ZArith List Bool Lia.
From TV Require Import Lib.GoNum Lib.Res Model.F32 Model.GvarScalar Model.VarStore Proofs.GvarScalar Proofs.HbFont.
Import ListNotations.
Open Scope Z_scope.

(* an axis record the OpenType rule does not ignore and that is not neutral *)
Definition active_axis (r : raxis) : Prop :=
  ra_peak r <> 0 /\ ra_start r <= ra_peak r <= ra_end r /\ ~ (ra_start r < 0 < ra_end r).

Lemma axis_eval_at_peak r : axis_eval r (ra_peak r) = f32_one.
Proof. unfold axis_eval. rewrite Z.eqb_refl, orb_true_r. reflexivity. Qed.

Lemma axis_eval_neutral r c : ra_peak r = 0 -> axis_eval r c = f32_one.
Proof. intros H. unfold axis_eval. rewrite H. reflexivity. Qed.

(* an invalid axis record is ignored (fix 53238c5) *)
Lemma axis_eval_invalid r c :
  ra_peak r < ra_start r \/ ra_end r < ra_peak r \/ (ra_start r < 0 < ra_end r) -> axis_eval r c = f32_one.
Proof.
  intros H. unfold axis_eval. destruct ((ra_peak r =? 0) || (c =? ra_peak r)); [reflexivity|].
  replace ((ra_peak r <? ra_start r) || (ra_end r <? ra_peak r) || ((ra_start r <? 0) && (0 <? ra_end r))) with true; [reflexivity|].
  symmetry. rewrite !orb_true_iff, andb_true_iff, !Z.ltb_lt. tauto.
Qed.

Lemma axis_eval_outside r c : active_axis r -> c <= ra_start r \/ ra_end r <= c -> c <> ra_peak r -> axis_eval r c = 0.
Proof.
  intros (Hp & Ho & Hn) Hc Hne. unfold axis_eval.
  replace ((ra_peak r =? 0) || (c =? ra_peak r)) with false
    by (symmetry; apply orb_false_iff; split; apply Z.eqb_neq; assumption).
  replace ((ra_peak r <? ra_start r) || (ra_end r <? ra_peak r) || ((ra_start r <? 0) && (0 <? ra_end r))) with false.
  2:{ symmetry. rewrite !orb_false_iff, andb_false_iff, !Z.ltb_ge. lia. }
  replace ((c <=? ra_start r) || (ra_end r <=? c)) with true; [reflexivity|].
  symmetry. rewrite orb_true_iff, !Z.leb_le. exact Hc.
Qed.

(* at the default position an active axis contributes 0 *)
Lemma axis_eval_default r : active_axis r -> axis_eval r 0 = 0.
Proof.
  intros H. pose proof H as (Hp & Ho & Hn). apply axis_eval_outside; [exact H | lia | lia].
Qed.

Lemma f32_mul_0_r' x : f32_mul x 0 = 0.
Proof. unfold f32_mul. rewrite Z.mul_0_r. reflexivity. Qed.
Lemma f32_mul_0_l' x : f32_mul 0 x = 0.
Proof. unfold f32_mul. rewrite Z.mul_0_l. reflexivity. Qed.

Lemma region_eval_from_zero ra : forall cs, region_eval_from ra cs 0 = 0.
Proof. induction ra as [|r tr IH]; intros cs; cbn [region_eval_from]; [reflexivity|]. rewrite f32_mul_0_l'. apply IH. Qed.

(* the region scalar is the product of the axis factors, missing coordinates being 0 *)
Lemma region_eval_is_fold ra : forall cs acc,
  region_eval_from ra cs acc = fold_left f32_mul (map (fun i => axis_eval (nth i ra (mkRA 0 0 0)) (nth i cs 0)) (seq 0 (length ra))) acc.
Proof.
  induction ra as [|r tr IH]; intros cs acc; [reflexivity|].
  cbn [region_eval_from length seq map fold_left nth]. rewrite IH. rewrite <- seq_shift, map_map.
  replace (hd 0 cs) with (nth 0 cs 0) by (destruct cs; reflexivity).
  f_equal. apply map_ext. intros i. destruct cs; cbn [tl nth]; [destruct i; reflexivity | reflexivity].
Qed.

Lemma region_eval_default ra : forall cs acc, Forall (fun c => c = 0) cs -> Exists active_axis ra -> region_eval_from ra cs acc = 0.
Proof.
  induction ra as [|r tr IH]; intros cs acc Hz He; [inversion He|].
  cbn [region_eval_from].
  assert (Hh : hd 0 cs = 0) by (destruct Hz; [reflexivity | assumption]).
  assert (Ht : Forall (fun c => c = 0) (tl cs)) by (destruct Hz; [constructor | assumption]).
  inversion He as [? ? Ha | ? ? Ha]; subst.
  - rewrite Hh, (axis_eval_default r Ha), f32_mul_0_r'. apply region_eval_from_zero.
  - apply IH; assumption.
Qed.

(* the delta of a store whose regions all have an active axis vanishes at the default position - with all coordinates
   0 or without coordinates at all (a face that never called SetCoords: fix e59fef9) *)
Lemma delta_loop_default regs set cs : Forall (fun c => c = 0) cs -> Forall (Exists active_axis) regs ->
  forall idx i, Forall (fun ri => 0 <= ri) idx -> delta_loop regs set cs idx i 0 = 0.
Proof.
  intros Hz Hr. induction idx as [|ri r IH]; intros i Hi; cbn [delta_loop]; [reflexivity|].
  inversion Hi as [|? ? Hri Hrest]; subst.
  destruct ((zlen regs <=? ri) || (zlen set <=? i)) eqn:E; [apply IH; assumption|].
  apply orb_false_iff in E. destruct E as [E1 _]. apply Z.leb_gt in E1.
  assert (Hx : Exists active_axis (znth [] regs ri)).
  { unfold znth. replace (ri <? 0) with false by (symmetry; apply Z.ltb_ge; lia).
    rewrite Forall_forall in Hr. apply Hr. apply nth_In. unfold zlen in E1. lia. }
  unfold region_eval. rewrite (region_eval_default _ cs f32_one Hz Hx), f32_mul_0_r'.
  change (f32_add 0 0) with 0. apply IH; assumption.
Qed.

Definition store_indices_ok (s : ivstore) : Prop :=
  Forall (fun d => Forall (fun ri => 0 <= ri) (ivd_regions d)) (ivs_datas s).

Lemma get_delta_default s o i cs :
  Forall (fun c => c = 0) cs -> Forall (Exists active_axis) (ivs_regions s) -> store_indices_ok s -> 0 <= o ->
  get_delta s o i cs = 0.
Proof.
  intros Hz Hr Hok Ho. unfold get_delta.
  destruct (zlen (ivs_datas s) <=? o) eqn:E; [reflexivity|]. apply Z.leb_gt in E.
  destruct (zlen (ivd_sets (znth ivd_empty (ivs_datas s) o)) <=? i); [reflexivity|].
  apply delta_loop_default; try assumption.
  unfold store_indices_ok in Hok. rewrite Forall_forall in Hok. apply Hok.
  unfold znth. replace (o <? 0) with false by (symmetry; apply Z.ltb_ge; lia). apply nth_In. unfold zlen in E. lia.
Qed.

(* ... hence the variable face at the default position reports the static advance *)
Lemma f32_add_int_0 b : Z.abs b < 2 ^ 24 -> f32_add (f32_of_int b) 0 = f32_of_int b.
Proof.
  intros Hb. unfold f32_add. rewrite Z.add_0_r.
  assert (E : f32_of_int b = b * 2 ^ 149) by (apply f32_of_int_exact, small_repr_ok; exact Hb).
  rewrite E. unfold f32_of_int in E. rewrite Z.shiftl_mul_pow2 in E by lia. exact E.
Qed.

Lemma h_advance_default base h gid cs n :
  Z.abs base < 2 ^ 24 -> Forall (fun c => c = 0) cs -> Forall (Exists active_axis) (ivs_regions (fst h)) ->
  store_indices_ok (fst h) -> 0 <= gid -> Forall (fun oi => 0 <= fst oi) (snd h) ->
  h_advance_var base h gid cs n = f32_of_int base.
Proof.
  intros Hb Hz Hr Hok Hg Hm. unfold h_advance_var. destruct (is_var cs n); [|reflexivity].
  unfold advance_delta. destruct (dsm_index (snd h) gid) as [o i] eqn:E.
  rewrite get_delta_default; try assumption; [apply f32_add_int_0; exact Hb|].
  unfold dsm_index in E. destruct (zlen (snd h) =? 0) eqn:Z0; [inversion E; lia|].
  rewrite Forall_forall in Hm.
  assert (In (o, i) (snd h)).
  { rewrite <- E. unfold znth. apply Z.eqb_neq in Z0. unfold zlen in *.
    destruct (Z.of_nat (length (snd h)) <=? gid) eqn:G.
    - replace (Z.of_nat (length (snd h)) - 1 <? 0) with false by (symmetry; apply Z.ltb_ge; lia). apply nth_In. lia.
    - apply Z.leb_gt in G. replace (gid <? 0) with false by (symmetry; apply Z.ltb_ge; lia). apply nth_In. lia. }
  apply (Hm (o, i) H).
Qed.
