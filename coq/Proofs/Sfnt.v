(* Proofs for C19: the writer model produces a file satisfying Spec.valid_sfnt; the reader model
   returns the tables of any file satisfying it; checksum = checksum_spec. *)
From TV Require Import Model.Sfnt Spec.Sfnt.
From Coq Require Import ZifyBool.
Ltac Zify.zify_post_hook ::= Z.div_mod_to_equations.

(* ---------- checksum ---------- *)

Lemma weight_add4 i : weight (i + 4) = weight i.
Proof. unfold weight. replace (i + 4) with (i + 1 * 4) by lia. rewrite Z.mod_add by lia. reflexivity. Qed.

Lemma wsum_add4 l : forall i, wsum l (i + 4) = wsum l i.
Proof.
  induction l as [|b r IH]; intros i; simpl; [reflexivity|].
  rewrite weight_add4. replace (i + 4 + 1) with (i + 1 + 4) by lia. rewrite IH. reflexivity.
Qed.

Lemma wsum_zeros k : forall i, wsum (repeat 0 k) i = 0.
Proof. induction k as [|k IH]; intros i; simpl; [reflexivity|]. rewrite IH. lia. Qed.

Lemma wsum_app l1 : forall l2 i, wsum (l1 ++ l2) i = wsum l1 i + wsum l2 (i + zlen l1).
Proof.
  induction l1 as [|b r IH]; intros l2 i; simpl.
  - rewrite zlen_nil. replace (i + 0) with i by lia. reflexivity.
  - rewrite IH, zlen_cons. replace (i + 1 + zlen r) with (i + (1 + zlen r)) by lia. lia.
Qed.

Lemma wsum_pad4 l : wsum (pad4 l) 0 = wsum l 0.
Proof. unfold pad4. rewrite wsum_app, wsum_zeros. lia. Qed.

Lemma list_ind4 {A} (P : list A -> Prop) :
  P [] -> (forall a, P [a]) -> (forall a b, P [a; b]) -> (forall a b c, P [a; b; c]) ->
  (forall a b c d r, P r -> P (a :: b :: c :: d :: r)) -> forall l, P l.
Proof.
  intros H0 H1 H2 H3 H4.
  fix IH 1. intros [|a [|b [|c [|d r]]]].
  - exact H0.
  - apply H1.
  - apply H2.
  - apply H3.
  - apply H4. apply IH.
Qed.

Lemma w0 : weight 0 = 16777216. Proof. reflexivity. Qed.
Lemma w1 : weight 1 = 65536. Proof. reflexivity. Qed.
Lemma w2 : weight 2 = 256. Proof. reflexivity. Qed.
Lemma w3 : weight 3 = 1. Proof. reflexivity. Qed.

Lemma checksum_go_spec l : forall sum, checksum_go l sum = (sum + wsum l 0) mod 4294967296 \/ (l = [] /\ checksum_go l sum = sum).
Proof.
  induction l as [| a | a b | a b c | a b c d r IH] using list_ind4; intros sum.
  - right; auto.
  - left. cbn [checksum_go wsum get32]. unfold wrap32. change (0 + 1) with 1. rewrite w0. f_equal. lia.
  - left. cbn [checksum_go wsum get32]. unfold wrap32. change (0 + 1) with 1. change (1 + 1) with 2. rewrite w0, w1. f_equal. lia.
  - left. cbn [checksum_go wsum get32]. unfold wrap32. change (0 + 1) with 1. change (1 + 1) with 2. change (2+1) with 3.
    rewrite w0, w1, w2. f_equal. lia.
  - left. cbn [checksum_go]. cbn [wsum]. change (0 + 1) with 1. change (1 + 1) with 2. change (2+1) with 3. change (3 + 1) with (0 + 4).
    rewrite wsum_add4, w0, w1, w2, w3.
    destruct (IH (wrap32 (sum + get32 [a; b; c; d]))) as [E | [E1 E2]].
    + rewrite E. unfold wrap32. cbn [get32]. rewrite Zplus_mod_idemp_l. f_equal. lia.
    + rewrite E2. subst r. cbn [wsum]. unfold wrap32. cbn [get32]. f_equal. lia.
Qed.

Lemma checksum_eq_spec l : checksum l = checksum_spec l.
Proof.
  unfold checksum, checksum_spec. rewrite wsum_pad4.
  destruct (checksum_go_spec l 0) as [E | [E1 E2]].
  - rewrite E. reflexivity.
  - rewrite E2. subst l. reflexivity.
Qed.

Lemma checksum_range l : 0 <= checksum_spec l < 4294967296.
Proof. unfold checksum_spec. apply Z.mod_pos_bound. lia. Qed.

(* ---------- slices of concatenations ---------- *)

Lemma slice_of_app P X S : slice_of (P ++ X ++ S) (zlen P) (zlen X) = X.
Proof. unfold slice_of. rewrite zskipn_app_exact, zfirstn_app_exact. reflexivity. Qed.

Lemma slice_of_app' P X S off len : zlen P = off -> zlen X = len -> slice_of (P ++ X ++ S) off len = X.
Proof. intros <- <-. apply slice_of_app. Qed.

Lemma list_Z_eqb_refl l : list_Z_eqb l l = true.
Proof. apply list_Z_eqb_eq. reflexivity. Qed.

(* ---------- well-formed inputs ---------- *)

Definition pairs_of (ts : list table) : list (Z * list Z) := map (fun t => (t_tag t, t_content t)) ts.
Definition total_len (ts : list table) : Z := fold_right (fun t acc => zlen (t_content t) + acc) 0 ts.

Definition wf_tables (ts : list table) : Prop :=
  Forall (fun t => 0 <= t_tag t < 4294967296) ts /\
  zlen ts < 4096 /\
  12 + 16 * zlen ts + total_len ts < 4294967296.

Lemma total_len_nonneg ts : 0 <= total_len ts.
Proof. induction ts as [|t r IH]; simpl; [lia|]. pose proof (zlen_nonneg (t_content t)). lia. Qed.

(* ---------- writer satisfies the specification ---------- *)

Lemma zlen_dir_entries ts : forall off, zlen (dir_entries ts off) = 16 * zlen ts.
Proof.
  induction ts as [|t r IH]; intros off; [reflexivity|].
  cbn [dir_entries]. rewrite !zlen_app, !zlen_put32, IH, zlen_cons. lia.
Qed.

Lemma entries_valid_write (Hd : list Z) (n : Z) :
  zlen Hd = 12 ->
  forall ts D1 B1 i,
    zlen D1 = 16 * i -> 0 <= i ->
    Forall (fun t => 0 <= t_tag t < 4294967296) ts ->
    12 + 16 * n + zlen B1 + total_len ts < 4294967296 -> 0 <= n ->
    zlen D1 + 16 * zlen ts = 16 * n ->
    entries_valid (Hd ++ (D1 ++ dir_entries ts (12 + 16 * n + zlen B1)) ++ (B1 ++ concat (map t_content ts)))
                  (pairs_of ts) i (12 + 16 * n + zlen B1) = true.
Proof.
  intros HH. induction ts as [|t r IH]; intros D1 B1 i HD1 Hi Htags Hsz Hn Hcnt.
  - cbn [pairs_of map entries_valid dir_entries concat]. rewrite !app_nil_r.
    apply Z.eqb_eq. rewrite !zlen_app. rewrite (@zlen_nil table) in Hcnt. lia.
  - inversion Htags as [|? ? Ht Hr]; subst.
    pose proof (zlen_nonneg (t_content t)) as Hc0. pose proof (total_len_nonneg r) as Hr0.
    pose proof (zlen_nonneg B1) as HB0.
    cbn [total_len fold_right] in Hsz. fold (total_len r) in Hsz.
    cbn [pairs_of map entries_valid dir_entries concat]. fold (pairs_of r).
    set (off := 12 + 16 * n + zlen B1) in *.
    set (len := zlen (t_content t)) in *.
    rewrite (wrap32_small len) by lia.
    rewrite (wrap32_small (off + len)) by lia.
    set (E := put32 (t_tag t) ++ put32 (checksum (t_content t)) ++ put32 off ++ put32 len).
    assert (HE : zlen E = 16) by reflexivity.
    (* the directory record *)
    assert (Hrec : slice_of (Hd ++ (D1 ++ put32 (t_tag t) ++ put32 (checksum (t_content t)) ++ put32 off ++ put32 len ++ dir_entries r (off + len))
                                 ++ B1 ++ t_content t ++ concat (map t_content r)) (12 + 16 * i) 16 = E).
    { replace (Hd ++ (D1 ++ put32 (t_tag t) ++ put32 (checksum (t_content t)) ++ put32 off ++ put32 len ++ dir_entries r (off + len))
                  ++ B1 ++ t_content t ++ concat (map t_content r))
        with ((Hd ++ D1) ++ E ++ (dir_entries r (off + len) ++ B1 ++ t_content t ++ concat (map t_content r))).
      - apply slice_of_app'; [rewrite zlen_app; lia | exact HE].
      - unfold E. rewrite <- !app_assoc. reflexivity. }
    rewrite Hrec.
    (* the body *)
    assert (Hbody : slice_of (Hd ++ (D1 ++ put32 (t_tag t) ++ put32 (checksum (t_content t)) ++ put32 off ++ put32 len ++ dir_entries r (off + len))
                                 ++ B1 ++ t_content t ++ concat (map t_content r)) off len = t_content t).
    { replace (Hd ++ (D1 ++ put32 (t_tag t) ++ put32 (checksum (t_content t)) ++ put32 off ++ put32 len ++ dir_entries r (off + len))
                  ++ B1 ++ t_content t ++ concat (map t_content r))
        with ((Hd ++ (D1 ++ E ++ dir_entries r (off + len)) ++ B1) ++ t_content t ++ concat (map t_content r)).
      - apply slice_of_app'; [|reflexivity].
        rewrite !zlen_app, zlen_dir_entries, HE. rewrite zlen_cons in Hcnt. unfold off. lia.
      - unfold E. rewrite <- !app_assoc. reflexivity. }
    rewrite Hbody.
    unfold E at 1 2 3 4 5.
    assert (G0 : get32 (put32 (t_tag t) ++ put32 (checksum (t_content t)) ++ put32 off ++ put32 len) = t_tag t)
      by (apply (get32_put32 (t_tag t)); lia).
    assert (G1 : get32 (skipn 4 (put32 (t_tag t) ++ put32 (checksum (t_content t)) ++ put32 off ++ put32 len)) = checksum_spec (t_content t)).
    { cbn [put32 app skipn]. rewrite <- checksum_eq_spec. apply (get32_put32 (checksum (t_content t))).
      rewrite checksum_eq_spec. apply checksum_range. }
    assert (G2 : get32 (skipn 8 (put32 (t_tag t) ++ put32 (checksum (t_content t)) ++ put32 off ++ put32 len)) = off).
    { cbn [put32 app skipn]. apply (get32_put32 off). unfold off. lia. }
    assert (G3 : get32 (skipn 12 (put32 (t_tag t) ++ put32 (checksum (t_content t)) ++ put32 off ++ put32 len)) = len).
    { cbn [put32 app skipn]. apply (get32_put32 len). lia. }
    rewrite G0, G1, G2, G3, !Z.eqb_refl, list_Z_eqb_refl. cbn [andb].
    change (zlen (put32 (t_tag t) ++ put32 (checksum (t_content t)) ++ put32 off ++ put32 len) =? 16) with true. cbn [andb].
    (* the remaining tables *)
    specialize (IH (D1 ++ E) (B1 ++ t_content t) (i + 1)).
    rewrite !zlen_app, HE in IH. fold len in IH.
    replace (12 + 16 * n + (zlen B1 + len)) with (off + len) in IH by (unfold off; lia).
    rewrite <- !app_assoc in IH. unfold E in IH. rewrite <- !app_assoc in IH.
    rewrite <- !app_assoc.
    apply IH; try lia; try assumption.
    rewrite zlen_cons in Hcnt. lia.
Qed.

Lemma log2_pow_le n : 1 <= n -> 2 ^ Z.log2 n <= n.
Proof. intros. apply Z.log2_spec. lia. Qed.

Lemma header_valid_write n S : 0 <= n < 4096 -> header_valid (write_header n ++ S) n = true.
Proof.
  intros Hn. unfold header_valid, write_header.
  assert (HL : 12 <=? zlen ((put32 65536 ++ put16 (wrap16 n) ++ put16 (wrap16 (header_search_range n)) ++
       put16 (wrap16 (header_log2 n)) ++ put16 (wrap16 (n * 16 - header_search_range n))) ++ S) = true).
  { apply Z.leb_le. rewrite zlen_app. pose proof (zlen_nonneg S).
    change (zlen (put32 65536 ++ put16 (wrap16 n) ++ put16 (wrap16 (header_search_range n)) ++
       put16 (wrap16 (header_log2 n)) ++ put16 (wrap16 (n * 16 - header_search_range n)))) with 12. lia. }
  rewrite HL. cbn [andb].
  assert (H0 : get32 ((put32 65536 ++ put16 (wrap16 n) ++ put16 (wrap16 (header_search_range n)) ++
       put16 (wrap16 (header_log2 n)) ++ put16 (wrap16 (n * 16 - header_search_range n))) ++ S) = 65536) by reflexivity.
  rewrite H0. cbn [Z.eqb Pos.eqb andb].
  assert (H1 : get16 (skipn 4 ((put32 65536 ++ put16 (wrap16 n) ++ put16 (wrap16 (header_search_range n)) ++
       put16 (wrap16 (header_log2 n)) ++ put16 (wrap16 (n * 16 - header_search_range n))) ++ S)) = n).
  { cbn [put32 put16 app skipn]. rewrite (wrap16_small n) by lia. apply (get16_put16 n). lia. }
  rewrite H1, Z.eqb_refl. cbn [andb].
  destruct (Z.eqb_spec n 0) as [E0 | N0]; [reflexivity|]. cbn [orb].
  assert (Hn1 : 1 <= n) by lia.
  pose proof (log2_pow_le n Hn1) as Hp.
  assert (Hlg : 0 <= Z.log2 n < 12).
  { split; [apply Z.log2_nonneg|]. apply Z.log2_lt_pow2; [lia|]. change (2 ^ 12) with 4096. lia. }
  assert (Hpp : 0 < 2 ^ Z.log2 n) by (apply Z.pow_pos_nonneg; lia).
  unfold header_search_range, header_log2. destruct (Z.leb_spec n 0) as [|_]; [lia|].
  assert (H2 : get16 (skipn 6 ((put32 65536 ++ put16 (wrap16 n) ++ put16 (wrap16 (2 ^ Z.log2 n * 16)) ++
       put16 (wrap16 (Z.log2 n)) ++ put16 (wrap16 (n * 16 - 2 ^ Z.log2 n * 16))) ++ S)) = 16 * 2 ^ Z.log2 n).
  { cbn [put32 put16 app skipn]. rewrite (wrap16_small (2 ^ Z.log2 n * 16)) by lia.
    replace (16 * 2 ^ Z.log2 n) with (2 ^ Z.log2 n * 16) by lia. apply (get16_put16 (2 ^ Z.log2 n * 16)). lia. }
  assert (H3 : get16 (skipn 8 ((put32 65536 ++ put16 (wrap16 n) ++ put16 (wrap16 (2 ^ Z.log2 n * 16)) ++
       put16 (wrap16 (Z.log2 n)) ++ put16 (wrap16 (n * 16 - 2 ^ Z.log2 n * 16))) ++ S)) = Z.log2 n).
  { cbn [put32 put16 app skipn]. rewrite (wrap16_small (Z.log2 n)) by lia. apply (get16_put16 (Z.log2 n)). lia. }
  assert (H4 : get16 (skipn 10 ((put32 65536 ++ put16 (wrap16 n) ++ put16 (wrap16 (2 ^ Z.log2 n * 16)) ++
       put16 (wrap16 (Z.log2 n)) ++ put16 (wrap16 (n * 16 - 2 ^ Z.log2 n * 16))) ++ S)) = 16 * n - 16 * 2 ^ Z.log2 n).
  { cbn [put32 put16 app skipn]. rewrite (wrap16_small (n * 16 - 2 ^ Z.log2 n * 16)) by lia.
    replace (16 * n - 16 * 2 ^ Z.log2 n) with (n * 16 - 2 ^ Z.log2 n * 16) by lia. apply (get16_put16 (n * 16 - 2 ^ Z.log2 n * 16)). lia. }
  rewrite H2, H3, H4, !Z.eqb_refl. reflexivity.
Qed.

Lemma write_valid_lemma ts : wf_tables ts -> valid_sfnt (write_ttf ts) (pairs_of ts) = true.
Proof.
  intros (Htags & Hn & Hsz).
  pose proof (zlen_nonneg ts) as Hn0.
  unfold valid_sfnt, write_ttf.
  assert (Hl : zlen (pairs_of ts) = zlen ts) by (unfold pairs_of, zlen; rewrite map_length; reflexivity).
  rewrite Hl. rewrite header_valid_write by lia. cbn [andb].
  unfold intro_len. rewrite wrap32_small by lia.
  pose proof (entries_valid_write (write_header (zlen ts)) (zlen ts) eq_refl ts [] [] 0) as H.
  rewrite zlen_nil in H. cbn [app] in H.
  replace (12 + 16 * zlen ts + 0) with (12 + zlen ts * 16) in H by lia.
  replace (12 + 16 * zlen ts) with (12 + zlen ts * 16) by lia.
  apply H; try lia; assumption.
Qed.

(* ---------- the reader on any file satisfying the specification ---------- *)

Definition entry_of (off : Z) (p : Z * list Z) : Z * section := (fst p, mkSection off (zlen (snd p))).
Fixpoint sections_of (ps : list (Z * list Z)) (off : Z) : list (Z * section) :=
  match ps with
  | [] => []
  | p :: r => entry_of off p :: sections_of r (off + zlen (snd p))
  end.

Lemma zlen_slice_full file off len : 0 <= off -> 0 < len -> zlen (slice_of file off len) = len -> off + len <= zlen file.
Proof.
  unfold slice_of, zfirstn, zskipn, zlen. intros Ho Hl H.
  rewrite firstn_length, skipn_length in H. lia.
Qed.

Lemma has_tag_app tag acc x : has_tag tag (acc ++ [x]) = has_tag tag acc || (fst x =? tag).
Proof. unfold has_tag. rewrite existsb_app. cbn [existsb]. rewrite orb_false_r. reflexivity. Qed.

Lemma has_tag_false_iff tag acc : has_tag tag acc = false <-> ~ In tag (map fst acc).
Proof.
  unfold has_tag. induction acc as [|x r IH]; cbn [existsb map In]; [tauto|].
  rewrite orb_false_iff, IH, Z.eqb_neq. tauto.
Qed.

Lemma read_entries_valid file :
  forall ps i off acc,
    0 <= i -> 0 <= off ->
    entries_valid file ps i off = true ->
    NoDup (map fst ps) ->
    (forall p, In p ps -> ~ In (fst p) (map fst acc)) ->
    read_entries file (12 + 16 * i) (length ps) 0 false acc = Ok (acc ++ sections_of ps off).
Proof.
  induction ps as [|[tag content] r IH]; intros i off acc Hi Ho Hv Hnd Hacc.
  - cbn. rewrite app_nil_r. reflexivity.
  - cbn [entries_valid] in Hv. repeat (apply andb_true_iff in Hv as [Hv ?]).
    match goal with H : entries_valid _ _ _ _ = true |- _ => rename H into Hrest end.
    repeat match goal with H : (_ =? _) = true |- _ => apply Z.eqb_eq in H end.
    match goal with H : list_Z_eqb _ _ = true |- _ => apply list_Z_eqb_eq in H; rename H into Hbody end.
    cbn [length read_entries]. unfold read_full.
    assert (Hlen : 12 + 16 * i + 16 <= zlen file) by (apply zlen_slice_full; lia).
    destruct (Z.ltb_spec (zlen file) (12 + 16 * i + 16)) as [|_]; [lia|].
    cbn [bind]. fold (slice_of file (12 + 16 * i) 16).
    set (e := slice_of file (12 + 16 * i) 16) in *.
    assert (Htag : get32 e = tag) by assumption.
    rewrite Htag.
    assert (Hnot : has_tag tag acc = false).
    { apply has_tag_false_iff. apply (Hacc (tag, content)). left; reflexivity. }
    rewrite Hnot.
    match goal with H : get32 (skipn 8 e) = _ |- _ => rewrite H end.
    match goal with H : get32 (skipn 12 e) = _ |- _ => rewrite H end.
    replace (12 + 16 * i + 16) with (12 + 16 * (i + 1)) by lia.
    rewrite (IH (i + 1) (off + zlen content)).
    + cbn [sections_of entry_of fst snd]. rewrite <- app_assoc. reflexivity.
    + lia.
    + pose proof (zlen_nonneg content). lia.
    + exact Hrest.
    + inversion Hnd; assumption.
    + intros p Hp. rewrite map_app, in_app_iff. cbn [map fst In].
      intros [Hin | [Heq | []]].
      * apply (Hacc p); [right; exact Hp | exact Hin].
      * inversion Hnd as [|? ? Hni _]; subst. apply Hni. rewrite Heq. apply in_map. exact Hp.
Qed.

Lemma raw_table_valid file :
  forall ps i off tag content,
    0 <= off ->
    entries_valid file ps i off = true ->
    NoDup (map fst ps) -> In (tag, content) ps ->
    exists o, find_section tag (sections_of ps off) = Some (mkSection o (zlen content))
              /\ 0 <= o /\ slice_of file o (zlen content) = content.
Proof.
  induction ps as [|[tg ct] r IH]; intros i off tag content Ho Hv Hnd Hin; [destruct Hin|].
  cbn [entries_valid] in Hv. repeat (apply andb_true_iff in Hv as [Hv ?]).
  match goal with H : entries_valid _ _ _ _ = true |- _ => rename H into Hrest end.
  match goal with H : list_Z_eqb _ _ = true |- _ => apply list_Z_eqb_eq in H; rename H into Hbody end.
  cbn [sections_of entry_of fst snd find_section].
  destruct Hin as [Heq | Hin].
  - inversion Heq; subst. rewrite Z.eqb_refl. exists off. auto.
  - inversion Hnd as [|? ? Hni Hnd']; subst.
    destruct (Z.eqb_spec tg tag) as [E|NE].
    + exfalso. apply Hni. subst. change tag with (fst (tag, content)). apply in_map. exact Hin.
    + apply (IH (i + 1) (off + zlen ct)); try assumption. pose proof (zlen_nonneg ct). lia.
Qed.

Lemma map_fst_sections ps : forall off, map fst (sections_of ps off) = map fst ps.
Proof. induction ps as [|p r IH]; intros off; cbn; [reflexivity|]. rewrite IH. reflexivity. Qed.

Fixpoint ssorted (l : list Z) : Prop :=
  match l with
  | a :: ((b :: _) as r) => a < b /\ ssorted r
  | _ => True
  end.

Lemma ssorted_lb a l : ssorted (a :: l) -> forall x, In x l -> a < x.
Proof.
  revert a. induction l as [|b r IH]; intros a H x Hx; [destruct Hx|].
  destruct H as [Hab Hr]. destruct Hx as [<- | Hx]; [exact Hab|].
  specialize (IH b Hr x Hx). lia.
Qed.

Lemma ssorted_NoDup l : ssorted l -> NoDup l.
Proof.
  induction l as [|a r IH]; intros H; constructor.
  - intros Hin. pose proof (ssorted_lb a r H a Hin). lia.
  - apply IH. destruct r; [exact I|]. destruct H; assumption.
Qed.

Lemma sort_sorted l : ssorted l -> sort_tags l = l.
Proof.
  induction l as [|a r IH]; intros H; [reflexivity|].
  cbn [sort_tags fold_right]. fold (sort_tags r).
  rewrite IH by (destruct r; [exact I | destruct H; assumption]).
  destruct r as [|b r']; [reflexivity|]. cbn [insert_sorted].
  destruct H as [Hab _]. destruct (Z.leb_spec a b); [reflexivity | lia].
Qed.

Lemma list12 {A} (l : list A) : 12 <= zlen l ->
  exists a0 a1 a2 a3 a4 a5 a6 a7 a8 a9 a10 a11 r, l = a0::a1::a2::a3::a4::a5::a6::a7::a8::a9::a10::a11::r.
Proof.
  unfold zlen. intros H.
  do 12 (destruct l as [|? l]; [cbn in H; lia|]).
  repeat eexists.
Qed.

Lemma reader_on_valid file ps :
  valid_sfnt file ps = true ->
  ssorted (map fst ps) ->
  zlen ps < 65536 ->
  exists ld, new_loader file = Ok ld
             /\ ld_type ld = 65536
             /\ loader_tables ld = map fst ps
             /\ forall tag content, In (tag, content) ps -> raw_table file ld tag = Ok content.
Proof.
  intros Hv Hs Hn.
  unfold valid_sfnt in Hv. apply andb_true_iff in Hv as [Hh He].
  unfold header_valid in Hh.
  apply andb_true_iff in Hh as [Hh _]. apply andb_true_iff in Hh as [Hh Hnum].
  apply andb_true_iff in Hh as [Hl Hmagic].
  apply Z.leb_le in Hl. apply Z.eqb_eq in Hmagic. apply Z.eqb_eq in Hnum.
  destruct (list12 file Hl) as (a0&a1&a2&a3&a4&a5&a6&a7&a8&a9&a10&a11&rest&Hfile).
  pose proof (zlen_nonneg ps) as Hps0.
  assert (Hnd : NoDup (map fst ps)) by (apply ssorted_NoDup; exact Hs).
  pose proof (read_entries_valid file ps 0 (12 + 16 * zlen ps) [] ltac:(lia) ltac:(lia) He Hnd (fun p _ H => H)) as Hre.
  unfold new_loader, parse_one_font, read_partial.
  destruct (Z.leb_spec (zlen file) 0) as [|_]; [lia|].
  cbn [bind].
  assert (Hm : get32 (zfirstn 4 (zskipn 0 file) ++ repeat 0 (Z.to_nat (4 - zlen (zfirstn 4 (zskipn 0 file))))) = 65536).
  { rewrite Hfile. rewrite Hfile in Hmagic. cbn in Hmagic |- *. exact Hmagic. }
  rewrite Hm. cbn [Z.eqb Pos.eqb tag_truetype orb].
  unfold parse_otf, read_partial.
  destruct (Z.leb_spec (zlen file) 0) as [|_]; [lia|].
  cbn [bind].
  assert (Hfl : get32 (zfirstn 12 (zskipn 0 file) ++ repeat 0 (Z.to_nat (12 - zlen (zfirstn 12 (zskipn 0 file))))) = 65536).
  { rewrite Hfile. rewrite Hfile in Hmagic. cbn in Hmagic |- *. exact Hmagic. }
  assert (Hnm : get16 (skipn 4 (zfirstn 12 (zskipn 0 file) ++ repeat 0 (Z.to_nat (12 - zlen (zfirstn 12 (zskipn 0 file)))))) = zlen ps).
  { rewrite Hfile. rewrite Hfile in Hnum. cbn in Hnum |- *. exact Hnum. }
  rewrite Hnm, Hfl.
  replace (Z.min (zlen file) (0 + 12)) with (12 + 16 * 0) by lia.
  replace (Z.to_nat (zlen ps)) with (length ps) by (unfold zlen; lia).
  rewrite Hre. cbn [bind app].
  eexists. split; [reflexivity|]. split; [reflexivity|]. split.
  - unfold loader_tables. cbn [ld_tables]. rewrite map_fst_sections. apply sort_sorted. exact Hs.
  - intros tag content Hin.
    destruct (raw_table_valid file ps 0 (12 + 16 * zlen ps) tag content ltac:(lia) He Hnd Hin) as (o & Hf & Ho & Hsl).
    unfold raw_table. cbn [ld_tables]. rewrite Hf. cbn [sec_len sec_off].
    pose proof (zlen_nonneg content) as Hc0.
    destruct (Z.eqb_spec (zlen content) 0) as [E|NE].
    + destruct content; [reflexivity|]. rewrite zlen_cons in E. pose proof (zlen_nonneg content). lia.
    + assert (Hfull : o + zlen content <= zlen file).
      { apply zlen_slice_full; try lia. rewrite Hsl. reflexivity. }
      destruct (Z.leb_spec (zlen file) o) as [|_]; [lia|].
      unfold read_full. destruct (Z.ltb_spec (zlen file) (o + zlen content)) as [|_]; [lia|].
      f_equal. exact Hsl.
Qed.

(* ---------- round trip ---------- *)

Lemma roundtrip_lemma ts :
  wf_tables ts -> ssorted (map t_tag ts) ->
  exists ld, new_loader (write_ttf ts) = Ok ld
             /\ ld_type ld = 65536
             /\ loader_tables ld = map t_tag ts
             /\ forall t, In t ts -> raw_table (write_ttf ts) ld (t_tag t) = Ok (t_content t).
Proof.
  intros Hwf Hs.
  assert (Hm : map fst (pairs_of ts) = map t_tag ts) by (unfold pairs_of; rewrite map_map; reflexivity).
  destruct (reader_on_valid (write_ttf ts) (pairs_of ts)) as (ld & H1 & H2 & H3 & H4).
  - apply write_valid_lemma; exact Hwf.
  - rewrite Hm; exact Hs.
  - destruct Hwf as (_ & Hn & _). unfold pairs_of, zlen in *. rewrite map_length. lia.
  - exists ld. repeat split; try assumption.
    + rewrite H3, Hm. reflexivity.
    + intros t Hin. apply H4. unfold pairs_of. apply (in_map (fun t => (t_tag t, t_content t))) in Hin. exact Hin.
Qed.

(* writing leaves the callers' backing arrays (spare capacity included) untouched *)
Lemma write_mem_preserves ts : snd (write_ttf_mem ts) = map snd ts.
Proof. reflexivity. Qed.
