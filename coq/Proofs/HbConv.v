(* The conversion part of shaping.Shape (Model/ShapeConv.v) with harfbuzz.Font.ExtentsForDirection instantiated by the
   model of harfbuzz/fonts.go (Model/HbFont.v): LineBounds end-to-end (C12). *)
From Coq Require Import ZArith List Bool Lia.
From TV Require Import Lib.GoNum Lib.Res Model.Output Model.ShapeConv Spec.ShapeConv Proofs.ShapeConv.
From TV Require Import Model.F32 Model.HbFont Spec.HbFont Proofs.HbFont.
Import ListNotations.
Open Scope Z_scope.

(* a float32 counted in units of 2^-149 as the dyadic m * 2^e of Model/ShapeConv.v *)
Definition to_f (x : Z) : ShapeConv.f32 := mkF x (- 149).
Definition to_fe (e : fext3) : fextents := mkFE (to_f (x_asc e)) (to_f (x_desc e)) (to_f (x_gap e)).

(* harfbuzz.Font.ExtentsForDirection of the font Shape configures: NewFont(face), XScale = YScale = scale *)
Definition hb_fext (fc : face) (upem : Z) (scale hbdir : Z) : fextents :=
  to_fe (extents_for_direction fc (set_scale (new_font upem) scale) hbdir).

Lemma f_trunc_int r : f_trunc (to_f (r * 2 ^ 149)) = r.
Proof. unfold f_trunc, to_f. cbn [f_e f_m]. cbn [Z.leb Z.compare Z.opp]. apply Z.quot_mul. discriminate. Qed.

Lemma hb_horizontal_dir dir : hb_is_horizontal (harfbuzz_dir dir) = negb (is_vertical dir).
Proof. unfold harfbuzz_dir. destruct (toward dir), (is_vertical dir); reflexivity. Qed.

Lemma conv_line_scaled_lemma eng ext fc upem size dir rs re a d g :
  let r := shape_conv eng ext (hb_fext fc upem) size dir rs re in
  let s := font_scale size in
  (if is_vertical dir then fc_vext fc else fc_hext fc) = (mkF3 (a * 2 ^ 149) (d * 2 ^ 149) (g * 2 ^ 149), true) ->
  scale_exact a s upem = true -> scale_exact d s upem = true -> scale_exact g s upem = true ->
  Z.abs (scale_spec a s upem) < 2 ^ 24 -> Z.abs (scale_spec d s upem) < 2 ^ 24 -> Z.abs (scale_spec g s upem) < 2 ^ 24 ->
  co_line r = mkBounds (scale_spec a s upem) (scale_spec d s upem) (scale_spec g s upem)
  /\ co_scale r = s.
Proof.
  cbv zeta. intros HF Ea Ed Eg Ba Bd Bg.
  pose proof (conv_line_lemma eng ext (hb_fext fc upem) size dir rs re) as [A _]. cbv zeta in A.
  pose proof (conv_asks eng ext (hb_fext fc upem) size dir rs re) as [S _].
  split; [|exact S]. rewrite A, S. unfold hb_fext.
  destruct (same_scale_lemma fc upem (font_scale size) 0) as [_ [_ [_ [_ [_ [_ [_ [_ X]]]]]]]].
  rewrite (X (harfbuzz_dir dir) (mkF3 (a * 2 ^ 149) (d * 2 ^ 149) (g * 2 ^ 149))).
  2:{ rewrite hb_horizontal_dir. destruct (is_vertical dir); exact HF. }
  cbn [x_asc x_desc x_gap]. rewrite !scale_spec_fits by assumption.
  unfold to_fe, line_of. cbn [x_asc x_desc x_gap fe_asc fe_desc fe_gap]. rewrite !f_trunc_int.
  rewrite !fix_conv_exact by lia. reflexivity.
Qed.
