(* C15: cross-check of Spec/Css.v (min/max formulation) against the order-of-trial formulation. *)
From TV Require Import Model.Match Spec.Css Proofs.Match.

Lemma below_spec q S :
  match set_max (below q S) with
  | Some m => In m S /\ m < q /\ forall x, In x S -> x < q -> x <= m
  | None => forall x, In x S -> ~ x < q
  end.
Proof.
  pose proof (set_max_char (below q S)) as C. destruct (set_max (below q S)) as [m|].
  - destruct C as [Hin Hall]. apply in_below in Hin. rewrite Forall_forall in Hall.
    repeat split; try tauto. intros x Hx Hf. apply Hall. apply in_below. tauto.
  - intros x Hx Hf. assert (In x (below q S)) as X by (apply in_below; tauto). rewrite C in X. destruct X.
Qed.
Lemma above_spec q S :
  match set_min (above q S) with
  | Some m => In m S /\ q < m /\ forall x, In x S -> q < x -> m <= x
  | None => forall x, In x S -> ~ q < x
  end.
Proof.
  pose proof (set_min_char (above q S)) as C. destruct (set_min (above q S)) as [m|].
  - destruct C as [Hin Hall]. apply in_above in Hin. rewrite Forall_forall in Hall.
    repeat split; try tauto. intros x Hx Hf. apply Hall. apply in_above. tauto.
  - intros x Hx Hf. assert (In x (above q S)) as X by (apply in_above; tauto). rewrite C in X. destruct X.
Qed.
Lemma mid_spec q c S :
  match set_min (filter (fun x => (q <? x) && (x <=? c)) S) with
  | Some m => In m S /\ q < m /\ m <= c /\ forall x, In x S -> q < x -> x <= c -> m <= x
  | None => forall x, In x S -> ~ (q < x /\ x <= c)
  end.
Proof.
  assert (F : forall x, In x (filter (fun x => (q <? x) && (x <=? c)) S) <-> In x S /\ q < x /\ x <= c).
  { intros x. rewrite filter_In, andb_true_iff, Z.ltb_lt, Z.leb_le. tauto. }
  pose proof (set_min_char (filter (fun x => (q <? x) && (x <=? c)) S)) as C.
  destruct (set_min (filter (fun x => (q <? x) && (x <=? c)) S)) as [m|].
  - destruct C as [Hin Hall]. apply F in Hin. rewrite Forall_forall in Hall.
    repeat split; try tauto. intros x Hx H1 H2. apply Hall. apply F. tauto.
  - intros x Hx Hf. assert (In x (filter (fun x => (q <? x) && (x <=? c)) S)) as X by (apply F; tauto).
    rewrite C in X. destruct X.
Qed.

Ltac brk :=
  repeat match goal with
         | |- context [?a =? ?b] => destruct (Z.eqb_spec a b)
         | |- context [?a <? ?b] => destruct (Z.ltb_spec a b)
         | |- context [?a <=? ?b] => destruct (Z.leb_spec a b)
         end; cbn [fst snd andb orb].
Ltac use_facts S x Hx :=
  repeat match goal with H : _ /\ _ |- _ => destruct H end;
  repeat match goal with H : forall y, In y S -> _ |- _ => specialize (H x Hx) end.

Lemma css_stretch_first S q v :
  css_stretch S q = Some v ->
  In v S /\ forall x, In x S -> lex_le (stretch_rank q v) (stretch_rank q x).
Proof.
  unfold css_stretch. destruct (mem q S) eqn:Em.
  - intros E. inversion E; subst v. split; [apply mem_In; assumption|].
    intros x Hx. unfold lex_le, stretch_rank. brk; lia.
  - assert (Hneq : forall x, In x S -> x <> q).
    { intros x Hx ->. apply mem_In in Hx. congruence. }
    pose proof (below_spec q S) as HB. pose proof (above_spec q S) as HA.
    unfold lex_le, stretch_rank.
    destruct (set_max (below q S)) as [b|]; destruct (set_min (above q S)) as [a|];
      destruct (Z.leb_spec q css_stretch_normal); cbn [orelse]; intros E; inversion E; subst v;
      (split; [tauto|]); intros x Hx; use_facts S x Hx; brk; lia.
Qed.

Lemma css_weight_first W q v :
  css_weight W q = Some v ->
  In v W /\ forall x, In x W -> lex_le (weight_rank q v) (weight_rank q x).
Proof.
  unfold css_weight. destruct (mem q W) eqn:Em.
  - intros E. inversion E; subst v. split; [apply mem_In; assumption|].
    intros x Hx. unfold lex_le, weight_rank. brk; lia.
  - assert (Hneq : forall x, In x W -> x <> q).
    { intros x Hx ->. apply mem_In in Hx. congruence. }
    pose proof (below_spec q W) as HB. pose proof (above_spec q W) as HA.
    pose proof (above_spec css_w500 W) as HA5. pose proof (mid_spec q css_w500 W) as HM.
    unfold lex_le, weight_rank.
    destruct (Z.leb_spec css_w400 q) as [E4|E4]; [destruct (Z.leb_spec q css_w500) as [E5|E5]|]; cbn [andb].
    + clear HA.
      destruct (set_min (filter (fun x => (q <? x) && (x <=? css_w500)) W)) as [m|];
        destruct (set_max (below q W)) as [b|]; destruct (set_min (above css_w500 W)) as [a|];
        cbn [orelse]; intros E; inversion E; subst v;
        (split; [tauto|]); intros x Hx; use_facts W x Hx; brk; lia.
    + clear HM HA5. destruct (Z.ltb_spec q css_w400); [unfold css_w400, css_w500 in *; lia|].
      destruct (set_max (below q W)) as [b|]; destruct (set_min (above q W)) as [a|];
        cbn [orelse]; intros E; inversion E; subst v;
        (split; [tauto|]); intros x Hx; use_facts W x Hx; brk; lia.
    + clear HM HA5. destruct (Z.ltb_spec q css_w400); [|lia].
      destruct (set_max (below q W)) as [b|]; destruct (set_min (above q W)) as [a|];
        cbn [orelse]; intros E; inversion E; subst v;
        (split; [tauto|]); intros x Hx; use_facts W x Hx; brk; lia.
Qed.
