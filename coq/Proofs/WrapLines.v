(* Multi-call invariants of the line wrapper (C02 lines_contiguous): the breaker's ordering facts, the strengthened
   processBreakOption lemma (a non-rejected candidate is non-empty and ends exactly one past its option), the two loops
   of wrapNextLine, postProcessLine, and the re-establishment of the line invariant for the next WrapNextLine call. *)
From TV Require Import Model.Wrap Spec.Wrap Proofs.Wrap.


(* ---- the breaker -------------------------------------------------------------------------------- *)

Definition b2z (b : bool) : Z := if b then 1 else 0.

(* bounds and ordering of the breaker's registers, for a paragraph of n >= 1 runes *)
Definition Bk (n : Z) (b : breaker) : Prop :=
  b_n b = n /\ 0 <= b_wpos b /\ 0 <= b_gpos b
  /\ 0 <= fst (b_prevW b) <= fst (b_unusedW b) /\ fst (b_unusedW b) <= b_wpos b /\ fst (b_unusedW b) < n
  /\ 0 <= fst (b_unusedG b) <= b_gpos b /\ fst (b_unusedG b) < n
  /\ (fst (b_prevW b) < n - 1 \/ fst (b_prevW b) <= 0)
  /\ (fst (b_unusedW b) < b_wpos b \/ b_wpos b = 0)
  /\ (b2z (b_isUnusedW b) = 0 \/ (fst (b_unusedW b) = b_wpos b - 1 /\ b_wpos b <= n))
  /\ (b2z (b_isUnusedG b) = 0 \/ (fst (b_unusedG b) = b_gpos b - 1 /\ b_gpos b <= n)).

Lemma Bk_new : forall attrs, 1 <= zlen attrs - 1 -> Bk (zlen attrs - 1) (new_breaker attrs).
Proof. intros. unfold Bk, new_breaker; cbn. lia. Qed.

(* what the termination measures count: unread positions of an iterator + its "unused" flag *)
Definition wmeas (n : Z) (b : breaker) : Z := Z.max 0 (n + 1 - b_wpos b) + b2z (b_isUnusedW b).
Definition gmeas (n : Z) (b : breaker) : Z := Z.max 0 (n + 1 - b_gpos b) + b2z (b_isUnusedG b).

(* the last grapheme option (n-1) has not been handed out yet *)
Definition PendG (n : Z) (b : breaker) : Prop :=
  b_gpos b < n \/ (b2z (b_isUnusedG b) = 1 /\ fst (b_unusedG b) = n - 1).
(* the last line-break option (n-1) has not been handed out yet *)
Definition PendW (n : Z) (b : breaker) : Prop :=
  b_wpos b < n \/ (b2z (b_isUnusedW b) = 1 /\ fst (b_unusedW b) = n - 1).

Definition same_g (b b' : breaker) : Prop :=
  b_gpos b' = b_gpos b /\ b_unusedG b' = b_unusedG b /\ b_isUnusedG b' = b_isUnusedG b /\ b_attrs b' = b_attrs b.
Definition same_w (b b' : breaker) : Prop :=
  b_wpos b' = b_wpos b /\ b_unusedW b' = b_unusedW b /\ b_prevW b' = b_prevW b /\ b_isUnusedW b' = b_isUnusedW b
  /\ b_attrs b' = b_attrs b.

Lemma iter_next_false : forall attrs n flag pos p, iter_next attrs n flag pos = (p, false) ->
  p = Z.max (pos + 1) (n + 1) /\ forall r, pos < r <= n -> 0 <= pos -> has_flag (znth 0 attrs r) flag = false.
Proof.
  intros attrs n flag pos p H. unfold iter_next in H.
  destruct (scan_flag flag (zskipn (pos + 1) (zfirstn (n + 1) attrs)) (pos + 1)) eqn:S; inversion H. split; [reflexivity|].
  intros r Hr Hpos.
  assert (G : forall l q, scan_flag flag l q = None -> forall i, 0 <= i < zlen l -> has_flag (znth 0 l i) flag = false).
  { clear. induction l as [|a l IH]; intros q H i Hi; [unfold zlen in Hi; cbn in Hi; lia|].
    cbn [scan_flag] in H. destruct (has_flag a flag) eqn:A; [discriminate|].
    destruct (Z.eq_dec i 0) as [->|Hne]; [exact A|].
    rewrite znth_cons_S by lia. apply (IH _ H). rewrite zlen_cons in Hi. lia. }
  destruct (Z_lt_le_dec r (zlen attrs)) as [Hlt|Hge].
  - specialize (G _ _ S (r - (pos + 1))).
    rewrite znth_zskipn in G by lia. replace (pos + 1 + (r - (pos + 1))) with r in G by lia.
    rewrite znth_zfirstn in G by lia. apply G.
    unfold zlen, zskipn, zfirstn in *. rewrite skipn_length, firstn_length. lia.
  - rewrite znth_default by lia. reflexivity.
Qed.

(* nextWordBreak: the flag is clear afterwards; a returned option is the new unusedWordBreak; after a raw read the
   previous option is the old unusedWordBreak *)
Lemma nwb_spec : forall n b b' ro,
  Bk n b -> next_word_break b = (b', ro) ->
  Bk n b' /\ same_g b b' /\ b_isUnusedW b' = false /\ fst (b_unusedW b) <= fst (b_unusedW b')
  /\ match ro with
     | Some o => o = b_unusedW b' /\ 0 <= fst o < n /\ wmeas n b' + 1 <= wmeas n b
                 /\ fst o = b_wpos b' - 1 /\ b_wpos b' <= n
                 /\ (b_isUnusedW b = false -> b_prevW b' = b_unusedW b)
                 /\ (b_isUnusedW b = true -> b_wpos b' = b_wpos b)
     | None => b_isUnusedW b = false /\ n + 1 <= b_wpos b' /\ b_unusedW b' = b_unusedW b /\ b_prevW b' = b_prevW b
               /\ (forall r, b_wpos b < r <= n -> line_boundary (b_attrs b) r = false)
     end.
Proof.
  intros n b b' ro (Hn & Hw & Hg & Hp & Hu & Hun & Hug & Hugn & Hst & Hw3 & Hfw & Hfg) H. unfold next_word_break in H.
  destruct (b_isUnusedW b) eqn:F.
  - inversion H; subst; clear H. unfold Bk, same_g, wmeas; cbn. rewrite F. cbn in *. repeat split; try lia; try discriminate; auto.
  - unfold next_word_raw in H. destruct (iter_next (b_attrs b) (b_n b) fl_line (b_wpos b)) as [p ok] eqn:E.
    destruct ok.
    + apply iter_next_spec in E; [|exact Hw]. destruct E as (E1 & E2 & E3).
      inversion H; subst; clear H. unfold Bk, same_g, wmeas; cbn. rewrite F. cbn in *.
      repeat split; try lia; try discriminate; auto.
    + apply iter_next_false in E. destruct E as [E E'].
      inversion H; subst; clear H. unfold Bk, same_g; cbn. rewrite ?F. cbn in *. repeat split; try lia; auto.
      intros r Hr. unfold line_boundary, attr_at. apply E'; lia.
Qed.

(* nextGraphemeBreak: a returned option is the new unusedGraphemeBreak, lies above previousWordBreak (unless that is
   0) and at or below unusedWordBreak; the registers of the line iterator are untouched; when the text end carries the
   grapheme flag, the last grapheme option stays pending until it is handed out *)
Lemma ngb_spec : forall n fuel b b' ro,
  Bk n b -> next_grapheme_break fuel b = Ok (b', ro) ->
  Bk n b' /\ same_w b b' /\ fst (b_unusedG b) <= fst (b_unusedG b')
  /\ match ro with
     | Some o => o = b_unusedG b' /\ b_isUnusedG b' = false /\ 0 <= fst o < n
                 /\ (fst (b_prevW b) < fst o \/ fst (b_prevW b) <= 0) /\ fst o <= fst (b_unusedW b)
                 /\ gmeas n b' + 1 <= gmeas n b /\ fst o = b_gpos b' - 1 /\ b_gpos b' <= n
     | None => gmeas n b' <= gmeas n b
     end
  /\ (grapheme_boundary (b_attrs b) n = true -> PendG n b ->
      match ro with
      | Some o => fst o < n - 1 -> PendG n b'
      | None => PendG n b' /\ b2z (b_isUnusedG b') = 1 /\ fst (b_unusedW b) < fst (b_unusedG b')
      end).
Proof.
  intros n. induction fuel as [|fuel IH]; intros b b' ro HB H; cbn [next_grapheme_break] in H; [discriminate|].
  pose proof HB as (Hn & Hw & Hg & Hp & Hu & Hun & Hug & Hugn & Hst & Hw3 & Hfw & Hfg).
  (* one read: from the flag or raw *)
  set (rd := if b_isUnusedG b then (set_unusedG b (b_unusedG b) false, Some (b_unusedG b)) else next_grapheme_raw b) in H.
  assert (R : exists b1 r, rd = (b1, r) /\ same_w b b1 /\ b_n b1 = n /\ 0 <= b_gpos b1 /\ b_gpos b <= b_gpos b1
              /\ b_isUnusedG b1 = false /\ b_unusedG b1 = b_unusedG b
              /\ match r with
                 | Some o => fst (b_unusedG b) <= fst o /\ 0 <= fst o < n /\ fst o = b_gpos b1 - 1 /\ b_gpos b1 <= n
                             /\ gmeas n b1 + 1 <= gmeas n b
                 | None => gmeas n b1 <= gmeas n b /\ b_isUnusedG b = false
                           /\ (forall r, b_gpos b < r <= n -> grapheme_boundary (b_attrs b) r = false)
                 end).
  { unfold rd. destruct (b_isUnusedG b) eqn:F.
    - eexists _, _. split; [reflexivity|]. unfold same_w, gmeas; cbn. rewrite F. cbn in *. repeat split; try lia; auto.
    - unfold next_grapheme_raw. destruct (iter_next (b_attrs b) (b_n b) fl_grapheme (b_gpos b)) as [p ok] eqn:E. destruct ok.
      + apply iter_next_spec in E; [|exact Hg]. destruct E as (E1 & E2 & E3).
        eexists _, _. split; [reflexivity|]. unfold same_w, gmeas; cbn. rewrite F. cbn in *. repeat split; try lia; auto.
      + apply iter_next_false in E. destruct E as [E E']. eexists _, _. split; [reflexivity|]. unfold same_w, gmeas; cbn. rewrite F. cbn in *.
        repeat split; try lia; auto. intros r Hr. unfold grapheme_boundary, attr_at. apply E'; lia. }
  destruct R as (b1 & r & -> & SW & Hn1 & Hg1 & Hgm & Hf1 & Hug1 & HR).
  pose proof SW as (S1 & S2 & S3 & S4 & S5).
  assert (HB1 : Bk n b1).
  { unfold Bk. rewrite Hn1, S1, S2, S3, S4, Hf1, Hug1. cbn. repeat split; try lia. }
  destruct r as [o|].
  2:{ inversion H; subst b' ro; clear H. destruct HR as (R1 & R2 & R3). split; [exact HB1|]. split; [exact SW|]. split; [rewrite Hug1; lia|].
      split; [exact R1|]. intros GB [PG|PG]; [|rewrite R2 in PG; cbn in PG; lia].
      rewrite (R3 n) in GB by lia. discriminate. }
  destruct HR as (R1 & R2 & R3 & R3' & R5).
  destruct ((fst o <=? fst (b_prevW b1)) && (0 <? fst (b_prevW b1))) eqn:SK.
  - (* skipped *)
    apply andb_prop in SK. destruct SK as [SK1 SK2]. apply Z.leb_le in SK1. apply Z.ltb_lt in SK2. rewrite S3 in SK1, SK2.
    destruct (IH _ _ _ HB1 H) as (B' & SW' & M' & X & Y).
    split; [exact B'|]. split; [unfold same_w in *; intuition congruence|]. split; [rewrite Hug1 in M'; lia|].
    split.
    + destruct ro as [o'|]; [|lia]. rewrite S3, S2 in X. destruct X as (X1 & X2 & X3 & X4 & X5 & X6 & X7 & X8). repeat split; auto; lia.
    + intros GB PG. rewrite S5, S2 in Y. apply Y; [exact GB|]. left. lia.
  - assert (SK' : fst (b_prevW b) < fst o \/ fst (b_prevW b) <= 0).
    { rewrite S3 in SK. apply andb_false_iff in SK. destruct SK as [SK|SK]; [apply Z.leb_gt in SK; lia|apply Z.ltb_ge in SK; lia]. }
    clear IH HB HB1. unfold gmeas in *. rewrite Hf1 in R5. cbn [b2z] in R5.
    destruct (fst (b_unusedW b1) <? fst o) eqn:GT.
    + apply Z.ltb_lt in GT. rewrite S2 in GT. inversion H; subst b' ro; clear H.
      split; [|split; [|split; [|split]]].
      * unfold Bk; cbn. rewrite Hn1, S1, S2, S3, S4. cbn. repeat split; try lia.
      * unfold same_w; cbn. repeat split; auto.
      * cbn. lia.
      * cbn. lia.
      * intros GB PG. unfold PendG in *; cbn. rewrite ?S2. lia.
    + apply Z.ltb_ge in GT. rewrite S2 in GT. inversion H; subst b' ro; clear H.
      split; [|split; [|split; [|split]]].
      * unfold Bk; cbn. rewrite Hn1, S1, S2, S3, S4, Hf1. cbn. repeat split; try lia.
      * unfold same_w; cbn. repeat split; auto.
      * cbn. lia.
      * cbn. rewrite Hf1. cbn. repeat split; auto; lia.
      * intros GB PG Ho. unfold PendG in *; cbn. lia.
Qed.

(* ---- fillUntil and processBreakOption, second pass -------------------------------------------------- *)

Lemma map_run_set : forall w ci run w1, map_run w ci run = Ok w1 -> exists mp, w1 = set_mp w mp.
Proof.
  intros w ci run w1 H. unfold map_run in H.
  destruct (negb (m_run (w_mp w) =? ci) || negb (m_valid (w_mp w))).
  - destruct (o_cnt run <=? 0); [inversion H; eauto|].
    destruct (map3 _ _ _ _); cbn [bind] in H; try discriminate. inversion H; eauto.
  - inversion H; subst w1. exists (w_mp w). destruct w; reflexivity.
Qed.

(* fillUntil only appends to the candidate prefix and only advances the iterator; it stops at a run that ends after b *)
Lemma fill_until_ext : forall fuel w b w', fill_until fuel w b = Ok w' ->
  (exists more, s_alt (w_sc w') = s_alt (w_sc w) ++ more) /\ w_idx w <= w_idx w'
  /\ match peek w' with (_, run, true) => b < o_cnt run + o_off run | _ => True end.
Proof.
  induction fuel as [|fuel IH]; intros w b w' H; cbn [fill_until] in H; [discriminate|].
  destruct (peek w) as [[ci run] more] eqn:PK.
  destruct (more && (o_cnt run + o_off run <=? b)) eqn:C.
  2:{ inversion H; subst w'. split; [exists []; rewrite app_nil_r; reflexivity|]. split; [lia|].
      rewrite PK. destruct more; auto. cbn in C. apply Z.leb_gt in C. lia. }
  destruct (o_off run + o_cnt run <=? w_start w).
  - apply IH in H. destruct H as ((more' & H1) & H2 & H3).
    replace (s_alt (w_sc (iter_advance w))) with (s_alt (w_sc w)) in H1 by (destruct w; reflexivity).
    replace (w_idx (iter_advance w)) with (w_idx w + 1) in H2 by (destruct w; reflexivity).
    split; [eauto|]. split; [lia|exact H3].
  - destruct (o_off run <? w_start w).
    + destruct (map_run w ci run) as [w1| | |] eqn:MR; cbn [bind] in H; try discriminate.
      destruct (map_run_set _ _ _ _ MR) as [mp ->].
      destruct (cut_run _ _ _ _ _ _) as [[st' rc]| | |]; cbn [bind fst snd] in H; try discriminate.
      apply IH in H. destruct H as ((more' & H1) & H2 & H3).
      split; [|split; [|exact H3]].
      * exists ([rc] ++ more'). rewrite H1. destruct w; cbn. rewrite <- app_assoc. reflexivity.
      * destruct w; cbn in *; lia.
    + cbn [bind fst snd] in H. apply IH in H. destruct H as ((more' & H1) & H2 & H3).
      split; [|split; [|exact H3]].
      * exists ([recompute_advance (w_st w) run] ++ more'). rewrite H1. destruct w; cbn. rewrite <- app_assoc. reflexivity.
      * destruct w; cbn in *; lia.
Qed.

(* end of a chain as a function (the start when the list is not a chain) *)
Definition lend (s : Z) (l : list out) : Z := match contiguous_from s l with Some e => e | None => s end.
Lemma lend_chain : forall s l e, chain s l e -> lend s l = e.
Proof. unfold chain, lend; intros s l e H; rewrite H; reflexivity. Qed.

(* processBreakOption, given that the option is not before the end of the candidate prefix: a candidate that is not
   rejected is non-empty and the candidate line ends exactly one past the option *)
Lemma pbo_strong : forall n w opt lc w' r cand,
  Inv n w -> fst opt < n ->
  (s_alt (w_sc w) <> [] -> lend (w_start w) (s_alt (w_sc w)) <= fst opt) ->
  process_break_option w opt lc = Ok (w', r, cand) ->
  w_idx w <= w_idx w' /\ (exists more, s_alt (w_sc w') = s_alt (w_sc w) ++ more)
  /\ (r <> BreakInvalid -> w_start w <= fst opt /\ 0 < o_cnt cand /\ chain (w_start w') (s_alt (w_sc w') ++ [cand]) (fst opt + 1))
  /\ (fst opt = n - 1 -> w_start w < n -> r <> BreakInvalid).
Proof.
  intros n w opt lc w' r cand (HR & HP & HS & HM & HB) Hopt Hord H. unfold process_break_option in H.
  destruct (fst opt <? w_start w) eqn:E0.
  { apply Z.ltb_lt in E0. inversion H; subst. split; [lia|]. split; [exists []; rewrite app_nil_r; reflexivity|]. split; [congruence|lia]. }
  apply Z.ltb_ge in E0.
  destruct (fill_until _ w (fst opt)) as [w1| | |] eqn:FU; cbn [bind] in H; try discriminate.
  destruct (fill_until_ok n _ _ _ _ HR HP HM FU) as (F1 & P1 & M1 & X1).
  destruct (fill_until_ext _ _ _ _ FU) as ((more & Hmore) & Hidx1 & Hstop).
  destruct F1 as (F1a & F1b & F1c & F1d & F1e & F1f & F1g & F1h & F1i).
  pose proof P1 as P1'. destruct P1' as (Hpos & pre & post & m & e & Hsplit & Hidx & Hpre & Hpost & Halt & He1 & He2).
  rewrite (peek_split w1 pre post Hsplit Hidx) in H, Hstop.
  assert (HR1 : runs_ok (w_runs w1) n) by (rewrite F1e; exact HR).
  set (run := match post with [] => out_zero | r :: _ => r end).
  assert (Hrun : run = znth out_zero (w_runs w1) (w_idx w1)).
  { unfold run. rewrite Hsplit, <- Hidx. destruct post.
    - rewrite app_nil_r. symmetry. apply znth_default. lia.
    - symmetry. apply znth_app_exact. }
  assert (H' : (do w2 <- map_run w1 (w_idx w1) run;
                do v <- is_valid (w_st w2) (fst opt) (mapping_of (w_mp w2)) run;
                if negb v then Ok (w2, BreakInvalid, out_zero)
                else do sr <- cut_run (w_st w2) run (mapping_of (w_mp w2)) (w_start w2) (fst opt) (alt_empty w2);
                     let w3 := set_st w2 (fst sr) in let cand := snd sr in
                     let width := ceil26 (advance_space_aware (w_st w3) cand (c_dir (w_cfg w3)) + s_alt_adv (w_sc w3)) in
                     if lc_max lc <? width then Ok (w3, (if has_best w3 then NewLineBeforeBreak else CannotFit), cand)
                     else if lc_truncating lc && (lc_tmax lc <? width) then
                       if (o_cnt cand + o_off cand =? b_n (w_br w3)) && negb (c_cont (w_cfg w3)) then Ok (w3, EndLine, cand)
                       else Ok (w3, Truncated, cand)
                     else Ok (w3, Fits, cand)) = Ok (w', r, cand)).
  { unfold run. destruct post; exact H. }
  clear H. rename H' into H.
  destruct (map_run w1 (w_idx w1) run) as [w2| | |] eqn:MR; cbn [bind] in H; try discriminate.
  destruct (map_run_ok w1 (w_idx w1) run w2 (proj2 HR1) M1 Hrun MR) as ((mp & ->) & HM2 & Hlen).
  destruct (is_valid _ _ _ run) as [v| | |] eqn:IV; cbn [bind] in H; try discriminate.
  destruct v; cbn [negb] in H.
  2:{ inversion H; subst. split; [destruct w1; cbn in *; lia|]. split; [|split; [congruence|]].
      { exists more. destruct w1; exact Hmore. }
      (* the last option of the paragraph is never inside a cluster *)
      intros Hlast _ _. unfold is_valid in IV. rewrite Hlen in IV.
      assert (Hend : o_off run + o_cnt run <= n).
      { pose proof (chain_pos_le _ _ _ (proj1 HR) (proj2 HR)) as Hn0.
        unfold run. destruct post as [|r0 post']; [cbn; lia|].
        destruct (chain_cons_inv _ _ _ _ Hpost) as [_ Hp']. destruct HR1 as [_ HA]. rewrite Hsplit in HA.
        apply Forall_app in HA. destruct HA as [_ HA]. inversion HA; subst.
        pose proof (chain_pos_le _ _ _ Hp' H3). unfold out_end in *. lia. }
      replace (fst opt - o_off run + 1 <? o_cnt run) with false in IV by (symmetry; apply Z.ltb_ge; lia).
      cbn in IV. discriminate. }
  destruct (cut_run _ run _ _ _ _) as [[st' rc]| | |] eqn:CR; cbn [bind fst snd] in H; try discriminate.
  assert (Hpost_ne : post <> []).
  { intros ->. unfold run in *. rewrite cut_run_empty_mapping in CR; [discriminate|]. rewrite Hlen. reflexivity. }
  destruct post as [|r0 post']; [congruence|]. unfold run in *. clear run.
  destruct (chain_cons_inv _ _ _ _ Hpost) as [Hoff Hpost'].
  apply cut_run_fields in CR. destruct CR as (C1 & C2 & _).
  replace (w_start (set_mp w1 mp)) with (w_start w1) in * by (destruct w1; reflexivity).
  assert (Hfin : w' = set_st (set_mp w1 mp) st' /\ cand = rc /\ r <> BreakInvalid).
  { destruct (lc_max lc <? _); [destruct (has_best _); inversion H; repeat split; auto; discriminate|].
    destruct (lc_truncating lc && _).
    - destruct (_ && _); inversion H; repeat split; auto; discriminate.
    - inversion H; repeat split; auto; discriminate. }
  destruct Hfin as (-> & -> & Hnb).
  split; [destruct w1; cbn in *; lia|]. split; [exists more; destruct w1; exact Hmore|]. split; [|intros _ _; exact Hnb]. intros _.
  replace (w_start (set_st (set_mp w1 mp) st')) with (w_start w1) by (destruct w1; reflexivity).
  replace (s_alt (w_sc (set_st (set_mp w1 mp) st'))) with (s_alt (w_sc w1)) by (destruct w1; reflexivity).
  (* the cursor run starts at or before the option *)
  assert (Hm : m <= fst opt /\ o_off rc = e).
  { destruct (s_alt (w_sc w1)) eqn:A.
    - specialize (He1 eq_refl). inversion Halt. lia.
    - assert (e = m) by (apply He2; congruence). subst e.
      pose proof (chain_pos_lt _ _ _ Halt Hpos ltac:(congruence)) as Hlt.
      split; [|lia].
      destruct X1 as [X1|(e' & X1 & X2)]; [congruence| |].
      + rewrite <- X1 in Hord. rewrite F1c in Halt. rewrite (lend_chain _ _ _ Halt) in Hord. apply Hord. congruence.
      + pose proof (chain_fun _ _ _ _ Halt X1). lia. }
  destruct Hm as [Hm Hco].
  assert (Hce : out_end rc = fst opt + 1) by lia.
  split; [lia|]. split.
  - unfold out_end in Hce. destruct (s_alt (w_sc w1)) eqn:A.
    + specialize (He1 eq_refl). inversion Halt. lia.
    + assert (e = m) by (apply He2; congruence). lia.
  - rewrite <- Hce. eapply chain_app; [exact Halt|]. apply chain_single. exact Hco.
Qed.

(* ---- the invariant of one WrapNextLine call --------------------------------------------------------- *)

(* where the line recorded as best ends = the next line start *)
Definition best_end (w : W) : Z :=
  match s_best (w_sc w) with Some l => lend (w_start w) l | None => w_start w end.

(* holds throughout a call: the line invariant, the breaker bounds, checkpoint <= cursor, the pieces of the best line
   are non-empty, the checkpointed prefix does not reach beyond the best line *)
Definition JP (n : Z) (w : W) : Prop :=
  Inv n w /\ Bk n (w_br w) /\ 0 <= w_saved w <= w_idx w /\ 0 <= w_start w < n
  /\ (forall l, s_best (w_sc w) = Some l -> all_pos l)
  /\ lend (w_start w) (s_save (w_sc w)) <= best_end w
  /\ best_end w <= n.
(* holds at the top of the loops: the candidate prefix does not reach beyond the best line either *)
Definition JT (n : Z) (w : W) : Prop := JP n w /\ lend (w_start w) (s_alt (w_sc w)) <= best_end w.

Lemma Inv_alt : forall n w, Inv n w -> chain (w_start w) (s_alt (w_sc w)) (lend (w_start w) (s_alt (w_sc w))) /\ all_pos (s_alt (w_sc w)).
Proof.
  intros n w (_ & (Hpos & pre & post & m & e & _ & _ & _ & _ & Halt & _) & _). rewrite (lend_chain _ _ _ Halt). auto.
Qed.
Lemma Inv_save : forall n w, Inv n w -> chain (w_start w) (s_save (w_sc w)) (lend (w_start w) (s_save (w_sc w))) /\ all_pos (s_save (w_sc w)).
Proof.
  intros n w (_ & _ & (Hpos & pre & post & m & e & _ & _ & _ & _ & Halt & _) & _). rewrite (lend_chain _ _ _ Halt). auto.
Qed.
Lemma Inv_alt_le : forall n w, Inv n w -> w_start w <= n -> lend (w_start w) (s_alt (w_sc w)) <= n.
Proof.
  intros n w ((_ & HA) & (Hpos & pre & post & m & e & Hsplit & Hidx & Hpre & Hpost & Halt & He1 & He2) & _) Hs.
  rewrite (lend_chain _ _ _ Halt). destruct (s_alt (w_sc w)) eqn:A; [inversion Halt; lia|].
  assert (e = m) by (apply He2; congruence). subst e. rewrite Hsplit in HA. apply Forall_app in HA.
  pose proof (chain_pos_le _ _ _ Hpost (proj2 HA)). lia.
Qed.
Lemma best_end_ge : forall n w, JP n w -> w_start w <= best_end w.
Proof.
  intros n w ((_ & _ & _ & _ & HB) & _ & _ & _ & HP & _). unfold best_end.
  destruct (s_best (w_sc w)) as [l|] eqn:E; [|lia].
  destruct (HB l E) as [e He]. rewrite (lend_chain _ _ _ He). eapply chain_pos_le; eauto.
Qed.

(* at the top of a loop, without a best line the candidate prefix is empty (every earlier iteration restored it) *)
Lemma best_end_no_best : forall w, has_best w = false -> best_end w = w_start w.
Proof.
  intros w H. unfold best_end, has_best in *. destruct (s_best (w_sc w)) as [[|a l]|]; [reflexivity|discriminate|reflexivity].
Qed.
Lemma JT_no_best_alt : forall n w, JT n w -> has_best w = false -> s_alt (w_sc w) = [].
Proof.
  intros n w (HJ & HA) H. rewrite (best_end_no_best w H) in HA. destruct HJ as (HI & _).
  destruct (Inv_alt n w HI) as [C P]. destruct (s_alt (w_sc w)) as [|a l] eqn:A; [reflexivity|exfalso].
  pose proof (chain_pos_lt _ _ _ C P ltac:(discriminate)). lia.
Qed.

(* a state at the top of a loop is ready for the next call: the cursor run starts at or before the next line start *)
Lemma JT_post : forall n w, JT n w -> pair_ok (w_runs w) n (best_end w) [] (w_idx w).
Proof.
  intros n w (HJ & HC). pose proof (best_end_ge n w HJ) as HG.
  destruct HJ as ((_ & HP & _) & _).
  destruct HP as (Hpos & pre & post & m & e & Hsplit & Hidx & Hpre & Hpost & Halt & He1 & He2).
  split; [constructor|]. exists pre, post, m, (best_end w). repeat split; auto; try congruence.
  intros _. rewrite (lend_chain _ _ _ Halt) in HC.
  destruct (s_alt (w_sc w)) eqn:A; [specialize (He1 eq_refl); lia|].
  assert (e = m) by (apply He2; congruence). lia.
Qed.

Lemma JT_checkpoint : forall n w, JT n w -> JT n (checkpoint w)
  /\ s_save (w_sc (checkpoint w)) = s_alt (w_sc w) /\ s_alt (w_sc (checkpoint w)) = s_alt (w_sc w)
  /\ best_end (checkpoint w) = best_end w /\ w_br (checkpoint w) = w_br w /\ s_best (w_sc (checkpoint w)) = s_best (w_sc w).
Proof.
  intros n w ((HI & HB & HS & Hst & HP & HC & HN) & HA). destruct (Inv_checkpoint n w HI) as [I1 _].
  split; [|destruct w; repeat split].
  split; [|destruct w; exact HA]. split; [exact I1|]. destruct w; unfold best_end in *; cbn in *.
  split; [exact HB|]. split; [lia|]. split; [lia|]. split; [exact HP|]. split; [exact HA|exact HN].
Qed.
Lemma JP_set_br : forall n w b, JP n w -> Bk n b -> JP n (set_br w b).
Proof.
  intros n w b (HI & HB & HS & Hst & HP & HC & HN) Hb. split; [apply Inv_set_br; exact HI|]. destruct w; unfold best_end in *; cbn in *.
  split; [exact Hb|]. split; [lia|]. split; [lia|]. split; [exact HP|]. split; [exact HC|exact HN].
Qed.
Lemma JT_set_br : forall n w b, JT n w -> Bk n b -> JT n (set_br w b).
Proof. intros n w b (HJ & HA) Hb. split; [apply JP_set_br; auto|]. destruct w; exact HA. Qed.
Lemma JT_restore : forall n w, JP n w -> JT n (restore w).
Proof.
  intros n w (HI & HB & HS & Hst & HP & HC & HN). destruct (Inv_restore n w HI) as [I1 _].
  split; [|destruct w; exact HC]. split; [exact I1|]. destruct w; unfold best_end in *; cbn in *.
  split; [exact HB|]. split; [lia|]. split; [lia|]. split; [exact HP|]. split; [exact HC|exact HN].
Qed.
Lemma best_end_restore : forall w, best_end (restore w) = best_end w.
Proof. destruct w; reflexivity. Qed.
Lemma best_end_set_br : forall w b, best_end (set_br w b) = best_end w.
Proof. destruct w; reflexivity. Qed.

Lemma chain_app_lend : forall s l c e, chain s (l ++ [c]) e -> 0 < o_cnt c -> lend s l < e /\ chain s l (lend s l).
Proof.
  intros s l c e H Hc. apply chain_app_inv in H. destruct H as (m & H1 & H2).
  rewrite (lend_chain _ _ _ H1). split; [|exact H1].
  apply chain_cons_inv in H2. destruct H2 as [H2 H3]. inversion H3. unfold out_end. lia.
Qed.

(* recording alt ++ [cand] as the best line *)
Lemma JT_mark_best : forall n w cand e,
  JP n w -> chain (w_start w) (s_alt (w_sc w) ++ [cand]) e -> 0 < o_cnt cand ->
  lend (w_start w) (s_save (w_sc w)) <= e -> e <= n ->
  JT n (mark_best w [cand]) /\ best_end (mark_best w [cand]) = e.
Proof.
  intros n w cand e (HI & HB & HS & Hst & HP & HC & HN) Hch Hc Hsv Hen.
  destruct (Inv_mark_best n w [cand] HI (ex_intro _ e Hch)) as [I1 _].
  destruct (chain_app_lend _ _ _ _ Hch Hc) as [L1 L2]. destruct (Inv_alt n w HI) as [_ Hap].
  assert (BE : best_end (mark_best w [cand]) = e).
  { unfold best_end. destruct w; cbn in *. apply lend_chain. exact Hch. }
  split; [|exact BE]. split.
  - split; [exact I1|]. rewrite BE. destruct w; cbn in *.
    split; [exact HB|]. split; [lia|]. split; [lia|]. split; [|split; lia].
    intros l Hl. inversion Hl; subst. apply all_pos_app; auto. constructor; auto.
  - rewrite BE. destruct w; cbn in *. lia.
Qed.
(* recording alt alone (the truncated line without a fitting candidate) *)
Lemma JP_mark_best_nil : forall n w,
  JP n w -> lend (w_start w) (s_save (w_sc w)) <= lend (w_start w) (s_alt (w_sc w)) ->
  JP n (mark_best w []) /\ best_end (mark_best w []) = lend (w_start w) (s_alt (w_sc w)).
Proof.
  intros n w (HI & HB & HS & Hst & HP & HC & HN) Hsv.
  destruct (Inv_mark_best n w [] HI (Inv_alt_chain n w HI)) as [I1 _]. destruct (Inv_alt n w HI) as [_ Hap].
  pose proof (Inv_alt_le n w HI ltac:(lia)) as Hle.
  assert (BE : best_end (mark_best w []) = lend (w_start w) (s_alt (w_sc w))).
  { unfold best_end. destruct w; cbn in *. rewrite app_nil_r. reflexivity. }
  split; [|exact BE]. split; [exact I1|]. rewrite BE. destruct w; cbn in *.
  split; [exact HB|]. split; [lia|]. split; [lia|]. split; [|split; lia].
  intros l Hl. inversion Hl; subst. rewrite app_nil_r. exact Hap.
Qed.

(* processBreakOption from a state whose prefix ends at or before the option *)
Lemma JP_pbo : forall n w opt lc w' r cand,
  JP n w -> fst opt < n -> (s_alt (w_sc w) <> [] -> lend (w_start w) (s_alt (w_sc w)) <= fst opt) ->
  process_break_option w opt lc = Ok (w', r, cand) ->
  JP n w' /\ frame w w' /\ best_end w' = best_end w
  /\ lend (w_start w) (s_alt (w_sc w)) <= lend (w_start w') (s_alt (w_sc w'))
  /\ (r <> BreakInvalid -> w_start w <= fst opt /\ 0 < o_cnt cand /\ chain (w_start w') (s_alt (w_sc w') ++ [cand]) (fst opt + 1))
  /\ (fst opt = n - 1 -> r <> BreakInvalid).
Proof.
  intros n w opt lc w' r cand (HI & HB & HS & Hst & HP & HC & HN) Hopt Hord H.
  destruct (pbo_ok n _ _ _ _ _ _ HI H) as (I' & F & _).
  destruct (pbo_strong n _ _ _ _ _ _ HI Hopt Hord H) as (Hidx & (more & Hmore) & X & XL).
  pose proof F as (F1 & F2 & F3 & F4 & F5 & F6 & F7 & F8 & F9).
  assert (BE : best_end w' = best_end w) by (unfold best_end; rewrite F9, F3; reflexivity).
  split; [|split; [exact F|split; [exact BE|split; [|split; [exact X|intros; apply XL; auto; lia]]]]].
  - split; [exact I'|]. rewrite BE, F7, F6, F3, F8, F9.
    split; [exact HB|]. split; [lia|]. split; [lia|]. split; [exact HP|]. split; [exact HC|exact HN].
  - destruct (Inv_alt n w HI) as [A1 _]. destruct (Inv_alt n w' I') as [A2 A3]. rewrite Hmore, F3 in A2.
    apply chain_app_inv in A2. destruct A2 as (m & A2 & A4).
    pose proof (chain_fun _ _ _ _ A1 A2). subst m. rewrite Hmore in A3. apply Forall_app in A3.
    rewrite F3, Hmore. eapply chain_pos_le; [exact A4|tauto].
Qed.

(* ---- accounting over the breaker: ordering, progress, and the pending last option --------------------- *)

(* the result of processBreakOption tells whether a best line exists, and truncation results need the truncating line *)
Lemma pbo_kind : forall w opt lc w' r cand,
  process_break_option w opt lc = Ok (w', r, cand) ->
  (r = NewLineBeforeBreak -> has_best w' = true) /\ (r = CannotFit -> has_best w' = false)
  /\ (r = EndLine \/ r = Truncated -> lc_truncating lc = true).
Proof.
  intros w opt lc w' r cand H. unfold process_break_option in H.
  assert (T : forall x : pbr, x <> NewLineBeforeBreak -> x <> CannotFit -> x <> EndLine -> x <> Truncated ->
          (x = NewLineBeforeBreak -> has_best w' = true) /\ (x = CannotFit -> has_best w' = false)
          /\ (x = EndLine \/ x = Truncated -> lc_truncating lc = true)).
  { intros x A B C D. repeat split; intros; try congruence. destruct H0; congruence. }
  destruct (fst opt <? w_start w).
  { inversion H; subst. apply T; discriminate. }
  destruct (fill_until _ w (fst opt)) as [w1| | |]; cbn [bind] in H; try discriminate.
  destruct (peek w1) as [[ci run] mr].
  destruct (map_run w1 ci run) as [w2| | |]; cbn [bind] in H; try discriminate.
  destruct (is_valid _ _ _ run) as [v| | |]; cbn [bind] in H; try discriminate.
  destruct v; cbn [negb] in H.
  2:{ inversion H; subst. apply T; discriminate. }
  destruct (cut_run _ run _ _ _ _) as [sr| | |]; cbn [bind] in H; try discriminate.
  set (w3 := set_st w2 (fst sr)) in *.
  destruct (lc_max lc <? _).
  { destruct (has_best w3) eqn:HB; inversion H; subst; repeat split; intros; try discriminate; auto; destruct H0; discriminate. }
  destruct (lc_truncating lc); cbn [andb] in H.
  - destruct (lc_tmax lc <? _).
    + destruct (_ && _); inversion H; subst; repeat split; intros; try discriminate; auto.
    + inversion H; subst. apply T; discriminate.
  - inversion H; subst. apply T; discriminate.
Qed.

Lemma has_best_same : forall w w', s_best (w_sc w') = s_best (w_sc w) -> has_best w' = has_best w.
Proof. intros w w' H. unfold has_best. rewrite H. reflexivity. Qed.
Lemma has_best_mark : forall w c, has_best (mark_best w [c]) = true.
Proof. intros. unfold has_best. destruct w; cbn. destruct (s_alt w_sc); reflexivity. Qed.

Definition phi (n : Z) (b : breaker) : Z := wmeas n b + gmeas n b.
Definition psi (n : Z) (b : breaker) : Z := Z.max 0 (n + 1 - b_wpos b) + gmeas n b.

(* the text end carries the line and the grapheme flag (a guarantee of the segmenter) *)
Definition Fin (n : Z) (attrs : list Z) : Prop := line_boundary attrs n = true /\ grapheme_boundary attrs n = true.

(* ordering: a non-empty candidate prefix ends at or before every option still to come *)
Definition OrdO (w : W) : Prop :=
  s_alt (w_sc w) <> [] -> lend (w_start w) (s_alt (w_sc w)) <= fst (b_unusedW (w_br w)) /\ b2z (b_isUnusedW (w_br w)) = 0.
Definition OrdI (w : W) : Prop :=
  s_alt (w_sc w) <> [] -> lend (w_start w) (s_alt (w_sc w)) <= fst (b_prevW (w_br w))
                          \/ lend (w_start w) (s_alt (w_sc w)) <= fst (b_unusedG (w_br w)).
(* an empty best line is recorded on the truncating line only *)
Definition NEl (lc : line_cfg) (w : W) : Prop := lc_truncating lc = false -> forall l, s_best (w_sc w) = Some l -> l <> [].

(* progress (P0 = phi at the start of the call) and the pending last option, at the top of the inner / outer loop and on return *)
Definition AccI (n P0 : Z) (attrs : list Z) (w : W) : Prop :=
  let b := w_br w in
  (phi n b + 1 <= P0 /\ (b2z (has_best w) = 1 -> psi n b + 2 <= P0))
  /\ (Fin n attrs -> (best_end w = n /\ n <= b_gpos b /\ b2z (b_isUnusedG b) = 0)
                     \/ (PendG n b /\ (PendW n b \/ fst (b_unusedW b) = n - 1))).
Definition AccO (n P0 : Z) (attrs : list Z) (w : W) : Prop :=
  let b := w_br w in
  (phi n b + b2z (has_best w) <= P0 /\ (b2z (has_best w) = 1 -> b2z (b_isUnusedW b) = 0))
  /\ (Fin n attrs -> (best_end w = n /\ n <= b_wpos b /\ b2z (b_isUnusedW b) = 0) \/ (PendW n b /\ PendG n b)).
Definition AccR (n P0 : Z) (attrs : list Z) (w : W) (d : bool) : Prop :=
  let b := w_br w in
  if d then Fin n attrs -> best_end w = n
  else phi n b + 1 <= P0 /\ (Fin n attrs -> best_end w = n \/ (PendW n b /\ PendG n b)).

Lemma Bk_mark_word : forall n b, Bk n b -> 1 <= b_wpos b <= n -> fst (b_unusedW b) = b_wpos b - 1 -> Bk n (mark_word_unused b).
Proof. intros n b HB H1 H2. unfold Bk in *; cbn. repeat split; try lia. Qed.
Lemma Bk_mark_grapheme : forall n b, Bk n b -> 1 <= b_gpos b <= n -> fst (b_unusedG b) = b_gpos b - 1 -> Bk n (mark_grapheme_unused b).
Proof. intros n b HB H1 H2. unfold Bk in *; cbn. repeat split; try lia. Qed.

(* discardWordOption after an option that was just handed out (flag clear) *)
Lemma Bk_discard : forall n b, Bk n b -> b_isUnusedW b = false -> Bk n (discard_word b).
Proof. intros n b HB HF. unfold Bk in *; cbn. rewrite HF in *. cbn [b2z] in *. repeat split; try lia. Qed.
Lemma discard_proj : forall b, b_attrs (discard_word b) = b_attrs b /\ b_n (discard_word b) = b_n b /\ b_wpos (discard_word b) = b_wpos b
  /\ b_gpos (discard_word b) = b_gpos b /\ b_unusedW (discard_word b) = b_prevW b /\ b_prevW (discard_word b) = b_prevW b
  /\ b_isUnusedW (discard_word b) = b_isUnusedW b /\ b_unusedG (discard_word b) = b_unusedG b /\ b_isUnusedG (discard_word b) = b_isUnusedG b.
Proof. intros b. repeat split. Qed.
Lemma phi_discard : forall n b, phi n (discard_word b) = phi n b /\ psi n (discard_word b) = psi n b.
Proof. intros. split; reflexivity. Qed.

Ltac bz := repeat match goal with
  | H : ?x = true |- _ => rewrite H in *
  | H : ?x = false |- _ => rewrite H in *
  end; cbn [b2z] in *.

(* projections through the state setters used by the loops *)
Lemma restore_proj : forall w, s_alt (w_sc (restore w)) = s_save (w_sc w) /\ w_br (restore w) = w_br w
  /\ w_start (restore w) = w_start w /\ s_best (w_sc (restore w)) = s_best (w_sc w).
Proof. destruct w; repeat split. Qed.
Lemma set_br_proj : forall w b, s_alt (w_sc (set_br w b)) = s_alt (w_sc w) /\ w_br (set_br w b) = b
  /\ w_start (set_br w b) = w_start w /\ s_best (w_sc (set_br w b)) = s_best (w_sc w) /\ s_save (w_sc (set_br w b)) = s_save (w_sc w).
Proof. destruct w; repeat split. Qed.
Lemma mark_best_proj : forall w sfx, s_alt (w_sc (mark_best w sfx)) = s_alt (w_sc w) /\ w_br (mark_best w sfx) = w_br w
  /\ w_start (mark_best w sfx) = w_start w /\ s_best (w_sc (mark_best w sfx)) = Some (s_alt (w_sc w) ++ sfx).
Proof. destruct w; repeat split. Qed.

Lemma Bk_ug_n : forall n b, Bk n b -> 0 <= fst (b_unusedG b) < n /\ 0 <= fst (b_unusedW b) < n /\ 0 <= fst (b_prevW b).
Proof. unfold Bk; intros; lia. Qed.

(* the grapheme loop *)
Lemma inner_loop_J : forall n P0 attrs fuel w wopt lc w' d,
  JT n w -> OrdI w -> NEl lc w -> b_attrs (w_br w) = attrs ->
  1 <= b_wpos (w_br w) <= n -> fst (b_unusedW (w_br w)) = b_wpos (w_br w) - 1 -> fst wopt < n ->
  (lc_truncating lc = false -> AccI n P0 attrs w) ->
  inner_loop fuel w wopt lc = Ok (w', d) ->
  JP n w' /\ NEl lc w' /\ b_attrs (w_br w') = attrs
  /\ (d = false -> pair_ok (w_runs w') n (best_end w') [] (w_idx w'))
  /\ (lc_truncating lc = false -> AccR n P0 attrs w' d).
Proof.
  intros n P0 attrs. induction fuel as [|fuel IH]; intros w wopt lc w' d HT HO HN HA HW HU HWo HAcc H; cbn [inner_loop] in H; [discriminate|].
  destruct (JT_checkpoint n w HT) as (T1 & Csv & Calt & Cbe & Cbr & Cbest).
  set (w1 := checkpoint w) in *.
  destruct (next_grapheme_break (br_fuel w1) (w_br w1)) as [[b1 ro]| | |] eqn:NG; cbn [bind fst snd] in H; try discriminate.
  pose proof T1 as ((_ & B1 & _) & _).
  destruct (ngb_spec n _ _ _ _ B1 NG) as (Bb1 & SW & UG & X & Y). rewrite Cbr in SW, UG, X, Y.
  destruct SW as (S1 & S2 & S3 & S4 & S5).
  pose proof (JT_set_br n w1 b1 T1 Bb1) as T2.
  destruct (set_br_proj w1 b1) as (Q1 & Q2 & Q3 & Q4 & Q5).
  assert (Q6 : best_end (set_br w1 b1) = best_end w) by (rewrite best_end_set_br; exact Cbe).
  assert (Q7 : w_start w1 = w_start w) by (destruct w; reflexivity).
  set (w2 := set_br w1 b1) in *.
  rewrite Calt in Q1. rewrite Csv in Q5. rewrite Cbest in Q4. rewrite Q7 in Q3.
  destruct (Bk_ug_n n _ Bb1) as (G1 & G2 & G3).
  set (b := w_br w) in *.
  destruct ro as [opt|].
  2:{ (* no grapheme option: the end of the loop returns the best line so far, or falls back to the UAX #14 option *)
    cbv beta iota zeta in H.
    assert (Rw2 : restore w2 = w2) by (unfold w2, w1; destruct w as [? ? ? ? ? ? ? ? ? [? ? ? ? ?] ?]; reflexivity).
    assert (AR : forall wx, w_br wx = b1 -> (best_end wx = best_end w \/ has_best w = false) ->
                 lc_truncating lc = false -> AccR n P0 attrs wx false).
    { intros wx Bx Ex Hlc. specialize (HAcc Hlc). unfold AccR, AccI in *. rewrite Bx. fold b in HAcc.
      destruct HAcc as ((A1 & A2) & A3). split.
      + unfold phi, wmeas in *. rewrite S1, S4. lia.
      + intros HF. destruct (A3 HF) as [(E1 & E2 & E3)|(E1 & E2)].
        * destruct Ex as [Ex|Ex]; [left; rewrite Ex; exact E1|].
          exfalso. rewrite (best_end_no_best w Ex) in E1. destruct HT as ((_ & _ & _ & Hst & _) & _). lia.
        * destruct (Y ltac:(rewrite HA; exact (proj2 HF)) E1) as (Y1 & Y2 & Y3).
          right. split; [|exact Y1]. destruct E2 as [E2|E2]; [|lia].
          unfold PendW in *. rewrite S1, S2, S4. exact E2. }
    unfold word_fallback in H.
    destruct (negb (lc_truncating lc) && negb (has_best w2)) eqn:FB.
    2:{ injection H as <- <-.
        split; [exact (proj1 T2)|]. split; [intros Hlc l Hl; rewrite Q4 in Hl; eapply HN; eauto|]. split; [rewrite Q2; congruence|].
        split; [intros _; apply JT_post; exact T2|].
        intros Hlc. apply AR; [exact Q2|left; exact Q6|exact Hlc]. }
    apply andb_prop in FB. destruct FB as [FB1 FB2]. apply negb_true_iff in FB1, FB2.
    rewrite (has_best_same w w2 Q4) in FB2.
    rewrite Rw2 in H.
    assert (Hord : s_alt (w_sc w2) <> [] -> lend (w_start w2) (s_alt (w_sc w2)) <= fst wopt).
    { rewrite Q1. rewrite (JT_no_best_alt n w HT FB2). congruence. }
    destruct (process_break_option w2 wopt lc) as [[[w3 r] cand]| | |] eqn:PB; cbn [bind] in H; try discriminate.
    destruct (JP_pbo n w2 wopt lc w3 r cand (proj1 T2) HWo Hord PB) as (P3 & F3 & BE3 & LE3 & C3 & L3).
    destruct F3 as (_ & _ & F3s & _ & _ & _ & F3b & F3v & F3best).
    rewrite Q2 in F3b. rewrite Q5 in F3v. rewrite Q4 in F3best. rewrite Q3 in F3s. rewrite Q6 in BE3.
    destruct (restore_proj w3) as (R1 & R2 & R3 & R4).
    cbv beta iota zeta in H.
    assert (Hcase : (r = BreakInvalid /\ w' = restore w3 /\ d = false) \/ (r <> BreakInvalid /\ w' = mark_best w3 [cand] /\ d = false)).
    { destruct r; injection H as <- <-; first [left; repeat split; reflexivity | right; repeat split; try reflexivity; discriminate]. }
    clear H. destruct Hcase as [(Hr & -> & ->)|(Hr & -> & ->)].
    - (* rejected again: nothing recorded *)
      pose proof (JT_restore n w3 P3) as T4.
      split; [exact (proj1 T4)|]. split; [intros Hlc l Hl; rewrite R4, F3best in Hl; eapply HN; eauto|].
      split; [rewrite R2, F3b; congruence|]. split; [intros _; apply JT_post; exact T4|].
      intros Hlc. apply AR; [rewrite R2; exact F3b|left; rewrite best_end_restore; exact BE3|exact Hlc].
    - (* the UAX #14 option is recorded *)
      destruct (C3 Hr) as (C31 & C32 & C33). rewrite Q3 in C31.
      assert (Hsv : lend (w_start w3) (s_save (w_sc w3)) <= fst wopt + 1).
      { rewrite F3v, F3s, (JT_no_best_alt n w HT FB2). unfold lend; cbn. lia. }
      destruct (JT_mark_best n w3 cand (fst wopt + 1) P3 C33 C32 Hsv ltac:(lia)) as [T4 BE4].
      destruct (mark_best_proj w3 [cand]) as (M1 & M2 & M3 & M4).
      split; [exact (proj1 T4)|].
      split; [intros _ l Hl; rewrite M4 in Hl; injection Hl as <-; destruct (s_alt (w_sc w3)); discriminate|].
      split; [rewrite M2, F3b; congruence|]. split; [intros _; apply JT_post; exact T4|].
      intros Hlc. apply AR; [rewrite M2; exact F3b|right; exact FB2|exact Hlc]. }
  destruct X as (X1 & X2 & X3 & X4 & X5 & X6 & X7 & X8).
  assert (X1' : fst opt = fst (b_unusedG b1)) by (rewrite X1; reflexivity).
  assert (Hord : s_alt (w_sc w2) <> [] -> lend (w_start w2) (s_alt (w_sc w2)) <= fst opt).
  { rewrite Q1, Q3. intros Hne. destruct (HO Hne) as [O1|O1]; fold b in O1; lia. }
  destruct (process_break_option w2 opt lc) as [[[w3 r] cand]| | |] eqn:PB; cbn [bind] in H; try discriminate.
  destruct (JP_pbo n w2 opt lc w3 r cand (proj1 T2) ltac:(lia) Hord PB) as (P3 & F3 & BE3 & LE3 & C3 & L3).
  destruct (pbo_kind _ _ _ _ _ _ PB) as (K1 & K2 & K3).
  destruct F3 as (_ & _ & F3s & _ & _ & _ & F3b & F3v & F3best).
  rewrite Q2 in F3b. rewrite Q5 in F3v. rewrite Q4 in F3best. rewrite Q3 in F3s, LE3. rewrite Q1 in LE3. rewrite Q6 in BE3.
  assert (HB3 : has_best w3 = has_best w) by (apply has_best_same; exact F3best).
  (* the arithmetic shared by the branches that read a grapheme option *)
  assert (Mw : Bk n (mark_word_unused b1)) by (apply Bk_mark_word; [exact Bb1|rewrite S1; exact HW|rewrite S1, S2; exact HU]).
  rewrite Q1, Q3 in Hord. rewrite Q3 in C3.
  assert (Hsv : r <> BreakInvalid -> lend (w_start w3) (s_save (w_sc w3)) <= fst opt).
  { intros Hr. destruct (C3 Hr) as (C31 & _). rewrite F3v, F3s. destruct (s_alt (w_sc w)) eqn:A; [unfold lend; cbn; lia|].
    apply Hord. congruence. }
  assert (HFin : lc_truncating lc = false -> Fin n attrs -> PendG n b /\ (PendW n b \/ fst (b_unusedW b) = n - 1)).
  { intros Hlc HF. destruct (proj2 (HAcc Hlc) HF) as [(E1 & E2 & E3)|E]; [exfalso|exact E].
    fold b in E2, E3. unfold gmeas in X6. rewrite X2 in X6. cbn [b2z] in X6. lia. }
  assert (PG1 : lc_truncating lc = false -> Fin n attrs -> fst opt < n - 1 -> PendG n b1).
  { intros Hlc HF Ho. apply Y; auto. rewrite HA. exact (proj2 HF). apply HFin; auto. }
  assert (PW1 : PendW n b -> PendW n b1) by (unfold PendW; rewrite S1, S2, S4; auto).
  assert (PWm : PendW n b \/ fst (b_unusedW b) = n - 1 -> PendW n (mark_word_unused b1)).
  { unfold PendW; cbn. rewrite S1, S2. intros [[E|E]|E]; [left; exact E|right; lia|right; lia]. }
  assert (Hphi : phi n b1 + 1 <= phi n b /\ psi n b1 + 1 <= psi n b /\ phi n (mark_word_unused b1) <= psi n b
                 /\ psi n (mark_word_unused b1) + 1 <= psi n b /\ psi n b <= phi n b).
  { unfold phi, psi, wmeas, gmeas in *; cbn. rewrite S1, S4. destruct (b_isUnusedW b); cbn; lia. }
  destruct (mark_best_proj w3 [cand]) as (M1 & M2 & M3 & M4).
  destruct (restore_proj w3) as (R1 & R2 & R3 & R4).
  assert (HBr : has_best (restore w3) = has_best w) by (apply has_best_same; rewrite R4; exact F3best).
  destruct r.
  - (* BreakInvalid *)
    apply (IH (restore w3) wopt lc w' d); auto.
    + apply JT_restore; exact P3.
    + unfold OrdI. rewrite R1, R2, R3, F3v, F3s, F3b. intros Hne. destruct (HO Hne) as [O|O]; fold b in O; [left; rewrite S3; exact O|right; lia].
    + intros Hlc l Hl. rewrite R4, F3best in Hl. eapply HN; eauto.
    + rewrite R2, F3b. congruence.
    + rewrite R2, F3b, S1. exact HW.
    + rewrite R2, F3b, S1, S2. exact HU.
    + intros Hlc. pose proof (HAcc Hlc) as ((A1 & A2) & _). fold b in A1, A2. unfold AccI. rewrite R2, F3b, best_end_restore, BE3, HBr.
      split; [split; [lia|intros; specialize (A2 H0); lia]|].
      intros HF. right. destruct (HFin Hlc HF) as [E1 E2]. split; [apply PG1; auto|].
      * assert (fst opt <> n - 1) by (intros E; apply (L3 E); reflexivity). lia.
      * destruct E2 as [E2|E2]; [left; apply PW1; exact E2|right; rewrite S2; exact E2].
  - (* EndLine *)
    cbv beta iota zeta in H. injection H as <- <-. assert (Ht : lc_truncating lc = true) by (apply K3; left; reflexivity).
    destruct (C3 ltac:(discriminate)) as (C31 & C32 & C33).
    destruct (JT_mark_best n w3 cand (fst opt + 1) P3 C33 C32 ltac:(specialize (Hsv ltac:(discriminate)); lia) ltac:(lia)) as [T4 _].
    split; [exact (proj1 T4)|]. split; [intros Hlc; congruence|]. split; [rewrite M2, F3b; congruence|].
    split; [discriminate|intros; congruence].
  - (* Truncated *)
    cbv beta iota zeta in H. injection H as <- <-. assert (Ht : lc_truncating lc = true) by (apply K3; right; reflexivity).
    assert (X' : JP n (if has_best w3 then w3 else mark_best (restore w3) []) /\ b_attrs (w_br (if has_best w3 then w3 else mark_best (restore w3) [])) = attrs).
    { destruct (has_best w3).
      - split; [exact P3|rewrite F3b; congruence].
      - destruct (JT_restore n w3 P3) as [P3r _].
        destruct (JP_mark_best_nil n (restore w3) P3r ltac:(destruct w3; cbn; apply Z.le_refl)) as [P4 _]. split; [exact P4|].
        destruct (mark_best_proj (restore w3) []) as (_ & N2 & _). rewrite N2, R2, F3b. congruence. }
    split; [tauto|]. split; [intros; congruence|]. split; [tauto|]. split; [discriminate|intros; congruence].
  - (* NewLineBeforeBreak *)
    cbv beta iota zeta in H. rewrite R2, F3b in H. injection H as <- <-.
    assert (Mg : Bk n (mark_grapheme_unused (mark_word_unused b1))).
    { apply Bk_mark_grapheme; [exact Mw|cbn; lia|cbn; lia]. }
    pose proof (JT_set_br n _ _ (JT_restore n w3 P3) Mg) as T5.
    destruct (set_br_proj (restore w3) (mark_grapheme_unused (mark_word_unused b1))) as (U1 & U2 & U3 & U4 & U5).
    split; [exact (proj1 T5)|]. split; [intros Hlc l Hl; rewrite U4, R4, F3best in Hl; eapply HN; eauto|].
    split; [rewrite U2; cbn; congruence|]. split; [intros _; apply JT_post; exact T5|].
    intros Hlc. unfold AccR. rewrite U2, best_end_set_br, best_end_restore, BE3.
    pose proof (HAcc Hlc) as ((A1 & A2) & _). fold b in A1, A2. rewrite <- HB3, (K1 eq_refl) in A2. specialize (A2 eq_refl).
    split.
    + unfold phi, psi, wmeas, gmeas in *; cbn. rewrite X2 in *. cbn [b2z] in *. lia.
    + intros HF. right. destruct (HFin Hlc HF) as [E1 E2]. split.
      * apply PWm in E2. unfold PendW in *; cbn in *. exact E2.
      * unfold PendG; cbn. destruct (Z.eq_dec (fst opt) (n - 1)) as [El|Enl]; [right; lia|].
        left. assert (PG : PendG n b1) by (apply PG1; auto; lia). unfold PendG in PG. rewrite X2 in PG. cbn in PG. lia.
  - (* Fits *)
    destruct (C3 ltac:(discriminate)) as (C31 & C32 & C33).
    destruct (JT_mark_best n w3 cand (fst opt + 1) P3 C33 C32 ltac:(specialize (Hsv ltac:(discriminate)); lia) ltac:(lia)) as [T4 BE4].
    rewrite F3b in H.
    pose proof (JT_set_br n _ _ T4 Mw) as T5.
    destruct (set_br_proj (mark_best w3 [cand]) (mark_word_unused b1)) as (U1 & U2 & U3 & U4 & U5).
    destruct (chain_app_lend _ _ _ _ C33 C32) as [CL _].
    apply (IH (set_br (mark_best w3 [cand]) (mark_word_unused b1)) wopt lc w' d); auto.
    + unfold OrdI. rewrite U1, U2, U3, M1, M3. cbn. intros _. right. lia.
    + intros Hlc l Hl. rewrite U4, M4 in Hl. injection Hl as <-. destruct (s_alt (w_sc w3)); discriminate.
    + rewrite U2; cbn; congruence.
    + rewrite U2; cbn. rewrite S1; exact HW.
    + rewrite U2; cbn. rewrite S1, S2; exact HU.
    + intros Hlc. unfold AccI. rewrite U2, best_end_set_br, BE4.
      assert (HB5 : has_best (set_br (mark_best w3 [cand]) (mark_word_unused b1)) = true).
      { rewrite (has_best_same (mark_best w3 [cand])); [apply has_best_mark|exact U4]. }
      rewrite HB5. pose proof (HAcc Hlc) as ((A1 & A2) & _). fold b in A1, A2.
      split; [split; [lia|intros _; lia]|].
      intros HF. destruct (HFin Hlc HF) as [E1 E2]. destruct (Z.eq_dec (fst opt) (n - 1)) as [El|Enl].
      * left. cbn. rewrite X2. cbn. lia.
      * right. split; [|left; apply PWm; exact E2].
        assert (PG : PendG n b1) by (apply PG1; auto; lia). unfold PendG in *; cbn. exact PG.
  - (* CannotFit *)
    destruct (lc_truncating lc) eqn:Hlc.
    + cbv beta iota zeta in H. injection H as <- <-. split; [exact P3|]. split; [intros; congruence|]. split; [rewrite F3b; congruence|].
      split; [discriminate|intros; congruence].
    + rewrite F3b in H. cbv beta iota zeta in H. injection H as <- <-.
      destruct (C3 ltac:(discriminate)) as (C31 & C32 & C33).
      destruct (JT_mark_best n w3 cand (fst opt + 1) P3 C33 C32 ltac:(specialize (Hsv ltac:(discriminate)); lia) ltac:(lia)) as [T4 BE4].
      pose proof (JT_set_br n _ _ T4 Mw) as T5.
      destruct (set_br_proj (mark_best w3 [cand]) (mark_word_unused b1)) as (U1 & U2 & U3 & U4 & U5).
      split; [exact (proj1 T5)|].
      split; [intros _ l Hl; rewrite U4, M4 in Hl; injection Hl as <-; destruct (s_alt (w_sc w3)); discriminate|].
      split; [rewrite U2; cbn; congruence|]. split; [intros _; apply JT_post; exact T5|].
      intros _. unfold AccR. rewrite U2, best_end_set_br, BE4.
      pose proof (HAcc eq_refl) as ((A1 & A2) & _). fold b in A1, A2.
      split; [lia|]. intros HF. destruct (HFin eq_refl HF) as [E1 E2].
      destruct (Z.eq_dec (fst opt) (n - 1)) as [El|Enl]; [left; lia|].
      right. split; [apply PWm; exact E2|].
      assert (PG : PendG n b1) by (apply PG1; auto; lia). unfold PendG in *; cbn. exact PG.
Qed.

(* the UAX #14 loop *)
Lemma outer_loop_J : forall n P0 attrs fuel w lc w' d,
  JT n w -> OrdO w -> NEl lc w -> b_attrs (w_br w) = attrs ->
  (lc_truncating lc = false -> AccO n P0 attrs w) ->
  outer_loop fuel w lc = Ok (w', d) ->
  JP n w' /\ NEl lc w' /\ b_attrs (w_br w') = attrs
  /\ (d = false -> pair_ok (w_runs w') n (best_end w') [] (w_idx w'))
  /\ (lc_truncating lc = false -> AccR n P0 attrs w' d).
Proof.
  intros n P0 attrs. induction fuel as [|fuel IH]; intros w lc w' d HT HO HN HA HAcc H; cbn [outer_loop] in H; [discriminate|].
  destruct (JT_checkpoint n w HT) as (T1 & Csv & Calt & Cbe & Cbr & Cbest).
  set (w1 := checkpoint w) in *.
  destruct (next_word_break (w_br w1)) as [b1 ro] eqn:NW.
  pose proof T1 as ((_ & B1 & _) & _).
  destruct (nwb_spec n _ _ _ B1 NW) as (Bb1 & SG & FW & UW & X). rewrite Cbr in SG, UW, X.
  destruct SG as (S1 & S2 & S3 & S5).
  pose proof (JT_set_br n w1 b1 T1 Bb1) as T2.
  destruct (set_br_proj w1 b1) as (Q1 & Q2 & Q3 & Q4 & Q5).
  assert (Q6 : best_end (set_br w1 b1) = best_end w) by (rewrite best_end_set_br; exact Cbe).
  assert (Q7 : w_start w1 = w_start w) by (destruct w; reflexivity).
  set (w2 := set_br w1 b1) in *.
  rewrite Calt in Q1. rewrite Csv in Q5. rewrite Cbest in Q4. rewrite Q7 in Q3.
  destruct (Bk_ug_n n _ Bb1) as (G1 & G2 & G3).
  set (b := w_br w) in *.
  destruct ro as [opt|].
  2:{ (* no more UAX #14 options: done *)
    cbv beta iota zeta in H. injection H as <- <-.
    split; [exact (proj1 T2)|]. split; [intros Hlc l Hl; rewrite Q4 in Hl; eapply HN; eauto|]. split; [rewrite Q2; congruence|].
    split; [discriminate|].
    intros Hlc HF. rewrite Q6. destruct (proj2 (HAcc Hlc) HF) as [(E1 & _)|(E1 & _)]; [exact E1|exfalso].
    destruct X as (X1 & X2 & X3 & X4 & X5). fold b in E1. unfold PendW in E1. rewrite X1 in E1. cbn in E1.
    destruct E1 as [E1|E1]; [|lia]. rewrite HA in X5. destruct HF as [HF _]. rewrite (X5 n) in HF by lia. discriminate. }
  destruct X as (X1 & X3 & X6 & X7 & X8 & X9 & X10).
  assert (X1' : fst opt = fst (b_unusedW b1)) by (rewrite X1; reflexivity).
  assert (Hord : s_alt (w_sc w2) <> [] -> lend (w_start w2) (s_alt (w_sc w2)) <= fst opt).
  { rewrite Q1, Q3. intros Hne. destruct (HO Hne) as [O1 O2]; fold b in O1; lia. }
  destruct (process_break_option w2 opt lc) as [[[w3 r] cand]| | |] eqn:PB; cbn [bind] in H; try discriminate.
  destruct (JP_pbo n w2 opt lc w3 r cand (proj1 T2) ltac:(lia) Hord PB) as (P3 & F3 & BE3 & LE3 & C3 & L3).
  destruct (pbo_kind _ _ _ _ _ _ PB) as (K1 & K2 & K3).
  destruct F3 as (F3c & _ & F3s & _ & _ & _ & F3b & F3v & F3best).
  rewrite Q2 in F3b. rewrite Q5 in F3v. rewrite Q4 in F3best. rewrite Q3 in F3s, LE3. rewrite Q1 in LE3. rewrite Q6 in BE3.
  assert (HB3 : has_best w3 = has_best w) by (apply has_best_same; exact F3best).
  assert (Mw : Bk n (mark_word_unused b1)) by (apply Bk_mark_word; [exact Bb1|lia|lia]).
  rewrite Q1, Q3 in Hord. rewrite Q3 in C3.
  assert (Hsv : r <> BreakInvalid -> lend (w_start w3) (s_save (w_sc w3)) <= fst opt).
  { intros Hr. destruct (C3 Hr) as (C31 & _). rewrite F3v, F3s. destruct (s_alt (w_sc w)) eqn:A; [unfold lend; cbn; lia|].
    apply Hord. congruence. }
  (* the pending last option after this read *)
  assert (HFin : lc_truncating lc = false -> Fin n attrs -> PendW n b /\ PendG n b).
  { intros Hlc HF. destruct (proj2 (HAcc Hlc) HF) as [(E1 & E2 & E3)|E]; [exfalso|exact E].
    fold b in E2, E3. unfold wmeas in X6. rewrite FW in X6. cbn [b2z] in X6. lia. }
  assert (PG1 : PendG n b -> PendG n b1) by (unfold PendG; rewrite S1, S2, S3; auto).
  assert (PGm : PendG n b -> PendG n (mark_word_unused b1)) by (unfold PendG; cbn; rewrite S1, S2, S3; auto).
  assert (PW1 : fst opt <> n - 1 -> PendW n b1) by (intros; unfold PendW; left; lia).
  assert (PWm : PendW n (mark_word_unused b1)).
  { unfold PendW; cbn. destruct (Z.eq_dec (fst opt) (n - 1)); [right; lia|left; lia]. }
  assert (Hphi : phi n b1 + 1 <= phi n b /\ phi n (mark_word_unused b1) <= phi n b /\ psi n (mark_word_unused b1) + 1 <= phi n b
                 /\ psi n b1 + 1 <= phi n b).
  { unfold phi, psi, wmeas, gmeas in *; cbn. rewrite S1, S3, FW in *. cbn [b2z] in *. lia. }
  destruct (mark_best_proj w3 [cand]) as (M1 & M2 & M3 & M4).
  destruct (restore_proj w3) as (R1 & R2 & R3 & R4).
  assert (HBr : has_best (restore w3) = has_best w) by (apply has_best_same; rewrite R4; exact F3best).
  assert (Hb01 : 0 <= b2z (has_best w) <= 1) by (destruct (has_best w); cbn; lia).
  (* the grapheme loop entered from a state that carries the checkpoint of this iteration *)
  assert (G : forall wx, JP n wx -> s_save (w_sc wx) = s_alt (w_sc w) -> w_start wx = w_start w ->
              b_prevW (w_br wx) = b_prevW b1 -> b_attrs (w_br wx) = attrs -> b_wpos (w_br wx) = b_wpos b1 ->
              b_unusedW (w_br wx) = b_unusedW b1 -> NEl lc wx ->
              (lc_truncating lc = false -> AccI n P0 attrs (restore wx)) ->
              inner_loop (br_fuel wx) (restore wx) opt lc = Ok (w', d) ->
              JP n w' /\ NEl lc w' /\ b_attrs (w_br w') = attrs
              /\ (d = false -> pair_ok (w_runs w') n (best_end w') [] (w_idx w'))
              /\ (lc_truncating lc = false -> AccR n P0 attrs w' d)).
  { intros wx Px Sx Stx Pwx Ax Wx Ux Nx Accx Hx. destruct (restore_proj wx) as (Rx1 & Rx2 & Rx3 & Rx4).
    eapply (inner_loop_J n P0 attrs _ _ opt); [apply JT_restore; exact Px| | | | | |lia|exact Accx|exact Hx].
    - unfold OrdI. rewrite Rx1, Rx2, Rx3, Sx, Stx, Pwx. intros Hne. left. destruct (HO Hne) as [O1 O2]. fold b in O1, O2.
      destruct (b_isUnusedW b) eqn:FB; [cbn in O2; lia|]. rewrite (X9 eq_refl). exact O1.
    - intros Hlc l Hl. rewrite Rx4 in Hl. eapply Nx; eauto.
    - rewrite Rx2. exact Ax.
    - rewrite Rx2, Wx. lia.
    - rewrite Rx2, Wx, Ux. lia. }
  destruct r.
  - (* BreakInvalid: the option is discarded *)
    cbv beta iota zeta in H. rewrite R2, F3b in H.
    destruct (set_br_proj (restore w3) (discard_word b1)) as (D1 & D2 & D3 & D4 & D5).
    assert (HBd : has_best (set_br (restore w3) (discard_word b1)) = has_best w).
    { rewrite (has_best_same (restore w3) _ D4). exact HBr. }
    apply (IH (set_br (restore w3) (discard_word b1)) lc w' d); auto.
    + apply JT_set_br; [apply JT_restore; exact P3|apply Bk_discard; assumption].
    + unfold OrdO. rewrite D1, D2, D3, R1, R3, F3v, F3s. cbn [discard_word b_unusedW b_isUnusedW]. rewrite FW.
      intros Hne. destruct (HO Hne) as [O1 O2]. fold b in O1, O2.
      destruct (b_isUnusedW b) eqn:FB; [cbn in O2; lia|]. rewrite (X9 eq_refl). split; [exact O1|reflexivity].
    + intros Hlc l Hl. rewrite D4, R4, F3best in Hl. eapply HN; eauto.
    + rewrite D2. cbn. congruence.
    + intros Hlc. pose proof (HAcc Hlc) as ((A1 & A2) & _). fold b in A1, A2. unfold AccO.
      rewrite D2, best_end_set_br, best_end_restore, BE3, HBd. rewrite (proj1 (phi_discard n b1)).
      cbn [discard_word b_isUnusedW]. rewrite FW.
      split; [split; [lia|reflexivity]|].
      intros HF. right. destruct (HFin Hlc HF) as [E1 E2]. split.
      * assert (PWx : PendW n b1) by (apply PW1; intros E; apply (L3 E); reflexivity).
        unfold PendW in *. cbn. rewrite FW in *. cbn [b2z] in *. destruct PWx as [PWx|PWx]; [left; exact PWx|lia].
      * pose proof (PG1 E2) as PGx. unfold PendG in *. cbn. exact PGx.
  - (* EndLine *)
    cbv beta iota zeta in H. injection H as <- <-. assert (Ht : lc_truncating lc = true) by (apply K3; left; reflexivity).
    destruct (C3 ltac:(discriminate)) as (C31 & C32 & C33).
    destruct (JT_mark_best n w3 cand (fst opt + 1) P3 C33 C32 ltac:(specialize (Hsv ltac:(discriminate)); lia) ltac:(lia)) as [T4 _].
    split; [exact (proj1 T4)|]. split; [intros Hlc; congruence|]. split; [rewrite M2, F3b; congruence|].
    split; [discriminate|intros; congruence].
  - (* Truncated *)
    assert (Ht : lc_truncating lc = true) by (apply K3; right; reflexivity).
    assert (X' : JP n (if has_best w3 then w3 else mark_best (restore w3) []) /\ w_br (if has_best w3 then w3 else mark_best (restore w3) []) = b1
                 /\ s_save (w_sc (if has_best w3 then w3 else mark_best (restore w3) [])) = s_alt (w_sc w)
                 /\ w_start (if has_best w3 then w3 else mark_best (restore w3) []) = w_start w).
    { destruct (has_best w3).
      - split; [exact P3|]. auto.
      - destruct (JT_restore n w3 P3) as [P3r _].
        destruct (JP_mark_best_nil n (restore w3) P3r ltac:(destruct w3; cbn; apply Z.le_refl)) as [P4 _]. split; [exact P4|].
        destruct w3; cbn in *. auto. }
    destruct X' as (X'1 & X'2 & X'3 & X'4).
    cbv beta iota zeta in H. destruct (policy_never _).
    + injection H as <- <-. split; [exact X'1|]. split; [intros; congruence|]. split; [rewrite X'2; congruence|].
      split; [discriminate|intros; congruence].
    + apply (G _ X'1 X'3 X'4); auto; try (rewrite X'2; auto; congruence).
      * intros Hlc; congruence.
      * intros Hlc; congruence.
  - (* NewLineBeforeBreak *)
    cbv beta iota zeta in H. rewrite R2, F3b in H.
    pose proof (JT_set_br n _ _ (JT_restore n w3 P3) Mw) as T5.
    destruct (set_br_proj (restore w3) (mark_word_unused b1)) as (U1 & U2 & U3 & U4 & U5).
    assert (HB5 : has_best (set_br (restore w3) (mark_word_unused b1)) = has_best w).
    { rewrite (has_best_same (restore w3)); [exact HBr|exact U4]. }
    assert (Hhb : has_best w = true) by (rewrite <- HB3; apply K1; reflexivity).
    destruct (_ || _).
    + injection H as <- <-.
      split; [exact (proj1 T5)|]. split; [intros Hlc l Hl; rewrite U4, R4, F3best in Hl; eapply HN; eauto|].
      split; [rewrite U2; cbn; congruence|]. split; [intros _; apply JT_post; exact T5|].
      intros Hlc. unfold AccR. rewrite U2, best_end_set_br, best_end_restore, BE3.
      pose proof (HAcc Hlc) as ((A1 & A2) & _). fold b in A1, A2. rewrite Hhb in A1. cbn [b2z] in A1.
      split; [lia|]. intros HF. right. destruct (HFin Hlc HF) as [E1 E2]. split; [exact PWm|apply PGm; exact E2].
    + eapply (G (set_br (restore w3) (mark_word_unused b1)) (proj1 T5)); [ | | | | | | | |exact H].
      * rewrite U5. destruct w3; cbn in *. exact F3v.
      * rewrite U3, R3. exact F3s.
      * rewrite U2; reflexivity.
      * rewrite U2; cbn; congruence.
      * rewrite U2; reflexivity.
      * rewrite U2; reflexivity.
      * intros Hlc l Hl; rewrite U4, R4, F3best in Hl; eapply HN; eauto.
      * intros Hlc. unfold AccI.
        destruct (restore_proj (set_br (restore w3) (mark_word_unused b1))) as (V1 & V2 & V3 & V4).
        rewrite V2, U2, best_end_restore, best_end_set_br, best_end_restore, BE3.
        rewrite (has_best_same (set_br (restore w3) (mark_word_unused b1))) by exact V4. rewrite HB5, Hhb.
        pose proof (HAcc Hlc) as ((A1 & A2) & _). fold b in A1, A2. rewrite Hhb in A1. cbn [b2z] in A1.
        split; [split; [lia|intros _; lia]|].
        intros HF. right. destruct (HFin Hlc HF) as [E1 E2]. split; [apply PGm; exact E2|left; exact PWm].
  - (* Fits *)
    destruct (C3 ltac:(discriminate)) as (C31 & C32 & C33).
    destruct (JT_mark_best n w3 cand (fst opt + 1) P3 C33 C32 ltac:(specialize (Hsv ltac:(discriminate)); lia) ltac:(lia)) as [T4 BE4].
    destruct (chain_app_lend _ _ _ _ C33 C32) as [CL _].
    assert (N4 : NEl lc (mark_best w3 [cand])).
    { intros _ l Hl. rewrite M4 in Hl. injection Hl as <-. destruct (s_alt (w_sc w3)); discriminate. }
    assert (Acc4 : lc_truncating lc = false -> Fin n attrs ->
                   (fst opt = n - 1 /\ best_end (mark_best w3 [cand]) = n) \/ (PendW n b1 /\ PendG n b1)).
    { intros Hlc HF. destruct (HFin Hlc HF) as [E1 E2]. destruct (Z.eq_dec (fst opt) (n - 1)) as [El|Enl]; [left; split; [exact El|lia]|].
      right. split; [apply PW1; exact Enl|apply PG1; exact E2]. }
    cbv beta iota zeta in H. destruct (snd opt).
    + injection H as <- <-. split; [exact (proj1 T4)|]. split; [exact N4|]. split; [rewrite M2, F3b; congruence|].
      split; [intros _; apply JT_post; exact T4|].
      intros Hlc. unfold AccR. rewrite M2, F3b. pose proof (HAcc Hlc) as ((A1 & A2) & _). fold b in A1, A2.
      split; [lia|]. intros HF. destruct (Acc4 Hlc HF) as [[_ E]|E]; [left; exact E|right; exact E].
    + apply (IH (mark_best w3 [cand]) lc w' d); auto.
      * unfold OrdO. rewrite M1, M2, M3, F3b, FW. intros _. split; [lia|reflexivity].
      * rewrite M2, F3b; congruence.
      * intros Hlc. unfold AccO. rewrite M2, F3b, has_best_mark, FW. pose proof (HAcc Hlc) as ((A1 & A2) & _). fold b in A1, A2.
        split; [split; [cbn [b2z]; lia|reflexivity]|].
        intros HF. destruct (Acc4 Hlc HF) as [[E0 E]|E]; [left; cbn; split; [exact E|lia]|right; exact E].
  - (* CannotFit *)
    assert (Hhb : has_best w = false) by (rewrite <- HB3; apply K2; reflexivity).
    cbv beta iota zeta in H. destruct (policy_never w3).
    + destruct (lc_truncating lc) eqn:Hlc.
      * injection H as <- <-. split; [exact P3|]. split; [intros; congruence|]. split; [rewrite F3b; congruence|].
        split; [discriminate|intros; congruence].
      * injection H as <- <-.
        destruct (C3 ltac:(discriminate)) as (C31 & C32 & C33).
        destruct (JT_mark_best n w3 cand (fst opt + 1) P3 C33 C32 ltac:(specialize (Hsv ltac:(discriminate)); lia) ltac:(lia)) as [T4 BE4].
        split; [exact (proj1 T4)|].
        split; [intros _ l Hl; rewrite M4 in Hl; injection Hl as <-; destruct (s_alt (w_sc w3)); discriminate|].
        split; [rewrite M2, F3b; congruence|]. split; [intros _; apply JT_post; exact T4|].
        intros _. unfold AccR. rewrite M2, F3b, BE4. pose proof (HAcc eq_refl) as ((A1 & A2) & _). fold b in A1, A2.
        split; [lia|]. intros HF. destruct (HFin eq_refl HF) as [E1 E2].
        destruct (Z.eq_dec (fst opt) (n - 1)) as [El|Enl]; [left; lia|right; split; [apply PW1; exact Enl|apply PG1; exact E2]].
    + apply (G w3 P3); auto; try (rewrite F3b; auto; congruence).
      * intros Hlc l Hl. rewrite F3best in Hl. eapply HN; eauto.
      * intros Hlc. unfold AccI. rewrite R2, F3b, best_end_restore, BE3, HBr, Hhb.
        pose proof (HAcc Hlc) as ((A1 & A2) & _). fold b in A1, A2.
        split; [split; [lia|cbn; intros; lia]|].
        intros HF. right. destruct (HFin Hlc HF) as [E1 E2]. split; [apply PG1; exact E2|].
        destruct (Z.eq_dec (fst opt) (n - 1)) as [El|Enl]; [right; lia|left; apply PW1; exact Enl].
Qed.

(* ---- postProcessLine, in two halves ----------------------------------------------------------------- *)

(* first half: bidi ordering, trailing-space trim, new line start *)
Definition pp_first (w : W) (line : option (list out)) : W * option (list out) :=
  let cfg := w_cfg w in
  match line with
  | Some ((_ :: _) as fl) =>
      let fl := compute_bidi_ordering (c_dir cfg) fl in
      let '(w, fl) :=
        if c_notrim cfg then (w, fl)
        else
          let goal0 := if dir_rtl (c_dir cfg) then 0 else zlen fl - 1 in
          let goal := match find_vis fl goal0 0 with Some i => i | None => goal0 end in
          let fvr := znth out_zero fl goal in
          if 0 <? o_len fvr then
            let gi := if dir_rtl (c_dir cfg) then o_lo fvr else o_lo fvr + o_len fvr - 1 in
            let st' := store_update (w_st w) (o_src fvr) gi zero_adv in
            (set_st w st', zset fl goal (recompute_advance st' fvr))
          else (w, fl) in
      let last := znth out_zero fl (zlen fl - 1) in
      (set_start w (o_cnt last + o_off last), Some fl)
  | _ => (w, line)
  end.
(* second half: done, truncation bookkeeping; cfg is the configuration on entry *)
Definition pp_tail (cfg : wcfg) (w : W) (line : option (list out)) (done : bool) : W * wrapped * bool :=
  let n := b_n (w_br w) in
  let done := done || (n <=? w_start w) in
  let '(w, line, truncated, done) :=
    if w_truncating w then
      let k := c_trunc cfg - 1 in
      let w := set_cfg w (mkCfg (c_dir cfg) k (c_truncator cfg) (c_cont cfg) (c_policy cfg) (c_notrim cfg)) in
      if k =? 0 then
        let truncated := n - w_start w in
        if (0 <? truncated) || c_cont cfg then
          let t := c_truncator cfg in
          let t' := mkOut (o_adv t) (o_dir t) (w_start w) truncated (o_src t) (o_lo t) (o_len t) (o_vis t) in
          let fl := match line with Some l => l | None => [] end in
          (w, Some (compute_bidi_ordering (c_dir cfg) (fl ++ [t'])), truncated, true)
        else (w, line, truncated, true)
      else (w, line, 0, done)
    else (w, line, 0, done) in
  let w := if done then set_more w false else w in
  (w, mkWrapped line truncated (w_start w), done).
Lemma post_process_split : forall w line done,
  post_process w line done = let '(w1, l1) := pp_first w line in pp_tail (w_cfg w) w1 l1 done.
Proof. intros. unfold post_process, pp_first, pp_tail. destruct line as [[|a fl]|]; reflexivity. Qed.

Lemma pp_first_spec : forall w line w1 l1,
  (forall l, line = Some l -> chain (w_start w) l (lend (w_start w) l)) ->
  pp_first w line = (w1, l1) ->
  w_cfg w1 = w_cfg w /\ w_truncating w1 = w_truncating w /\ w_more w1 = w_more w /\ w_runs w1 = w_runs w /\ w_idx w1 = w_idx w
  /\ w_saved w1 = w_saved w /\ w_mp w1 = w_mp w /\ w_br w1 = w_br w
  /\ w_start w1 = (match line with Some l => lend (w_start w) l | None => w_start w end)
  /\ match line with None => l1 = None | Some l => exists l', l1 = Some l' /\ map rng l' = map rng l end.
Proof.
  intros w line w1 l1 HL H. unfold pp_first in H. destruct line as [[|a fl]|].
  - inversion H; subst. repeat split; eauto.
  - pose proof (HL _ eq_refl) as He. set (e := lend (w_start w) (a :: fl)) in *.
    set (fl0 := compute_bidi_ordering (c_dir (w_cfg w)) (a :: fl)) in *.
    assert (R0 : map rng fl0 = map rng (a :: fl)) by apply bidi_rng.
    assert (N0 : fl0 <> []) by (intros Q; rewrite Q in R0; discriminate).
    assert (C0 : chain (w_start w) fl0 e) by (unfold chain; rewrite (chain_rng _ _ _ R0); exact He).
    clearbody fl0.
    assert (K : forall wz flz, map rng flz = map rng fl0 -> (exists st, wz = set_st w st) ->
                (set_start wz (o_cnt (znth out_zero flz (zlen flz - 1)) + o_off (znth out_zero flz (zlen flz - 1))), Some flz) = (w1, l1) ->
                w_cfg w1 = w_cfg w /\ w_truncating w1 = w_truncating w /\ w_more w1 = w_more w /\ w_runs w1 = w_runs w /\ w_idx w1 = w_idx w
                /\ w_saved w1 = w_saved w /\ w_mp w1 = w_mp w /\ w_br w1 = w_br w /\ w_start w1 = e
                /\ exists l', l1 = Some l' /\ map rng l' = map rng (a :: fl)).
    { intros wz flz Rz (st & ->) Hz.
      assert (Nz : flz <> []) by (intros Q; rewrite Q in Rz; destruct fl0; [congruence|discriminate]).
      assert (Cz : chain (w_start w) flz e) by (unfold chain; rewrite (chain_rng _ _ _ Rz); exact C0).
      assert (Rzz : map rng flz = map rng (a :: fl)) by (rewrite Rz; exact R0).
      rewrite (chain_last' _ _ _ Cz Nz) in Hz. inversion Hz; subst. destruct w; cbn. repeat split; auto.
      exists flz. split; [reflexivity|exact Rzz]. }
    destruct (c_notrim (w_cfg w)).
    + apply (K w fl0 eq_refl); [exists (w_st w); destruct w; reflexivity|exact H].
    + cbv zeta in H. set (goal := match find_vis fl0 _ 0 with Some i => i | None => _ end) in H. clearbody goal.
      destruct (0 <? o_len (znth out_zero fl0 goal)) eqn:EL.
      * destruct (goal <? zlen fl0) eqn:EG.
        -- apply Z.ltb_lt in EG. eapply K; [|eexists; reflexivity|exact H]. apply zset_rng; [reflexivity|exact EG].
        -- apply Z.ltb_ge in EG. rewrite (znth_default out_zero fl0 goal EG) in EL. cbn in EL. discriminate.
      * apply (K w fl0 eq_refl); [exists (w_st w); destruct w; reflexivity|exact H].
  - inversion H; subst. repeat split; eauto.
Qed.

Definition tfinal (w : W) : bool := w_truncating w && (c_trunc (w_cfg w) - 1 =? 0).

Lemma pp_tail_spec : forall n w line done w' wl d',
  b_n (w_br w) = n -> w_start w <= n ->
  pp_tail (w_cfg w) w line done = (w', wl, d') ->
  let be := w_start w in
  w_runs w' = w_runs w /\ w_idx w' = w_idx w /\ w_saved w' = w_saved w /\ w_mp w' = w_mp w /\ w_br w' = w_br w
  /\ w_truncating w' = w_truncating w /\ w_start w' = be /\ wl_next wl = be
  /\ c_truncator (w_cfg w') = c_truncator (w_cfg w)
  /\ (d' = true -> w_more w' = false)
  /\ (d' = false -> w_more w' = w_more w /\ done = false /\ be < n /\ tfinal w = false
                    /\ c_trunc (w_cfg w') = (if w_truncating w then c_trunc (w_cfg w) - 1 else c_trunc (w_cfg w)))
  /\ (d' = true -> (done = true -> tfinal w = false -> be = n) -> be + wl_truncated wl = n)
  /\ 0 <= wl_truncated wl /\ (wl_truncated wl = 0 \/ wl_truncated wl = n - be)
  /\ (tfinal w = false -> wl_line wl = line /\ wl_truncated wl = 0)
  /\ (tfinal w = true -> wl_truncated wl = n - be /\
        ((wl_line wl = line /\ n - be <= 0)
         \/ (0 < n - be \/ c_cont (w_cfg w) = true) /\ exists l, wl_line wl = Some l /\
              map rng l = map rng (match line with Some x => x | None => [] end) ++ [(be, n - be, o_src (c_truncator (w_cfg w)))])).
Proof.
  intros n w line done w' wl d' Hn Hle H. unfold pp_tail in H. rewrite Hn in H. unfold tfinal.
  destruct (w_truncating w) eqn:TR; cbn [andb].
  - destruct (c_trunc (w_cfg w) - 1 =? 0) eqn:K.
    + rewrite start_set_cfg in H.
      destruct ((0 <? n - w_start w) || c_cont (w_cfg w)) eqn:INS.
      * inversion H; subst w' wl d'; clear H. cbn. destruct w; cbn in *.
        repeat split; auto; try discriminate; try lia.
        right. split; [apply orb_prop in INS; destruct INS as [I|I]; [apply Z.ltb_lt in I; lia|right; exact I]|].
        eexists. split; [reflexivity|]. rewrite bidi_rng, map_app. reflexivity.
      * apply orb_false_elim in INS. destruct INS as [I1 I2]. apply Z.ltb_ge in I1.
        inversion H; subst w' wl d'; clear H. cbn. destruct w; cbn in *.
        repeat split; auto; try discriminate; try lia.
    + destruct (done || (n <=? w_start w)) eqn:D.
      * inversion H; subst w' wl d'; clear H. cbn. destruct w; cbn in *. rewrite TR.
        repeat split; auto; try discriminate; try lia.
        intros _ HD. apply orb_prop in D. destruct D as [D|D]; [subst done; specialize (HD eq_refl eq_refl); lia|apply Z.leb_le in D; lia].
      * apply orb_false_elim in D. destruct D as [D1 D2]. apply Z.leb_gt in D2.
        inversion H; subst w' wl d'; clear H. cbn. destruct w; cbn in *. rewrite TR.
        repeat split; auto; try discriminate; try lia.
  - destruct (done || (n <=? w_start w)) eqn:D.
    + inversion H; subst w' wl d'; clear H. cbn. destruct w; cbn in *. rewrite TR.
      repeat split; auto; try discriminate; try lia.
      intros _ HD. apply orb_prop in D. destruct D as [D|D]; [subst done; specialize (HD eq_refl eq_refl); lia|apply Z.leb_le in D; lia].
    + apply orb_false_elim in D. destruct D as [D1 D2]. apply Z.leb_gt in D2.
      inversion H; subst w' wl d'; clear H. cbn. destruct w; cbn in *. rewrite TR.
      repeat split; auto; try discriminate; try lia.
Qed.

(* ---- one WrapNextLine call ---------------------------------------------------------------------------- *)

(* what holds between two calls while the wrapper reports more lines *)
Definition CI (n : Z) (attrs : list Z) (w : W) : Prop :=
  runs_ok (w_runs w) n /\ pair_ok (w_runs w) n (w_start w) [] (w_idx w) /\ 0 <= w_saved w <= w_idx w /\ mp_ok w
  /\ Bk n (w_br w) /\ b_attrs (w_br w) = attrs /\ 0 <= w_start w < n
  /\ w_truncating w = (0 <? c_trunc (w_cfg w))
  /\ (Fin n attrs -> PendW n (w_br w) /\ PendG n (w_br w)).

(* what one call returns: NextLine and Truncated; a non-nil line is non-empty and consists of a contiguous chain of
   non-empty text runs from the previous NextLine to the new one, followed by the truncator (covering the rest of the
   paragraph) when it is appended *)
Definition line_result2 (n start tsrc : Z) (wl : wrapped) : Prop :=
  start <= wl_next wl <= n /\ 0 <= wl_truncated wl /\ (wl_truncated wl = 0 \/ wl_truncated wl = n - wl_next wl)
  /\ match wl_line wl with
     | None => wl_next wl = start
     | Some l => l <> [] /\ exists body, chain start body (wl_next wl) /\ all_pos body
                 /\ (map rng l = map rng body
                     \/ (map rng l = map rng body ++ [(wl_next wl, wl_truncated wl, tsrc)] /\ wl_truncated wl = n - wl_next wl))
     end.

Lemma pair_ok_le : forall rs n s idx k, runs_ok rs n -> pair_ok rs n s [] idx -> 0 <= k <= idx -> pair_ok rs n s [] k.
Proof.
  intros rs n s idx k [HC HA] (_ & pre & post & m & e & Hsplit & Hidx & Hpre & Hpost & Halt & He1 & He2) Hk.
  split; [constructor|].
  assert (Hp : pre = zfirstn k pre ++ zskipn k pre) by (unfold zfirstn, zskipn; symmetry; apply firstn_skipn).
  rewrite Hp in Hpre. apply chain_app_inv in Hpre. destruct Hpre as (m' & P1 & P2).
  assert (Hpos : all_pos (zskipn k pre)).
  { rewrite Hsplit in HA. apply Forall_app in HA. destruct HA as [HA _]. rewrite Hp in HA. apply Forall_app in HA. tauto. }
  exists (zfirstn k pre), (zskipn k pre ++ post), m', s. repeat split; auto.
  - rewrite app_assoc, <- Hp. exact Hsplit.
  - apply zlen_zfirstn. lia.
  - eapply chain_app; eauto.
  - intros _. specialize (He1 eq_refl). pose proof (chain_pos_le _ _ _ P2 Hpos). lia.
  - congruence.
Qed.

Lemma map_rng_nil : forall l, map rng l = [] -> l = [].
Proof. destruct l; [reflexivity|discriminate]. Qed.
Lemma all_pos_rng : forall l l', map rng l = map rng l' -> all_pos l' -> all_pos l.
Proof.
  induction l as [|a l IH]; intros l' H P; destruct l' as [|b l']; try discriminate; [constructor|].
  cbn in H. inversion H. inversion P; subst. constructor; [unfold rng in H1; inversion H1; lia|eapply IH; eauto].
Qed.

Lemma CI_peek : forall n attrs w, CI n attrs w -> exists ci run, peek w = (ci, run, true).
Proof.
  intros n attrs w (HR & (_ & pre & post & m & e & Hsplit & Hidx & Hpre & Hpost & Halt & He1 & He2) & _ & _ & _ & _ & Hst & _).
  rewrite (peek_split w pre post Hsplit Hidx). destruct post; [|eauto].
  exfalso. inversion Hpost. specialize (He1 eq_refl). lia.
Qed.

Lemma CI_start_line : forall n attrs w, CI n attrs w ->
  JT n (start_line w) /\ OrdO (start_line w) /\ b_attrs (w_br (start_line w)) = attrs
  /\ (forall lc, NEl lc (start_line w))
  /\ AccO n (phi n (w_br w)) attrs (start_line w).
Proof.
  intros n attrs w (HR & HP & HS & HM & HB & HA & Hst & HT & HF).
  assert (I : Inv n (start_line w)).
  { apply Inv_intro; destruct w; cbn in *; auto.
    - eapply pair_ok_le; eauto.
    - intros l Hl; discriminate. }
  split; [|split; [|split; [|split]]].
  - split; [split; [exact I|]|]; destruct w; unfold best_end, lend; cbn in *.
    + split; [exact HB|]. split; [lia|]. split; [lia|]. split; [intros l Hl; discriminate|]. lia.
    + lia.
  - intros Hne. destruct w; cbn in Hne. congruence.
  - destruct w; exact HA.
  - intros lc _ l Hl. destruct w; discriminate.
  - unfold AccO. replace (w_br (start_line w)) with (w_br w) by (destruct w; reflexivity).
    replace (has_best (start_line w)) with false by (destruct w; reflexivity). cbn.
    split; [split; [lia|discriminate]|]. intros F. right. apply HF; exact F.
Qed.

Lemma wrap_next_line_J : forall n attrs w mw w' wl d,
  CI n attrs w -> w_more w = true ->
  wrap_next_line w mw = Ok (w', wl, d) ->
  line_result2 n (w_start w) (o_src (c_truncator (w_cfg w))) wl
  /\ wl_next wl = w_start w' /\ c_truncator (w_cfg w') = c_truncator (w_cfg w)
  /\ (d = false -> CI n attrs w' /\ w_more w' = true /\ phi n (w_br w') + 1 <= phi n (w_br w))
  /\ (d = true -> w_more w' = false /\ (Fin n attrs -> wl_next wl + wl_truncated wl = n)).
Proof.
  intros n attrs w mw w' wl d HC Hm H. unfold wrap_next_line in H. rewrite Hm in H. cbn [negb] in H.
  destruct (CI_peek n attrs w HC) as (ci & run & PK). rewrite PK in H. cbn [negb] in H.
  destruct (CI_start_line n attrs w HC) as (T0 & O0 & A0 & N0 & Acc0).
  pose proof HC as (HR & HP & HS & HM & HB & HA & Hst & HT & HF).
  set (lc := mkLC _ _ _) in H.
  destruct (outer_loop _ (start_line w) lc) as [[w2 d2]| | |] eqn:OL; cbn [bind] in H; try discriminate.
  destruct (outer_loop_ok n _ _ _ _ _ (proj1 (proj1 T0)) OL) as [_ O2].
  destruct (outer_loop_J n (phi n (w_br w)) attrs _ _ _ _ _ T0 O0 (N0 lc) A0 (fun _ => Acc0) OL) as (P2 & N2 & A2 & Post2 & Acc2).
  destruct O2 as (Oc & Ot & Os & Om & Or & On & Oa).
  replace (w_cfg (start_line w)) with (w_cfg w) in * by (destruct w; reflexivity).
  replace (w_truncating (start_line w)) with (w_truncating w) in * by (destruct w; reflexivity).
  replace (w_start (start_line w)) with (w_start w) in * by (destruct w; reflexivity).
  replace (w_more (start_line w)) with (w_more w) in * by (destruct w; reflexivity).
  replace (w_runs (start_line w)) with (w_runs w) in * by (destruct w; reflexivity).
  cbv beta iota zeta in H. injection H as PP. rewrite post_process_split in PP.
  destruct (pp_first w2 (s_best (w_sc w2))) as [w1 l1] eqn:PF.
  pose proof P2 as (I2 & B2 & S2 & St2 & BP2 & _ & BN2).
  assert (HL : forall l, s_best (w_sc w2) = Some l -> chain (w_start w2) l (lend (w_start w2) l)).
  { intros l Hl. destruct I2 as (_ & _ & _ & _ & HBo). destruct (HBo l Hl) as [e He]. rewrite (lend_chain _ _ _ He). exact He. }
  destruct (pp_first_spec _ _ _ _ HL PF) as (F1 & F2 & F3 & F4 & F5 & F6 & F7 & F8 & F9 & F10).
  fold (best_end w2) in F9.
  rewrite <- F1 in PP.
  destruct (pp_tail_spec n w1 l1 d2 w' wl d ltac:(rewrite F8; exact (proj1 B2)) ltac:(rewrite F9; exact BN2) PP)
    as (G1 & G2 & G3 & G4 & G5 & G6 & G7 & G8 & G9 & G10 & G11 & G12 & G13 & G14 & G15 & G16).
  pose proof (best_end_ge n w2 P2) as BG. rewrite Os in BG.
  assert (TF : tfinal w1 = lc_truncating lc).
  { unfold tfinal, lc. cbn. rewrite F2, F1, Ot, Oc, HT.
    destruct (c_trunc (w_cfg w) =? 1) eqn:E1.
    - apply Z.eqb_eq in E1. rewrite E1. reflexivity.
    - apply Z.eqb_neq in E1. destruct (0 <? c_trunc (w_cfg w)); [|reflexivity]. cbn. apply Z.eqb_neq. lia. }
  split; [|split; [|split; [|split]]].
  - (* the returned line *)
    unfold line_result2. rewrite G8, F9. split; [lia|]. split; [exact G13|]. split; [rewrite F9 in G14; exact G14|].
    assert (Body : exists body, chain (w_start w) body (best_end w2) /\ all_pos body
                   /\ match s_best (w_sc w2) with Some lb => body = lb | None => body = [] end).
    { destruct (s_best (w_sc w2)) as [lb|] eqn:EB.
      - exists lb. split; [|split; [apply BP2; reflexivity|reflexivity]]. rewrite <- Os. unfold best_end. rewrite EB. apply HL. reflexivity.
      - exists []. split; [|split; [constructor|reflexivity]]. unfold best_end. rewrite EB, Os. reflexivity. }
    destruct Body as (body & Bc & Bp & Be).
    destruct (tfinal w1) eqn:TFe.
    + (* the truncating line *)
      destruct (G16 eq_refl) as (Tr & [(Tl & Tz)|(Tc & l & Tl & Tm)]).
      * (* no truncator: nothing was cut, the line is the best line *)
        rewrite Tl. destruct (s_best (w_sc w2)) as [lb|] eqn:EB.
        -- destruct F10 as (l' & -> & Rl). subst body.
           assert (lb <> []).
           { intros ->. unfold best_end in F9. rewrite EB in F9. unfold lend in F9. cbn in F9. lia. }
           split; [intros ->; destruct lb; [congruence|discriminate]|].
           exists lb. split; [exact Bc|]. split; [exact Bp|]. left. exact Rl.
        -- rewrite F10. unfold best_end. rewrite ?EB. exact Os.
      * rewrite Tl. split; [intros ->; destruct (map rng _); discriminate|].
        exists body. split; [exact Bc|]. split; [exact Bp|]. right. rewrite Tr, F9. split; [|reflexivity].
        rewrite Tm, F9, F1, Oc. f_equal.
        destruct (s_best (w_sc w2)) as [lb|]; [destruct F10 as (l' & -> & Rl); subst body; exact Rl|subst body; rewrite F10; reflexivity].
    + destruct (G15 eq_refl) as (Tl & Tz). rewrite Tl.
      destruct (s_best (w_sc w2)) as [lb|] eqn:EB.
      * destruct F10 as (l' & -> & Rl). subst body.
        assert (lb <> []) by (apply (N2 ltac:(rewrite <- TF; reflexivity) lb); first [exact EB|reflexivity]).
        split; [intros ->; destruct lb; [congruence|discriminate]|].
        exists lb. split; [exact Bc|]. split; [exact Bp|]. left. exact Rl.
      * rewrite F10. unfold best_end. rewrite ?EB. exact Os.
  - rewrite G8, G7. reflexivity.
  - rewrite G9, F1, Oc. reflexivity.
  - intros ->. destruct (G11 eq_refl) as (D1 & D2 & D3 & D4 & D5).
    assert (Hlc : lc_truncating lc = false) by (rewrite <- TF; exact D4).
    pose proof (Acc2 Hlc) as R. unfold AccR in R. rewrite D2 in R. destruct R as (R1 & R2).
    split; [|split; [rewrite D1, F3, Om; exact Hm|rewrite G5, F8; tauto]].
    unfold CI. rewrite G1, G2, G3, G5, G6, G7, F4, F5, F6, F8, F9, F2, Or, Ot.
    split; [exact HR|]. split; [rewrite <- Or; apply Post2; exact D2|]. split; [exact S2|].
    split; [|split; [exact B2|split; [exact A2|split; [rewrite F9 in D3; lia|split]]]].
    + destruct I2 as (_ & _ & _ & Hmp & _). unfold mp_ok in *. rewrite G4, G1, F7, F4. exact Hmp.
    + rewrite D5, F2, F1, Ot, Oc, HT. unfold tfinal in D4. rewrite F2, F1, Ot, Oc, HT in D4.
      destruct (0 <? c_trunc (w_cfg w)) eqn:E0; [|symmetry; exact E0]. cbn in D4. apply Z.ltb_lt in E0. apply Z.eqb_neq in D4.
      symmetry. apply Z.ltb_lt. lia.
    + intros F. destruct (R2 F) as [E|E]; [rewrite F9 in D3; lia|exact E].
  - intros ->. split; [apply G10; reflexivity|]. intros F. rewrite G8. apply G12; [reflexivity|].
    intros -> TFf. rewrite F9. pose proof (Acc2 ltac:(rewrite <- TF; exact TFf)) as R. unfold AccR in R. apply R. exact F.
Qed.

(* ---- any number of calls ------------------------------------------------------------------------------- *)

(* WrapNextLine called once per element of [widths] (calls after done included); every result is recorded *)
Fixpoint run_calls (w : W) (widths : list Z) : res (W * list (wrapped * bool)) :=
  match widths with
  | [] => Ok (w, [])
  | mw :: rest =>
      do r <- wrap_next_line w mw;
      let '(w1, wl, d) := r in
      do r2 <- run_calls w1 rest;
      Ok (fst r2, (wl, d) :: snd r2)
  end.

(* the recorded results, read from rune position [pos]: while the wrapper is live every call satisfies line_result2 from
   the previous NextLine, and the call that reports done accounts for the whole paragraph (given the segmenter's
   end-of-text flags [fin]); afterwards every call returns the nil line *)
Fixpoint lines_ok (n tsrc : Z) (fin : Prop) (live : bool) (pos : Z) (rs : list (wrapped * bool)) : Prop :=
  match rs with
  | [] => True
  | (wl, d) :: rest =>
      match live return Prop with
      | true => line_result2 n pos tsrc wl /\ (d = true -> fin -> wl_next wl + wl_truncated wl = n)
                /\ lines_ok n tsrc fin (negb d) (wl_next wl) rest
      | false => wl_line wl = None /\ wl_truncated wl = 0 /\ wl_next wl = pos /\ d = true /\ lines_ok n tsrc fin false pos rest
      end
  end.

Lemma run_calls_ok : forall n attrs tsrc widths w live w' rs,
  (match live return Prop with true => CI n attrs w /\ w_more w = true | false => w_more w = false end) ->
  o_src (c_truncator (w_cfg w)) = tsrc ->
  run_calls w widths = Ok (w', rs) ->
  lines_ok n tsrc (Fin n attrs) live (w_start w) rs.
Proof.
  intros n attrs tsrc. induction widths as [|mw rest IH]; intros w live w' rs HS HT H; cbn [run_calls] in H.
  { inversion H; subst. exact I. }
  destruct (wrap_next_line w mw) as [[[w1 wl] d]| | |] eqn:WN; cbn [bind] in H; try discriminate.
  destruct (run_calls w1 rest) as [[w2 rs2]| | |] eqn:RC; cbn [bind fst snd] in H; try discriminate.
  inversion H; subst w' rs; clear H. cbn [lines_ok]. destruct live.
  - destruct HS as [HC Hm].
    destruct (wrap_next_line_J n attrs w mw w1 wl d HC Hm WN) as (L1 & L2 & L3 & L4 & L5).
    rewrite HT in L1. split; [exact L1|]. split; [intros Hd; apply L5; exact Hd|].
    rewrite L2. apply (IH w1 (negb d) w2 rs2); [|congruence|exact RC].
    destruct d; cbn; [apply L5; reflexivity|]. destruct (L4 eq_refl) as (A & B & _). auto.
  - unfold wrap_next_line in WN. rewrite HS in WN. cbn in WN. inversion WN; subst w1 wl d; clear WN. cbn.
    repeat split; auto. apply (IH w false w2 rs2); auto.
Qed.

Lemma CI_prepare : forall n w cfg attrs runs,
  runs_ok runs n -> zlen attrs - 1 = n -> 1 <= n -> CI n attrs (prepare w cfg attrs runs 0 0).
Proof.
  intros n w cfg attrs runs HR Hn H1. unfold CI, prepare; cbn.
  split; [exact HR|]. split.
  { destruct HR as [HC HP]. split; [constructor|]. exists [], runs, 0, 0. repeat split; auto; try reflexivity; try lia; try (intros; congruence). }
  split; [lia|]. split; [intros V; discriminate|]. split; [rewrite <- Hn; apply Bk_new; lia|]. split; [reflexivity|].
  split; [lia|]. split; [reflexivity|]. intros _. unfold PendW, PendG; cbn. lia.
Qed.

(* lines_contiguous: Prepare followed by any number of WrapNextLine calls with any widths *)
Lemma lines_contiguous_all : forall n w cfg attrs runs widths w' rs,
  runs_ok runs n -> zlen attrs - 1 = n -> 1 <= n ->
  run_calls (prepare w cfg attrs runs 0 0) widths = Ok (w', rs) ->
  lines_ok n (o_src (c_truncator cfg)) (Fin n attrs) true 0 rs.
Proof.
  intros n w cfg attrs runs widths w' rs HR Hn H1 H.
  apply (run_calls_ok n attrs (o_src (c_truncator cfg)) widths (prepare w cfg attrs runs 0 0) true w' rs); auto.
  split; [apply CI_prepare; auto|reflexivity].
Qed.

(* ---- C03: a required option that fits ends the line ---------------------------------------------------- *)

(* at the top of the UAX #14 loop: when the breaker hands out a required option and processBreakOption answers "fits",
   wrapNextLine returns at once (not done) with the line alt ++ [cand], which ends exactly one past the option *)
Lemma required_fits_ends_line : forall n fuel w lc b1 opt w3 cand,
  JT n w -> OrdO w ->
  next_word_break (w_br w) = (b1, Some opt) -> snd opt = true ->
  process_break_option (set_br (checkpoint w) b1) opt lc = Ok (w3, Fits, cand) ->
  outer_loop (S fuel) w lc = Ok (mark_best w3 [cand], false)
  /\ s_best (w_sc (mark_best w3 [cand])) = Some (s_alt (w_sc w3) ++ [cand])
  /\ 0 < o_cnt cand /\ chain (w_start w) (s_alt (w_sc w3) ++ [cand]) (fst opt + 1)
  /\ best_end (mark_best w3 [cand]) = fst opt + 1.
Proof.
  intros n fuel w lc b1 opt w3 cand HT HO NW Hreq PB.
  split.
  { cbn [outer_loop]. replace (w_br (checkpoint w)) with (w_br w) by (destruct w; reflexivity). rewrite NW, PB. cbn [bind].
    rewrite Hreq. reflexivity. }
  destruct (JT_checkpoint n w HT) as (T1 & Csv & Calt & Cbe & Cbr & Cbest).
  pose proof T1 as ((_ & B1 & _) & _). rewrite Cbr in B1.
  destruct (nwb_spec n _ _ _ B1 NW) as (Bb1 & SG & FW & UW & X).
  destruct X as (X1 & X3 & _).
  pose proof (JT_set_br n _ b1 T1 Bb1) as T2.
  destruct (set_br_proj (checkpoint w) b1) as (Q1 & Q2 & Q3 & Q4 & Q5).
  assert (Q7 : w_start (checkpoint w) = w_start w) by (destruct w; reflexivity).
  rewrite Calt in Q1. rewrite Csv in Q5. rewrite Q7 in Q3.
  assert (X1' : fst opt = fst (b_unusedW b1)) by (rewrite X1; reflexivity).
  assert (Hord : s_alt (w_sc (set_br (checkpoint w) b1)) <> [] ->
                 lend (w_start (set_br (checkpoint w) b1)) (s_alt (w_sc (set_br (checkpoint w) b1))) <= fst opt).
  { rewrite Q1, Q3. intros Hne. destruct (HO Hne) as [O1 O2]. lia. }
  destruct (JP_pbo n _ opt lc w3 Fits cand (proj1 T2) ltac:(lia) Hord PB) as (P3 & F3 & BE3 & LE3 & C3 & L3).
  destruct F3 as (_ & _ & F3s & _ & _ & _ & _ & F3v & _). rewrite Q5 in F3v. rewrite Q3 in F3s.
  destruct (C3 ltac:(discriminate)) as (C31 & C32 & C33). rewrite Q3 in C31.
  rewrite Q1, Q3 in Hord.
  assert (Hsv : lend (w_start w3) (s_save (w_sc w3)) <= fst opt).
  { rewrite F3v, F3s. destruct (s_alt (w_sc w)) eqn:A; [unfold lend; cbn; lia|]. apply Hord. congruence. }
  destruct (JT_mark_best n w3 cand (fst opt + 1) P3 C33 C32 ltac:(lia) ltac:(lia)) as [_ BE4].
  destruct (mark_best_proj w3 [cand]) as (_ & _ & _ & M4).
  split; [exact M4|]. split; [exact C32|]. split; [rewrite <- F3s; exact C33|exact BE4].
Qed.
