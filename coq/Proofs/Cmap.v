(* Proofs for C11, character maps: under the well-formedness predicates of Spec.Cmap, the enumeration
   (iterator run to completion), the point lookup and RuneRanges of formats 4, 12, 13 and 6/10 describe
   the same finite map. *)
From TV Require Import Lib.GoNum Lib.Res Model.Cmap Spec.Cmap.

(* ------------------------------------------------------------------------------------------ *)
(* small arithmetic and list facts                                                             *)
(* ------------------------------------------------------------------------------------------ *)

Lemma sint32_small x : 0 <= x < 2147483648 -> sint32 x = x.
Proof.
  intros H. unfold sint32. rewrite wrap32_small by lia.
  destruct (Z.ltb_spec x 2147483648); lia.
Qed.

Lemma wrap32_neg x : -2147483648 <= x < 0 -> wrap32 x = x + 4294967296.
Proof.
  intros H. unfold wrap32. symmetry. apply (Z.mod_unique x 4294967296 (-1)); lia.
Qed.

Lemma znth_cons_0 {A} (d e : A) r : znth d (e :: r) 0 = e.
Proof. reflexivity. Qed.

Lemma znth_cons_pos {A} (d e : A) r k : 0 < k -> znth d (e :: r) k = znth d r (k - 1).
Proof.
  intros H. unfold znth.
  destruct (Z.ltb_spec k 0); [lia|]. destruct (Z.ltb_spec (k - 1) 0); [lia|].
  replace (Z.to_nat k) with (S (Z.to_nat (k - 1))) by lia. reflexivity.
Qed.

Lemma znth_In {A} (d : A) l k : 0 <= k < zlen l -> In (znth d l k) l.
Proof.
  intros H. unfold znth. destruct (Z.ltb_spec k 0); [lia|].
  apply nth_In. unfold zlen in H. lia.
Qed.

Lemma In_znth {A} (d : A) l e : In e l -> exists k, 0 <= k < zlen l /\ znth d l k = e.
Proof.
  intros H. destruct (In_nth l e d H) as (n & Hn & He).
  exists (Z.of_nat n). unfold zlen, znth. split; [lia|].
  destruct (Z.ltb_spec (Z.of_nat n) 0); [lia|]. rewrite Nat2Z.id. exact He.
Qed.

Lemma In_zrange n : forall lo x, In x (zrange lo n) <-> lo <= x < lo + Z.of_nat n.
Proof.
  induction n as [|n IH]; intros lo x; cbn [zrange In].
  - lia.
  - rewrite IH. lia.
Qed.

Lemma NoDup_zrange n : forall lo, NoDup (zrange lo n).
Proof.
  induction n as [|n IH]; intros lo; cbn [zrange]; constructor.
  - rewrite In_zrange. lia.
  - apply IH.
Qed.

Lemma map_add_zrange s n : forall lo, map (fun p => p + s) (zrange lo n) = zrange (lo + s) n.
Proof.
  induction n as [|n IH]; intros lo; cbn [zrange map]; [reflexivity|].
  rewrite IH. f_equal. f_equal. lia.
Qed.

Lemma nodup_app {A} (l1 l2 : list A) :
  NoDup l1 -> NoDup l2 -> (forall x, In x l1 -> ~ In x l2) -> NoDup (l1 ++ l2).
Proof.
  induction l1 as [|a l1 IH]; intros H1 H2 H; cbn [app]; [exact H2|].
  inversion H1; subst. constructor.
  - rewrite in_app_iff. intros [Hi|Hi]; [tauto|]. apply (H a); [left; reflexivity|exact Hi].
  - apply IH; auto. intros x Hx. apply H. right. exact Hx.
Qed.

(* ------------------------------------------------------------------------------------------ *)
(* generic part: sorted disjoint segments, bisection, enumeration                              *)
(* ------------------------------------------------------------------------------------------ *)

Section Generic.
  Context {A : Type} (se : A -> Z * Z) (d : A).

  Definition contains (e : A) (c : Z) : Prop := fst (se e) <= c <= snd (se e).

  Fixpoint sorted_from (lo : Z) (l : list A) : Prop :=
    match l with
    | [] => True
    | e :: r => lo <= fst (se e) /\ fst (se e) <= snd (se e) /\ sorted_from (snd (se e) + 1) r
    end.

  Lemma sorted_In lo l e : sorted_from lo l -> In e l -> lo <= fst (se e) /\ fst (se e) <= snd (se e).
  Proof.
    revert lo. induction l as [|a r IH]; intros lo H Hi; [destruct Hi|].
    destruct H as (H1 & H2 & H3). destruct Hi as [->|Hi]; [lia|].
    specialize (IH _ H3 Hi). lia.
  Qed.

  Lemma sorted_from_le l : forall lo lo', sorted_from lo l -> lo' <= lo -> sorted_from lo' l.
  Proof.
    destruct l as [|e r]; intros lo lo' H Hle; [exact I|].
    destruct H as (H1 & H2 & H3). cbn [sorted_from]. repeat split; [lia|exact H2|exact H3].
  Qed.

  Lemma sorted_app l1 : forall lo hi l2, sorted_from lo l1 -> (forall e, In e l1 -> snd (se e) < hi) -> lo <= hi ->
    sorted_from hi l2 -> sorted_from lo (l1 ++ l2).
  Proof.
    induction l1 as [|e r IH]; intros lo hi l2 H1 Hb Hle H2; cbn [app].
    - apply (sorted_from_le l2 hi lo H2 Hle).
    - destruct H1 as (A1 & A2 & A3). cbn [sorted_from]. split; [exact A1|]. split; [exact A2|].
      apply (IH _ hi); [exact A3|intros e' He'; apply Hb; right; exact He'| |exact H2].
      specialize (Hb e (or_introl eq_refl)). lia.
  Qed.

  Lemma sorted_idx_lt l : forall lo, sorted_from lo l ->
    forall a b, 0 <= a < b -> b < zlen l -> snd (se (znth d l a)) < fst (se (znth d l b)).
  Proof.
    induction l as [|e r IH]; intros lo H a b Hab Hb.
    - rewrite zlen_nil in Hb. lia.
    - destruct H as (H1 & H2 & H3). rewrite zlen_cons in Hb.
      rewrite (znth_cons_pos d e r b) by lia.
      assert (Hd : a = 0 \/ 0 < a) by lia. destruct Hd as [->|Ha].
      + rewrite znth_cons_0.
        assert (Hi : In (znth d r (b - 1)) r) by (apply znth_In; lia).
        pose proof (sorted_In _ _ _ H3 Hi). lia.
      + rewrite (znth_cons_pos d e r a) by lia.
        apply (IH _ H3); lia.
  Qed.

  Lemma sorted_unique l : forall lo c e1 e2, sorted_from lo l -> In e1 l -> In e2 l ->
    contains e1 c -> contains e2 c -> e1 = e2.
  Proof.
    unfold contains.
    induction l as [|e r IH]; intros lo c e1 e2 H I1 I2 C1 C2; [destruct I1|].
    destruct H as (H1 & H2 & H3).
    destruct I1 as [<-|I1]; destruct I2 as [<-|I2].
    - reflexivity.
    - pose proof (sorted_In _ _ _ H3 I2). lia.
    - pose proof (sorted_In _ _ _ H3 I1). lia.
    - apply (IH _ c _ _ H3 I1 I2 C1 C2).
  Qed.

  (* the bisection common to cmap4.Lookup and cmap12/13.Lookup: index of the segment containing c *)
  Fixpoint bs (fuel : nat) (l : list A) (c i j : Z) : res (option Z) :=
    if i <? j then
      match fuel with
      | O => OutOfFuel
      | S f =>
          let h := i + (j - i) / 2 in
          let e := znth d l h in
          if c <? fst (se e) then bs f l c i h
          else if snd (se e) <? c then bs f l c (h + 1) j
          else Ok (Some h)
      end
    else Ok None.

  Lemma half_bounds i j : i < j -> i <= i + (j - i) / 2 < j.
  Proof.
    intros H. assert (0 <= (j - i) / 2) by (apply Z.div_pos; lia).
    assert ((j - i) / 2 < j - i) by (apply Z.div_lt; lia). lia.
  Qed.

  Lemma bs_inv lo l c : sorted_from lo l -> forall fuel i j,
    0 <= i <= j -> j <= zlen l -> j - i < Z.of_nat fuel ->
    (forall k, 0 <= k < i -> snd (se (znth d l k)) < c) ->
    (forall k, j <= k < zlen l -> c < fst (se (znth d l k))) ->
    (exists h, 0 <= h < zlen l /\ bs fuel l c i j = Ok (Some h) /\ contains (znth d l h) c)
    \/ (bs fuel l c i j = Ok None /\ forall k, 0 <= k < zlen l -> ~ contains (znth d l k) c).
  Proof.
    intros Hs. unfold contains.
    induction fuel as [|f IH]; intros i j Hij Hj Hf Hlo Hhi; [lia|].
    cbn [bs]. destruct (Z.ltb_spec i j) as [Hlt|Hge].
    - pose proof (half_bounds i j Hlt) as Hh.
      set (h := i + (j - i) / 2) in *.
      assert (Hin : In (znth d l h) l) by (apply znth_In; lia).
      pose proof (sorted_In _ _ _ Hs Hin) as Hse.
      destruct (Z.ltb_spec c (fst (se (znth d l h)))) as [Hc|Hc].
      + apply IH; try lia.
        * exact Hlo.
        * intros k Hk. assert (Hd : k = h \/ h < k) by lia. destruct Hd as [->|Hd]; [exact Hc|].
          pose proof (sorted_idx_lt l lo Hs h k). lia.
      + destruct (Z.ltb_spec (snd (se (znth d l h))) c) as [Hc2|Hc2].
        * apply IH; try lia.
          -- intros k Hk. assert (Hd : k = h \/ k < h) by lia. destruct Hd as [->|Hd]; [exact Hc2|].
             pose proof (sorted_idx_lt l lo Hs k h). lia.
          -- exact Hhi.
        * left. exists h. split; [lia|]. split; [reflexivity|lia].
    - right. split; [reflexivity|]. intros k Hk.
      assert (Hd : k < i \/ j <= k) by lia. destruct Hd as [Hd|Hd].
      + specialize (Hlo k). lia.
      + specialize (Hhi k). lia.
  Qed.

  Lemma bs_top lo l c : sorted_from lo l ->
    (exists h, bs (S (length l)) l c 0 (zlen l) = Ok (Some h) /\ In (znth d l h) l /\ contains (znth d l h) c)
    \/ (bs (S (length l)) l c 0 (zlen l) = Ok None /\ forall e, In e l -> ~ contains e c).
  Proof.
    intros Hs.
    destruct (bs_inv lo l c Hs (S (length l)) 0 (zlen l)) as [(h & Hh & Hb & Hc)|(Hb & Hn)].
    - pose proof (zlen_nonneg l). lia.
    - lia.
    - unfold zlen. lia.
    - intros; lia.
    - intros; lia.
    - left. exists h. split; [exact Hb|]. split; [apply znth_In; exact Hh|exact Hc].
    - right. split; [exact Hb|]. intros e He Hc.
      destruct (In_znth d l e He) as (k & Hk & <-). apply (Hn k Hk Hc).
  Qed.

  (* RuneRanges never merges two ranges of a sorted disjoint list *)
  Lemma rr_fold l : forall lo acc, sorted_from lo l ->
    match acc with [] => True | (a, b) :: _ => b < lo end ->
    fold_left rr_step (map se l) acc = rev (map se l) ++ acc.
  Proof.
    induction l as [|e r IH]; intros lo acc H Hacc; [reflexivity|].
    destruct H as (H1 & H2 & H3). cbn [map fold_left].
    assert (Hstep : rr_step acc (se e) = se e :: acc).
    { unfold rr_step. destruct acc as [|(a, b) t]; [reflexivity|].
      destruct (Z.eqb_spec b (fst (se e))); [lia|reflexivity]. }
    rewrite Hstep. rewrite (IH (snd (se e) + 1)); [|exact H3|].
    - cbn [rev]. rewrite <- app_assoc. reflexivity.
    - destruct (se e) as (a, b). cbn [snd]. lia.
  Qed.

  Lemma rune_ranges_sorted lo l : sorted_from lo l -> rune_ranges (map se l) = map se l.
  Proof.
    intros H. unfold rune_ranges. rewrite (rr_fold l lo []); [|exact H|exact I].
    rewrite app_nil_r. apply rev_involutive.
  Qed.

  Lemma in_ranges_map l r : in_ranges (map se l) r = true <-> exists e, In e l /\ contains e r.
  Proof.
    unfold in_ranges, contains. rewrite existsb_exists. split.
    - intros (ab & Hi & Hb). apply in_map_iff in Hi. destruct Hi as (e & <- & He).
      exists e. split; [exact He|]. apply andb_prop in Hb. destruct Hb as (Hb1 & Hb2).
      apply Z.leb_le in Hb1. apply Z.leb_le in Hb2. lia.
    - intros (e & He & Hc). exists (se e). split; [apply in_map; exact He|].
      apply andb_true_intro. split; apply Z.leb_le; lia.
  Qed.

  (* enumeration by concatenated per-segment lists against a lookup characterised per segment;
     `mp e r` = rune r of segment e is mapped (a segment may leave out runes of its interval) *)
  Context (seg : A -> list (Z * Z)) (gl : A -> Z -> Z) (mp : A -> Z -> bool) (lookup : Z -> res (Z * bool)).

  Definition seg_ok (e : A) : Prop :=
    NoDup (map fst (seg e)) /\
    forall r g, In (r, g) (seg e) <-> (contains e r /\ mp e r = true /\ g = gl e r).

  Definition lookup_char (l : list A) : Prop :=
    forall r, int32_ok r ->
      (exists e, In e l /\ contains e r /\
                 lookup r = if mp e r then Ok (gl e r, true) else Ok (0, false))
      \/ ((forall e, In e l -> ~ contains e r) /\ lookup r = Ok (0, false)).

  Lemma flat_nodup l : forall lo, sorted_from lo l -> (forall e, In e l -> seg_ok e) ->
    NoDup (map fst (flat_map seg l)) /\ forall x, In x (map fst (flat_map seg l)) -> lo <= x.
  Proof.
    induction l as [|e r IH]; intros lo H Hok.
    - split; [constructor|intros x []].
    - destruct H as (H1 & H2 & H3).
      destruct (IH _ H3) as (IH1 & IH2); [intros; apply Hok; right; assumption|].
      assert (Hk : forall x, In x (map fst (seg e)) -> contains e x).
      { intros x Hx. apply in_map_iff in Hx. destruct Hx as ((r0, g0) & <- & Hx).
        apply (proj2 (Hok e (or_introl eq_refl))) in Hx. exact (proj1 Hx). }
      cbn [flat_map]. rewrite map_app. split.
      + apply nodup_app; [exact (proj1 (Hok e (or_introl eq_refl)))|exact IH1|].
        intros x Hx Hx2. apply Hk in Hx. apply IH2 in Hx2. unfold contains in Hx. lia.
      + intros x Hx. apply in_app_iff in Hx. destruct Hx as [Hx|Hx].
        * apply Hk in Hx. unfold contains in Hx. lia.
        * apply IH2 in Hx. lia.
  Qed.

  Lemma generic_agree lo l : sorted_from lo l -> (forall e, In e l -> seg_ok e) -> lookup_char l ->
    iter_agrees (flat_map seg l) lookup.
  Proof.
    intros Hs Hok Hch. split; [exact (proj1 (flat_nodup l lo Hs Hok))|].
    intros r g Hr. split.
    - intros Hi. apply in_flat_map in Hi. destruct Hi as (e & He & Hi).
      apply (proj2 (Hok e He)) in Hi. destruct Hi as (Hc & Hm & ->).
      destruct (Hch r Hr) as [(e' & He' & Hc' & Hl)|(Hn & _)].
      + rewrite <- (sorted_unique l lo r e e' Hs He He' Hc Hc') in Hl. rewrite Hm in Hl. exact Hl.
      + exfalso. apply (Hn e He Hc).
    - intros Hl. destruct (Hch r Hr) as [(e & He & Hc & Hl')|(_ & Hl')].
      + destruct (mp e r) eqn:Hm.
        * rewrite Hl' in Hl. injection Hl as <-.
          apply in_flat_map. exists e. split; [exact He|].
          apply (proj2 (Hok e He)). split; [exact Hc|]. split; [exact Hm|reflexivity].
        * rewrite Hl' in Hl. discriminate Hl.
      + rewrite Hl' in Hl. discriminate Hl.
  Qed.

  (* the domain of the lookup: the mapped runes of the segments *)
  Lemma generic_domain lo l : sorted_from lo l -> lookup_char l ->
    forall r, int32_ok r ->
      ((exists g, lookup r = Ok (g, true)) <-> exists e, In e l /\ contains e r /\ mp e r = true).
  Proof.
    intros Hs Hch r Hr. split.
    - intros (g & Hl). destruct (Hch r Hr) as [(e & He & Hc & Hl')|(_ & Hl')].
      + exists e. split; [exact He|]. split; [exact Hc|].
        destruct (mp e r); [reflexivity|]. rewrite Hl' in Hl. discriminate Hl.
      + rewrite Hl' in Hl. discriminate Hl.
    - intros (e & He & Hc & Hm). destruct (Hch r Hr) as [(e' & He' & Hc' & Hl)|(Hn & _)].
      + rewrite <- (sorted_unique l lo r e e' Hs He He' Hc Hc') in Hl. rewrite Hm in Hl.
        eexists. exact Hl.
      + exfalso. apply (Hn e He Hc).
  Qed.

  Lemma generic_ranges lo l : (forall e r, mp e r = true) -> sorted_from lo l -> lookup_char l ->
    ranges_are_domain (rune_ranges (map se l)) lookup.
  Proof.
    intros Hall Hs Hch r Hr. rewrite (rune_ranges_sorted lo l Hs). rewrite in_ranges_map.
    rewrite (generic_domain lo l Hs Hch r Hr). split.
    - intros (e & He & Hc). exists e. split; [exact He|]. split; [exact Hc|apply Hall].
    - intros (e & He & Hc & _). exists e. split; assumption.
  Qed.
End Generic.

(* ------------------------------------------------------------------------------------------ *)
(* formats 12 and 13                                                                           *)
(* ------------------------------------------------------------------------------------------ *)

Definition se12 (e : grp) : Z * Z := (g_start e, g_end e).
Definition glyph12 (is13 : bool) (e : grp) (c : Z) : Z :=
  if is13 then g_gid e else wrap32 (c - g_start e + g_gid e).

Lemma wf_grp_prop is13 e : wf_grp is13 e = true ->
  0 <= g_start e /\ g_start e <= g_end e /\ g_end e < 2147483648 /\ 0 <= g_gid e /\ g_gid e < 4294967296.
Proof.
  unfold wf_grp. intros H.
  repeat (apply andb_prop in H; destruct H as (H & ?)).
  repeat match goal with
  | H : (_ <=? _) = true |- _ => apply Z.leb_le in H
  | H : (_ <? _) = true |- _ => apply Z.ltb_lt in H
  end.
  repeat split; lia.
Qed.

Lemma wf_cmap12_sorted is13 s : forall lo, wf_cmap12_from is13 lo s = true ->
  sorted_from se12 lo s /\ forall e, In e s -> wf_grp is13 e = true.
Proof.
  induction s as [|e r IH]; intros lo H; cbn [wf_cmap12_from] in H.
  - split; [exact I|intros e []].
  - apply andb_prop in H. destruct H as (H & H3). apply andb_prop in H. destruct H as (H1 & H2).
    destruct (IH _ H3) as (IH1 & IH2). apply Z.leb_le in H1.
    pose proof (wf_grp_prop _ _ H2) as Hp.
    split.
    + cbn [sorted_from se12 fst snd]. repeat split; try lia. exact IH1.
    + intros e' [<-|Hi]; [exact H2|apply IH2; exact Hi].
Qed.

Definition lift12 (is13 : bool) (s : list grp) (c : Z) (b : res (option Z)) : res (Z * bool) :=
  match b with
  | Ok (Some h) => Ok (glyph12 is13 (znth dgrp s h) c, true)
  | Ok None => Ok (0, false)
  | Err n => Err n
  | Panic n => Panic n
  | OutOfFuel => OutOfFuel
  end.

Lemma lookup12_loop_bs is13 s c : forall fuel i j,
  lookup12_loop fuel is13 s c i j = lift12 is13 s c (bs se12 dgrp fuel s c i j).
Proof.
  induction fuel as [|f IH]; intros i j; cbn [lookup12_loop bs].
  - destruct (i <? j); reflexivity.
  - destruct (i <? j); [|reflexivity].
    cbn [se12 fst snd].
    destruct (c <? g_start (znth dgrp s (i + (j - i) / 2))); [apply IH|].
    destruct (g_end (znth dgrp s (i + (j - i) / 2)) <? c); [apply IH|].
    reflexivity.
Qed.

Definition mp_all {A : Type} (_ : A) (_ : Z) : bool := true.

Lemma iter12_seg_ok is13 e : wf_grp is13 e = true -> seg_ok se12 (iter12_seg is13) (glyph12 is13) mp_all e.
Proof.
  intros H. apply wf_grp_prop in H. destruct H as (H1 & H2 & H3 & H4 & H5).
  unfold seg_ok, iter12_seg, contains, se12. cbn [fst snd].
  rewrite (wrap32_small (g_end e - g_start e)) by lia.
  split.
  - rewrite map_map. cbn [fst].
    rewrite (map_ext_in _ (fun p => p + g_start e)).
    + rewrite map_add_zrange. apply NoDup_zrange.
    + intros p Hp. apply In_zrange in Hp. apply sint32_small. lia.
  - intros r g. rewrite in_map_iff. split.
    + intros (p & Heq & Hp). apply In_zrange in Hp.
      injection Heq as Hr Hg. rewrite sint32_small in Hr by lia. subst r.
      split; [lia|]. split; [reflexivity|]. subst g. unfold glyph12. destruct is13; [reflexivity|]. f_equal. lia.
    + intros (Hc & _ & ->). exists (r - g_start e). split.
      * rewrite sint32_small by lia. f_equal. lia.
      * apply In_zrange. lia.
Qed.

Lemma lookup12_char is13 s : wf_cmap12_from is13 0 s = true ->
  lookup_char se12 (glyph12 is13) mp_all
    (fun r => lookup12_loop (S (length s)) is13 s (wrap32 r) 0 (zlen s)) s.
Proof.
  intros H. destruct (wf_cmap12_sorted _ _ _ H) as (Hs & Hwf).
  intros r Hr. unfold int32_ok in Hr. rewrite lookup12_loop_bs.
  assert (Hd : 0 <= r \/ r < 0) by lia. destruct Hd as [Hd|Hd].
  - rewrite wrap32_small by lia.
    destruct (bs_top se12 dgrp 0 s r Hs) as [(h & Hb & Hi & Hc)|(Hb & Hn)].
    + left. exists (znth dgrp s h). rewrite Hb. repeat split; try assumption; apply Hc.
    + right. rewrite Hb. split; [exact Hn|reflexivity].
  - rewrite wrap32_neg by lia. right.
    assert (Hn : forall c, r = c \/ r + 4294967296 = c -> forall e, In e s -> ~ contains se12 e c).
    { intros c Hc e He. pose proof (wf_grp_prop _ _ (Hwf e He)) as Hp.
      unfold contains, se12. cbn [fst snd]. lia. }
    split; [apply Hn; left; reflexivity|].
    destruct (bs_top se12 dgrp 0 s (r + 4294967296) Hs) as [(h & Hb & Hi & Hc)|(Hb & _)].
    + exfalso. apply (Hn (r + 4294967296) (or_intror eq_refl) _ Hi Hc).
    + rewrite Hb. reflexivity.
Qed.

Lemma iter12_gen is13 s : wf_cmap12_from is13 0 s = true ->
  iter_agrees (flat_map (iter12_seg is13) s)
    (fun r => lookup12_loop (S (length s)) is13 s (wrap32 r) 0 (zlen s)).
Proof.
  intros H. destruct (wf_cmap12_sorted _ _ _ H) as (Hs & Hwf).
  apply (generic_agree se12 (iter12_seg is13) (glyph12 is13) mp_all _ 0 s Hs).
  - intros e He. apply iter12_seg_ok. apply Hwf. exact He.
  - apply lookup12_char. exact H.
Qed.

Lemma ranges12_gen is13 s : wf_cmap12_from is13 0 s = true ->
  ranges_are_domain (rune_ranges12 s)
    (fun r => lookup12_loop (S (length s)) is13 s (wrap32 r) 0 (zlen s)).
Proof.
  intros H. destruct (wf_cmap12_sorted _ _ _ H) as (Hs & Hwf).
  unfold rune_ranges12.
  rewrite (map_ext_in _ se12).
  - apply (generic_ranges se12 (glyph12 is13) mp_all _ 0 s (fun _ _ => eq_refl) Hs). apply lookup12_char. exact H.
  - intros e He. pose proof (wf_grp_prop _ _ (Hwf e He)) as Hp. unfold se12.
    rewrite !sint32_small by lia. reflexivity.
Qed.

Lemma iter12_eq_lookup12 : forall s, wf_cmap12 s = true -> iter_agrees (iter12 s) (lookup12 s).
Proof. intros s H. exact (iter12_gen false s H). Qed.

Lemma iter13_eq_lookup13 : forall s, wf_cmap13 s = true -> iter_agrees (iter13 s) (lookup13 s).
Proof. intros s H. exact (iter12_gen true s H). Qed.

Lemma rune_ranges12_eq_domain : forall s, wf_cmap12 s = true -> ranges_are_domain (rune_ranges12 s) (lookup12 s).
Proof. intros s H. exact (ranges12_gen false s H). Qed.

Lemma rune_ranges13_eq_domain : forall s, wf_cmap13 s = true -> ranges_are_domain (rune_ranges12 s) (lookup13 s).
Proof. intros s H. exact (ranges12_gen true s H). Qed.

(* ------------------------------------------------------------------------------------------ *)
(* format 4                                                                                    *)
(* ------------------------------------------------------------------------------------------ *)

Definition se4 (e : seg4) : Z * Z := (s4_start e, s4_end e).
Definition glyph4 (e : seg4) (c : Z) : Z :=
  match s4_idx e with
  | None => wrap16 (c + s4_delta e)
  | Some ix => wrap16 (znth 0 ix (c - s4_start e) + s4_delta e)
  end.
(* rune c of segment e is mapped: its glyph index array entry, if any, is not 0 *)
Definition mp4 (e : seg4) (c : Z) : bool :=
  match s4_idx e with
  | None => true
  | Some ix => negb (znth 0 ix (c - s4_start e) =? 0)
  end.

(* what cmap4.Lookup does once the segment is found *)
Definition look4_at (e : seg4) (c : Z) : res (Z * bool) :=
  match s4_idx e with
  | None => Ok (wrap16 (c + s4_delta e), true)
  | Some ix =>
      let k := wrap16 (c - s4_start e) in
      if zlen ix <=? k then Panic 1
      else let g := znth 0 ix k in
           if g =? 0 then Ok (0, false) else Ok (wrap16 (g + s4_delta e), true)
  end.

(* the pairs of one segment, without the panic branch *)
Definition seg4p (e : seg4) : list (Z * Z) :=
  match s4_idx e with
  | None =>
      map (fun p => (p + s4_start e, wrap16 (wrap16 p + s4_start e + s4_delta e)))
          (zrange 0 (Z.to_nat (wrap16 (s4_end e - s4_start e) + 1)))
  | Some ix =>
      flat_map (fun p => let g := znth 0 ix p in
                         if g =? 0 then [] else [(p + s4_start e, wrap16 (g + s4_delta e))])
               (zrange 0 (length ix))
  end.

Lemma wf_seg4_prop e : wf_seg4 e = true ->
  0 <= s4_start e /\ s4_start e <= s4_end e /\ s4_end e <= 65535 /\
  0 <= s4_delta e <= 65535 /\
  match s4_idx e with
  | None => True
  | Some ix => zlen ix = s4_end e - s4_start e + 1 /\
               forall k, 0 <= k < zlen ix -> 0 <= znth 0 ix k <= 65535
  end.
Proof.
  unfold wf_seg4. intros H.
  repeat (apply andb_prop in H; destruct H as (H & ?)).
  repeat match goal with
  | H : (_ <=? _) = true |- _ => apply Z.leb_le in H
  end.
  repeat split; try lia.
  destruct (s4_idx e) as [ix|]; [|exact I].
  match goal with H : (_ && _) = true |- _ => apply andb_prop in H; destruct H as (Hl & Hf) end.
  apply Z.eqb_eq in Hl. split; [exact Hl|].
  intros k Hk. rewrite forallb_forall in Hf.
  specialize (Hf _ (znth_In 0 ix k Hk)). apply andb_prop in Hf. destruct Hf as (Hf1 & Hf2).
  apply Z.leb_le in Hf1. apply Z.leb_le in Hf2. lia.
Qed.

Lemma wf_cmap4_sorted s : forall lo, wf_cmap4_from lo s = true ->
  sorted_from se4 lo s /\ forall e, In e s -> wf_seg4 e = true.
Proof.
  induction s as [|e r IH]; intros lo H; cbn [wf_cmap4_from] in H.
  - split; [exact I|intros e []].
  - apply andb_prop in H. destruct H as (H & H3). apply andb_prop in H. destruct H as (H1 & H2).
    destruct (IH _ H3) as (IH1 & IH2). apply Z.leb_le in H1.
    pose proof (wf_seg4_prop _ H2) as Hp.
    split.
    + cbn [sorted_from se4 fst snd]. repeat split; try lia. exact IH1.
    + intros e' [<-|Hi]; [exact H2|apply IH2; exact Hi].
Qed.

Definition lift4 (s : cmap4) (c : Z) (b : res (option Z)) : res (Z * bool) :=
  match b with
  | Ok (Some h) => look4_at (znth dseg4 s h) c
  | Ok None => Ok (0, false)
  | Err n => Err n
  | Panic n => Panic n
  | OutOfFuel => OutOfFuel
  end.

Lemma lookup4_loop_bs s c : forall fuel i j,
  lookup4_loop fuel s c i j = lift4 s c (bs se4 dseg4 fuel s c i j).
Proof.
  induction fuel as [|f IH]; intros i j; cbn [lookup4_loop bs].
  - destruct (i <? j); reflexivity.
  - destruct (i <? j); [|reflexivity].
    cbn [se4 fst snd].
    destruct (c <? s4_start (znth dseg4 s (i + (j - i) / 2))); [apply IH|].
    destruct (s4_end (znth dseg4 s (i + (j - i) / 2)) <? c); [apply IH|].
    reflexivity.
Qed.

Lemma look4_at_wf e c : wf_seg4 e = true -> contains se4 e c ->
  look4_at e c = if mp4 e c then Ok (glyph4 e c, true) else Ok (0, false).
Proof.
  intros H Hc. apply wf_seg4_prop in H. destruct H as (H1 & H2 & H3 & H4 & H5).
  unfold contains, se4 in Hc. cbn [fst snd] in Hc.
  unfold look4_at, glyph4, mp4. destruct (s4_idx e) as [ix|]; [|reflexivity].
  destruct H5 as (Hl & Hf). cbv zeta.
  rewrite (wrap16_small (c - s4_start e)) by lia.
  destruct (Z.leb_spec (zlen ix) (c - s4_start e)); [lia|].
  destruct (Z.eqb_spec (znth 0 ix (c - s4_start e)) 0); reflexivity.
Qed.

Lemma iter4_seg_wf e : wf_seg4 e = true -> iter4_seg e = Ok (seg4p e).
Proof.
  intros H. apply wf_seg4_prop in H. destruct H as (H1 & H2 & H3 & H4 & H5).
  unfold iter4_seg, seg4p. destruct (s4_idx e) as [ix|]; [|reflexivity].
  destruct H5 as (Hl & _). destruct (Z.eqb_spec (zlen ix) 0); [lia|reflexivity].
Qed.

Lemma iter4_wf s : (forall e, In e s -> wf_seg4 e = true) -> iter4 s = Ok (flat_map seg4p s).
Proof.
  induction s as [|e r IH]; intros H; [reflexivity|].
  cbn [iter4 flat_map]. rewrite (iter4_seg_wf e) by (apply H; left; reflexivity).
  cbn [bind]. rewrite IH by (intros; apply H; right; assumption). reflexivity.
Qed.

(* an enumeration that yields at most one pair per position, with rune = position + s *)
Lemma nodup_flat_zrange (f : Z -> list (Z * Z)) s :
  (forall p, f p = [] \/ exists g, f p = [(p + s, g)]) ->
  forall n lo, NoDup (map fst (flat_map f (zrange lo n))) /\
               forall x, In x (map fst (flat_map f (zrange lo n))) -> lo + s <= x.
Proof.
  intros Hf. induction n as [|n IH]; intros lo; cbn [zrange flat_map].
  - split; [constructor|intros x []].
  - destruct (IH (lo + 1)) as (N & B).
    destruct (Hf lo) as [->|(g & ->)]; cbn [app map fst].
    + split; [exact N|]. intros x Hx. apply B in Hx. lia.
    + split.
      * constructor; [|exact N]. intros Hx. apply B in Hx. lia.
      * intros x [<-|Hx]; [lia|]. apply B in Hx. lia.
Qed.

Lemma seg4p_ok e : wf_seg4 e = true -> seg_ok se4 seg4p glyph4 mp4 e.
Proof.
  intros H. apply wf_seg4_prop in H. destruct H as (H1 & H2 & H3 & H4 & H5).
  unfold seg_ok, seg4p, glyph4, mp4, contains, se4. cbn [fst snd].
  destruct (s4_idx e) as [ix|].
  - destruct H5 as (Hl & Hf). split.
    + apply (nodup_flat_zrange _ (s4_start e)). intros p. cbv zeta.
      destruct (znth 0 ix p =? 0); [left; reflexivity|right; eexists; reflexivity].
    + intros r g. rewrite in_flat_map. split.
      * intros (p & Hp & Hi). apply In_zrange in Hp. fold (zlen ix) in Hp. cbv zeta in Hi.
        destruct (Z.eqb_spec (znth 0 ix p) 0) as [Hz|Hz]; [destruct Hi|].
        destruct Hi as [Heq|[]]. injection Heq as <- <-.
        split; [lia|]. replace (p + s4_start e - s4_start e) with p by lia.
        split; [|reflexivity].
        destruct (Z.eqb_spec (znth 0 ix p) 0); [contradiction|reflexivity].
      * intros (Hc & Hm & ->). exists (r - s4_start e). split.
        -- apply In_zrange. fold (zlen ix). lia.
        -- cbv zeta. apply Bool.negb_true_iff in Hm. rewrite Hm. left. f_equal. lia.
  - rewrite (wrap16_small (s4_end e - s4_start e)) by lia. split.
    + rewrite map_map. cbn [fst]. rewrite map_add_zrange. apply NoDup_zrange.
    + intros r g. rewrite in_map_iff. split.
      * intros (p & Heq & Hp). apply In_zrange in Hp.
        injection Heq as Hr Hg. subst r. split; [lia|]. split; [reflexivity|]. subst g.
        rewrite (wrap16_small p) by lia. f_equal; lia.
      * intros (Hc & _ & ->). exists (r - s4_start e). split.
        -- rewrite (wrap16_small (r - s4_start e)) by lia. f_equal; [lia|f_equal; lia].
        -- apply In_zrange. lia.
Qed.

Lemma lookup4_char s : wf_cmap4 s = true -> lookup_char se4 glyph4 mp4 (lookup4 s) s.
Proof.
  intros H. destruct (wf_cmap4_sorted _ _ H) as (Hs & Hwf).
  intros r Hr. unfold int32_ok in Hr. unfold lookup4. rewrite lookup4_loop_bs.
  assert (Hn : forall c, c < 0 \/ 65535 < c -> forall e, In e s -> ~ contains se4 e c).
  { intros c Hc e He. pose proof (wf_seg4_prop _ (Hwf e He)) as Hp.
    unfold contains, se4. cbn [fst snd]. lia. }
  assert (Hd : 0 <= r \/ r < 0) by lia. destruct Hd as [Hd|Hd].
  - rewrite wrap32_small by lia.
    destruct (Z.ltb_spec 65535 r) as [Hbig|Hsmall].
    + right. split; [apply Hn; lia|reflexivity].
    + destruct (bs_top se4 dseg4 0 s r Hs) as [(h & Hb & Hi & Hc)|(Hb & Hn')].
      * left. exists (znth dseg4 s h). rewrite Hb. cbn [lift4].
        split; [exact Hi|]. split; [exact Hc|]. apply look4_at_wf; [apply Hwf; exact Hi|exact Hc].
      * right. rewrite Hb. split; [exact Hn'|reflexivity].
  - rewrite wrap32_neg by lia.
    destruct (Z.ltb_spec 65535 (r + 4294967296)); [|lia].
    right. split; [apply Hn; lia|reflexivity].
Qed.

Lemma iter4_eq_lookup4 : forall s, wf_cmap4 s = true -> exists l, iter4 s = Ok l /\ iter_agrees l (lookup4 s).
Proof.
  intros s H. destruct (wf_cmap4_sorted _ _ H) as (Hs & Hwf).
  exists (flat_map seg4p s). split; [apply iter4_wf; exact Hwf|].
  apply (generic_agree se4 seg4p glyph4 mp4 _ 0 s Hs).
  - intros e He. apply seg4p_ok. apply Hwf. exact He.
  - apply lookup4_char. exact H.
Qed.

(* ---- RuneRanges of format 4: the maximal runs of mapped runes ---- *)

(* a list of ranges as its own list of segments *)
Definition idr (ab : Z * Z) : Z * Z := ab.

Lemma in_ranges_cons a b l x : in_ranges ((a, b) :: l) x = ((a <=? x) && (x <=? b)) || in_ranges l x.
Proof. reflexivity. Qed.

Lemma in_ranges_app l1 l2 x : in_ranges (l1 ++ l2) x = in_ranges l1 x || in_ranges l2 x.
Proof. apply existsb_app. Qed.

Lemma in_ranges_one a b x : in_ranges [(a, b)] x = true <-> a <= x <= b.
Proof.
  rewrite in_ranges_cons. cbn [in_ranges existsb]. rewrite Bool.orb_false_r.
  rewrite Bool.andb_true_iff, !Z.leb_le. reflexivity.
Qed.

(* RuneRanges is the identity on ranges with each start after the previous end *)
Lemma rune_ranges_sep lo l : sorted_from idr lo l -> rune_ranges l = l.
Proof.
  intros H. pose proof (rune_ranges_sorted idr lo l H) as E.
  unfold idr in E. rewrite map_id in E. exact E.
Qed.

Lemma sorted_ranges_bool l : forall lo, sorted_from idr lo l -> (forall ab, In ab l -> snd ab < 16777216) ->
  ranges_sorted_from lo l = true.
Proof.
  induction l as [|(a, b) r IH]; intros lo H Hb; [reflexivity|].
  destruct H as (H1 & H2 & H3). unfold idr in H1, H2, H3. cbn [fst snd] in H1, H2, H3.
  pose proof (Hb (a, b) (or_introl eq_refl)) as Hb1. cbn [snd] in Hb1.
  cbn [ranges_sorted_from]. rewrite (IH (b + 1)); [|exact H3|intros ab Hi; apply Hb; right; exact Hi].
  rewrite Bool.andb_true_r.
  apply andb_true_intro. split; [apply andb_true_intro; split|].
  - apply Z.leb_le. exact H1.
  - apply Z.leb_le. exact H2.
  - apply Z.ltb_lt. exact Hb1.
Qed.

(* nz_runs yields sorted, separated, non-empty runs inside the array's rune interval, covering exactly the run in
   progress and the positions with a non-zero entry *)
Lemma nz_runs_spec : forall ix pos run lo,
  match run with Some a => lo <= a < pos | None => lo <= pos end ->
  sorted_from idr lo (nz_runs pos ix run) /\
  (forall ab, In ab (nz_runs pos ix run) -> snd ab <= pos + zlen ix - 1) /\
  (forall x, in_ranges (nz_runs pos ix run) x = true <->
     match run with Some a => a <= x < pos | None => False end \/
     (pos <= x < pos + zlen ix /\ znth 0 ix (x - pos) <> 0)).
Proof.
  induction ix as [|g r IH]; intros pos run lo Hrun.
  - cbn [nz_runs]. rewrite zlen_nil. destruct run as [a|].
    + cbn [sorted_from idr fst snd]. split; [lia|]. split.
      * intros ab [<-|[]]. cbn [snd]. lia.
      * intros x. rewrite in_ranges_one. lia.
    + split; [exact I|]. split; [intros ab []|]. intros x. cbn [in_ranges existsb].
      split; [discriminate|]. intros [[]|Hx]. lia.
  - cbn [nz_runs]. rewrite zlen_cons. pose proof (zlen_nonneg r) as Hr.
    assert (Hz : forall x, pos < x -> znth 0 (g :: r) (x - pos) = znth 0 r (x - (pos + 1))).
    { intros x Hx. rewrite znth_cons_pos by lia. f_equal. lia. }
    assert (Hz0 : znth 0 (g :: r) (pos - pos) = g).
    { replace (pos - pos) with 0 by lia. reflexivity. }
    destruct (Z.eqb_spec g 0) as [Hg|Hg].
    + assert (Hpre : match @None Z with Some a => pos <= a < pos + 1 | None => pos <= pos + 1 end) by lia.
      destruct (IH (pos + 1) None pos Hpre) as (S1 & B1 & R1). clear Hpre.
      destruct run as [a|]; cbn [app].
      * split; [cbn [sorted_from idr fst snd]; split; [lia|]; split; [lia|]; replace (pos - 1 + 1) with pos by lia; exact S1|].
        split.
        -- intros ab [<-|Hi]; [cbn [snd]; lia|]. apply B1 in Hi. lia.
        -- intros x. rewrite in_ranges_cons, Bool.orb_true_iff, R1, Bool.andb_true_iff, !Z.leb_le.
           destruct (Z.eq_dec x pos) as [->|Hne]; [rewrite Hz0; lia|].
           destruct (Z_lt_dec pos x) as [Hlt|Hge]; [rewrite Hz by exact Hlt; lia|lia].
      * split; [apply (sorted_from_le idr _ pos lo S1); lia|].
        split.
        -- intros ab Hi. apply B1 in Hi. lia.
        -- intros x. rewrite R1.
           destruct (Z.eq_dec x pos) as [->|Hne]; [rewrite Hz0; lia|].
           destruct (Z_lt_dec pos x) as [Hlt|Hge]; [rewrite Hz by exact Hlt; lia|lia].
    + destruct run as [a|].
      * assert (Hpre : match Some a with Some a => lo <= a < pos + 1 | None => lo <= pos + 1 end) by lia.
        destruct (IH (pos + 1) (Some a) lo Hpre) as (S1 & B1 & R1). clear Hpre.
        split; [exact S1|]. split; [intros ab Hi; apply B1 in Hi; lia|].
        intros x. rewrite R1.
        destruct (Z.eq_dec x pos) as [->|Hne]; [rewrite Hz0; lia|].
        destruct (Z_lt_dec pos x) as [Hlt|Hge]; [rewrite Hz by exact Hlt; lia|lia].
      * assert (Hpre : match Some pos with Some a => lo <= a < pos + 1 | None => lo <= pos + 1 end) by lia.
        destruct (IH (pos + 1) (Some pos) lo Hpre) as (S1 & B1 & R1). clear Hpre.
        split; [exact S1|]. split; [intros ab Hi; apply B1 in Hi; lia|].
        intros x. rewrite R1.
        destruct (Z.eq_dec x pos) as [->|Hne]; [rewrite Hz0; lia|].
        destruct (Z_lt_dec pos x) as [Hlt|Hge]; [rewrite Hz by exact Hlt; lia|lia].
Qed.

Lemma seg4_ranges_spec e lo : wf_seg4 e = true -> lo <= s4_start e ->
  sorted_from idr lo (seg4_ranges e) /\
  (forall ab, In ab (seg4_ranges e) -> snd ab <= s4_end e) /\
  (forall x, in_ranges (seg4_ranges e) x = true <-> contains se4 e x /\ mp4 e x = true).
Proof.
  intros H Hlo. apply wf_seg4_prop in H. destruct H as (H1 & H2 & H3 & H4 & H5).
  unfold seg4_ranges, mp4, contains, se4. cbn [fst snd].
  destruct (s4_idx e) as [ix|].
  - destruct H5 as (Hl & _).
    destruct (nz_runs_spec ix (s4_start e) None lo Hlo) as (S1 & B1 & R1).
    split; [exact S1|]. split; [intros ab Hi; apply B1 in Hi; lia|].
    intros x. rewrite R1, Bool.negb_true_iff, Z.eqb_neq. lia.
  - cbn [sorted_from idr fst snd]. split; [lia|]. split.
    + intros ab [<-|[]]. cbn [snd]. lia.
    + intros x. rewrite in_ranges_one. intuition.
Qed.

Lemma ranges4_flat s : forall lo, wf_cmap4_from lo s = true ->
  sorted_from idr lo (flat_map seg4_ranges s) /\
  (forall ab, In ab (flat_map seg4_ranges s) -> snd ab <= 65535) /\
  (forall x, in_ranges (flat_map seg4_ranges s) x = true <->
             exists e, In e s /\ contains se4 e x /\ mp4 e x = true).
Proof.
  induction s as [|e r IH]; intros lo H; cbn [wf_cmap4_from] in H.
  - split; [exact I|]. split; [intros ab []|]. intros x. cbn [flat_map in_ranges existsb].
    split; [discriminate|intros (e & [] & _)].
  - apply andb_prop in H. destruct H as (H & H3). apply andb_prop in H. destruct H as (H1 & H2).
    apply Z.leb_le in H1. pose proof (wf_seg4_prop _ H2) as (P1 & P2 & P3 & _).
    destruct (seg4_ranges_spec e lo H2 H1) as (S1 & B1 & R1).
    destruct (IH _ H3) as (S2 & B2 & R2).
    cbn [flat_map]. split.
    + apply (sorted_app idr _ lo (s4_end e + 1) _ S1); [|lia|exact S2].
      intros ab Hi. apply B1 in Hi. unfold idr. lia.
    + split.
      * intros ab Hi. apply in_app_iff in Hi. destruct Hi as [Hi|Hi]; [apply B1 in Hi; lia|apply B2; exact Hi].
      * intros x. rewrite in_ranges_app, Bool.orb_true_iff, R1, R2. split.
        -- intros [(Hc & Hm)|(e' & He' & Hc & Hm)].
           ++ exists e. split; [left; reflexivity|]. split; assumption.
           ++ exists e'. split; [right; exact He'|]. split; assumption.
        -- intros (e' & [<-|He'] & Hc & Hm).
           ++ left. split; assumption.
           ++ right. exists e'. split; [exact He'|]. split; assumption.
Qed.

(* RuneRanges of a well-formed format 4 subtable: nothing is merged *)
Lemma rune_ranges4_flat s : wf_cmap4 s = true -> rune_ranges4 s = flat_map seg4_ranges s.
Proof.
  intros H. destruct (ranges4_flat s 0 H) as (S1 & _ & _).
  unfold rune_ranges4. apply (rune_ranges_sep 0). exact S1.
Qed.

(* ... and what newCoveragesFromCmapRange requires of them: sorted, disjoint, non-empty, below 2^24 *)
Lemma rune_ranges4_ok s : wf_cmap4 s = true -> ranges_ok (rune_ranges4 s) = true.
Proof.
  intros H. rewrite (rune_ranges4_flat s H). destruct (ranges4_flat s 0 H) as (S1 & B1 & _).
  unfold ranges_ok. apply sorted_ranges_bool; [exact S1|].
  intros ab Hi. apply B1 in Hi. lia.
Qed.

Lemma rune_ranges4_eq_domain : forall s, wf_cmap4 s = true -> ranges_are_domain (rune_ranges4 s) (lookup4 s).
Proof.
  intros s H. destruct (wf_cmap4_sorted _ _ H) as (Hs & Hwf).
  intros r Hr. rewrite (rune_ranges4_flat s H).
  destruct (ranges4_flat s 0 H) as (_ & _ & R1). rewrite R1.
  symmetry. apply (generic_domain se4 glyph4 mp4 _ 0 s Hs); [apply lookup4_char; exact H|exact Hr].
Qed.

(* ------------------------------------------------------------------------------------------ *)
(* formats 6 and 10                                                                            *)
(* ------------------------------------------------------------------------------------------ *)

Lemma wf_cmap6_prop s : wf_cmap6 s = true ->
  0 <= c6_first s /\ c6_first s + zlen (c6_entries s) <= 2147483648.
Proof.
  unfold wf_cmap6. intros H. apply andb_prop in H. destruct H as (H1 & H2).
  apply Z.leb_le in H1. apply Z.leb_le in H2. lia.
Qed.

Lemma lookup6_char s r : wf_cmap6 s = true -> int32_ok r ->
  lookup6 s r =
    if (c6_first s <=? r) && (r <? c6_first s + zlen (c6_entries s))
    then Ok (znth 0 (c6_entries s) (r - c6_first s), true) else Ok (0, false).
Proof.
  intros H Hr. apply wf_cmap6_prop in H. destruct H as (H1 & H2). unfold int32_ok in Hr.
  pose proof (zlen_nonneg (c6_entries s)) as Hl.
  unfold lookup6. destruct (Z.ltb_spec r (c6_first s)) as [Hlt|Hge].
  - destruct (Z.leb_spec (c6_first s) r); [lia|reflexivity].
  - destruct (Z.leb_spec (c6_first s) r); [|lia]. cbn [andb].
    destruct (Z.ltb_spec (r - c6_first s) 0); [lia|]. cbn [orb].
    destruct (Z.leb_spec (zlen (c6_entries s)) (r - c6_first s));
      destruct (Z.ltb_spec r (c6_first s + zlen (c6_entries s))); try lia; reflexivity.
Qed.

Lemma iter6_eq_lookup6 : forall s, wf_cmap6 s = true -> iter_agrees (iter6 s) (lookup6 s).
Proof.
  intros s H. pose proof (wf_cmap6_prop _ H) as (H1 & H2).
  assert (Hext : iter6 s = map (fun p => (p + c6_first s, znth 0 (c6_entries s) p))
                               (zrange 0 (length (c6_entries s)))).
  { unfold iter6. apply map_ext_in. intros p Hp. apply In_zrange in Hp.
    fold (zlen (c6_entries s)) in Hp. rewrite sint32_small by lia. reflexivity. }
  rewrite Hext. split.
  - rewrite map_map. cbn [fst]. rewrite map_add_zrange. apply NoDup_zrange.
  - intros r g Hr. rewrite (lookup6_char s r H Hr). rewrite in_map_iff. split.
    + intros (p & Heq & Hp). apply In_zrange in Hp. fold (zlen (c6_entries s)) in Hp.
      injection Heq as Hr' Hg. subst r g.
      destruct (Z.leb_spec (c6_first s) (p + c6_first s)); [|lia].
      destruct (Z.ltb_spec (p + c6_first s) (c6_first s + zlen (c6_entries s))); [|lia].
      cbn [andb]. do 3 f_equal. lia.
    + destruct (Z.leb_spec (c6_first s) r); [|discriminate].
      destruct (Z.ltb_spec r (c6_first s + zlen (c6_entries s))); [|discriminate].
      cbn [andb]. intros Heq. injection Heq as <-.
      exists (r - c6_first s). split; [f_equal; lia|].
      apply In_zrange. fold (zlen (c6_entries s)). lia.
Qed.

Lemma rune_ranges6_eq_domain : forall s, wf_cmap6 s = true -> c6_entries s <> [] ->
  ranges_are_domain (rune_ranges6 s) (lookup6 s).
Proof.
  intros s H Hne r Hr. pose proof (wf_cmap6_prop _ H) as (H1 & H2).
  assert (Hpos : 0 < zlen (c6_entries s)).
  { destruct (c6_entries s); [congruence|]. rewrite zlen_cons. pose proof (zlen_nonneg l). lia. }
  assert (Hend : sint32 (c6_first s + sint32 (zlen (c6_entries s)) - 1)
                 = c6_first s + zlen (c6_entries s) - 1).
  { assert (Hd : zlen (c6_entries s) < 2147483648 \/ zlen (c6_entries s) = 2147483648) by lia.
    destruct Hd as [Hd|Hd].
    - rewrite (sint32_small (zlen _)) by lia. apply sint32_small. lia.
    - rewrite Hd. replace (c6_first s) with 0 by lia. reflexivity. }
  rewrite (lookup6_char s r H Hr). unfold rune_ranges6, in_ranges. cbn [existsb fst snd].
  rewrite Hend. rewrite orb_false_r.
  destruct (Z.leb_spec (c6_first s) r); cbn [andb].
  - destruct (Z.leb_spec r (c6_first s + zlen (c6_entries s) - 1));
      destruct (Z.ltb_spec r (c6_first s + zlen (c6_entries s))); try lia.
    + split; [intros _; eexists; reflexivity|reflexivity].
    + split; [discriminate|intros (g & Hg); discriminate Hg].
  - split; [discriminate|intros (g & Hg); discriminate Hg].
Qed.
