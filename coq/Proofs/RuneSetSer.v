(* Proofs about Model/RuneSet.v, part 2: serialize / deserializeFrom round trip and totality,
   and rsLen = cardinality of the member set. *)
From TV Require Import Lib.GoNum Lib.Res Lib.Bytes Model.RuneSet Spec.RuneSet Proofs.RuneSet.
From Coq Require Import ZifyBool.

Local Ltac zdm := Z.div_mod_to_equations.

(* ------------------------------------------------------------------ serialization *)
Lemma zlen_ser_page p : length (p_set p) = 8%nat -> zlen (ser_page p) = 34.
Proof.
  destruct p as [r s]. cbn [p_set]. intros H.
  destruct s as [|w0 [|w1 [|w2 [|w3 [|w4 [|w5 [|w6 [|w7 [|w8 s]]]]]]]]]; try discriminate H.
  reflexivity.
Qed.

Lemma zlen_flat_ser rs : Forall page_ok rs -> zlen (flat_map ser_page rs) = 34 * zlen rs.
Proof.
  induction 1 as [|p rs [_ [H8 _]] F IH]; cbn [flat_map]; [reflexivity|].
  rewrite zlen_app, zlen_cons, IH, (zlen_ser_page p H8). lia.
Qed.

(* 1 *)
Lemma serialize_length : forall rs, Forall page_ok rs -> zlen (serialize rs) = 2 + 34 * zlen rs.
Proof.
  intros rs F. unfold serialize. rewrite zlen_app, zlen_put16, zlen_flat_ser by auto. reflexivity.
Qed.

Lemma read_page_ser p rest : page_ok p -> 0 <= p_ref p -> read_page (ser_page p ++ rest) = p.
Proof.
  intros [H1 [H2 H3]] H0. destruct p as [r s]. cbn [p_ref p_set] in *.
  destruct s as [|w0 [|w1 [|w2 [|w3 [|w4 [|w5 [|w6 [|w7 [|w8 s]]]]]]]]]; try discriminate H2.
  inversion H3 as [|? ? K0 T0]; inversion T0 as [|? ? K1 T1]; inversion T1 as [|? ? K2 T2];
  inversion T2 as [|? ? K3 T3]; inversion T3 as [|? ? K4 T4]; inversion T4 as [|? ? K5 T5];
  inversion T5 as [|? ? K6 T6]; inversion T6 as [|? ? K7 T7]; subst.
  unfold read_page, ser_page. cbn [p_ref p_set flat_map put16 put32 app].
  change (zrange 0 8) with [0; 1; 2; 3; 4; 5; 6; 7]. cbn [map]. unfold zskipn.
  change (Z.to_nat (2 + 4 * 0)) with 2%nat. change (Z.to_nat (2 + 4 * 1)) with 6%nat.
  change (Z.to_nat (2 + 4 * 2)) with 10%nat. change (Z.to_nat (2 + 4 * 3)) with 14%nat.
  change (Z.to_nat (2 + 4 * 4)) with 18%nat. change (Z.to_nat (2 + 4 * 5)) with 22%nat.
  change (Z.to_nat (2 + 4 * 6)) with 26%nat. change (Z.to_nat (2 + 4 * 7)) with 30%nat.
  cbn [skipn get16 get32].
  f_equal; [exact (get16_put16 r (conj H0 H1))|].
  repeat f_equal;
  match goal with |- _ = ?w => exact (get32_put32 w ltac:(assumption)) end.
Qed.

Lemma read_pages_ser rs tail : Forall page_ok rs -> Forall (fun p => 0 <= p_ref p) rs ->
  read_pages (length rs) (flat_map ser_page rs ++ tail) = rs.
Proof.
  induction rs as [|p rs IH]; intros F G; [reflexivity|].
  inversion F as [|? ? F1 F2]; inversion G as [|? ? G1 G2]; subst.
  cbn [length flat_map read_pages]. rewrite <- app_assoc.
  rewrite read_page_ser by auto. f_equal.
  pose proof (zskipn_app_exact (ser_page p) (flat_map ser_page rs ++ tail)) as Q.
  rewrite zlen_ser_page in Q by apply F1. rewrite Q. apply IH; auto.
Qed.

(* 2 *)
Lemma serialize_roundtrip : forall rs tail, inv rs -> zlen rs <= 65535 ->
  deserializeFrom (serialize rs ++ tail) = Ok (rs, 2 + 34 * zlen rs).
Proof.
  intros rs tail [S F] L. unfold deserializeFrom. cbv zeta.
  assert (G : Forall (fun p => 0 <= p_ref p) rs) by (apply sorted_from_all; auto).
  pose proof (zlen_nonneg rs) as N1. pose proof (zlen_nonneg tail) as N2.
  assert (E : zlen (serialize rs ++ tail) = 2 + 34 * zlen rs + zlen tail)
    by (rewrite zlen_app, serialize_length; auto).
  assert (E16 : get16 (serialize rs ++ tail) = zlen rs).
  { unfold serialize. rewrite wrap16_small by lia. rewrite <- app_assoc. cbn [put16 app get16].
    exact (get16_put16 (zlen rs) ltac:(lia)). }
  assert (R : read_pages (Z.to_nat (zlen rs)) (zskipn 2 (serialize rs ++ tail)) = rs).
  { pose proof (zskipn_app_exact (put16 (wrap16 (zlen rs))) (flat_map ser_page rs ++ tail)) as Q.
    rewrite zlen_put16 in Q. unfold serialize. rewrite <- app_assoc, Q.
    unfold zlen. rewrite Nat2Z.id. apply read_pages_ser; auto. }
  rewrite E, E16, R.
  destruct (2 + 34 * zlen rs + zlen tail <? 2) eqn:E1; [lia|].
  destruct (2 + 34 * zlen rs + zlen tail <? 2 + 34 * zlen rs) eqn:E2; [lia|].
  reflexivity.
Qed.

(* 3 *)
Lemma deserialize_total : forall data, deserializeFrom data <> OutOfFuel /\ (forall c, deserializeFrom data <> Panic c).
Proof.
  intros data. unfold deserializeFrom. cbv zeta.
  destruct (zlen data <? 2); [split; intros; discriminate|].
  destruct (zlen data <? 2 + 34 * get16 data); split; intros; discriminate.
Qed.

(* ------------------------------------------------------------------ popcount *)
Lemma fold_count (f : Z -> bool) l :
  fold_right (fun i acc => Z.b2z (f i) + acc) 0 l = zlen (filter f l).
Proof.
  induction l as [|a l IH]; cbn [fold_right filter]; [reflexivity|].
  rewrite IH. destruct (f a); [rewrite zlen_cons|]; cbn [Z.b2z]; lia.
Qed.

(* 4 *)
Lemma popcount32_spec : forall w, popcount32 w = zlen (filter (Z.testbit w) (zrange 0 32)).
Proof. intros w. unfold popcount32. exact (fold_count (Z.testbit w) (zrange 0 32)). Qed.

(* ------------------------------------------------------------------ zrange / list helpers *)
Lemma zrange_In x lo n : In x (zrange lo n) <-> lo <= x < lo + Z.of_nat n.
Proof.
  revert lo; induction n as [|n IH]; intros lo; cbn [zrange In].
  - split; [tauto|lia].
  - rewrite IH. lia.
Qed.
Lemma NoDup_zrange lo n : NoDup (zrange lo n).
Proof.
  revert lo; induction n as [|n IH]; intros lo; cbn [zrange]; constructor; auto.
  rewrite zrange_In. lia.
Qed.
Lemma zrange_shift d lo n : zrange (d + lo) n = map (Z.add d) (zrange lo n).
Proof.
  revert lo; induction n as [|n IH]; intros lo; cbn [zrange map]; [reflexivity|].
  replace (d + lo + 1) with (d + (lo + 1)) by lia. rewrite IH. reflexivity.
Qed.
Lemma filter_map_comm {A B} (f : B -> bool) (g : A -> B) l :
  filter f (map g l) = map g (filter (fun x => f (g x)) l).
Proof.
  induction l as [|a l IH]; cbn [map filter]; [reflexivity|].
  destruct (f (g a)); cbn [map]; congruence.
Qed.
Lemma zlen_map {A B} (f : A -> B) l : zlen (map f l) = zlen l.
Proof. unfold zlen. rewrite map_length. reflexivity. Qed.
Lemma NoDup_map_inj {A B} (f : A -> B) l : (forall x y, f x = f y -> x = y) -> NoDup l -> NoDup (map f l).
Proof.
  intros Hf. induction 1 as [|x l Hx Hl IH]; cbn [map]; constructor; auto.
  rewrite in_map_iff. intros [y [E Hy]]. apply Hf in E. subst. contradiction.
Qed.
Lemma NoDup_filter' {A} (f : A -> bool) l : NoDup l -> NoDup (filter f l).
Proof.
  induction 1 as [|x l Hx Hl IH]; cbn [filter]; [constructor|].
  destruct (f x); auto. constructor; auto. rewrite filter_In. tauto.
Qed.
Lemma NoDup_app' {A} (l1 l2 : list A) : NoDup l1 -> NoDup l2 -> (forall x, In x l1 -> ~ In x l2) -> NoDup (l1 ++ l2).
Proof.
  induction 1 as [|x l Hx Hl IH]; cbn [app]; intros H2 D; auto.
  constructor.
  - rewrite in_app_iff. intros [H|H]; [contradiction|]. apply (D x); [left; reflexivity|exact H].
  - apply IH; auto. intros y Hy. apply D. right; exact Hy.
Qed.

(* ------------------------------------------------------------------ members of a page *)
Definition pbits (s : pageSet) : list Z := filter (page_bit s) (zrange 0 256).
Definition page_elems (p : runePage) : list Z := map (fun b => p_ref p * 256 + b) (pbits (p_set p)).
Definition elements (rs : RuneSet) : list Z := flat_map page_elems rs.

Lemma elements_cons p t : elements (p :: t) = page_elems p ++ elements t.
Proof. reflexivity. Qed.
Lemma rsLen_cons p t : rsLen (p :: t) = page_len p + rsLen t.
Proof. reflexivity. Qed.

Lemma block_len s k : 0 <= k -> zlen (filter (page_bit s) (zrange (32 * k) 32)) = popcount32 (znth 0 s k).
Proof.
  intros Hk. rewrite popcount32_spec.
  replace (32 * k) with (32 * k + 0) by lia.
  rewrite zrange_shift, filter_map_comm, zlen_map. f_equal.
  apply filter_ext_in. intros j Hj. apply zrange_In in Hj. change (Z.of_nat 32) with 32 in Hj.
  unfold page_bit. f_equal; [f_equal|]; zdm; lia.
Qed.

Lemma zrange_256 : zrange 0 256 =
  zrange (32 * 0) 32 ++ zrange (32 * 1) 32 ++ zrange (32 * 2) 32 ++ zrange (32 * 3) 32 ++
  zrange (32 * 4) 32 ++ zrange (32 * 5) 32 ++ zrange (32 * 6) 32 ++ zrange (32 * 7) 32.
Proof. vm_compute. reflexivity. Qed.

Lemma page_len_pbits p : length (p_set p) = 8%nat -> page_len p = zlen (pbits (p_set p)).
Proof.
  destruct p as [r s]. cbn [p_set]. intros H.
  destruct s as [|w0 [|w1 [|w2 [|w3 [|w4 [|w5 [|w6 [|w7 [|w8 s]]]]]]]]]; try discriminate H.
  unfold pbits. rewrite zrange_256. rewrite !filter_app, !zlen_app, !block_len by lia.
  repeat match goal with
         | |- context [znth 0 ?l ?k] => let v := eval cbv in (znth 0 l k) in change (znth 0 l k) with v
         end.
  unfold page_len. cbn [p_set fold_right]. lia.
Qed.

Lemma rsLen_elements rs : Forall page_ok rs -> rsLen rs = zlen (elements rs).
Proof.
  induction 1 as [|p rs [_ [H8 _]] F IH]; [reflexivity|].
  rewrite rsLen_cons, elements_cons, zlen_app, IH. unfold page_elems at 1. rewrite zlen_map.
  rewrite (page_len_pbits p H8). reflexivity.
Qed.

Lemma in_page_elems x p : In x (page_elems p) <-> x / 256 = p_ref p /\ page_bit (p_set p) (x mod 256) = true.
Proof.
  unfold page_elems, pbits. rewrite in_map_iff. split.
  - intros [b [E Hb]]. apply filter_In in Hb as [Hr Hb]. apply zrange_In in Hr.
    change (Z.of_nat 256) with 256 in Hr.
    assert (Q1 : x mod 256 = b) by (zdm; lia). assert (Q2 : x / 256 = p_ref p) by (zdm; lia).
    rewrite Q1. auto.
  - intros [E Hb]. exists (x mod 256). split; [zdm; lia|]. apply filter_In. split; auto.
    apply zrange_In. change (Z.of_nat 256) with 256. zdm; lia.
Qed.
Lemma in_elements x rs : In x (elements rs) <-> exists p, In p rs /\ In x (page_elems p).
Proof. unfold elements. apply in_flat_map. Qed.

Lemma NoDup_page_elems p : NoDup (page_elems p).
Proof.
  unfold page_elems, pbits. apply NoDup_map_inj; [intros; lia|]. apply NoDup_filter'. apply NoDup_zrange.
Qed.

Lemma elements_ref lo rs x : sorted_from lo rs -> In x (elements rs) -> lo <= x / 256.
Proof.
  intros S H. apply in_elements in H as [p [Hp Hx]]. apply in_page_elems in Hx as [E _].
  apply sorted_from_all in S. rewrite Forall_forall in S. specialize (S p Hp). cbv beta in S. lia.
Qed.

Lemma NoDup_elements lo rs : sorted_from lo rs -> NoDup (elements rs).
Proof.
  revert lo; induction rs as [|a rs IH]; intros lo S; [constructor|].
  simpl in S. destruct S as [S1 S2]. rewrite elements_cons.
  apply NoDup_app'; [apply NoDup_page_elems|eapply IH; eauto|].
  intros x H1 H2. apply in_page_elems in H1 as [E _].
  pose proof (elements_ref _ _ _ S2 H2). lia.
Qed.

Lemma mem_eq rs x : rune_ok x ->
  mem rs x = match get rs (x / 256) with Some s => page_bit s (x mod 256) | None => false end.
Proof.
  intros Hx. unfold mem, set_bit, page_bit. rewrite rune_ref_eq, word_idx_eq, bit_idx_eq by auto.
  replace ((x mod 256) mod 32) with (x mod 32) by (zdm; lia). reflexivity.
Qed.

Lemma get_elements lo rs x : sorted_from lo rs ->
  (In x (elements rs) <->
   match get rs (x / 256) with Some s => page_bit s (x mod 256) | None => false end = true).
Proof.
  revert lo; induction rs as [|a rs IH]; intros lo S.
  - cbn [elements flat_map In get]. split; [tauto|discriminate].
  - simpl in S. destruct S as [S1 S2]. rewrite elements_cons, in_app_iff. cbn [get].
    destruct (p_ref a =? x / 256) eqn:E.
    + rewrite in_page_elems. split.
      * intros [[_ H]|H]; auto. pose proof (elements_ref _ _ _ S2 H). lia.
      * intros H. left. split; [lia|auto].
    + rewrite <- (IH _ S2). rewrite in_page_elems. split; [intros [[H _]|H]; [lia|auto]|auto].
Qed.

(* 5 *)
Lemma len_is_cardinality : forall rs, inv rs ->
  exists l, NoDup l /\ (forall x, rune_ok x -> (In x l <-> mem rs x = true)) /\ rsLen rs = zlen l.
Proof.
  intros rs [S F]. exists (elements rs).
  split; [eapply NoDup_elements; eauto|]. split; [|apply rsLen_elements; auto].
  intros x Hx. rewrite mem_eq by auto. eapply get_elements; eauto.
Qed.
