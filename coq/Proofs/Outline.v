(* Lemmas for C10: the buildSegments automaton against the contour specification, bounding boxes, the hmtx
   advance rule, the simple-glyph flag/coordinate decoder. *)
From TV Require Import Model.Outline Spec.Outline.
Open Scope Z_scope.
Ltac Zify.zify_post_hook ::= Z.div_mod_to_equations.

(* ================================================================================================ *)
(* 1. buildSegments                                                                                     *)

Definition cp_of (q : cpt) (e : bool) : cpoint := mkCP (fst (fst q)) (snd (fst q)) (snd q) e.

Lemma mark_cons_cons q q' r : mark (q :: q' :: r) = cp_of q false :: mark (q' :: r).
Proof. destruct q as [[x y] on]. reflexivity. Qed.
Lemma mark_single q : mark [q] = [cp_of q true].
Proof. destruct q as [[x y] on]. reflexivity. Qed.

(* the loop body without the closing block, over a contour given as cpt list *)
Fixpoint bs_points (s : bstate) (l : list cpt) : bstate * list seg :=
  match l with
  | [] => (s, [])
  | q :: r => let '(s1, o1) := bs_point s (cp_of q false) in
              let '(s2, o2) := bs_points s1 r in (s2, o1 ++ o2)
  end.

Lemma bs_point_end_irrelevant s q e : bs_point s (cp_of q e) = bs_point s (cp_of q false).
Proof. reflexivity. Qed.

Lemma bs_points_cons s q r :
  bs_points s (q :: r) = let '(s1, o1) := bs_point s (cp_of q false) in
                         let '(s2, o2) := bs_points s1 r in (s2, o1 ++ o2).
Proof. reflexivity. Qed.
Lemma bs_run_cons s x r :
  bs_run s (x :: r) = let '(s1, o1) := bs_step s x in let '(s2, o2) := bs_run s1 r in (s2, o1 ++ o2).
Proof. reflexivity. Qed.

(* a marked contour = all its points through the loop body, then the closing block once *)
Lemma bs_run_mark s c : c <> [] ->
  bs_run s (mark c) = let '(s1, o1) := bs_points s c in let '(s2, o2) := bs_close s1 in (s2, o1 ++ o2).
Proof.
  revert s. induction c as [|q r IH]; intros s Hne; [congruence|].
  destruct r as [|q' r'].
  - rewrite mark_single. rewrite bs_run_cons, bs_points_cons. unfold bs_step.
    rewrite (bs_point_end_irrelevant s q true).
    destruct (bs_point s (cp_of q false)) as [s1 o1]. cbn [cp_of cp_end bs_run bs_points].
    destruct (bs_close s1) as [s2 o2]. rewrite !app_nil_r. reflexivity.
  - rewrite mark_cons_cons. rewrite bs_run_cons, (bs_points_cons s q). unfold bs_step. cbn [cp_of cp_end].
    change (mkCP (fst (fst q)) (snd (fst q)) (snd q) false) with (cp_of q false).
    destruct (bs_point s (cp_of q false)) as [s1 o1].
    rewrite IH by congruence.
    destruct (bs_points s1 (q' :: r')) as [s2 o2].
    destruct (bs_close s2) as [s3 o3]. rewrite app_assoc. reflexivity.
Qed.

Lemma bs_run_app s a b :
  bs_run s (a ++ b) = let '(s1, o1) := bs_run s a in let '(s2, o2) := bs_run s1 b in (s2, o1 ++ o2).
Proof.
  revert s. induction a as [|x a IH]; intros s.
  - cbn. destruct (bs_run s b); reflexivity.
  - cbn [app bs_run]. destruct (bs_step s x) as [s1 o1]. rewrite IH.
    destruct (bs_run s1 a) as [s2 o2]. destruct (bs_run s2 b) as [s3 o3]. rewrite app_assoc. reflexivity.
Qed.

(* ---- the main phase (a first on-curve point is known) as a walk over the remaining points ---- *)
Fixpoint walk (lo : option pt) (l : list cpt) : list seg * option pt :=
  match l with
  | [] => ([], lo)
  | (p, on) :: r =>
      match lo, on with
      | None, true => let '(o, lo') := walk None r in (LineTo (dbl_u p) :: o, lo')
      | None, false => walk (Some p) r
      | Some c, true => let '(o, lo') := walk None r in (QuadTo (dbl_u c) (dbl_u p) :: o, lo')
      | Some c, false => let '(o, lo') := walk (Some p) r in (QuadTo (dbl_u c) (mid_u c p) :: o, lo')
      end
  end.

Definition lo_of (s : bstate) : option pt := if loffV s then Some (loff s) else None.

Lemma walk_app lo a b :
  walk lo (a ++ b) = let '(o1, lo1) := walk lo a in let '(o2, lo2) := walk lo1 b in (o1 ++ o2, lo2).
Proof.
  revert lo. induction a as [|[p on] a IH]; intros lo.
  - cbn. destruct (walk lo b); reflexivity.
  - cbn [app walk]. destruct lo as [c|], on; rewrite IH;
      repeat match goal with |- context [walk ?x ?y] => destruct (walk x y) end; reflexivity.
Qed.

Lemma bs_points_main s l : fonV s = true ->
  exists s', bs_points s l = (s', fst (walk (lo_of s) l))
             /\ fonV s' = true /\ foffV s' = foffV s /\ fon s' = fon s /\ foff s' = foff s
             /\ lo_of s' = snd (walk (lo_of s) l).
Proof.
  revert s. induction l as [|[[x y] on] r IH]; intros s Hv.
  - exists s. cbn. repeat split; try reflexivity; assumption.
  - rewrite bs_points_cons. unfold bs_point. rewrite Hv. cbn [negb cp_of fst snd cp_on cp_x cp_y].
    cbn [walk]. unfold lo_of at 1 2 3.
    destruct (loffV s) eqn:Hl; destruct on; cbn [negb];
    match goal with |- context [bs_points ?s1 r] =>
      let Hs := fresh in
      assert (Hs : fonV s1 = true) by (first [reflexivity | assumption]);
      destruct (IH s1 Hs) as (s' & E & A & B & C & D & F); rewrite E; exists s';
      unfold lo_of in F |- *; cbn [fonV foffV loffV fon foff loff] in A, B, C, D, F |- *;
      try rewrite Hl in F |- *;
      match goal with |- context [walk ?a r] => destruct (walk a r) as [o lo'] end;
      cbn [fst snd] in *; repeat split; try assumption; try reflexivity
    end.
Qed.

(* the closing block = walk over the saved first off-curve point (if any), then return to the start *)
Definition fin (lo : option pt) (start : pt) : list seg :=
  match lo with None => [LineTo start] | Some c => [QuadTo (dbl_u c) start] end.
Definition fl (s : bstate) : list cpt := if foffV s then [(foff s, false)] else [].

Lemma bs_close_walk s :
  snd (bs_close s) = fst (walk (lo_of s) (fl s)) ++ fin (snd (walk (lo_of s) (fl s))) (fon s).
Proof.
  unfold bs_close, fl, lo_of, fin. destruct (foffV s), (loffV s); reflexivity.
Qed.
Definition clean (s : bstate) : Prop := fonV s = false /\ foffV s = false /\ loffV s = false.
Lemma bs_close_clean s : clean (fst (bs_close s)).
Proof. unfold bs_close, clean; cbn. auto. Qed.

Lemma last_cons_default {A} (x : A) l d : last (x :: l) d = last l x.
Proof.
  revert x d. induction l as [|y l IH]; intros x d; [reflexivity|].
  change (last (x :: y :: l) d) with (last (y :: l) d). rewrite (IH y d), (IH y x). reflexivity.
Qed.

(* ---- traces ---- *)
Definition pend (lo : option pt) : list cpt := match lo with Some c => [(dbl_u c, false)] | None => [] end.
Definition matches (lo : option pt) (prev : cpt) : Prop :=
  match lo with Some c => prev = (c, false) | None => snd prev = true end.

Lemma trace_app a b : trace (a ++ b) = trace a ++ trace b.
Proof. unfold trace. apply flat_map_app. Qed.

Lemma walk_trace l : forall lo prev, matches lo prev ->
  pend lo ++ expand prev l = trace (fst (walk lo l)) ++ pend (snd (walk lo l))
  /\ matches (snd (walk lo l)) (last l prev).
Proof.
  induction l as [|[p on] r IH]; intros lo prev M.
  - cbn. rewrite app_nil_r. split; [reflexivity|assumption].
  - rewrite (@last_cons_default cpt (p, on) r prev). cbn [walk expand fst snd].
    destruct lo as [c|]; cbn in M.
    + subst prev. cbn [snd negb andb fst].
      destruct on; cbn [negb andb].
      * destruct (IH None (p, true) eq_refl) as [E Mt]. destruct (walk None r) as [o lo'].
        cbn [fst snd] in *. cbn [pend app] in *. rewrite E. split; [reflexivity|assumption].
      * destruct (IH (Some p) (p, false) eq_refl) as [E Mt]. destruct (walk (Some p) r) as [o lo'].
        cbn [fst snd] in *. cbn [pend app trace flat_map seg_trace] in *.
        change (flat_map seg_trace o) with (trace o). rewrite <- E. split; [reflexivity|assumption].
    + destruct prev as [pp pon]. cbn in M. subst pon. cbn [snd negb andb fst].
      destruct on.
      * destruct (IH None (p, true) eq_refl) as [E Mt]. destruct (walk None r) as [o lo'].
        cbn [fst snd] in *. cbn [pend app] in *. rewrite E. split; [reflexivity|assumption].
      * destruct (IH (Some p) (p, false) eq_refl) as [E Mt].
        destruct (walk (Some p) r) as [o lo']. cbn [fst snd] in *. cbn [pend app] in *.
        split; [exact E|assumption].
Qed.

Lemma trace_fin lo start : trace (fin lo start) = pend lo ++ [(start, true)].
Proof. destruct lo; reflexivity. Qed.

Lemma expand_app prev a b : expand prev (a ++ b) = expand prev a ++ expand (last a prev) b.
Proof.
  revert prev. induction a as [|x a IH]; intros prev; [reflexivity|].
  cbn [app expand]. rewrite IH. rewrite <- !app_assoc. cbn [app].
  rewrite (@last_cons_default cpt x a prev). reflexivity.
Qed.

(* output of a contour once the start is fixed: state s has a valid first on-curve point *)
Lemma main_phase s r : fonV s = true ->
  exists s', bs_points s r = (s', fst (walk (lo_of s) r))
    /\ snd (bs_close s') = fst (walk (snd (walk (lo_of s) r)) (fl s))
                             ++ fin (snd (walk (snd (walk (lo_of s) r)) (fl s))) (fon s).
Proof.
  intros Hv. destruct (bs_points_main s r Hv) as (s' & E & A & B & C & D & F).
  exists s'. split; [assumption|]. rewrite bs_close_walk. unfold fl. rewrite B, C, D, F. reflexivity.
Qed.

Lemma main_phase_trace s r prev : fonV s = true -> matches (lo_of s) prev ->
  exists s' o2, bs_points s r = (s', fst (walk (lo_of s) r)) /\ snd (bs_close s') = o2
    /\ pend (lo_of s) ++ expand prev (r ++ fl s) ++ [(fon s, true)]
       = trace (fst (walk (lo_of s) r) ++ o2)
    /\ forallb is_draw (fst (walk (lo_of s) r) ++ o2) = true
    /\ o2 <> [] /\ seg_end (last o2 (MoveTo (fon s))) = fon s.
Proof.
  intros Hv M. destruct (main_phase s r Hv) as (s' & E & C).
  exists s', (snd (bs_close s')). split; [assumption|]. split; [reflexivity|].
  rewrite C. rewrite trace_app.
  pose proof (walk_trace (r ++ fl s) (lo_of s) prev M) as [T _].
  rewrite walk_app in T.
  destruct (walk (lo_of s) r) as [o1 lo1] eqn:W1. cbn [fst snd] in *.
  destruct (walk lo1 (fl s)) as [o3 lo3] eqn:W3. cbn [fst snd] in *.
  rewrite trace_app, trace_fin. rewrite trace_app in T.
  split.
  - rewrite app_assoc, T. rewrite <- !app_assoc. reflexivity.
  - split.
    + rewrite !forallb_app. apply andb_true_iff. split.
      * clear -W1. revert o1 lo1 W1. generalize (lo_of s). induction r as [|[p on] r IH]; intros lo o1 lo1 W.
        { cbn in W. inversion W. reflexivity. }
        cbn [walk] in W. destruct lo as [c|], on.
        { destruct (walk None r) eqn:W'. inversion W; subst. cbn. eapply IH; eauto. }
        { destruct (walk (Some p) r) eqn:W'. inversion W; subst. cbn. eapply IH; eauto. }
        { destruct (walk None r) eqn:W'. inversion W; subst. cbn. eapply IH; eauto. }
        { eapply IH; eauto. }
      * apply andb_true_iff. split.
        { unfold fl in W3. destruct (foffV s); cbn in W3.
          - destruct lo1; inversion W3; reflexivity.
          - inversion W3; reflexivity. }
        { destruct lo3; reflexivity. }
    + split.
      * destruct lo3; destruct o3; cbn; congruence.
      * destruct lo3; cbn [fin]; rewrite last_last; reflexivity.
Qed.

(* ---- the outline of one contour as a function of the contour alone ---- *)
Definition tail_out (lo : option pt) (r f : list cpt) (start : pt) : list seg :=
  let '(o1, lo1) := walk lo r in let '(o3, lo3) := walk lo1 f in o1 ++ o3 ++ fin lo3 start.

Definition contour_fn (c : list cpt) : list seg :=
  match c with
  | [] => []
  | (p, true) :: r => MoveTo (dbl_u p) :: tail_out None r [] (dbl_u p)
  | [(a, false)] => []
  | (a, false) :: (p, true) :: r => MoveTo (dbl_u p) :: tail_out None r [(a, false)] (dbl_u p)
  | (a, false) :: (b, false) :: r => MoveTo (mid_u a b) :: tail_out (Some b) r [(a, false)] (mid_u a b)
  end.

Lemma main_phase_out s r : fonV s = true ->
  exists s', bs_points s r = (s', fst (walk (lo_of s) r))
    /\ fst (walk (lo_of s) r) ++ snd (bs_close s') = tail_out (lo_of s) r (fl s) (fon s).
Proof.
  intros Hv. destruct (main_phase s r Hv) as (s' & E & C). exists s'. split; [assumption|].
  rewrite C. unfold tail_out. destruct (walk (lo_of s) r) as [o1 lo1]. cbn [fst snd].
  destruct (walk lo1 (fl s)) as [o3 lo3]. reflexivity.
Qed.

Lemma contour_run s c : clean s -> good_contour c = true ->
  exists s', bs_run s (mark c) = (s', contour_fn c) /\ clean s'.
Proof.
  intros (H1 & H2 & H3) G.
  assert (Hne : c <> []) by (destruct c; [discriminate|congruence]).
  rewrite (bs_run_mark s c Hne).
  destruct c as [|[[x y] on] r]; [discriminate|].
  rewrite bs_points_cons. unfold bs_point at 1. rewrite H1. cbn [negb cp_of fst snd cp_on cp_x cp_y].
  destruct on.
  - (* starts on the curve *)
    match goal with |- context [bs_points ?s1 r] =>
      destruct (main_phase_out s1 r eq_refl) as (s' & E & O); rewrite E;
      unfold lo_of, fl in O; cbn [fonV foffV loffV fon foff loff] in O; rewrite H2, H3 in O end.
    exists (fst (bs_close s')). pose proof (bs_close_clean s') as Hc.
    destruct (bs_close s') as [s2 o2]. cbn [fst snd] in *. split; [|assumption].
    cbn [contour_fn]. unfold lo_of. cbn [loffV]. rewrite H3. rewrite <- O. reflexivity.
  - rewrite H2. cbn [negb].
    destruct r as [|[[x' y'] on'] r']; [discriminate|].
    rewrite bs_points_cons. unfold bs_point at 1. cbn [fonV foffV loffV fon foff loff]. try rewrite H1.
    cbn [negb cp_of fst snd cp_on cp_x cp_y].
    destruct on'.
    + match goal with |- context [bs_points ?s1 r'] =>
        destruct (main_phase_out s1 r' eq_refl) as (s' & E & O); rewrite E;
        unfold lo_of, fl in O; cbn [fonV foffV loffV fon foff loff] in O; rewrite H3 in O end.
      exists (fst (bs_close s')). pose proof (bs_close_clean s') as Hc.
      destruct (bs_close s') as [s2 o2]. cbn [fst snd] in *. split; [|assumption].
      cbn [contour_fn]. unfold lo_of. cbn [loffV]. rewrite H3. cbn [app]. rewrite <- O. reflexivity.
    + match goal with |- context [bs_points ?s1 r'] =>
        destruct (main_phase_out s1 r' eq_refl) as (s' & E & O); rewrite E;
        unfold lo_of, fl in O; cbn [fonV foffV loffV fon foff loff] in O end.
      exists (fst (bs_close s')). pose proof (bs_close_clean s') as Hc.
      destruct (bs_close s') as [s2 o2]. cbn [fst snd] in *. split; [|assumption].
      cbn [contour_fn]. unfold lo_of. cbn [loffV]. cbn [app]. rewrite <- O. reflexivity.
Qed.

Lemma walk_draw l : forall lo, forallb is_draw (fst (walk lo l)) = true.
Proof.
  induction l as [|[p on] r IH]; intros lo; [reflexivity|].
  cbn [walk]. destruct lo as [c|], on.
  - specialize (IH None). destruct (walk None r). cbn in *. assumption.
  - specialize (IH (Some p)). destruct (walk (Some p) r). cbn in *. assumption.
  - specialize (IH None). destruct (walk None r). cbn in *. assumption.
  - apply IH.
Qed.

Lemma tail_out_props lo prev r f start : matches lo prev ->
  trace (tail_out lo r f start) = pend lo ++ expand prev (r ++ f) ++ [(start, true)]
  /\ forallb is_draw (tail_out lo r f start) = true
  /\ tail_out lo r f start <> []
  /\ forall d, seg_end (last (tail_out lo r f start) d) = start.
Proof.
  intros M. unfold tail_out.
  pose proof (walk_trace (r ++ f) lo prev M) as [T _]. rewrite walk_app in T.
  pose proof (walk_draw r lo) as D1.
  destruct (walk lo r) as [o1 lo1]. pose proof (walk_draw f lo1) as D3.
  destruct (walk lo1 f) as [o3 lo3]. cbn [fst snd] in *.
  split; [|split; [|split]].
  - rewrite !trace_app, trace_fin. rewrite trace_app in T.
    rewrite (app_assoc (pend lo)), T. rewrite <- !app_assoc. reflexivity.
  - rewrite !forallb_app, D1, D3. destruct lo3; reflexivity.
  - destruct lo3, o1, o3; cbn; congruence.
  - intros d. rewrite app_assoc. destruct lo3; cbn [fin]; rewrite last_last; reflexivity.
Qed.

Lemma removelast_snoc {A} (l : list A) x : removelast (l ++ [x]) = l.
Proof. apply removelast_last. Qed.

Lemma contour_fn_spec c : good_contour c = true -> contour_spec c (contour_fn c).
Proof.
  intros G. destruct c as [|[a on] r]; [discriminate|].
  destruct on.
  - (* first point on the curve *)
    cbn [contour_fn].
    destruct (tail_out_props None (a, true) r [] (dbl_u a) eq_refl) as (T & D & N & E).
    split.
    + exists (dbl_u a), (tail_out None r [] (dbl_u a)). repeat split; auto.
    + change (trace (MoveTo (dbl_u a) :: tail_out None r [] (dbl_u a)))
        with ((dbl_u a, true) :: trace (tail_out None r [] (dbl_u a))).
      rewrite T. cbn [pend app]. rewrite app_nil_r.
      change ((dbl_u a, true) :: expand (a, true) r ++ [(dbl_u a, true)])
        with (((dbl_u a, true) :: expand (a, true) r) ++ [(dbl_u a, true)]).
      rewrite removelast_snoc.
      exists [], ((dbl_u a, true) :: expand (a, true) r). split; [|rewrite app_nil_r; reflexivity].
      cbn [expand_cyclic expand snd fst negb]. rewrite andb_false_r. reflexivity.
  - destruct r as [|[b on'] r']; [discriminate|].
    destruct on'.
    + cbn [contour_fn].
      destruct (tail_out_props None (b, true) r' [(a, false)] (dbl_u b) eq_refl) as (T & D & N & E).
      split.
      * exists (dbl_u b), (tail_out None r' [(a, false)] (dbl_u b)). repeat split; auto.
      * change (trace (MoveTo (dbl_u b) :: tail_out None r' [(a, false)] (dbl_u b)))
          with ((dbl_u b, true) :: trace (tail_out None r' [(a, false)] (dbl_u b))).
        rewrite T. cbn [pend app]. rewrite expand_app.
        rewrite app_comm_cons, removelast_snoc.
        exists (expand (last r' (b, true)) [(a, false)]), ((dbl_u b, true) :: expand (b, true) r').
        split.
        -- unfold expand_cyclic, cpt.
           match goal with |- context [last (?x :: ?y :: ?l) ?d] =>
             rewrite (last_cons_default x (y :: l) d), (last_cons_default y l x) end.
           cbn [expand snd fst negb andb app].
           rewrite <- app_assoc. reflexivity.
        -- reflexivity.
    + cbn [contour_fn].
      destruct (tail_out_props (Some b) (b, false) r' [(a, false)] (mid_u a b) eq_refl) as (T & D & N & E).
      split.
      * exists (mid_u a b), (tail_out (Some b) r' [(a, false)] (mid_u a b)). repeat split; auto.
      * change (trace (MoveTo (mid_u a b) :: tail_out (Some b) r' [(a, false)] (mid_u a b)))
          with ((mid_u a b, true) :: trace (tail_out (Some b) r' [(a, false)] (mid_u a b))).
        rewrite T. cbn [pend app]. rewrite expand_app.
        rewrite !app_comm_cons, removelast_snoc.
        exists (expand (last r' (b, false)) [(a, false)]),
               ((mid_u a b, true) :: (dbl_u b, false) :: expand (b, false) r').
        split.
        -- unfold expand_cyclic, cpt.
           match goal with |- context [last (?x :: ?y :: ?l) ?d] =>
             rewrite (last_cons_default x (y :: l) d), (last_cons_default y l x) end.
           cbn [expand snd fst negb andb app].
           rewrite <- app_assoc. reflexivity.
        -- reflexivity.
Qed.

(* ---- several contours: each one is decoded independently of what came before ---- *)
Lemma clean_init : clean bs_init.
Proof. repeat split. Qed.

Lemma bs_run_contours cs : Forall (fun c => good_contour c = true) cs -> forall s, clean s ->
  exists s', bs_run s (concat (map mark cs)) = (s', concat (map contour_fn cs)) /\ clean s'.
Proof.
  induction 1 as [|c cs G _ IH]; intros s Hc.
  - exists s. split; [reflexivity|assumption].
  - cbn [map concat]. rewrite bs_run_app.
    destruct (contour_run s c Hc G) as (s1 & E1 & C1). rewrite E1.
    destruct (IH s1 C1) as (s2 & E2 & C2). rewrite E2. exists s2. split; [reflexivity|assumption].
Qed.

Lemma build_segments_contours cs : Forall (fun c => good_contour c = true) cs ->
  build_segments (concat (map mark cs)) = concat (map contour_fn cs).
Proof.
  intros G. unfold build_segments. destruct (bs_run_contours cs G bs_init clean_init) as (s' & E & _).
  rewrite E. reflexivity.
Qed.

Lemma build_segments_one c : good_contour c = true -> build_segments (mark c) = contour_fn c.
Proof.
  intros G. pose proof (build_segments_contours [c] (Forall_cons _ G (Forall_nil _))) as H.
  cbn [map concat] in H. rewrite !app_nil_r in H. exact H.
Qed.

Lemma segments_closed_lemma cs : Forall (fun c => good_contour c = true) cs ->
  build_segments (concat (map mark cs)) = concat (map (fun c => build_segments (mark c)) cs)
  /\ Forall (fun c => contour_spec c (build_segments (mark c))) cs.
Proof.
  intros G. split.
  - rewrite build_segments_contours by assumption. f_equal.
    apply map_ext_in. intros c Hin. symmetry. apply build_segments_one.
    rewrite Forall_forall in G. auto.
  - rewrite Forall_forall in *. intros c Hin. rewrite build_segments_one by auto. apply contour_fn_spec. auto.
Qed.

(* ---- boolean checkers reflect the specification ---- *)
Lemma pt_eqb_eq a b : pt_eqb a b = true <-> a = b.
Proof.
  destruct a, b. unfold pt_eqb. cbn. rewrite andb_true_iff, !Z.eqb_eq. split; [intros []; congruence|inversion 1; auto].
Qed.
Lemma cpt_eqb_eq a b : cpt_eqb a b = true <-> a = b.
Proof.
  destruct a as [p x], b as [q y]. unfold cpt_eqb. cbn. rewrite andb_true_iff, pt_eqb_eq, Bool.eqb_true_iff.
  split; [intros []; congruence|inversion 1; auto].
Qed.
Lemma cpts_eqb_eq a b : cpts_eqb a b = true <-> a = b.
Proof.
  revert b. induction a as [|x a IH]; destruct b as [|y b]; cbn; try (split; congruence).
  rewrite andb_true_iff, cpt_eqb_eq, IH. split; [intros []; congruence|inversion 1; auto].
Qed.

Lemma closed_contourb_iff out : closed_contourb out = true <-> closed_contour out.
Proof.
  unfold closed_contourb, closed_contour. split.
  - destruct out as [|[s| |] segs]; try discriminate. destruct segs as [|x segs]; [discriminate|].
    rewrite andb_true_iff, pt_eqb_eq. intros [D E]. exists s, (x :: segs). repeat split; auto. congruence.
  - intros (s & segs & -> & N & D & E). destruct segs as [|x segs]; [congruence|].
    rewrite andb_true_iff, pt_eqb_eq. auto.
Qed.

Lemma rotationb_iff a b : rotationb a b = true <-> rotation a b.
Proof.
  unfold rotationb, rotation. rewrite existsb_exists. split.
  - intros (k & _ & E). apply cpts_eqb_eq in E. exists (firstn k a), (skipn k a).
    split; [symmetry; apply firstn_skipn|symmetry; exact E].
  - intros (l1 & l2 & -> & ->). exists (length l1). split.
    + apply in_seq. rewrite app_length. lia.
    + apply cpts_eqb_eq. rewrite skipn_app, firstn_app, skipn_all, firstn_all, Nat.sub_diag. cbn.
      rewrite app_nil_r. reflexivity.
Qed.

Lemma contour_specb_iff c out : contour_specb c out = true <-> contour_spec c out.
Proof.
  unfold contour_specb, contour_spec. rewrite andb_true_iff, closed_contourb_iff, rotationb_iff. reflexivity.
Qed.

(* ---- the whole-glyph checker: cutting points into contours and segments into paths ---- *)
Lemma split_contours_inv pts : forall cs, split_contours pts = (cs, []) ->
  pts = concat (map mark cs) /\ Forall (fun c => c <> []) cs.
Proof.
  induction pts as [|p r IH]; intros cs H.
  - cbn in H. inversion H. split; [reflexivity|constructor].
  - cbn [split_contours] in H. destruct (split_contours r) as [cs0 t0].
    destruct (cp_end p) eqn:He.
    + inversion H; subst. destruct (IH cs0 eq_refl) as [E F]. split.
      * cbn [map concat mark]. destruct p as [x y on e]. cbn in He. subst e. cbn. f_equal. exact E.
      * constructor; [congruence|assumption].
    + destruct cs0 as [|c cs']; [inversion H|]. inversion H; subst.
      destruct (IH (c :: cs') eq_refl) as [E F]. inversion F as [|? ? Hc F']; subst. split.
      * cbn [map concat]. destruct c as [|q' c']; [congruence|].
        rewrite mark_cons_cons. cbn [app]. f_equal.
        destruct p as [x y on e]. cbn in He. subst e. reflexivity.
      * constructor; [congruence|assumption].
Qed.

Definition starts_closed (gs : list (list seg)) : Prop :=
  match gs with [] => True | (MoveTo _ :: _) :: _ => True | _ => False end.

Lemma split_segs_draws d rest : d <> [] -> forallb is_draw d = true -> starts_closed (split_segs rest) ->
  split_segs (d ++ rest) = d :: split_segs rest.
Proof.
  induction d as [|x d IH]; intros N D S; [congruence|].
  cbn in D. apply andb_true_iff in D as [Dx Dd].
  destruct d as [|y d'].
  - cbn [app split_segs]. destruct (split_segs rest) as [|g gs]; [reflexivity|].
    destruct g as [|[m| |] g']; cbn in S; try contradiction. reflexivity.
  - change ((x :: y :: d') ++ rest) with (x :: ((y :: d') ++ rest)). cbn [split_segs].
    rewrite IH by (auto; congruence).
    destruct y; [cbn in Dd; discriminate| |]; reflexivity.
Qed.

Lemma split_segs_closed out rest : closed_contour out -> starts_closed (split_segs rest) ->
  split_segs (out ++ rest) = out :: split_segs rest.
Proof.
  intros (s & segs & -> & N & D & _) S.
  change ((MoveTo s :: segs) ++ rest) with (MoveTo s :: (segs ++ rest)). cbn [split_segs].
  rewrite split_segs_draws by assumption.
  destruct segs as [|y d']; [congruence|]. cbn in D. destruct y; [discriminate| |]; reflexivity.
Qed.

Lemma split_segs_concat outs : Forall closed_contour outs ->
  split_segs (concat outs) = outs /\ starts_closed (split_segs (concat outs)).
Proof.
  induction 1 as [|o outs C _ [IH1 IH2]].
  - split; [reflexivity|exact I].
  - cbn [concat]. rewrite split_segs_closed by assumption. rewrite IH1. split; [reflexivity|].
    destruct C as (s & segs & -> & _). exact I.
Qed.

Lemma outline_spec_lemma pts : good_points pts = true -> outline_specb pts (build_segments pts) = true.
Proof.
  unfold good_points, outline_specb. destruct (split_contours pts) as [cs t] eqn:E.
  destruct t; [|discriminate]. intros G.
  destruct (split_contours_inv pts cs E) as [-> _].
  rewrite forallb_forall in G.
  assert (GF : Forall (fun c => good_contour c = true) cs) by (apply Forall_forall; auto).
  rewrite build_segments_contours by assumption.
  assert (CF : Forall closed_contour (map contour_fn cs)).
  { apply Forall_forall. intros o Ho. apply in_map_iff in Ho as (c & <- & Hin). apply contour_fn_spec; auto. }
  destruct (split_segs_concat _ CF) as [-> _].
  clear -GF. induction GF as [|c cs Gc _ IH]; [reflexivity|].
  cbn [map all2]. rewrite IH, andb_true_r. apply contour_specb_iff, contour_fn_spec; assumption.
Qed.

(* ================================================================================================ *)
(* 2. bounding boxes                                                                                    *)

Lemma bbox_acc_spec pts : forall a b c d,
  let '(a', b', c', d') := bbox_acc pts a b c d in
  a' <= a /\ b' <= b /\ c <= c' /\ d <= d'
  /\ (forall p, In p pts -> a' <= cp_x p <= c' /\ b' <= cp_y p <= d')
  /\ (a' = a \/ exists p, In p pts /\ cp_x p = a') /\ (b' = b \/ exists p, In p pts /\ cp_y p = b')
  /\ (c' = c \/ exists p, In p pts /\ cp_x p = c') /\ (d' = d \/ exists p, In p pts /\ cp_y p = d').
Proof.
  induction pts as [|q r IH]; intros a b c d.
  - cbn. repeat split; try lia; auto; intros p [].
  - cbn [bbox_acc].
    specialize (IH (Z.min a (cp_x q)) (Z.min b (cp_y q)) (Z.max c (cp_x q)) (Z.max d (cp_y q))).
    destruct (bbox_acc r _ _ _ _) as [[[a' b'] c'] d'].
    destruct IH as (A & B & C & D & I & Ea & Eb & Ec & Ed).
    split; [lia|]. split; [lia|]. split; [lia|]. split; [lia|]. split.
    + intros p [<-|Hin]; [lia|]. apply I; assumption.
    + assert (X : forall (v v0 : Z) (f : cpoint -> Z), (v = v0 \/ exists p, In p r /\ f p = v) ->
                 (v0 = a \/ v0 = f q) -> (v = a \/ exists p, In p (q :: r) /\ f p = v)).
      { intros v v0 f [->|(p & Hin & E)] [->| ->]; auto.
        - right. exists q. split; [left; reflexivity|reflexivity].
        - right. exists p. split; [right; assumption|assumption].
        - right. exists p. split; [right; assumption|assumption]. }
      repeat split.
      * destruct Ea as [->|(p & Hin & E)].
        -- destruct (Z.min_spec a (cp_x q)) as [[_ ->]|[_ ->]]; [left; reflexivity|right; exists q; split; [left|]; reflexivity].
        -- right. exists p. split; [right; assumption|assumption].
      * destruct Eb as [->|(p & Hin & E)].
        -- destruct (Z.min_spec b (cp_y q)) as [[_ ->]|[_ ->]]; [left; reflexivity|right; exists q; split; [left|]; reflexivity].
        -- right. exists p. split; [right; assumption|assumption].
      * destruct Ec as [->|(p & Hin & E)].
        -- destruct (Z.max_spec c (cp_x q)) as [[_ ->]|[_ ->]]; [right; exists q; split; [left|]; reflexivity|left; reflexivity].
        -- right. exists p. split; [right; assumption|assumption].
      * destruct Ed as [->|(p & Hin & E)].
        -- destruct (Z.max_spec d (cp_y q)) as [[_ ->]|[_ ->]]; [right; exists q; split; [left|]; reflexivity|left; reflexivity].
        -- right. exists p. split; [right; assumption|assumption].
Qed.

Lemma extents_enclose_lemma pts p : In p pts -> in_box (extents_from_points pts) (cp_x p) (cp_y p).
Proof.
  intros Hin. unfold extents_from_points. destruct pts as [|p0 r]; [destruct Hin|].
  pose proof (bbox_acc_spec (p0 :: r) (cp_x p0) (cp_y p0) (cp_x p0) (cp_y p0)) as S.
  destruct (bbox_acc (p0 :: r) _ _ _ _) as [[[a b] c] d].
  destruct S as (_ & _ & _ & _ & I & _). specialize (I p Hin). unfold in_box. lia.
Qed.

Lemma extents_tight_lemma pts : pts <> [] ->
  let '(xb, yb, w, h) := extents_from_points pts in
  (exists p, In p pts /\ cp_x p = xb) /\ (exists p, In p pts /\ cp_x p = xb + w)
  /\ (exists p, In p pts /\ cp_y p = yb) /\ (exists p, In p pts /\ cp_y p = yb + h).
Proof.
  intros N. unfold extents_from_points. destruct pts as [|p0 r]; [congruence|].
  pose proof (bbox_acc_spec (p0 :: r) (cp_x p0) (cp_y p0) (cp_x p0) (cp_y p0)) as S.
  destruct (bbox_acc (p0 :: r) _ _ _ _) as [[[a b] c] d].
  destruct S as (_ & _ & _ & _ & _ & Ea & Eb & Ec & Ed).
  assert (P0 : In p0 (p0 :: r)) by (left; reflexivity).
  repeat split.
  - destruct Ea as [->|H]; [exists p0; auto|exact H].
  - replace (a + (c - a)) with c by lia. destruct Ec as [->|H]; [exists p0; auto|exact H].
  - destruct Ed as [->|H]; [exists p0; auto|exact H].
  - replace (d + (b - d)) with b by lia. destruct Eb as [->|H]; [exists p0; auto|exact H].
Qed.

Lemma sint16_small x : -32768 <= x < 32768 -> sint16 x = x.
Proof.
  intros H. unfold sint16, wrap16. destruct (x mod 65536 <? 32768) eqn:E.
  - apply Z.ltb_lt in E. lia.
  - apply Z.ltb_ge in E. lia.
Qed.

Lemma bbox_acc_translate t pts : forall a b c d,
  bbox_acc (map (translate_x t) pts) (a + t) b (c + t) d =
  let '(a', b', c', d') := bbox_acc pts a b c d in (a' + t, b', c' + t, d').
Proof.
  induction pts as [|q r IH]; intros a b c d; [reflexivity|].
  cbn [map bbox_acc translate_x cp_x cp_y].
  replace (Z.min (a + t) (cp_x q + t)) with (Z.min a (cp_x q) + t) by lia.
  replace (Z.max (c + t) (cp_x q + t)) with (Z.max c (cp_x q) + t) by lia.
  apply IH.
Qed.

(* when the glyf header states the exact box of the points, the header-based extents of the library are the
   point-based extents of the outline it returns (shifted so that xMin = left side bearing) *)
Lemma header_extents_lemma h lsb pts : header_exact h lsb pts = true ->
  extents_from_header h lsb = extents_from_points (map (translate_x (- sint16 (h_xmin h - lsb))) pts).
Proof.
  unfold header_exact, extents_from_header, extents_from_points.
  destruct pts as [|p0 r]; [discriminate|].
  pose proof (bbox_acc_spec (p0 :: r) (cp_x p0) (cp_y p0) (cp_x p0) (cp_y p0)) as S.
  pose proof (bbox_acc_translate (- sint16 (h_xmin h - lsb)) (p0 :: r) (cp_x p0) (cp_y p0) (cp_x p0) (cp_y p0)) as T.
  destruct (bbox_acc (p0 :: r) _ _ _ _) as [[[a b] c] d].
  destruct S as (A & B & C & D & _).
  intros H. rewrite !andb_true_iff in H. destruct H as [[[[[[[E1 E2] E3] E4] E5] E6] E7] E8].
  apply Z.eqb_eq in E1, E2, E3, E4. apply Z.ltb_lt in E5, E8. apply Z.leb_le in E6, E7.
  cbn [map] in *. cbn [translate_x cp_x cp_y] in *.
  rewrite T. rewrite sint16_small by lia.
  rewrite E1, E2, E3, E4.
  rewrite !sint16_small by lia.
  f_equal; [f_equal; [f_equal|]|]; lia.
Qed.

(* ================================================================================================ *)
(* 3. hmtx                                                                                              *)

Lemma long_metrics_length n : forall src, (4 * n <= length src)%nat -> length (long_metrics n src) = n.
Proof.
  induction n as [|n IH]; intros src H; [reflexivity|].
  destruct src as [|a [|b [|c [|d r]]]]; cbn [length] in H; try lia.
  cbn [long_metrics length]. rewrite IH; [reflexivity|lia].
Qed.
Lemma long_metrics_nth n : forall src i, (i < n)%nat -> (4 * n <= length src)%nat ->
  nth i (long_metrics n src) (0, 0) =
  (sint16 (get16 (skipn (4 * i) src)), sint16 (get16 (skipn (4 * i + 2) src))).
Proof.
  induction n as [|n IH]; intros src i Hi H; [lia|].
  destruct src as [|a [|b [|c [|d r]]]]; cbn [length] in H; try lia.
  cbn [long_metrics]. destruct i as [|i].
  - reflexivity.
  - cbn [nth]. rewrite IH by lia.
    replace (4 * S i)%nat with (S (S (S (S (4 * i))))) by lia.
    replace (4 * S i + 2)%nat with (S (S (S (S (4 * i + 2))))) by lia. reflexivity.
Qed.
Lemma short_metrics_length n : forall src, (2 * n <= length src)%nat -> length (short_metrics n src) = n.
Proof.
  induction n as [|n IH]; intros src H; [reflexivity|].
  destruct src as [|a [|b r]]; cbn [length] in H; try lia.
  cbn [short_metrics length]. rewrite IH; [reflexivity|lia].
Qed.
Lemma short_metrics_nth n : forall src i, (i < n)%nat -> (2 * n <= length src)%nat ->
  nth i (short_metrics n src) 0 = sint16 (get16 (skipn (2 * i) src)).
Proof.
  induction n as [|n IH]; intros src i Hi H; [lia|].
  destruct src as [|a [|b r]]; cbn [length] in H; try lia.
  cbn [short_metrics]. destruct i as [|i].
  - reflexivity.
  - cbn [nth]. rewrite IH by lia.
    replace (2 * S i)%nat with (S (S (2 * i))) by lia. reflexivity.
Qed.

Lemma skipn_skipn' {A} (x y : nat) (l : list A) : skipn x (skipn y l) = skipn (y + x) l.
Proof.
  revert l. induction y as [|y IH]; intros l; [reflexivity|].
  destruct l as [|a l]; [rewrite !skipn_nil; reflexivity|]. cbn [skipn plus]. apply IH.
Qed.

Lemma advance_rule_lemma hhea hmtx nl ng upem gid :
  hhea_num_long hhea = Ok nl -> wf_hmtx hmtx nl ng -> 0 <= gid < ng ->
  exists t, load_hmtx hhea hmtx ng = Ok t
            /\ horizontal_advance upem t gid = Ok (advance_spec hmtx nl gid)
            /\ side_bearing t gid = lsb_spec hmtx nl gid.
Proof.
  intros Hh [[W1 W2] W3] Hg. unfold load_hmtx. rewrite Hh. rewrite Z.max_r by lia. unfold parse_hmtx.
  assert (Hlen : length hmtx = Z.to_nat (zlen hmtx)) by (unfold zlen; lia).
  destruct (zlen hmtx <? nl * 4) eqn:E1; [apply Z.ltb_lt in E1; lia|].
  destruct (zlen hmtx <? nl * 4 + (ng - nl) * 2) eqn:E2; [apply Z.ltb_lt in E2; lia|].
  destruct (ng - nl <? 0) eqn:E3; [apply Z.ltb_lt in E3; lia|].
  eexists. split; [reflexivity|].
  assert (LM : zlen (long_metrics (Z.to_nat nl) hmtx) = nl).
  { unfold zlen. rewrite long_metrics_length by lia. lia. }
  assert (LS : zlen (short_metrics (Z.to_nat (ng - nl)) (zskipn (nl * 4) hmtx)) = ng - nl).
  { unfold zlen. rewrite short_metrics_length; [lia|]. unfold zskipn. rewrite skipn_length. lia. }
  unfold horizontal_advance, hmtx_is_empty, tab_advance, side_bearing. cbn [hm_metrics hm_lsb].
  rewrite LM, LS.
  destruct (nl + (ng - nl) =? 0) eqn:E4; [apply Z.eqb_eq in E4; lia|].
  unfold advance_spec, lsb_spec, i16_at, u16_at, zskipn, znth.
  destruct (gid <? nl) eqn:E5.
  - apply Z.ltb_lt in E5. destruct (gid <? 0) eqn:E6; [apply Z.ltb_lt in E6; lia|].
    rewrite long_metrics_nth by lia. cbn [fst snd].
    replace (Z.min gid (nl - 1)) with gid by lia.
    replace (Z.to_nat (4 * gid)) with (4 * Z.to_nat gid)%nat by lia.
    replace (Z.to_nat (4 * gid + 2)) with (4 * Z.to_nat gid + 2)%nat by lia.
    split; reflexivity.
  - apply Z.ltb_ge in E5.
    destruct (nl =? 0) eqn:E8; [apply Z.eqb_eq in E8; lia|].
    destruct (gid <? ng - nl + nl) eqn:E7; [|apply Z.ltb_ge in E7; lia].
    cbn [negb andb].
    destruct (nl - 1 <? 0) eqn:E9; [apply Z.ltb_lt in E9; lia|].
    destruct (gid - nl <? 0) eqn:E10; [apply Z.ltb_lt in E10; lia|].
    rewrite long_metrics_nth by lia. cbn [fst].
    replace (Z.min gid (nl - 1)) with (nl - 1) by lia.
    replace (Z.to_nat (4 * (nl - 1))) with (4 * Z.to_nat (nl - 1))%nat by lia.
    split; [reflexivity|].
    rewrite short_metrics_nth; [|lia|rewrite skipn_length; lia].
    rewrite skipn_skipn'. do 2 f_equal. f_equal. lia.
Qed.

(* ================================================================================================ *)
(* 4. simple glyph: flags with repeat, coordinates                                                      *)

Fixpoint sum_len (short same : Z) (l : list Z) : Z :=
  match l with [] => 0 | f :: r => coord_len f short same + sum_len short same r end.

Lemma coord_len_nonneg f a b : 0 <= coord_len f a b <= 2.
Proof. unfold coord_len. destruct (flag_bit f a), (flag_bit f b); lia. Qed.
Lemma sum_len_app a b l1 l2 : sum_len a b (l1 ++ l2) = sum_len a b l1 + sum_len a b l2.
Proof. induction l1 as [|x l1 IH]; cbn [app sum_len]; [lia|rewrite IH; lia]. Qed.
Lemma sum_len_rev a b l : sum_len a b (rev l) = sum_len a b l.
Proof. induction l as [|x l IH]; [reflexivity|]. cbn [rev]. rewrite sum_len_app, IH. cbn. lia. Qed.
Lemma sum_len_nonneg a b l : 0 <= sum_len a b l.
Proof. induction l as [|x l IH]; cbn; [lia|]. pose proof (coord_len_nonneg x a b). lia. Qed.
Lemma sum_len_repeat a b n f : sum_len a b (repeat_z n f) = Z.of_nat n * coord_len f a b.
Proof. induction n as [|n IH]; [reflexivity|]. cbn [repeat_z sum_len]. rewrite IH. lia. Qed.
Lemma zlen_repeat n f : zlen (repeat_z n f) = Z.of_nat n.
Proof. unfold zlen. induction n as [|n IH]; [reflexivity|]. cbn [repeat_z length]. lia. Qed.

Definition nonneg (l : list Z) : Prop := Forall (fun b => 0 <= b) l.

Lemma read_flags_spec n : forall src need acc lx ly acc' rest lx' ly',
  (length src <= n)%nat -> nonneg src -> 0 <= need ->
  read_flags src need acc lx ly = Ok (acc', rest, lx', ly') ->
  exists new, acc' = new ++ acc /\ zlen new = need
              /\ lx' = lx + sum_len 1 4 new /\ ly' = ly + sum_len 2 5 new
              /\ (length rest <= length src)%nat.
Proof.
  induction n as [|n IH]; intros src need acc lx ly acc' rest lx' ly' Hn Hb Hneed H.
  - destruct src; [|cbn in Hn; lia]. cbn in H.
    destruct (need <=? 0) eqn:E; [|discriminate]. apply Z.leb_le in E. inversion H; subst.
    exists []. cbn. repeat split; try (unfold zlen; cbn; lia).
  - destruct src as [|flag src1].
    + cbn in H. destruct (need <=? 0) eqn:E; [|discriminate]. apply Z.leb_le in E. inversion H; subst.
      exists []. cbn. repeat split; try (unfold zlen; cbn; lia).
    + cbn [read_flags] in H. destruct (need <=? 0) eqn:E.
      * apply Z.leb_le in E. inversion H; subst. exists []. cbn. repeat split; try (unfold zlen; cbn; lia).
      * apply Z.leb_gt in E. inversion Hb as [|? ? Hf Hb1]; subst.
        destruct (flag_bit flag 3).
        -- destruct src1 as [|rc0 src2]; [discriminate|]. inversion Hb1 as [|? ? Hrc Hb2]; subst.
           set (rc := if need <? rc0 + 1 then need - 1 else rc0) in *.
           assert (Hrcb : 0 <= rc <= need - 1).
           { unfold rc. destruct (need <? rc0 + 1) eqn:E2; [apply Z.ltb_lt in E2|apply Z.ltb_ge in E2]; lia. }
           clearbody rc.
           apply IH in H; [|cbn in Hn |- *; lia|assumption|lia].
           destruct H as (new & -> & L & X & Y & R).
           exists (new ++ repeat_z (Z.to_nat rc) flag ++ [flag]).
           repeat split.
           ++ rewrite <- !app_assoc. reflexivity.
           ++ rewrite !zlen_app, zlen_repeat, L. unfold zlen at 1. cbn [length]. lia.
           ++ rewrite X, !sum_len_app, sum_len_repeat. cbn [sum_len]. rewrite Z2Nat.id by lia. lia.
           ++ rewrite Y, !sum_len_app, sum_len_repeat. cbn [sum_len]. rewrite Z2Nat.id by lia. lia.
           ++ cbn [length] in *. lia.
        -- apply IH in H; [|cbn in Hn |- *; lia|assumption|lia].
           destruct H as (new & -> & L & X & Y & R).
           exists (new ++ [flag]). repeat split.
           ++ rewrite <- app_assoc. reflexivity.
           ++ rewrite zlen_app, L. unfold zlen at 1. cbn [length]. lia.
           ++ rewrite X, sum_len_app. cbn [sum_len]. lia.
           ++ rewrite Y, sum_len_app. cbn [sum_len]. lia.
           ++ cbn [length] in *. lia.
Qed.

Lemma read_flags_total src : forall need acc lx ly, total (read_flags src need acc lx ly).
Proof.
  assert (G : forall n src need acc lx ly, (length src <= n)%nat -> total (read_flags src need acc lx ly)).
  { induction n as [|n IH]; intros s need acc lx ly Hn.
    - destruct s; [|cbn in Hn; lia]. cbn. destruct (need <=? 0); exact I.
    - destruct s as [|flag s1]; [cbn; destruct (need <=? 0); exact I|].
      cbn [read_flags]. destruct (need <=? 0); [exact I|].
      destruct (flag_bit flag 3).
      + destruct s1 as [|rc0 s2]; [exact I|]. apply IH. cbn in Hn |- *. lia.
      + apply IH. cbn in Hn |- *. lia. }
  intros. eapply G. reflexivity.
Qed.

(* with enough coordinate bytes the coordinate reader never indexes out of range and yields one value per flag *)
Lemma read_coords_ok short same flags : forall data v, sum_len short same flags <= zlen data ->
  exists r, read_coords flags data short same v = Ok r /\ length r = length flags.
Proof.
  induction flags as [|f fs IH]; intros data v H.
  - exists []. split; reflexivity.
  - cbn [sum_len] in H. unfold coord_len in H. cbn [read_coords].
    pose proof (sum_len_nonneg short same fs) as Hs.
    destruct (flag_bit f short).
    + destruct data as [|val d']; [rewrite zlen_nil in H; lia|].
      rewrite zlen_cons in H.
      destruct (IH d' (sint16 (if flag_bit f same then v + val else v - val)) ltac:(lia)) as (r & -> & L).
      eexists. split; [reflexivity|]. cbn. lia.
    + destruct (flag_bit f same); cbn [negb].
      * destruct (IH data v ltac:(lia)) as (r & -> & L). eexists. split; [reflexivity|]. cbn. lia.
      * destruct data as [|a [|b d']]; try (rewrite ?zlen_cons, zlen_nil in H; lia).
        rewrite !zlen_cons in H.
        destruct (IH d' (sint16 (v + sint16 (a * 256 + b))) ltac:(lia)) as (r & -> & L).
        eexists. split; [reflexivity|]. cbn. lia.
Qed.

Lemma zip3_length a b c : length b = length a -> length c = length a -> length (zip3 a b c) = length a.
Proof.
  revert b c. induction a as [|x a IH]; intros [|y b] [|z c] Hb Hc; cbn in *; try lia.
  rewrite IH; lia.
Qed.

Lemma parse_points_spec src end_pts : nonneg src -> end_pts <> [] -> 0 <= last_z end_pts + 1 ->
  match parse_points src end_pts with
  | Ok pts => zlen pts = last_z end_pts + 1
  | Err _ => True
  | _ => False
  end.
Proof.
  intros Hb Hne Hn. unfold parse_points. destruct end_pts as [|e0 er]; [congruence|].
  set (np := last_z (e0 :: er) + 1) in *.
  pose proof (read_flags_total src np [] 0 0) as Ht.
  destruct (read_flags src np [] 0 0) as [[[[racc rest] lx] ly]| | |] eqn:E; cbn [bind]; try exact I; try contradiction.
  destruct (read_flags_spec (length src) src np [] 0 0 racc rest lx ly (le_n _) Hb Hn E)
    as (new & -> & L & X & Y & _).
  rewrite app_nil_r in *.
  pose proof (sum_len_nonneg 1 4 new). pose proof (sum_len_nonneg 2 5 new).
  destruct (zlen rest <? lx + ly) eqn:E2; [exact I|]. apply Z.ltb_ge in E2.
  destruct (read_coords_ok 1 4 (rev new) (zfirstn lx rest) 0) as (xs & -> & Lx).
  { rewrite sum_len_rev, zlen_zfirstn by lia. lia. }
  destruct (read_coords_ok 2 5 (rev new) (zfirstn ly (zskipn lx rest)) 0) as (ys & -> & Ly).
  { rewrite sum_len_rev, zlen_zfirstn; [lia|]. rewrite zlen_zskipn by lia. lia. }
  cbn [bind]. unfold zlen. rewrite zip3_length by assumption. rewrite rev_length. exact L.
Qed.

Lemma nonneg_skipn k : forall l, nonneg l -> nonneg (skipn k l).
Proof.
  induction k as [|k IH]; intros l H; [assumption|]. destruct l; [assumption|].
  inversion H; subst. cbn. apply IH; assumption.
Qed.
Lemma read_u16s_nonneg n : forall src, nonneg src -> nonneg (read_u16s n src).
Proof.
  induction n as [|n IH]; intros src H; [constructor|].
  destruct src as [|a [|b r]]; try constructor.
  - inversion H as [|? ? Ha H1]; subst. inversion H1 as [|? ? Hb H2]; subst. lia.
  - inversion H as [|? ? Ha H1]; subst. inversion H1 as [|? ? Hb H2]; subst. apply IH; assumption.
Qed.
Lemma last_z_nonneg l : nonneg l -> 0 <= last_z l.
Proof.
  unfold last_z. induction l as [|x l IH]; intros H; [cbn; lia|].
  inversion H; subst. destruct l; [cbn; assumption|]. apply IH; assumption.
Qed.

Lemma parse_simple_total src nc : nonneg src -> total (parse_simple src nc).
Proof.
  intros Hb. unfold parse_simple.
  destruct (zlen src <? nc * 2); [exact I|].
  destruct (zlen src <? nc * 2 + 2); [exact I|].
  destruct (zlen src <? nc * 2 + 2 + u16_at (nc * 2) src); [exact I|].
  set (ep := read_u16s (Z.to_nat nc) src).
  assert (Hep : nonneg ep) by (apply read_u16s_nonneg; assumption).
  destruct ep as [|e0 er] eqn:Eep.
  - cbn. exact I.
  - pose proof (parse_points_spec (zskipn (nc * 2 + 2 + u16_at (nc * 2) src) src) (e0 :: er)
                  (nonneg_skipn _ _ Hb) ltac:(congruence)) as P.
    pose proof (last_z_nonneg _ Hep).
    specialize (P ltac:(lia)).
    destruct (parse_points _ (e0 :: er)); cbn [bind]; try exact I; contradiction.
Qed.

Lemma parse_glyph_total_lemma src : nonneg src -> total (parse_glyph src).
Proof.
  intros Hb. unfold parse_glyph. destruct src as [|b0 r]; [exact I|].
  set (src := b0 :: r) in *.
  destruct (zlen src <? 10); [exact I|].
  cbn [h_ncont]. destruct (0 <=? i16_at 0 src); [|exact I].
  pose proof (parse_simple_total (zskipn 10 src) (i16_at 0 src) (nonneg_skipn _ _ Hb)) as T.
  destruct (parse_simple (zskipn 10 src) (i16_at 0 src)); cbn [bind]; try exact I; contradiction.
Qed.

Lemma flags_decode_length_lemma src end_pts pts : nonneg src -> nonneg end_pts -> end_pts <> [] ->
  parse_points src end_pts = Ok pts -> zlen pts = last_z end_pts + 1.
Proof.
  intros Hb He Hne H. pose proof (last_z_nonneg _ He).
  pose proof (parse_points_spec src end_pts Hb Hne ltac:(lia)) as P. rewrite H in P. exact P.
Qed.
