(* C02 "Advance = sum of the glyph advances" at RETURN time for EVERY store (start letter spacing included).
   The loops of wrapNextLine edit the store only through trimStartLetterSpacing on Glyphs[0] of a piece cut as first in
   line (cutRun with trim).  Invariant (GA): every run of the candidate prefix, of the checkpoint and of the best line has
   Advance = sum on the current store, and the best line is empty, or the checkpointed prefix is not empty (no trim can
   happen any more), or it is a single piece whose Glyphs[0] is trimmed.  A later trim is applied to Glyphs[0] of a piece
   with the same start and an end at or beyond the end of the best line (candidates never get shorter): by
   Proofs/WrapAdvRet.v trim_longer_piece_safe it leaves the glyphs of the best line alone. *)
From TV Require Import Model.Wrap Spec.Wrap Spec.WrapCut Proofs.Wrap Proofs.WrapCut Proofs.WrapLines Proofs.WrapTotal Proofs.WrapStore
  Proofs.WrapMand Proofs.WrapMand2 Proofs.WrapTrunc Proofs.WrapWidth Proofs.WrapValid Proofs.WrapAdvRet.

Definition trimmed (st : store) (x : out) : Prop :=
  0 < o_len x -> g_sls (znth glyph_zero (src_array st (o_src x)) (o_lo x)) = 0.
Definition single_tr (st : store) (l : list out) : Prop := exists x, l = [x] /\ trimmed st x.

Definition GAa (w : W) : Prop :=
  Forall (aok (w_st w)) (s_alt (w_sc w)) /\ Forall (aok (w_st w)) (s_save (w_sc w))
  /\ (forall l, s_best (w_sc w) = Some l -> Forall (aok (w_st w)) l).
Definition MIDB (w : W) : Prop :=
  forall l, s_best (w_sc w) = Some l -> l = [] \/ s_save (w_sc w) <> [] \/ single_tr (w_st w) l.
Definition TOPB (w : W) : Prop :=
  forall l, s_best (w_sc w) = Some l -> l = [] \/ s_alt (w_sc w) <> [] \/ single_tr (w_st w) l.

(* what cutRun does to the store *)
Lemma cut_run_store : forall st run m s e t st' r, cut_run st run m s e t = Ok (st', r) ->
  (st' = st /\ (t = false \/ o_len r <= 0))
  \/ (t = true /\ 0 < o_len r /\ st' = store_update st (o_src r) (o_lo r) trim_glyph).
Proof.
  intros st run m s e t st' r H. unfold cut_run in H.
  destruct (inclusive_glyph_range _ _ _ _ _) as [[gs gend]| | |]; cbn [bind] in H; try discriminate.
  cbv zeta in H. destruct (_ && _ && _); [|discriminate].
  destruct t; cbn [andb] in H.
  - match type of H with context [if ?c then _ else _] => destruct c eqn:E end; injection H as <- <-; cbn.
    + right. apply Z.ltb_lt in E. cbn in E. auto.
    + left. apply Z.ltb_ge in E. cbn in E. auto.
  - injection H as <- <-. left. auto.
Qed.

Lemma znth_zset_cases : forall {A} (d : A) l i x j,
  znth d (zset l i x) j = znth d l j \/ (j = i /\ 0 <= i < zlen l /\ znth d (zset l i x) j = x).
Proof.
  intros A d l i x j. unfold zset. destruct (i <? 0) eqn:E0; [left; reflexivity|]. apply Z.ltb_ge in E0.
  unfold znth. destruct (j <? 0) eqn:E1; [left; reflexivity|]. apply Z.ltb_ge in E1.
  rewrite nth_list_set.
  destruct ((Z.to_nat j =? Z.to_nat i)%nat && (Z.to_nat i <? length l)%nat) eqn:E2; [|left; reflexivity].
  apply andb_prop in E2. destruct E2 as [E2 E3]. apply Nat.eqb_eq in E2. apply Nat.ltb_lt in E3.
  right. split; [lia|]. split; [unfold zlen; lia|reflexivity].
Qed.

Lemma src_array_update : forall st src i f sx,
  src_array (store_update st src i f) sx = src_array st sx
  \/ (sx = src /\ src_array (store_update st src i f) sx = zset (src_array st src) i (f (znth glyph_zero (src_array st src) i))).
Proof.
  intros st src i f sx. unfold store_update, src_array.
  destruct (znth_zset_cases [] st src (zset (znth [] st src) i (f (znth glyph_zero (znth [] st src) i))) sx) as [E|(E1 & E2 & E3)].
  - left. exact E.
  - right. split; [exact E1|exact E3].
Qed.

(* the glyph at a position after a trim somewhere: trimmed, or as before *)
Lemma store_update_glyph : forall st src i sx lx,
  let g := znth glyph_zero (src_array st sx) lx in
  let g' := znth glyph_zero (src_array (store_update st src i trim_glyph) sx) lx in
  g' = g \/ g' = trim_glyph g.
Proof.
  intros st src i sx lx. cbv zeta.
  destruct (src_array_update st src i trim_glyph sx) as [E|[E1 E2]]; [rewrite E; left; reflexivity|]. subst sx. rewrite E2.
  destruct (znth_zset_cases glyph_zero (src_array st src) i (trim_glyph (znth glyph_zero (src_array st src) i)) lx) as [E|(E3 & E4 & E5)].
  - left. exact E.
  - right. subst lx. exact E5.
Qed.

Lemma trimmed_update : forall st src i x, trimmed st x -> trimmed (store_update st src i trim_glyph) x.
Proof.
  intros st src i x H Hl. specialize (H Hl).
  destruct (store_update_glyph st src i (o_src x) (o_lo x)) as [E|E]; rewrite E; [exact H|]. reflexivity.
Qed.

Lemma znth_zset_same : forall {A} (d : A) l i x, 0 <= i < zlen l -> znth d (zset l i x) i = x.
Proof.
  intros A d l i x H. unfold zset, znth. replace (i <? 0) with false by (symmetry; apply Z.ltb_ge; lia).
  rewrite nth_list_set. rewrite Nat.eqb_refl. replace (Z.to_nat i <? length l)%nat with true by (symmetry; apply Nat.ltb_lt; unfold zlen in H; lia).
  reflexivity.
Qed.

(* after the trim of its own Glyphs[0] a piece is trimmed *)
Lemma trimmed_self : forall st r, 0 <= o_src r < zlen st -> 0 <= o_lo r < zlen (src_array st (o_src r)) ->
  trimmed (store_update st (o_src r) (o_lo r) trim_glyph) r.
Proof.
  intros st r Hs Hl Hlen. unfold store_update. unfold src_array at 1. rewrite znth_zset_same by exact Hs.
  rewrite znth_zset_same by exact Hl. reflexivity.
Qed.

Lemma aok_same_glyphs : forall st st' x, out_glyphs st' x = out_glyphs st x -> aok st x -> aok st' x.
Proof. intros st st' x E H. unfold aok in *. rewrite E. exact H. Qed.

Lemma GAa_ext : forall w w', w_st w' = w_st w -> w_sc w' = w_sc w -> GAa w -> GAa w'.
Proof. intros w w' A B H. unfold GAa in *. rewrite A, B. exact H. Qed.
Lemma MIDB_ext : forall w w', w_st w' = w_st w -> w_sc w' = w_sc w -> MIDB w -> MIDB w'.
Proof. intros w w' A B H. unfold MIDB in *. rewrite A, B. exact H. Qed.

Lemma chain_single_off : forall s x e, chain s [x] e -> o_off x = s /\ e = out_end x.
Proof. intros s x e H. destruct (chain_cons_inv _ _ _ _ H) as [A B]. inversion B. auto. Qed.

(* one trim at Glyphs[0] of the exact piece rc that starts at the line start and, when it lies in the same input run as
   the single best piece, ends at or after it: GAa and MIDB survive for the best line *)
Lemma best_survives_trim : forall n w rc,
  XI n w -> (forall l, s_best (w_sc w) = Some l -> exists e, chain (w_start w) l e) ->
  s_save (w_sc w) = [] -> MIDB w ->
  PO (w_st w) (w_runs w) rc -> o_off rc = w_start w -> 0 < o_len rc ->
  (forall x, s_best (w_sc w) = Some [x] -> o_src x = o_src rc -> out_end x <= out_end rc) ->
  forall l, s_best (w_sc w) = Some l ->
    Forall (aok (w_st w)) l -> Forall (aok (store_update (w_st w) (o_src rc) (o_lo rc) trim_glyph)) l
    /\ (l = [] \/ single_tr (store_update (w_st w) (o_src rc) (o_lo rc) trim_glyph) l).
Proof.
  intros n w rc HX HBo Hsv HM Prc Hoff Hlen Hend l EB HA.
  destruct (HM l EB) as [->|[Q|(x & -> & Tx)]]; [split; [constructor|left; reflexivity]|congruence|].
  destruct HX as ((HW & _) & _ & _ & XBest). destruct (XBest [x] EB) as [FPO _]. inversion FPO as [|? ? Px _]; subst.
  destruct (HBo [x] EB) as [e He]. destruct (chain_single_off _ _ _ He) as [Ox _].
  inversion HA as [|? ? Ax _]; subst.
  pose proof (trim_longer_piece_safe (w_st w) (w_runs w) n x rc HW Px Prc ltac:(lia) (Hend x EB) Hlen Tx) as E.
  split; [constructor; [eapply aok_same_glyphs; eauto|constructor]|].
  right. exists x. split; [reflexivity|apply trimmed_update; exact Tx].
Qed.

Lemma fill_until_GA : forall n fuel w b w',
  XI n w -> 0 <= w_idx w ->
  (s_alt (w_sc w) = [] -> s_save (w_sc w) = []) ->
  (forall l, s_best (w_sc w) = Some l -> exists e, chain (w_start w) l e) ->
  GAa w -> MIDB w ->
  fill_until fuel w b = Ok w' ->
  GAa w' /\ MIDB w' /\ (s_alt (w_sc w') = [] -> s_save (w_sc w') = []).
Proof.
  intros n. induction fuel as [|fuel IH]; intros w b w' HX Hi HE HBo HG HM H; [discriminate|]. cbn [fill_until] in H. unfold peek in H.
  destruct (zlen (w_runs w) <=? w_idx w) eqn:E; [cbn [andb] in H; inversion H; subst; auto|].
  apply Z.leb_gt in E. cbn [andb] in H. set (run := znth out_zero (w_runs w) (w_idx w)) in *.
  destruct (o_cnt run + o_off run <=? b); [|inversion H; subst; auto].
  pose proof HX as ((HW & HMs & HC) & HA & HS & HBst).
  destruct (wf_runs_nth _ _ _ HW (w_idx w) ltac:(lia)) as (G0 & G1 & G2 & G3 & G4 & G5 & G6 & G7). fold run in G0, G1, G2, G3, G4, G5, G7.
  destruct (o_off run + o_cnt run <=? w_start w) eqn:Es.
  { apply (IH (iter_advance w) b w'); [eapply XI_ext; [| | | | |exact HX]; destruct w; reflexivity|destruct w; cbn in *; lia
      |destruct w; exact HE|destruct w; exact HBo|eapply GAa_ext; [| |exact HG]; destruct w; reflexivity
      |eapply MIDB_ext; [| |exact HM]; destruct w; reflexivity|exact H]. }
  apply Z.leb_gt in Es.
  destruct (o_off run <? w_start w) eqn:Ec.
  - apply Z.ltb_lt in Ec.
    destruct (map_run_safe n w (w_idx w) run (proj1 HX) ltac:(lia) eq_refl) as (mp & MR & XM & MM). rewrite MR in H. cbn [bind] in H.
    replace (w_st (set_mp w mp)) with (w_st w) in H by (destruct w; reflexivity).
    replace (w_start (set_mp w mp)) with (w_start w) in H by (destruct w; reflexivity).
    replace (mapping_of (w_mp (set_mp w mp))) with (mapping_of mp) in H by (destruct w; reflexivity). rewrite MM, <- G1 in H.
    replace (alt_empty (set_mp w mp)) with (alt_empty w) in H by (destruct w; reflexivity).
    destruct (cut_safe n (w_st w) (w_runs w) run (w_start w) (o_cnt run + o_off run) (alt_empty w) HW G0
                ltac:(lia) ltac:(lia) ltac:(lia) (HC run G0) ltac:(apply cluster_start_out; right; lia))
      as (st' & rc & CR & S1 & P1 & O1 & O2).
    rewrite CR in H. cbn [bind fst snd] in H.
    pose proof (cut_run_fields _ _ _ _ _ _ _ _ CR) as (_ & _ & CF3 & _ & _ & CF6).
    assert (Prc : PO (w_st w) (w_runs w) rc) by (unfold PO in *; rewrite (sk_piece_ok (w_st w) st' (w_runs w) rc (eq_sym S1)); exact P1).
    assert (Orc : o_off rc = w_start w) by lia.
    assert (Erc : out_end rc = out_end run) by (unfold out_end in *; lia).
    assert (Hend : forall x, s_best (w_sc w) = Some [x] -> o_src x = o_src rc -> out_end x <= out_end rc).
    { intros x EB Es2. destruct (HBst [x] EB) as [FPO _]. inversion FPO as [|? ? Px _]; subst.
      unfold PO, piece_ok in Px. repeat (apply andb_prop in Px; destruct Px as [Px ?]).
      match goal with Hq : (out_end x <=? out_end _) = true |- _ => apply Z.leb_le in Hq; rewrite Es2, CF3, G1 in Hq; fold run in Hq end. lia. }
    set (wx := iter_advance (cand_append (set_st (set_mp w mp) st') rc)) in *.
    assert (XIx : XI n wx).
    { pose proof (XI_set_st n _ st' (XI_set_mp n w mp HX XM) ltac:(destruct w; exact S1)) as (XB2 & XA2 & XS2 & XBe2).
      split; [unfold wx; destruct w; exact XB2|]. unfold wx. destruct w; cbn in *. split; [|split; assumption].
      apply Forall_app. split; [exact XA2|constructor; [exact P1|constructor]]. }
    assert (Hstx : w_st wx = st') by (unfold wx; destruct w; reflexivity).
    assert (Hscx : s_alt (w_sc wx) = s_alt (w_sc w) ++ [rc] /\ s_save (w_sc wx) = s_save (w_sc w) /\ s_best (w_sc wx) = s_best (w_sc w))
      by (unfold wx; destruct w as [? ? ? ? ? ? ? ? ? [? ? ? ? ?] ?]; cbn; auto).
    destruct Hscx as (Sx1 & Sx2 & Sx3).
    destruct HG as (GA1 & GA2 & GA3).
    assert (GMx : GAa wx /\ MIDB wx).
    { unfold GAa, MIDB. rewrite Hstx, Sx1, Sx2, Sx3.
      destruct (cut_run_store _ _ _ _ _ _ _ _ CR) as [[-> _]|(Tt & Tl & ->)].
      - split; [|exact HM]. split; [apply Forall_app; split; [exact GA1|apply Forall1; exact CF6]|]. split; [exact GA2|exact GA3].
      - assert (Ae : s_alt (w_sc w) = []) by (unfold alt_empty in Tt; destruct (s_alt (w_sc w)); [reflexivity|discriminate]).
        pose proof (HE Ae) as Se. rewrite Ae, Se. cbn [app].
        split.
        + split; [apply Forall1; exact CF6|]. split; [constructor|].
          intros l EB. exact (proj1 (best_survives_trim n w rc HX HBo Se HM Prc Orc Tl Hend l EB (GA3 l EB))).
        + intros l EB. destruct (proj2 (best_survives_trim n w rc HX HBo Se HM Prc Orc Tl Hend l EB (GA3 l EB))) as [Q|Q]; auto. }
    destruct GMx as [GAx MIx].
    apply (IH wx b w'); [exact XIx|unfold wx; destruct w; cbn in *; lia| |unfold wx; destruct w; exact HBo|exact GAx|exact MIx|exact H].
    rewrite Sx1. intros Q. destruct (s_alt (w_sc w)); discriminate Q.
  - cbn [bind fst snd] in H.
    set (wx := iter_advance (cand_append w (recompute_advance (w_st w) run))) in *.
    assert (Hscx : w_st wx = w_st w /\ s_alt (w_sc wx) = s_alt (w_sc w) ++ [recompute_advance (w_st w) run]
                   /\ s_save (w_sc wx) = s_save (w_sc w) /\ s_best (w_sc wx) = s_best (w_sc w))
      by (unfold wx; destruct w as [? ? ? ? ? ? ? ? ? [? ? ? ? ?] ?]; cbn; auto).
    destruct Hscx as (Sx0 & Sx1 & Sx2 & Sx3). destruct HG as (GA1 & GA2 & GA3).
    apply (IH wx b w'); [| | | | | |exact H].
    + split; [unfold wx; destruct w; exact (proj1 HX)|]. unfold wx. destruct w; cbn in *. split; [|split; assumption].
      apply Forall_app. split; [exact HA|constructor; [|constructor]].
      assert (PW : PO w_st w_runs run) by (eapply whole_piece_ok; eauto).
      unfold PO in *. rewrite <- PW. unfold piece_ok, recompute_advance, set_adv, out_end. reflexivity.
    + unfold wx; destruct w; cbn in *; lia.
    + rewrite Sx1. intros Q. destruct (s_alt (w_sc w)); discriminate Q.
    + unfold wx; destruct w; exact HBo.
    + unfold GAa. rewrite Sx0, Sx1, Sx2, Sx3. split; [apply Forall_app; split; [exact GA1|apply Forall1; apply aok_recompute]|]. split; assumption.
    + unfold MIDB. rewrite Sx0, Sx2, Sx3. exact HM.
Qed.

Lemma pbo_GA : forall n w opt lc w' r cand,
  JP n w -> XI n w -> fst opt < n ->
  (s_alt (w_sc w) <> [] -> lend (w_start w) (s_alt (w_sc w)) <= fst opt) ->
  s_alt (w_sc w) = s_save (w_sc w) ->
  GAa w -> MIDB w ->
  (forall x, s_best (w_sc w) = Some [x] -> out_end x <= fst opt + 1) ->
  process_break_option w opt lc = Ok (w', r, cand) ->
  GAa w' /\ MIDB w' /\ (r <> BreakInvalid -> aok (w_st w') cand /\ (s_alt (w_sc w') = [] -> trimmed (w_st w') cand)).
Proof.
  intros n w opt lc w' r cand HJ HX Hopt Hord HE HG HM Hmono H0.
  pose proof HJ as (HI & _). pose proof HI as (HR & HP & HS & HMp & HBo).
  destruct (pbo_safe2 n w opt lc HI HX Hopt Hord) as (w'' & r'' & cand'' & PB & XC3 & Sk3 & Fin3 & _).
  rewrite H0 in PB. injection PB as <- <- <-.
  destruct (JP_pbo n w opt lc w' r cand HJ Hopt Hord H0) as (P3 & F3 & _ & _ & C3 & _).
  pose proof H0 as H. unfold process_break_option in H.
  destruct (fst opt <? w_start w) eqn:E0.
  { inversion H; subst. split; [exact HG|]. split; [exact HM|congruence]. }
  assert (Hidx0 : 0 <= w_idx w).
  { destruct HP as (_ & pre & post & m & e & _ & Hidx & _). rewrite <- Hidx. apply zlen_nonneg. }
  destruct (fill_until_safe n (S (length (w_runs w))) w (fst opt) HX Hidx0 ltac:(unfold zlen; lia)) as (w1 & FU & X1 & S1).
  rewrite FU in H. cbn [bind] in H.
  destruct (fill_until_ok n _ _ _ _ HR HP HMp FU) as (F1 & _).
  destruct F1 as (F1a & F1b & F1c & F1d & F1e & F1f & F1g & F1h & F1i).
  destruct (fill_until_GA n _ w (fst opt) w1 HX Hidx0 ltac:(intros Q; rewrite <- HE; exact Q) HBo HG HM FU) as (G1 & M1 & E1).
  destruct (peek w1) as [[ci run] mr].
  destruct (map_run w1 ci run) as [w2| | |] eqn:MR; cbn [bind] in H; try discriminate.
  destruct (map_run_set _ _ _ _ MR) as [mp ->].
  assert (G2 : GAa (set_mp w1 mp)) by (eapply GAa_ext; [| |exact G1]; destruct w1; reflexivity).
  assert (M2 : MIDB (set_mp w1 mp)) by (eapply MIDB_ext; [| |exact M1]; destruct w1; reflexivity).
  destruct (is_valid _ _ _ run) as [v| | |]; cbn [bind] in H; try discriminate.
  destruct v; cbn [negb] in H.
  2:{ inversion H; subst. split; [exact G2|]. split; [exact M2|congruence]. }
  destruct (cut_run _ run _ _ _ _) as [[st' rc]| | |] eqn:CR; cbn [bind fst snd] in H; try discriminate.
  set (w3 := set_st (set_mp w1 mp) st') in *.
  assert (Hfin : w' = w3 /\ cand = rc /\ r <> BreakInvalid).
  { cbv zeta in H. repeat match type of H with context [if ?c then _ else _] => destruct c end; inversion H; subst; repeat split; discriminate. }
  destruct Hfin as (-> & -> & Hr).
  replace (w_st (set_mp w1 mp)) with (w_st w1) in CR by (destruct w1; reflexivity).
  replace (alt_empty (set_mp w1 mp)) with (alt_empty w1) in CR by (destruct w1; reflexivity).
  pose proof (cut_run_fields _ _ _ _ _ _ _ _ CR) as (_ & _ & _ & _ & _ & CF6).
  assert (St3 : w_st w3 = st') by (unfold w3; destruct w1; reflexivity).
  assert (Sc3 : w_sc w3 = w_sc w1) by (unfold w3; destruct w1; reflexivity).
  assert (Rn3 : w_runs w3 = w_runs w1) by (unfold w3; destruct w1; reflexivity).
  assert (Ss3 : w_start w3 = w_start w1) by (unfold w3; destruct w1; reflexivity).
  destruct (Fin3 Hr) as [FP _]. rewrite St3, Rn3 in FP.
  destruct G1 as (GA1 & GA2 & GA3).
  unfold GAa, MIDB. rewrite St3, Sc3.
  destruct (cut_run_store _ _ _ _ _ _ _ _ CR) as [[-> Tn]|(Tt & Tl & ->)].
  - split; [split; [exact GA1|split; [exact GA2|exact GA3]]|]. split; [exact M1|]. intros _. split; [exact CF6|].
    intros Ae Hlen. exfalso. destruct Tn as [Tn|Tn]; [|lia].
    unfold alt_empty in Tn. rewrite Ae in Tn. discriminate Tn.
  - assert (Ae : s_alt (w_sc w1) = []) by (unfold alt_empty in Tt; destruct (s_alt (w_sc w1)); [reflexivity|discriminate]).
    pose proof (E1 Ae) as Se.
    assert (HBo1 : forall l, s_best (w_sc w1) = Some l -> exists e, chain (w_start w1) l e).
    { intros l EB. rewrite F1i in EB. rewrite F1c. apply HBo. exact EB. }
    assert (Sk1 : sk (store_update (w_st w1) (o_src rc) (o_lo rc) trim_glyph) = sk (w_st w1)).
    { rewrite St3 in Sk3. rewrite Sk3. symmetry. exact S1. }
    assert (Prc : PO (w_st w1) (w_runs w1) rc) by (unfold PO in *; rewrite (sk_piece_ok _ _ (w_runs w1) rc (eq_sym Sk1)); exact FP).
    destruct (C3 Hr) as (_ & _ & C33). rewrite Sc3, Ae, Ss3 in C33. cbn [app] in C33.
    destruct (chain_single_off _ _ _ C33) as [Orc Erc].
    assert (Hend : forall x, s_best (w_sc w1) = Some [x] -> o_src x = o_src rc -> out_end x <= out_end rc).
    { intros x EB _. rewrite F1i in EB. rewrite <- Erc. apply Hmono. exact EB. }
    rewrite Ae, Se.
    split; [split; [constructor|split; [constructor|]]|split].
    + intros l EB. exact (proj1 (best_survives_trim n w1 rc X1 HBo1 Se M1 Prc Orc Tl Hend l EB (GA3 l EB))).
    + intros l EB. destruct (proj2 (best_survives_trim n w1 rc X1 HBo1 Se M1 Prc Orc Tl Hend l EB (GA3 l EB))) as [Q|Q]; auto.
    + intros _. split; [exact CF6|]. intros _.
      pose proof Prc as Prc'. unfold PO, piece_ok in Prc'. repeat (apply andb_prop in Prc'; destruct Prc' as [Prc' ?]).
      repeat match goal with Hq : (_ <=? _) = true |- _ => apply Z.leb_le in Hq | Hq : (_ <? _) = true |- _ => apply Z.ltb_lt in Hq end.
      destruct X1 as ((HW1 & _) & _).
      destruct (wf_runs_nth _ _ _ HW1 (o_src rc) ltac:(lia)) as (_ & _ & _ & _ & _ & _ & Q6 & _).
      apply trimmed_self; lia.
Qed.

(* ---- the bookkeeping steps of the loops ---------------------------------------------------------------------------- *)

Lemma GA_top_mid : forall w b1, GAa w -> TOPB w -> GAa (set_br (checkpoint w) b1) /\ MIDB (set_br (checkpoint w) b1).
Proof.
  intros w b1 (A & B & C) T. unfold GAa, MIDB, TOPB in *. destruct w as [? ? ? ? ? ? ? ? ? [? ? ? ? ?] ?]; cbn in *. auto.
Qed.
Lemma GA_restore : forall w, GAa w -> MIDB w -> GAa (restore w) /\ TOPB (restore w).
Proof.
  intros w (A & B & C) T. unfold GAa, MIDB, TOPB in *. destruct w as [? ? ? ? ? ? ? ? ? [? ? ? ? ?] ?]; cbn in *. auto.
Qed.
Lemma GA_mark : forall w cand, GAa w -> aok (w_st w) cand -> (s_alt (w_sc w) = [] -> trimmed (w_st w) cand) ->
  GAa (mark_best w [cand]) /\ TOPB (mark_best w [cand]).
Proof.
  intros w cand (A & B & C) Hc Ht. unfold GAa, TOPB in *. destruct w as [? ? ? ? ? ? ? ? ? [alt ? sv ? ?] ?]; cbn in *.
  split.
  - split; [exact A|]. split; [exact B|]. intros l E. injection E as <-. apply Forall_app. split; [exact A|apply Forall1; exact Hc].
  - intros l E. injection E as <-. destruct alt as [|a alt]; [|right; left; discriminate].
    right. right. exists cand. split; [reflexivity|apply Ht; reflexivity].
Qed.
Lemma GA_mark_nil : forall w, GAa w -> GAa (mark_best (restore w) []) /\ TOPB (mark_best (restore w) []).
Proof.
  intros w (A & B & C). unfold GAa, TOPB in *. destruct w as [? ? ? ? ? ? ? ? ? [alt ? sv ? ?] ?]; cbn in *.
  split.
  - split; [exact B|]. split; [exact B|]. intros l E. injection E as <-. rewrite app_nil_r. exact B.
  - intros l E. injection E as <-. rewrite app_nil_r. destruct sv; [left; reflexivity|right; left; discriminate].
Qed.
Lemma GA_set_br : forall w b, GAa w -> TOPB w -> GAa (set_br w b) /\ TOPB (set_br w b).
Proof. intros w b A T. unfold GAa, TOPB in *. destruct w; cbn in *. auto. Qed.
Lemma GA_set_br_mid : forall w b, GAa w -> GAa (set_br w b).
Proof. intros w b A. unfold GAa in *. destruct w; cbn in *. auto. Qed.

(* the single best piece ends where the best line ends *)
Lemma best_single_end : forall n w x, JP n w -> s_best (w_sc w) = Some [x] -> has_best w = true /\ best_end w = out_end x.
Proof.
  intros n w x ((_ & _ & _ & _ & HBo) & _) E. split; [unfold has_best; rewrite E; reflexivity|].
  unfold best_end. rewrite E. destruct (HBo [x] E) as [e He]. rewrite (lend_chain _ _ _ He).
  destruct (chain_single_off _ _ _ He) as [_ Q]. exact Q.
Qed.

Section Loops.
Variable n : Z.

(* the grapheme loop.  OBx: the best line ends at or before every grapheme option still to come *)
Lemma inner_GA : forall fuel w wopt lc w' d,
  JT n w -> OrdI w -> 1 <= b_wpos (w_br w) <= n -> fst (b_unusedW (w_br w)) = b_wpos (w_br w) - 1 ->
  fst wopt = b_wpos (w_br w) - 1 -> XI n w ->
  (has_best w = true -> best_end w <= fst (b_prevW (w_br w)) + 1 \/ best_end w <= fst (b_unusedG (w_br w)) + 1) ->
  GAa w -> TOPB w ->
  inner_loop fuel w wopt lc = Ok (w', d) -> GAa w'.
Proof.
  induction fuel as [|fuel IH]; intros w wopt lc w' d HT HO HW HU HWo HX OB HGA HTB H; cbn [inner_loop] in H; [discriminate|].
  destruct (JT_checkpoint n w HT) as (T1 & Csv & Calt & Cbe & Cbr & Cbest).
  pose proof (best_end_ge n w (proj1 HT)) as BG.
  pose proof (XI_checkpoint n w HX) as XC1.
  set (w1 := checkpoint w) in *.
  destruct (next_grapheme_break (br_fuel w1) (w_br w1)) as [[b1 ro]| | |] eqn:NG; cbn [bind fst snd] in H; try discriminate.
  pose proof T1 as ((_ & B1 & _) & _).
  destruct (ngb_spec n _ _ _ _ B1 NG) as (Bb1 & SW & UGm & X & Y). rewrite Cbr in SW, UGm, X, Y.
  destruct SW as (S1 & S2 & S3 & S4 & S5).
  pose proof (JT_set_br n w1 b1 T1 Bb1) as T2.
  destruct (set_br_proj w1 b1) as (Q1 & Q2 & Q3 & Q4 & Q5).
  assert (Q6 : best_end (set_br w1 b1) = best_end w) by (rewrite best_end_set_br; exact Cbe).
  assert (Q7 : w_start w1 = w_start w) by (destruct w; reflexivity).
  pose proof (XI_set_br n w1 b1 XC1) as XC2.
  destruct (GA_top_mid w b1 HGA HTB) as [GA2 MB2]. fold w1 in GA2, MB2.
  set (w2 := set_br w1 b1) in *.
  rewrite Calt in Q1. rewrite Csv in Q5. rewrite Cbest in Q4. rewrite Q7 in Q3.
  assert (E2 : s_alt (w_sc w2) = s_save (w_sc w2)) by (rewrite Q1, Q5; reflexivity).
  destruct (Bk_ug_n n _ Bb1) as (G1 & G2 & G3).
  pose proof Bb1 as (_ & _ & _ & Hpw1 & _).
  set (b := w_br w) in *.
  destruct ro as [opt|].
  2:{ cbv beta iota zeta in H.
      assert (Rw2 : restore w2 = w2) by (unfold w2, w1; destruct w as [? ? ? ? ? ? ? ? ? [? ? ? ? ?] ?]; reflexivity).
      unfold word_fallback in H.
      destruct (negb (lc_truncating lc) && negb (has_best w2)) eqn:FB; [|injection H as <- <-; exact GA2].
      apply andb_prop in FB. destruct FB as [FB1 FB2]. apply negb_true_iff in FB1, FB2.
      pose proof FB2 as FB2'. rewrite (has_best_same w w2 Q4) in FB2. rewrite Rw2 in H.
      assert (Hord : s_alt (w_sc w2) <> [] -> lend (w_start w2) (s_alt (w_sc w2)) <= fst wopt).
      { rewrite Q1. rewrite (JT_no_best_alt n w HT FB2). congruence. }
      destruct (process_break_option w2 wopt lc) as [[[w3 r] cand]| | |] eqn:PB; cbn [bind] in H; try discriminate.
      destruct (pbo_GA n w2 wopt lc w3 r cand (proj1 T2) XC2 ltac:(fold b in HWo, HW; lia) Hord E2 GA2 MB2
                  ltac:(intros x Ex; destruct (best_single_end n w2 x (proj1 T2) Ex) as [Q _]; congruence) PB) as (GA3 & MB3 & Hc).
      cbv beta iota zeta in H.
      destruct r; injection H as <- <-;
        first [exact (proj1 (GA_restore w3 GA3 MB3))
              | destruct (Hc ltac:(discriminate)) as [Hc1 Hc2]; exact (proj1 (GA_mark w3 cand GA3 Hc1 Hc2))]. }
  destruct X as (X1 & X2 & X3 & X4 & X5 & X6 & X7 & X8).
  assert (X1' : fst opt = fst (b_unusedG b1)) by (rewrite X1; reflexivity).
  assert (Hord : s_alt (w_sc w2) <> [] -> lend (w_start w2) (s_alt (w_sc w2)) <= fst opt).
  { rewrite Q1, Q3. intros Hne. destruct (HO Hne) as [O1|O1]; fold b in O1; lia. }
  destruct (pbo_safe2 n w2 opt lc (proj1 (proj1 T2)) XC2 ltac:(lia) Hord) as (w3 & r & cand & PB & XC3 & Sk3 & Fin3 & Inv3).
  rewrite PB in H. cbn [bind] in H.
  destruct (JP_pbo n w2 opt lc w3 r cand (proj1 T2) ltac:(lia) Hord PB) as (P3 & F3 & BE3 & LE3 & C3 & L3).
  assert (Hmono0 : forall x, s_best (w_sc w2) = Some [x] -> out_end x <= fst opt + 1).
  { intros x Ex. destruct (best_single_end n w2 x (proj1 T2) Ex) as [Hb Be]. rewrite Q6 in Be. rewrite (has_best_same w w2 Q4) in Hb.
    rewrite <- Be. fold b in OB. destruct (OB Hb) as [O|O]; lia. }
  destruct (pbo_GA n w2 opt lc w3 r cand (proj1 T2) XC2 ltac:(lia) Hord E2 GA2 MB2 Hmono0 PB) as (GA3 & MB3 & Hc).
  destruct F3 as (F3c & _ & F3s & _ & F3r & _ & F3b & F3v & F3best).
  rewrite Q2 in F3b. rewrite Q5 in F3v. rewrite Q4 in F3best. rewrite Q3 in F3s, LE3. rewrite Q1 in LE3. rewrite Q6 in BE3.
  assert (Mw : Bk n (mark_word_unused b1)) by (apply Bk_mark_word; [exact Bb1|rewrite S1; exact HW|rewrite S1, S2; exact HU]).
  rewrite Q1, Q3 in Hord. rewrite Q3 in C3.
  assert (Hsv : r <> BreakInvalid -> lend (w_start w3) (s_save (w_sc w3)) <= fst opt).
  { intros Hr. destruct (C3 Hr) as (C31 & _). rewrite F3v, F3s. destruct (s_alt (w_sc w)) eqn:A; [unfold lend; cbn; lia|].
    apply Hord. congruence. }
  assert (Best1 : r <> BreakInvalid -> XI n (mark_best w3 [cand]) /\ JT n (mark_best w3 [cand])
                   /\ best_end (mark_best w3 [cand]) = fst opt + 1).
  { intros Hr. destruct (C3 Hr) as (C31 & C32 & C33). destruct (Fin3 Hr) as [FP FC].
    destruct (JT_mark_best n w3 cand (fst opt + 1) P3 C33 C32 ltac:(specialize (Hsv Hr); lia) ltac:(lia)) as [T4 BE4].
    split; [eapply XI_mark_best1; eauto|split; [exact T4|exact BE4]]. }
  destruct (mark_best_proj w3 [cand]) as (M1 & M2 & M3 & M4).
  destruct (restore_proj w3) as (R1 & R2 & R3 & R4).
  assert (HBr : has_best (restore w3) = has_best w) by (apply has_best_same; rewrite R4; exact F3best).
  destruct r.
  - (* BreakInvalid *)
    destruct (GA_restore w3 GA3 MB3) as [GAr TBr].
    apply (IH (restore w3) wopt lc w' d); [apply JT_restore; exact P3| | | | |apply XI_restore; exact XC3| |exact GAr|exact TBr|exact H].
    + unfold OrdI. rewrite R1, R2, R3, F3v, F3s, F3b. intros Hne. destruct (HO Hne) as [O|O]; fold b in O; [left; rewrite S3; exact O|right; lia].
    + rewrite R2, F3b, S1. exact HW.
    + rewrite R2, F3b, S1, S2. exact HU.
    + rewrite R2, F3b, S1. exact HWo.
    + rewrite HBr, best_end_restore, BE3, R2, F3b, S3. intros Hh. fold b in OB. destruct (OB Hh) as [O|O]; [left; exact O|right; lia].
  - (* EndLine *) cbv beta iota zeta in H. injection H as <- <-. destruct (Hc ltac:(discriminate)) as [Hc1 Hc2]. exact (proj1 (GA_mark w3 cand GA3 Hc1 Hc2)).
  - (* Truncated *) cbv beta iota zeta in H. injection H as <- <-. destruct (has_best w3); [exact GA3|exact (proj1 (GA_mark_nil w3 GA3))].
  - (* NewLineBeforeBreak *)
    cbv beta iota zeta in H. injection H as <- <-. apply GA_set_br_mid. exact (proj1 (GA_restore w3 GA3 MB3)).
  - (* Fits *)
    destruct (Best1 ltac:(discriminate)) as (B1x & T4 & BE4). rewrite F3b in H.
    pose proof (JT_set_br n _ _ T4 Mw) as T5.
    destruct (set_br_proj (mark_best w3 [cand]) (mark_word_unused b1)) as (U1 & U2 & U3 & U4 & U5).
    destruct (C3 ltac:(discriminate)) as (C31 & C32 & C33).
    destruct (chain_app_lend _ _ _ _ C33 C32) as [CL _].
    destruct (Hc ltac:(discriminate)) as [Hc1 Hc2].
    destruct (GA_mark w3 cand GA3 Hc1 Hc2) as [GAm TBm].
    destruct (GA_set_br _ (mark_word_unused b1) GAm TBm) as [GAf TBf].
    apply (IH (set_br (mark_best w3 [cand]) (mark_word_unused b1)) wopt lc w' d); [exact T5| | | | |apply XI_set_br; exact B1x| |exact GAf|exact TBf|exact H].
    + unfold OrdI. rewrite U1, U2, U3, M1, M3. cbn. intros _. right. lia.
    + rewrite U2; cbn. rewrite S1; exact HW.
    + rewrite U2; cbn. rewrite S1, S2; exact HU.
    + rewrite U2; cbn. rewrite S1; exact HWo.
    + intros _. right. rewrite best_end_set_br, BE4, U2. cbn. lia.
  - (* CannotFit *)
    destruct (lc_truncating lc) eqn:Hlc.
    + cbv beta iota zeta in H. injection H as <- <-. exact GA3.
    + rewrite F3b in H. cbv beta iota zeta in H. injection H as <- <-.
      destruct (Hc ltac:(discriminate)) as [Hc1 Hc2]. apply GA_set_br_mid. exact (proj1 (GA_mark w3 cand GA3 Hc1 Hc2)).
Qed.


Lemma GA_mark_nil_mid : forall w, GAa w -> GAa (mark_best (restore w) []) /\ MIDB (mark_best (restore w) []).
Proof.
  intros w (A & B & C). unfold GAa, MIDB in *. destruct w as [? ? ? ? ? ? ? ? ? [alt ? sv ? ?] ?]; cbn in *.
  split.
  - split; [exact B|]. split; [exact B|]. intros l E. injection E as <-. rewrite app_nil_r. exact B.
  - intros l E. injection E as <-. rewrite app_nil_r. destruct sv; [left; reflexivity|right; left; discriminate].
Qed.
Lemma GA_mid_set_br : forall w b, GAa w -> MIDB w -> GAa (set_br w b) /\ MIDB (set_br w b).
Proof. intros w b A T. unfold GAa, MIDB in *. destruct w; cbn in *. auto. Qed.

(* the UAX #14 loop.  OBo: the best line ends at or before the option read last, which is not pending *)
Lemma outer_GA : forall fuel w lc w' d,
  JT n w -> OrdO w -> XI n w ->
  (has_best w = true -> best_end w <= fst (b_unusedW (w_br w)) + 1 /\ b_isUnusedW (w_br w) = false) ->
  GAa w -> TOPB w ->
  outer_loop fuel w lc = Ok (w', d) -> GAa w'.
Proof.
  induction fuel as [|fuel IH]; intros w lc w' d HT HO HX OB HGA HTB H; cbn [outer_loop] in H; [discriminate|].
  destruct (JT_checkpoint n w HT) as (T1 & Csv & Calt & Cbe & Cbr & Cbest).
  pose proof (best_end_ge n w (proj1 HT)) as BG.
  pose proof (XI_checkpoint n w HX) as XC1.
  set (w1 := checkpoint w) in *.
  destruct (next_word_break (w_br w1)) as [b1 ro] eqn:NW.
  pose proof T1 as ((_ & B1 & _) & _).
  destruct (nwb_spec n _ _ _ B1 NW) as (Bb1 & SG1 & FW & UW & X). rewrite Cbr in SG1, UW, X, B1, NW.
  destruct SG1 as (S1 & S2 & S3 & S5).
  pose proof (JT_set_br n w1 b1 T1 Bb1) as T2.
  destruct (set_br_proj w1 b1) as (Q1 & Q2 & Q3 & Q4 & Q5).
  assert (Q6 : best_end (set_br w1 b1) = best_end w) by (rewrite best_end_set_br; exact Cbe).
  assert (Q7 : w_start w1 = w_start w) by (destruct w; reflexivity).
  pose proof (XI_set_br n w1 b1 XC1) as XC2.
  destruct (GA_top_mid w b1 HGA HTB) as [GA2 MB2]. fold w1 in GA2, MB2.
  set (w2 := set_br w1 b1) in *.
  rewrite Calt in Q1. rewrite Csv in Q5. rewrite Cbest in Q4. rewrite Q7 in Q3.
  assert (E2 : s_alt (w_sc w2) = s_save (w_sc w2)) by (rewrite Q1, Q5; reflexivity).
  destruct (Bk_ug_n n _ Bb1) as (G1 & G2 & G3).
  set (b := w_br w) in *.
  destruct ro as [opt|].
  2:{ cbv beta iota zeta in H. injection H as <- <-. exact GA2. }
  destruct X as (X1 & X3 & X6 & X7 & X8 & X9 & X10).
  assert (X1' : fst opt = fst (b_unusedW b1)) by (rewrite X1; reflexivity).
  assert (Hord : s_alt (w_sc w2) <> [] -> lend (w_start w2) (s_alt (w_sc w2)) <= fst opt).
  { rewrite Q1, Q3. intros Hne. destruct (HO Hne) as [O1 O2]; fold b in O1; lia. }
  destruct (pbo_safe2 n w2 opt lc (proj1 (proj1 T2)) XC2 ltac:(lia) Hord) as (w3 & r & cand & PB & XC3 & Sk3 & Fin3 & Inv3).
  rewrite PB in H. cbn [bind] in H.
  destruct (JP_pbo n w2 opt lc w3 r cand (proj1 T2) ltac:(lia) Hord PB) as (P3 & F3 & BE3 & LE3 & C3 & L3).
  assert (Hmono0 : forall x, s_best (w_sc w2) = Some [x] -> out_end x <= fst opt + 1).
  { intros x Ex. destruct (best_single_end n w2 x (proj1 T2) Ex) as [Hb Be]. rewrite Q6 in Be. rewrite (has_best_same w w2 Q4) in Hb.
    rewrite <- Be. fold b in OB. destruct (OB Hb) as [O _]. lia. }
  destruct (pbo_GA n w2 opt lc w3 r cand (proj1 T2) XC2 ltac:(lia) Hord E2 GA2 MB2 Hmono0 PB) as (GA3 & MB3 & Hc).
  destruct F3 as (F3c & _ & F3s & _ & F3r & _ & F3b & F3v & F3best).
  rewrite Q2 in F3b. rewrite Q5 in F3v. rewrite Q4 in F3best. rewrite Q3 in F3s, LE3. rewrite Q1 in LE3. rewrite Q6 in BE3.
  assert (HB3 : has_best w3 = has_best w) by (apply has_best_same; exact F3best).
  assert (Mw : Bk n (mark_word_unused b1)) by (apply Bk_mark_word; [exact Bb1|lia|lia]).
  rewrite Q1, Q3 in Hord. rewrite Q3 in C3.
  assert (Hsv : r <> BreakInvalid -> lend (w_start w3) (s_save (w_sc w3)) <= fst opt).
  { intros Hr. destruct (C3 Hr) as (C31 & _). rewrite F3v, F3s. destruct (s_alt (w_sc w)) eqn:A; [unfold lend; cbn; lia|].
    apply Hord. congruence. }
  destruct (mark_best_proj w3 [cand]) as (M1 & M2 & M3 & M4).
  destruct (restore_proj w3) as (R1 & R2 & R3 & R4).
  assert (HBr : has_best (restore w3) = has_best w) by (apply has_best_same; rewrite R4; exact F3best).
  assert (Best1 : r <> BreakInvalid -> XI n (mark_best w3 [cand]) /\ JT n (mark_best w3 [cand])
                   /\ best_end (mark_best w3 [cand]) = fst opt + 1).
  { intros Hr. destruct (C3 Hr) as (C31 & C32 & C33). destruct (Fin3 Hr) as [FP FC].
    destruct (JT_mark_best n w3 cand (fst opt + 1) P3 C33 C32 ltac:(specialize (Hsv Hr); lia) ltac:(lia)) as [T4 BE4].
    split; [eapply XI_mark_best1; eauto|split; [exact T4|exact BE4]]. }
  (* the grapheme loop entered from a state that carries the checkpoint of this iteration *)
  assert (G : forall wx, JP n wx -> s_save (w_sc wx) = s_alt (w_sc w) -> w_start wx = w_start w ->
              b_prevW (w_br wx) = b_prevW b1 -> b_wpos (w_br wx) = b_wpos b1 -> b_unusedW (w_br wx) = b_unusedW b1 ->
              XI n wx ->
              (has_best wx = true -> best_end wx <= fst (b_prevW b1) + 1) ->
              GAa wx -> MIDB wx ->
              inner_loop (br_fuel wx) (restore wx) opt lc = Ok (w', d) -> GAa w').
  { intros wx Px Sx Stx Pwx Wx Ux Xx Obx GAx MBx Hx. destruct (restore_proj wx) as (Rx1 & Rx2 & Rx3 & Rx4).
    destruct (GA_restore wx GAx MBx) as [GAr TBr].
    apply (inner_GA (br_fuel wx) (restore wx) opt lc w' d); [apply JT_restore; exact Px| | | | |apply XI_restore; exact Xx| |exact GAr|exact TBr|exact Hx].
    - unfold OrdI. rewrite Rx1, Rx2, Rx3, Sx, Stx, Pwx. intros Hne. left. destruct (HO Hne) as [O1 O2]. fold b in O1, O2.
      destruct (b_isUnusedW b) eqn:FB; [cbn in O2; lia|]. rewrite (X9 eq_refl). exact O1.
    - rewrite Rx2, Wx. lia.
    - rewrite Rx2, Wx, Ux. lia.
    - rewrite Rx2, Wx. lia.
    - rewrite (has_best_same wx (restore wx) Rx4), best_end_restore, Rx2, Pwx. intros Hh. left. exact (Obx Hh). }
  assert (ObW : forall wx, best_end wx = best_end w -> has_best wx = has_best w -> has_best wx = true -> best_end wx <= fst (b_prevW b1) + 1).
  { intros wx Bx Hbx Hh. rewrite Bx. rewrite Hbx in Hh. fold b in OB. destruct (OB Hh) as [O1 O2]. rewrite (X9 O2). exact O1. }
  destruct r.
  - (* BreakInvalid *)
    cbv beta iota zeta in H. rewrite R2, F3b in H.
    destruct (set_br_proj (restore w3) (discard_word b1)) as (D1 & D2 & D3 & D4 & D5).
    assert (HBd : has_best (set_br (restore w3) (discard_word b1)) = has_best w).
    { rewrite (has_best_same (restore w3) _ D4). exact HBr. }
    destruct (GA_restore w3 GA3 MB3) as [GAr TBr]. destruct (GA_set_br _ (discard_word b1) GAr TBr) as [GAd TBd].
    apply (IH (set_br (restore w3) (discard_word b1)) lc w' d);
      [apply JT_set_br; [apply JT_restore; exact P3|apply Bk_discard; assumption]| |apply XI_set_br; apply XI_restore; exact XC3| |exact GAd|exact TBd|exact H].
    + unfold OrdO. rewrite D1, D2, D3, R1, R3, F3v, F3s. cbn [discard_word b_unusedW b_isUnusedW]. rewrite FW.
      intros Hne. destruct (HO Hne) as [O1 O2]. fold b in O1, O2.
      destruct (b_isUnusedW b) eqn:FB; [cbn in O2; lia|]. rewrite (X9 eq_refl). split; [exact O1|reflexivity].
    + rewrite HBd, best_end_set_br, best_end_restore, BE3, D2. cbn [discard_word b_unusedW b_isUnusedW]. rewrite FW.
      intros Hh. fold b in OB. destruct (OB Hh) as [O1 O2]. rewrite (X9 O2). split; [exact O1|reflexivity].
  - (* EndLine *) cbv beta iota zeta in H. injection H as <- <-. destruct (Hc ltac:(discriminate)) as [Hc1 Hc2]. exact (proj1 (GA_mark w3 cand GA3 Hc1 Hc2)).
  - (* Truncated *)
    cbv beta iota zeta in H.
    destruct (has_best w3) eqn:HB3'.
    + destruct (policy_never w3); [injection H as <- <-; exact GA3|].
      apply (G w3 P3); auto; try (rewrite F3b; reflexivity); try (apply ObW; [exact BE3|exact HB3]).
    + destruct (GA_mark_nil_mid w3 GA3) as [GAn MBn].
      destruct (policy_never (mark_best (restore w3) [])); [injection H as <- <-; exact GAn|].
      destruct (JT_restore n w3 P3) as [P3r _].
      destruct (JP_mark_best_nil n (restore w3) P3r ltac:(destruct w3; cbn; apply Z.le_refl)) as [P4 _].
      pose proof (XI_mark_best0 n (restore w3) (XI_restore n w3 XC3) (proj1 P3r)) as X4.
      destruct (mark_best_proj (restore w3) []) as (N1 & N2 & N3 & N4).
      apply (G (mark_best (restore w3) []) P4); [destruct w3; exact F3v|rewrite N3, R3; exact F3s|rewrite N2, R2, F3b; reflexivity
        |rewrite N2, R2, F3b; reflexivity|rewrite N2, R2, F3b; reflexivity|exact X4| |exact GAn|exact MBn|exact H].
      intros Hh. exfalso. unfold has_best in Hh. rewrite N4, app_nil_r, R1, F3v in Hh.
      rewrite (JT_no_best_alt n w HT) in Hh; [discriminate|]. congruence.
  - (* NewLineBeforeBreak *)
    cbv beta iota zeta in H. rewrite R2, F3b in H.
    pose proof (JT_set_br n _ _ (JT_restore n w3 P3) Mw) as T5.
    destruct (set_br_proj (restore w3) (mark_word_unused b1)) as (U1 & U2 & U3 & U4 & U5).
    assert (BE5 : best_end (set_br (restore w3) (mark_word_unused b1)) = best_end w) by (rewrite best_end_set_br, best_end_restore; exact BE3).
    assert (HB5 : has_best (set_br (restore w3) (mark_word_unused b1)) = has_best w).
    { rewrite (has_best_same (restore w3) _ U4). exact HBr. }
    destruct (GA_restore w3 GA3 MB3) as [GAr TBr].
    assert (GMu : GAa (set_br (restore w3) (mark_word_unused b1)) /\ MIDB (set_br (restore w3) (mark_word_unused b1))).
    { unfold GAa, MIDB, TOPB in *. destruct w3 as [? ? ? ? ? ? ? ? ? [? ? ? ? ?] ?]; cbn in *. destruct GA3 as (A & B & C). auto. }
    destruct (_ || _).
    + injection H as <- <-. exact (proj1 GMu).
    + apply (G (set_br (restore w3) (mark_word_unused b1)) (proj1 T5));
        [rewrite U5; destruct w3; cbn in *; exact F3v|rewrite U3, R3; exact F3s|rewrite U2; reflexivity|rewrite U2; reflexivity
        |rewrite U2; reflexivity|apply XI_set_br; apply XI_restore; exact XC3|apply ObW; [exact BE5|exact HB5]|exact (proj1 GMu)|exact (proj2 GMu)|exact H].
  - (* Fits *)
    destruct (Best1 ltac:(discriminate)) as (B1x & T4 & BE4).
    destruct (Hc ltac:(discriminate)) as [Hc1 Hc2].
    destruct (GA_mark w3 cand GA3 Hc1 Hc2) as [GAm TBm].
    cbv beta iota zeta in H. destruct (snd opt) eqn:SO.
    + injection H as <- <-. exact GAm.
    + apply (IH (mark_best w3 [cand]) lc w' d); [exact T4| |exact B1x| |exact GAm|exact TBm|exact H].
      * unfold OrdO. rewrite M1, M2, M3, F3b, FW. destruct (C3 ltac:(discriminate)) as (C31 & C32 & C33).
        destruct (chain_app_lend _ _ _ _ C33 C32) as [CL _]. intros _. split; [lia|reflexivity].
      * intros _. rewrite BE4, M2, F3b, FW. split; [lia|reflexivity].
  - (* CannotFit *)
    cbv beta iota zeta in H. destruct (policy_never w3).
    + destruct (lc_truncating lc) eqn:Hlc.
      * injection H as <- <-. exact GA3.
      * injection H as <- <-. destruct (Hc ltac:(discriminate)) as [Hc1 Hc2]. exact (proj1 (GA_mark w3 cand GA3 Hc1 Hc2)).
    + apply (G w3 P3); auto; try (rewrite F3b; reflexivity); try (apply ObW; [exact BE3|exact HB3]).
Qed.

End Loops.

(* ---- one WrapNextLine call, any store ------------------------------------------------------------------------------ *)

Lemma wnl_adv_full : forall n attrs w mw w' wl d line,
  CI n attrs w -> XB n w -> w_more w = true -> zlen (w_runs w) <= o_src (c_truncator (w_cfg w)) ->
  wrap_next_line w mw = Ok (w', wl, d) -> wl_line wl = Some line ->
  Forall (aok (w_st w')) (text_runs (o_src (c_truncator (w_cfg w))) line).
Proof.
  intros n attrs w mw w' wl d line HC HB Hm Hts H Hline. unfold wrap_next_line in H. rewrite Hm in H. cbn [negb] in H.
  destruct (CI_peek n attrs w HC) as (ci & run & PK). rewrite PK in H. cbn [negb] in H.
  destruct (CI_start_line n attrs w HC) as (T0 & O0 & A0 & N0 & Acc0).
  pose proof (XI_start_line n w HB) as X0.
  set (lc := mkLC _ _ _) in H.
  pose proof (outer_safe n (loop_fuel (start_line w)) (start_line w) lc T0 O0 X0) as OS.
  destruct (outer_loop _ (start_line w) lc) as [[w2 d2]| | |] eqn:OL; cbn [bind] in H; try discriminate.
  destruct OS as [X2 S2].
  destruct (outer_loop_ok n _ _ _ _ _ (proj1 (proj1 T0)) OL) as [I2 O2].
  destruct (outer_loop_J n (phi n (w_br w)) attrs _ _ _ _ _ T0 O0 (N0 lc) A0 (fun _ => Acc0) OL) as (P2 & _).
  destruct O2 as (Oc & Ot & Os & Om & Or & On & Oa).
  assert (GA0 : GAa (start_line w) /\ TOPB (start_line w)).
  { unfold GAa, TOPB. destruct w; cbn. split; [split; [constructor|split; [constructor|discriminate]]|discriminate]. }
  pose proof (outer_GA n _ _ _ _ _ T0 O0 X0 ltac:(intros Q; destruct w; discriminate Q) (proj1 GA0) (proj2 GA0) OL) as (_ & _ & AB).
  replace (w_cfg (start_line w)) with (w_cfg w) in * by (destruct w; reflexivity).
  replace (w_runs (start_line w)) with (w_runs w) in * by (destruct w; reflexivity).
  cbv beta iota zeta in H. injection H as PP. rewrite post_process_split in PP.
  destruct (pp_first w2 (s_best (w_sc w2))) as [w1 l1] eqn:PF.
  destruct (pp_tail_line _ _ _ _ _ _ _ PP) as [St' Alt]. rewrite St'.
  set (tsrc := o_src (c_truncator (w_cfg w))) in *. rewrite Oc in Alt. fold tsrc in Alt.
  pose proof X2 as ((HW2 & _) & _). rewrite Or in HW2.
  destruct (s_best (w_sc w2)) as [l|] eqn:EB.
  2:{ cbn in PF. injection PF as <- <-. destruct Alt as [A|(t & l' & A1 & A2 & A3)]; [congruence|].
      rewrite A1 in Hline. injection Hline as <-. cbn [app] in A3.
      apply text_runs_Forall. eapply (Forall_ga (fun r => o_src r <> tsrc -> aok (w_st w2) r)); [|exact A3|].
      - intros x y E Hx Hy. eapply aok_ga; [exact E|]. apply Hx. apply ga_geo in E. apply geo_fields in E. destruct E as (_ & _ & _ & E & _). congruence.
      - constructor; [intros Q; congruence|constructor]. }
  destruct X2 as (_ & _ & _ & XBest). destruct (XBest l EB) as [FPO _]. rewrite Or in FPO.
  assert (HL : chain (w_start w2) l (lend (w_start w2) l)).
  { destruct I2 as (_ & _ & _ & _ & HBo). destruct (HBo l EB) as [e He]. rewrite (lend_chain _ _ _ He). exact He. }
  pose proof P2 as (_ & _ & _ & _ & Hap & _).
  destruct (pp_first_A (w_st w2) (w_runs w) n w2 l _ _ w1 l1 HW2 eq_refl (AB l eq_refl) FPO HL (Hap l EB) PF) as (fl & -> & Afl).
  destruct Alt as [A|(t & l' & A1 & A2 & A3)].
  - rewrite A in Hline. injection Hline as <-. apply text_runs_Forall. eapply Forall_impl; [|exact Afl]. intros r Hr _. exact Hr.
  - rewrite A1 in Hline. injection Hline as <-.
    apply text_runs_Forall. eapply (Forall_ga (fun r => o_src r <> tsrc -> aok (w_st w1) r)); [|exact A3|].
    + intros x y E Hx Hy. eapply aok_ga; [exact E|]. apply Hx. apply ga_geo in E. apply geo_fields in E. destruct E as (_ & _ & _ & E & _). congruence.
    + apply Forall_app. split; [eapply Forall_impl; [|exact Afl]; intros r Hr _; exact Hr|]. constructor; [intros Q; congruence|constructor].
Qed.

(* ---- any sequence of calls ---------------------------------------------------------------------------------------- *)

Lemma advance_returned_calls_full : forall n w cfg attrs runs widths wk rs mw w' wl d line,
  wf_runs (w_st w) runs n = true -> zlen attrs - 1 = n -> 1 <= n ->
  run_calls (prepare w cfg attrs runs 0 0) widths = Ok (wk, rs) -> w_more wk = true ->
  zlen runs <= o_src (c_truncator (w_cfg wk)) ->
  wrap_next_line wk mw = Ok (w', wl, d) -> wl_line wl = Some line ->
  forallb (advance_ok (w_st w')) (text_runs (o_src (c_truncator (w_cfg wk))) line) = true.
Proof.
  intros n w cfg attrs runs widths wk rs mw w' wl d line HW Ha Hn RC Hk Hts WN Hl.
  pose proof (CI_prepare n w cfg attrs runs (wf_runs_ok _ _ _ HW) Ha Hn) as C0.
  pose proof (XB_prepare n w cfg attrs runs HW) as B0.
  destruct (run_calls_reach n attrs widths _ wk rs C0 eq_refl B0 RC Hk) as (C & B & R).
  change (w_runs (prepare w cfg attrs runs 0 0)) with runs in R.
  pose proof (wnl_adv_full n attrs wk mw w' wl d line C B Hk ltac:(rewrite R; exact Hts) WN Hl) as Q.
  apply forallb_forall. intros r Hr. rewrite Forall_forall in Q. unfold advance_ok. apply Z.eqb_eq. exact (Q r Hr).
Qed.
