(* reorderMarks of the Hebrew and Arabic shapers (Model/Engine.v: hebrew_reorder, arabic_round, arabic_reorder,
   reorder_marks) keeps the buffer invariant and never panics, for every buffer without output in progress and every
   range inside the buffer. *)
From TV Require Import Model.Buffer Spec.Buffer Proofs.ShapeGlue Proofs.Buffer Proofs.BufferOps Proofs.BufferNewOps Proofs.BufferAll.
From TV Require Import Model.Engine Proofs.Engine.

Lemma stable_trans lo hi a b c : stable lo hi a b -> stable lo hi b c -> stable lo hi a c.
Proof. intros (W1 & H1 & L1 & Z1) (W2 & H2 & L2 & Z2). repeat split; congruence. Qed.

(* ---------- list facts ---------- *)

(* replacing glyph i by a glyph of the same cluster *)
Lemma set_one_cls (l : list glyph) i g : 0 <= i -> i < zlen l -> cl g = cl (nth (Z.to_nat i) l g0) ->
  cls (zfirstn i l ++ [g] ++ zskipn (i + 1) l) = cls l.
Proof.
  intros H0 H1 Hc. rewrite <- (zfirstn_zskipn i l) at 3. rewrite (zskipn_cons l i H0 H1).
  rewrite !cls_app. cbn [cls map app]. rewrite Hc. reflexivity.
Qed.

Lemma cls_const_Forall (v : Z) (l : list glyph) : Forall (fun g => cl g = v) l -> Forall (fun x => x = v) (cls l).
Proof. induction 1; cbn [cls map]; constructor; auto. Qed.

(* moving the block [i, j) in front of [s, i) inside a block [s, j) of one cluster value, editing the moved glyphs by
   a function that keeps the cluster *)
Lemma block_rotate_cls (inf : list glyph) (f : glyph -> glyph) (v : Z) s i j : keeps_cl f ->
  0 <= s -> s <= i -> i <= j -> j <= zlen inf ->
  Forall (fun g => cl g = v) (slice s j inf) ->
  cls (zfirstn s inf ++ map f (slice i j inf) ++ slice s i inf ++ zskipn j inf) = cls inf.
Proof.
  intros Hf H0 H1 H2 H3 Hc.
  destruct (split3 inf s j) as (l1 & l2 & l3 & E & L1 & L2 & F & S & K & _); try lia.
  assert (Einf : cls inf = cls l1 ++ cls l2 ++ cls l3) by (rewrite E at 1; rewrite !cls_app; reflexivity).
  rewrite Einf, F, K. rewrite !cls_app. f_equal. rewrite app_assoc. f_equal.
  rewrite (cls_map_keeps f _ Hf). rewrite <- S. rewrite (slice_split inf s i j) by lia.
  rewrite (slice_split inf s i j) in Hc by lia. apply Forall_app in Hc. destruct Hc as [Ca Cb].
  rewrite cls_app.
  apply (const_lists_eq v).
  - apply Forall_app_intro; apply cls_const_Forall; assumption.
  - apply Forall_app_intro; apply cls_const_Forall; assumption.
  - rewrite !app_length. lia.
Qed.

Lemma keeps_set_mcc c : keeps_cl (set_mcc c).
Proof. intros g. unfold set_mcc. destruct (is_umark g); reflexivity. Qed.

Lemma pre_merge_nohave b s e : have_out b = false -> 0 <= s -> s <= e -> e <= zlen (info b) -> pre (OMerge s e) b = true.
Proof.
  intros Hh H0 H1 H2. cbn [pre]. rewrite Hh. cbn [negb orb]. rewrite andb_true_r.
  apply andb_true_intro. split; [apply andb_true_intro; split|]; apply Z.leb_le; lia.
Qed.

(* ---------- Hebrew ---------- *)

Lemma hebrew_reorder_stable lo hi : forall k b i en,
  (level b =? 2) = false -> WF lo hi b = true -> have_out b = false -> 2 <= i -> en <= zlen (info b) ->
  exists b', hebrew_reorder k b i en = Ok b' /\ stable lo hi b b' /\ idx b' = idx b.
Proof.
  induction k as [|k IH]; intros b i en Hl Hw Hh Hi He.
  - exists b. split; [reflexivity|]. split; [apply stable_refl; auto|reflexivity].
  - cbn [hebrew_reorder]. destruct (Z.leb_spec en i).
    { exists b. split; [reflexivity|]. split; [apply stable_refl; auto|reflexivity]. }
    rewrite !getg_ok by lia. cbn [bind].
    match goal with |- context [if ?c then _ else _] => destruct c end.
    + destruct (merge_full lo hi b (i - 1) (i + 1) Hl Hw) as (b1 & E1 & W1 & L1 & I1 & Hh1 & Z1 & _ & _ & _ & U1).
      { apply pre_merge_nohave; auto; lia. }
      rewrite E1. cbn [bind]. eexists. split; [reflexivity|].
      assert (Hlb1 : (level b1 =? 2) = false) by (rewrite L1; exact Hl).
      rewrite Forall_forall in U1.
      set (inf := info b1) in *.
      assert (C1 : cl (nth (Z.to_nat i) inf g0) = cl (nth (Z.to_nat (i - 1)) inf g0)).
      { apply U1. apply nth_in_slice; lia. }
      unfold set_info, ginfo. cbn [info with_info]. fold inf.
      set (inf1 := zfirstn (i - 1) inf ++ [nth (Z.to_nat i) inf g0] ++ zskipn (i - 1 + 1) inf).
      assert (Ec1 : cls inf1 = cls inf) by (apply set_one_cls; try lia; exact C1).
      assert (El1 : zlen inf1 = zlen inf) by (apply cls_eq_zlen; exact Ec1).
      assert (Ec2 : cls (zfirstn i inf1 ++ [nth (Z.to_nat (i - 1)) inf g0] ++ zskipn (i + 1) inf1) = cls inf).
      { rewrite <- Ec1. apply set_one_cls; try lia.
        rewrite <- (nth_cls inf1), Ec1, nth_cls. symmetry. exact C1. }
      split; [|cbn [idx with_info]; exact I1].
      repeat split; cbn [have_out level info with_info]; try congruence.
      * apply (WF_same_info lo hi b1); cbn [have_out level info idx with_info]; auto; try congruence.
        exact (cls_eq_zlen _ _ Ec2).
      * rewrite (cls_eq_zlen _ _ Ec2). fold inf in Z1. congruence.
    + apply IH; auto; lia.
Qed.

(* ---------- Arabic ---------- *)

Lemma arabic_round_stable is_mcm lo hi cc en b start i0 :
  (level b =? 2) = false -> WF lo hi b = true -> have_out b = false ->
  0 <= start -> start <= i0 -> i0 <= en -> en <= zlen (info b) ->
  arabic_round is_mcm cc en (b, start, i0) = Ok None
  \/ exists b' start' i', arabic_round is_mcm cc en (b, start, i0) = Ok (Some (b', start', i'))
       /\ stable lo hi b b' /\ idx b' = idx b /\ 0 <= start' /\ start' <= i' /\ i' <= en.
Proof.
  intros Hl Hw Hh H0 H1 H2 H3. unfold arabic_round.
  pose proof (run_while_bound (fun g => mcc g <? cc) (slice i0 en (info b))) as B1.
  rewrite zlen_slice in B1 by lia.
  set (i := i0 + run_while (fun g => mcc g <? cc) (slice i0 en (info b))) in *.
  destruct (Z.eqb_spec i en) as [Eie|Nie]; [left; reflexivity|]. right.
  rewrite getg_ok by lia. cbn [bind].
  destruct (cc <? mcc _).
  { exists b, start, i. split; [reflexivity|]. split; [apply stable_refl; auto|]. repeat split; lia. }
  pose proof (run_while_bound (fun g => (mcc g =? cc) && is_mcm (cp g)) (slice i en (info b))) as B2.
  rewrite zlen_slice in B2 by lia.
  set (j := i + run_while (fun g => (mcc g =? cc) && is_mcm (cp g)) (slice i en (info b))) in *.
  destruct (Z.eqb_spec i j) as [Eij|Nij].
  { exists b, start, i. split; [reflexivity|]. split; [apply stable_refl; auto|]. repeat split; lia. }
  destruct (merge_full lo hi b start j Hl Hw) as (b1 & E1 & W1 & L1 & I1 & Hh1 & Z1 & _ & _ & _ & U1).
  { apply pre_merge_nohave; auto; lia. }
  rewrite E1. cbn [bind].
  destruct (Z.leb_spec 0 start); [|lia]. destruct (Z.leb_spec start i); [|lia].
  destruct (Z.leb_spec j (zlen (info b1))); [|lia]. cbn [andb negb].
  eexists _, _, _. split; [reflexivity|].
  assert (Hlb1 : (level b1 =? 2) = false) by (rewrite L1; exact Hl).
  set (inf := info b1) in *.
  assert (Ec : cls (zfirstn start inf ++ map (set_mcc 26) (slice i j inf) ++ slice start i inf ++ zskipn j inf) = cls inf).
  { apply (block_rotate_cls inf (set_mcc 26) (cl (nth (Z.to_nat start) inf g0))); try lia; [apply keeps_set_mcc|exact U1]. }
  split; [|cbn [idx with_info]; repeat split; try lia; exact I1].
  repeat split; cbn [have_out level info with_info]; try congruence.
  - apply (WF_same_info lo hi b1); cbn [have_out level info idx with_info]; auto; try congruence.
    exact (cls_eq_zlen _ _ Ec).
  - rewrite (cls_eq_zlen _ _ Ec). fold inf in Z1. congruence.
Qed.

Lemma arabic_reorder_stable is_mcm lo hi b s en :
  (level b =? 2) = false -> WF lo hi b = true -> have_out b = false -> 0 <= s -> s <= en -> en <= zlen (info b) ->
  exists b', arabic_reorder is_mcm b s en = Ok b' /\ stable lo hi b b' /\ idx b' = idx b.
Proof.
  intros Hl Hw Hh H0 H1 H2. unfold arabic_reorder.
  destruct (arabic_round_stable is_mcm lo hi 220 en b s s Hl Hw Hh H0 ltac:(lia) H1 H2)
    as [E1|(b1 & st1 & i1 & E1 & S1 & I1 & A1 & A2 & A3)]; rewrite E1; cbn [bind].
  - exists b. split; [reflexivity|]. split; [apply stable_refl; auto|reflexivity].
  - pose proof S1 as (W1 & Hh1 & L1 & Z1).
    assert (Hlb1 : (level b1 =? 2) = false) by (rewrite L1; exact Hl).
    destruct (arabic_round_stable is_mcm lo hi 230 en b1 st1 i1 Hlb1 W1 Hh1 A1 A2 A3 ltac:(lia))
      as [E2|(b2 & st2 & i2 & E2 & S2 & I2 & _)]; rewrite E2; cbn [bind fst].
    + exists b1. split; [reflexivity|]. split; [exact S1|exact I1].
    + exists b2. split; [reflexivity|]. split; [exact (stable_trans _ _ _ _ _ S1 S2)|congruence].
Qed.

(* ---------- reorderMarks ---------- *)

Lemma reorder_marks_stable sreorder is_mcm lo hi b s en :
  (level b =? 2) = false -> WF lo hi b = true -> have_out b = false -> 0 <= s -> s <= en -> en <= zlen (info b) ->
  exists b', reorder_marks sreorder is_mcm b s en = Ok b' /\ stable lo hi b b' /\ idx b' = idx b.
Proof.
  intros Hl Hw Hh H0 H1 H2. unfold reorder_marks.
  destruct (sreorder =? 1); [apply arabic_reorder_stable; auto|].
  destruct (sreorder =? 2); [apply hebrew_reorder_stable; auto; lia|].
  exists b. split; [reflexivity|]. split; [apply stable_refl; auto|reflexivity].
Qed.

(* in the vocabulary of Proofs/Engine.v *)
Lemma reorder_marks_range_step sreorder is_mcm lo hi : range_step lo hi (reorder_marks sreorder is_mcm).
Proof. intros b s e Hl Hw Hh H0 H1 H2. apply reorder_marks_stable; auto. Qed.

Print Assumptions reorder_marks_stable.
