(* C14, totality: with cache sizes >= 0 and valid aspects no operation sequence panics, and ResolveFace never
   answers nil once a font has been added; size bound of the rune cache. *)
From TV Require Import Model.FontMap Spec.Resolve Proofs.FontMap Proofs.FontMapOrder.
Open Scope Z_scope.

(* ---------------------------------------------------------------------------------------------- *)
(* indices produced by the selection functions are database indices                                 *)

Lemma collect_range c s db : forall i x, In x (collect c s i db) -> (i <= sc_idx x < i + length db)%nat.
Proof.
  induction db as [|fp db IH]; cbn; intros i x H; [contradiction|].
  destruct (crible_get c (fp_family fp)) as [[sc st]|].
  - destruct H as [<-|H]; [cbn; lia|]. apply IH in H. lia.
  - destruct (ss_contains (fp_scripts fp) s).
    + destruct H as [<-|H]; [cbn; lia|]. apply IH in H. lia.
    + apply IH in H. lia.
Qed.

Lemma sort_in {A} (lt : A -> A -> bool) l x : In x (stable_sort lt l) <-> In x l.
Proof.
  induction l as [|a l IH]; cbn; [tauto|].
  change (fold_right (insert_sorted lt) [] l) with (stable_sort lt l). rewrite insert_in, IH. intuition.
Qed.

Lemma select_fs_range db c s x : In x (select_fs db c s) -> (sc_idx x < length db)%nat.
Proof. unfold select_fs. rewrite sort_in. intros H. apply collect_range in H. lia. Qed.

Lemma take_family_in f l x : In x (take_family f l) -> In x l.
Proof.
  induction l as [|y l IH]; cbn; [tauto|]. destruct (fp_family (sc_fp y) =? f); [|contradiction].
  intros [H|H]; auto.
Qed.

Lemma user_indices_range db : forall i j, In j (user_indices i db) -> (i <= j < i + length db)%nat.
Proof.
  induction db as [|fp db IH]; cbn; intros i j H; [contradiction|].
  destruct (fp_user fp).
  - destruct H as [<-|H]; [lia|]. apply IH in H. lia.
  - apply IH in H. lia.
Qed.

Definition in_range (db : list footprint) (c : list nat) : Prop := forall i, In i c -> (i < length db)%nat.

Lemma lookup_all_ok db c : in_range db c ->
  exists l, lookup_all db c = Ok l /\ map fst l = c /\ forall x, In x l -> In (snd x) db.
Proof.
  induction c as [|i c IH]; intros H.
  - exists []. cbn. repeat split; intros ? [].
  - destruct IH as [l [E [M F]]]; [intros j Hj; apply H; right; assumption|].
    cbn. destruct (nth_error db i) as [fp|] eqn:N.
    + rewrite E. cbn. exists ((i, fp) :: l). split; [reflexivity|]. split; [cbn; rewrite M; reflexivity|].
      intros x [<-|Hx]; [cbn; eapply nth_error_In; eauto|auto].
    + exfalso. apply nth_error_None in N. specialize (H i (or_introl eq_refl)). lia.
Qed.

Lemma retains_ok db c q :
  in_range db c -> (forall fp, In fp db -> valid_fp fp) -> valid_style q ->
  exists c', retains db c q = Ok c' /\ (forall i, In i c' -> In i c) /\ (c <> [] -> c' <> []).
Proof.
  intros HR HV HQ. unfold retains.
  destruct (lookup_all_ok db c HR) as [l [E [M F]]]. rewrite E. cbn [bind].
  destruct (retains_l_ok l q) as [l' [E' [S N]]]; [intros x Hx; apply HV, F, Hx|assumption|].
  rewrite E'. cbn [bind]. eexists. split; [reflexivity|]. split.
  - intros i Hi. apply in_map_iff in Hi. destruct Hi as [x [<- Hx]]. rewrite <- M. apply in_map. auto.
  - intros Hne. apply map_nonempty. apply N. intros ->. cbn in M. subst c. contradiction.
Qed.

Section Total.
  Variable hash : Z -> list Z -> Z.
  Variable norm : Z -> Z.
  Variable is_generic : Z -> bool.
  Variable subst : list Z -> Z -> list (Z * (Z * bool)).
  Variable script_lang : Z -> Z.
  Variable empty_fam : Z.

  Local Notation stepM := (step hash norm is_generic subst script_lang empty_fam).
  Local Notation runM := (run hash norm is_generic subst script_lang empty_fam).
  Local Notation ccands := (compute_cands norm is_generic subst script_lang).

  Lemma select_exact_range db f : in_range db (select_exact norm is_generic subst db f).
  Proof.
    intros i. unfold select_exact. destruct (is_generic f).
    - destruct (select_fs db (subst [f] 0) 0) as [|x l] eqn:E; [intros []|].
      intros H. apply in_map_iff in H. destruct H as [y [<- Hy]]. apply take_family_in in Hy.
      rewrite <- E in Hy. eapply select_fs_range; eauto.
    - intros H. apply in_map_iff in H. destruct H as [y [<- Hy]]. eapply select_fs_range; eauto.
  Qed.
  Lemma select_subs_range db fams s : in_range db (select_subs subst script_lang db fams s).
  Proof. intros i H. unfold select_subs in H. apply in_map_iff in H. destruct H as [y [<- Hy]]. eapply select_fs_range; eauto. Qed.

  Lemma pass_exact_ok db a : (forall fp, In fp db -> valid_fp fp) -> valid_style a ->
    forall fams, exists c, pass_exact norm is_generic subst db fams a = Ok c /\ in_range db c.
  Proof.
    intros HV HQ. induction fams as [|f fams [c [E R]]].
    - exists []. split; [reflexivity|intros ? []].
    - cbn. pose proof (select_exact_range db f) as SR.
      destruct (select_exact norm is_generic subst db f) as [|x sel] eqn:ES; [exists c; auto|].
      destruct (retains_ok db (x :: sel) a SR HV HQ) as [c' [E' [S N]]]. rewrite E'. cbn [bind].
      destruct c' as [|y c']; [exfalso; apply N; [discriminate|reflexivity]|].
      rewrite E. cbn. exists (y :: c). split; [reflexivity|].
      intros i [<-|Hi]; [apply SR, S; left; reflexivity|auto].
  Qed.

  Lemma compute_cands_ok db q s : (forall fp, In fp db -> valid_fp fp) -> valid_style (q_aspect q) ->
    exists c, ccands db q s = Ok c /\ in_range db (c_without c) /\ in_range db (c_with c) /\ in_range db (c_manual c).
  Proof.
    intros HV HQ. unfold compute_cands.
    destruct (pass_exact_ok db (q_aspect q) HV HQ (q_fams q)) as [c1 [E1 R1]]. rewrite E1. cbn [bind].
    destruct (retains_ok db _ (q_aspect q) (select_subs_range db (q_fams q) s) HV HQ) as [c2 [E2 [S2 _]]]. rewrite E2. cbn [bind].
    assert (UR : in_range db (user_indices 0 db)) by (intros i Hi; apply user_indices_range in Hi; lia).
    destruct (retains_ok db _ (q_aspect q) UR HV HQ) as [c3 [E3 [S3 _]]]. rewrite E3. cbn [bind].
    eexists. split; [reflexivity|]. cbn. repeat split; auto.
    - intros i Hi. apply (select_subs_range db (q_fams q) s). auto.
    - intros i Hi. apply UR. auto.
  Qed.

  Lemma rfr_ok db faces r c : in_range db c -> exists x, resolve_for_rune db faces c r = Ok x.
  Proof.
    induction c as [|i c IH]; intros H; cbn; [eauto|].
    destruct (nth_error db i) as [fp|] eqn:N.
    - assert (in_range db c) by (intros j Hj; apply H; right; assumption).
      destruct (zmem r (fp_runes fp)); [destruct (assoc_z (fp_loc fp) faces); eauto|auto].
    - exfalso. apply nth_error_None in N. specialize (H i (or_introl eq_refl)). lia.
  Qed.

  (* ---- the LRU never reaches the sentinel ---- *)
  Definition lru_ok (l : lru) : Prop :=
    0 <= l_max l /\
    (forall k e, In (k, e) (l_map l) -> In e (l_list l) /\ e_key e = k) /\
    (forall o1 o2, In o1 (l_list l) -> In o2 (l_list l) -> e_id o1 = e_id o2 -> o1 = o2) /\
    (forall o, In o (l_list l) -> e_id o < l_next l).

  Lemma evict_ok lst : forall m max, 0 <= max ->
    (forall k e, In (k, e) m -> In e lst /\ e_key e = k) ->
    exists m' lst', evict m lst max = Ok (m', lst') /\
      (forall k e, In (k, e) m' -> In e lst' /\ e_key e = k) /\ (forall o, In o lst' -> In o lst).
  Proof.
    induction lst as [|o rest IH]; intros m max Hm HJ; cbn.
    - destruct m as [|[k e] m]; [|exfalso; destruct (HJ k e (or_introl eq_refl)) as [[] _]].
      cbn. destruct (0 >? max) eqn:E; [rewrite Z.gtb_ltb in E; apply Z.ltb_lt in E; lia|].
      exists [], []. repeat split; try contradiction.
    - destruct (zlen m >? max).
      + destruct (IH (map_del (e_key o) m) max Hm) as [m' [lst' [E [J S]]]].
        { intros k e Hin. unfold map_del in Hin. apply filter_In in Hin. destruct Hin as [Hin Hk]. cbn in Hk.
          destruct (HJ k e Hin) as [[<-|He] Hkey]; [|auto].
          subst k. rewrite key_eqb_refl in Hk. discriminate. }
        exists m', lst'. split; [assumption|]. split; [assumption|]. intros x Hx. right. auto.
      + exists m, (o :: rest). auto.
  Qed.

  Lemma do_init_ok l : lru_ok l -> lru_ok (lru_do_init l).
  Proof.
    unfold lru_do_init. destruct (l_init l); [auto|]. intros (H1 & _). unfold lru_ok, lru_clear; cbn.
    repeat split; auto; contradiction.
  Qed.

  Lemma remove_id_in id l o : In o (remove_id id l) -> In o l.
  Proof. unfold remove_id. intros H. apply filter_In in H. tauto. Qed.

  Lemma lru_put_ok l k q v : lru_ok l -> exists l', lru_put l k q v = Ok l' /\ lru_ok l' /\ l_max l' = l_max l.
  Proof.
    intros H0. pose proof (do_init_ok l H0) as (Hm & HJ & HU & HF).
    assert (Emax : l_max (lru_do_init l) = l_max l) by (unfold lru_do_init; destruct (l_init l); reflexivity).
    unfold lru_put. set (l1 := lru_do_init l) in *.
    set (val := mkEntry (l_next l1) k (q_fams q) v).
    set (lst := match map_get k (l_map l1) with Some old => remove_id (e_id old) (l_list l1) | None => l_list l1 end).
    assert (Hlst : forall o, In o lst -> In o (l_list l1)).
    { unfold lst. destruct (map_get k (l_map l1)); [apply remove_id_in|auto]. }
    destruct (evict_ok (lst ++ [val]) (map_set k val (l_map l1)) (l_max l1) Hm) as [m' [lst' [E [J S]]]].
    { intros k0 e Hin. unfold map_set in Hin. destruct Hin as [Hin|Hin].
      - inversion Hin; subst. split; [apply in_or_app; right; left; reflexivity|reflexivity].
      - unfold map_del in Hin. apply filter_In in Hin. destruct Hin as [Hin Hk]. cbn in Hk.
        destruct (HJ _ _ Hin) as [He Hkey]. split; [|assumption]. apply in_or_app. left.
        unfold lst. destruct (map_get k (l_map l1)) as [old|] eqn:G; [|assumption].
        unfold remove_id. apply filter_In. split; [assumption|].
        destruct (e_id e =? e_id old) eqn:Eid; [|reflexivity]. exfalso.
        apply Z.eqb_eq in Eid. apply map_get_in in G. destruct (HJ _ _ G) as [Hold Hkold].
        pose proof (HU _ _ He Hold Eid). subst e. rewrite Hkold in Hkey. subst k0. rewrite key_eqb_refl in Hk. discriminate. }
    rewrite E. cbn [bind]. eexists. split; [reflexivity|]. split; [|cbn; assumption].
    unfold lru_ok; cbn. split; [lia|]. split; [exact J|]. split.
    - intros o1 o2 H1 H2 Hid. apply S in H1, H2. apply in_app_or in H1, H2.
      destruct H1 as [H1|[<-|[]]], H2 as [H2|[<-|[]]]; auto.
      + exfalso. apply Hlst, HF in H1. cbn in Hid. lia.
      + exfalso. apply Hlst, HF in H2. cbn in Hid. lia.
    - intros o Ho. apply S, in_app_or in Ho. destruct Ho as [Ho|[<-|[]]]; [apply Hlst, HF in Ho; lia|cbn; lia].
  Qed.

  Lemma lru_get_ok l k q v l' : lru_ok l -> lru_get l k q = Some (v, l') -> lru_ok l'.
  Proof.
    intros (Hm & HJ & HU & HF) H. unfold lru_get in H.
    destruct (map_get k (l_map l)) as [lt|] eqn:G; [|discriminate].
    destruct (zlist_eqb (e_fams lt) (q_fams q)); [|discriminate]. inversion H; subst; clear H.
    apply map_get_in in G. destruct (HJ _ _ G) as [Hlt Hklt].
    assert (S : forall o, In o (remove_id (e_id lt) (l_list l) ++ [lt]) -> In o (l_list l)).
    { intros o Ho. apply in_app_or in Ho. destruct Ho as [Ho|[<-|[]]]; [eapply remove_id_in; eauto|assumption]. }
    unfold lru_ok; cbn. split; [assumption|]. split; [|split].
    - intros k0 e Hin. destruct (HJ _ _ Hin) as [He Hk]. split; [|assumption].
      apply in_or_app. destruct (e_id e =? e_id lt) eqn:Eid.
      + right. left. apply Z.eqb_eq in Eid. symmetry. apply HU; auto.
      + left. unfold remove_id. apply filter_In. split; [assumption|]. rewrite Eid. reflexivity.
    - intros o1 o2 H1 H2. apply HU; auto.
    - intros o Ho. apply HF; auto.
  Qed.

  (* ---- invariant for panic-freedom ---- *)
  Definition cands_range (fm : fontmap) : Prop :=
    in_range (fm_db fm) (c_without (fm_cands fm)) /\ in_range (fm_db fm) (c_with (fm_cands fm))
    /\ in_range (fm_db fm) (c_manual (fm_cands fm)).
  Definition tinv (fm : fontmap) : Prop :=
    (forall fp, In fp (fm_db fm) -> valid_fp fp) /\ valid_style (q_aspect (fm_query fm))
    /\ (forall s, in_range (fm_db fm) (smap_get s (fm_smap fm)))
    /\ lru_ok (fm_lru fm) /\ (fm_built fm = true -> cands_range fm).

  Definition valid_added (x : added) : Prop :=
    valid_style (ad_aspect x) /\ a_weight (ad_aspect x) >= 0 /\ a_stretch (ad_aspect x) >= 0.
  Definition valid_op (o : op) : Prop :=
    match o with
    | OpAdd l => forall x, In x l -> valid_added x
    | OpSetQuery q => valid_style (q_aspect q)
    | OpCacheSize n => 0 <= n
    | _ => True
    end.

  Lemma valid_footprint_of x : valid_added x -> valid_fp (footprint_of norm x).
  Proof.
    intros (Hs & Hw & Ht). unfold valid_fp, footprint_of, set_defaults; cbn.
    repeat split.
    - destruct Hs as [H|[H|H]]; rewrite H; cbn; auto.
    - destruct (a_weight (ad_aspect x) =? 0) eqn:E; [lia|apply Z.eqb_neq in E; lia].
    - destruct (a_stretch (ad_aspect x) =? 0) eqn:E; [lia|apply Z.eqb_neq in E; lia].
  Qed.

  Lemma tinv_init : tinv new_fontmap.
  Proof.
    unfold tinv, new_fontmap, lru_ok, valid_style; cbn. repeat split; try contradiction; try discriminate; auto; try lia.
    intros s i H. unfold smap_get in H. cbn in H. contradiction.
  Qed.

  Lemma add_one_tinv fm x :
    (forall fp, In fp (fm_db fm) -> valid_fp fp) -> (forall s, in_range (fm_db fm) (smap_get s (fm_smap fm))) ->
    valid_added x ->
    (forall fp, In fp (fm_db (add_one norm fm x)) -> valid_fp fp) /\
    (forall s, in_range (fm_db (add_one norm fm x)) (smap_get s (fm_smap (add_one norm fm x)))) /\
    fm_lru (add_one norm fm x) = fm_lru fm /\ fm_query (add_one norm fm x) = fm_query fm.
  Proof.
    intros HV HS Hx. unfold add_one; cbn. split; [|split; [|split; reflexivity]].
    - intros fp Hfp. apply in_app_or in Hfp. destruct Hfp as [Hfp|[<-|[]]]; [auto|apply valid_footprint_of; assumption].
    - intros s i Hi. rewrite smap_fold in Hi. rewrite app_length. cbn. apply in_app_or in Hi. destruct Hi as [Hi|Hi].
      + apply HS in Hi. lia.
      + apply repeat_spec in Hi. lia.
  Qed.

  Lemma fold_add_tinv l : forall fm,
    (forall fp, In fp (fm_db fm) -> valid_fp fp) -> (forall s, in_range (fm_db fm) (smap_get s (fm_smap fm))) ->
    (forall x, In x l -> valid_added x) ->
    let fm' := fold_left (add_one norm) l fm in
    (forall fp, In fp (fm_db fm') -> valid_fp fp) /\ (forall s, in_range (fm_db fm') (smap_get s (fm_smap fm'))) /\
    fm_lru fm' = fm_lru fm /\ fm_query fm' = fm_query fm.
  Proof.
    induction l as [|x l IH]; cbn; intros fm HV HS HL; [auto|].
    destruct (add_one_tinv fm x HV HS (HL x (or_introl eq_refl))) as (A & B & C & D).
    destruct (IH (add_one norm fm x) A B (fun y Hy => HL y (or_intror Hy))) as (A' & B' & C' & D').
    cbn in *. split; [exact A'|]. split; [exact B'|]. split; [rewrite C'; exact C|rewrite D'; exact D].
  Qed.

  Lemma step_total fm o : tinv fm -> valid_op o -> exists fm' out, stepM fm o = Ok (fm', out) /\ tinv fm'.
  Proof.
    intros (HV & HQ & HS & HL & HB) Ho. destruct o as [l|q|s|n|r]; cbn in Ho |- *.
    - eexists _, _. split; [reflexivity|].
      destruct (fold_add_tinv l fm HV HS Ho) as (A & B & C & D). cbn in *.
      unfold tinv, add_faces; cbn. split; [assumption|]. split; [rewrite D; assumption|]. split; [assumption|].
      split; [|discriminate]. rewrite C. destruct HL as (Hm & _). unfold lru_ok, lru_clear; cbn. repeat split; auto; contradiction.
    - eexists _, _. split; [reflexivity|]. unfold tinv, set_query; cbn.
      split; [assumption|]. split; [destruct (q_fams q); cbn; assumption|]. split; [assumption|]. split; [assumption|discriminate].
    - eexists _, _. split; [reflexivity|]. unfold tinv, set_script; cbn.
      split; [assumption|]. split; [assumption|]. split; [assumption|]. split; [assumption|discriminate].
    - eexists _, _. split; [reflexivity|]. unfold tinv, set_cache_size; cbn.
      split; [assumption|]. split; [assumption|]. split; [assumption|]. split; [|exact HB].
      destruct HL as (Hm & HJ & HU & HF). unfold lru_ok; cbn. auto.
    - unfold resolve_face, key_for.
      set (l1 := lru_do_init (fm_lru fm)).
      set (k := mkKey _ _ _ _).
      pose proof (do_init_ok _ HL) as HL1. fold l1 in HL1.
      destruct (lru_get l1 k (fm_query fm)) as [[face l2]|] eqn:G.
      + cbn. eexists _, _. split; [reflexivity|]. pose proof (lru_get_ok _ _ _ _ _ HL1 G) as HL2.
        unfold tinv; cbn. auto.
      + (* miss *)
        assert (HBC : exists fm1, build_candidates norm is_generic subst script_lang (with_lru fm l1) = Ok fm1 /\
                      fm_db fm1 = fm_db fm /\ fm_faces fm1 = fm_faces fm /\ fm_smap fm1 = fm_smap fm /\ fm_query fm1 = fm_query fm /\
                      fm_script fm1 = fm_script fm /\ fm_first fm1 = fm_first fm /\ fm_built fm1 = true /\ cands_range fm1).
        { unfold build_candidates; cbn. destruct (fm_built fm) eqn:EB.
          - eexists. split; [reflexivity|]. cbn. repeat split; auto; apply HB; reflexivity.
          - destruct (compute_cands_ok (fm_db fm) (fm_query fm) (fm_script fm) HV HQ) as [c [Ec Rc]].
            rewrite Ec. cbn [bind]. eexists. split; [reflexivity|]. cbn. unfold cands_range; cbn. repeat split; tauto. }
        destruct HBC as [fm1 [E1 (Edb & Ef & Esm & Eq & Esc & Efi & Eb & (R1 & R2 & R3))]]. rewrite E1. cbn [bind].
        assert (HU : exists face, resolve_uncached fm1 r = Ok face).
        { unfold resolve_uncached.
          destruct (rfr_ok (fm_db fm1) (fm_faces fm1) r _ R1) as [x1 ->]. cbn [bind]. destruct x1; [eauto|].
          destruct (rfr_ok (fm_db fm1) (fm_faces fm1) r _ R2) as [x2 ->]. cbn [bind]. destruct x2; [eauto|].
          destruct (rfr_ok (fm_db fm1) (fm_faces fm1) r _ R3) as [x3 ->]. cbn [bind]. destruct x3; [eauto|].
          assert (R4 : in_range (fm_db fm1) (smap_get (fm_script fm1) (fm_smap fm1))) by (rewrite Edb, Esm; apply HS).
          destruct (rfr_ok (fm_db fm1) (fm_faces fm1) r _ R4) as [x4 ->]. cbn [bind]. destruct x4; [eauto|].
          destruct (fm_first fm1); [eauto|]. destruct (fm_db fm1); [eauto|].
          destruct (first_loadable _ _); eauto. }
        destruct HU as [face ->]. cbn [bind].
        destruct (lru_put_ok l1 k (fm_query fm) face HL1) as [l3 [E3 [HL3 _]]]. rewrite E3. cbn.
        eexists _, _. split; [reflexivity|].
        unfold tinv; cbn. rewrite Eq, Esm.
        split; [rewrite Edb; assumption|]. split; [assumption|]. split; [rewrite Edb; assumption|]. split; [assumption|].
        intros _. unfold cands_range; cbn. auto.
  Qed.

  Lemma run_total ops : forall fm, tinv fm -> Forall valid_op ops -> exists fm' answers, runM fm ops = Ok (fm', answers).
  Proof.
    induction ops as [|o ops IH]; intros fm HT HV; cbn; [eauto|].
    inversion HV; subst. destruct (step_total fm o HT H1) as [fm1 [out [E HT1]]]. rewrite E. cbn [bind fst snd].
    destruct (IH fm1 HT1 H2) as [fm2 [ans E2]]. rewrite E2. cbn. eauto.
  Qed.

  (* ---- a resolved face is never nil once a font has been added ---- *)
  Lemma spec_nonnil a r x :
    as_added a <> [] -> spec_answer norm is_generic subst script_lang a r = Ok x -> x <> None.
  Proof.
    intros Hne H. unfold spec_answer in H. apply bind_ok in H. destruct H as [c [_ H]]. inversion H; subst; clear H.
    destruct (find _ _) as [i|] eqn:F.
    - apply find_some in F. destruct F as [_ F]. rewrite <- face_of_face_at. unfold face_of. unfold covers in F.
      destruct (nth_error (a_db norm a) i) as [fp|] eqn:N; [|discriminate].
      apply (cached_all_abs norm a). eapply nth_error_In; eauto.
    - destruct (as_added a); [contradiction|cbn; discriminate].
  Qed.

  (* the answers of the specification over an operation sequence: nil only while nothing was added *)
  Fixpoint nonnil_ok (ops : list op) (nonempty : bool) (answers : list (option Z)) : Prop :=
    match ops with
    | [] => True
    | OpAdd l :: r => nonnil_ok r (nonempty || match l with [] => false | _ => true end) answers
    | OpResolve _ :: r =>
        match answers with
        | a :: answers' => (nonempty = true -> a <> None) /\ nonnil_ok r nonempty answers'
        | [] => False
        end
    | _ :: r => nonnil_ok r nonempty answers
    end.

  Lemma spec_run_nonnil ops : forall a answers b,
    (b = true -> as_added a <> []) ->
    spec_run norm is_generic subst script_lang empty_fam a ops = Ok answers -> nonnil_ok ops b answers.
  Proof.
    induction ops as [|o ops IH]; intros a answers b Hb H; [exact I|].
    destruct o as [l|q|s|n|r]; cbn in H |- *.
    - eapply IH; [|exact H]. cbn. intros Hor. apply orb_true_iff in Hor. destruct Hor as [Hor|Hor].
      + intros E. apply app_eq_nil in E. destruct E as [E _]. exact (Hb Hor E).
      + destruct l; [discriminate|]. intros E. apply app_eq_nil in E. destruct E as [_ E]. discriminate.
    - eapply IH; [|exact H]. exact Hb.
    - eapply IH; [|exact H]. exact Hb.
    - eapply IH; [|exact H]. exact Hb.
    - apply bind_ok in H. destruct H as [x [Hx H]]. apply bind_ok in H. destruct H as [y [Hy H]]. inversion H; subst.
      split; [intros Hbt; eapply spec_nonnil; [apply Hb; assumption|exact Hx]|]. eapply IH; eauto.
  Qed.

  Theorem resolve_total_lemma ops :
    Forall valid_op ops ->
    exists fm answers, runM new_fontmap ops = Ok (fm, answers) /\ nonnil_ok ops false answers.
  Proof.
    intros HV. destruct (run_total ops new_fontmap tinv_init HV) as [fm [answers E]].
    exists fm, answers. split; [assumption|].
    eapply spec_run_nonnil; [|eapply resolve_refines_spec_lemma; exact E]. discriminate.
  Qed.

  (* ---- size of the rune cache ---- *)
  Lemma lru_put_bound l k q v l' : lru_put l k q v = Ok l' -> zlen (l_map l') <= l_max l.
  Proof.
    unfold lru_put. intros H. apply bind_ok in H. destruct H as [[m' lst'] [E H]]. inversion H; subst; clear H. cbn.
    apply evict_bound in E. unfold lru_do_init in E. destruct (l_init l); cbn in E; assumption.
  Qed.

  Lemma resolve_face_bound fm r fm' x :
    resolve_face hash norm is_generic subst script_lang fm r = Ok (fm', x) ->
    zlen (l_map (fm_lru fm')) <= Z.max (l_max (fm_lru fm)) (zlen (l_map (fm_lru fm))).
  Proof.
    unfold resolve_face, key_for. set (l1 := lru_do_init (fm_lru fm)). set (k := mkKey _ _ _ _).
    assert (M1 : zlen (l_map l1) <= zlen (l_map (fm_lru fm)) /\ l_max l1 = l_max (fm_lru fm)).
    { unfold l1, lru_do_init. destruct (l_init (fm_lru fm)); cbn; [lia|]. split; [apply zlen_nonneg|reflexivity]. }
    destruct (lru_get l1 k (fm_query fm)) as [[face l2]|] eqn:G; intros H.
    - inversion H; subst; clear H. cbn. unfold lru_get in G. destruct (map_get k (l_map l1)); [|discriminate].
      destruct (zlist_eqb _ _); [|discriminate]. inversion G; subst; cbn. lia.
    - apply bind_ok in H. destruct H as [fm1 [_ H]]. apply bind_ok in H. destruct H as [face [_ H]].
      apply bind_ok in H. destruct H as [l3 [HP H]]. inversion H; subst; clear H. cbn.
      apply lru_put_bound in HP. lia.
  Qed.
End Total.
