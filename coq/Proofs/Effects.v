(* C17 — the proof obligation on the generated effect facts: evaluated by the kernel on Gen/Effects.v, which
   go/cmd/effects rewrites from the Go source on every run.  When somebody adds a write to a package-level
   variable or to memory reachable from a *Font (a memo, a scratch buffer), [no_offending_site] fails and
   the error message shows the new fact: (file, line, variable, function). *)
From Coq Require Import String List ZArith Bool.
From TV Require Import Model.Effects Gen.Effects Spec.Effects.
Import ListNotations.
Local Open Scope string_scope.

Lemma forallb_filter_nil : forall (A : Type) (f : A -> bool) l,
  filter (fun x => negb (f x)) l = [] -> forallb f l = true.
Proof.
  induction l as [|a l IH]; simpl; intros H; [reflexivity|].
  destruct (f a); simpl in *; [now apply IH|discriminate].
Qed.

(* every listed effect satisfies a rule; a failure prints the offending sites *)
Lemma no_offending_site : offending_sites = [].
Proof. vm_compute. reflexivity. Qed.

Lemma effects_confined_lemma : confined_effects = true.
Proof.
  pose proof no_offending_site as H. unfold offending_sites in H.
  apply app_eq_nil in H. destruct H as [H1 H2].
  apply map_eq_nil in H1. apply map_eq_nil in H2.
  unfold confined_effects. rewrite (forallb_filter_nil _ _ _ H1), (forallb_filter_nil _ _ _ H2). reflexivity.
Qed.

Lemma extraction_sane_lemma : extraction_sane = true.
Proof. vm_compute. reflexivity. Qed.
