(* Shared lemmas of the engine-piece instances (C18): sorted clusters, refinement of glyph sequences (same clusters, flags
   only added), the skipping iterator, window flagging. *)
From TV Require Import Model.EngineItem Spec.LocalEngine Proofs.LocalEngine.

(* buffers in logical order: the later side of a cut at c holds the clusters >= c *)
Definition sideL (c v : Z) : bool := c <=? v.

(* ---- sorted (non-decreasing) clusters ---- *)
Fixpoint sortedZ (l : list Z) : Prop :=
  match l with [] => True | x :: r => (forall y, In y r -> x <= y) /\ sortedZ r end.
Definition sorted (l : list item) : Prop := sortedZ (icls l).

Lemma sortedZ_app a b : sortedZ (a ++ b) <-> sortedZ a /\ sortedZ b /\ (forall x y, In x a -> In y b -> x <= y).
Proof.
  induction a as [|u a IH]; cbn.
  - split; [intros H; repeat split; auto; intros x y []|intros (_ & H & _); exact H].
  - rewrite IH. split.
    + intros (H1 & H2 & H3 & H4). repeat split; auto.
      * intros y Hy. apply H1. apply in_or_app. left. exact Hy.
      * intros x y [E|Hx] Hy; [subst x; apply H1; apply in_or_app; right; exact Hy|apply H4; assumption].
    + intros ((H1 & H2) & H3 & H4). repeat split; auto.
      intros y Hy. apply in_app_or in Hy. destruct Hy as [Hy|Hy]; [apply H1; exact Hy|apply H4; [left; reflexivity|exact Hy]].
Qed.

Lemma icls_app a b : icls (a ++ b) = icls a ++ icls b.
Proof. apply map_app. Qed.

Lemma in_icls x l : In x l -> In (icl x) (icls l).
Proof. apply in_map. Qed.

Lemma in_icls_inv v l : In v (icls l) -> exists x, In x l /\ icl x = v.
Proof. intros H. apply in_map_iff in H. destruct H as (x & E & Hx). exists x. auto. Qed.

Lemma sorted_app a b : sorted (a ++ b) <-> sorted a /\ sorted b /\ (forall x y, In x a -> In y b -> icl x <= icl y).
Proof.
  unfold sorted. rewrite icls_app, sortedZ_app. split; intros (H1 & H2 & H3); repeat split; auto.
  - intros x y Hx Hy. apply H3; apply in_icls; assumption.
  - intros u v Hu Hv. apply in_icls_inv in Hu. apply in_icls_inv in Hv.
    destruct Hu as (x & Hx & <-). destruct Hv as (y & Hy & <-). apply H3; assumption.
Qed.

Lemma sorted_same l l' : icls l = icls l' -> sorted l -> sorted l'.
Proof. unfold sorted. intros ->. auto. Qed.

(* ---- refinement: same clusters, unsafe-to-break flags only added ---- *)
Definition refines (s s' : list item) : Prop :=
  Forall2 (fun a b => icl a = icl b /\ (iutb a = true -> iutb b = true)) s s'.

Lemma refines_refl s : refines s s.
Proof. induction s; constructor; auto. Qed.

Lemma refines_app a a' b b' : refines a a' -> refines b b' -> refines (a ++ b) (a' ++ b').
Proof. apply Forall2_app. Qed.

Lemma refines_icls s s' : refines s s' -> icls s' = icls s.
Proof. unfold icls. induction 1 as [|a b s s' [E _] _ IH]; cbn; [reflexivity|]. rewrite IH, E. reflexivity. Qed.

Lemma refines_in_r s s' y : refines s s' -> In y s' -> exists x, In x s /\ icl x = icl y /\ (iutb x = true -> iutb y = true).
Proof.
  induction 1 as [|a b s s' [E F] _ IH]; intros H; [destruct H|].
  destruct H as [<-|H]; [exists a; split; [left; reflexivity|auto]|].
  destruct (IH H) as (x & Hx & R). exists x. split; [right; exact Hx|exact R].
Qed.

Lemma refines_in_l s s' x : refines s s' -> In x s -> exists y, In y s' /\ icl x = icl y /\ (iutb x = true -> iutb y = true).
Proof.
  induction 1 as [|a b s s' [E F] _ IH]; intros H; [destruct H|].
  destruct H as [<-|H]; [exists b; split; [left; reflexivity|auto]|].
  destruct (IH H) as (y & Hy & R). exists y. split; [right; exact Hy|exact R].
Qed.

Notation fogI := (fog icl iutb).
Notation has_clI := (has_cl icl).

Lemma has_cl_spec c l : has_clI c l = true <-> exists x, In x l /\ icl x = c.
Proof.
  unfold has_cl. rewrite existsb_exists. split; intros (x & H1 & H2); exists x; split; auto.
  - apply Z.eqb_eq. exact H2.
  - apply Z.eqb_eq. exact H2.
Qed.

Lemma fog_spec c l : fogI c l = true <-> ((forall x, In x l -> icl x <> c) \/ exists x, In x l /\ icl x = c /\ iutb x = true).
Proof.
  unfold fog. rewrite orb_true_iff, negb_true_iff, existsb_exists. split.
  - intros [H|(x & H1 & H2)].
    + left. intros x Hx E. assert (has_clI c l = true) by (apply has_cl_spec; exists x; auto). congruence.
    + right. apply andb_true_iff in H2. destruct H2 as [H2 H3]. apply Z.eqb_eq in H2. exists x. auto.
  - intros [H|(x & H1 & H2 & H3)].
    + left. destruct (has_clI c l) eqn:E; [|reflexivity]. apply has_cl_spec in E. destruct E as (x & Hx & E). destruct (H x Hx E).
    + right. exists x. split; [exact H1|]. rewrite H3, andb_true_r. apply Z.eqb_eq. exact H2.
Qed.

Lemma refines_fog c s s' : refines s s' -> fogI c s = true -> fogI c s' = true.
Proof.
  intros R F. apply fog_spec in F. apply fog_spec. destruct F as [F|(x & Hx & E & U)].
  - left. intros y Hy. destruct (refines_in_r s s' y R Hy) as (x & Hx & E & _). rewrite <- E. apply F. exact Hx.
  - right. destruct (refines_in_l s s' x R Hx) as (y & Hy & E' & U'). exists y. repeat split; [exact Hy|congruence|auto].
Qed.

Lemma refines_cls s s' : refines s s' -> forall y, In y s' -> exists x, In x s /\ icl x = icl y.
Proof. intros R y Hy. destruct (refines_in_r s s' y R Hy) as (x & Hx & E & _). exists x. auto. Qed.

(* ---- the window flagging ---- *)
Lemma fold_min_le a r : fold_right Z.min a r <= a /\ forall v, In v r -> fold_right Z.min a r <= v.
Proof.
  induction r as [|b r [IH1 IH2]]; cbn [fold_right]; [split; [lia|intros v []]|].
  split; [lia|]. intros v [<-|Hv]; [lia|]. specialize (IH2 v Hv). lia.
Qed.

Lemma lminz_le l : forall v, In v l -> lminz l <= v.
Proof.
  destruct l as [|a r]; [intros v []|]. cbn [lminz]. destruct (fold_min_le a r) as [H1 H2].
  intros v [<-|Hv]; [exact H1|exact (H2 v Hv)].
Qed.

Lemma flag_item_icl m x : icl (flag_item m x) = icl x.
Proof. reflexivity. Qed.
Lemma flag_item_utb x : iutb (flag_item m_break x) = true.
Proof. unfold iutb, flag_item, with_g, or_flags, set_gf, fl_or. cbn. apply orb_true_r. Qed.
Lemma flag_item_keeps m x : iutb x = true -> iutb (flag_item m x) = true.
Proof. unfold iutb, flag_item, with_g, or_flags, set_gf, fl_or. cbn. intros ->. reflexivity. Qed.

Lemma map_refines (f : item -> item) l :
  (forall x, icl (f x) = icl x /\ (iutb x = true -> iutb (f x) = true)) -> refines l (map f l).
Proof. intros H. induction l; cbn; constructor; auto. destruct (H a) as [E F]. split; [symmetry; exact E|exact F]. Qed.

Lemma flag_window_refines m w : refines w (flag_window_m m w).
Proof.
  unfold flag_window_m. destruct w as [|a [|b r]]; try apply refines_refl.
  apply map_refines. intros x. destruct (icl x =? _); split; auto. apply flag_item_keeps.
Qed.

Lemma flag_window_length m w : length (flag_window_m m w) = length w.
Proof. unfold flag_window_m. destruct w as [|a [|b r]]; try reflexivity. apply map_length. Qed.

(* in a window of at least two glyphs, every glyph outside the minimal cluster ends up flagged *)
Lemma flag_window_flags w z : (2 <= length w)%nat -> In z w -> icl z <> lminz (icls w) ->
  exists z', In z' (flag_window w) /\ icl z' = icl z /\ iutb z' = true.
Proof.
  intros L Hz N. unfold flag_window, flag_window_m. destruct w as [|a [|b r]]; [cbn in L; lia|cbn in L; lia|].
  exists (flag_item m_break z). split; [|split; [reflexivity|apply flag_item_utb]].
  apply in_map_iff. exists z. split; [|exact Hz]. destruct (Z.eqb_spec (icl z) (lminz (icls (a :: b :: r)))); [contradiction|reflexivity].
Qed.

(* a flagged window that crosses a cut flags the cut: a, w, b consecutive in a sorted sequence, the glyphs of a and some
   glyph of w before c, some glyph of w and the glyphs of b from c on *)
Lemma fog_flag_window a w b c : sorted (a ++ w ++ b) ->
  (forall y, In y a -> icl y < c) -> (forall y, In y b -> c <= icl y) ->
  (exists x, In x w /\ icl x < c) -> (exists z, In z w /\ c <= icl z) ->
  fogI c (a ++ flag_window w ++ b) = true.
Proof.
  intros S Ha Hb (x & Hx & Lx) (z & Hz & Lz). apply fog_spec.
  destruct (has_clI c (a ++ w ++ b)) eqn:E.
  - right. apply has_cl_spec in E. destruct E as (y & Hy & Ey).
    assert (L2 : (2 <= length w)%nat).
    { destruct w as [|u [|v r]]; [destruct Hx|destruct Hx as [<-|[]]; destruct Hz as [<-|[]]; lia|cbn; lia]. }
    assert (Lmin : lminz (icls w) < c) by (pose proof (lminz_le (icls w) (icl x) (in_icls x w Hx)); lia).
    (* some glyph of w has cluster exactly c *)
    assert (exists u, In u w /\ icl u = c) as (u & Hu & Eu).
    { apply sorted_app in S. destruct S as (_ & S & _). apply sorted_app in S. destruct S as (_ & _ & Swb).
      apply in_app_or in Hy. destruct Hy as [Hy|Hy]; [specialize (Ha y Hy); lia|].
      apply in_app_or in Hy. destruct Hy as [Hy|Hy]; [exists y; auto|].
      exists z. split; [exact Hz|]. specialize (Swb z y Hz Hy). lia. }
    destruct (flag_window_flags w u L2 Hu ltac:(lia)) as (u' & Hu' & E' & U').
    exists u'. split; [apply in_or_app; right; apply in_or_app; left; exact Hu'|split; [congruence|exact U']].
  - left. intros y Hy Ey.
    assert (exists y0, In y0 (a ++ w ++ b) /\ icl y0 = c) as (y0 & H0 & E0).
    { assert (R : refines (a ++ w ++ b) (a ++ flag_window w ++ b)).
      { apply refines_app; [apply refines_refl|]. apply refines_app; [apply flag_window_refines|apply refines_refl]. }
      destruct (refines_cls _ _ R y Hy) as (y0 & H0 & E0). exists y0. split; [exact H0|congruence]. }
    assert (has_clI c (a ++ w ++ b) = true) by (apply has_cl_spec; exists y0; auto). congruence.
Qed.

(* ---- the skipping iterator ---- *)
Lemma snext_some m : forall l k, snext m l = Some k ->
  (k < length l)%nat /\ m (nth k l i0) = MMatch /\ Forall (fun x => m x = MSkip) (firstn k l).
Proof.
  induction l as [|x r IH]; intros k H; [discriminate|]. cbn in H.
  destruct (m x) eqn:E; try discriminate.
  - injection H as <-. cbn. repeat split; [lia|exact E|constructor].
  - destruct (snext m r) as [k'|] eqn:E'; [|discriminate]. injection H as <-.
    destruct (IH k' eq_refl) as (H1 & H2 & H3). cbn. repeat split; [lia|exact H2|constructor; assumption].
Qed.

Lemma snext_app_some m : forall l1 l2 k, snext m l1 = Some k -> snext m (l1 ++ l2) = Some k.
Proof.
  induction l1 as [|x r IH]; intros l2 k H; [discriminate|]. cbn in *.
  destruct (m x); try discriminate; [exact H|].
  destruct (snext m r) as [k'|] eqn:E; [|discriminate]. rewrite (IH l2 k' eq_refl). exact H.
Qed.

Lemma snext_app_inv m : forall l1 l2 k, snext m (l1 ++ l2) = Some k ->
  ((k < length l1)%nat /\ snext m l1 = Some k) \/ ((length l1 <= k)%nat /\ snext m l1 = None).
Proof.
  induction l1 as [|x r IH]; intros l2 k H; [right; cbn; split; [lia|reflexivity]|]. cbn in *.
  destruct (m x); try discriminate.
  - injection H as <-. left. split; [lia|reflexivity].
  - destruct (snext m (r ++ l2)) as [k'|] eqn:E; [|discriminate]. injection H as <-.
    destruct (IH l2 k' E) as [[H1 H2]|[H1 H2]]; rewrite H2; [left|right]; split; cbn; try lia; reflexivity.
Qed.

Lemma snext_app_none m : forall l1 l2, snext m (l1 ++ l2) = None -> snext m l1 = None.
Proof.
  intros l1 l2 H. destruct (snext m l1) as [k|] eqn:E; [|reflexivity].
  rewrite (snext_app_some m l1 l2 k E) in H. discriminate.
Qed.

(* list splitting at an index *)
Lemma split_nth (l : list item) k : (k < length l)%nat -> l = firstn k l ++ nth k l i0 :: skipn (S k) l.
Proof.
  revert l. induction k as [|k IH]; intros [|x r] H; cbn in H; try lia; cbn; [reflexivity|].
  f_equal. apply IH. lia.
Qed.

Lemma in_skipn {A} (x : A) : forall n l, In x (skipn n l) -> In x l.
Proof. induction n as [|n IH]; intros [|a l] H; cbn in *; auto. Qed.
Lemma in_firstn {A} (x : A) : forall n l, In x (firstn n l) -> In x l.
Proof.
  induction n as [|n IH]; intros [|a l] H; cbn in *; try contradiction.
  destruct H as [H|H]; [left; exact H|right; apply IH; exact H].
Qed.

Lemma nth_in_skipn : forall b (l : list item), (b < length l)%nat -> In (nth b l i0) (skipn b l).
Proof. induction b as [|b IH]; intros [|a l] H; cbn in *; try lia; [left; reflexivity|apply IH; lia]. Qed.
