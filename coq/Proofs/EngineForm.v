(* formClusters at MonotoneGraphemes leaves every continuation glyph in the cluster of the glyph before it
   (groups_uniform), for ALL buffers; setUnicodeProps raises bsfHasNonASCII whenever it sets a continuation bit.
   With these two facts the composition of the pre-substitution stages needs no hypothesis about formClusters. *)
From TV Require Import Model.Buffer Spec.Buffer Proofs.ShapeGlue Proofs.Buffer Proofs.BufferOps Proofs.BufferNewOps Proofs.BufferAll.
From TV Require Import Model.Engine Proofs.Engine.

(* ---------- indexing helpers ---------- *)

Definition ups (l : list glyph) : list Z := map up l.
Definition gat (l : list glyph) (i : Z) : glyph := nth (Z.to_nat i) l g0.

Lemma ups_zlen a b : ups a = ups b -> zlen a = zlen b.
Proof. unfold ups, zlen. intros H. rewrite <- (map_length up a), H, map_length. reflexivity. Qed.

Lemma ups_gat a b i : ups a = ups b -> up (gat a i) = up (gat b i).
Proof.
  intros H. unfold gat. change (up (nth (Z.to_nat i) a g0)) with ((fun g => up g) (nth (Z.to_nat i) a g0)).
  rewrite <- !(map_nth up). fold (ups a) (ups b). rewrite H. reflexivity.
Qed.

Lemma is_cont_ups a b i : ups a = ups b -> is_cont (gat a i) = is_cont (gat b i).
Proof. intros H. unfold is_cont. rewrite (ups_gat a b i H). reflexivity. Qed.

Lemma gat_app1 l1 l2 i : 0 <= i -> i < zlen l1 -> gat (l1 ++ l2) i = gat l1 i.
Proof. intros. unfold gat, zlen in *. apply app_nth1. lia. Qed.
Lemma gat_app2 l1 l2 i : zlen l1 <= i -> gat (l1 ++ l2) i = gat l2 (i - zlen l1).
Proof. intros. unfold gat, zlen in *. rewrite app_nth2 by lia. f_equal. lia. Qed.

Lemma gat_map f l i : 0 <= i -> i < zlen l -> gat (map f l) i = f (gat l i).
Proof.
  intros. unfold gat, zlen in *. rewrite (nth_indep _ g0 (f g0)) by (rewrite map_length; lia). apply map_nth.
Qed.

Lemma gat_map_range f s e l i : 0 <= s -> s <= e -> e <= zlen l -> 0 <= i -> i < zlen l ->
  gat (map_range f s e l) i = if (s <=? i) && (i <? e) then f (gat l i) else gat l i.
Proof.
  intros H0 H1 H2 I0 I1.
  destruct (map_range_view f s e l H0 H1 H2) as (l1 & l2 & l3 & E & L1 & L2 & _ & V). rewrite V. rewrite E.
  assert (M : zlen (map f l2) = e - s) by (rewrite zlen_map; exact L2).
  destruct (Z.leb_spec s i); cbn [andb].
  - destruct (Z.ltb_spec i e); cbn iota.
    + rewrite (gat_app2 l1 (map f l2 ++ l3)), (gat_app2 l1 (l2 ++ l3)) by lia.
      rewrite (gat_app1 (map f l2) l3), (gat_app1 l2 l3) by lia. apply gat_map; lia.
    + rewrite (gat_app2 l1 (map f l2 ++ l3)), (gat_app2 l1 (l2 ++ l3)) by lia.
      rewrite (gat_app2 (map f l2) l3), (gat_app2 l2 l3) by lia. rewrite M, L2. reflexivity.
  - rewrite (gat_app1 l1 (map f l2 ++ l3)), (gat_app1 l1 (l2 ++ l3)) by lia. reflexivity.
Qed.

Lemma gat_zskipn l s i : 0 <= s -> 0 <= i -> gat (zskipn s l) i = gat l (s + i).
Proof. intros. unfold gat. rewrite (nth_zskipn g0 l s (s + i)) by lia. f_equal. lia. Qed.

Lemma gat_prefix l s i : 0 <= i -> i < s -> s <= zlen l -> gat (slice 0 s l) i = gat l i.
Proof.
  intros. unfold slice. rewrite zskipn_0, Z.sub_0_r.
  rewrite <- (zfirstn_zskipn s l) at 2. rewrite gat_app1; [reflexivity|lia|rewrite zlen_zfirstn; lia].
Qed.

Lemma gat_rev_prefix l s j : 0 <= j -> j < s -> s <= zlen l -> gat (rev (slice 0 s l)) j = gat l (s - 1 - j).
Proof.
  intros. assert (L : zlen (slice 0 s l) = s) by (rewrite zlen_slice; lia).
  unfold gat at 1. rewrite rev_nth by (unfold zlen in L; lia).
  replace (length (slice 0 s l) - S (Z.to_nat j))%nat with (Z.to_nat (s - 1 - j)) by (unfold zlen in L; lia).
  apply gat_prefix; lia.
Qed.

Lemma run_eq_in c : forall m i, 0 <= i -> i < run_eq c m -> cl (gat m i) = c.
Proof.
  induction m as [|g r IH]; intros i I0 I1; cbn [run_eq] in I1; [lia|].
  destruct (Z.eqb_spec (cl g) c) as [E|N]; [|lia].
  destruct (Z.eq_dec i 0) as [->|Ni]; [exact E|].
  unfold gat. replace (Z.to_nat i) with (S (Z.to_nat (i - 1))) by lia. cbn [nth]. apply IH; lia.
Qed.

Lemma run_eq_stop c : forall m, run_eq c m < zlen m -> cl (gat m (run_eq c m)) <> c.
Proof.
  induction m as [|g r IH]; intros H; cbn [run_eq] in *; [cbn in H; lia|]. rewrite zlen_cons in H.
  destruct (Z.eqb_spec (cl g) c) as [E|N]; [|exact N].
  pose proof (run_eq_bound c r) as B.
  unfold gat. replace (Z.to_nat (1 + run_eq c r)) with (S (Z.to_nat (run_eq c r))) by lia. cbn [nth]. apply IH. lia.
Qed.

Lemma run_while_stop {A} (p : A -> bool) d : forall m, run_while p m < zlen m -> p (nth (Z.to_nat (run_while p m)) m d) = false.
Proof.
  induction m as [|g r IH]; intros H; cbn [run_while] in *; [cbn in H; lia|]. rewrite zlen_cons in H.
  destruct (p g) eqn:E; [|exact E].
  pose proof (run_while_bound p r) as B.
  replace (Z.to_nat (1 + run_while p r)) with (S (Z.to_nat (run_while p r))) by lia. cbn [nth]. apply IH. lia.
Qed.

Lemma run_while_in {A} (p : A -> bool) d : forall m i, 0 <= i -> i < run_while p m -> p (nth (Z.to_nat i) m d) = true.
Proof.
  induction m as [|g r IH]; intros i I0 I1; cbn [run_while] in I1; [lia|].
  destruct (p g) eqn:E; [|lia].
  destruct (Z.eq_dec i 0) as [->|Ni]; [exact E|].
  replace (Z.to_nat i) with (S (Z.to_nat (i - 1))) by lia. cbn [nth]. apply IH; lia.
Qed.

Lemma cl_set_cluster c m g : cl (set_cluster c m g) = c.
Proof. unfold set_cluster. destruct (Z.eqb_spec (cl g) c); [assumption|reflexivity]. Qed.
Lemma up_set_cluster c m g : up (set_cluster c m g) = up g.
Proof. unfold set_cluster. destruct (cl g =? c); reflexivity. Qed.

Lemma ups_map_range f s e l : (forall g, up (f g) = up g) -> 0 <= s -> s <= e -> e <= zlen l -> ups (map_range f s e l) = ups l.
Proof.
  intros Hf H0 H1 H2. destruct (map_range_view f s e l H0 H1 H2) as (l1 & l2 & l3 & E & _ & _ & _ & V).
  rewrite V. rewrite E. unfold ups. rewrite !map_app, map_map. do 2 f_equal. apply map_ext. exact Hf.
Qed.

(* ---------- mergeClusters keeps the equalities between neighbours (cursor at 0) ---------- *)

Lemma merge_adj b s e b' : (level b =? 2) = false -> idx b = 0 -> 0 <= s -> s + 2 <= e -> e <= zlen (info b) ->
  merge_clusters b s e = Ok b' ->
  ups (info b') = ups (info b) /\ zlen (info b') = zlen (info b) /\ idx b' = 0 /\ level b' = level b
  /\ (forall i, 0 < i -> i < zlen (info b) -> cl (gat (info b) (i - 1)) = cl (gat (info b) i) ->
                cl (gat (info b') (i - 1)) = cl (gat (info b') i))
  /\ (forall i, s <= i -> i < e -> cl (gat (info b') i) = cl (gat (info b') s)).
Proof.
  intros Hl Hi H0 H1 H2. unfold merge_clusters.
  destruct (Z.ltb_spec (e - s) 2); [lia|]. rewrite Hl.
  destruct (Z.leb_spec 0 s); [|lia]. destruct (Z.leb_spec e (zlen (info b))); [|lia]. cbn [andb negb].
  rewrite Hi. remember (info b) as inf eqn:Einf. set (n := zlen inf) in *.
  fold (gat inf s). fold (gat inf (e - 1)).
  set (cstart := cl (gat inf s)). set (cend := cl (gat inf (e - 1))).
  set (c := min_cl cstart (slice (s + 1) e inf)).
  set (ks := run_eq cstart (rev (slice 0 s inf))). set (ke := run_eq cend (zskipn e inf)).
  set (e' := if c =? cend then e else e + ke). set (s' := if c =? cstart then s else s - ks).
  assert (Ls : zlen (rev (slice 0 s inf)) = s) by (rewrite zlen_rev, zlen_slice; lia).
  assert (Le : zlen (zskipn e inf) = n - e) by (rewrite zlen_zskipn; lia).
  assert (Fs1 : 0 <= ks <= s) by (pose proof (run_eq_bound cstart (rev (slice 0 s inf))); lia).
  assert (Fe1 : 0 <= ke <= n - e) by (pose proof (run_eq_bound cend (zskipn e inf)); lia).
  assert (Fs2 : forall i, s - ks <= i -> i <= s -> cl (gat inf i) = cstart).
  { intros i A B. destruct (Z.eq_dec i s) as [->|N]; [reflexivity|].
    pose proof (run_eq_in cstart (rev (slice 0 s inf)) (s - 1 - i) ltac:(lia) ltac:(fold ks; lia)) as R.
    rewrite gat_rev_prefix in R by lia. replace (s - 1 - (s - 1 - i)) with i in R by lia. exact R. }
  assert (Fs3 : 0 < s - ks -> cl (gat inf (s - ks - 1)) <> cstart).
  { intros A. pose proof (run_eq_stop cstart (rev (slice 0 s inf)) ltac:(fold ks; lia)) as R. fold ks in R.
    rewrite gat_rev_prefix in R by lia. replace (s - 1 - ks) with (s - ks - 1) in R by lia. exact R. }
  assert (Fe2 : forall i, e - 1 <= i -> i < e + ke -> cl (gat inf i) = cend).
  { intros i A B. destruct (Z.eq_dec i (e - 1)) as [->|N]; [reflexivity|].
    pose proof (run_eq_in cend (zskipn e inf) (i - e) ltac:(lia) ltac:(fold ke; lia)) as R.
    rewrite gat_zskipn in R by lia. replace (e + (i - e)) with i in R by lia. exact R. }
  assert (Fe3 : e + ke < n -> cl (gat inf (e + ke)) <> cend).
  { intros A. pose proof (run_eq_stop cend (zskipn e inf) ltac:(fold ke; lia)) as R. fold ke in R.
    rewrite gat_zskipn in R by lia. exact R. }
  assert (Bs : 0 <= s' /\ s' <= s) by (subst s'; destruct (c =? cstart); lia).
  assert (Be : e <= e' /\ e' <= n) by (subst e'; destruct (c =? cend); lia).
  intros E. inversion E as [Eb]. clear E. clear Eb. cbn [info with_info with_out idx level].
  assert (Hcl : forall i, 0 <= i -> i < n -> cl (gat (map_range (set_cluster c fl0) s' e' inf) i)
                                            = if (s' <=? i) && (i <? e') then c else cl (gat inf i)).
  { intros i A B. rewrite gat_map_range by lia. destruct ((s' <=? i) && (i <? e')); [apply cl_set_cluster|reflexivity]. }
  split; [apply ups_map_range; try lia; intros g; apply up_set_cluster|].
  split; [apply zlen_map_range; lia|]. split; [exact Hi|]. split; [reflexivity|]. split.
  - intros i A B Heq. rewrite !Hcl by lia.
    destruct (Z.leb_spec s' (i - 1)); destruct (Z.ltb_spec (i - 1) e'); destruct (Z.leb_spec s' i); destruct (Z.ltb_spec i e');
      cbn [andb]; try lia; try reflexivity; try exact Heq.
    + (* i = e' *)
      assert (i = e') by lia. subst i. subst e'. destruct (Z.eqb_spec c cend) as [Ec|Nc].
      * rewrite Ec. rewrite <- Heq. reflexivity.
      * exfalso. apply (Fe3 ltac:(lia)). rewrite <- Heq. apply Fe2; lia.
    + (* i = s' *)
      assert (i = s') by lia. subst i. subst s'. destruct (Z.eqb_spec c cstart) as [Ec|Nc].
      * rewrite Ec. rewrite Heq. reflexivity.
      * exfalso. apply (Fs3 ltac:(lia)). replace (s - ks - 1) with (s - ks - 1) by lia. rewrite Heq. apply Fs2; lia.
  - intros i A B. rewrite !Hcl by lia.
    destruct (Z.leb_spec s' i); [|lia]. destruct (Z.ltb_spec i e'); [|lia].
    destruct (Z.leb_spec s' s); [|lia]. destruct (Z.ltb_spec s e'); [|lia]. reflexivity.
Qed.

(* ---------- groups_uniform from the pointwise statement ---------- *)

Lemma gat_cons a L i : 0 <= i -> gat (a :: L) (i + 1) = gat L i.
Proof. intros. unfold gat. replace (Z.to_nat (i + 1)) with (S (Z.to_nat i)) by lia. reflexivity. Qed.

Lemma groups_uniform_intro : forall l,
  (forall i, 0 < i -> i < zlen l -> is_cont (gat l i) = true -> cl (gat l (i - 1)) = cl (gat l i)) -> groups_uniform l = true.
Proof.
  induction l as [|a l IH]; intros H; [reflexivity|]. destruct l as [|b l]; [reflexivity|].
  cbn [groups_uniform]. apply andb_true_intro. split.
  - assert (B : 1 < zlen (a :: b :: l)) by (rewrite !zlen_cons; pose proof (zlen_nonneg l); lia).
    specialize (H 1 ltac:(lia) B). change (gat (a :: b :: l) 1) with b in H. change (gat (a :: b :: l) (1 - 1)) with a in H.
    destruct (is_cont b); [rewrite (H eq_refl), Z.eqb_refl; reflexivity|reflexivity].
  - apply IH. intros i A B C. rewrite zlen_cons in B.
    specialize (H (i + 1) ltac:(lia) ltac:(rewrite !zlen_cons; lia)).
    rewrite gat_cons in H by lia. replace (i + 1 - 1) with (i - 1 + 1) in H by lia. rewrite gat_cons in H by lia.
    exact (H C).
Qed.

(* ---------- the grapheme iteration of formClusters with mergeClusters ---------- *)

Definition fc_inv (ups0 : list Z) (n : Z) (b : buffer) (start : Z) : Prop :=
  zlen (info b) = n /\ idx b = 0 /\ (level b =? 2) = false /\ ups (info b) = ups0 /\ 0 <= start
  /\ (forall i, 0 < i -> i < start -> i < n -> is_cont (gat (info b) i) = true -> cl (gat (info b) (i - 1)) = cl (gat (info b) i))
  /\ (start = 0 \/ n <= start \/ is_cont (gat (info b) start) = false).

Lemma grapheme_end_stop inf start : 0 <= start -> grapheme_end inf start < zlen inf -> is_cont (gat inf (grapheme_end inf start)) = false.
Proof.
  intros H0 H1. unfold grapheme_end in *.
  pose proof (run_while_bound is_cont (zskipn (start + 1) inf)) as B.
  assert (L : zlen (zskipn (start + 1) inf) = zlen inf - (start + 1)) by (apply zlen_zskipn; lia).
  pose proof (run_while_stop is_cont g0 (zskipn (start + 1) inf) ltac:(lia)) as R.
  fold (gat (zskipn (start + 1) inf) (run_while is_cont (zskipn (start + 1) inf))) in R.
  rewrite gat_zskipn in R by lia. exact R.
Qed.

Lemma fc_loop_uniform : forall fuel ups0 n b start b', fc_inv ups0 n b start ->
  fc_loop fuel merge_clusters n b start = Ok b' -> ups (info b') = ups0 /\ groups_uniform (info b') = true.
Proof.
  assert (Fin : forall ups0 n b start, fc_inv ups0 n b start -> n <= start -> ups (info b) = ups0 /\ groups_uniform (info b) = true).
  { intros ups0 n b start (Ln & _ & _ & U & _ & P & _) Hge. split; [exact U|].
    apply groups_uniform_intro. intros i A B C. apply P; auto; lia. }
  induction fuel as [|k IH]; intros ups0 n b start b' Inv E; cbn [fc_loop] in E.
  - destruct (Z.leb_spec n start); [|discriminate]. inversion E; subst b'. eapply Fin; eassumption.
  - destruct (Z.leb_spec n start); [inversion E; subst b'; eapply Fin; eassumption|].
    destruct Inv as (Ln & Hi & Hl & U & S0 & P & Bd).
    pose proof (grapheme_end_bound (info b) start S0 ltac:(lia)) as GB.
    set (e := grapheme_end (info b) start) in *.
    assert (Bnd : e < n -> is_cont (gat (info b) e) = false) by (intros A; apply grapheme_end_stop; lia).
    assert (NoC : 0 < start -> is_cont (gat (info b) start) = true -> False).
    { intros A C. destruct Bd as [Z0|[Z1|Z2]]; [lia|lia|congruence]. }
    destruct (merge_clusters b start e) as [b1| | |] eqn:E1; cbn [bind] in E; try discriminate.
    apply (IH ups0 n b1 e b'); [|exact E].
    destruct (Z_lt_le_dec (e - start) 2) as [Hsmall|Hbig].
    + unfold merge_clusters in E1. destruct (Z.ltb_spec (e - start) 2); [|lia]. inversion E1; subst b1.
      repeat split; auto; try lia.
      * intros i A B C D. destruct (Z.eq_dec i start) as [->|N]; [exfalso; apply NoC; auto|apply P; auto; lia].
      * destruct (Z_lt_le_dec e n); [right; right; auto|right; left; lia].
    + destruct (merge_adj b start e b1 Hl Hi S0 ltac:(lia) ltac:(lia) E1) as (U1 & L1 & I1 & Lv1 & Adj & Uni).
      assert (Hc : forall i, is_cont (gat (info b1) i) = is_cont (gat (info b) i)) by (intros i; apply is_cont_ups; exact U1).
      repeat split; try congruence; try lia.
      * intros i A B C D. rewrite Hc in D.
        destruct (Z_lt_le_dec i start) as [Lt|Ge]; [apply Adj; try lia; apply P; auto; lia|].
        destruct (Z.eq_dec i start) as [->|N]; [exfalso; apply NoC; auto|].
        rewrite (Uni (i - 1)), (Uni i) by lia. reflexivity.
      * destruct (Z_lt_le_dec e n); [right; right; rewrite Hc; auto|right; left; lia].
Qed.

(* formClusters at MonotoneGraphemes, for every buffer (cursor at 0): no glyph's unicode props change and every
   continuation glyph ends in the cluster of the glyph before it *)
Lemma form_clusters_uniform e e' : level (eb e) = 0 -> idx (eb e) = 0 -> sf_nonascii e = true ->
  form_clusters e = Ok e' -> groups_uniform (info (eb e')) = true /\ ups (info (eb e')) = ups (info (eb e)).
Proof.
  intros Hlv Hi Hna. unfold form_clusters. rewrite Hna. cbn [negb]. rewrite Hlv. cbn [Z.eqb].
  destruct (fc_loop _ _ _ _ _) as [b'| | |] eqn:E; cbn [lift bind]; try discriminate.
  intros E'. inversion E'; subst e'. cbn [eb with_eb].
  destruct (fc_loop_uniform (Z.to_nat (zlen (info (eb e)))) (ups (info (eb e))) (zlen (info (eb e))) (eb e) 0 b') as [U G]; [|exact E|split; assumption].
  repeat split; auto; try lia.
Qed.
