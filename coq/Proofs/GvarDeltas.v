(* Lemmas about Model/GvarDeltas.v: decoding of packed deltas / point numbers, the rule for inferred deltas. *)
From Coq Require Import ZArith List Bool Lia.
From TV Require Import Lib.GoNum Lib.Res Model.F32 Model.GvarScalar Model.Outline Model.GvarDeltas.
Import ListNotations.
Open Scope Z_scope.

(* ---- packed deltas ---- *)
Lemma zfirstn_len {A} n (l : list A) : 0 <= n <= zlen l -> zlen (zfirstn n l) = n.
Proof. intros H. unfold zfirstn, zlen in *. rewrite firstn_length. lia. Qed.

Lemma skipn_len_le {A} n (l : list A) : (length (skipn n l) <= length l)%nat.
Proof. rewrite skipn_length. lia. Qed.

(* a successful decoding returns exactly the declared number of deltas; no panic; the fuel (one unit per byte) suffices *)
Lemma delta_runs_spec fuel : forall total data acc, 0 <= total -> (length data < fuel)%nat ->
  match delta_runs fuel total data acc with
  | Ok l => zlen l = total
  | Err _ => True
  | _ => False
  end.
Proof.
  induction fuel as [|k IH]; intros total data acc Ht Hf; [lia|].
  cbn [delta_runs]. destruct (total <=? zlen acc) eqn:E.
  - apply Z.leb_le in E. apply zfirstn_len. lia.
  - destruct data as [|control body]; [exact I|]. cbn [length] in Hf.
    destruct (negb (Z.land control 128 =? 0)).
    + apply IH; [lia | lia].
    + destruct (total <? zlen acc + (Z.land control 63 + 1)); [exact I|].
      destruct (zlen body <? _); [exact I|].
      apply IH; [lia|]. unfold zskipn. pose proof (skipn_len_le (Z.to_nat ((if Z.land control 64 =? 0 then 1 else 2) * (Z.land control 63 + 1))) body). lia.
Qed.

Lemma unpack_deltas_total_lemma data total : 0 <= total ->
  match unpack_deltas data total with
  | Ok l => zlen l = total
  | Err _ => True
  | _ => False
  end.
Proof. intros H. unfold unpack_deltas. apply delta_runs_spec; [exact H | lia]. Qed.

(* ---- packed point numbers ---- *)
Lemma run_points_length n : forall w src last, length (fst (run_points n w src last)) = n.
Proof.
  induction n as [|k IH]; intros w src last; [reflexivity|]. cbn [run_points].
  specialize (IH w (zskipn w src) (wrap16 ((if w =? 2 then get16 src else znth 0 src 0) + last))).
  destruct (run_points k w (zskipn w src) _) as [r l]. cbn [fst length] in *. lia.
Qed.

(* no panic, the fuel suffices, and the list holds at least the declared count and less than one run (128) more *)
Lemma point_runs_spec fuel : forall count data last acc, (length data < fuel)%nat -> zlen acc < count + 128 ->
  match point_runs fuel count data last acc with
  | Ok (l, _) => count <= zlen l < count + 128
  | Err _ => True
  | _ => False
  end.
Proof.
  induction fuel as [|k IH]; intros count data last acc Hf Ha.
  - lia.
  - cbn [point_runs]. destruct (count <=? zlen acc) eqn:E.
    + apply Z.leb_le in E. lia.
    + apply Z.leb_gt in E. destruct data as [|control body]; [exact I|]. cbn [length] in Hf.
      set (w := if Z.land control 128 =? 0 then 1 else 2). set (n := Z.land control 127 + 1).
      destruct (zlen body <? w * n); [exact I|].
      pose proof (run_points_length (Z.to_nat n) w body last) as RL.
      destruct (run_points (Z.to_nat n) w body last) as [vals last'] eqn:RP. cbn [fst] in RL.
      apply IH.
      * unfold zskipn. pose proof (skipn_len_le (Z.to_nat (w * n)) body). lia.
      * unfold zlen. rewrite app_length, RL.
        assert (0 <= Z.land control 127 <= 127).
        { change 127 with (Z.ones 7). rewrite Z.land_ones by lia. pose proof (Z.mod_pos_bound control (2 ^ 7) ltac:(lia)).
          change (2 ^ 7) with 128 in *. cbn. lia. }
        unfold zlen in E. unfold n. lia.
Qed.

Lemma packed_count_nonneg data c rest : bytes_ok data -> packed_count data = Ok (c, rest) -> 0 <= c.
Proof.
  intros Hb H. unfold packed_count in H. destruct data as [|b0 r]; [discriminate|].
  inversion Hb as [|? ? H0 Hr]; subst. unfold byte_ok in H0.
  destruct (b0 =? 0); [inversion H; lia|]. destruct (Z.land b0 128 =? 0); [inversion H; lia|].
  destruct r as [|b1 r2]; [discriminate|]. inversion Hr as [|? ? H1 _]; subst. unfold byte_ok in H1. inversion H; subst.
  assert (0 <= Z.land b0 127) by (apply Z.land_nonneg; right; lia). lia.
Qed.

(* parsePointNumbers on arbitrary bytes: an error, "all points", or a list holding the declared count plus less than
   one run; never a panic, never out of fuel *)
Lemma parse_point_numbers_total_lemma data : bytes_ok data ->
  match parse_point_numbers data with
  | Ok (None, _) => True
  | Ok (Some l, _) => exists count, 0 <= count /\ count <= zlen l < count + 128
  | Err _ => True
  | _ => False
  end.
Proof.
  intros Hb. unfold parse_point_numbers. destruct (packed_count data) as [[count rest]|e|e|] eqn:PC; cbn [bind]; try exact I.
  - pose proof (packed_count_nonneg data count rest Hb PC) as Hc.
    destruct (count =? 0); [exact I|].
    pose proof (point_runs_spec (S (length rest)) count rest 0 [] ltac:(lia) ltac:(cbn; lia)) as PR.
    destruct (point_runs (S (length rest)) count rest 0 []) as [[l d]|e|e|]; cbn [bind fst snd]; try exact I; try contradiction.
    exists count. split; [exact Hc | exact PR].
  - unfold packed_count in PC. destruct data as [|b0 r]; [discriminate|].
    destruct (b0 =? 0); [discriminate|]. destruct (Z.land b0 128 =? 0); [discriminate|]. destruct r; discriminate.
  - unfold packed_count in PC. destruct data as [|b0 r]; [discriminate|].
    destruct (b0 =? 0); [discriminate|]. destruct (Z.land b0 128 =? 0); [discriminate|]. destruct r; discriminate.
Qed.

(* ---- the rule for inferred deltas ---- *)
Lemma infer_same_neighbours t p pd nd : infer_delta t p p pd nd = if pd =? nd then pd else 0.
Proof. unfold infer_delta. rewrite Z.eqb_refl. reflexivity. Qed.

Lemma infer_below t p n pd nd : p <> n -> t <= Z.min p n -> infer_delta t p n pd nd = if p <? n then pd else nd.
Proof.
  intros Hne Ht. unfold infer_delta. replace (p =? n) with false by (symmetry; apply Z.eqb_neq; exact Hne).
  replace (t <=? Z.min p n) with true by (symmetry; apply Z.leb_le; exact Ht). reflexivity.
Qed.

Lemma infer_above t p n pd nd : p <> n -> Z.min p n < t -> Z.max p n <= t -> infer_delta t p n pd nd = if n <? p then pd else nd.
Proof.
  intros Hne H1 H2. unfold infer_delta. replace (p =? n) with false by (symmetry; apply Z.eqb_neq; exact Hne).
  replace (t <=? Z.min p n) with false by (symmetry; apply Z.leb_gt; exact H1).
  replace (Z.max p n <=? t) with true by (symmetry; apply Z.leb_le; exact H2). reflexivity.
Qed.

(* ---- iup_spec: a touched point keeps its delta ---- *)
Lemma map_combine_touched (F : nat * dslot -> dslot) :
  (forall k d, d_exp d = true -> F (k, d) = d) ->
  forall (l : list dslot) (ks : list nat), length ks = length l ->
  Forall2 (fun d' d => d_exp d = true -> d' = d) (map F (combine ks l)) l.
Proof.
  intros HF. induction l as [|d r IH]; intros [|k ks'] Hl; cbn in *; try constructor; try discriminate.
  - intros H. apply HF. exact H.
  - apply IH. lia.
Qed.

Lemma iup_contour_touched o c : Forall2 (fun d' d => d_exp d = true -> d' = d) (iup_contour o c) c.
Proof.
  unfold iup_contour, indexed. apply map_combine_touched.
  - intros k d H. rewrite H. reflexivity.
  - apply seq_length.
Qed.

(* ---- a glyph whose tuples all have scalar 0 (e.g. at the default position) is unchanged ---- *)
Lemma apply_tuples_zero orig ends coords shared ts : forall pts,
  Forall (fun ht => tuple_scalar coords shared (fst ht) = 0) ts -> apply_tuples orig ends coords shared ts pts = Ok pts.
Proof.
  induction ts as [|[h td] r IH]; intros pts H; [reflexivity|].
  inversion H as [|? ? H1 H2]; subst. cbn [apply_tuples]. cbn [fst] in H1. rewrite H1. cbn. apply IH. exact H2.
Qed.
