(* The legacy kerning as a window-local rule (C18): the uniform kern pass meets the contract of Spec/LocalEngine.v on
   sorted buffers; the pass that follows the code (cursor jumping to the second glyph of a pair) computes the same
   when no skippable glyph is the left glyph of a non-zero pair. *)
From TV Require Import Model.KernMachine Spec.LocalEngine Proofs.LocalEngine Proofs.EngineItem.

Lemma refines_trans a b c : refines a b -> refines b c -> refines a c.
Proof.
  intros H. revert c. induction H as [|x y a b [E F] _ IH]; intros c H2; inversion H2 as [|y' z b' c' [E' F'] H3]; subst; constructor.
  - split; [congruence|auto].
  - apply IH. exact H3.
Qed.

(* a rewritten (same clusters, flags kept) and flagged window inside a sequence *)
Lemma window_refines a w w0 b : refines w w0 -> refines (a ++ w ++ b) (a ++ flag_window w0 ++ b).
Proof.
  intros R. apply refines_app; [apply refines_refl|]. apply refines_app; [|apply refines_refl].
  eapply refines_trans; [exact R|apply flag_window_refines].
Qed.

Lemma with_p_same x p : icl (with_p x p) = icl x /\ (iutb x = true -> iutb (with_p x p) = true).
Proof. split; [reflexivity|auto]. Qed.

Lemma kern_left_same P kv x : icl (kern_left P kv x) = icl x /\ (iutb x = true -> iutb (kern_left P kv x) = true).
Proof. unfold kern_left. apply with_p_same. Qed.
Lemma kern_right_same P kv x : icl (kern_right P kv x) = icl x /\ (iutb x = true -> iutb (kern_right P kv x) = true).
Proof. unfold kern_right. apply with_p_same. Qed.

(* the unflagged window of a pair *)
Definition kwin (P : kparams) (kv : Z) (x : item) (rest : list item) (k : nat) : list item :=
  kern_left P kv x :: firstn k rest ++ [kern_right P kv (nth k rest i0)].

Lemma kwin_refines P kv x rest k : refines (x :: firstn k rest ++ [nth k rest i0]) (kwin P kv x rest k).
Proof.
  unfold kwin. constructor; [destruct (kern_left_same P kv x) as [E F]; split; [symmetry; exact E|exact F]|].
  apply refines_app; [apply refines_refl|]. constructor; [|constructor].
  destruct (kern_right_same P kv (nth k rest i0)) as [E F]. split; [symmetry; exact E|exact F].
Qed.

Lemma kern_find_some P x rest k kv : kern_find P x rest = Some (k, kv) ->
  has_mask (kp_mask P) x = true /\ snext (kmatch P) rest = Some k /\ kv = kern_pair P (igid x) (igid (nth k rest i0)).
Proof.
  unfold kern_find. destruct (has_mask (kp_mask P) x); cbn; [|discriminate].
  destruct (snext (kmatch P) rest) as [k'|]; [|discriminate]. intros H. injection H as <- <-. auto.
Qed.

(* the step of the pass *)
Definition kstep (P : kparams) (d t : list item) : list item * list item :=
  let '(d', t', _) := kern_step_u P d t in (d', t').

Lemma kern_pass_step P L R d t : pstep (kern_pass P) L R d t = kstep P d t.
Proof. reflexivity. Qed.

Lemma hd_tl_window (w : list item) : w <> [] -> [hd i0 w] ++ tl w = w.
Proof. destruct w; [contradiction|reflexivity]. Qed.

Lemma kwindow_ne P kv x rest k : kern_window P kv x rest k <> [].
Proof.
  unfold kern_window. intros H. apply (f_equal (@length item)) in H. unfold flag_window in H. rewrite flag_window_length in H. cbn in H. lia.
Qed.

(* the two shapes of a step: advance by one without change, or rewrite and flag the window of a pair *)
Lemma kstep_cases P d x rest :
  (kstep P d (x :: rest) = (d ++ [x], rest)
   /\ (kern_find P x rest = None \/ exists k, kern_find P x rest = Some (k, 0)))
  \/ (exists k kv, kern_find P x rest = Some (k, kv) /\ kv <> 0 /\ (k < length rest)%nat
      /\ kstep P d (x :: rest) = (d ++ [hd i0 (kern_window P kv x rest k)], tl (kern_window P kv x rest k) ++ skipn (S k) rest)).
Proof.
  unfold kstep, kern_step_u. destruct (kern_find P x rest) as [[k kv]|] eqn:E; [|left; auto].
  destruct (Z.eqb_spec kv 0) as [->|N]; [left; split; [reflexivity|right; exists k; reflexivity]|].
  right. exists k, kv. repeat split; auto.
  apply kern_find_some in E. destruct E as (_ & E & _). apply snext_some in E. tauto.
Qed.

(* the sequence after a firing step *)
Lemma kstep_fire_seq P d x rest k kv : (k < length rest)%nat ->
  (d ++ [hd i0 (kern_window P kv x rest k)]) ++ tl (kern_window P kv x rest k) ++ skipn (S k) rest
  = d ++ flag_window (kwin P kv x rest k) ++ skipn (S k) rest.
Proof.
  intros _. rewrite <- app_assoc. f_equal. rewrite app_assoc. f_equal. apply hd_tl_window. apply kwindow_ne.
Qed.

Lemma kstep_refines P d x rest : refines (d ++ x :: rest) (fst (kstep P d (x :: rest)) ++ snd (kstep P d (x :: rest))).
Proof.
  destruct (kstep_cases P d x rest) as [[E _]|(k & kv & F & N & Lk & E)]; rewrite E; cbn [fst snd].
  - rewrite <- app_assoc. apply refines_refl.
  - rewrite kstep_fire_seq by exact Lk.
    rewrite (split_nth rest k Lk) at 1.
    change (d ++ x :: firstn k rest ++ nth k rest i0 :: skipn (S k) rest)
      with (d ++ (x :: firstn k rest ++ nth k rest i0 :: skipn (S k) rest)).
    replace (x :: firstn k rest ++ nth k rest i0 :: skipn (S k) rest)
      with ((x :: firstn k rest ++ [nth k rest i0]) ++ skipn (S k) rest) by (cbn; rewrite <- app_assoc; reflexivity).
    apply window_refines. apply kwin_refines.
Qed.

Lemma kstep_progress P d t : t <> [] -> (length (snd (kstep P d t)) < length t)%nat.
Proof.
  destruct t as [|x rest]; [contradiction|]. intros _.
  destruct (kstep_cases P d x rest) as [[E _]|(k & kv & F & N & Lk & E)]; rewrite E; cbn [fst snd length]; [lia|].
  rewrite app_length, skipn_length.
  assert (length (tl (kern_window P kv x rest k)) = S k).
  { assert (W : length (kern_window P kv x rest k) = S (S k)).
    { unfold kern_window, flag_window. rewrite flag_window_length. cbn [length]. rewrite app_length, firstn_length. cbn [length]. lia. }
    destruct (kern_window P kv x rest k); cbn [length tl] in *; lia. }
  lia.
Qed.

(* ---- the contract ---- *)
Notation cutvL := (cutv icl sideL).

Lemma cutvL_spec c l r : cutvL c l r = true <-> (forall x, In x l -> icl x < c) /\ (forall y, In y r -> c <= icl y).
Proof.
  rewrite (cutv_spec icl sideL). unfold sideL. split; intros [H1 H2]; split; intros x Hx.
  - specialize (H1 x Hx). apply Z.leb_gt in H1. exact H1.
  - specialize (H2 x Hx). apply Z.leb_le in H2. exact H2.
  - apply Z.leb_gt. auto.
  - apply Z.leb_le. auto.
Qed.

Theorem kern_step_ok P : step_ok icl iutb sideL sorted (kern_pass P).
Proof.
  constructor.
  - (* progress *) intros L R d t Hne. rewrite kern_pass_step. apply kstep_progress. exact Hne.
  - (* invariant *) intros L R d t Hne HI. rewrite kern_pass_step. destruct t as [|x rest]; [contradiction|].
    eapply sorted_same; [|exact HI]. symmetry. apply refines_icls. apply kstep_refines.
  - (* clusters *) intros L R d t y Hne HI Hy. rewrite kern_pass_step in Hy. destruct t as [|x rest]; [contradiction|].
    apply (refines_cls _ _ (kstep_refines P d x rest) y Hy).
  - (* persistence *) intros L R d t c Hne HI F. rewrite kern_pass_step. destruct t as [|x rest]; [contradiction|].
    apply (refines_fog c _ _ (kstep_refines P d x rest) F).
  - (* cut ahead *) intros L R R' d t1 t2 c Hne HI HI1 HC _. cbv zeta. rewrite !kern_pass_step.
    destruct t1 as [|x r1]; [contradiction|]. cbn [app].
    apply cutvL_spec in HC. destruct HC as [C1 C2].
    destruct (kstep_cases P d x (r1 ++ t2)) as [[E Hf]|(k & kv & F & N & Lk & E)].
    + (* the whole run advances: so does the piece *)
      right. rewrite E. cbn [fst snd].
      destruct (kstep_cases P d x r1) as [[E1 _]|(k1 & kv1 & F1 & N1 & Lk1 & _)]; [rewrite E1; reflexivity|exfalso].
      apply kern_find_some in F1. destruct F1 as (M1 & S1 & V1).
      pose proof (snext_app_some _ r1 t2 k1 S1) as S2.
      assert (F2 : kern_find P x (r1 ++ t2) = Some (k1, kv1)).
      { unfold kern_find. rewrite M1, S2. cbn. rewrite app_nth1 by exact Lk1. rewrite <- V1. reflexivity. }
      destruct Hf as [Hf|(k0 & Hf)]; rewrite Hf in F2; [discriminate|]. injection F2 as _ <-. contradiction.
    + pose proof F as F'. apply kern_find_some in F'. destruct F' as (M & Sx & V).
      destruct (snext_app_inv _ r1 t2 k Sx) as [[Lk1 S1]|[Lk1 S1]].
      * (* the pair lies before the cut: same step on the piece *)
        right. rewrite E.
        assert (F1 : kern_find P x r1 = Some (k, kv)).
        { unfold kern_find. rewrite M, S1. cbn. rewrite V, app_nth1 by exact Lk1. reflexivity. }
        assert (E1 : kstep P d (x :: r1) = (d ++ [hd i0 (kern_window P kv x r1 k)], tl (kern_window P kv x r1 k) ++ skipn (S k) r1)).
        { unfold kstep, kern_step_u. rewrite F1. destruct (Z.eqb_spec kv 0); [contradiction|reflexivity]. }
        rewrite E1. cbn [fst snd].
        assert (W : kern_window P kv x (r1 ++ t2) k = kern_window P kv x r1 k).
        { unfold kern_window. rewrite firstn_app, app_nth1 by exact Lk1.
          replace (k - length r1)%nat with O by lia. cbn [firstn]. rewrite app_nil_r. reflexivity. }
        rewrite W. f_equal. rewrite <- app_assoc. f_equal.
        rewrite skipn_app. f_equal. replace (S k - length r1)%nat with O by lia. reflexivity.
      * (* the pair straddles the cut: its window is flagged *)
        left. rewrite E. cbn [fst snd]. rewrite kstep_fire_seq by exact Lk.
        apply fog_flag_window.
        -- (* sortedness of the rewritten sequence *)
           eapply sorted_same; [|exact HI]. symmetry.
           transitivity (icls (d ++ (x :: firstn k (r1 ++ t2) ++ [nth k (r1 ++ t2) i0]) ++ skipn (S k) (r1 ++ t2))).
           ++ apply refines_icls. apply refines_app; [apply refines_refl|]. apply refines_app; [apply kwin_refines|apply refines_refl].
           ++ f_equal. f_equal. cbn [app]. f_equal. rewrite <- app_assoc. cbn [app]. symmetry. apply (split_nth (r1 ++ t2) k Lk).
        -- intros y Hy. apply C1. apply in_or_app. left. exact Hy.
        -- intros y Hy. apply C2.
           assert (Hy' : In y (skipn (S k - length r1) t2)).
           { rewrite skipn_app in Hy. rewrite skipn_all2 in Hy by lia. exact Hy. }
           eapply in_skipn. exact Hy'.
        -- exists (kern_left P kv x). split; [left; reflexivity|].
           destruct (kern_left_same P kv x) as [-> _]. apply C1. apply in_or_app. right. left. reflexivity.
        -- exists (kern_right P kv (nth k (r1 ++ t2) i0)). split; [right; apply in_or_app; right; left; reflexivity|].
           destruct (kern_right_same P kv (nth k (r1 ++ t2) i0)) as [-> _]. apply C2.
           rewrite app_nth2 by lia. apply nth_In. rewrite app_length in Lk. lia.
  - (* cut behind: kerning never looks back *)
    intros L L' R d1 d2 t c Hne HI HI2 HC _. cbv zeta. rewrite !kern_pass_step. right.
    destruct t as [|x rest]; [contradiction|].
    destruct (kstep_cases P (d1 ++ d2) x rest) as [[E Hf]|(k & kv & F & N & Lk & E)]; rewrite E.
    + destruct (kstep_cases P d2 x rest) as [[E2 _]|(k2 & kv2 & F2 & N2 & _ & _)].
      * rewrite E2. cbn [fst snd]. rewrite app_assoc. reflexivity.
      * exfalso. destruct Hf as [Hf|(k0 & Hf)]; rewrite Hf in F2; [discriminate|]. injection F2 as _ <-. contradiction.
    + assert (E2 : kstep P d2 (x :: rest) = (d2 ++ [hd i0 (kern_window P kv x rest k)], tl (kern_window P kv x rest k) ++ skipn (S k) rest)).
      { unfold kstep, kern_step_u. rewrite F. destruct (Z.eqb_spec kv 0); [contradiction|reflexivity]. }
      rewrite E2. cbn [fst snd]. rewrite app_assoc. reflexivity.
Qed.

(* ---- the pass that follows the code computes what the uniform pass computes ---- *)

(* no pair has z on its left when z is a glyph the kern iterator skips *)
Definition lok (P : kparams) (z : item) : Prop := kmatch P z = MSkip -> forall g, kern_pair P (igid z) g = 0.
(* executable form, over the glyphs of a buffer *)
Definition left_okb (P : kparams) (l : list item) : bool :=
  forallb (fun z => match kmatch P z with
                    | MSkip => forallb (fun e => negb (fst (fst e) =? igid z) || (snd e =? 0)) (kp_pairs P)
                    | _ => true
                    end) l.

Lemma left_okb_lok P l : left_okb P l = true -> Forall (lok P) l.
Proof.
  unfold left_okb. rewrite forallb_forall. intros H. apply Forall_forall. intros z Hz Hs g.
  specialize (H z Hz). rewrite Hs in H. rewrite forallb_forall in H.
  unfold kern_pair. destruct (find _ (kp_pairs P)) as [e|] eqn:E; [|reflexivity].
  apply find_some in E. destruct E as [He E]. apply andb_true_iff in E. destruct E as [E1 _].
  specialize (H e He). rewrite E1 in H. cbn in H. apply Z.eqb_eq. exact H.
Qed.

Section KFuel.
Variable step : list item -> list item -> list item * list item * bool.
Hypothesis Hprog : forall d t, t <> [] -> (length (snd (fst (step d t))) < length t)%nat.

Lemma kloop_nil f d rec : kern_loop step f d [] rec = (d, rec).
Proof. destruct f; cbn; [rewrite app_nil_r|]; reflexivity. Qed.

Lemma kloop_fuel2 : forall f1 f2 d t rec, (length t <= f1)%nat -> (length t <= f2)%nat ->
  kern_loop step f1 d t rec = kern_loop step f2 d t rec.
Proof.
  induction f1 as [|f1 IH]; intros f2 d t rec H1 H2.
  - destruct t; [|cbn in H1; lia]. rewrite !kloop_nil. reflexivity.
  - destruct t as [|x t]; [rewrite !kloop_nil; reflexivity|].
    destruct f2 as [|f2]; [cbn in H2; lia|]. cbn [kern_loop].
    pose proof (Hprog d (x :: t) ltac:(discriminate)) as Hp.
    destruct (step d (x :: t)) as [[d' t'] r]. cbn [fst snd] in Hp. apply IH; cbn [length] in *; lia.
Qed.
End KFuel.

Lemma kstep_u_prog P d t : t <> [] -> (length (snd (fst (kern_step_u P d t))) < length t)%nat.
Proof.
  intros H. pose proof (kstep_progress P d t H) as Hp. unfold kstep in Hp.
  destruct (kern_step_u P d t) as [[d' t'] r]. exact Hp.
Qed.

Lemma kwindow_length P kv x rest k : (k < length rest)%nat -> length (kern_window P kv x rest k) = S (S k).
Proof.
  intros Lk. unfold kern_window, flag_window. rewrite flag_window_length. cbn [length]. rewrite app_length, firstn_length. cbn [length]. lia.
Qed.

Lemma kstep_f_prog P d t : t <> [] -> (length (snd (fst (kern_step_f P d t))) < length t)%nat.
Proof.
  destruct t as [|x rest]; [contradiction|]. intros _. unfold kern_step_f.
  destruct (kern_find P x rest) as [[k kv]|] eqn:E; [|cbn; lia].
  pose proof E as E'. apply kern_find_some in E'. destruct E' as (_ & Sx & _). apply snext_some in Sx. destruct Sx as (Lk & _ & _).
  destruct (kv =? 0); cbn [fst snd length]; [rewrite skipn_length; lia|].
  rewrite app_length, skipn_length. cbn [length]. lia.
Qed.

(* the map a window flagging applies *)
Definition wflag (c : Z) (x : item) : item := if icl x =? c then x else flag_item m_break x.

Lemma wflag_kmatch P c z : kmatch P (wflag c z) = kmatch P z.
Proof. unfold wflag. destruct (icl z =? c); reflexivity. Qed.
Lemma wflag_igid c z : igid (wflag c z) = igid z.
Proof. unfold wflag. destruct (icl z =? c); reflexivity. Qed.

Lemma kern_window_shape P kv x rest k : exists c,
  kern_window P kv x rest k
  = wflag c (kern_left P kv x) :: map (wflag c) (firstn k rest) ++ [wflag c (kern_right P kv (nth k rest i0))].
Proof.
  unfold kern_window, flag_window, flag_window_m.
  destruct (firstn k rest) as [|z l]; cbn [app].
  - eexists. cbn [map]. reflexivity.
  - eexists. cbn [map]. rewrite map_app. reflexivity.
Qed.

Lemma lok_wflag P c z : lok P z -> lok P (wflag c z).
Proof. unfold lok. rewrite wflag_kmatch, wflag_igid. auto. Qed.
Lemma lok_right P kv z : lok P z -> lok P (kern_right P kv z).
Proof. unfold lok. auto. Qed.

(* the uniform pass walks over skipped glyphs without touching them *)
Lemma kloop_u_skip P : forall sk f d t' rec,
  Forall (fun z => kmatch P z = MSkip /\ lok P z) sk -> (length (sk ++ t') <= f)%nat ->
  kern_loop (kern_step_u P) f d (sk ++ t') rec = kern_loop (kern_step_u P) (f - length sk) (d ++ sk) t' rec.
Proof.
  induction sk as [|z sk IH]; intros f d t' rec Hs Hf.
  - cbn. rewrite app_nil_r, Nat.sub_0_r. reflexivity.
  - inversion Hs as [|? ? [Hz Lz] Hs']; subst. destruct f as [|f]; [cbn in Hf; lia|].
    cbn [app kern_loop].
    assert (E : kern_step_u P d (z :: sk ++ t') = (d ++ [z], sk ++ t', false)).
    { unfold kern_step_u. destruct (kern_find P z (sk ++ t')) as [[k kv]|] eqn:E; [|reflexivity].
      apply kern_find_some in E. destruct E as (_ & _ & V). rewrite (Lz Hz) in V. subst kv. reflexivity. }
    rewrite E. rewrite orb_false_r. rewrite IH; [|exact Hs'|cbn in Hf; lia].
    cbn [length]. rewrite <- app_assoc. reflexivity.
Qed.

Theorem kern_f_eq_u P : forall n d t rec f, (length t <= n)%nat -> (length t <= f)%nat -> Forall (lok P) t ->
  kern_loop (kern_step_f P) f d t rec = kern_loop (kern_step_u P) f d t rec.
Proof.
  induction n as [|n IH]; intros d t rec f Hn Hf HL.
  - destruct t; [|cbn in Hn; lia]. rewrite !kloop_nil. reflexivity.
  - destruct t as [|x rest]; [rewrite !kloop_nil; reflexivity|].
    destruct f as [|f]; [cbn in Hf; lia|]. cbn [length] in *.
    inversion HL as [|? ? Lx Lr]; subst.
    cbn [kern_loop].
    destruct (kern_find P x rest) as [[k kv]|] eqn:E.
    2:{ assert (EF : kern_step_f P d (x :: rest) = (d ++ [x], rest, false)) by (unfold kern_step_f; rewrite E; reflexivity).
        assert (EU : kern_step_u P d (x :: rest) = (d ++ [x], rest, false)) by (unfold kern_step_u; rewrite E; reflexivity).
        rewrite EF, EU. apply IH; [lia|lia|exact Lr]. }
    pose proof E as E'. apply kern_find_some in E'. destruct E' as (_ & Sx & _). apply snext_some in Sx.
    destruct Sx as (Lk & _ & Sk).
    assert (Lsk : Forall (lok P) (firstn k rest)).
    { apply Forall_forall. intros z Hz. rewrite Forall_forall in Lr. apply Lr. eapply in_firstn. exact Hz. }
    assert (Lrest : Forall (lok P) (skipn k rest)).
    { apply Forall_forall. intros z Hz. rewrite Forall_forall in Lr. apply Lr. eapply in_skipn. exact Hz. }
    destruct (Z.eqb_spec kv 0) as [->|N].
    + (* zero pair: the code jumps over the skipped glyphs *)
      assert (EF : kern_step_f P d (x :: rest) = (d ++ x :: firstn k rest, skipn k rest, false)) by (unfold kern_step_f; rewrite E; reflexivity).
      assert (EU : kern_step_u P d (x :: rest) = (d ++ [x], rest, false)) by (unfold kern_step_u; rewrite E; reflexivity).
      rewrite EF, EU.
      rewrite orb_false_r.
      rewrite IH; [|rewrite skipn_length; lia|rewrite skipn_length; lia|exact Lrest].
      rewrite <- (firstn_skipn k rest) at 3.
      rewrite kloop_u_skip.
      * rewrite firstn_length, Nat.min_l by lia.
        replace (d ++ x :: firstn k rest) with ((d ++ [x]) ++ firstn k rest) by (rewrite <- app_assoc; reflexivity).
        apply kloop_fuel2; [apply kstep_u_prog|rewrite skipn_length; lia|rewrite skipn_length; lia].
      * apply Forall_forall. intros z Hz. split; [rewrite Forall_forall in Sk; apply Sk; exact Hz|rewrite Forall_forall in Lsk; apply Lsk; exact Hz].
      * rewrite firstn_skipn. lia.
    + (* non-zero pair *)
      assert (EF : kern_step_f P d (x :: rest) = (d ++ removelast (kern_window P kv x rest k), [last (kern_window P kv x rest k) i0] ++ skipn (S k) rest, true)).
      { unfold kern_step_f. rewrite E. destruct (Z.eqb_spec kv 0); [contradiction|reflexivity]. }
      assert (EU : kern_step_u P d (x :: rest) = (d ++ [hd i0 (kern_window P kv x rest k)], tl (kern_window P kv x rest k) ++ skipn (S k) rest, true)).
      { unfold kern_step_u. rewrite E. destruct (Z.eqb_spec kv 0); [contradiction|reflexivity]. }
      rewrite EF, EU.
      destruct (kern_window_shape P kv x rest k) as (c & W). rewrite W.
      set (a := wflag c (kern_left P kv x)). set (mid := map (wflag c) (firstn k rest)).
      set (b := wflag c (kern_right P kv (nth k rest i0))).
      assert (RL : removelast (a :: mid ++ [b]) = a :: mid).
      { change (a :: mid ++ [b]) with ((a :: mid) ++ [b]). apply removelast_last. }
      assert (LA : last (a :: mid ++ [b]) i0 = b).
      { change (a :: mid ++ [b]) with ((a :: mid) ++ [b]). apply last_last. }
      rewrite RL, LA. cbn [hd tl].
      assert (Lb : Forall (lok P) ([b] ++ skipn (S k) rest)).
      { constructor.
        - apply lok_wflag, lok_right. rewrite Forall_forall in Lr. apply Lr. apply nth_In. exact Lk.
        - apply Forall_forall. intros z Hz. rewrite Forall_forall in Lr. apply Lr. eapply in_skipn. exact Hz. }
      rewrite IH; [|cbn [app length]; rewrite skipn_length; lia|cbn [app length]; rewrite skipn_length; lia|exact Lb].
      rewrite <- app_assoc.
      rewrite (kloop_u_skip P mid f (d ++ [a]) ([b] ++ skipn (S k) rest) (rec || true)).
      * unfold mid at 2. rewrite map_length, firstn_length, Nat.min_l by lia.
        replace (d ++ a :: mid) with ((d ++ [a]) ++ mid) by (rewrite <- app_assoc; reflexivity).
        apply kloop_fuel2; [apply kstep_u_prog|cbn [app length]; rewrite skipn_length; lia|cbn [app length]; rewrite skipn_length; lia].
      * unfold mid. apply Forall_forall. intros z Hz. apply in_map_iff in Hz. destruct Hz as (z0 & <- & Hz0).
        split; [rewrite wflag_kmatch; rewrite Forall_forall in Sk; apply Sk; exact Hz0|].
        apply lok_wflag. rewrite Forall_forall in Lsk. apply Lsk. exact Hz0.
      * unfold mid. rewrite app_length, map_length, firstn_length, Nat.min_l by lia. cbn [app length]. rewrite skipn_length. lia.
Qed.

(* the uniform loop is the generic pass loop *)
Lemma kloop_u_ploop P L R : forall f d t rec, fst (kern_loop (kern_step_u P) f d t rec) = ploop (kern_pass P) f L R d t.
Proof.
  induction f as [|f IH]; intros d t rec; [reflexivity|].
  destruct t as [|x rest]; [reflexivity|]. cbn [kern_loop ploop]. rewrite kern_pass_step. unfold kstep.
  destruct (kern_step_u P d (x :: rest)) as [[d' t'] r]. cbn [fst snd]. apply IH.
Qed.

(* kern() without ProduceUnsafeToConcat is one run of the uniform pass *)
Theorem kern_f_is_pass P L R l rec : Forall (lok P) l -> fst (kern_f P false l rec) = prun (kern_pass P) L R l.
Proof.
  intros HL. unfold kern_f, prun. cbn [andb orb]. rewrite orb_false_r.
  rewrite (kern_f_eq_u P (length l) [] l rec (length l) (le_n _) (le_n _) HL). apply kloop_u_ploop.
Qed.

(* glyphProps survive a step *)
Lemma flag_window_gp w y : In y (flag_window w) -> exists x, In x w /\ gp (ig y) = gp (ig x).
Proof.
  unfold flag_window, flag_window_m. destruct w as [|a [|b r]]; try (intros H; exists y; auto; fail).
  intros H. apply in_map_iff in H. destruct H as (x & <- & Hx). exists x. split; [exact Hx|]. destruct (icl x =? _); reflexivity.
Qed.

Lemma kstep_gp P d x rest y : In y (fst (kstep P d (x :: rest)) ++ snd (kstep P d (x :: rest))) ->
  exists z, In z (d ++ x :: rest) /\ gp (ig y) = gp (ig z).
Proof.
  destruct (kstep_cases P d x rest) as [[E _]|(k & kv & F & N & Lk & E)]; rewrite E; cbn [fst snd].
  - rewrite <- app_assoc. intros H. exists y. auto.
  - rewrite kstep_fire_seq by exact Lk. intros H.
    apply in_app_or in H. destruct H as [H|H]; [exists y; split; [apply in_or_app; left; exact H|reflexivity]|].
    apply in_app_or in H. destruct H as [H|H].
    + apply flag_window_gp in H. destruct H as (z & Hz & Ez). unfold kwin in Hz. destruct Hz as [<-|Hz].
      * exists x. split; [apply in_or_app; right; left; reflexivity|exact Ez].
      * apply in_app_or in Hz. destruct Hz as [Hz|[<-|[]]].
        -- exists z. split; [apply in_or_app; right; right; eapply in_firstn; exact Hz|exact Ez].
        -- exists (nth k rest i0). split; [apply in_or_app; right; right; apply nth_In; exact Lk|exact Ez].
    + exists y. split; [apply in_or_app; right; right; eapply in_skipn; exact H|reflexivity].
Qed.
