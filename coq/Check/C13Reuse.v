(* Case checker for C13, driver c13reuse: history independence of shaping.Segmenter.Split,
   shaping.LineWrapper (WrapParagraph and Prepare/WrapNextLine) and segmenter.Segmenter, and stability of
   earlier results until the documented invalidation point.  These objects are modelled by C06/C07/C02;
   here the results are compared as canonical integer encodings produced by the driver, so only
   kind 2 (oracle) can be reported:
     reused object after a random history  vs  fresh object, same arguments;
     an earlier result deep-copied when it was returned  vs  the same result re-read just before the next call. *)
From TV Require Export Spec.Reuse.

Record case := mkCase {
  c_kind : Z;                 (* 0 shaping.Segmenter, 1 LineWrapper.WrapParagraph, 2 Prepare/WrapNextLine, 3 segmenter.Segmenter *)
  c_reused : list Z;
  c_fresh : list Z;
  c_before : list Z;
  c_after : list Z
}.

Definition prop_ok (c : case) : bool := zlist_eqb (c_reused c) (c_fresh c) && zlist_eqb (c_before c) (c_after c).

Fixpoint check_from (i : nat) (cs : list case) : list (nat * nat) :=
  match cs with
  | [] => []
  | c :: r => (if prop_ok c then [] else [(i, 2%nat)]) ++ check_from (S i) r
  end.
Definition check_all (cs : list case) : list (nat * nat) := check_from 0 cs.
