(* Case checker for C10, variable fonts: coordinate normalisation (fvar/avar), ItemVariationStore evaluation with its
   users (HVAR/VVAR advances, MVAR metrics), gvar point numbers / deltas / application with inferred deltas, and the
   varied outline of simple glyphs.  Every float32 is printed by the driver as its bit pattern and compared exactly.
   kind 1 = correspondence on internal functions reached through hooks (parsePointNumbers, unpackDeltas, inferDelta,
            the gap loop of applyDeltasToPoints against the loop model);
   kind 2 = oracle: a value the library returned differs from the independent decoding of the RAW table bytes
            (normalized coordinates, store deltas, advances, metrics, decoded tuple data, varied points, extents), or
            breaks the rule the decoder is proved to satisfy (range of normalized coordinates, inferred deltas given
            point by point by the OpenType rule [iup_spec]). *)
From TV Require Export Model.VarNorm Model.VarStore Model.GvarDeltas Model.GvarGlyph Model.VMetrics.
Open Scope Z_scope.

Record bpoint := FP { b_x : Z; b_y : Z; b_on : bool; b_end : bool }.
Definition bits_is (b : Z) (v : Z) : bool := match f32_of_bits b with Some x => x =? v | None => false end.
Definition bpoint_is (b : bpoint) (p : cpoint) : bool :=
  bits_is (b_x b) (cp_x p) && bits_is (b_y b) (cp_y p) && Bool.eqb (b_on b) (cp_on p) && Bool.eqb (b_end b) (cp_end p).
Fixpoint all2 {A B} (f : A -> B -> bool) (l : list A) (m : list B) : bool :=
  match l, m with
  | [], [] => true
  | a :: l', b :: m' => f a b && all2 f l' m'
  | _, _ => false
  end.
Fixpoint dec_all (l : list Z) : option (list Z) :=
  match l with
  | [] => Some []
  | b :: r => match f32_of_bits b, dec_all r with Some x, Some t => Some (x :: t) | _, _ => None end
  end.
Definition dec_point (b : bpoint) : option cpoint :=
  match f32_of_bits (b_x b), f32_of_bits (b_y b) with
  | Some x, Some y => Some (mkCP x y (b_on b) (b_end b))
  | _, _ => None
  end.
Fixpoint dec_points (l : list bpoint) : option (list cpoint) :=
  match l with
  | [] => Some []
  | b :: r => match dec_point b, dec_points r with Some p, Some t => Some (p :: t) | _, _ => None end
  end.

(* Face.FontHExtents of a variable face: raw OS/2, hhea, hmtx; ascender, descender, line gap (bits), ok *)
Record hext := HX { hx_os2 : list Z; hx_hhea : list Z; hx_hmtx : list Z; hx_nglyphs : Z; hx_asc : Z; hx_desc : Z; hx_gap : Z; hx_ok : bool }.
(* one glyph: raw glyf record, raw GlyphVariationData, Face.getPointsForGlyph(gid, 0) at the coordinates, GlyphExtents,
   advances from the phantom points (bits; -1 = not observed: the font has HVAR / VVAR), and the tuple data NewFont
   decoded for the glyph (all points, point numbers, deltas) *)
Record gcase := GV { gv_gid : Z; gv_rec : list Z; gv_gvd : list Z; gv_pts : list bpoint; gv_ext : list Z; gv_hadv : Z; gv_vadv : Z;
                     gv_tuples : list (bool * list Z * list Z) }.

Inductive case :=
(* Font.NormalizeVariations on the raw 'fvar' and 'avar' tables; coords = float32 bit patterns *)
| CNorm (fvar avar : list Z) (coords : list Z) (panicked : bool) (out : list Z)
(* fvar.getDesignCoordsDefault: variations (tag, value bits) -> design coordinates (bits) *)
| CDesign (fvar : list Z) (vars : list (Z * Z)) (out : list Z)
(* tables.ParseItemVarStore + ItemVarStore.GetDelta: queries (outer, inner, coords, delta bits) *)
| CDelta (store : list Z) (accepted : bool) (qs : list (Z * Z * list Z * Z))
(* Face.HorizontalAdvance / VerticalAdvance with HVAR / VVAR *)
| CAdv (hvar : list Z) (vertical : bool) (hea mtx : list Z) (nglyphs upem naxes : Z) (coords : list Z) (rs : list (Z * Z))
(* mvar.getVar (tag, bits) and the metrics built on it (fix kind, base value, tag, result bits) *)
| CMvar (mvar : list Z) (naxes : Z) (coords : list Z) (deltas : list (Z * Z)) (metrics : list (Z * Z * Z * Z)) (hx : hext)
| CPoints (data : list Z) (err isnil : bool) (pts : list Z) (rest : Z)
| CDeltas (data : list Z) (count : Z) (err : bool) (out : list Z)
| CInfer (args : list Z) (r : Z)
(* applyDeltasToPoints on given points *)
| CApply (raw : list Z) (axes : Z) (coords : list Z) (shared : list (list Z)) (err : bool) (pts out : list bpoint)
(* simple glyphs of a variable face *)
| CGlyphs (head hhea hmtx vhea vmtx : list Z) (nglyf axes : Z) (coords : list Z) (shared : list (list Z)) (gs : list gcase).

(* ---- normalisation ---- *)
(* the reference shaper's segment map: exact piecewise-linear value, the SUM rounded (halves away from zero) *)
Fixpoint avar_ref_scan (prev : Z * Z) (l : list (Z * Z)) (v : Z) : Z :=
  match l with
  | [] => v
  | p :: r =>
      if v <? fst p then
        let d := fst p - fst prev in
        round_div_away (snd prev * d + (v - fst prev) * (snd p - snd prev)) d
      else avar_ref_scan p r v
  end.
Definition avar_ref (l : list (Z * Z)) (v : Z) : Z := match l with [] => v | p0 :: r => avar_ref_scan p0 r v end.
Fixpoint avar_ref_apply (maps : list (list (Z * Z))) (vs : list Z) : list Z :=
  match maps, vs with
  | m :: tm, v :: tv => avar_ref m v :: avar_ref_apply tm tv
  | _, _ => vs
  end.
Definition in_unit (v : Z) : bool := (-16384 <=? v) && (v <=? 16384).
Definition maps_wf (maps : list (list (Z * Z))) : bool := forallb (fun m => match m with [] => true | _ => wf_map m end) maps.

Definition norm_kinds (fvar avar coords : list Z) (panicked : bool) (out : list Z) : list nat :=
  match dec_all coords with
  | None => [1%nat]
  | Some cs =>
      let axes := parse_fvar fvar in
      let maps := parse_avar avar in
      match normalize axes maps cs with
      | Panic _ => if panicked then [] else [2%nat]
      | Ok r =>
          if panicked || negb (list_Z_eqb r out) then [2%nat]
          else if forallb wf_axisb axes && maps_wf maps then
            match norm_coords axes cs with
            | Ok pre =>
                if negb (forallb in_unit out) then [2%nat]
                else if list_Z_eqb out (avar_ref_apply maps pre) then [] else [2%nat]
            | _ => [2%nat]
            end
          else []
      | _ => []          (* Err 1: float division by zero, implementation-defined result: outside the model *)
      end
  end.

Definition design_kinds (fvar : list Z) (vars : list (Z * Z)) (out : list Z) : list nat :=
  let dv := map (fun tv => match f32_of_bits (snd tv) with Some x => Some (fst tv, x) | None => None end) vars in
  if existsb (fun o => match o with None => true | Some _ => false end) dv then [1%nat] else
  let vs := flat_map (fun o => match o with Some p => [p] | None => [] end) dv in
  if all2 bits_is out (design_coords (parse_fvar fvar) vs) then [] else [2%nat].

(* ---- stores ---- *)
Definition query_ok (s : ivstore) (q : Z * Z * list Z * Z) : bool :=
  let '(o, i, cs, r) := q in bits_is r (get_delta s o i cs).
Definition delta_kinds (store : list Z) (accepted : bool) (qs : list (Z * Z * list Z * Z)) : list nat :=
  match parse_ivs store with
  | None => if accepted then [2%nat] else []
  | Some s => if negb accepted then [2%nat] else if forallb (query_ok s) qs then [] else [2%nat]
  end.

Definition adv_kinds (hvar : list Z) (vertical : bool) (hea mtx : list Z) (nglyphs upem naxes : Z) (coords : list Z)
    (rs : list (Z * Z)) : list nat :=
  match parse_hvar hvar, load_hmtx hea mtx nglyphs with
  | Some h, Ok t =>
      let one (gr : Z * Z) :=
        let base := base_advance upem t vertical (fst gr) in
        bits_is (snd gr) (if vertical then v_advance_var base h (fst gr) coords naxes
                          else h_advance_var base h (fst gr) coords naxes) in
      if forallb one rs then [] else [2%nat]
  | _, _ => [2%nat]
  end.

Definition tag_hasc : Z := 1751216995.
Definition tag_hdsc : Z := 1751413603.
Definition tag_hlgp : Z := 1751934832.
(* Font.getPositionCommon for the three horizontal metrics *)
Definition h_extents_var (m : ivstore * list (Z * Z * Z)) (hx : hext) (coords : list Z) : option (Z * Z * Z) :=
  let d t := mvar_delta m t coords in
  match os2_typo (hx_os2 hx) with
  | Some (a, ds) =>
      Some (metric_var 1 a (d tag_hasc), metric_var 2 ds (d tag_hdsc), metric_var 0 (i16_at 72 (hx_os2 hx)) (d tag_hlgp))
  | None =>
      if hv_loaded (hx_hhea hx) (hx_hmtx hx) (hx_nglyphs hx) then
        Some (metric_var 1 (i16_at 4 (hx_hhea hx)) (d tag_hasc), metric_var 2 (i16_at 6 (hx_hhea hx)) (d tag_hdsc),
              metric_var 0 (i16_at 8 (hx_hhea hx)) (d tag_hlgp))
      else None
  end.
Definition mvar_kinds (mvar : list Z) (naxes : Z) (coords : list Z) (deltas : list (Z * Z)) (metrics : list (Z * Z * Z * Z))
    (hx : hext) : list nat :=
  let m := load_mvar mvar naxes in
  let d_ok := forallb (fun td => bits_is (snd td) (mvar_delta m (fst td) coords)) deltas in
  let m_ok := forallb (fun q => let '(k, base, tag, r) := q in bits_is r (metric_var k base (mvar_delta m tag coords))) metrics in
  let h_ok := match h_extents_var m hx coords with
              | Some (a, ds, g) => hx_ok hx && bits_is (hx_asc hx) a && bits_is (hx_desc hx) ds && bits_is (hx_gap hx) g
              | None => negb (hx_ok hx)
              end in
  if d_ok && m_ok && h_ok then [] else [2%nat].

(* ---- gvar ---- *)
Definition points_kinds (data : list Z) (err isnil : bool) (pts : list Z) (rest : Z) : list nat :=
  match parse_point_numbers data with
  | Ok (None, r) => if negb err && isnil && (zlen r =? rest) then [] else [1%nat]
  | Ok (Some l, r) => if negb err && negb isnil && list_Z_eqb l pts && (zlen r =? rest) then [] else [1%nat]
  | Err _ => if err then [] else [1%nat]
  | _ => [1%nat]
  end.
Definition deltas_kinds (data : list Z) (count : Z) (err : bool) (out : list Z) : list nat :=
  match unpack_deltas data count with
  | Ok l => if negb err && list_Z_eqb l out then [] else [1%nat]
  | Err _ => if err then [] else [1%nat]
  | _ => [1%nat]
  end.
Definition infer_kinds (args : list Z) (r : Z) : list nat :=
  match dec_all args with
  | Some [t; p; n; pd; nd] => if bits_is r (infer_delta t p n pd nd) then [] else [1%nat]
  | _ => [1%nat]
  end.

Definition tuple_is (t : bool * list Z * list Z) (m : tvh * tdata) : bool :=
  let '(alln, pn, ds) := t in
  match td_points (snd m) with
  | None => alln
  | Some l => negb alln && list_Z_eqb l pn
  end && list_Z_eqb ds (td_deltas (snd m)).
(* the application with the inferred deltas given by the rule instead of the loop *)
Definition apply_tuple_spec (orig : list cpoint) (ends : list Z) (td : tdata) (scalar : Z) (pts : list cpoint) : list cpoint :=
  let L := zlen (td_deltas td) in
  let dl1 := explicit_loop (zfirstn (L / 2) (td_deltas td)) (zskipn (L / 2) (td_deltas td)) (td_points td) 0 scalar
                           (repeat dzero (length pts)) in
  map (fun pd => translate_by (fst pd) (snd pd)) (combine pts (iup_spec orig ends 0 dl1)).
Fixpoint apply_tuples_spec (orig : list cpoint) (ends : list Z) (coords : list Z) (shared : list (list Z))
    (ts : list (tvh * tdata)) (pts : list cpoint) : list cpoint :=
  match ts with
  | [] => pts
  | (h, td) :: r =>
      let sc := tuple_scalar coords shared h in
      apply_tuples_spec orig ends coords shared r (if sc =? 0 then pts else apply_tuple_spec orig ends td sc pts)
  end.

Definition apply_kinds (raw : list Z) (axes : Z) (coords : list Z) (shared : list (list Z)) (err : bool)
    (pts out : list bpoint) : list nat :=
  match dec_points pts with
  | None => [1%nat]
  | Some ps =>
      match decode_gvd raw axes (zlen ps) with
      | Ok ts =>
          if err then [2%nat] else
          let k1 := match apply_deltas coords shared ts ps with
                    | Ok q => if all2 bpoint_is out q then [] else [1%nat]
                    | _ => [1%nat]
                    end in
          let q2 := apply_tuples_spec ps (end_indices ps 0) coords shared ts ps in
          k1 ++ (if all2 bpoint_is out q2 then [] else [2%nat])
      | Err _ => if err then [] else [2%nat]
      | _ => [1%nat]
      end
  end.

Definition mk_env (head hhea hmtx vhea vmtx : list Z) (nglyf : Z) (recs : list (Z * list Z)) : option cenv :=
  match head_upem head, load_hmtx hhea hmtx nglyf, load_hmtx vhea vmtx nglyf with
  | Ok u, Ok th, Ok tv => Some (mkEnv nglyf recs th tv u)
  | _, _, _ => None
  end.

Definition glyph_kinds (head hhea hmtx vhea vmtx : list Z) (nglyf axes : Z) (coords : list Z) (shared : list (list Z))
    (g : gcase) : list nat :=
  match mk_env head hhea hmtx vhea vmtx nglyf [(gv_gid g, gv_rec g)] with
  | None => [1%nat]
  | Some e =>
      match glyph_points_var e (gv_gid g) (gv_gvd g) axes coords shared, simple_points e (gv_gid g) with
      | Ok all, Ok sp =>
          let n := (length all - 4)%nat in
          let '(xb, yb, w, h) := extents_from_points_f (firstn n all) in
          let p_ok := all2 bpoint_is (gv_pts g) all in
          let e_ok := all2 bits_is (gv_ext g) [xb; yb; w; h] in
          let h_ok := (gv_hadv g =? -1) || bits_is (gv_hadv g) (advance_from_phantoms all false) in
          let v_ok := (gv_vadv g =? -1) || bits_is (gv_vadv g) (f32_neg (advance_from_phantoms all true)) in
          let t_ok := match gv_gvd g with
                      | [] => match gv_tuples g with [] => true | _ => false end
                      | _ => match decode_gvd (gv_gvd g) axes (zlen sp) with
                             | Ok ts => all2 tuple_is (gv_tuples g) ts
                             | _ => false
                             end
                      end in
          if all_finite all && p_ok && e_ok && h_ok && v_ok && t_ok then [] else [2%nat]
      | _, _ => [1%nat]
      end
  end.

Definition case_kinds (c : case) : list nat :=
  match c with
  | CNorm fvar avar coords p out => norm_kinds fvar avar coords p out
  | CDesign fvar vars out => design_kinds fvar vars out
  | CDelta store acc qs => delta_kinds store acc qs
  | CAdv hvar v hea mtx ng upem na coords rs => adv_kinds hvar v hea mtx ng upem na coords rs
  | CMvar mvar na coords ds ms hx => mvar_kinds mvar na coords ds ms hx
  | CPoints data err isnil pts rest => points_kinds data err isnil pts rest
  | CDeltas data count err out => deltas_kinds data count err out
  | CInfer args r => infer_kinds args r
  | CApply raw axes coords shared err pts out => apply_kinds raw axes coords shared err pts out
  | CGlyphs head hhea hmtx vhea vmtx nglyf axes coords shared gs =>
      let ks := flat_map (glyph_kinds head hhea hmtx vhea vmtx nglyf axes coords shared) gs in
      (if existsb (Nat.eqb 1) ks then [1%nat] else []) ++ (if existsb (Nat.eqb 2) ks then [2%nat] else [])
  end.

Fixpoint check_from (i : nat) (cs : list case) : list (nat * nat) :=
  match cs with
  | [] => []
  | c :: r => map (fun k => (i, k)) (case_kinds c) ++ check_from (S i) r
  end.
Definition check_all (cs : list case) : list (nat * nat) := check_from 0 cs.
