(* Case checker for C16 (codec part): evaluated by vm_compute on what the Go driver c16codec observed.
   kind 1 = the model and the implementation differ (correspondence),
   kind 2 = the implementation's own output violates the specification (oracle). *)
From TV Require Export Model.Index Spec.Index.

Record case := mkCase {
  c_mode : Z;          (* 0: index -> Go serializeTo (payload) -> Go deserializeIndex
                          1: arbitrary payload bytes -> Go deserializeIndex
                          2: file level (real gzip bytes, truncated or corrupted): only Go's result is known *)
  c_index : index;     (* mode 0: the input; modes 1, 2: the index the bytes were derived from *)
  c_payload : list Z;  (* mode 0: payload written by Go; mode 1: the bytes handed to Go; mode 2: [] *)
  c_expect : Z;        (* 0 nothing; 1: the bytes are a strict prefix of the payload of c_index (must be rejected);
                          2: mode 2, truncated file: an accepted result must equal c_index *)
  c_status : Z;        (* Go's deserializeIndex: 0 ok, n > 0 error code, 99 unclassified error, -1 panic *)
  c_dec : index        (* decoded index when c_status = 0 *)
}.

Definition res_status (r : res index) : Z :=
  match r with Ok _ => 0 | Err e => Z.of_nat e | Panic _ => -1 | OutOfFuel => -2 end.
Definition res_index (r : res index) : index := match r with Ok i => i | _ => [] end.

(* correspondence: encoder model on the input, decoder model on the bytes the implementation read *)
Definition corr_ok (c : case) : bool :=
  if c_mode c =? 2 then true else
  let r := deserialize_index (c_payload c) in
  ((negb (c_mode c =? 0)) || list_Z_eqb (serialize_index (c_index c)) (c_payload c))
  && (res_status r =? c_status c)
  && ((negb (c_status c =? 0)) || index_eqb (res_index r) (c_dec c)).

(* oracle: the statement of C16 on what the implementation did *)
Definition prop_ok (c : case) : bool :=
  (* never a panic *)
  (0 <=? c_status c)
  (* an accepted index is well-formed *)
  && ((negb (c_status c =? 0)) || wf_index (c_dec c))
  (* writing then reading an index within the format's limits returns it *)
  && ((negb ((c_mode c =? 0) && wf_index (c_index c))) || ((c_status c =? 0) && index_eqb (c_dec c) (c_index c)))
  (* a strict prefix of a written payload is rejected *)
  && ((negb ((c_expect c =? 1) && wf_index (c_index c))) || (0 <? c_status c))
  (* a truncated file never yields a different index *)
  && ((negb ((c_expect c =? 2) && wf_index (c_index c) && (c_status c =? 0))) || index_eqb (c_dec c) (c_index c)).

Fixpoint check_from (i : nat) (cs : list case) : list (nat * nat) :=
  match cs with
  | [] => []
  | c :: r => (if corr_ok c then [] else [(i, 1%nat)]) ++ (if prop_ok c then [] else [(i, 2%nat)]) ++ check_from (S i) r
  end.
Definition check_all (cs : list case) : list (nat * nat) := check_from 0 cs.
