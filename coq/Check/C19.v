(* Case checker for C19: evaluated by vm_compute on the cases the Go driver observed.
   kind 1 = the model and the implementation differ (correspondence),
   kind 2 = the implementation's own output violates the specification (oracle). *)
From TV Require Export Model.Sfnt Spec.Sfnt.

Record case := mkCase {
  c_tables : list (Z * list Z * list Z);   (* tag, content, spare capacity before the call *)
  c_out : list Z;                          (* bytes returned by WriteTTF *)
  c_after : list (list Z);                 (* backing arrays (content ++ spare) after the call *)
  c_load : Z;                              (* 0 = NewLoader succeeded *)
  c_tags : list Z;                         (* Loader.Tables() *)
  c_raw : list (Z * list Z);               (* per tag of c_tags: RawTable status (0 ok), bytes *)
  c_raw2 : list (Z * list Z)               (* the same through RawTableTo with a buffer reused from table to table *)
}.

Definition in_tables (c : case) : list table := map (fun t => mkTable (fst (fst t)) (snd (fst t))) (c_tables c).
Definition in_pairs (c : case) : list (Z * list Z) := map (fun t => (fst (fst t), snd (fst t))) (c_tables c).
Definition in_backings (c : case) : list (list Z) := map (fun t => snd (fst t) ++ snd t) (c_tables c).

Fixpoint lists_eqb (a b : list (list Z)) : bool :=
  match a, b with
  | [], [] => true
  | x :: a', y :: b' => list_Z_eqb x y && lists_eqb a' b'
  | _, _ => false
  end.

Definition res_obs (r : res (list Z)) : Z * list Z :=
  match r with Ok b => (0, b) | _ => (1, []) end.
Definition raw_eqb (a b : list (Z * list Z)) : bool :=
  (fix go a b := match a, b with
                 | [], [] => true
                 | (s1, x) :: a', (s2, y) :: b' => (s1 =? s2) && list_Z_eqb x y && go a' b'
                 | _, _ => false
                 end) a b.

(* correspondence: writer model on the inputs; reader model on the bytes the implementation wrote *)
Definition corr_ok (c : case) : bool :=
  let '(out, slices) := write_ttf_mem (map (fun t => (fst (fst t), mkSlice (snd (fst t) ++ snd t) (zlen (snd (fst t))))) (c_tables c)) in
  list_Z_eqb out (c_out c)
  && lists_eqb (map s_backing slices) (c_after c)
  && match new_loader (c_out c) with
     | Ok ld => (c_load c =? 0)
                && list_Z_eqb (loader_tables ld) (c_tags c)
                && raw_eqb (map (fun tg => res_obs (raw_table (c_out c) ld tg)) (c_tags c)) (c_raw c)
                && raw_eqb (map (fun tg => res_obs (raw_table (c_out c) ld tg)) (c_tags c)) (c_raw2 c)
     | _ => negb (c_load c =? 0)
     end.

Fixpoint strictly_sorted (l : list Z) : bool :=
  match l with
  | a :: ((b :: _) as r) => (a <? b) && strictly_sorted r
  | _ => true
  end.

(* oracle: the statement of C19 on what the implementation did *)
Definition pre_ok (c : case) : bool := strictly_sorted (map fst (in_pairs c)).
Definition prop_ok (c : case) : bool :=
  negb (pre_ok c) ||
  ( valid_sfnt (c_out c) (in_pairs c)
    && (c_load c =? 0)
    && list_Z_eqb (c_tags c) (map fst (in_pairs c))
    && raw_eqb (c_raw c) (map (fun p => (0, snd p)) (in_pairs c))
    && raw_eqb (c_raw2 c) (map (fun p => (0, snd p)) (in_pairs c))
    && lists_eqb (c_after c) (in_backings c) ).

Fixpoint check_from (i : nat) (cs : list case) : list (nat * nat) :=
  match cs with
  | [] => []
  | c :: r => (if corr_ok c then [] else [(i, 1%nat)]) ++ (if prop_ok c then [] else [(i, 2%nat)]) ++ check_from (S i) r
  end.
Definition check_all (cs : list case) : list (nat * nat) := check_from 0 cs.
