(* Case checker for C10 (decoded metrics and outlines), evaluated by vm_compute on what the Go driver observed.
   kind 1  = correspondence: the model (the independent decoder, fed with the raw table bytes) and the implementation differ;
   kind 2  = oracle: the proved properties (closed contours visiting the contour points with implied midpoints, box encloses
             the outline, hmtx advance rule) evaluated on the implementation's own output are false;
   kind 10 = the only oracle failure is the known int16 reading of an advanceWidth >= 32768 (finding F26). *)
From TV Require Export Model.Outline Spec.Outline.
Open Scope Z_scope.

(* compact segment constructors written by the driver; coordinates in half font units *)
Definition M (x y : Z) : seg := MoveTo (x, y).
Definition L (x y : Z) : seg := LineTo (x, y).
Definition Q (a b x y : Z) : seg := QuadTo (a, b) (x, y).
(* contour point: x y on end *)
Definition P (x y : Z) (on e : bool) : cpoint := mkCP x y on e.

Record gcase := mkG {
  g_gid : Z;
  g_mode : Z;                 (* 0 = g_raw is the whole glyf record (simple or empty glyph); 1 = composite, header bytes only *)
  g_raw : list Z;
  g_has_outline : bool;       (* GlyphData returned a GlyphOutline *)
  g_segs : list seg;          (* its segments *)
  g_has_ext : bool;           (* GlyphExtents ok *)
  g_ext : extents             (* XBearing, YBearing, Width, Height *)
}.

Inductive case :=
| CFont (head maxp hhea hmtx : list Z)       (* raw tables *)
        (upem nglyphs : Z)                   (* Font.Upem(), numGlyphs as the library reports them *)
        (advs : list (Z * Z))                (* gid, Face.HorizontalAdvance(gid) *)
        (glyphs : list gcase)
| CVar (hhea hmtx : list Z) (nglyphs : Z)    (* variable face at the default coordinates: extents come from extentsFromPoints *)
       (glyphs : list gcase)
| CSeg (pts : list cpoint) (segs : list seg)              (* buildSegments on a synthetic point list *)
| CExt (pts : list cpoint) (ext : extents).               (* extentsFromPoints on a synthetic point list *)

Definition seg_eqb (a b : seg) : bool :=
  match a, b with
  | MoveTo p, MoveTo q => pt_eqb p q
  | LineTo p, LineTo q => pt_eqb p q
  | QuadTo c p, QuadTo d q => pt_eqb c d && pt_eqb p q
  | _, _ => false
  end.
Definition segs_eqb (a b : list seg) : bool := all2 seg_eqb a b.
Definition ext_eqb (a b : extents) : bool :=
  let '(a1, a2, a3, a4) := a in let '(b1, b2, b3, b4) := b in (a1 =? b1) && (a2 =? b2) && (a3 =? b3) && (a4 =? b4).

Definition res_is {A} (eqb : A -> A -> bool) (r : res A) (v : A) : bool :=
  match r with Ok x => eqb x v | _ => false end.

(* ---- correspondence ---- *)
Definition glyph_corr (t : hmtx_tab) (points_ext : bool) (g : gcase) : bool :=
  let lsb := side_bearing t (g_gid g) in
  g_has_ext g
  && (if g_mode g =? 0 then
        g_has_outline g
        && res_is segs_eqb (glyph_outline (g_raw g) lsb) (g_segs g)
        && res_is ext_eqb ((if points_ext then glyph_extents_points else glyph_extents) (g_raw g) lsb) (g_ext g)
      else
        negb points_ext && res_is ext_eqb (glyph_extents (g_raw g) lsb) (g_ext g)).

Definition font_corr (head maxp hhea hmtx : list Z) (upem nglyphs : Z) (advs : list (Z * Z)) (glyphs : list gcase) : bool :=
  res_is Z.eqb (head_upem head) upem
  && res_is Z.eqb (maxp_num_glyphs maxp) nglyphs
  && match load_hmtx hhea hmtx nglyphs with
     | Ok t => forallb (fun ga => res_is Z.eqb (horizontal_advance upem t (fst ga)) (snd ga)) advs
               && forallb (glyph_corr t false) glyphs
     | _ => false
     end.

Definition corr_ok (c : case) : bool :=
  match c with
  | CFont head maxp hhea hmtx upem nglyphs advs glyphs => font_corr head maxp hhea hmtx upem nglyphs advs glyphs
  | CVar hhea hmtx nglyphs glyphs =>
      match load_hmtx hhea hmtx nglyphs with
      | Ok t => forallb (glyph_corr t true) glyphs
      | _ => false
      end
  | CSeg pts segs => segs_eqb (build_segments pts) segs
  | CExt pts ext => ext_eqb (extents_from_points pts) ext
  end.

(* ---- oracle: the proved statements on the implementation's output ---- *)
Definition decoded_points (raw : list Z) (lsb : Z) : option (glyph_hdr * list cpoint) :=
  match parse_glyph raw with
  | Ok (h, d) => match glyph_points h d lsb with Ok pts => Some (h, pts) | _ => None end
  | _ => None
  end.

(* contours of the decoded glyph -> closed paths over exactly these points (when every contour is one the rule applies to);
   header states the exact box -> the returned extents enclose every point of the returned outline *)
Definition glyph_prop (lsb_of : Z -> Z) (points_ext : bool) (g : gcase) : bool :=
  if g_mode g =? 0 then
    match decoded_points (g_raw g) (lsb_of (g_gid g)) with
    | Some (h, pts) =>
        (negb (good_points pts) || outline_specb pts (g_segs g))
        && (negb (points_ext || header_exact h (lsb_of (g_gid g)) (map (translate_x (sint16 (h_xmin h - lsb_of (g_gid g)))) pts))
            || box_encloses_segsb (g_ext g) (g_segs g))
    | None => true
    end
  else true.

Definition in_boxb (e : extents) (p : cpoint) : bool :=
  let '(xb, yb, w, h) := e in
  (xb <=? cp_x p) && (cp_x p <=? xb + w) && (yb + h <=? cp_y p) && (cp_y p <=? yb).
Definition box_tightb (e : extents) (pts : list cpoint) : bool :=
  let '(xb, yb, w, h) := e in
  existsb (fun p => cp_x p =? xb) pts && existsb (fun p => cp_x p =? xb + w) pts
  && existsb (fun p => cp_y p =? yb) pts && existsb (fun p => cp_y p =? yb + h) pts.

(* advance rule; [signed] = compare with the int16 reading (what the theorem states of the library),
   otherwise with the uint16 value of the OpenType specification *)
Definition adv_prop (signed : bool) (hhea hmtx : list Z) (nglyphs : Z) (advs : list (Z * Z)) : bool :=
  match hhea_num_long hhea with
  | Ok nl =>
      negb (wf_hmtxb hmtx nl nglyphs)
      || forallb (fun ga => negb ((0 <=? fst ga) && (fst ga <? nglyphs))
                            || (snd ga =? (if signed then advance_spec else advance_spec_u) hmtx nl (fst ga))) advs
  | _ => true
  end.

Definition lsb_of_tables (hhea hmtx : list Z) (nglyphs : Z) : Z -> Z :=
  match hhea_num_long hhea with
  | Ok nl => if wf_hmtxb hmtx nl nglyphs then lsb_spec hmtx nl else (fun _ => 0)
  | _ => fun _ => 0
  end.

Definition prop_kind (c : case) : nat :=
  match c with
  | CFont head maxp hhea hmtx upem nglyphs advs glyphs =>
      if negb (adv_prop true hhea hmtx nglyphs advs
               && forallb (glyph_prop (lsb_of_tables hhea hmtx nglyphs) false) glyphs) then 2%nat
      else if negb (adv_prop false hhea hmtx nglyphs advs) then 10%nat     (* F26: advanceWidth >= 32768 read as negative *)
      else 0%nat
  | CVar hhea hmtx nglyphs glyphs =>
      if forallb (glyph_prop (lsb_of_tables hhea hmtx nglyphs) true) glyphs then 0%nat else 2%nat
  | CSeg pts segs => if negb (good_points pts) || outline_specb pts segs then 0%nat else 2%nat
  | CExt pts ext =>
      if match pts with [] => true | _ => forallb (in_boxb ext) pts && box_tightb ext pts end then 0%nat else 2%nat
  end.

Fixpoint check_from (i : nat) (cs : list case) : list (nat * nat) :=
  match cs with
  | [] => []
  | c :: r => (if corr_ok c then [] else [(i, 1%nat)])
              ++ (match prop_kind c with O => [] | k => [(i, k)] end)
              ++ check_from (S i) r
  end.
Definition check_all (cs : list case) : list (nat * nat) := check_from 0 cs.
