(* Case checker for C13, driver c13shaper (shaping.HarfbuzzShaper: font LRU + plan cache of its Buffer).
   kind 1 = model state differs from the implementation's caches (correspondence),
   kind 2 = a reused shaper's Output differs from a fresh shaper's, or a cached harfbuzz font was not
            built from the face it is filed under, or the cache holds more than its size after an insertion. *)
From TV Require Export Spec.Reuse.

Inductive sop :=
| SShape (face props : Z) (feats : list feature)
| SSize (n : Z)
| SCoords (face : Z) (k0 k1 : Z).     (* SetVariations/SetPpem on a face: its feature-variation indices afterwards *)

(* observation after one operation *)
Record obs := mkObs {
  o_entries : list (Z * Z);                       (* font cache, oldest first: (key face, face of the cached hb font) *)
  o_maplen : Z;
  o_maxsize : Z;
  o_plans : list (Z * list feature * (Z * Z));    (* after a Shape: the plans cached for that face *)
  o_fresh_equal : bool                            (* Output deep-equals the Output of a fresh shaper; earlier Outputs unchanged *)
}.

Record case := mkCase {
  c_font_of : list Z;          (* face id -> font id *)
  c_ops : list sop;
  c_obs : list obs
}.

Definition lru_ops (ops : list sop) : list ShaperCache.op :=
  flat_map (fun o => match o with
                     | SShape f _ _ => [ShaperCache.Shape f]
                     | SSize n => [ShaperCache.SetFontCacheSize n]
                     | SCoords _ _ _ => []
                     end) ops.
Definition plan_ops (ops : list sop) : list (PlanCache.op (Z * Z)) :=
  flat_map (fun o => match o with
                     | SShape f p fs => [PlanCache.ShapeB (Z * Z) f p fs]
                     | SSize _ => []
                     | SCoords f k0 k1 => [PlanCache.SetCoords (Z * Z) f (k0, k1)]
                     end) ops.

Definition entries_eqb : list (Z * Z) -> list (Z * Z) -> bool := list_eqb pair_eqb.
Definition feat_eqb (a b : feature) : bool :=
  (feat_tag a =? feat_tag b) && (feat_value a =? feat_value b) && (feat_start a =? feat_start b) && (feat_end a =? feat_end b).
Definition plandesc_eqb (a b : Z * list feature * (Z * Z)) : bool :=
  (fst (fst a) =? fst (fst b)) && list_eqb feat_eqb (snd (fst a)) (snd (fst b)) && pair_eqb (snd a) (snd b).

(* model instances: a harfbuzz font is identified by the face it was built from (mk = id);
   coordinates are abstracted to their feature-variation indices (varidx = id); plans carry no payload *)
Definition lru_trace (c : case) := ShaperCache.trace Z (fun f => f) (ShaperCache.lru_init Z) (lru_ops (c_ops c)).
Definition plan_trace (c : case) :=
  PlanCache.trace (Z * Z) unit (fun f => nth (Z.to_nat f) (c_font_of c) (-1)) (fun _ k => k) (fun _ _ _ _ => tt)
                  (PlanCache.mkWorld (Z * Z) unit (fun _ => (-1, -1)) []) (plan_ops (c_ops c)).

(* observations of the operations that concern each model *)
Fixpoint obs_lru (ops : list sop) (os : list obs) : list obs :=
  match ops, os with
  | SCoords _ _ _ :: r, _ :: os' => obs_lru r os'
  | _ :: r, o :: os' => o :: obs_lru r os'
  | _, _ => []
  end.
Fixpoint obs_plan (ops : list sop) (os : list obs) : list obs :=
  match ops, os with
  | SSize _ :: r, _ :: os' => obs_plan r os'
  | _ :: r, o :: os' => o :: obs_plan r os'
  | _, _ => []
  end.

Definition corr_ok (c : case) : bool :=
  (zlen (c_ops c) =? zlen (c_obs c))
  && list_eqb (fun (l : ShaperCache.lru Z) (o : obs) =>
                 entries_eqb (ShaperCache.entries Z l) (o_entries o) && (ShaperCache.max_size Z l =? o_maxsize o)
                 && (zlen (ShaperCache.entries Z l) =? o_maplen o))
              (lru_trace c) (obs_lru (c_ops c) (c_obs c))
  && list_eqb (fun (ps : list (PlanCache.planrec unit)) (o : obs) =>
                 list_eqb plandesc_eqb
                   (map (fun p => (PlanCache.p_props unit p, PlanCache.p_feats unit p, PlanCache.p_key unit p)) ps)
                   (o_plans o))
              (plan_trace c) (obs_plan (c_ops c) (c_obs c)).

Fixpoint nodup_z (l : list Z) : bool :=
  match l with
  | [] => true
  | a :: r => negb (existsb (Z.eqb a) r) && nodup_z r
  end.

(* the specification evaluated on the observations alone *)
Fixpoint prop_from (prev : list (Z * Z)) (ops : list sop) (os : list obs) : bool :=
  match ops, os with
  | o :: r, ob :: os' =>
      o_fresh_equal ob
      && forallb (fun e => fst e =? snd e) (o_entries ob)
      && nodup_z (map fst (o_entries ob))
      && (o_maplen ob =? zlen (o_entries ob))
      && (match o with
          | SShape f _ _ =>
              (* the face used is cached afterwards unless nothing may be kept *)
              (if existsb (fun e => fst e =? f) prev then true            (* hit: no insertion *)
               else o_maplen ob <=? Z.max 0 (o_maxsize ob))
          | _ => true
          end)
      && prop_from (o_entries ob) r os'
  | [], [] => true
  | _, _ => false
  end.
Definition prop_ok (c : case) : bool := prop_from [] (c_ops c) (c_obs c).

Fixpoint check_from (i : nat) (cs : list case) : list (nat * nat) :=
  match cs with
  | [] => []
  | c :: r => (if corr_ok c then [] else [(i, 1%nat)]) ++ (if prop_ok c then [] else [(i, 2%nat)]) ++ check_from (S i) r
  end.
Definition check_all (cs : list case) : list (nat * nat) := check_from 0 cs.
