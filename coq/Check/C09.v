(* Case checker for C09, container layer (driver c09container).
   kind 1 = model and implementation differ (result class, number of loaders, table sections, table bytes, or the
            implementation allocated more than the model accounts for),
   kind 2 = the implementation's own behaviour violates the specification (panic, too many faces, allocation
            beyond the linear bound). *)
From TV Require Export Model.Container Spec.Container.

Record lcase := mkL {
  l_type : Z;
  l_sections : list (Z * Z * Z * Z);        (* tag, offset, length, zLength, sorted by tag *)
  l_raw : list (Z * Z * list Z * Z)         (* tag, status (0 ok, 1 err, 2 panic), bytes, measured allocation *)
}.
Record case := mkCase {
  c_file : list Z;
  c_status : Z;                             (* NewLoaders: 0 ok, 1 err, 2 panic *)
  c_alloc : Z;                              (* measured allocation (bytes) of NewLoaders *)
  c_n : Z;                                  (* number of loaders returned *)
  c_loaders : list lcase                    (* details of the first loaders *)
}.

Fixpoint insert_sec (x : Z * csection) (l : list (Z * csection)) : list (Z * csection) :=
  match l with
  | [] => [x]
  | y :: r => if fst x <=? fst y then x :: l else y :: insert_sec x r
  end.
Definition sorted_sections (ld : cloader) : list (Z * Z * Z * Z) :=
  map (fun p => (fst p, cs_off (snd p), cs_len (snd p), cs_zlen (snd p))) (fold_right insert_sec [] (cl_tables ld)).

Definition sec_eqb (a b : Z * Z * Z * Z) : bool :=
  let '(t1, o1, l1, z1) := a in let '(t2, o2, l2, z2) := b in (t1 =? t2) && (o1 =? o2) && (l1 =? l2) && (z1 =? z2).
Fixpoint list_eqb {A} (eq : A -> A -> bool) (a b : list A) : bool :=
  match a, b with
  | [], [] => true
  | x :: a', y :: b' => eq x y && list_eqb eq a' b'
  | _, _ => false
  end.

(* allocator slack: size-class rounding, error values, the Loader structs and slices *)
Definition alloc_slack (n_loaders : Z) : Z := 16384 + 2048 * n_loaders.

Definition raw_corr (file : list Z) (ld : cloader) (r : Z * Z * list Z * Z) : bool :=
  let '(tag, st, bytes, al) := r in
  let m := raw_table_m file ld tag in
  match result m with
  | Ok (RawBytes b) => (st =? 0) && list_Z_eqb b bytes && (al <=? 2 * allocated m + 4096)
  | Ok (RawInflate _ _ _) => ((st =? 0) || (st =? 1)) && (al <=? 2 * allocated m + 262144)   (* zlib itself is not modelled *)
  | Err _ => (st =? 1) && (al <=? 4096)
  | _ => false
  end.

Definition loader_corr (file : list Z) (ld : cloader) (l : lcase) : bool :=
  (cl_type ld =? l_type l)
  && (cl_size ld =? zlen file)
  && list_eqb sec_eqb (sorted_sections ld) (l_sections l)
  && forallb (raw_corr file ld) (l_raw l).

Fixpoint loaders_corr (file : list Z) (lds : list cloader) (ls : list lcase) : bool :=
  match ls, lds with
  | [], _ => true
  | l :: ls', ld :: lds' => loader_corr file ld l && loaders_corr file lds' ls'
  | _ :: _, [] => false
  end.

Definition corr_ok (c : case) : bool :=
  let m := new_loaders (c_file c) in
  (c_alloc c <=? 2 * allocated m + alloc_slack (c_n c))
  && match result m with
     | Ok lds => (c_status c =? 0) && (zlen lds =? c_n c) && loaders_corr (c_file c) lds (c_loaders c)
     | Err _ => (c_status c =? 1)
     | Panic _ => (c_status c =? 2)
     | OutOfFuel => false
     end.

Definition prop_ok (c : case) : bool :=
  let n := zlen (c_file c) in
  open_ok n (c_status c) (c_n c) (c_alloc c)
  && forallb (fun l => forallb (fun r => let '(_, st, _, al) := r in table_ok n st al 262144) (l_raw l)) (c_loaders c).

Fixpoint check_from (i : nat) (cs : list case) : list (nat * nat) :=
  match cs with
  | [] => []
  | c :: r => (if corr_ok c then [] else [(i, 1%nat)]) ++ (if prop_ok c then [] else [(i, 2%nat)]) ++ check_from (S i) r
  end.
Definition check_all (cs : list case) : list (nat * nat) := check_from 0 cs.
