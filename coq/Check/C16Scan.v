(* Case checker for C16 (incremental scan): one case = one refresh step of a history played on a real directory tree.
   kind 1 = the scan model and the implementation differ, kind 2 = the refreshed index differs from a scratch scan
   although every changed file changed its modification time (oracle on the implementation's own outputs). *)
From TV Require Export Model.Scan.

Definition zentry := entry Z.
Record case := mkCase {
  s_parse : list (Z * list Z * list Z);   (* (content id, path) -> footprint ids: one-file scans of the real files *)
  s_last : walk;                          (* the tree the cache was computed from *)
  s_clean : bool;                         (* at that time the refreshed index was equal to the scratch scan of s_last
                                             (false once a dishonest step has left a stale entry in the cache) *)
  s_prev : list zentry;                   (* the index the refresh read from the cache file *)
  s_walk : walk;                          (* the current tree *)
  s_inc_status : Z;                       (* incremental refresh (through the cache file): 0 ok, 1 error *)
  s_inc : list zentry;
  s_scr_status : Z;                       (* scan from scratch of the same tree *)
  s_scr : list zentry
}.

Fixpoint parse_tbl (t : list (Z * list Z * list Z)) (cid : Z) (p : list Z) : list Z :=
  match t with
  | [] => []
  | (c, q, fps) :: r => if (c =? cid) && list_Z_eqb q p then fps else parse_tbl r cid p
  end.

Definition entry_eqb (a b : zentry) : bool :=
  list_Z_eqb (en_path a) (en_path b) && (en_mt a =? en_mt b) && list_Z_eqb (en_fps a) (en_fps b).
Fixpoint entries_eqb (a b : list zentry) : bool :=
  match a, b with
  | [], [] => true
  | x :: a', y :: b' => entry_eqb x y && entries_eqb a' b'
  | _, _ => false
  end.
Definition res_matches (r : res (list zentry)) (status : Z) (out : list zentry) : bool :=
  match r with
  | Ok i => (status =? 0) && entries_eqb i out
  | Err _ => status =? 1
  | _ => false
  end.

Definition corr_ok (c : case) : bool :=
  let parse := parse_tbl (s_parse c) in
  res_matches (scan Z parse (s_prev c) (s_walk c)) (s_inc_status c) (s_inc c)
  && res_matches (scratch Z parse (s_walk c)) (s_scr_status c) (s_scr c).

(* every path at most once in a scan result *)
Fixpoint nodup_paths (l : list zentry) : bool :=
  match l with
  | [] => true
  | e :: r => negb (existsb (fun x => list_Z_eqb (en_path x) (en_path e)) r) && nodup_paths r
  end.

Definition prop_ok (c : case) : bool :=
  nodup_paths (s_inc c) && nodup_paths (s_scr c) &&
  (negb (s_clean c && honest (s_last c) (s_walk c))
  || ((s_inc_status c =? s_scr_status c) && ((negb (s_inc_status c =? 0)) || entries_eqb (s_inc c) (s_scr c)))).

Fixpoint check_from (i : nat) (cs : list case) : list (nat * nat) :=
  match cs with
  | [] => []
  | c :: r => (if corr_ok c then [] else [(i, 1%nat)]) ++ (if prop_ok c then [] else [(i, 2%nat)]) ++ check_from (S i) r
  end.
Definition check_all (cs : list case) : list (nat * nat) := check_from 0 cs.
