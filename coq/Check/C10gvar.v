(* Case checker for C10, gvar tuple scalars.
   kind 1 = the model of calculateScalar (cache included) and the library differ;
   kind 2 = oracle: the scalar the library computed is not the product over all axes of the per-axis factors. *)
From TV Require Export Model.GvarScalar.
Open Scope Z_scope.

(* T shared_index peak start end scalar_bits : peak = [] when the shared tuple is used, start = end = [] without region *)
Record tcase := T { t_index : Z; t_peak : list Z; t_start : list Z; t_end : list Z; t_scalar : Z }.
Inductive case := CGvar (coords : list Z) (shared : list (list Z)) (tuples : list tcase).

Definition bits_is (b : Z) (v : Z) : bool := match f32_of_bits b with Some x => x =? v | None => false end.
Definition is_nil {A} (l : list A) : bool := match l with [] => true | _ => false end.

Definition tuple_kind (coords : list Z) (shared : list (list Z)) (t : tcase) : nat :=
  let embedded := negb (is_nil (t_peak t)) in
  let has_inter := negb (is_nil (t_start t)) in
  let peak := if embedded then t_peak t else nth (Z.to_nat (t_index t)) shared [] in
  let n := Z.of_nat (length coords) in
  (* the specification applies when the tuple has one entry per axis *)
  let wf := (Z.of_nat (length peak) =? n)
            && (negb has_inter || ((Z.of_nat (length (t_start t)) =? n) && (Z.of_nat (length (t_end t)) =? n))) in
  if wf && negb (bits_is (t_scalar t) (scalar_full has_inter coords peak (t_start t) (t_end t))) then 2%nat
  else if negb (bits_is (t_scalar t) (scalar_go coords shared embedded (t_index t) (t_peak t) (t_start t) (t_end t) has_inter))
  then 1%nat else 0%nat.

Definition case_kinds (c : case) : list nat :=
  match c with
  | CGvar coords shared tuples =>
      let ks := map (tuple_kind coords shared) tuples in
      (if existsb (Nat.eqb 1) ks then [1%nat] else []) ++ (if existsb (Nat.eqb 2) ks then [2%nat] else [])
  end.
Fixpoint check_from (i : nat) (cs : list case) : list (nat * nat) :=
  match cs with
  | [] => []
  | c :: r => map (fun k => (i, k)) (case_kinds c) ++ check_from (S i) r
  end.
Definition check_all (cs : list case) : list (nat * nat) := check_from 0 cs.
