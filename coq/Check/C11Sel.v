(* Case checker for C11, subtable selection (driver c11sel): a whole 'cmap' table (encoding records with raw subtables of
   formats 0/2/4/6/10/12/13/14) goes through font.ProcessCmap; observed: status, the kind of the chosen cmap, its Iter
   enumeration, Lookup at the enumerated runes and at probes, the coverage and script set built by newCoveragesFromCmap,
   and UnicodeVariations.GetGlyphVariant at probes.
   kind 1 = model and implementation differ (correspondence),
   kind 2 = the implementation's own output violates the specification (oracle). *)
From TV Require Export Model.Cmap Model.CmapSel Model.Scripts Spec.Cmap Spec.CmapSel Check.C11Set Check.C11Cmap.
From TV Require Import Gen.C11Tables Gen.ScriptTable.

Inductive pcase :=
| CProc (recs : list enc_record) (fp : Z)
        (status : Z)                          (* 0 ok, 1 error, 2 panic *)
        (kind : Z)                            (* format of the chosen cmap (0,4,6,12,13) + 100 symbol / 200 simp / 300 trad *)
        (iter : list (Z * Z))                 (* Iter pairs, stably sorted by rune by the driver *)
        (iter_lk : list (Z * Z * bool))       (* positions in iter where Lookup is not (glyph, true), with what it is *)
        (probes : list (Z * Z * bool))        (* rune, Lookup *)
        (covpages : pages) (scripts : list Z) (* newCoveragesFromCmap on the chosen cmap *)
        (uvprobes : list (Z * Z * Z * Z)).    (* rune, selector, GetGlyphVariant glyph and flag *)
Definition case := pcase.

Fixpoint kind_of (m : mcmap) : Z :=
  match m with
  | M0 _ => 0 | M4 _ => 4 | M6 _ => 6 | M12 _ => 12 | M13 _ => 13
  | MSym c => 100 + kind_of c | MSimp c => 200 + kind_of c | MTrad c => 300 + kind_of c
  end.
(* stable insertion sort by rune *)
Fixpoint ins_pair (p : Z * Z) (l : list (Z * Z)) : list (Z * Z) :=
  match l with
  | [] => [p]
  | q :: t => if fst p <? fst q then p :: l else q :: ins_pair p t
  end.
Definition sort_pairs (l : list (Z * Z)) : list (Z * Z) := fold_left (fun acc p => ins_pair p acc) l [].

Definition p_iter (m : mcmap) : res (list (Z * Z)) := miter arabicPUASimp arabicPUATrad m.
Definition p_lookup (m : mcmap) (r : Z) : res (Z * bool) := mlookup arabicPUASimp arabicPUATrad m r.
(* RuneRanges exists on the value types cmap4, cmap12, cmap13 only (cmap6or10 has a pointer receiver, the remapers
   embed the interface) *)
Definition p_ranges (m : mcmap) : option (list (Z * Z)) :=
  match m with
  | M4 s => Some (rune_ranges4 s)
  | M12 g | M13 g => Some (rune_ranges12 g)
  | _ => None
  end.
Definition scripts_eqb (r : res (list Z)) (l : list Z) : bool := match r with Ok a => list_Z_eqb a l | _ => false end.

Definition corr_ok (c : case) : bool :=
  match c with
  | CProc recs fp st kind iter iter_lk0 probes covpages scripts uvprobes =>
      match process_cmap macintosh_decode recs fp with
      | Ok (m, uv) =>
          (st =? 0) && (kind =? kind_of m)
          && match p_iter m with
             | Ok l =>
                 pairs_eqb (sort_pairs l) iter
                 && match p_ranges m with
                    | Some rr => rs_is (coverage_from_ranges rr) covpages
                                 && scripts_eqb (scripts_from_ranges ScriptRanges script_Unknown rr) scripts
                    | None => rs_is (add_all (map fst l)) covpages
                              && scripts_eqb (scripts_from_runes ScriptRanges script_Unknown (map fst l) []) scripts
                    end
             | _ => false
             end
          && (let iter_lk := expand_lk iter iter_lk0 in
              forallb (fun p => lk_eqb (p_lookup m (fst (fst p))) (snd (fst p)) (snd p)) probes
              && forallb (fun p => let '((r, g), (g', ok)) := p in lk_eqb (p_lookup m r) g' ok) (combine iter iter_lk))
          && forallb (fun q => let '(r, sel, g, fl) := q in
                               match get_glyph_variant uv r sel with Ok (g', fl') => (g' =? g) && (fl' =? fl) | _ => false end)
                     uvprobes
      | Err _ => st =? 1
      | Panic _ => st =? 2
      | OutOfFuel => false
      end
  end.

(* ---- oracle: the specification on the implementation's own observations ---- *)
Fixpoint page_find (ps : pages) (ref : Z) : option (list Z) :=
  match ps with [] => None | (r, w) :: t => if r =? ref then Some w else page_find t ref end.
Definition pages_mem (ps : pages) (r : Z) : bool :=
  match page_find ps ((r / 256) mod 65536) with
  | Some w => Z.testbit (znth 0 w ((r mod 256) / 32)) (r mod 32)
  | None => false
  end.
Definition last_uvs (recs : list enc_record) : list varsel :=
  fold_left (fun acc r => match snd r with S14 vs => new_uvs vs | _ => acc end) recs [].
Definition is_remaped (kind : Z) : bool := 100 <=? kind.

(* the choice, written from the documentation of ProcessCmap and independent of find_subtable / first_preferred: among
   the records of the supported formats, the first identifier of the preference order that occurs at all, and the first
   record carrying it; the first such record when no preferred identifier occurs *)
Definition supported (r : enc_record) : bool := is_candidate (snd r).
Definition has_id (id : Z * Z) (r : enc_record) : bool := (fst (fst r) =? fst id) && (snd (fst r) =? snd id).
Definition spec_pick (recs : list enc_record) : option (enc_record * bool) :=      (* record, is the symbol identifier *)
  let cands := filter supported recs in
  match find (fun id => existsb (has_id id) cands) full_preference with
  | Some id => match find (has_id id) cands with
               | Some r => Some (r, (fst id =? 3) && (snd id =? 0))
               | None => None
               end
  | None => match cands with r :: _ => Some (r, false) | [] => None end
  end.
Definition spec_kind (recs : list enc_record) (fp : Z) : option Z :=
  match spec_pick recs with
  | Some (r, sym) =>
      let base := match snd r with S0 _ => 0 | S4 _ _ => 4 | S6 _ _ | S10 _ _ => 6 | S12 _ => 12 | S13 _ => 13 | _ => -1 end in
      Some (base + (if sym then (if fp =? FPNone then 100 else if fp =? FPSimpArabic then 200
                                 else if fp =? FPTradArabic then 300 else 0) else 0))
  | None => None
  end.
(* format 0 chosen without a remaper: Lookup(r) is the glyph of the LAST byte b >= 1 that the Macintosh table decodes
   to r (cmap0_last_byte_wins) *)
Definition spec_lookup0 (ga : list Z) (r : Z) : Z * bool :=
  fold_left (fun acc b => if (znth (-1) macintosh_decode b =? r) then (znth 0 ga b, true) else acc) (zrange 1 255) (0, false).
Definition choice_ok (recs : list enc_record) (fp kind : Z) (iter : list (Z * Z)) (probes : list (Z * Z * bool)) : bool :=
  match spec_kind recs fp with
  | Some k =>
      (k =? kind)
      && match spec_pick recs with
         | Some ((_, _, S0 ga), false) =>
             forallb (fun q => let '(r, g, ok) := q in let '(g', ok') := spec_lookup0 ga r in (g' =? g) && Bool.eqb ok ok') probes
         | Some ((_, _, S12 g), false) | Some ((_, _, S13 g), false) =>
             (* the enumerated runes are runes of the chosen record's groups *)
             forallb (fun p => existsb (fun e => (g_start e <=? fst p) && (fst p <=? g_end e)) g) iter
         | Some ((_, _, S4 qs _), false) =>
             forallb (fun p => existsb (fun q => let '(e, st, _, _) := q in (st <=? fst p) && (fst p <=? e)) qs) iter
         | Some ((_, _, S6 f en), false) | Some ((_, _, S10 f en), false) =>
             forallb (fun p => (f <=? fst p) && (fst p <? f + zlen en)) iter
         | _ => true
         end
  | None => false
  end.

Definition oracle_ok (c : case) : bool :=
  match c with
  | CProc recs fp st kind iter iter_lk0 probes covpages scripts uvprobes =>
      negb (st =? 2)
      && ((negb (st =? 0)) ||
          (let iter_lk := expand_lk iter iter_lk0 in
           let runes := map fst iter in
           (* each rune once; every enumerated pair is what Lookup returns; the coverage contains it *)
           nodupb runes
           && choice_ok recs fp kind iter probes
           && (length iter =? length iter_lk)%nat
           && forallb (fun q => let '((r, g), (g', ok)) := q in ok && (g' =? g) && (negb (rune_okb r) || pages_mem covpages r))
                      (combine iter iter_lk)
           (* Lookup succeeds exactly on the enumerated runes (non-negative ones for a remaper), with that glyph;
              the coverage contains a rune iff Lookup maps it *)
           && forallb (fun q => let '(r, g, ok) := q in
                                (is_remaped kind && (r <? 0)) ||
                                (Bool.eqb ok (l_mem runes r)
                                 && (negb (rune_okb r) || Bool.eqb (pages_mem covpages r) ok)
                                 && (negb ok || match assoc iter r with Some g' => g' =? g | None => false end)))
                      probes
           (* the script set is exactly the set of scripts of the enumerated runes *)
           && strictly_sorted scripts
           && forallb (fun r => l_mem scripts (script_of ScriptRanges script_Unknown r)) runes
           && forallb (fun s => existsb (fun r => script_of ScriptRanges script_Unknown r =? s) runes) scripts
           (* variation selectors: when the format 14 subtable is ordered as the specification requires, the answer is
              the default / non-default / not-found classification *)
           && (let uv := last_uvs recs in
               negb (wf_uvs uv) ||
               forallb (fun q => let '(r, sel, g, fl) := q in
                                 let '(g', fl') := uvs_spec uv r sel in (g' =? g) && (fl' =? fl)) uvprobes)))
  end.

Fixpoint check_from (i : nat) (cs : list case) : list (nat * nat) :=
  match cs with
  | [] => []
  | c :: r => (if corr_ok c then [] else [(i, 1%nat)]) ++ (if oracle_ok c then [] else [(i, 2%nat)]) ++ check_from (S i) r
  end.
Definition check_all (cs : list case) : list (nat * nat) := check_from 0 cs.
