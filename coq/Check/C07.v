(* Case checker for C07 (itemization).
   kind 1  = the model (on a fresh Segmenter, from the raw runes, x/text answering per paragraph) and the implementation
             (after the case's reuse history) differ - on the runs returned by Split, on the runs of splitByBidi alone
             (hook VerifSplitByBidi), on isParagraphSeparator of a rune of the text - or the model asks x/text about a
             paragraph the driver did not ask about;
   kind 2  = the implementation's output violates the specification (check_itemization with the bidi run list of the
             model, direction of every rune = x/text's within its paragraph, reference bidi parity of the driver,
             hypothesis xbidi_wf on the x/text results, ScriptToLang coherence).
   (Finding F26, multi-paragraph ranges, is fixed: there is no kind >= 10 any more.) *)
From TV Require Export Lib.Bytes Model.Itemize Spec.Itemize Model.ItemizeBidi Spec.ItemizeBidi.
Open Scope Z_scope.

Record case := mkCase {
  k_common : Z; k_inherited : Z;        (* language.Common, language.Inherited *)
  k_scripts : list Z;                   (* scripts of the runes of the text, and Common *)
  k_sinfo : list (Z * Z * Z);           (* per script: id0.UseScript(s), ScriptToLang[s], ScriptToLang[s].UseScript(s) *)
  k_langid : Z;                         (* NewLangID(language or "en"), -1 = unknown *)
  k_text : list (Z * Z * Z * list Z);   (* per rune: script index, delimiter index, flags, face id per hint key *)
  k_hint : bool;                        (* the Fontmap implements FontmapScript *)
  k_in : list Z;                        (* RunStart, RunEnd, direction bits, face id, size, script *)
  k_runes : list Z;                     (* Input.Text *)
  k_xtab : list (list Z * option (list (Z * bool)));
                                        (* golang.org/x/text/unicode/bidi, default direction = progression of the input:
                                           string of a paragraph |-> None (error / no run) or per run (Pos() end, RightToLeft) *)
  k_bidi_out : list (list Z);           (* hook VerifSplitByBidi on a fresh Segmenter: per run start, end, direction *)
  k_out : list (list Z)                 (* per run: start, end, direction, script, language, face, text, size, features *)
}.

Definition dir_of (c : Z) : dir := mkDir (Z.testbit c 0) (Z.testbit c 1) (Z.testbit c 2) (Z.testbit c 3).
Definition nz (l : list Z) (k : nat) : Z := nth k l (-9).

Definition keys_of (c : case) : list Z := if k_hint c then k_scripts c else [-1].
(* per rune: index of its script in k_scripts, delimiter index, flags, faces.
   flags: bit 0 ignoreFaceChange, bit 1 reference parity RTL, bit 2 no reference parity, bit 3 isParagraphSeparator
   (hook), bit 4+j sideways under k_scripts[j] *)
Definition obs_of (c : case) (t : Z * Z * Z * list Z) : obs :=
  let '(sc, de, f, faces) := t in
  mkObs (nth (Z.to_nat sc) (k_scripts c) (-7)) de (Z.testbit f 0)
        (combine (k_scripts c) (map (fun j => Z.testbit f (4 + Z.of_nat j)) (seq 0 (length (k_scripts c)))))
        (combine (keys_of c) faces).
Definition ref_of (t : Z * Z * Z * list Z) : option bool :=
  let '(_, _, f, _) := t in if Z.testbit f 2 then None else Some (Z.testbit f 1).
Definition is_b (t : Z * Z * Z * list Z) : bool := let '(_, _, f, _) := t in Z.testbit f 3.

Definition sinfo_tab (c : case) : list (Z * (Z * Z * Z)) := combine (k_scripts c) (k_sinfo c).
Definition use_of (c : case) (s : Z) : bool := negb (fst (fst (assoc (1, 0, 1) (sinfo_tab c) s)) =? 0).
Definition stl_of (c : case) (s : Z) : Z := snd (fst (assoc (1, 0, 1) (sinfo_tab c) s)).

Definition in_of (c : case) : input :=
  let l := k_in c in mkIn 1 (nz l 0) (nz l 1) (dir_of (nz l 2)) (nz l 3) 1 (nz l 4) (nz l 5) (-1).
(* x/text as a function: the driver's answers (all for the default direction of this case) *)
Fixpoint xlookup (tab : list (list Z * option (list (Z * bool)))) (p : list Z) : option (list (Z * bool)) :=
  match tab with
  | [] => None
  | (k, v) :: r => if list_Z_eqb k p then v else xlookup r p
  end.
Definition xbidi_of (c : case) : list Z -> bool -> option (list (Z * bool)) := fun p _ => xlookup (k_xtab c) p.
Definition tenv_of (c : case) : tenv :=
  mkTenv (xbidi_of c) (k_runes c)
         (mkEnv (map (obs_of c) (k_text c)) None (if k_langid c <? 0 then None else Some (k_langid c))
                (use_of c) (stl_of c) (k_hint c)).
Definition env_of (c : case) : env := env_of_text (tenv_of c) (in_of c).
Definition run_of (l : list Z) : input :=
  mkIn (nz l 6) (nz l 0) (nz l 1) (dir_of (nz l 2)) (nz l 5) (nz l 8) (nz l 7) (nz l 3) (nz l 4).
Definition out_of (c : case) : list input := map run_of (k_out c).

Fixpoint inputs_eqb (a b : list input) : bool :=
  match a, b with
  | [], [] => true
  | x :: a', y :: b' => input_eqb x y && inputs_eqb a' b'
  | _, _ => false
  end.

(* the runs of splitByBidi alone: range and direction *)
Fixpoint bidi_out_eqb (a : list input) (b : list (list Z)) : bool :=
  match a, b with
  | [], [] => true
  | r :: a', l :: b' => (i_start r =? nz l 0) && (i_end r =? nz l 1) && dir_eqb (i_dir r) (dir_of (nz l 2)) && bidi_out_eqb a' b'
  | _, _ => false
  end.
(* every paragraph the model hands to x/text is one the driver handed to x/text *)
Definition xtab_covers (c : case) : bool :=
  forallb (fun ab => existsb (fun kv => list_Z_eqb (fst kv) (para_string (k_runes c) (fst ab) (snd ab))) (k_xtab c))
          (paragraphs_of (k_runes c) (in_of c)).
Fixpoint seps_agree (rs : list Z) (ts : list (Z * Z * Z * list Z)) : bool :=
  match rs, ts with
  | [], [] => true
  | r :: rs', t :: ts' => Bool.eqb (is_para_sep r) (is_b t) && seps_agree rs' ts'
  | _, _ => false
  end.

Definition corr_ok (c : case) : bool :=
  (k_common c =? SC_COMMON) && (k_inherited c =? SC_INHERITED) &&
  seps_agree (k_runes c) (k_text c) &&
  (negb (range_ok (t_env (tenv_of c)) (in_of c)) || xtab_covers c) &&
  match split_by_bidi_text (xbidi_of c) (k_runes c) (in_of c) with
  | Ok b => bidi_out_eqb b (k_bidi_out c)
  | _ => false
  end &&
  match split_text_runs (tenv_of c) seg_zero (in_of c) with
  | Ok runs => inputs_eqb runs (out_of c)
  | _ => false
  end.

(* ScriptToLang[s] is a language written in s (table coherence used by "language compatible with the script") *)
Definition stl_coherent (c : case) : bool :=
  forallb (fun t => let '(_, stl, u) := t in (stl =? 0) || negb (u =? 0)) (k_sinfo c).

(* the runs the implementation's splitByBidi produced: consecutive over the range, neighbours of different directions *)
Definition bidi_run_of (l : list Z) : input := mkIn 1 (nz l 0) (nz l 1) (dir_of (nz l 2)) 0 1 0 0 (-1).
Definition bidi_out_ok (c : case) : bool :=
  let b := map bidi_run_of (k_bidi_out c) in
  chainb (i_start (in_of c)) (i_end (in_of c)) b && alternating b.

Definition core_ok (c : case) : bool :=
  let e := env_of c in let x := in_of c in
  if range_ok e x then
    bidi_out_ok c &&
    check_itemization e x (out_of c) && xbidi_wf (xbidi_of c) (k_runes c) x
    && parity_text_ok (xbidi_of c) (k_runes c) x (out_of c) && stl_coherent c
  else if i_end x <=? i_start x then empty_ok e x (out_of c)
  else true.
Definition ref_ok (c : case) : bool :=
  let e := env_of c in let x := in_of c in
  negb (range_ok e x) || parity_ok (map ref_of (k_text c)) (out_of c).

Definition classify (c : case) : list nat :=
  (if corr_ok c then [] else [1%nat]) ++
  (if core_ok c && ref_ok c then [] else [2%nat]).

Fixpoint check_from (i : nat) (cs : list case) : list (nat * nat) :=
  match cs with
  | [] => []
  | c :: r => map (fun k => (i, k)) (classify c) ++ check_from (S i) r
  end.
Definition check_all (cs : list case) : list (nat * nat) := check_from 0 cs.
