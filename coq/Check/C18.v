(* Case checker for C18 (flag algebra on the real harfbuzz.Buffer): same cases as C01Buf.
   kind 1 = correspondence; kind 2 = a C18 statement fails on the observed states:
   after propagateFlags glyphs of one cluster carry different flags, or unsafeToBreak(s,e) did not flag exactly the
   glyphs of the range outside its minimal cluster. *)
From TV Require Export Check.C01Buf.

Definition step_c18 (o : op) (cur st : buffer) : bool :=
  match o with
  | OPropagate => (level cur =? 2) || negb (has_gf cur) || flags_uniform (info st)
  | OUnsafeBreak s e => have_out cur || (glyphs_eqb (info st) (marks_interior m_break s e (info cur))
                                         && ((Z.min e (zlen (info cur)) - s <? 2) || has_gf st))
  | OUnsafeConcat s e => have_out cur || negb (fl_concat cur) || (glyphs_eqb (info st) (marks_interior m_concat s e (info cur)))
  | _ => true
  end.

Definition prop18_ok (c : case) : bool :=
  let '(lo, hi) := case_range c in steps_prop step_c18 lo hi (c_init c) (c_steps c).

Fixpoint check18_from (i : nat) (cs : list case) : list (nat * nat) :=
  match cs with
  | [] => []
  | c :: r => (if corr_ok c then [] else [(i, 1%nat)]) ++ (if prop18_ok c then [] else [(i, 2%nat)]) ++ check18_from (S i) r
  end.
Definition check_all (cs : list case) : list (nat * nat) := check18_from 0 cs.
