(* Case checker for C09, cmap format 4 builder (driver c09cmap4).  kind 1 = correspondence, kind 2 = oracle. *)
From TV Require Export Model.CmapBuild Spec.Glyf.

(* compact form of long constant lists in generated cases *)
Definition zrep (v n : Z) : list Z := repeat v (Z.to_nat n).

Record case := mkCase {
  c_end : list Z; c_start : list Z; c_delta : list Z; c_offset : list Z;
  c_glyphs : list Z;
  c_status : Z;                 (* 0 ok, 1 error, 2 panic *)
  c_entries : list entry16
}.

Definition oz_eqb (a b : option (list Z)) : bool :=
  match a, b with None, None => true | Some x, Some y => list_Z_eqb x y | _, _ => false end.
Definition entry_eqb (a b : entry16) : bool :=
  (e_end a =? e_end b) && (e_start a =? e_start b) && (e_delta a =? e_delta b) && oz_eqb (e_indexes a) (e_indexes b).
Fixpoint entries_eqb (a b : list entry16) : bool :=
  match a, b with
  | [], [] => true
  | x :: a', y :: b' => entry_eqb x y && entries_eqb a' b'
  | _, _ => false
  end.

Definition corr_ok (c : case) : bool :=
  match new_cmap4 (c_end c) (c_start c) (c_delta c) (c_offset c) (c_glyphs c) with
  | Ok es => (c_status c =? 0) && entries_eqb es (c_entries c)
  | Err _ => c_status c =? 1
  | Panic _ => c_status c =? 2
  | OutOfFuel => false
  end.

(* oracle: no panic; an accepted subtable has one entry per segment, at most 2^16 resolved indexes in total, and every index list has
   (end - start + 1) mod 2^16 entries, each of them a 16-bit value read inside the glyph array *)
Definition entry_ok (c : case) (e : entry16) : bool :=
  match e_indexes e with
  | None => true
  | Some ix => (zlen ix =? e_end e - e_start e + 1) && (1 <=? zlen ix) && (2 * zlen ix <=? zlen (c_glyphs c))
               && forallb (fun g => (0 <=? g) && (g <? 65536)) ix
  end.
Definition prop_ok (c : case) : bool :=
  negb (c_status c =? 2)
  && (negb (c_status c =? 0) || ((zlen (c_entries c) =? zlen (c_end c)) && forallb (entry_ok c) (c_entries c)
                                   && (resolved_count (c_entries c) <=? 65536))).

Fixpoint check_from (i : nat) (cs : list case) : list (nat * nat) :=
  match cs with
  | [] => []
  | c :: r => (if corr_ok c then [] else [(i, 1%nat)]) ++ (if prop_ok c then [] else [(i, 2%nat)]) ++ check_from (S i) r
  end.
Definition check_all (cs : list case) : list (nat * nat) := check_from 0 cs.
