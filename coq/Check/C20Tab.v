(* Case checker for the second part of C20 (script tags, vertical orientation, the shaper's Unicode lookups):
   evaluated by vm_compute on the cases the Go driver observed.
   kind 1 = the model and the implementation differ (correspondence),
   kind 2 = the implementation's own output violates the specification (oracle). *)
From TV Require Export Lib.Bytes Model.UnicodeShape Spec.UnicodeShape.

Definition vo_obs := (Z * bool * option (list (Z * Z * Z)))%type.

Inductive case :=
(* one string: ParseScript(s) as (value, err == nil), String() of the value, ParseScript of that string *)
| TScript (s : list Z) (parsed : Z * bool) (str : list Z) (parsed2 : Z * bool)
(* one code point: uni.generalCategory, getJoiningType(r, that category), indicGetCategories, getUSECategory,
   uni.modifiedCombiningClass, LookupCombiningClass, uni.isExtendedPictographic, LookupScript,
   LookupVerticalOrientation(that script).Orientation(r) *)
| TCp (r : Z) (gc jt indic use mcc ccc : Z) (ep : bool) (script : Z) (vo : bool)
(* one script and one code point: the fields of LookupVerticalOrientation(s), Orientation(r) *)
| TVo (s : Z) (ent : vo_obs) (r : Z) (sideways : bool)
(* getJoiningType(u, gc) for an arbitrary uint8 category *)
| TJoin (u gc jt : Z)
(* one index i of indicTable (tab = 0) or useTable (tab = 1): the code point u whose range clause reads that entry
   (found by the driver from the dispatch read in the sources; -1 if there is none) and what the lookup returns on u *)
| TIdx (tab i u got : Z).

Definition zb_eqb (x y : Z * bool) : bool := (fst x =? fst y) && Bool.eqb (snd x) (snd y).
Definition res_is {A} (eqb : A -> A -> bool) (r : res A) (v : A) : bool :=
  match r with Ok a => eqb a v | _ => false end.
Definition parse_obs (s : list Z) : Z * bool := match parse_script s with Ok v => (v, true) | _ => (0, false) end.

Definition triple_eqb (a b : Z * Z * Z) : bool :=
  (fst (fst a) =? fst (fst b)) && (snd (fst a) =? snd (fst b)) && (snd a =? snd b).
Fixpoint rtab_eqb (a b : list (Z * Z * Z)) : bool :=
  match a, b with
  | [], [] => true
  | x :: a', y :: b' => triple_eqb x y && rtab_eqb a' b'
  | _, _ => false
  end.
Definition vo_obs_eqb (a b : vo_obs) : bool :=
  (fst (fst a) =? fst (fst b)) && Bool.eqb (snd (fst a)) (snd (fst b))
  && match snd a, snd b with Some x, Some y => rtab_eqb x y | None, None => true | _, _ => false end.

Definition corr_ok (c : case) : bool :=
  match c with
  | TScript s parsed str parsed2 =>
    zb_eqb (parse_obs s) parsed && list_Z_eqb (script_string (fst parsed)) str && zb_eqb (parse_obs str) parsed2
  | TCp r gc jt indic use mcc ccc ep script vo =>
    res_is Z.eqb (hb_general_category r) gc
    && (get_joining_type r gc =? jt)
    && res_is Z.eqb (arabic_joining_type r) jt
    && res_is Z.eqb (indic_get_categories r) indic
    && res_is Z.eqb (get_use_category r) use
    && res_is Z.eqb (modified_combining_class r) mcc
    && res_is Z.eqb (lookup_combining_class r) ccc
    && res_is Bool.eqb (hb_is_extended_pictographic r) ep
    && res_is Z.eqb (lookup_script r) script
    && res_is Bool.eqb (vo_orientation (lookup_vo script) r) vo
  | TVo s ent r sideways =>
    vo_obs_eqb (lookup_vo s) ent && res_is Bool.eqb (vo_orientation (lookup_vo s) r) sideways
  | TJoin u gc jt => get_joining_type u gc =? jt
  | TIdx tab i u got =>
    (u <? 0) || res_is Z.eqb (if tab =? 0 then indic_get_categories u else get_use_category u) got
  end.

(* the distinct range clauses whose index segment holds i *)
Definition clause_same (a b : clause) : bool :=
  (c_kind a =? c_kind b) && (c_lo a =? c_lo b) && (c_hi a =? c_hi b) && (c_sub a =? c_sub b) && (c_off a =? c_off b).
Fixpoint dedup_clauses (l : list clause) : list clause :=
  match l with
  | [] => []
  | c :: r => if existsb (clause_same c) r then dedup_clauses r else c :: dedup_clauses r
  end.
Definition readers (cls : list clause) (i : Z) : list clause :=
  filter (fun c => (c_kind c =? 1) && (c_lo c - c_sub c + c_off c <=? i) && (i <=? c_hi c - c_sub c + c_off c)) (dedup_clauses cls).
(* entry i of the table is read for exactly one code point, u, and the lookup returns it there *)
Definition index_ok (cls : list clause) (table : list Z) (i u got : Z) : bool :=
  match readers cls i with
  | [c] => (c_lo c <=? u) && (u <=? c_hi c) && (u - c_sub c + c_off c =? i) && (got =? znth 0 table i)
  | _ => false
  end.

(* r lies in at most one class, and `got` is that class, else the default *)
Definition class_ok (order : list (nat * rtab)) (r : Z) (dflt : Z) (got : Z) : bool :=
  match classes_of order r with
  | [] => got =? dflt
  | [i] => got =? Z.of_nat i
  | _ => false
  end.

Definition prop_ok (c : case) : bool :=
  match c with
  | TScript s parsed str parsed2 =>
    Bool.eqb (snd parsed) (4 <=? zlen s)
    && (negb (snd parsed) || (zb_eqb parsed2 parsed && (zlen str =? 4) && script_normal (fst parsed)))
  | TCp r gc jt indic use mcc ccc ep script vo =>
    class_ok hb_generalCategories_order r hb_gc_unassigned gc
    && (jt =? joining_spec arabic_joinings r gc) && joining_value_ok jt
    && (length (joining_entries arabic_joinings r) <=? 1)%nat
    && (indic =? indic_scan r) && (use =? use_scan r)
    && Bool.eqb (mcc =? 0) (ccc =? 0) && (0 <=? mcc) && (mcc <? 256)
    && Bool.eqb ep (mem ut_Extended_Pictographic r)
    && is_script_const script
    && Bool.eqb (script =? script_Unknown) (gc_is_unassigned_like gc)
    && Bool.eqb vo (vo_sideways_spec script r)
  | TVo s ent r sideways =>
    (length (filter (fun e => (vo_script e =? s)%Z) vo_table) <=? 1)%nat
    && vo_obs_eqb ent (match vo_find vo_table s with Some e => e | None => (s, true, None) end)
    && Bool.eqb sideways (vo_sideways_spec s r)
    (* an exception of a script is a code point of that script *)
    && (negb (mem_opt (snd ent) r) || (script_scan ScriptRanges r =? s))
  | TJoin u gc jt => (jt =? joining_spec arabic_joinings u gc) && joining_value_ok jt
  | TIdx tab i u got =>
    if tab =? 0 then negb ((0 <=? i) && (i <? zlen indic_table)) || index_ok (all_clauses indic_pages) indic_table i u got
    else negb ((0 <=? i) && (i <? zlen use_table)) || index_ok (all_clauses use_pages) use_table i u got
  end.

Fixpoint check_from (i : nat) (cs : list case) : list (nat * nat) :=
  match cs with
  | [] => []
  | c :: r => (if corr_ok c then [] else [(i, 1%nat)]) ++ (if prop_ok c then [] else [(i, 2%nat)]) ++ check_from (S i) r
  end.
Definition check_all (cs : list case) : list (nat * nat) := check_from 0 cs.
