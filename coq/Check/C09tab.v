(* Case checker for C09, name / hmtx / cmap 6-10-12-13 from bytes (driver c09tab).
   kind 1 = correspondence, kind 2 = oracle. *)
From TV Require Export Model.TableIndex Model.AatLookup Spec.TableIndex.

Inductive case :=
| CName (src : list Z) (status : Z)              (* 0 ok, 1 error, 3 panic *)
        (recs : list (list Z))                   (* [platform; encoding; language; name; length; offset] *)
        (vals : list (list Z))                   (* decoder 0, 1: the runes of the value; decoder 2: its bytes *)
| CHmtx (hhea src : list Z) (num_glyphs : Z) (gids : list Z) (status : Z) (nm nl : Z) (adv sb : list Z)
| CCmap (src : list Z) (runes : list Z) (status : Z) (size : Z) (res : list (option Z))
| CAat (l : aat_lookup) (gids : list Z) (status : Z) (res : list (option Z)).   (* AAT lookup Class; status 0 or 3 *)

Definition rec_list (r : name_rec) : list Z :=
  [nr_platform r; nr_encoding r; nr_language r; nr_name r; nr_length r; nr_offset r].
Fixpoint recs_eqb (a : list name_rec) (b : list (list Z)) : bool :=
  match a, b with
  | [], [] => true
  | x :: a', y :: b' => list_Z_eqb (rec_list x) y && recs_eqb a' b'
  | _, _ => false
  end.
Definition no_surrogate (us : list Z) : bool := forallb (fun u => (u <? 55296) || (57343 <? u)) us.
(* the model has the UTF-16 units (decoder 0) or the bytes: the runes of the implementation are the units when
   there is no surrogate, one rune per byte for Mac Roman, the bytes themselves otherwise *)
Definition val_eqb (r : name_rec) (units : list Z) (v : list Z) : bool :=
  if name_decoder r =? 0 then (if no_surrogate units then list_Z_eqb units v else true)
  else if name_decoder r =? 1 then zlen units =? zlen v
  else list_Z_eqb units v.
Fixpoint vals_eqb (rs : list name_rec) (us : list (list Z)) (vs : list (list Z)) : bool :=
  match rs, us, vs with
  | [], [], [] => true
  | r :: rs', u :: us', v :: vs' => val_eqb r u v && vals_eqb rs' us' vs'
  | _, _, _ => false
  end.

Fixpoint hmtx_answers (h : hmtx) (gids adv sb : list Z) : bool :=
  match gids, adv, sb with
  | [], [], [] => true
  | g :: gids', a :: adv', s :: sb' =>
      match hmtx_advance h g, hmtx_side_bearing h g with
      | Ok a', Ok s' => (a =? a') && (s =? s') && hmtx_answers h gids' adv' sb'
      | _, _ => false
      end
  | _, _, _ => false
  end.

Definition oz_eqb (a b : option Z) : bool :=
  match a, b with None, None => true | Some x, Some y => x =? y | _, _ => false end.
Fixpoint cmap_answers (v : cmap_val) (runes : list Z) (res : list (option Z)) : bool :=
  match runes, res with
  | [], [] => true
  | r :: runes', o :: res' =>
      match cmap_val_lookup v r with Ok o' => oz_eqb o o' && cmap_answers v runes' res' | _ => false end
  | _, _ => false
  end.

Fixpoint aat_answers (l : aat_lookup) (gids : list Z) (res : list (option Z)) : bool :=
  match gids, res with
  | [], [] => true
  | g :: gids', o :: res' =>
      match aat_class l g with Ok o' => oz_eqb o o' && aat_answers l gids' res' | _ => false end
  | _, _ => false
  end.
Fixpoint aat_panics (l : aat_lookup) (gids : list Z) : bool :=
  match gids with
  | [] => false
  | g :: gids' => match aat_class l g with Panic _ => true | _ => aat_panics l gids' end
  end.

Definition corr_ok (c : case) : bool :=
  match c with
  | CName src status recs vals =>
      match name_load_and_decode src with
      | Ok (t, us) => (status =? 0) && recs_eqb (n_records t) recs && vals_eqb (n_records t) us vals
      | Err _ => status =? 1
      | Panic _ => status =? 3
      | OutOfFuel => false
      end
  | CHmtx hhea src ng gids status nm nl adv sb =>
      match load_hvmtx hhea src ng with
      | Ok h => (status =? 0) && (zlen (hm_metrics h) =? nm) && (zlen (hm_lsb h) =? nl) && hmtx_answers h gids adv sb
      | Err _ => status =? 1
      | Panic _ => status =? 3
      | OutOfFuel => false
      end
  | CCmap src runes status size res =>
      match cmap_sub_parse src with
      | Ok v => (status =? 0) && (cmap_val_size v =? size) && cmap_answers v runes res
      | Err _ => status =? 1
      | Panic _ => status =? 3
      | OutOfFuel => false
      end
  | CAat l gids status res =>
      if status =? 3 then aat_panics l gids else (status =? 0) && aat_answers l gids res
  end.

Definition prop_ok (c : case) : bool :=
  match c with
  | CName src status recs vals =>
      negb (status =? 3) && (negb (status =? 0) || name_answer_ok (zlen src) (zlen recs) (map zlen vals))
  | CHmtx hhea src ng gids status nm nl adv sb =>
      negb (status =? 3) && (negb (status =? 0) || hmtx_answer_ok (zlen src) nm nl (zlen gids) (zlen adv) (zlen sb))
  | CCmap src runes status size res =>
      negb (status =? 3) && (negb (status =? 0) || cmap_answer_ok (zlen src) size (zlen runes) (zlen res))
  | CAat l gids status res => negb (status =? 3) && (zlen res =? zlen gids)
  end.

Fixpoint check_from (i : nat) (cs : list case) : list (nat * nat) :=
  match cs with
  | [] => []
  | c :: r => (if corr_ok c then [] else [(i, 1%nat)]) ++ (if prop_ok c then [] else [(i, 2%nat)]) ++ check_from (S i) r
  end.
Definition check_all (cs : list case) : list (nat * nat) := check_from 0 cs.
