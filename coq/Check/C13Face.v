(* Case checker for C13, driver c13face (font.Face extents cache).
   kind 1 = the model's answers / valid-cell pattern differ from the implementation (correspondence),
   kind 2 = an answer of the reused Face differs from a fresh Face configured identically (oracle). *)
From TV Require Export Spec.Reuse.

(* coordinates and variations are interned by the driver: equal normalised coordinates <-> equal id;
   extents are the four float32 bit patterns *)
Definition fop := FaceCache.op Z Z.
Definition ext := list Z.

Record case := mkCase {
  c_n : Z;                                (* len(extentsCache) = number of glyphs *)
  c_ops : list fop;
  c_ans : list (option ext);              (* answers of the GlyphExtents operations on the reused face *)
  c_fresh : list (option ext);            (* answers of a fresh face with the same settings, same order *)
  c_valid : list (list Z)                 (* valid cache cells after every operation (hook) *)
}.

Definition ans_eqb : option ext -> option ext -> bool := option_eqb zlist_eqb.

(* raw := the fresh answers, as a function of (glyph, coordinates id, ppem) *)
Fixpoint raw_table (c : Z) (p : Z * Z) (ops : list fop) (fresh : list (option ext)) : list (Z * Z * (Z * Z) * option ext) :=
  match ops with
  | [] => []
  | FaceCache.SetCoords _ _ c' :: r => raw_table c' p r fresh
  | FaceCache.SetVariations _ _ v :: r => raw_table v p r fresh
  | FaceCache.SetPpem _ _ x y :: r => raw_table c (x, y) r fresh
  | FaceCache.GlyphExtents _ _ g :: r =>
      match fresh with
      | a :: fr => (g, c, p, a) :: raw_table c p r fr
      | [] => []
      end
  end.
Fixpoint raw_lookup (t : list (Z * Z * (Z * Z) * option ext)) (g c : Z) (p : Z * Z) : option ext :=
  match t with
  | [] => None
  | (g', c', p', a) :: r => if (g' =? g) && (c' =? c) && pair_eqb p' p then a else raw_lookup r g c p
  end.
(* the fresh answers must be a function of (glyph, settings): the same key never maps to two answers *)
Fixpoint raw_functional (t : list (Z * Z * (Z * Z) * option ext)) : bool :=
  match t with
  | [] => true
  | (g, c, p, a) :: r => ans_eqb (raw_lookup (t) g c p) a && forallb (fun e => let '(g', c', p', a') := e in
                           negb ((g' =? g) && (c' =? c) && pair_eqb p' p) || ans_eqb a a') r && raw_functional r
  end.

Definition model_trace (c : case) :=
  let t := raw_table 0 (0, 0) (c_ops c) (c_fresh c) in
  FaceCache.trace Z Z ext (raw_lookup t) (fun v => v) (FaceCache.new_face Z ext 0 (c_n c)) (c_ops c).

Fixpoint answers_of (tr : list (option (option ext) * list Z)) : list (option ext) :=
  match tr with
  | [] => []
  | (Some a, _) :: r => a :: answers_of r
  | (None, _) :: r => answers_of r
  end.

Definition corr_ok (c : case) : bool :=
  let tr := model_trace c in
  list_eqb ans_eqb (answers_of tr) (c_ans c)
  && list_eqb zlist_eqb (map snd tr) (c_valid c).

Definition prop_ok (c : case) : bool :=
  list_eqb ans_eqb (c_ans c) (c_fresh c)
  && raw_functional (raw_table 0 (0, 0) (c_ops c) (c_fresh c)).

Fixpoint check_from (i : nat) (cs : list case) : list (nat * nat) :=
  match cs with
  | [] => []
  | c :: r => (if corr_ok c then [] else [(i, 1%nat)]) ++ (if prop_ok c then [] else [(i, 2%nat)]) ++ check_from (S i) r
  end.
Definition check_all (cs : list case) : list (nat * nat) := check_from 0 cs.
