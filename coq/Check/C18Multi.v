(* Case checker for GSUB multiple substitution (driver c18multi): the REAL applySubsSequence (replacement, multiplication,
   deletion with deleteGlyph and the hand-over of the glyph flags) run through the real lookup loop (otMap.apply ->
   applyString -> applyForward -> applyGSUB) on a real Buffer with synthetic MultipleSubs tables.
   kind 1 = correspondence: Model/GsubMulti.v run on the input differs from what the implementation produced (glyph ids,
            clusters, all glyph flags, the rest of the mask, glyphProps, unicode props, ligProps, positions);
   kind 2 = oracle on the implementation's OWN outputs: (a) the cut statement of C18: for a cut of the input along cluster
            values whose cluster is present and unflagged in the whole output, the outputs of the two pieces concatenated
            differ from the whole output (everything compared, ligProps included); (b) flags persist: a cluster flagged
            unsafe-to-break in the input (other than the first cluster of the buffer) is neither flagged nor gone in the
            output. *)
From TV Require Export Model.GsubMulti Check.C18Items.

Record case := mkMC {
  m_lookups : list gmparams;
  m_in : list item;
  m_out : list item; m_panic : bool;                (* what the implementation produced *)
  m_cuts : list (nat * list item * list item)        (* k, output on input[:k], output on input[k:] *)
}.

Definition corr_ok (c : case) : bool :=
  negb (m_panic c) && items_eqb true (gm_run (m_lookups c) (m_in c)) (m_out c).

Definition cut_ok (c : case) (cut : nat * list item * list item) : bool :=
  let '(k, a, b) := cut in
  match cut_cluster (firstn k (m_in c)) (skipn k (m_in c)) with
  | None => true
  | Some cv => fog icl iutb cv (m_out c) || items_eqb true (m_out c) (a ++ b)
  end.
Definition oracle_ok (c : case) : bool :=
  m_panic c || (forallb (cut_ok c) (m_cuts c) && persist_ok (m_in c) (m_out c)).

Fixpoint check_from (i : nat) (cs : list case) : list (nat * nat) :=
  match cs with
  | [] => []
  | c :: r =>
    (if corr_ok c then [] else [(i, 1%nat)])
    ++ (if oracle_ok c then [] else [(i, 2%nat)])
    ++ check_from (S i) r
  end.
Definition check_all (cs : list case) : list (nat * nat) := check_from 0 cs.
