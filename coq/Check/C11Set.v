(* Case checker for C11, rune-set part (driver c11set).
   kind 1 = model and implementation differ (correspondence),
   kind 2 = the implementation's own output violates the specification (oracle).
   (The former kind 10, inclusion after Delete, is repaired in the library: `fix: RuneSet.includes ignores the empty
   pages left behind by Delete`; any inclusion mismatch is now a plain oracle failure.) *)
From TV Require Export Model.RuneSet Spec.RuneSet.

Definition pages := list (Z * list Z).
Definition to_rs (ps : pages) : RuneSet := map (fun p => mkPage (fst p) (snd p)) ps.
Definition of_rs (rs : RuneSet) : pages := map (fun p => (p_ref p, p_set p)) rs.

Fixpoint lists_eqb (a b : list (list Z)) : bool :=
  match a, b with
  | [], [] => true
  | x :: a', y :: b' => list_Z_eqb x y && lists_eqb a' b'
  | _, _ => false
  end.
Definition pages_eqb (a b : pages) : bool :=
  list_Z_eqb (map fst a) (map fst b) && lists_eqb (map snd a) (map snd b).

Inductive case :=
| CSet (opsA opsB : list (Z * Z))             (* histories of two sets: (0,r) Add, (1,r) Delete *)
       (pagesA pagesB : pages)                (* final internal pages of the implementation *)
       (probes : list (Z * bool * bool))      (* rune, A.rsContains, B.rsContains *)
       (lenA lenB : Z) (inclAB inclBA : bool) (* rsLen, A.rsIncludes(B), B.rsIncludes(A) *)
       (ser : list Z)                         (* A.serialize() *)
       (dstatus dn : Z) (dpages : pages)      (* deserializeFrom(ser ++ trailing) : 0 ok, consumed, pages *)
| CRange (page : list Z) (s e : Z) (out : list Z)             (* addRangeToPage *)
| CFind (ps : pages) (low ref out : Z)                        (* findPageFrom *)
| CDeser (data : list Z) (status n : Z) (ps : pages)          (* deserializeFrom on arbitrary bytes *)
| CCov (ranges : list (Z * Z)) (status : Z) (ps : pages)      (* newCoveragesFromCmapRange, 1 = panicked *)
       (probes : list (Z * bool)).                            (* rune, rsContains on the result *)

Definition run_ops (ops : list (Z * Z)) : res RuneSet :=
  fold_left (fun acc op => do rs <- acc; if fst op =? 0 then rsAdd rs (snd op) else rsDelete rs (snd op)) ops (Ok []).

Definition res_eqb {A B} (eqb : A -> B -> bool) (r : res A) (v : B) : bool :=
  match r with Ok a => eqb a v | _ => false end.
Definition rs_is (r : res RuneSet) (ps : pages) : bool := res_eqb (fun a b => pages_eqb (of_rs a) b) r ps.

Definition corr_ok (c : case) : bool :=
  match c with
  | CSet opsA opsB pA pB probes lenA lenB iab iba ser dst dn dps =>
      rs_is (run_ops opsA) pA && rs_is (run_ops opsB) pB
      && forallb (fun pr => let '(r, ca, cb) := pr in
                            res_eqb Bool.eqb (rsContains (to_rs pA) r) ca && res_eqb Bool.eqb (rsContains (to_rs pB) r) cb) probes
      && (rsLen (to_rs pA) =? lenA) && (rsLen (to_rs pB) =? lenB)
      && res_eqb Bool.eqb (rsIncludes (to_rs pA) (to_rs pB)) iab
      && res_eqb Bool.eqb (rsIncludes (to_rs pB) (to_rs pA)) iba
      && list_Z_eqb (serialize (to_rs pA)) ser
      && match deserializeFrom (ser ++ [7; 7; 7]) with
         | Ok (rs, n) => (dst =? 0) && (n =? dn) && pages_eqb (of_rs rs) dps
         | _ => negb (dst =? 0)
         end
  | CRange page s e out => list_Z_eqb (addRangeToPage page s e) out
  | CFind ps low ref out => res_eqb Z.eqb (findPageFrom (to_rs ps) low ref) out
  | CDeser data st n ps =>
      match deserializeFrom data with
      | Ok (rs, m) => (st =? 0) && (n =? m) && pages_eqb (of_rs rs) ps
      | _ => negb (st =? 0)
      end
  | CCov ranges st ps probes =>
      match coverage_from_ranges ranges with
      | Ok rs => (st =? 0) && pages_eqb (of_rs rs) ps
                 && forallb (fun pr => res_eqb Bool.eqb (rsContains (to_rs ps) (fst pr)) (snd pr)) probes
      | _ => negb (st =? 0)
      end
  end.

Fixpoint strictly_sorted (l : list Z) : bool :=
  match l with
  | a :: ((b :: _) as r) => (a <? b) && strictly_sorted r
  | _ => true
  end.
Definition ops_in_domain (ops : list (Z * Z)) : bool := forallb (fun op => rune_okb (snd op)) ops.
Definition has_empty_page (ps : pages) : bool := existsb (fun p => forallb (Z.eqb 0) (snd p)) ps.

(* the property on the implementation's own observations *)
Definition set_ok (c : case) : bool :=
  match c with
  | CSet opsA opsB pA pB probes lenA lenB iab iba ser dst dn dps =>
      negb (ops_in_domain opsA && ops_in_domain opsB) ||
      (let la := l_run opsA in
       let lb := l_run opsB in
       forallb (fun pr => let '(r, ca, cb) := pr in
                          negb (rune_okb r) || (Bool.eqb ca (l_mem la r) && Bool.eqb cb (l_mem lb r))) probes
       && (lenA =? zlen la) && (lenB =? zlen lb)
       && strictly_sorted (map fst pA) && strictly_sorted (map fst pB)
       && ((65535 <? zlen pA) || ((dst =? 0) && (dn =? zlen ser) && pages_eqb dps pA)))
  | CRange page s e out =>
      negb ((0 <=? s) && (s <=? e) && (e <? 256)) ||
      forallb (fun b => Bool.eqb (page_bit out b) (page_bit page b || ((s <=? b) && (b <=? e)))) (zrange 0 256)
  | CCov ranges st ps probes =>
      negb (ranges_ok ranges) ||
      ((st =? 0) && strictly_sorted (map fst ps)
       && forallb (fun pr => negb (rune_okb (fst pr)) || Bool.eqb (snd pr) (in_ranges ranges (fst pr))) probes)
  | _ => true
  end.
(* inclusion, separately: a.rsIncludes(b) must say whether every rune of b is in a *)
Definition incl_ok (c : case) : bool :=
  match c with
  | CSet opsA opsB pA pB _ _ _ iab iba _ _ _ _ =>
      negb (ops_in_domain opsA && ops_in_domain opsB) ||
      (Bool.eqb iab (l_includes (l_run opsA) (l_run opsB)) && Bool.eqb iba (l_includes (l_run opsB) (l_run opsA)))
  | _ => true
  end.
Fixpoint check_from (i : nat) (cs : list case) : list (nat * nat) :=
  match cs with
  | [] => []
  | c :: r =>
      (if corr_ok c then [] else [(i, 1%nat)])
        ++ (if set_ok c then [] else [(i, 2%nat)])
        ++ (if incl_ok c then [] else [(i, 2%nat)])
        ++ check_from (S i) r
  end.
Definition check_all (cs : list case) : list (nat * nat) := check_from 0 cs.
