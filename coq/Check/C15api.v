(* Case checker for C15, end to end through the public API: n faces of one family added with
   FontMap.AddFace (descriptions may leave aspect fields unset), SetQuery, ResolveFace of a rune every
   face supports.  The face returned must be the first survivor of the CSS narrowing of the family's
   faces (in insertion order), whose unset fields take the regular defaults.
   kind 1 = the model (retainsBestMatches on the defaulted footprints, head of the result) differs,
   kind 2 = the specification (head of css_narrow) differs. *)
From TV Require Export Model.Match Spec.Css.

Record case := mkCase {
  c_aspects : list (Z * Z * Z);   (* Description.Aspect of the added faces: style, 8*weight, 8*stretch *)
  c_query : Z * Z * Z;            (* Query.Aspect *)
  c_got : Z                       (* index of the face returned; -1 = nil; -2 = panic *)
}.

Definition asp3 (t : Z * Z * Z) : aspect := mkAspect (fst (fst t)) (snd (fst t)) (snd t).
Fixpoint iota (n : nat) (from : Z) : list Z :=
  match n with O => [] | S n' => from :: iota n' (from + 1) end.

(* newFootprintFromFont: out.Aspect = md.Aspect; out.Aspect.SetDefaults();
   buildCandidates: candidates[0] of retainsBestMatches (panics when empty) *)
Definition corr_ok (c : case) : bool :=
  let fs := map (fun t => set_defaults (asp3 t)) (c_aspects c) in
  match retains_best_matches_list fs (iota (length fs) 0) (asp3 (c_query c)) with
  | Ok (i :: _) => c_got c =? i
  | Ok [] => c_got c =? -2
  | Panic _ => c_got c =? -2
  | _ => false
  end.

Definition pre_ok (c : case) : bool :=
  let fs := map (fun t => css_defaults (asp3 t)) (c_aspects c) in
  cands_ok fs (iota (length fs) 0) && valid_query (asp3 (c_query c)).
Definition prop_ok (c : case) : bool :=
  negb (pre_ok c) ||
  (let fs := map (fun t => css_defaults (asp3 t)) (c_aspects c) in
   match css_narrow (asp_of fs) (iota (length fs) 0) (asp3 (c_query c)) with
   | i :: _ => c_got c =? i
   | [] => false
   end).

Fixpoint check_from (i : nat) (cs : list case) : list (nat * nat) :=
  match cs with
  | [] => []
  | c :: r => (if corr_ok c then [] else [(i, 1%nat)]) ++ (if prop_ok c then [] else [(i, 2%nat)]) ++ check_from (S i) r
  end.
Definition check_all (cs : list case) : list (nat * nat) := check_from 0 cs.
