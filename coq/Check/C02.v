(* Case checker shared by C02, C03, C04 (line wrapper).  One case = one paragraph (break attributes
   from the real segmenter), its shaped runs, and a sequence of wrapping calls made on ONE LineWrapper
   with the SAME input runs (so that glyph edits made through aliasing slices are visible).
   kind 1 = the model differs from what the implementation did (correspondence);
   kind 2 = C02 oracle (check_conservation) fails on the implementation's output, including "advance = sum of glyph
            advances" for every text run of every returned line on the store as the call left it (the former
            classification kind 10 of finding F6 - a whole input run placed with the stale Advance it had on entry - is
            gone: the library recomputes the advance of a run placed whole, and a stale Advance is a violation). *)
From TV Require Export Model.Wrap Spec.Wrap.

Definition G := mkGlyph.
Definition R := mkOut.      (* adv dir off cnt src lo len vis *)

Record call := mkCall {
  cl_dir : Z; cl_trunc : Z; cl_cont : bool; cl_policy : Z; cl_notrim : bool;
  cl_mode : Z;                                   (* 0 WrapParagraph, 1 Prepare + WrapNextLine per line *)
  cl_widths : list Z;                            (* mode 0: one width; mode 1: per call, the last repeats *)
  cl_panic : bool;                               (* the implementation panicked *)
  cl_lines : list (list out);                    (* mode 0: the paragraph *)
  cl_truncated : Z;                              (* mode 0 *)
  cl_steps : list (option (list out) * Z * Z * bool);   (* mode 1: Line (None = nil), Truncated, NextLine, done *)
  cl_diff : list (Z * Z * Z * Z * Z);            (* glyphs edited by the call: src, index, adv, offs, sls *)
  cl_reset : bool                                (* the input glyph arrays were restored to their original content before the call *)
}.

Definition rrun := (Z * Z * Z * Z * list glyph)%type.     (* dir, off, cnt, adv, glyphs *)
Record case := mkCase {
  k_attrs : list Z;
  k_runs : list rrun;
  k_truncator : rrun;
  k_calls : list call }.

Definition mk_run (i : Z) (r : rrun) : out :=
  let '(dir, off, cnt, adv, gl) := r in mkOut adv dir off cnt i 0 (zlen gl) 0.
Fixpoint mk_runs (i : Z) (rs : list rrun) : list out :=
  match rs with [] => [] | r :: rest => mk_run i r :: mk_runs (i + 1) rest end.
Definition case_runs (c : case) : list out := mk_runs 0 (k_runs c).
Definition case_tsrc (c : case) : Z := zlen (k_runs c).
Definition case_store (c : case) : store := map (fun r => snd r) (k_runs c) ++ [snd (k_truncator c)].
Definition case_truncator (c : case) : out := mk_run (case_tsrc c) (k_truncator c).
Definition case_n (c : case) : Z := zlen (k_attrs c) - 1.
Definition call_cfg (c : case) (cl : call) : wcfg :=
  mkCfg (cl_dir cl) (cl_trunc cl) (case_truncator c) (cl_cont cl) (cl_policy cl) (cl_notrim cl).

(* --- equality of observables --- *)
Definition out_eqb (a b : out) : bool :=
  (o_adv a =? o_adv b) && (o_dir a =? o_dir b) && (o_off a =? o_off b) && (o_cnt a =? o_cnt b)
  && (o_src a =? o_src b) && (o_lo a =? o_lo b) && (o_len a =? o_len b) && (o_vis a =? o_vis b).
Definition glyph_eqb (a b : glyph) : bool :=
  glyph_struct_eqb a b && (g_adv a =? g_adv b) && (g_offs a =? g_offs b) && (g_sls a =? g_sls b).
Definition store_eqb (a b : store) : bool := list_eqb (list_eqb glyph_eqb) a b.
Definition oline_eqb (a b : option (list out)) : bool :=
  match a, b with
  | None, None => true
  | Some x, Some y => list_eqb out_eqb x y
  | _, _ => false
  end.
Definition step_eqb (a : wrapped * bool) (b : option (list out) * Z * Z * bool) : bool :=
  let '(l, t, nx, d) := b in
  oline_eqb (wl_line (fst a)) l && (wl_truncated (fst a) =? t) && (wl_next (fst a) =? nx) && Bool.eqb (snd a) d.

Fixpoint list_eqb2 {A B} (eqb : A -> B -> bool) (a : list A) (b : list B) : bool :=
  match a, b with
  | [], [] => true
  | x :: a', y :: b' => eqb x y && list_eqb2 eqb a' b'
  | _, _ => false
  end.

Definition apply_diff (st : store) (d : list (Z * Z * Z * Z * Z)) : store :=
  fold_left (fun st e => let '(src, i, adv, offs, sls) := e in
     store_update st src i (fun g => mkGlyph (g_cluster g) (g_rc g) (g_gc g) adv (g_ext g) offs sls (g_els g))) d st.

(* --- correspondence: thread one wrapper and one store through the calls --- *)
Definition call_width (cl : call) : Z := match cl_widths cl with x :: _ => x | [] => 0 end.

Definition corr_call (c : case) (w : W) (cl : call) : option W :=
  let w := if cl_reset cl then set_st w (case_store c) else w in
  let st_go := apply_diff (w_st w) (cl_diff cl) in
  if cl_mode cl =? 0 then
    match wrap_paragraph w (call_cfg c cl) (call_width cl) (k_attrs c) (case_runs c) with
    | Ok (w', lines, tr) =>
        if negb (cl_panic cl) && list_eqb (list_eqb out_eqb) lines (cl_lines cl) && (tr =? cl_truncated cl)
           && store_eqb (w_st w') st_go then Some w' else None
    | Panic _ => if cl_panic cl then Some (set_st w st_go) else None
    | _ => None
    end
  else
    match wrap_iterative w (call_cfg c cl) (cl_widths cl) (k_attrs c) (case_runs c) with
    | Ok (w', steps) =>
        if negb (cl_panic cl) && list_eqb2 step_eqb steps (cl_steps cl) && store_eqb (w_st w') st_go then Some w' else None
    | Panic _ => if cl_panic cl then Some (set_st w st_go) else None
    | _ => None
    end.

Fixpoint corr_calls (c : case) (w : W) (cls : list call) : bool :=
  match cls with
  | [] => true
  | cl :: rest => match corr_call c w cl with Some w' => if cl_panic cl then true else corr_calls c w' rest | None => false end
  end.
Definition corr_ok (c : case) : bool := corr_calls c (w_zero (case_store c)) (k_calls c).

(* --- what the implementation returned, in the shape the oracles take --- *)
Definition call_lines (cl : call) : list (list out) :=
  if cl_mode cl =? 0 then cl_lines cl
  else concat (map (fun s => match s with (Some l, _, _, _) => [l] | _ => [] end) (cl_steps cl)).
(* mode 1: width of each non-nil line; Truncated reported by the call that finished *)
Fixpoint step_widths (steps : list (option (list out) * Z * Z * bool)) (widths : list Z) : list Z :=
  match steps with
  | [] => []
  | s :: rest =>
      let wd := match widths with x :: _ => x | [] => 0 end in
      let wr := match widths with _ :: ((_ :: _) as r) => r | _ => widths end in
      match s with (Some _, _, _, _) => wd :: step_widths rest wr | _ => step_widths rest wr end
  end.
Definition call_line_widths (cl : call) : list Z :=
  if cl_mode cl =? 0 then map (fun _ => call_width cl) (cl_lines cl) else step_widths (cl_steps cl) (cl_widths cl).
Definition call_truncated (cl : call) : Z :=
  if cl_mode cl =? 0 then cl_truncated cl
  else fold_left (fun acc s => let '(_, t, _, _) := s in Z.max acc t) (cl_steps cl) 0.

(* iterate an oracle over the calls; the store on entry of a call is the store left by the previous one.
   f st0 st1 cl : kind of failure, 0 = none *)
Fixpoint oracle_calls (orig st : store) (cls : list call) (f : store -> store -> call -> nat) : list nat :=
  match cls with
  | [] => []
  | cl :: rest =>
      let st := if cl_reset cl then orig else st in
      let st1 := apply_diff st (cl_diff cl) in
      if cl_panic cl then [] else
      (match f st st1 cl with O => [] | k => [k] end) ++ oracle_calls orig st1 rest f
  end.

(* the hypothesis of the properties, on the store as the FIRST call found it *)
Definition case_wf (c : case) : bool :=
  wf_runs (case_store c) (case_runs c) (case_n c) && adv_consistent (case_store c) (case_runs c)
  && (1 <=? zlen (k_attrs c)).

Definition c02_kind (c : case) (st0 st1 : store) (cl : call) : nat :=
  let lines := call_lines cl in
  let tsrc := case_tsrc c in
  if conservation_structure (case_n c) (case_runs c) st0 st1 tsrc lines (call_truncated cl) then
    if conservation_advance st1 tsrc lines then 0%nat else 2%nat
  else 2%nat.

Definition oracle_kinds (c : case) (f : case -> store -> store -> call -> nat) : list nat :=
  if case_wf c then oracle_calls (case_store c) (case_store c) (k_calls c) (f c) else [].

Fixpoint check_from (f : case -> store -> store -> call -> nat) (i : nat) (cs : list case) : list (nat * nat) :=
  match cs with
  | [] => []
  | c :: r => (if corr_ok c then [] else [(i, 1%nat)]) ++ map (fun k => (i, k)) (oracle_kinds c f) ++ check_from f (S i) r
  end.
Definition check_all (cs : list case) : list (nat * nat) := check_from c02_kind 0 cs.
