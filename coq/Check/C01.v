(* Case checker for C01, part 1 (rune accounting of shaping.Shape): evaluated by vm_compute on what the Go driver observed.
   kind 1 = model and implementation differ, kind 2 = the implementation's output violates the C01 statement. *)
From TV Require Export Model.ShapeGlue Spec.ShapeGlue.

Inductive case :=
| CCount (cls : list Z) (textLen : Z) (rtl : bool) (out : list (Z * Z * Z))   (* countClusters on a glyph slice *)
| CClamp (v lo hi r : Z)
| CShape (textLen rs re : Z) (rtl : bool) (panicked : bool) (out : list (Z * Z * Z)) (off cnt : Z).  (* a real Shape call *)

Definition cg_of (t : Z * Z * Z) : cglyph := mkCG (fst (fst t)) (snd (fst t)) (snd t).
Definition cg_eqb (a b : cglyph) : bool := (cg_cl a =? cg_cl b) && (cg_rc a =? cg_rc b) && (cg_gc a =? cg_gc b).
Fixpoint cgs_eqb (a b : list cglyph) : bool :=
  match a, b with
  | [], [] => true
  | x :: a', y :: b' => cg_eqb x y && cgs_eqb a' b'
  | _, _ => false
  end.

Definition corr_ok (c : case) : bool :=
  match c with
  | CCount cls n rtl out => cgs_eqb (count_clusters cls n rtl) (map cg_of out)
  | CClamp v lo hi r => clamp v lo hi =? r
  | CShape n rs re rtl panicked out off cnt =>
    (* the engine is whatever the real engine returned on this call *)
    match shape_glue (fun _ => map (fun t => fst (fst t)) out) n rs re rtl with
    | Ok o => negb panicked && cgs_eqb (so_glyphs o) (map cg_of out) && (so_offset o =? off) && (so_count o =? cnt)
    | _ => panicked
    end
  end.

(* the C01 statement: for bounds within the text the output reports the requested range, clusters lie in it and are
   monotone, counts are uniform per cluster and correct, and (when a glyph is produced) the rune counts sum to the run length *)
Definition full_accounting_ok (rtl : bool) (s e : Z) (out : list cglyph) : bool :=
  accounting_ok rtl s e out && match out with [] => true | _ => lmin (map cg_cl out) =? s end.

Definition prop_ok (c : case) : bool :=
  match c with
  | CCount cls n rtl out =>
    negb (mono rtl cls && in_range 0 n cls) || accounting_ok rtl 0 n (map cg_of out)
  | CClamp v lo hi r => negb (lo <=? hi) || ((lo <=? r) && (r <=? hi))
  | CShape n rs re rtl panicked out off cnt =>
    negb ((0 <=? rs) && (rs <=? re) && (re <=? n))
    || (negb panicked && (off =? rs) && (cnt =? re - rs) && full_accounting_ok rtl rs re (map cg_of out))
  end.

Fixpoint check_from (i : nat) (cs : list case) : list (nat * nat) :=
  match cs with
  | [] => []
  | c :: r => (if corr_ok c then [] else [(i, 1%nat)]) ++ (if prop_ok c then [] else [(i, 2%nat)]) ++ check_from (S i) r
  end.
Definition check_all (cs : list case) : list (nat * nat) := check_from 0 cs.
