(* Case checker for GPOS mark-to-mark attachment (driver c18mkmk): the REAL applyGPOSMarkToMark / applyGPOSMarks run
   through the real lookup loop on a real Buffer with synthetic MarkMarkPos subtables (serialised and read back by the
   library's parser).
   kind 1 = correspondence: Model/MarkMark.v (mm_run) run on the input differs from what the implementation produced
            (glyph ids, clusters, all glyph flags, glyphProps, unicode props, ligProps, positions, attachment chain / type,
            bsfHasGlyphFlags);
   kind 2 = oracle, the cut statement of C18 on the implementation's OWN outputs (as in Check/C18Engine.v). *)
From TV Require Export Model.MarkMark Check.C18Engine.

Record case := mkMC {
  m_lookups : list mbparams;
  m_in : list item; m_rec : bool;
  m_out : list item; m_orec : bool; m_panic : bool;
  m_cuts : list (nat * list item * list item)
}.

Definition mcorr_ok (c : case) : bool :=
  negb (m_panic c)
  && let '(o, r) := mm_run (m_lookups c) (m_in c) (m_rec c) in
     items_eqb true o (m_out c) && Bool.eqb r (m_orec c).

Definition mcut_ok (c : case) (cut : nat * list item * list item) : bool :=
  let '(k, a, b) := cut in
  match cut_cluster (firstn k (m_in c)) (skipn k (m_in c)) with
  | None => true
  | Some cv => fog icl iutb cv (m_out c) || items_same (m_out c) (a ++ b)
  end.
Definition moracle_ok (c : case) : bool := m_panic c || forallb (mcut_ok c) (m_cuts c).

Fixpoint mcheck_from (i : nat) (cs : list case) : list (nat * nat) :=
  match cs with
  | [] => []
  | c :: r =>
    (if mcorr_ok c then [] else [(i, 1%nat)])
    ++ (if moracle_ok c then [] else [(i, 2%nat)])
    ++ mcheck_from (S i) r
  end.
Definition check_all (cs : list case) : list (nat * nat) := mcheck_from 0 cs.
