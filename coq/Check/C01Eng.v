(* Case checker for C01 part 4 (cluster bookkeeping glue of the shaping engine), evaluated by vm_compute on what the Go driver
   observed on the REAL functions (through harfbuzz/verif_export_c01c.go).  A case is an environment (Unicode data of the
   runes involved, the cmap of the stub font, the decompose / compose tables and the mode of the stub shaper), an initial
   engine buffer and a sequence of stages with the state observed after each.
   kind 1 = the model applied to the state observed before a stage differs from the state observed after it,
   kind 2 = a statement of C01 fails on the observed states: WF not preserved or a panic although it held before, the smallest
            cluster lost, a cluster value invented, formClusters (MonotoneGraphemes) leaving a continuation outside the cluster of its base,
            ensureMonotoneClusters leaving clusters out of order. *)
From TV Require Export Lib.Bytes Model.Engine Spec.Buffer Check.C01Buf.

Record uni := mkU { u_cp : Z; u_gc : Z; u_di : bool; u_mcc : Z; u_ep : bool; u_sp : Z; u_gid : Z; u_has : bool }.
Record env := mkEnv {
  v_unis : list uni;
  v_dec : list (Z * Z * Z);            (* ab, a, b *)
  v_comp : list (Z * Z * Z);           (* a, b, ab *)
  v_var : list (Z * Z * Z * bool);     (* rune, selector, glyph, ok *)
  v_mode : Z; v_reorder : Z; v_mcm : list Z; v_horiz : Z
}.

Definition ufind (v : env) (r : Z) : option uni := find (fun u => u_cp u =? r) (v_unis v).
Definition e_gc v r := match ufind v r with Some u => u_gc u | None => 2 end.          (* unassigned *)
Definition e_di v r := match ufind v r with Some u => u_di u | None => false end.
Definition e_mcc v r := match ufind v r with Some u => u_mcc u | None => 0 end.
Definition e_ep v r := match ufind v r with Some u => u_ep u | None => false end.
Definition e_sp v r := match ufind v r with Some u => u_sp u | None => 0 end.
Definition e_nominal v r := match ufind v r with Some u => (u_gid u, u_has u) | None => (0, false) end.
Definition e_var v (r s : Z) : Z * bool :=
  match find (fun x => let '(a, b, _, _) := x in (a =? r) && (b =? s)) (v_var v) with
  | Some (_, _, g, ok) => (g, ok) | None => (0, false) end.
Definition e_dec v (ab : Z) : option (Z * Z) :=
  match find (fun x => let '(k, _, _) := x in k =? ab) (v_dec v) with Some (_, a, b) => Some (a, b) | None => None end.
Definition e_comp v (a b : Z) : option Z :=
  match find (fun x => let '(p, q, _) := x in (p =? a) && (q =? b)) (v_comp v) with Some (_, _, ab) => Some ab | None => None end.
Definition e_mcm v (r : Z) : bool := existsb (Z.eqb r) (v_mcm v).

Inductive stage :=
| SSetProps | SDotted | SForm | SNative | SNormalize | SHide | SEmc (asc : bool) | SPreGsub
| SAddRunes (text : list Z) (off len cap : Z) | SAddRune (r c cap : Z).

Definition dfuel0 : nat := 40.

Definition run_stage (v : env) (s : stage) (e : ebuf) : res ebuf :=
  let cprops := compute_props (e_gc v) (e_di v) (e_mcc v) in
  match s with
  | SSetProps => Ok (set_unicode_props (e_gc v) (e_di v) (e_mcc v) (e_ep v) e)
  | SDotted => insert_dotted_circle (e_gc v) (e_di v) (e_mcc v) (e_nominal v) e
  | SForm => form_clusters e
  | SNative => ensure_native_direction (v_horiz v) e
  | SNormalize => normalize (e_gc v) (e_di v) (e_mcc v) (e_sp v) (e_nominal v) (e_var v) (e_dec v) (e_comp v) (v_mode v) (v_reorder v) (e_mcm v) dfuel0 e
  | SHide => hide_default_ignorables (e_nominal v) e
  | SEmc asc => lift e (ensure_monotone_clusters asc (eb e))
  | SPreGsub => pre_gsub (e_gc v) (e_di v) (e_mcc v) (e_ep v) (e_sp v) (e_nominal v) (e_var v) (e_dec v) (e_comp v) (v_mode v) (v_reorder v) (e_mcm v) dfuel0 (v_horiz v) e
  | SAddRunes t off len k => e_add_runes e t off len k
  | SAddRune r c k => e_add_rune e r c k
  end.

Inductive eobs := EState (e : ebuf) | EPanic.
Record case := mkCase { c_env : env; c_init : ebuf; c_steps : list (stage * eobs) }.

Definition ebuf_eqb (a b : ebuf) : bool :=
  buffer_eqb (eb a) (eb b) && list_Z_eqb (ctx_pre a) (ctx_pre b) && list_Z_eqb (ctx_post a) (ctx_post b)
  && Bool.eqb (sf_nonascii a) (sf_nonascii b) && Bool.eqb (sf_di a) (sf_di b) && Bool.eqb (sf_cgj a) (sf_cgj b)
  && Bool.eqb (sf_space a) (sf_space b) && Bool.eqb (f_bot a) (f_bot b) && Bool.eqb (f_preserve_di a) (f_preserve_di b)
  && Bool.eqb (f_remove_di a) (f_remove_di b) && Bool.eqb (f_no_dc a) (f_no_dc b) && (dir a =? dir b)
  && (invisible a =? invisible b) && (notfound a =? notfound b).

Fixpoint esteps_corr (v : env) (cur : ebuf) (steps : list (stage * eobs)) : bool :=
  match steps with
  | [] => true
  | (s, ob) :: r =>
    match run_stage v s cur, ob with
    | Ok m, EState st => ebuf_eqb m st && esteps_corr v st r
    | Panic _, EPanic => true
    | _, _ => false
    end
  end.

(* what a stage needs besides WF: no output in progress, cursor at 0; grapheme reversal without merging needs the
   continuation glyphs inside the cluster of their base (what formClusters establishes at MonotoneGraphemes) *)
Definition stage_pre (v : env) (s : stage) (e : ebuf) : bool :=
  let b := eb e in
  negb (have_out b) && (idx b =? 0)
  && match s with
     | SNative => (level b =? 1) || groups_uniform (info b)
     | SAddRunes t off len k => pre (OAddRunes t off len k) b
     | SAddRune r c k => pre (OAddRune r c k) b
     | _ => true
     end.
Definition stage_rng (lo hi : Z) (s : stage) : bool :=
  match s with
  | SAddRunes t off len k => op_rng lo hi (OAddRunes t off len k)
  | SAddRune r c k => op_rng lo hi (OAddRune r c k)
  | _ => true
  end.

(* no stage other than AddRunes / AddRune invents a cluster value *)
Definition no_new_cluster (before after : buffer) : bool :=
  forallb (fun c => existsb (Z.eqb c) (cls (bseq before))) (cls (bseq after)).
Definition stage_post (s : stage) (cur st : ebuf) : bool :=
  match s with
  | SAddRunes _ _ _ _ | SAddRune _ _ _ => true
  | SForm => keeps_min_ok (eb cur) (eb st) && no_new_cluster (eb cur) (eb st)
             && (negb (level (eb cur) =? 0) || negb (sf_nonascii cur) || groups_uniform (info (eb st)))
  | _ => keeps_min_ok (eb cur) (eb st) && no_new_cluster (eb cur) (eb st)
  end.

Section Steps.
  Variable v : env.
  Variables lo hi : Z.
  Fixpoint esteps_prop (cur : ebuf) (steps : list (stage * eobs)) : bool :=
    match steps with
    | [] => true
    | (s, ob) :: r =>
      let wf := negb (level (eb cur) =? 2) && WF lo hi (eb cur) && stage_pre v s cur && stage_rng lo hi s in
      match ob with
      | EState st =>
        (negb wf || (WF lo hi (eb st) && stage_post s cur st))
        (* ensureMonotoneClusters: whatever the buffer, the clusters come out in the order asked for *)
        && match s with
           | SEmc asc => (level (eb cur) =? 2) || have_out (eb cur) || mono (negb asc) (cls (info (eb st)))
           | _ => true
           end
        && esteps_prop st r
      | EPanic => negb wf
      end
    end.
End Steps.

Definition stage_clusters (s : stage) : list Z :=
  match s with
  | SAddRunes t off len k => op_clusters (OAddRunes t off len k)
  | SAddRune r c k => [c]
  | _ => []
  end.
Definition ecase_range (c : case) : Z * Z :=
  let l := cls (bseq (eb (c_init c))) ++ flat_map (fun s => stage_clusters (fst s)) (c_steps c) in (lmin l, lmax l + 1).

(* the obligations the theorems put on the per-case data: general categories are numbers below 32 (pre_normalize_preserves_wf,
   default_pipeline_preserves_wf); a case whose data violates them is reported as a broken tie (kind 1) *)
Definition env_ok (v : env) : bool := forallb (fun u => (0 <=? u_gc u) && (u_gc u <? 32)) (v_unis v).
Definition ecorr_ok (c : case) : bool := env_ok (c_env c) && esteps_corr (c_env c) (c_init c) (c_steps c).
Definition eprop_ok (c : case) : bool :=
  let '(lo, hi) := ecase_range c in esteps_prop (c_env c) lo hi (c_init c) (c_steps c).

Fixpoint echeck_from (i : nat) (cs : list case) : list (nat * nat) :=
  match cs with
  | [] => []
  | c :: r => (if ecorr_ok c then [] else [(i, 1%nat)]) ++ (if eprop_ok c then [] else [(i, 2%nat)]) ++ echeck_from (S i) r
  end.
Definition check_all (cs : list case) : list (nat * nat) := echeck_from 0 cs.
