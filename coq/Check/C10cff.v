(* Case checker for C10, CFF (Type 2 charstrings).
   The model (Model/Charstring.v) interprets the raw charstring bytes with the raw subroutine lists and must reproduce
   the segments (float32 bit patterns), the path bounds (float64 values, all multiples of 2^-16, printed as value * 2^16)
   and the glyph extents of the library.
   kind 1 = correspondence: one side rejects the charstring and the other does not, or the model cannot evaluate the case
            (fuel, float64 exactness bound);
   kind 2 = oracle: segments / bounds / extents differ from the independent decoding, or the library's own output is not a
            well-formed path (first segment not a MoveTo, a contour other than the last not closed, a drawn point outside
            the bounds, a bound not attained, extents not the rounded bounds). *)
From TV Require Export Model.Charstring.
Open Scope Z_scope.

(* observed segments: every float32 coordinate is printed as the integer  value * 2^(149 - cg_shift)  (cg_shift = 149 when all
   coordinates of the glyph are integers, 133 = units of 2^-16 otherwise; the driver refuses any other float32) *)
Definition S0 (x y : Z) : cseg := CMove (x, y).
Definition S1 (x y : Z) : cseg := CLine (x, y).
Definition S3 (a b c d e f : Z) : cseg := CCube (a, b) (c, d) (e, f).

Record gcase := mkCG {
  cg_gid : Z;
  cg_cs : list Z;                  (* raw charstring *)
  cg_err : bool;                   (* LoadGlyph returned an error *)
  cg_shift : Z;
  cg_segs : list cseg;
  cg_bounds : Z * Z * Z * Z;       (* Min.X, Min.Y, Max.X, Max.Y, times 2^16 *)
  cg_ext : Z * Z * Z * Z           (* XBearing, YBearing, Width, Height: float32 bit patterns *)
}.

Inductive case :=
| CCff (lsubrs gsubrs : list (list Z)) (glyphs : list gcase)
(* CFF2 at the default coordinates: per ItemVariationData its region count and validity, the default vsindex *)
| CCff2 (lsubrs gsubrs : list (list Z)) (vs : list (Z * bool)) (default_vs : Z) (glyphs : list gcase).

Definition fuel_z : Z := 300000.

Definition bits_is (b : Z) (v : Z) : bool := match f32_of_bits b with Some x => x =? v | None => false end.
Definition bpt_is (sh : Z) (b : pt) (v : pt) : bool :=
  (Z.shiftl (fst b) sh =? f32_of_fx (fst v)) && (Z.shiftl (snd b) sh =? f32_of_fx (snd v)).
Definition bseg_is (sh : Z) (b v : cseg) : bool :=
  match b, v with
  | CMove p, CMove q => bpt_is sh p q
  | CLine p, CLine q => bpt_is sh p q
  | CCube a b c, CCube d e f => bpt_is sh a d && bpt_is sh b e && bpt_is sh c f
  | _, _ => false
  end.
Fixpoint all2 {A B} (f : A -> B -> bool) (a : list A) (b : list B) : bool :=
  match a, b with
  | [], [] => true
  | x :: a', y :: b' => f x y && all2 f a' b'
  | _, _ => false
  end.
Definition quad_eqb (a b : Z * Z * Z * Z) : bool :=
  let '(a1, a2, a3, a4) := a in let '(b1, b2, b3, b4) := b in (a1 =? b1) && (a2 =? b2) && (a3 =? b3) && (a4 =? b4).
Definition ext_is (b v : Z * Z * Z * Z) : bool :=
  let '(a1, a2, a3, a4) := b in let '(b1, b2, b3, b4) := v in bits_is a1 b1 && bits_is a2 b2 && bits_is a3 b3 && bits_is a4 b4.

(* ---- well-formedness of the library's own output ---- *)
Definition dec_pt (sh : Z) (p : pt) : pt := (Z.shiftl (fst p) sh, Z.shiftl (snd p) sh).
Definition dec_seg (sh : Z) (s : cseg) : cseg :=
  match s with CMove p => CMove (dec_pt sh p) | CLine p => CLine (dec_pt sh p)
             | CCube a b c => CCube (dec_pt sh a) (dec_pt sh b) (dec_pt sh c) end.
Definition seg_end (s : cseg) : pt := match s with CMove p => p | CLine p => p | CCube _ _ p => p end.
Definition is_move (s : cseg) : bool := match s with CMove _ => true | _ => false end.

(* every contour but the last one ends where it started; the segments before the first MoveTo form a contour that starts
   at the origin (firstPoint is initially (0,0)) *)
Fixpoint contours_ok (start : option pt) (cur : pt) (l : list cseg) : bool :=
  match l with
  | [] => true
  | s :: r =>
      match s with
      | CMove p => match start with Some q => pt_eqb q cur | None => true end && contours_ok (Some p) p r
      | _ => match start with Some _ => contours_ok start (seg_end s) r | None => false end
      end
  end.

Definition drawn_points (l : list cseg) : list pt :=
  flat_map (fun s => match s with CMove _ => [] | _ => seg_points s end) l.
(* the point a path is opened from (the current point when the first drawing segment of a contour is met) is in the bounds *)
Fixpoint open_points (cur : pt) (opened : bool) (l : list cseg) : list pt :=
  match l with
  | [] => []
  | CMove p :: r => open_points p false r
  | s :: r => (if opened then [] else [cur]) ++ open_points (seg_end s) true r
  end.

Definition bounds_ok (segs : list cseg) (b : Z * Z * Z * Z) : bool :=
  let '(minx, miny, maxx, maxy) := b in
  let pts := drawn_points segs ++ open_points (0, 0) false segs in
  match pts with
  | [] => quad_eqb b (0, 0, 0, 0)
  | _ =>
      let fx := f32_of_fx in
      forallb (fun p => (fx minx <=? fst p) && (fst p <=? fx maxx) && (fx miny <=? snd p) && (snd p <=? fx maxy)) pts
      && existsb (fun p => fst p =? fx minx) pts && existsb (fun p => fst p =? fx maxx) pts
      && existsb (fun p => snd p =? fx miny) pts && existsb (fun p => snd p =? fx maxy) pts
  end.

Definition shape_ok (g : gcase) : bool :=
  let segs := map (dec_seg (cg_shift g)) (cg_segs g) in
  contours_ok (Some (0, 0)) (0, 0) segs && bounds_ok segs (cg_bounds g) && ext_is (cg_ext g) (to_extents (cg_bounds g)).

Definition result_kind (res : res (list cseg * (Z * Z * Z * Z))) (g : gcase) : nat :=
  match res with
  | Ok (segs, b) =>
      if cg_err g then 1%nat
      else if negb (cs_exact segs) then 1%nat
      else if ((cg_shift g =? 149) || (cg_shift g =? 133)) && all2 (bseg_is (cg_shift g)) (cg_segs g) segs && quad_eqb (cg_bounds g) b && ext_is (cg_ext g) (to_extents b) && shape_ok g
           then 0%nat else 2%nat
  | Err _ => if cg_err g then 0%nat else 1%nat
  | _ => 1%nat
  end.
Definition glyph_kind (lsubrs gsubrs : list (list Z)) (g : gcase) : nat :=
  result_kind (load_glyph (Z.to_nat fuel_z) (cg_cs g) lsubrs gsubrs) g.
Definition glyph_kind2 (lsubrs gsubrs : list (list Z)) (vs : list (Z * bool)) (dvs : Z) (g : gcase) : nat :=
  result_kind (load_glyph2 (Z.to_nat fuel_z) (cg_cs g) lsubrs gsubrs vs dvs) g.

Definition case_kinds (c : case) : list nat :=
  match c with
  | CCff lsubrs gsubrs glyphs =>
      let ks := map (glyph_kind lsubrs gsubrs) glyphs in
      (if existsb (Nat.eqb 1) ks then [1%nat] else []) ++ (if existsb (Nat.eqb 2) ks then [2%nat] else [])
  | CCff2 lsubrs gsubrs vs dvs glyphs =>
      let ks := map (glyph_kind2 lsubrs gsubrs vs dvs) glyphs in
      (if existsb (Nat.eqb 1) ks then [1%nat] else []) ++ (if existsb (Nat.eqb 2) ks then [2%nat] else [])
  end.

Fixpoint check_from (i : nat) (cs : list case) : list (nat * nat) :=
  match cs with
  | [] => []
  | c :: r => map (fun k => (i, k)) (case_kinds c) ++ check_from (S i) r
  end.
Definition check_all (cs : list case) : list (nat * nat) := check_from 0 cs.
