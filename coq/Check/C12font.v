(* Case checker for harfbuzz/fonts.go and the default positioning of harfbuzz/ot_shaper.go (C12), drivers c12font, c12pos.
   float32 values travel as their bit patterns (math.Float32bits) and are decoded by F32.f32_of_bits.
   kind 1 = the model (Model/HbFont.v, Model/HbPos.v) differs from what the implementation returned,
   kind 2 = a statement of Spec/HbFont.v is false on the implementation's own results. *)
From Coq Require Import ZArith List Bool.
From TV Require Export Lib.GoNum Model.F32 Model.HbFont Model.HbPos Spec.HbFont.
Import ListNotations.
Open Scope Z_scope.

Definition fb (b : Z) : Z := match f32_of_bits b with Some v => v | None => 0 end.
Definition fb_ok (b : Z) : bool := match f32_of_bits b with Some _ => true | None => false end.

(* what the face answers for one glyph (floats as bits) *)
Record gface := mkGF { gf_gid : Z; gf_hadv : Z; gf_vadv : Z; gf_ho : Z * Z * bool; gf_vo : Z * Z * bool; gf_ext : option (Z * Z * Z * Z) }.
(* what the font returned for one glyph *)
Record gres := mkGR {
  gr_gid : Z; gr_hadv : Z; gr_vadv : Z; gr_advdir : Z * Z; gr_ho : Z * Z; gr_vo : Z * Z; gr_odir : Z * Z; gr_guess : Z * Z;
  gr_ext : option (Z * Z * Z * Z); gr_subdir : Z * Z; gr_subh : Z * Z; gr_subv : Z * Z; gr_addh : Z * Z }.

Definition bits3 (t : Z * Z * Z) : fext3 := let '(a, d, g) := t in mkF3 (fb a) (fb d) (fb g).
Definition bits3_ok (t : Z * Z * Z) : bool := let '(a, d, g) := t in fb_ok a && fb_ok d && fb_ok g.

Fixpoint find_gf (l : list gface) (g : Z) : option gface :=
  match l with
  | [] => None
  | x :: r => if gf_gid x =? g then Some x else find_gf r g
  end.

Definition face_of (hext vext : (Z * Z * Z) * bool) (vm : bool) (gl : list gface) : face :=
  mkFace (bits3 (fst hext), snd hext) (bits3 (fst vext), snd vext) vm
    (fun g => match find_gf gl g with Some x => fb (gf_hadv x) | None => 0 end)
    (fun g => match find_gf gl g with Some x => fb (gf_vadv x) | None => 0 end)
    (fun g => match find_gf gl g with Some x => gf_ho x | None => (0, 0, false) end)
    (fun g => match find_gf gl g with Some x => gf_vo x | None => (0, 0, false) end)
    (fun g => match find_gf gl g with
              | Some x => match gf_ext x with Some (a, b, c, d) => Some (mkG4 (fb a) (fb b) (fb c) (fb d)) | None => None end
              | None => None end).

Definition pair_eqb (a b : Z * Z) : bool := (fst a =? fst b) && (snd a =? snd b).
Definition f3_eqb (a b : fext3) : bool := (x_asc a =? x_asc b) && (x_desc a =? x_desc b) && (x_gap a =? x_gap b).
Definition ext_eqb (a : option gext4) (b : option (Z * Z * Z * Z)) : bool :=
  match a, b with
  | None, None => true
  | Some e, Some (xb, yb, w, h) => (x_xb e =? xb) && (x_yb e =? yb) && (x_w e =? w) && (x_h e =? h)
  | _, _ => false
  end.
Definition pp_eqb (a b : ppos) : bool := (pp_xa a =? pp_xa b) && (pp_ya a =? pp_ya b) && (pp_xo a =? pp_xo b) && (pp_yo a =? pp_yo b).
Definition adv_eqb (a b : ppos) : bool := (pp_xa a =? pp_xa b) && (pp_ya a =? pp_ya b).
Fixpoint all2 {A B} (f : A -> B -> bool) (l : list A) (m : list B) : bool :=
  match l, m with
  | [], [] => true
  | a :: l', b :: m' => f a b && all2 f l' m'
  | _, _ => false
  end.

(* the specification of one scaled value, on the implementation's result r for the float32 face value x (units):
   inside scale_exact the exact rounding of v*s/u; for every integer-valued x inside the stated range the error bound *)
Definition scaled_ok (x s u r : Z) : bool :=
  if f32_is_int x then
    let v := f32_int x in
    (if scale_exact v s u then r =? scale_spec v s u else true)
    && (if in_range v s u then scale_err_ok v s u r && (Z.abs r <=? 2 ^ 29 + 65) else true)
  else true.

Inductive case :=
(* emScalefX(v), emScalefY(v), emScalefX(-v), roundf(v), emScaleX(v16), emScaleY(v16), emFscaleX(v16), emFscaleY(v16) *)
| CScale (vbits v16 xs ys upem : Z) (fx fy fxn rf sx sy ffx ffy : Z)
(* a face (what it answers), a font (upem, XScale, YScale), a direction and a point; the font's answers *)
| CFace (hext vext : (Z * Z * Z) * bool) (vm : bool) (gl : list gface) (newupem upem xs ys : Z) (dir px py : Z)
        (fe : list (Z * (Z * Z * Z))) (hfb : Z * Z * Z) (hasc : Z) (gr : list gres)
(* one positioning: face, font, direction, buffer, plan; positions after positionDefault and after position() *)
| CPos (hext vext : (Z * Z * Z) * bool) (vm : bool) (gl : list gface) (upem xs ys : Z) (dir : Z)
       (infos : list pinfo) (space_fallback : bool) (sc : spacecfg) (pl : pplan) (fl : pflags)
       (noop_plan : bool)                                   (* no GPOS, kern, kerx, trak, morx in the plan *)
       (umarks : list bool)                                 (* per glyph: Unicode non-spacing mark (what fallbackMarkPosition touches) *)
       (dflt final : list ppos) (final_gids : list Z).

Definition check_gres (fc : face) (ft : hbfont) (dir px py : Z) (r : gres) : bool :=
  let g := gr_gid r in
  (glyph_h_advance fc ft g =? gr_hadv r) && (glyph_v_advance fc ft g =? gr_vadv r)
  && pair_eqb (glyph_advance_for_direction fc ft g dir) (gr_advdir r)
  && pair_eqb (glyph_h_origin fc ft g) (gr_ho r) && pair_eqb (glyph_v_origin fc ft g) (gr_vo r)
  && pair_eqb (glyph_origin_for_direction fc ft g dir) (gr_odir r)
  && pair_eqb (guess_v_minus_h fc ft g) (gr_guess r)
  && ext_eqb (glyph_extents fc ft g) (gr_ext r)
  && pair_eqb (subtract_glyph_origin_for_direction fc ft g dir (px, py)) (gr_subdir r)
  && pair_eqb (subtract_glyph_h_origin fc ft g (px, py)) (gr_subh r)
  && pair_eqb (subtract_glyph_v_origin fc ft g (px, py)) (gr_subv r)
  && pair_eqb (add_glyph_h_origin fc ft g (px, py)) (gr_addh r).

(* oracle on the font's own answers for one glyph: the advances and extents are the face's values under the scale *)
Definition oracle_gres (fc : face) (ft : hbfont) (r : gres) : bool :=
  let g := gr_gid r in
  scaled_ok (fc_hadv fc g) (ft_xscale ft) (ft_upem ft) (gr_hadv r)
  && (if fc_vmetrics fc then scaled_ok (fc_vadv fc g) (ft_yscale ft) (ft_upem ft) (gr_vadv r) else true)
  && match fc_gext fc g, gr_ext r with
     | Some e, Some (xb, yb, w, h) =>
       scaled_ok (x_xb e) (ft_xscale ft) (ft_upem ft) xb && scaled_ok (x_w e) (ft_xscale ft) (ft_upem ft) w
       && scaled_ok (x_yb e) (ft_yscale ft) (ft_upem ft) yb && scaled_ok (x_h e) (ft_yscale ft) (ft_upem ft) h
     | None, None => true
     | _, _ => false
     end
  (* adding then subtracting the horizontal origin gives the point back: addh - ho = point + ... checked through subh/addh *)
  && pair_eqb (sub_xy (gr_addh r) (gr_ho r)) (sub_xy (add_xy (gr_subh r) (gr_ho r)) (0, 0)).

(* the font extents of one direction, specified from the face: scale = YScale for horizontal, XScale for vertical
   directions; without face extents 0.8 / -0.2 em resp. +- 0.5 em (as float32) *)
Definition oracle_fext (fc : face) (ft : hbfont) (d : Z) (got : fext3) : bool :=
  let h := hb_is_horizontal d in
  let s := if h then ft_yscale ft else ft_xscale ft in
  let '(e, ok) := if h then fc_hext fc else fc_vext fc in
  if ok then
    f32_is_int (x_asc got) && f32_is_int (x_desc got) && f32_is_int (x_gap got)
    && scaled_ok (x_asc e) s (ft_upem ft) (f32_int (x_asc got)) && scaled_ok (x_desc e) s (ft_upem ft) (f32_int (x_desc got))
    && scaled_ok (x_gap e) s (ft_upem ft) (f32_int (x_gap got))
  else
    (* for a scale that is a binary32 value below 2^22: ascender = fl(s * c), descender = ascender - s exactly, no gap *)
    if repr24 s && (Z.abs s <? 2 ^ 22) then
      (x_asc got - x_desc got =? s * 2 ^ 149) && (x_gap got =? 0)
      && (Z.abs (x_asc got * 10 - (if h then 8 else 5) * s * 2 ^ 149) <=? Z.abs s * 2 ^ 130)
    else true.

Definition check_case (c : case) : list nat :=
  match c with
  | CScale vbits v16 xs ys upem fx fy fxn rf sx sy ffx ffy =>
    let v := fb vbits in
    let ft := mkFont upem xs ys in
    (if fb_ok vbits && fb_ok ffx && fb_ok ffy
        && (em_scalef_x ft v =? fx) && (em_scalef_y ft v =? fy) && (em_scalef_x ft (f32_neg v) =? fxn) && (roundf v =? rf)
        && (em_scale_x ft v16 =? sx) && (em_scale_y ft v16 =? sy) && (em_fscale_x ft v16 =? fb ffx) && (em_fscale_y ft v16 =? fb ffy)
     then [] else [1%nat])
    ++
    (if scaled_ok v xs upem fx && scaled_ok v ys upem fy
        (* odd: scaling -v gives the opposite (whenever the result is inside int32) *)
        && (if (in_int32 fx && in_int32 (- fx)) then fxn =? - fx else true)
        (* the same scale function for X and Y: equal scales give equal results *)
        && (if xs =? ys then (fx =? fy) && (sx =? sy) && (ffx =? ffy) else true)
        (* the int16 variant inside its exact range: truncated quotient *)
        && (if (0 <? upem) && in_int32 (Z.quot (v16 * xs) upem) then sx =? Z.quot (v16 * xs) upem else true)
        && (if (0 <? upem) && in_int32 (Z.quot (v16 * ys) upem) then sy =? Z.quot (v16 * ys) upem else true)
     then [] else [2%nat])
  | CFace hext vext vm gl newupem upem xs ys dir px py fe hfb hasc gr =>
    let fc := face_of hext vext vm gl in
    let ft := mkFont upem xs ys in
    (if bits3_ok (fst hext) && bits3_ok (fst vext) && bits3_ok hfb && forallb (fun x => bits3_ok (snd x)) fe
        (* NewFont: faceUpem = XScale = YScale = the face's upem (observed on a fresh font) *)
        && (ft_xscale (new_font newupem) =? newupem)
        && forallb (fun x => f3_eqb (extents_for_direction fc ft (fst x)) (bits3 (snd x))) fe
        && f3_eqb (font_h_extents_with_fallback fc ft) (bits3 hfb)
        && (h_extents_ascender fc ft =? hasc)
        && forallb (check_gres fc ft dir px py) gr
     then [] else [1%nat])
    ++
    (if forallb (fun x => oracle_fext fc ft (fst x) (bits3 (snd x))) fe
        && forallb (oracle_gres fc ft) gr
     then [] else [2%nat])
  | CPos hext vext vm gl upem xs ys dir infos space_fallback sc pl fl noop_plan umarks dflt final final_gids =>
    let fc := face_of hext vext vm gl in
    let ft := mkFont upem xs ys in
    let h := hb_is_horizontal dir in
    let id2 := fun (_ : list pinfo) (ps : list ppos) => ps in
    let md := position_default fc ft dir space_fallback sc infos in
    let '(mi, mf) := position fc ft id2 id2 dir space_fallback sc pl fl infos in
    let fum := if hb_is_backward dir then rev umarks else umarks in
    (if all2 pp_eqb md dflt
        && (if noop_plan then
              all2 Z.eqb (map pi_gid mi) final_gids
              (* fallbackMarkPosition (not modelled) moves and zeroes the Unicode non-spacing marks only *)
              && (if pl_fallback_marks pl then all2 (fun um mp => um || pp_eqb (fst mp) (snd mp)) fum (combine mf final)
                                               && (Z.of_nat (length mf) =? Z.of_nat (length final))
                  else all2 pp_eqb mf final)
            else true)
     then [] else [1%nat])
    ++
    (if (* after default positioning: cross-axis advance zero, axis advance = the face's advance under the scale *)
        all_cross_zero h dflt
        && all2 (fun inf p => if space_fallback && pi_space inf then true else
                   if h then scaled_ok (fc_hadv fc (pi_gid inf)) xs upem (pp_xa p)
                   else if fc_vmetrics fc then scaled_ok (fc_vadv fc (pi_gid inf)) ys upem (pp_ya p) else true) infos dflt
        (* offsets after default positioning are minus the origin for the axis: for a face that has the vertical
           origin of the glyph, minus that origin under the scale; horizontally the origin is the face's (0, 0) *)
        && all2 (fun inf p => if h then (pp_xo p =? 0) && (pp_yo p =? 0) else
                   match fc_vorigin fc (pi_gid inf) with
                   | (x, y, true) => scaled_ok (x * 2 ^ 149) xs upem (- pp_xo p) && scaled_ok (y * 2 ^ 149) ys upem (- pp_yo p)
                   | _ => true
                   end) infos dflt
        (* sign convention: vertical advances point downwards (negative) for a scale of the stated range, also in the
           fallback -(ascender - descender) of a face without vmtx whose ascender is above its descender *)
        && (if h || (ys <? 0) || (4096 * 64 <? ys) || (upem <? 16) then true else
            all2 (fun inf p => if space_fallback && pi_space inf then true else
                    if fc_vmetrics fc then (if fc_vadv fc (pi_gid inf) <=? 0 then pp_ya p <=? 0 else true)
                    else (if snd (fc_hext fc) && (x_desc (fst (fc_hext fc)) <=? x_asc (fst (fc_hext fc))) || negb (snd (fc_hext fc))
                          then pp_ya p <=? 0 else true)) infos dflt)
        (* after the whole positioning (any plan, GPOS included): cross-axis advance still zero, same glyph count;
           the buffer is reversed for backward directions; default ignorables end up with zero advance and offsets
           unless the buffer flags ask to keep or remove them *)
        && all_cross_zero h final && (Z.of_nat (length final) =? Z.of_nat (length infos))
        && all2 Z.eqb (if hb_is_backward dir then rev (map pi_gid infos) else map pi_gid infos) final_gids
        && (if fl_has_di fl && negb (fl_preserve fl) && negb (fl_remove fl) then
              all2 (fun inf p => if pi_ignorable inf then pp_eqb p (mkPP 0 0 0 0) else true)
                   (if hb_is_backward dir then rev infos else infos) final
            else true)
     then [] else [2%nat])
  end.

Fixpoint check_from (i : nat) (cs : list case) : list (nat * nat) :=
  match cs with
  | [] => []
  | c :: r => map (fun k => (i, k)) (check_case c) ++ check_from (S i) r
  end.
Definition check_all (cs : list case) : list (nat * nat) := check_from 0 cs.
