(* Case checker for C09, kerning pair look-ups (formats 0, 2, 3, 6) and CFF FDSelect look-ups (driver c09kern).
   kind 1 = correspondence (model vs implementation), kind 2 = oracle (a panic; the hang is reported by the driver).
   status: 0 = ran, 3 = panicked. *)
From TV Require Export Model.KernFd.

Inductive case :=
| CKern0 (recs : list krec) (pairs : list (Z * Z)) (status : Z) (res : list Z)
| CKern2 (k : kern2) (pairs : list (Z * Z)) (status : Z) (res : list Z)
  (* accepted: ParseKern kept the subtable; res: KernPair for each pair when accepted *)
| CKern3 (k : kern3) (pairs : list (Z * Z)) (status : Z) (accepted : bool) (res : list Z)
| CKern6 (kernings : list Z) (pairs : list (Z * Z)) (status : Z) (res : list Z)   (* pairs: the class values *)
| CFd0 (fds : list Z) (gids : list Z) (status : Z) (extent : Z) (res : list (option Z))
| CFd3 (ranges : list range3) (sentinel : Z) (gids : list Z) (status : Z) (extent : Z) (res : list (option Z)).

Definition oz_eqb (a b : option Z) : bool :=
  match a, b with Some x, Some y => x =? y | None, None => true | _, _ => false end.

(* answers of f on each input equal res; any Panic / OutOfFuel of the model is a mismatch here *)
Fixpoint answers {I} (f : I -> res Z) (ins : list I) (res : list Z) : bool :=
  match ins, res with
  | [], [] => true
  | i :: ins', v :: res' => match f i with Ok v' => (v =? v') && answers f ins' res' | _ => false end
  | _, _ => false
  end.
Fixpoint oanswers {I} (f : I -> res (option Z)) (ins : list I) (res : list (option Z)) : bool :=
  match ins, res with
  | [], [] => true
  | i :: ins', v :: res' => match f i with Ok v' => oz_eqb v v' && oanswers f ins' res' | _ => false end
  | _, _ => false
  end.
Fixpoint panics {I A} (f : I -> res A) (ins : list I) : bool :=
  match ins with
  | [] => false
  | i :: ins' => match f i with Panic _ => true | _ => panics f ins' end
  end.

Definition corr_ok (c : case) : bool :=
  match c with
  | CKern0 recs pairs status res =>
      let f := fun p : Z * Z => kern0_pair recs (fst p) (snd p) in
      if status =? 3 then panics f pairs else (status =? 0) && answers f pairs res
  | CKern2 k pairs status res =>
      let f := fun p : Z * Z => kern2_pair k (fst p) (snd p) in
      if status =? 3 then panics f pairs else (status =? 0) && answers f pairs res
  | CKern3 k pairs status accepted res =>
      match kern3_sanitize k with
      | Ok ok =>
          Bool.eqb ok accepted &&
          (if accepted then
             let f := fun p : Z * Z => kern3_pair k (fst p) (snd p) in
             if status =? 3 then panics f pairs else (status =? 0) && answers f pairs res
           else (status =? 0) && (zlen res =? 0))
      | _ => false
      end
  | CKern6 ks pairs status res =>
      let f := fun p : Z * Z => kern6_pair ks (fst p) (snd p) in
      if status =? 3 then panics f pairs else (status =? 0) && answers f pairs res
  | CFd0 fds gids status extent res =>
      (fd0_extent fds =? extent) &&
      (if status =? 3 then panics (fdselect0 fds) gids else (status =? 0) && oanswers (fdselect0 fds) gids res)
  | CFd3 ranges sentinel gids status extent res =>
      (fd3_extent ranges =? extent) &&
      (if status =? 3 then panics (fdselect3 ranges sentinel) gids
       else (status =? 0) && oanswers (fdselect3 ranges sentinel) gids res)
  end.

(* the property: no panic; a font dict index which is returned is below extent() (what the parser compares with the
   number of Font DICTs before LoadGlyph indexes localSubrs with it) *)
Definition below (n : Z) (o : option Z) : bool := match o with Some v => (0 <=? v) && (v <? n) | None => true end.
Definition prop_ok (c : case) : bool :=
  match c with
  | CKern0 _ pairs status res | CKern2 _ pairs status res | CKern6 _ pairs status res =>
      negb (status =? 3) && (zlen res =? zlen pairs)
  | CKern3 _ pairs status accepted res => negb (status =? 3) && (negb accepted || (zlen res =? zlen pairs))
  | CFd0 _ gids status extent res | CFd3 _ _ gids status extent res =>
      negb (status =? 3) && (zlen res =? zlen gids) && forallb (below extent) res
  end.

Fixpoint check_from (i : nat) (cs : list case) : list (nat * nat) :=
  match cs with
  | [] => []
  | c :: r => (if corr_ok c then [] else [(i, 1%nat)]) ++ (if prop_ok c then [] else [(i, 2%nat)]) ++ check_from (S i) r
  end.
Definition check_all (cs : list case) : list (nat * nat) := check_from 0 cs.
