(* Case checker for C09, loca/glyf slicing (driver c09glyf).  kind 1 = correspondence, kind 2 = oracle. *)
From TV Require Export Model.Glyf Spec.Glyf.

Record case := mkCase {
  c_glyf : list Z;
  c_loca : list Z;
  c_num : Z;
  c_long : bool;
  c_status : Z;                      (* 0 ok, 1 ParseLoca error, 2 ParseGlyf error, 3 panic *)
  c_offsets : list Z;                (* result of ParseLoca *)
  c_glyphs : list (option glyph_hdr)
}.

Definition hdr_eqb (a b : glyph_hdr) : bool :=
  (g_contours a =? g_contours b) && (g_xmin a =? g_xmin b) && (g_ymin a =? g_ymin b)
  && (g_xmax a =? g_xmax b) && (g_ymax a =? g_ymax b).
Definition ohdr_eqb (a b : option glyph_hdr) : bool :=
  match a, b with None, None => true | Some x, Some y => hdr_eqb x y | _, _ => false end.
Fixpoint olist_eqb (a b : list (option glyph_hdr)) : bool :=
  match a, b with
  | [], [] => true
  | x :: a', y :: b' => ohdr_eqb x y && olist_eqb a' b'
  | _, _ => false
  end.

Definition corr_ok (c : case) : bool :=
  match parse_loca (c_loca c) (c_num c) (c_long c) with
  | Err _ => c_status c =? 1
  | Ok loca =>
      negb (c_status c =? 1) && ((c_status c =? 3) || list_Z_eqb loca (c_offsets c))
      && match parse_glyf parse_glyph_mini (c_glyf c) loca with
         | Ok gs => (c_status c =? 0) && olist_eqb gs (c_glyphs c)
         | Err 99 => negb (c_status c =? 3)          (* a glyph outside the modelled subset: only "no panic" *)
         | Err _ => c_status c =? 2
         | Panic _ => c_status c =? 3
         | OutOfFuel => false
         end
  | Panic _ => c_status c =? 3
  | OutOfFuel => false
  end.

Definition prop_ok (c : case) : bool :=
  negb (c_status c =? 3)
  && (negb (c_status c =? 0) ||
      ((loca_size (c_num c) (c_long c) <=? zlen (c_loca c))
       && (zlen (c_offsets c) =? c_num c + 1)
       && loca_in_range (zlen (c_glyf c)) (c_offsets c)
       && (zlen (c_glyphs c) =? c_num c))).

Fixpoint check_from (i : nat) (cs : list case) : list (nat * nat) :=
  match cs with
  | [] => []
  | c :: r => (if corr_ok c then [] else [(i, 1%nat)]) ++ (if prop_ok c then [] else [(i, 2%nat)]) ++ check_from (S i) r
  end.
Definition check_all (cs : list case) : list (nat * nat) := check_from 0 cs.
