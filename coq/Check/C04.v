(* Case checker for C04 (lines fit the width, are greedily filled, truncation honoured): same cases and
   correspondence as Check/C02.v; kind 4 = the C04 oracle (check_width_truncation) fails on the
   implementation's output.  No classification of known findings is left:
   kind 10 (F7 - lines over-wide or not greedily filled around a UAX #14 opportunity strictly inside a shaped cluster, policy
            other than Never), kind 11 (F8 - text + truncator wider than maxWidth on the truncated line) and kind 12 (F37 -
            lines around a UAX #14 opportunity that is not a grapheme cluster boundary) are repaired in the library and
            would be reported as kind 4. *)
From TV Require Export Check.C02 Check.C03.

Definition c04_kind (c : case) (st0 st1 : store) (cl : call) : nat :=
  if negb (nonneg_adv st0) then 0%nat       (* the property's sign hypothesis *)
  else
    if check_width_truncation (k_attrs c) (case_n c) (case_runs c) st0 st1 (case_tsrc c) (cl_dir cl) (cl_policy cl) (cl_trunc cl)
            (cl_cont cl) (o_adv (case_truncator c)) (call_lines cl) (call_line_widths cl) (call_truncated cl)
    then 0%nat
    else 4%nat.

Definition check_all (cs : list case) : list (nat * nat) := check_from c04_kind 0 cs.
