(* Case checker for C04 (lines fit the width, are greedily filled, truncation honoured): same cases and
   correspondence as Check/C02.v; kind 4 = the C04 oracle (check_width_truncation) fails on the
   implementation's output.  Narrow classifications of known findings:
   (kind 11, F8 - text + truncator wider than maxWidth on the truncated line - is repaired in the library and no longer
                  classified: it would be reported as kind 4);
   kind 10 (F7) = only lines fail whose span (up to the next valid UAX #14 candidate for the greedy clause) contains a
                  UAX #14 break opportunity that lies strictly inside a shaped cluster, policy other than Never;
   kind 12 (F22) = only lines fail whose span contains a UAX #14 opportunity that is not a grapheme cluster boundary, or
                  fewer than k lines were returned with a truncator on such a paragraph (a nil line was produced). *)
From TV Require Export Check.C02 Check.C03.

Record lfail := mkLF { lf_i : Z; lf_s : Z; lf_e : Z; lf_line : list out; lf_w : Z; lf_width : bool; lf_greedy : bool; lf_misplaced : bool }.

Fixpoint c04_failing (attrs : list Z) (st0 st1 : store) (rs : list out) (n tsrc pdir policy trunc_k tadv : Z) (measurable : bool)
         (i : Z) (lines : list (list out)) (spans : list (Z * Z)) (widths : list Z) : list lfail :=
  match lines, spans with
  | line :: lrest, (s, e) :: srest =>
      let w := match widths with x :: _ => x | [] => 0 end in
      let truncating := (0 <? trunc_k) && (i =? trunc_k - 1) in
      let a := negb (width_ok attrs st0 st1 rs n tsrc pdir policy tadv line s e w) in
      let b := negb (truncating || negb measurable || greedy_ok attrs st0 rs n pdir policy s e w) in
      let d := negb (truncating || negb (has_truncator tsrc line)) in
      (if a || b || d then [mkLF i s e line w a b d] else [])
      ++ c04_failing attrs st0 st1 rs n tsrc pdir policy trunc_k tadv measurable (i + 1) lrest srest (tl widths)
  | _, _ => []
  end.

Definition exists_between_incl (a b : Z) (f : Z -> bool) : bool :=   (* a < p <= b *)
  negb (forall_between a (b + 1) (fun p => negb (f p))).

Definition intra_cluster_candidate (attrs : list Z) (st : store) (rs : list out) (p : Z) : bool :=
  line_boundary attrs p && negb (cluster_boundary st rs p).

Definition f_stop (attrs : list Z) (st0 : store) (rs : list out) (n policy : Z) (f : lfail) : Z :=
  if lf_greedy f then
    match first_from (lf_e f + 1) (Z.to_nat (n - lf_e f)) (word_break_ok attrs st0 rs n) with Some p => p | None => n end
  else lf_e f.

Definition f7_line (attrs : list Z) (st0 : store) (rs : list out) (n tsrc policy : Z) (f : lfail) : bool :=
  negb (lf_misplaced f) && negb (policy =? 1) && negb (has_truncator tsrc (lf_line f))
  && exists_between_incl (lf_s f) (f_stop attrs st0 rs n policy f) (intra_cluster_candidate attrs st0 rs).

Definition c04_kind (c : case) (st0 st1 : store) (cl : call) : nat :=
  if negb (adv_consistent st0 (case_runs c) && nonneg_adv st0) then 0%nat
  else
    let attrs := k_attrs c in let n := case_n c in let rs := case_runs c in let tsrc := case_tsrc c in
    let lines := call_lines cl in
    if check_width_truncation attrs n rs st0 st1 tsrc (cl_dir cl) (cl_policy cl) (cl_trunc cl)
            (cl_cont cl) (o_adv (case_truncator c)) lines (call_line_widths cl) (call_truncated cl)
    then 0%nat
    else if negb (truncation_ok n tsrc (cl_trunc cl) (cl_cont cl) lines (call_truncated cl)) then
      (if exists_in 1 (n - 1) (lb_not_gb attrs n) && (zlen lines <? cl_trunc cl) then 12%nat else 4%nat)
    else
      let fl := c04_failing attrs st0 st1 rs n tsrc (cl_dir cl) (cl_policy cl) (cl_trunc cl) (o_adv (case_truncator c))
                  (measurable_runs st0 rs) 0 lines (line_spans tsrc 0 lines) (call_line_widths cl) in
      let is7 := f7_line attrs st0 rs n tsrc (cl_policy cl) in
      let is22 := fun f => exists_in (lf_s f) (f_stop attrs st0 rs n (cl_policy cl) f) (lb_not_gb attrs n) in
      (* every failing line must match one of the narrow predicates; the kind reported is that of the first class present *)
      if forallb (fun f => is7 f || is22 f) fl then
        (if existsb is7 fl then 10%nat else 12%nat)
      else 4%nat.

Definition check_all (cs : list case) : list (nat * nat) := check_from c04_kind 0 cs.
