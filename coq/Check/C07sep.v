(* Case checker for the paragraph separators of C07: the runes for which shaping.isParagraphSeparator answered true in a
   sweep over all code points are exactly `para_seps` of Model/ItemizeBidi.v.  kind 1 = they differ. *)
From TV Require Export Lib.Bytes Model.ItemizeBidi.
Open Scope Z_scope.

Record case := mkCase { k_seps : list Z }.

Definition classify (c : case) : list nat := if list_Z_eqb (k_seps c) para_seps then [] else [1%nat].

Fixpoint check_from (i : nat) (cs : list case) : list (nat * nat) :=
  match cs with
  | [] => []
  | c :: r => map (fun k => (i, k)) (classify c) ++ check_from (S i) r
  end.
Definition check_all (cs : list case) : list (nat * nat) := check_from 0 cs.
