(* Case checker for GPOS pair positioning (driver c18pair): the REAL applyGPOS / applyGPOSPair1 / applyGPOSPair2 /
   applyGPOSValueRecord, run through the real lookup loop on a real Buffer with synthetic PairPos subtables (serialised and
   read back by the library's parser).
   kind 1  = correspondence: Model/PairPos.v (pp_run, the step that follows the code) run on the input differs from what
             the implementation produced (glyph ids, clusters, all glyph flags, glyphProps, unicode props, ligProps,
             positions, bsfHasGlyphFlags);
   kind 2  = oracle, the cut statement of C18 on the implementation's OWN outputs (as in Check/C18Engine.v);
   kind 11 = such an oracle failure when some glyph of the input that the pair iterator skips (a default ignorable) can be
             the FIRST glyph of a pair of some lookup (the analogue of F61 for PairPos: pp_left_skippable). *)
From TV Require Export Model.PairPos Check.C18Engine.

Definition V (a b c d e f : Z) : vrec := mkVR a b c d (negb (e =? 0)) f.

Record case := mkPC {
  p_lookups : list ppparams;
  p_in : list item; p_rec : bool;
  p_out : list item; p_orec : bool; p_panic : bool;
  p_cuts : list (nat * list item * list item)
}.

Definition pcorr_ok (c : case) : bool :=
  negb (p_panic c)
  && let '(o, r) := pp_run (p_lookups c) (p_in c) (p_rec c) in
     items_eqb true o (p_out c) && Bool.eqb r (p_orec c).

Definition pcut_ok (c : case) (cut : nat * list item * list item) : bool :=
  let '(k, a, b) := cut in
  match cut_cluster (firstn k (p_in c)) (skipn k (p_in c)) with
  | None => true
  | Some cv => fog icl iutb cv (p_out c) || items_same (p_out c) (a ++ b)
  end.
Definition poracle_ok (c : case) : bool := p_panic c || forallb (pcut_ok c) (p_cuts c).

(* a glyph the iterator of some lookup skips passes the tests applyForward and the coverage make on a first glyph *)
Definition pp_left_skippable (c : case) : bool :=
  existsb (fun P => existsb (fun x => match pp_match P x with MSkip => pp_first P x | _ => false end) (p_in c)) (p_lookups c).

Fixpoint pcheck_from (i : nat) (cs : list case) : list (nat * nat) :=
  match cs with
  | [] => []
  | c :: r =>
    (if pcorr_ok c then [] else [(i, 1%nat)])
    ++ (if poracle_ok c then [] else [(i, if pp_left_skippable c then 11%nat else 2%nat)])
    ++ pcheck_from (S i) r
  end.
Definition check_all (cs : list case) : list (nat * nat) := pcheck_from 0 cs.
