(* Case checker for C10, vertical metrics at default coordinates (Face.VerticalAdvance, Face.GlyphVOrigin).
   kind 1 = correspondence: the model fed with the raw vhea/vmtx/VORG/OS2/hhea/hmtx bytes and the library differ;
   kind 2 = oracle, on the library's own output: with a well-formed vmtx the vertical advance of a glyph is minus its own
            long metric or minus the LAST long metric; with a sorted VORG the origin is the glyph's entry or the default; without
            VORG and with a well-formed vmtx the origin is the top of the glyf box plus the top side bearing; x is half the
            horizontal advance. *)
From TV Require Export Model.VMetrics Spec.VMetrics.
Open Scope Z_scope.

(* G gid header vertical_advance x y found *)
Record vg := G { v_gid : Z; v_hdr : list Z; v_adv : Z; v_x : Z; v_y : Z; v_found : bool }.
Inductive case :=
| CVM (head hhea hmtx vhea vmtx vorg os2 : list Z) (nglyphs nglyf : Z) (has_vm : bool) (glyphs : list vg).

Definition glyph_corr (f : vm_font) (th tv : hmtx_tab) (g : vg) : bool :=
  (v_adv g =? vertical_advance (vf_upem f) tv (v_gid g))
  && (let '(x, y, ok) := glyph_v_origin f th tv (v_gid g) (v_hdr g) in
      (v_x g =? x) && (v_y g =? y) && Bool.eqb (v_found g) ok).

Definition hdr_top (hdr : list Z) : Z :=
  match hdr with [] => 0 | _ => Z.max (i16_at 4 hdr) (i16_at 8 hdr) end.

Definition glyph_prop (hhea hmtx vhea vmtx vorg : list Z) (nglyphs nglyf : Z) (g : vg) : bool :=
  let gid := v_gid g in
  let in_range := (0 <=? gid) && (gid <? nglyphs) in
  let v_wf := match hhea_num_long vhea with Ok nl => if wf_hmtxb vmtx nl nglyphs then Some nl else None | _ => None end in
  let h_wf := match hhea_num_long hhea with Ok nl => if wf_hmtxb hmtx nl nglyphs then Some nl else None | _ => None end in
  (* advance rule *)
  match v_wf with Some nl => negb in_range || (v_adv g =? - advance_spec vmtx nl gid) | None => true end
  (* x = half the horizontal advance, truncated *)
  && match h_wf with Some nl => negb in_range || (v_x g =? Z.quot (advance_spec hmtx nl gid) 2) | None => true end
  (* origin rule *)
  && match parse_vorg vorg with
     | Some t => negb (sorted_strict (vo_entries t)) || ((v_y g =? vorg_spec t gid) && v_found g)
     | None =>
         match v_wf with
         | Some nl => negb (in_range && (gid <? nglyf)) || ((v_y g =? hdr_top (v_hdr g) + lsb_spec vmtx nl gid) && v_found g)
         | None => true
         end
     end.

Definition case_kinds (c : case) : list nat :=
  match c with
  | CVM head hhea hmtx vhea vmtx vorg os2 nglyphs nglyf has_vm glyphs =>
      match head_upem head, load_hmtx hhea hmtx nglyphs, load_hmtx vhea vmtx nglyphs with
      | Ok upem, Ok th, Ok tv =>
          let f := mkVMF upem nglyphs hhea hmtx vhea vmtx vorg os2 nglyf in
          (if forallb (glyph_corr f th tv) glyphs && Bool.eqb has_vm (negb (hmtx_is_empty tv)) then [] else [1%nat])
          ++ (if forallb (glyph_prop hhea hmtx vhea vmtx vorg nglyphs nglyf) glyphs then [] else [2%nat])
      | _, _, _ => [1%nat]
      end
  end.
Fixpoint check_from (i : nat) (cs : list case) : list (nat * nat) :=
  match cs with
  | [] => []
  | c :: r => map (fun k => (i, k)) (case_kinds c) ++ check_from (S i) r
  end.
Definition check_all (cs : list case) : list (nat * nat) := check_from 0 cs.
