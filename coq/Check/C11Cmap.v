(* Case checker for C11, character-map part (driver c11cmap).
   kind 1 = model and implementation differ (correspondence),
   kind 2 = the implementation's own output violates the specification (oracle),
   kind 10 = oracle failure confined to format 4 glyph-array entries equal to 0 (known finding F13a),
   kind 11 = oracle failure on a subtable whose segments/groups are not sorted, disjoint and below 2^24 (F13b),
   kind 12 = oracle failure confined to runes reached through a legacy remapper (F13c). *)
From TV Require Export Model.Cmap Spec.Cmap Check.C11Set.

Definition seg4t := (Z * Z * Z * option (list Z))%type.
Inductive cmdesc :=
| D4 (segs : list seg4t)                       (* start, end, delta, indexes *)
| D12 (groups : list (Z * Z * Z))              (* start, end, start glyph *)
| D13 (groups : list (Z * Z * Z))
| D6 (first : Z) (entries : list Z) (ptr : bool)
| D0 (m : list (Z * Z)).                       (* sorted by rune *)

Inductive ccase :=
| CMap (d : cmdesc) (remap : Z) (remapped : list Z)   (* remap: -1 none, 0 symbol, 1/2 arabic; runes with a remap target *)
       (iter : list (Z * Z))                   (* pairs yielded by Iter, in order (format 0: sorted by the driver) *)
       (iter_lk : list (Z * Z * bool))         (* position in iter, Lookup there: only where it is not (glyph, true) *)
       (probes : list (Z * Z * bool))          (* rune, Lookup *)
       (ranger : bool) (ranges : list (Z * Z)) (* RuneRanges when implemented *)
       (covpages : pages)                      (* newCoveragesFromCmap *)
       (covpos : list Z)                       (* positions in iter ++ probes whose rune the coverage contains *)
| CNew4 (qs : list (Z * Z * Z * Z)) (ga : list Z) (status : Z) (segs : list seg4t).   (* newCmap4: 0 ok, 1 error, 2 panic *)
Definition case := ccase.

Definition to_seg4 (t : seg4t) : seg4 := let '(a, b, c, d) := t in mkSeg4 a b c d.
Definition to_grp (t : Z * Z * Z) : grp := let '(a, b, c) := t in mkGrp a b c.

Definition m_iter (d : cmdesc) : res (list (Z * Z)) :=
  match d with
  | D4 s => iter4 (map to_seg4 s)
  | D12 g => Ok (iter12 (map to_grp g))
  | D13 g => Ok (iter13 (map to_grp g))
  | D6 f e _ => Ok (iter6 (mkCmap6 f e))
  | D0 m => Ok m
  end.
Definition m_lookup0 (d : cmdesc) (r : Z) : res (Z * bool) :=
  match d with
  | D4 s => lookup4 (map to_seg4 s) r
  | D12 g => lookup12 (map to_grp g) r
  | D13 g => lookup13 (map to_grp g) r
  | D6 f e _ => lookup6 (mkCmap6 f e) r
  | D0 m => match assoc m r with Some g => Ok (g, true) | None => Ok (0, false) end
  end.
Definition m_lookup (d : cmdesc) (remap : Z) (r : Z) : res (Z * bool) :=
  if remap =? 0 then remap_symbol (m_lookup0 d) r else m_lookup0 d r.
Definition m_ranges (d : cmdesc) : option (list (Z * Z)) :=
  match d with
  | D4 s => Some (rune_ranges4 (map to_seg4 s))
  | D12 g | D13 g => Some (rune_ranges12 (map to_grp g))
  | D6 f e true => Some (rune_ranges6 (mkCmap6 f e))
  | _ => None
  end.

Definition pairs_eqb (a b : list (Z * Z)) : bool :=
  list_Z_eqb (map fst a) (map fst b) && list_Z_eqb (map snd a) (map snd b).
Definition lk_eqb (r : res (Z * bool)) (g : Z) (ok : bool) : bool :=
  match r with Ok (g', ok') => (g' =? g) && Bool.eqb ok' ok | _ => false end.
Fixpoint bools_eqb (a b : list bool) : bool :=
  match a, b with
  | [], [] => true
  | x :: a', y :: b' => Bool.eqb x y && bools_eqb a' b'
  | _, _ => false
  end.
Definition seg4t_eqb (a b : seg4t) : bool :=
  let '(a1, a2, a3, a4) := a in
  let '(b1, b2, b3, b4) := b in
  (a1 =? b1) && (a2 =? b2) && (a3 =? b3)
  && match a4, b4 with
     | None, None => true
     | Some x, Some y => list_Z_eqb x y
     | _, _ => false
     end.
Fixpoint segs_eqb (a b : list seg4t) : bool :=
  match a, b with
  | [], [] => true
  | x :: a', y :: b' => seg4t_eqb x y && segs_eqb a' b'
  | _, _ => false
  end.
Definition of_seg4 (e : seg4) : seg4t := (s4_start e, s4_end e, s4_delta e, s4_idx e).

(* decompress the observations *)
Fixpoint find_lk (l : list (Z * Z * bool)) (i : Z) : option (Z * bool) :=
  match l with [] => None | (j, g, ok) :: t => if j =? i then Some (g, ok) else find_lk t i end.
Definition expand_lk (iter : list (Z * Z)) (l : list (Z * Z * bool)) : list (Z * bool) :=
  map (fun ip => match find_lk l (fst ip) with Some x => x | None => (snd (snd ip), true) end)
      (combine (zrange 0 (length iter)) iter).
Definition expand_cov (n : nat) (pos : list Z) : list bool := map (fun i => l_mem pos i) (zrange 0 n).

Definition add_all (runes : list Z) : res RuneSet :=
  fold_left (fun acc r => do rs <- acc; rsAdd rs r) runes (Ok []).

Definition corr_ok (c : case) : bool :=
  match c with
  | CMap d remap remapped iter iter_lk0 probes ranger ranges covpages covpos =>
      let iter_lk := expand_lk iter iter_lk0 in
      let cov := expand_cov (length iter + length probes) covpos in
      res_eqb pairs_eqb (m_iter d) iter
      && ((0 <? remap) ||
          (forallb (fun p => lk_eqb (m_lookup d remap (fst (fst p))) (snd (fst p)) (snd p)) probes
           && forallb (fun p => let '((r, g), (g', ok)) := p in lk_eqb (m_lookup d remap r) g' ok) (combine iter iter_lk)
           && (length iter =? length iter_lk)%nat))
      && match (if 0 <=? remap then None else m_ranges d) with   (* the remappers embed the Cmap interface: no RuneRanges *)
         | Some rr => ranger && pairs_eqb rr ranges && rs_is (coverage_from_ranges ranges) covpages
         | None => negb ranger && rs_is (add_all (map fst iter)) covpages
         end
      && bools_eqb (map (fun r => match rsContains (to_rs covpages) r with Ok b => b | _ => false end)
                        (map fst iter ++ map (fun p => fst (fst p)) probes)) cov
  | CNew4 qs ga st segs =>
      match new_cmap4 qs ga with
      | Ok s => (st =? 0) && segs_eqb (map of_seg4 s) segs
      | Err _ => st =? 1
      | Panic _ => st =? 2
      | OutOfFuel => false
      end
  end.

(* the property on the implementation's observations, ignoring the runes selected by ex *)
Definition agree_ok (ex : Z -> bool) (c : case) : bool :=
  match c with
  | CMap d remap remapped iter iter_lk0 probes ranger ranges covpages covpos =>
      let iter_lk := expand_lk iter iter_lk0 in
      let cov := expand_cov (length iter + length probes) covpos in
      let keep := filter (fun p => negb (ex (fst p))) iter in
      let runes := map fst keep in
      let ncov := length iter in
      nodupb runes
      && (length iter =? length iter_lk)%nat
      && (length cov =? length iter + length probes)%nat
      (* every enumerated pair is what Lookup returns, and the coverage contains its rune *)
      && forallb (fun q => let '((r, g), (g', ok), cv) := q in ex r || (ok && (g' =? g) && cv))
                 (combine (combine iter iter_lk) (firstn ncov cov))
      (* Lookup succeeds exactly on the enumerated runes, with the enumerated glyph; coverage = Lookup *)
      && forallb (fun q => let '((r, g, ok), cv) := q in
                           ex r || (Bool.eqb ok (l_mem runes r) && (negb (rune_okb r) || Bool.eqb cv ok)
                                    && (negb ok || match assoc keep r with Some g' => g' =? g | None => false end)))
                 (combine probes (skipn ncov cov))
      (* the rune ranges are the enumerated runes *)
      && (negb ranger || forallb (fun q => let '(r, g, ok) := q in ex r || Bool.eqb (in_ranges ranges r) ok) probes)
  | CNew4 _ _ _ _ => true
  end.

Definition zero_entry_rune (d : cmdesc) (r : Z) : bool :=
  match d with
  | D4 s => existsb (fun t => let '(a, b, _, ix) := t in
                              match ix with
                              | Some l => if (a <=? r) && (r <=? b) then znth 1 l (r - a) =? 0 else false
                              | None => false
                              end) s
  | _ => false
  end.
Definition sorted_disjoint (d : cmdesc) : bool :=
  match d with
  | D4 s => ranges_ok (map (fun t => let '(a, b, _, _) := t in (a, b)) s)
  | D12 g | D13 g => ranges_ok (map (fun t => let '(a, b, _) := t in (a, b)) g)
  | _ => true
  end.
Definition case_desc (c : case) : option (cmdesc * Z * list Z) :=
  match c with CMap d remap remapped _ _ _ _ _ _ _ => Some (d, remap, remapped) | _ => None end.

Definition oracle_kind (c : case) : list nat :=
  if agree_ok (fun _ => false) c then []
  else match case_desc c with
       | Some (d, remap, remapped) =>
           if negb (sorted_disjoint d) then [11%nat]
           else if agree_ok (zero_entry_rune d) c then [10%nat]
           else if (0 <=? remap) && agree_ok (fun r => zero_entry_rune d r || l_mem remapped r) c then [12%nat]
           else [2%nat]
       | None => [2%nat]
       end.

Fixpoint check_from (i : nat) (cs : list case) : list (nat * nat) :=
  match cs with
  | [] => []
  | c :: r => (if corr_ok c then [] else [(i, 1%nat)]) ++ map (fun k => (i, k)) (oracle_kind c) ++ check_from (S i) r
  end.
Definition check_all (cs : list case) : list (nat * nat) := check_from 0 cs.
