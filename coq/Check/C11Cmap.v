(* Case checker for C11, character-map part (driver c11cmap).
   kind 1 = model and implementation differ (correspondence),
   kind 2 = the implementation's own output violates the specification (oracle).
   The former kinds 10 (format 4 glyph-array entries equal to 0), 11 (segments/groups not sorted and disjoint) and
   12 (runes reached through a legacy remaper) are repaired in the library (`fix:` commits): the subtables are driven
   through the sanitizing constructors ProcessCmap uses (sanitizeCmap4, newCmap12/13) and every mismatch is a plain
   oracle failure.  The legacy remapers are specified on non-negative runes (a rune is a code point). *)
From TV Require Export Model.Cmap Model.CmapSel Spec.Cmap Check.C11Set.
From TV Require Import Gen.C11Tables.

Definition seg4t := (Z * Z * Z * option (list Z))%type.
Inductive cmdesc :=
| D4 (segs : list seg4t)                       (* start, end, delta, indexes *)
| D12 (groups : list (Z * Z * Z))              (* start, end, start glyph *)
| D13 (groups : list (Z * Z * Z))
| D6 (first : Z) (entries : list Z) (ptr : bool)
| D0 (m : list (Z * Z)).                       (* sorted by rune *)

Inductive ccase :=
| CMap (d : cmdesc) (remap : Z) (remapped : list Z)   (* remap: -1 none, 0 symbol, 1/2 arabic; runes with a remap target *)
       (iter : list (Z * Z))                   (* pairs yielded by Iter, in order (format 0: sorted by the driver) *)
       (iter_lk : list (Z * Z * bool))         (* position in iter, Lookup there: only where it is not (glyph, true) *)
       (probes : list (Z * Z * bool))          (* rune, Lookup *)
       (ranger : bool) (ranges : list (Z * Z)) (* RuneRanges when implemented *)
       (covpages : pages)                      (* newCoveragesFromCmap *)
       (covpos : list Z)                       (* positions in iter ++ probes whose rune the coverage contains *)
| CNew4 (qs : list (Z * Z * Z * Z)) (ga : list Z) (status : Z) (segs : list seg4t).   (* newCmap4: 0 ok, 1 error, 2 panic *)
Definition case := ccase.

Definition to_seg4 (t : seg4t) : seg4 := let '(a, b, c, d) := t in mkSeg4 a b c d.
Definition to_grp (t : Z * Z * Z) : grp := let '(a, b, c) := t in mkGrp a b c.

(* the subtable as ProcessCmap would hold it: resolved format 4 segments go through sanitizeCmap4, raw groups
   through sanitizeCmapGroups; remap: -1 none, 0 symbol, 1/2 legacy arabic *)
Definition m_base (d : cmdesc) : mcmap :=
  match d with
  | D4 s => M4 (sanitize4 (map to_seg4 s))
  | D12 g => M12 (sanitize12 (map to_grp g))
  | D13 g => M13 (sanitize12 (map to_grp g))
  | D6 f e _ => M6 (mkCmap6 f e)
  | D0 m => M0 m
  end.
Definition m_cmap (d : cmdesc) (remap : Z) : mcmap :=
  if remap =? 0 then MSym (m_base d) else if remap =? 1 then MSimp (m_base d)
  else if remap =? 2 then MTrad (m_base d) else m_base d.
Definition m_iter (d : cmdesc) (remap : Z) : res (list (Z * Z)) := miter arabicPUASimp arabicPUATrad (m_cmap d remap).
Definition m_lookup (d : cmdesc) (remap : Z) (r : Z) : res (Z * bool) := mlookup arabicPUASimp arabicPUATrad (m_cmap d remap) r.
Definition m_ranges (d : cmdesc) : option (list (Z * Z)) :=
  match d with
  | D4 s => Some (rune_ranges4 (sanitize4 (map to_seg4 s)))
  | D12 g | D13 g => Some (rune_ranges12 (sanitize12 (map to_grp g)))
  | D6 f e true => Some (rune_ranges6 (mkCmap6 f e))
  | _ => None
  end.

Definition pairs_eqb (a b : list (Z * Z)) : bool :=
  list_Z_eqb (map fst a) (map fst b) && list_Z_eqb (map snd a) (map snd b).
Definition lk_eqb (r : res (Z * bool)) (g : Z) (ok : bool) : bool :=
  match r with Ok (g', ok') => (g' =? g) && Bool.eqb ok' ok | _ => false end.
Fixpoint bools_eqb (a b : list bool) : bool :=
  match a, b with
  | [], [] => true
  | x :: a', y :: b' => Bool.eqb x y && bools_eqb a' b'
  | _, _ => false
  end.
Definition seg4t_eqb (a b : seg4t) : bool :=
  let '(a1, a2, a3, a4) := a in
  let '(b1, b2, b3, b4) := b in
  (a1 =? b1) && (a2 =? b2) && (a3 =? b3)
  && match a4, b4 with
     | None, None => true
     | Some x, Some y => list_Z_eqb x y
     | _, _ => false
     end.
Fixpoint segs_eqb (a b : list seg4t) : bool :=
  match a, b with
  | [], [] => true
  | x :: a', y :: b' => seg4t_eqb x y && segs_eqb a' b'
  | _, _ => false
  end.
Definition of_seg4 (e : seg4) : seg4t := (s4_start e, s4_end e, s4_delta e, s4_idx e).

(* decompress the observations *)
Fixpoint find_lk (l : list (Z * Z * bool)) (i : Z) : option (Z * bool) :=
  match l with [] => None | (j, g, ok) :: t => if j =? i then Some (g, ok) else find_lk t i end.
Definition expand_lk (iter : list (Z * Z)) (l : list (Z * Z * bool)) : list (Z * bool) :=
  map (fun ip => match find_lk l (fst ip) with Some x => x | None => (snd (snd ip), true) end)
      (combine (zrange 0 (length iter)) iter).
Definition expand_cov (n : nat) (pos : list Z) : list bool := map (fun i => l_mem pos i) (zrange 0 n).

Definition add_all (runes : list Z) : res RuneSet :=
  fold_left (fun acc r => do rs <- acc; rsAdd rs r) runes (Ok []).

Definition corr_ok (c : case) : bool :=
  match c with
  | CMap d remap remapped iter iter_lk0 probes ranger ranges covpages covpos =>
      let iter_lk := expand_lk iter iter_lk0 in
      let cov := expand_cov (length iter + length probes) covpos in
      res_eqb pairs_eqb (m_iter d remap) iter
      && (forallb (fun p => lk_eqb (m_lookup d remap (fst (fst p))) (snd (fst p)) (snd p)) probes
          && forallb (fun p => let '((r, g), (g', ok)) := p in lk_eqb (m_lookup d remap r) g' ok) (combine iter iter_lk)
          && (length iter =? length iter_lk)%nat)
      && match (if 0 <=? remap then None else m_ranges d) with   (* the remappers embed the Cmap interface: no RuneRanges *)
         | Some rr => ranger && pairs_eqb rr ranges && rs_is (coverage_from_ranges ranges) covpages
         | None => negb ranger && rs_is (add_all (map fst iter)) covpages
         end
      && bools_eqb (map (fun r => match rsContains (to_rs covpages) r with Ok b => b | _ => false end)
                        (map fst iter ++ map (fun p => fst (fst p)) probes)) cov
  | CNew4 qs ga st segs =>
      match new_cmap4 qs ga with
      | Ok s => (st =? 0) && segs_eqb (map of_seg4 s) segs
      | Err _ => st =? 1
      | Panic _ => st =? 2
      | OutOfFuel => false
      end
  end.

(* the property on the implementation's observations, ignoring the runes selected by ex *)
Definition agree_ok (ex : Z -> bool) (c : case) : bool :=
  match c with
  | CMap d remap remapped iter iter_lk0 probes ranger ranges covpages covpos =>
      let iter_lk := expand_lk iter iter_lk0 in
      let cov := expand_cov (length iter + length probes) covpos in
      let keep := filter (fun p => negb (ex (fst p))) iter in
      let runes := map fst keep in
      let ncov := length iter in
      nodupb runes
      && (length iter =? length iter_lk)%nat
      && (length cov =? length iter + length probes)%nat
      (* every enumerated pair is what Lookup returns, and the coverage contains its rune *)
      && forallb (fun q => let '((r, g), (g', ok), cv) := q in ex r || (ok && (g' =? g) && cv))
                 (combine (combine iter iter_lk) (firstn ncov cov))
      (* Lookup succeeds exactly on the enumerated runes, with the enumerated glyph; coverage = Lookup *)
      && forallb (fun q => let '((r, g, ok), cv) := q in
                           ex r || (Bool.eqb ok (l_mem runes r) && (negb (rune_okb r) || Bool.eqb cv ok)
                                    && (negb ok || match assoc keep r with Some g' => g' =? g | None => false end)))
                 (combine probes (skipn ncov cov))
      (* the rune ranges are the enumerated runes *)
      && (negb ranger || forallb (fun q => let '(r, g, ok) := q in ex r || Bool.eqb (in_ranges ranges r) ok) probes)
  | CNew4 _ _ _ _ => true
  end.

Definition case_remap (c : case) : Z :=
  match c with CMap _ remap _ _ _ _ _ _ _ _ => remap | _ => -1 end.

Definition oracle_kind (c : case) : list nat :=
  if agree_ok (fun r => (0 <=? case_remap c) && (r <? 0)) c then [] else [2%nat].

Fixpoint check_from (i : nat) (cs : list case) : list (nat * nat) :=
  match cs with
  | [] => []
  | c :: r => (if corr_ok c then [] else [(i, 1%nat)]) ++ map (fun k => (i, k)) (oracle_kind c) ++ check_from (S i) r
  end.
Definition check_all (cs : list case) : list (nat * nat) := check_from 0 cs.
