(* Case checker for C06 (segmenter).  kind 1 = model differs from the implementation (the segmenter model on the
   rune observations, or the observation obs_of_rune r computed from the regenerated tables differs from the one the
   library's lookups gave for r),
   kind 2 = implementation differs from the UAX #14 / #29 specification (oracle), or the library's observation of a
   rune of the text violates a table fact the rules rely on (obs_wf_g / obs_wf_l / obs_wf_w),
   kind 10 = oracle failure confined to positions matching the known LB25 finding (F3). *)
From Coq Require Import FMapPositive.
From TV Require Export Model.Segmenter Spec.UAX14 Spec.UAX29 Model.ObsOfRune.
Open Scope Z_scope.

(* a rune as written by the driver: code + 2^24 * r, where r is the code point and code the compact observation
   code  lb + 43*(gb + 14*(wb + 15*flags)) < 2^24  computed with the library's lookups,
   flags bit0 mnmc, 1 cn, 2 wide, 3 pic, 4 zwjtab, 5 lf, 6 cr, 7 zwj, 8 dq, 9 word;
   lbc_list / gbc_list / wbc_list (index -> constructor) are those of Model/ObsOfRune.v *)
Definition rune_of (z : Z) : Z := z / 16777216.

Definition obs_of_code (z0 : Z) : obs :=
  let z := z0 mod 16777216 in
  let lb := z mod 43 in let z1 := z / 43 in
  let gb := z1 mod 14 in let z2 := z1 / 14 in
  let wb := z2 mod 15 in let f := z2 / 15 in
  mkObs (nth (Z.to_nat lb) lbc_list LB_XX) (Z.testbit f 0) (Z.testbit f 1) (Z.testbit f 2) (Z.testbit f 3) (Z.testbit f 4)
        (nth (Z.to_nat gb) gbc_list GB_None) (nth (Z.to_nat wb) wbc_list WB_None)
        (Z.testbit f 5) (Z.testbit f 6) (Z.testbit f 7) (Z.testbit f 8) (Z.testbit f 9).

Record case := mkCase {
  k_nul : Z; k_psep : Z;               (* observation codes of U+0000 and U+2029 (sentinels of the loop) *)
  k_hist : list (list Z);              (* paragraphs given to the same Segmenter before (reuse history) *)
  k_text : list Z;                     (* runes as code + 2^24 * code point *)
  k_attrs : list Z;                    (* attribute bytes after Init: 1 line, 2 mandatory, 4 grapheme, 8 word *)
  k_lines : list (Z * Z * bool);       (* LineIterator: offset, length, IsMandatoryBreak *)
  k_graphemes : list (Z * Z);
  k_words : list (Z * Z)
}.

Definition attr_code (a : attr) : Z :=
  (if a_line a then 1 else 0) + (if a_mandatory a then 2 else 0) + (if a_grapheme a then 4 else 0) + (if a_word a then 8 else 0).

Fixpoint zlist_eqb (a b : list Z) : bool :=
  match a, b with
  | [], [] => true
  | x :: a', y :: b' => (x =? y) && zlist_eqb a' b'
  | _, _ => false
  end.
Fixpoint pairs_eqb (a b : list (Z * Z)) : bool :=
  match a, b with
  | [], [] => true
  | (x1, x2) :: a', (y1, y2) :: b' => (x1 =? y1) && (x2 =? y2) && pairs_eqb a' b'
  | _, _ => false
  end.
Fixpoint triples_eqb (a b : list (Z * Z * bool)) : bool :=
  match a, b with
  | [], [] => true
  | (x1, x2, x3) :: a', (y1, y2, y3) :: b' => (x1 =? y1) && (x2 =? y2) && Bool.eqb x3 y3 && triples_eqb a' b'
  | _, _ => false
  end.

Definition obs_eqb (a b : obs) : bool :=
  lbc_beq (o_lb a) (o_lb b) && gbc_beq (o_gb a) (o_gb b) && wbc_beq (o_wb a) (o_wb b)
  && Bool.eqb (o_mnmc a) (o_mnmc b) && Bool.eqb (o_cn a) (o_cn b) && Bool.eqb (o_wide a) (o_wide b)
  && Bool.eqb (o_pic a) (o_pic b) && Bool.eqb (o_zwjtab a) (o_zwjtab b) && Bool.eqb (o_lf a) (o_lf b)
  && Bool.eqb (o_cr a) (o_cr b) && Bool.eqb (o_zwj a) (o_zwj b) && Bool.eqb (o_dq a) (o_dq b) && Bool.eqb (o_word a) (o_word b).

(* run the reuse history through the model, then the text *)
Fixpoint run_hist (s : segmenter) (h : list (list Z)) : res segmenter :=
  match h with
  | [] => Ok s
  | p :: r => do s' <- seg_init s (map obs_of_code p); run_hist s' r
  end.

(* ---- observation correspondence: obs_of_rune r (regenerated tables through the C20 lookup models) against the
   observation code the driver computed for r with the library's own lookups, for every rune of every case.
   obs_of_rune costs a few ms; it is evaluated once per distinct rune of a shard. ---- *)
Definition zkey (z : Z) : positive := match z with Z0 => 1%positive | Zpos p => (p~0)%positive | Zneg p => (p~1)%positive end.
Definition memo := PositiveMap.t obs.
Fixpoint memo_add (m : memo) (zs : list Z) : memo :=
  match zs with
  | [] => m
  | z :: t => let r := rune_of z in
              memo_add (match PositiveMap.find (zkey r) m with
                        | Some _ => m
                        | None => PositiveMap.add (zkey r) (obs_of_rune r) m
                        end) t
  end.
Definition obs_memo (m : memo) (r : Z) : obs :=
  match PositiveMap.find (zkey r) m with Some o => o | None => obs_of_rune r end.
Definition runes_match (m : memo) (zs : list Z) : bool :=
  forallb (fun z => obs_eqb (obs_memo m (rune_of z)) (obs_of_code z)) zs.

Definition corr_ok (m : memo) (c : case) : bool :=
  runes_match m (concat (k_hist c)) && runes_match m (k_text c) &&
  obs_eqb (obs_of_code (k_nul c)) obs_nul && obs_eqb (obs_of_code (k_psep c)) obs_psep &&
  match (do s0 <- run_hist seg_zero (k_hist c); seg_init s0 (map obs_of_code (k_text c))) with
  | Ok s =>
      zlist_eqb (map attr_code (sg_attrs s)) (k_attrs c)
      && triples_eqb (line_segments s) (k_lines c)
      && pairs_eqb (grapheme_segments s) (k_graphemes c)
      && pairs_eqb (word_segments s) (k_words c)
  | _ => false
  end.

(* ---- oracle: the implementation's attributes against the rules ---- *)
Definition spec_code (l : lbr) (g w : bool) : Z :=
  match l with Mandatory => 3 | Allowed => 1 | Prohibited => 0 end + (if g then 4 else 0) + (if w then 8 else 0).

Fixpoint spec_codes (left right : list obs) : list Z :=
  spec_code (lb_decision left right) (gb_boundary left right) (wb_boundary left right)
  :: match right with [] => [] | o :: r => spec_codes (o :: left) r end.

(* 0 = agree, 1 = differs only in the line flag at an F3 position, 2 = differs otherwise *)
Fixpoint oracle_from (left right : list obs) (got : list Z) : nat :=
  match got with
  | [] => 2
  | g :: got' =>
      let want := spec_code (lb_decision left right) (gb_boundary left right) (wb_boundary left right) in
      let here := if g =? want then 0%nat else 2%nat in
      match right with
      | [] => match got' with [] => here | _ => 2%nat end
      | o :: r => Nat.max here (oracle_from (o :: left) r got')
      end
  end.

(* iterators: consecutive non-empty segments that cover the text, each ending at a flagged position *)
Fixpoint segs_ok (segs : list (Z * Z)) (pos : Z) (attrs : list Z) (bit : Z) : bool :=
  match segs with
  | [] => true
  | (off, len) :: r => (off =? pos) && (0 <? len) && Z.testbit (nth (Z.to_nat (off + len)) attrs 0) bit
                       && segs_ok r (off + len) attrs bit
  end.
Definition covers (segs : list (Z * Z)) (n : Z) : bool :=
  match n with
  | 0 => match segs with [] => true | _ => false end
  | _ => (fold_right (fun s acc => snd s + acc) 0 segs =? n)
  end.
Fixpoint mand_ok (lines : list (Z * Z * bool)) (attrs : list Z) : bool :=
  match lines with
  | [] => true
  | (off, len, m) :: r => Bool.eqb m (Z.testbit (nth (Z.to_nat (off + len)) attrs 0) 1) && mand_ok r attrs
  end.

Definition oracle (c : case) : nat :=
  let text := map obs_of_code (k_text c) in
  let n := Z.of_nat (length text) in
  let o1 := oracle_from [] text (k_attrs c) in
  let lines2 := map (fun t => (fst (fst t), snd (fst t))) (k_lines c) in
  let it_ok :=
    segs_ok lines2 0 (k_attrs c) 0 && covers lines2 n && mand_ok (k_lines c) (k_attrs c)
    && segs_ok (k_graphemes c) 0 (k_attrs c) 2 && covers (k_graphemes c) n
    && pairs_eqb (k_words c) (spec_words text (wb_spec text) 0 0 false) in
  (* table facts on the library's own observations (theorems obs_of_rune_wf_* of Props/C06.v) *)
  let wf_ok := forallb (fun o => obs_wf_g o && obs_wf_l o && obs_wf_w o) text in
  if it_ok && wf_ok then o1 else 2%nat.

Fixpoint check_from (m : memo) (i : nat) (cs : list case) : list (nat * nat) :=
  match cs with
  | [] => []
  | c :: r =>
      (if corr_ok m c then [] else [(i, 1%nat)])
      ++ (match oracle c with O => [] | S O => [(i, 10%nat)] | _ => [(i, 2%nat)] end)
      ++ check_from m (S i) r
  end.
Definition check_all (cs : list case) : list (nat * nat) :=
  check_from (fold_left (fun m c => memo_add (fold_left memo_add (k_hist c) m) (k_text c)) cs (PositiveMap.empty obs)) 0 cs.
