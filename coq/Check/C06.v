(* Case checker for C06 (segmenter).  kind 1 = model differs from the implementation,
   kind 2 = implementation differs from the UAX #14 / #29 specification (oracle),
   kind 10 = oracle failure confined to positions matching the known LB25 finding (F3). *)
From TV Require Export Model.Segmenter Spec.UAX14 Spec.UAX29.
Open Scope Z_scope.

(* compact rune observation code written by the driver:
   lb + 43*(gb + 14*(wb + 15*flags)), flags bit0 mnmc, 1 cn, 2 wide, 3 pic, 4 zwjtab, 5 lf, 6 cr, 7 zwj, 8 dq, 9 word *)
Definition lbc_list := [LB_BK; LB_CR; LB_LF; LB_NL; LB_SP; LB_NU; LB_AL; LB_IS; LB_PR; LB_PO; LB_OP; LB_CL; LB_CP;
  LB_QU; LB_HY; LB_SG; LB_GL; LB_NS; LB_EX; LB_SY; LB_HL; LB_ID; LB_IN; LB_BA; LB_BB; LB_B2;
  LB_ZW; LB_CM; LB_EB; LB_EM; LB_WJ; LB_ZWJ; LB_H2; LB_H3; LB_JL; LB_JV; LB_JT; LB_RI; LB_CB;
  LB_AI; LB_CJ; LB_SA; LB_XX].
Definition gbc_list := [GB_None; GB_CR; GB_Control; GB_Extend; GB_L; GB_LF; GB_LV; GB_LVT; GB_Prepend; GB_RI;
  GB_SpacingMark; GB_T; GB_V; GB_ZWJ].
Definition wbc_list := [WB_None; WB_ALetter; WB_Double_Quote; WB_ExtendFormat; WB_ExtendNumLet; WB_Hebrew_Letter; WB_Katakana;
  WB_MidLetter; WB_MidNum; WB_MidNumLet; WB_NewlineCRLF; WB_Numeric; WB_RI; WB_Single_Quote; WB_WSegSpace].

Definition obs_of_code (z : Z) : obs :=
  let lb := z mod 43 in let z1 := z / 43 in
  let gb := z1 mod 14 in let z2 := z1 / 14 in
  let wb := z2 mod 15 in let f := z2 / 15 in
  mkObs (nth (Z.to_nat lb) lbc_list LB_XX) (Z.testbit f 0) (Z.testbit f 1) (Z.testbit f 2) (Z.testbit f 3) (Z.testbit f 4)
        (nth (Z.to_nat gb) gbc_list GB_None) (nth (Z.to_nat wb) wbc_list WB_None)
        (Z.testbit f 5) (Z.testbit f 6) (Z.testbit f 7) (Z.testbit f 8) (Z.testbit f 9).

Record case := mkCase {
  k_nul : Z; k_psep : Z;               (* observation codes of U+0000 and U+2029 (sentinels of the loop) *)
  k_hist : list (list Z);              (* paragraphs given to the same Segmenter before (reuse history) *)
  k_text : list Z;
  k_attrs : list Z;                    (* attribute bytes after Init: 1 line, 2 mandatory, 4 grapheme, 8 word *)
  k_lines : list (Z * Z * bool);       (* LineIterator: offset, length, IsMandatoryBreak *)
  k_graphemes : list (Z * Z);
  k_words : list (Z * Z)
}.

Definition attr_code (a : attr) : Z :=
  (if a_line a then 1 else 0) + (if a_mandatory a then 2 else 0) + (if a_grapheme a then 4 else 0) + (if a_word a then 8 else 0).

Fixpoint zlist_eqb (a b : list Z) : bool :=
  match a, b with
  | [], [] => true
  | x :: a', y :: b' => (x =? y) && zlist_eqb a' b'
  | _, _ => false
  end.
Fixpoint pairs_eqb (a b : list (Z * Z)) : bool :=
  match a, b with
  | [], [] => true
  | (x1, x2) :: a', (y1, y2) :: b' => (x1 =? y1) && (x2 =? y2) && pairs_eqb a' b'
  | _, _ => false
  end.
Fixpoint triples_eqb (a b : list (Z * Z * bool)) : bool :=
  match a, b with
  | [], [] => true
  | (x1, x2, x3) :: a', (y1, y2, y3) :: b' => (x1 =? y1) && (x2 =? y2) && Bool.eqb x3 y3 && triples_eqb a' b'
  | _, _ => false
  end.

Definition obs_eqb (a b : obs) : bool :=
  lbc_beq (o_lb a) (o_lb b) && gbc_beq (o_gb a) (o_gb b) && wbc_beq (o_wb a) (o_wb b)
  && Bool.eqb (o_mnmc a) (o_mnmc b) && Bool.eqb (o_cn a) (o_cn b) && Bool.eqb (o_wide a) (o_wide b)
  && Bool.eqb (o_pic a) (o_pic b) && Bool.eqb (o_zwjtab a) (o_zwjtab b) && Bool.eqb (o_lf a) (o_lf b)
  && Bool.eqb (o_cr a) (o_cr b) && Bool.eqb (o_zwj a) (o_zwj b) && Bool.eqb (o_dq a) (o_dq b) && Bool.eqb (o_word a) (o_word b).

(* run the reuse history through the model, then the text *)
Fixpoint run_hist (s : segmenter) (h : list (list Z)) : res segmenter :=
  match h with
  | [] => Ok s
  | p :: r => do s' <- seg_init s (map obs_of_code p); run_hist s' r
  end.

Definition corr_ok (c : case) : bool :=
  forallb (fun z => obs_wf_g (obs_of_code z) && obs_wf_l (obs_of_code z) && obs_wf_w (obs_of_code z)) (k_text c) &&
  obs_eqb (obs_of_code (k_nul c)) obs_nul && obs_eqb (obs_of_code (k_psep c)) obs_psep &&
  match (do s0 <- run_hist seg_zero (k_hist c); seg_init s0 (map obs_of_code (k_text c))) with
  | Ok s =>
      zlist_eqb (map attr_code (sg_attrs s)) (k_attrs c)
      && triples_eqb (line_segments s) (k_lines c)
      && pairs_eqb (grapheme_segments s) (k_graphemes c)
      && pairs_eqb (word_segments s) (k_words c)
  | _ => false
  end.

(* ---- oracle: the implementation's attributes against the rules ---- *)
Definition spec_code (l : lbr) (g w : bool) : Z :=
  match l with Mandatory => 3 | Allowed => 1 | Prohibited => 0 end + (if g then 4 else 0) + (if w then 8 else 0).

Fixpoint spec_codes (left right : list obs) : list Z :=
  spec_code (lb_decision left right) (gb_boundary left right) (wb_boundary left right)
  :: match right with [] => [] | o :: r => spec_codes (o :: left) r end.

(* 0 = agree, 1 = differs only in the line flag at an F3 position, 2 = differs otherwise *)
Fixpoint oracle_from (left right : list obs) (got : list Z) : nat :=
  match got with
  | [] => 2
  | g :: got' =>
      let want := spec_code (lb_decision left right) (gb_boundary left right) (wb_boundary left right) in
      let here := if g =? want then 0%nat else 2%nat in
      match right with
      | [] => match got' with [] => here | _ => 2%nat end
      | o :: r => Nat.max here (oracle_from (o :: left) r got')
      end
  end.

(* iterators: consecutive non-empty segments that cover the text, each ending at a flagged position *)
Fixpoint segs_ok (segs : list (Z * Z)) (pos : Z) (attrs : list Z) (bit : Z) : bool :=
  match segs with
  | [] => true
  | (off, len) :: r => (off =? pos) && (0 <? len) && Z.testbit (nth (Z.to_nat (off + len)) attrs 0) bit
                       && segs_ok r (off + len) attrs bit
  end.
Definition covers (segs : list (Z * Z)) (n : Z) : bool :=
  match n with
  | 0 => match segs with [] => true | _ => false end
  | _ => (fold_right (fun s acc => snd s + acc) 0 segs =? n)
  end.
Fixpoint mand_ok (lines : list (Z * Z * bool)) (attrs : list Z) : bool :=
  match lines with
  | [] => true
  | (off, len, m) :: r => Bool.eqb m (Z.testbit (nth (Z.to_nat (off + len)) attrs 0) 1) && mand_ok r attrs
  end.

(* the words the specification prescribes: UAX #29 word segments starting with a rune of the Word table *)
Fixpoint spec_words (text : list obs) (bounds : list bool) (pos start : Z) (inw : bool) : list (Z * Z) :=
  (* bounds = word boundary flags of positions pos, pos+1, ... ; text = runes from pos *)
  match bounds with
  | [] => []
  | bd :: bounds' =>
      let emit := if bd && inw && (start <? pos) then [(start, pos - start)] else [] in
      match text with
      | [] => emit
      | o :: text' =>
          let start' := if bd then pos else start in
          let inw' := if bd then o_word o else inw in
          emit ++ spec_words text' bounds' (pos + 1) start' inw'
      end
  end.

Definition oracle (c : case) : nat :=
  let text := map obs_of_code (k_text c) in
  let n := Z.of_nat (length text) in
  let o1 := oracle_from [] text (k_attrs c) in
  let lines2 := map (fun t => (fst (fst t), snd (fst t))) (k_lines c) in
  let it_ok :=
    segs_ok lines2 0 (k_attrs c) 0 && covers lines2 n && mand_ok (k_lines c) (k_attrs c)
    && segs_ok (k_graphemes c) 0 (k_attrs c) 2 && covers (k_graphemes c) n
    && pairs_eqb (k_words c) (spec_words text (wb_spec text) 0 0 false) in
  if it_ok then o1 else 2%nat.

Fixpoint check_from (i : nat) (cs : list case) : list (nat * nat) :=
  match cs with
  | [] => []
  | c :: r =>
      (if corr_ok c then [] else [(i, 1%nat)])
      ++ (match oracle c with O => [] | S O => [(i, 10%nat)] | _ => [(i, 2%nat)] end)
      ++ check_from (S i) r
  end.
Definition check_all (cs : list case) : list (nat * nat) := check_from 0 cs.
