(* Case checker for Arabic joining (C18, driver c18arab): the REAL applyArabicJoining on a real Buffer (code points with
   the unicode properties the shaper computes, pre- and post-context set).
   kind 1 = correspondence: the model of the loop as written (Model/ArabicJoin.v arab_code) run on the input gives
            other shaping actions, clusters, glyph flags or bsfHasGlyphFlags than the implementation; or (both Produce*
            options off) the pass of the cut theorem (prun arab_pass) gives other actions / clusters / flags; or the
            dumped arabicStateTable differs from the model's table;
   kind 2 = oracle, the cut statement on the implementation's OWN outputs: for a cut of the input along cluster values
            whose cluster is present and unflagged in the whole output, the outputs of the two pieces (each run with the
            other piece's code points added to its context) concatenated differ from the whole output (actions,
            clusters, unsafe-to-break flags).  The contexts of the pieces are cut to contextLength = 5 code points, as
            AddRunes would;
   kind 12 = such an oracle failure whose failing cuts all have the signature of the known finding C18-F98: the 5 nearest
            code points of the later piece's pre-context (or, with ProduceSafeToInsertTatweel, of the earlier piece's
            post-context) are all transparent and the cut-off part holds a letter. *)
From TV Require Export Model.ArabicJoin.

Definition FLz (f : Z) : fl := mkFl (Z.testbit f 0) (Z.testbit f 1) (Z.testbit f 2).
(* cluster, glyph flags, rest of the mask, joining type, action *)
Definition A (c f r ty a : Z) : item := mkI (mkGX c (FLz f) r ty 0 0 0) a p0.
(* a code point of the context *)
Definition J (ty : Z) : item := A 0 0 0 ty 7.

Definition fl_eq (a b : fl) : bool := Bool.eqb (utb a) (utb b) && Bool.eqb (utc a) (utc b) && Bool.eqb (tat a) (tat b).
Definition aitem_eqb (a b : item) : bool :=
  (icl a =? icl b) && fl_eq (gf (ig a)) (gf (ig b)) && (rest (ig a) =? rest (ig b)) && (cp (ig a) =? cp (ig b)) && (ilig a =? ilig b).
Fixpoint aitems_eqb (a b : list item) : bool :=
  match a, b with
  | [], [] => true
  | x :: a', y :: b' => aitem_eqb x y && aitems_eqb a' b'
  | _, _ => false
  end.
(* what the cut statement compares *)
Definition aitem_same (a b : item) : bool :=
  (icl a =? icl b) && Bool.eqb (iutb a) (iutb b) && (cp (ig a) =? cp (ig b)) && (ilig a =? ilig b).
Fixpoint aitems_same (a b : list item) : bool :=
  match a, b with
  | [], [] => true
  | x :: a', y :: b' => aitem_same x y && aitems_same a' b'
  | _, _ => false
  end.

Record case := mkAC {
  a_concat : bool; a_tatweel : bool;
  a_L : list item; a_R : list item;                  (* pre- and post-context in text order *)
  a_in : list item; a_rec : bool;
  a_out : list item; a_orec : bool; a_panic : bool;  (* what the implementation produced *)
  a_cuts : list (nat * list item * list item);       (* k, output on input[:k], output on input[k:] *)
  a_tab : list (list (Z * Z * Z))                    (* the dumped arabicStateTable ([] = not sent with this case) *)
}.

Fixpoint list_eqb {T} (eq : T -> T -> bool) (a b : list T) : bool :=
  match a, b with
  | [], [] => true
  | x :: a', y :: b' => eq x y && list_eqb eq a' b'
  | _, _ => false
  end.
Definition triple_eqb (a b : Z * Z * Z) : bool :=
  (fst (fst a) =? fst (fst b)) && (snd (fst a) =? snd (fst b)) && (snd a =? snd b).
Definition tab_ok (c : case) : bool :=
  match a_tab c with
  | [] => true
  | t => list_eqb (list_eqb triple_eqb) t (map (map (fun e => (e_prev e, e_curr e, Z.of_nat (e_next e)))) arab_table)
  end.

Definition both_off (c : case) : bool := negb (a_concat c) && negb (a_tatweel c).

Definition corr_ok (c : case) : bool :=
  negb (a_panic c) && tab_ok c
  && (let '(o, r) := arab_code (a_concat c) (a_tatweel c) (a_L c) (a_R c) (a_in c) (a_rec c) in
      aitems_eqb o (a_out c) && Bool.eqb r (a_orec c))
  && (negb (both_off c) || aitems_eqb (prun arab_pass (a_L c) (a_R c) (a_in c)) (a_out c)).

(* the cluster value of a cut of l ++ r in logical order, when it is one *)
Definition cut_cluster (l r : list item) : option Z :=
  match l, r with
  | [], _ | _, [] => None
  | _, _ =>
    let a := lminz (icls r) in
    if forallb (fun x => icl x <? a) l then Some a else None
  end.

Definition cut_ok (c : case) (cut : nat * list item * list item) : bool :=
  let '(k, a, b) := cut in
  match cut_cluster (firstn k (a_in c)) (skipn k (a_in c)) with
  | None => true
  | Some cv => fog icl iutb cv (a_out c) || aitems_same (a_out c) (a ++ b)
  end.
Definition oracle_ok (c : case) : bool := a_panic c || forallb (cut_ok c) (a_cuts c).

(* C18-F98 (known finding): the context a piece really gets is cut to contextLength = 5 code points (AddRunes).
   Signature of a failing cut at k: the 5 nearest code points on the left of the later piece (outer pre-context ++
   input[:k]) are all transparent and the part that is cut off holds a letter; or the same on the right of the earlier
   piece (input[k:] ++ outer post-context) — the latter can only fail with ProduceSafeToInsertTatweel on, when the window
   up to the hidden letter carries the tatweel flag instead of unsafe-to-break. *)
Definition context_length : nat := 5.
Definition hides_letter (nearest_first : list item) : bool :=
  forallb is_T (firstn context_length nearest_first) && existsb (fun x => negb (is_T x)) (skipn context_length nearest_first).
Definition truncation_hides_letter (c : case) (cut : nat * list item * list item) : bool :=
  let '(k, _, _) := cut in
  hides_letter (rev (a_L c ++ firstn k (a_in c)))                          (* context[0] of the later piece *)
  || (a_tatweel c && hides_letter (skipn k (a_in c) ++ a_R c)).             (* context[1] of the earlier piece *)
(* every failing cut of the case has the signature *)
Definition only_truncation_failures (c : case) : bool :=
  forallb (fun cut => cut_ok c cut || truncation_hides_letter c cut) (a_cuts c).

Fixpoint check_from (i : nat) (cs : list case) : list (nat * nat) :=
  match cs with
  | [] => []
  | c :: r =>
    (if corr_ok c then [] else [(i, 1%nat)])
    ++ (if oracle_ok c then [] else [(i, if only_truncation_failures c then 12%nat else 2%nat)])
    ++ check_from (S i) r
  end.
Definition check_all (cs : list case) : list (nat * nat) := check_from 0 cs.
