(* Case checker for C10, composite glyphs and the exact float32 path.
   The driver prints every float32 the library returned as its IEEE-754 bit pattern (math.Float32bits); the checker
   decodes it (f32_of_bits) and compares it EXACTLY with the value the decoder model computes from the raw glyf records.
   kind 1 = correspondence on internal data: the float32 arithmetic probes (and a case the model cannot evaluate);
   kind 2 = oracle: the glyph points, the phantom points or the outline segments returned by the library differ from the independent
            decoding of the raw bytes, a coordinate is not finite, or a contour of the returned outline is not closed /
            leaves the box of the decoded points. *)
From TV Require Export Model.Composite Spec.Outline.
Open Scope Z_scope.

(* a point as observed: coordinates as float32 bit patterns *)
Record bpoint := FP { b_x : Z; b_y : Z; b_on : bool; b_end : bool }.
Definition M (x y : Z) : seg := MoveTo (x, y).
Definition L (x y : Z) : seg := LineTo (x, y).
Definition Q (a b x y : Z) : seg := QuadTo (a, b) (x, y).

Record ccase := mkCC {
  cc_gid : Z;
  cc_pts : list bpoint;           (* Face.getPointsForGlyph(gid, 0): points then the 4 phantoms *)
  cc_has_outline : bool;          (* GlyphData returned a GlyphOutline *)
  cc_segs : list seg              (* its segments, coordinates as bit patterns *)
}.

Inductive case :=
| CCompFont (head hhea hmtx vhea vmtx : list Z) (nglyf : Z) (recs : list (Z * list Z)) (glyphs : list ccase)
| CF32 (op : Z) (args : list Z) (r : Z).     (* float32 arithmetic probe, everything as bit patterns *)

Definition bits_is (b : Z) (v : Z) : bool := match f32_of_bits b with Some x => x =? v | None => false end.
Definition bpoint_is (b : bpoint) (p : cpoint) : bool :=
  bits_is (b_x b) (cp_x p) && bits_is (b_y b) (cp_y p) && Bool.eqb (b_on b) (cp_on p) && Bool.eqb (b_end b) (cp_end p).
Definition bpt_is (b v : pt) : bool := bits_is (fst b) (fst v) && bits_is (snd b) (snd v).
Definition bseg_is (b v : seg) : bool :=
  match b, v with
  | MoveTo p, MoveTo q => bpt_is p q
  | LineTo p, LineTo q => bpt_is p q
  | QuadTo c p, QuadTo d q => bpt_is c d && bpt_is p q
  | _, _ => false
  end.

Definition dec_bits (b : Z) : Z := match f32_of_bits b with Some x => x | None => 0 end.
Definition dec_pt (p : pt) : pt := (dec_bits (fst p), dec_bits (snd p)).
Definition dec_seg (s : seg) : seg :=
  match s with MoveTo p => MoveTo (dec_pt p) | LineTo p => LineTo (dec_pt p) | QuadTo c p => QuadTo (dec_pt c) (dec_pt p) end.

Definition mk_env (head hhea hmtx vhea vmtx : list Z) (nglyf : Z) (recs : list (Z * list Z)) : option cenv :=
  match head_upem head, load_hmtx hhea hmtx nglyf, load_hmtx vhea vmtx nglyf with
  | Ok u, Ok th, Ok tv => Some (mkEnv nglyf recs th tv u)
  | _, _, _ => None
  end.

(* every contour of the outline is closed; every segment argument lies in the box of the points *)
Definition pt_in_box (bx : Z * Z * Z * Z) (p : pt) : bool :=
  let '(minx, miny, maxx, maxy) := bx in
  (minx <=? fst p) && (fst p <=? maxx) && (miny <=? snd p) && (snd p <=? maxy).
Definition outline_in_box (pts : list cpoint) (segs : list seg) : bool :=
  match pts with
  | [] => match segs with [] => true | _ => false end
  | p0 :: _ =>
      let bx := bbox_acc pts (cp_x p0) (cp_y p0) (cp_x p0) (cp_y p0) in
      forallb (fun q => pt_in_box bx (fst q)) (trace segs)
  end.
Definition contours_closed (segs : list seg) : bool := forallb closed_contourb (split_segs segs).

Definition glyph_kind (e : cenv) (g : ccase) : nat :=
  match glyf_all_points e (cc_gid g) with
  | Ok all =>
      let n := (length all - 4)%nat in
      let true_ok := all2 bpoint_is (firstn n (cc_pts g)) (firstn n all) in
      let ph_ok := all2 bpoint_is (skipn n (cc_pts g)) (skipn n all) in
      let pts := firstn n all in
      let segs := build_segments_f pts in
      let seg_ok := cc_has_outline g && all2 bseg_is (cc_segs g) segs in
      let go_segs := map dec_seg (cc_segs g) in
      let shape_ok := negb (good_points pts) || (contours_closed go_segs && outline_in_box pts go_segs) in
      if negb (all_finite all && true_ok && ph_ok && seg_ok && shape_ok && (4 <=? zlen all)) then 2%nat else 0%nat
  | _ => 1%nat
  end.

Definition f32_probe (op : Z) (args : list Z) : option Z :=
  if (op =? 5) || (op =? 6) then
    match args with
    | [a] => Some (if op =? 5 then f32_of_int (sint16 a) else f214 a)      (* float32(int16(v)), Float214FromUint(v) *)
    | _ => None
    end
  else
  match map f32_of_bits args with
  | [Some a; Some b] =>
      if op =? 0 then Some (f32_add a b) else if op =? 1 then Some (f32_mul a b)
      else if op =? 2 then Some (f32_half (f32_add a b)) else if op =? 3 then Some (f32_sub a b) else None
  | [Some a; Some b; Some c; Some d] =>
      if op =? 4 then Some (f32_add (f32_mul a b) (f32_mul c d)) else None
  | _ => None
  end.

Definition case_kinds (c : case) : list nat :=
  match c with
  | CCompFont head hhea hmtx vhea vmtx nglyf recs glyphs =>
      match mk_env head hhea hmtx vhea vmtx nglyf recs with
      | Some e =>
          let ks := map (glyph_kind e) glyphs in
          (if existsb (Nat.eqb 1) ks then [1%nat] else []) ++ (if existsb (Nat.eqb 2) ks then [2%nat] else [])
      | None => [1%nat]
      end
  | CF32 op args r =>
      match f32_probe op args with
      | Some v => if bits_is r v then [] else [1%nat]
      | None => [1%nat]
      end
  end.

Fixpoint check_from (i : nat) (cs : list case) : list (nat * nat) :=
  match cs with
  | [] => []
  | c :: r => map (fun k => (i, k)) (case_kinds c) ++ check_from (S i) r
  end.
Definition check_all (cs : list case) : list (nat * nat) := check_from 0 cs.
