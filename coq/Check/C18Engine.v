(* Case checker for the engine pieces of C18 (driver c18engine): the REAL otApplyFallbackKern / GSUB single + ligature
   substitution / GPOS mark-to-base attachment, run through the real lookup loops on a real Buffer with synthetic tables.
   kind 1  = correspondence: the model (Model/KernMachine.v, GsubLig.v, MarkBase.v) run on the input differs from what
             the implementation produced (glyph ids, clusters, all glyph flags, glyphProps, unicode props, positions,
             attachment chain / type, bsfHasGlyphFlags; ligProps for kern and mark attachment);
   kind 2  = oracle, the cut statement of C18 on the implementation's OWN outputs: for a cut of the input along cluster
             values whose cluster is present and unflagged in the whole output, the outputs of the two pieces concatenated
             differ from the whole output (glyph ids, clusters, unsafe-to-break flags, glyphProps, positions);
   kind 10 = such an oracle failure of the legacy kerning when some skippable glyph (mark or default ignorable) of the
             input is the left glyph of a non-zero pair with a glyph of the input (known finding F61). *)
From TV Require Export Model.KernMachine Model.MarkBase Model.GsubLig.

Definition FLz (f : Z) : fl := mkFl (Z.testbit f 0) (Z.testbit f 1) (Z.testbit f 2).
Definition I (c f r g u q l xa_ ya_ xo_ yo_ ac_ at_ : Z) : item := mkI (mkGX c (FLz f) r 0 g u q) l (mkP xa_ ya_ xo_ yo_ ac_ at_).

Definition fl_eq (a b : fl) : bool := Bool.eqb (utb a) (utb b) && Bool.eqb (utc a) (utc b) && Bool.eqb (tat a) (tat b).
Definition posn_eqb (a b : posn) : bool :=
  (xa a =? xa b) && (ya a =? ya b) && (xo a =? xo b) && (yo a =? yo b) && (ach a =? ach b) && (aty a =? aty b).
Definition item_eqb (lig : bool) (a b : item) : bool :=
  (icl a =? icl b) && fl_eq (gf (ig a)) (gf (ig b)) && (rest (ig a) =? rest (ig b)) && (igid a =? igid b)
  && (up (ig a) =? up (ig b)) && (gp (ig a) =? gp (ig b)) && (negb lig || (ilig a =? ilig b)) && posn_eqb (ip a) (ip b).
Fixpoint items_eqb (lig : bool) (a b : list item) : bool :=
  match a, b with
  | [], [] => true
  | x :: a', y :: b' => item_eqb lig x y && items_eqb lig a' b'
  | _, _ => false
  end.
(* what the cut statement compares *)
Definition item_same (a b : item) : bool :=
  (icl a =? icl b) && Bool.eqb (iutb a) (iutb b) && (igid a =? igid b) && (gp (ig a) =? gp (ig b)) && posn_eqb (ip a) (ip b).
Fixpoint items_same (a b : list item) : bool :=
  match a, b with
  | [], [] => true
  | x :: a', y :: b' => item_same x y && items_same a' b'
  | _, _ => false
  end.

Inductive epiece :=
| EKern (P : kparams) (concat backward : bool)
| EMark (Ps : list mbparams) (concat : bool)
| EGsub (Ps : list gsparams).

Record case := mkEC {
  e_piece : epiece;
  e_in : list item; e_rec : bool;                   (* input glyphs, bsfHasGlyphFlags *)
  e_out : list item; e_orec : bool; e_panic : bool;  (* what the implementation produced *)
  e_cuts : list (nat * list item * list item)        (* k, output on input[:k], output on input[k:] *)
}.

Definition model_run (p : epiece) (l : list item) (rec : bool) : list item * bool :=
  match p with
  | EKern P c b => fallback_kern_f P c b l rec
  | EMark Ps c => mb_run c Ps l rec
  | EGsub Ps => (gs_run Ps l, rec)
  end.
Definition with_lig_cmp (p : epiece) : bool := match p with EGsub _ => false | _ => true end.

Definition corr_ok (c : case) : bool :=
  negb (e_panic c)
  && let '(o, r) := model_run (e_piece c) (e_in c) (e_rec c) in
     items_eqb (with_lig_cmp (e_piece c)) o (e_out c) && Bool.eqb r (e_orec c).

(* the cluster value of a cut of l ++ r (logical or reverse order), when it is one *)
Definition cut_cluster (l r : list item) : option Z :=
  match l, r with
  | [], _ | _, [] => None
  | _, _ =>
    let a := lminz (icls r) in
    let b := lminz (icls l) in
    if forallb (fun x => icl x <? a) l then Some a
    else if forallb (fun y => icl y <? b) r then Some b
    else None
  end.

Definition cut_ok (c : case) (cut : nat * list item * list item) : bool :=
  let '(k, a, b) := cut in
  match cut_cluster (firstn k (e_in c)) (skipn k (e_in c)) with
  | None => true
  | Some cv => fog icl iutb cv (e_out c) || items_same (e_out c) (a ++ b)
  end.
Definition oracle_ok (c : case) : bool := e_panic c || forallb (cut_ok c) (e_cuts c).

(* F61: a skippable glyph of the input is the left glyph of a non-zero pair *)
Definition kern_left_skippable (c : case) : bool :=
  match e_piece c with
  | EKern P _ _ =>
    existsb (fun x => match kmatch P x with MSkip => true | _ => false end
                      && existsb (fun y => negb (kern_pair P (igid x) (igid y) =? 0)) (e_in c)) (e_in c)
  | _ => false
  end.

Fixpoint check_from (i : nat) (cs : list case) : list (nat * nat) :=
  match cs with
  | [] => []
  | c :: r =>
    (if corr_ok c then [] else [(i, 1%nat)])
    ++ (if oracle_ok c then [] else [(i, if kern_left_skippable c then 10%nat else 2%nat)])
    ++ check_from (S i) r
  end.
Definition check_all (cs : list case) : list (nat * nat) := check_from 0 cs.
