(* Case checker for the conversion part of Shape (C12), driver c12conv.
   A case holds the input of one real call of HarfbuzzShaper.Shape, the RAW material captured through the hook
   VerifShapeRaw (font scale, buffer direction, buf.Info/buf.Pos after Buffer.Shape, the extents of every glyph id read
   from the shaper's own harfbuzz font, the font extents for the four harfbuzz directions) and the Output of that call.
   kind 1 = the model Model/ShapeConv.v fed with the raw material differs from the Output of Shape (any field),
   kind 2 = an identity of Spec/Geometry.v + Spec/ShapeConv.v is false on the implementation's own values. *)
From TV Require Export Lib.Bytes Model.Output Model.ShapeConv Spec.Geometry Spec.ShapeConv.

Inductive case :=
| CConv (size dir run_start run_end : Z)                      (* Input.Size (26.6), Direction, RunStart, RunEnd *)
        (shift xscale yscale hbdir : Z)                       (* const scaleShift, font.XScale, font.YScale, buf.Props.Direction *)
        (hb : list hbglyph)                                   (* buf.Info / buf.Pos *)
        (exts : list (Z * option hbext))                      (* font.GlyphExtents per glyph id of hb *)
        (fexts : list (Z * fextents))                         (* font.ExtentsForDirection for 4, 5, 6, 7 *)
        (o : output) (line : bounds) (ids : list (Z * Z)) (off count rsize : Z)      (* the Output of Shape *)
        (horiz : option (output * bounds)).                   (* sideways runs: Shape of the same input on the horizontal axis *)

Fixpoint assoc {A} (d : A) (l : list (Z * A)) (k : Z) : A :=
  match l with
  | [] => d
  | (k', v) :: r => if k' =? k then v else assoc d r k
  end.

Definition glyph_eqb (a b : glyph) : bool :=
  same_shape a b && (g_xadv a =? g_xadv b) && (g_yadv a =? g_yadv b) && (g_xoff a =? g_xoff b) && (g_yoff a =? g_yoff b)
  && (g_startls a =? g_startls b) && (g_endls a =? g_endls b).
Definition output_eqb (a b : output) : bool :=
  (o_adv a =? o_adv b) && all2 glyph_eqb (o_glyphs a) (o_glyphs b) && bounds_eqb (o_gbounds a) (o_gbounds b) && (o_dir a =? o_dir b).
Definition pair_eqb (a b : Z * Z) : bool := (fst a =? fst b) && (snd a =? snd b).

Definition zero_f : f32 := mkF 0 0.

Definition check_case (c : case) : list nat :=
  match c with
  | CConv size dir rs re shift xscale yscale hbdir hb exts fexts o line ids off count rsize horiz =>
    let eng := fun (_ _ : Z) => hb in
    let ext := fun (_ : Z) => assoc None exts in
    let fext := fun (_ : Z) => assoc (mkFE zero_f zero_f zero_f) fexts in
    let m := shape_conv eng ext fext size dir rs re in
    let horiz_dir := horizontal_of dir in
    let mh := shape_conv eng ext fext size horiz_dir rs re in
    (if (shift =? scale_shift) && (xscale =? co_scale m) && (yscale =? co_scale m) && (hbdir =? co_hbdir m)
        && output_eqb (co_out m) o && bounds_eqb (co_line m) line && all2 pair_eqb (co_ids m) ids
        && (off =? co_off m) && (count =? co_count m) && (rsize =? co_size m)
        (* the horizontal shaping of a sideways input: the model fed with the engine result of the sideways call *)
        && match horiz with
           | None => true
           | Some (h, hl) => is_sideways dir && output_eqb (co_out mh) h && bounds_eqb (co_line mh) hl
           end
     then [] else [1%nat])
    ++
    (if (* hypothesis of the theorems, observed on the engine: zero cross-axis advances in the direction it was asked *)
        hb_cross_zero (engine_vertical dir) hb
        (* consequences, on the implementation's own output *)
        && advance_ok o && cross_zero o && (o_adv o =? hb_axis_sum ext xscale dir hb)
        && bounds_eqb line (line_of (assoc (mkFE zero_f zero_f zero_f) fexts (harfbuzz_dir dir)))
        && match horiz with None => true | Some (h, _) => sideways_ok h o end
     then [] else [2%nat])
  end.

Fixpoint check_from (i : nat) (cs : list case) : list (nat * nat) :=
  match cs with
  | [] => []
  | c :: r => map (fun k => (i, k)) (check_case c) ++ check_from (S i) r
  end.
Definition check_all (cs : list case) : list (nat * nat) := check_from 0 cs.
