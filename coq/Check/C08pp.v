(* Case checker for C08, driver c08pp: LineWrapper.postProcessLine (ordering, trailing white space,
   truncator).  Kinds as in Check/C08.v. *)
From TV Require Export Lib.Bytes Model.BidiOrder Spec.L2.

Record case := mkCase {
  c_w : wstate;            (* wrapper state read by the method *)
  c_line : list run;       (* finalLine *)
  c_done : bool;
  c_plevel : nat;          (* paragraph level; c_w.w_dir = direction of that level *)
  c_levels : list nat;     (* embedding level of each run of c_line (Direction = parity) *)
  c_tlevel : nat;          (* level given to the truncator run *)
  (* observed *)
  c_oline : list run; c_otrunc : Z; c_onext : Z; c_odone : bool; c_olines : Z; c_omore : bool
}.

Definition glyph_eqb (a b : glyph) : bool :=
  (g_width a =? g_width b) && (g_height a =? g_height b) && (g_xadv a =? g_xadv b) && (g_yadv a =? g_yadv b).
Fixpoint glyphs_eqb (a b : list glyph) : bool :=
  match a, b with
  | [], [] => true
  | x :: a', y :: b' => glyph_eqb x y && glyphs_eqb a' b'
  | _, _ => false
  end.
Definition run_eqb (a b : run) : bool :=
  (r_dir a =? r_dir b) && (r_vis a =? r_vis b) && (r_adv a =? r_adv b) && (r_off a =? r_off b)
  && (r_cnt a =? r_cnt b) && glyphs_eqb (r_glyphs a) (r_glyphs b).
Fixpoint runs_eqb (a b : list run) : bool :=
  match a, b with
  | [], [] => true
  | x :: a', y :: b' => run_eqb x y && runs_eqb a' b'
  | _, _ => false
  end.

Definition corr_ok (c : case) : bool :=
  let r := post_process_line (c_w c) (c_line c) (c_done c) in
  runs_eqb (pp_line r) (c_oline c) && (pp_truncated r =? c_otrunc c) && (pp_next r =? c_onext c)
  && Bool.eqb (pp_done r) (c_odone c) && (w_lines_left (pp_state r) =? c_olines c)
  && Bool.eqb (w_more (pp_state r)) (c_omore c).

Definition srun_of (r : run) : srun :=
  (is_vertical (r_dir r), r_adv r, map (fun g => (g_width g, g_height g, g_xadv g, g_yadv g)) (r_glyphs r)).

Definition out_levels (c : case) : list nat :=
  if (length (c_line c) <? length (c_oline c))%nat then c_levels c ++ [c_tlevel c] else c_levels c.
Definition deep (c : case) : bool := existsb (fun l => c_plevel c + 2 <=? l)%nat (out_levels c).

Definition perm_ok (c : case) : bool := is_permutation_of_iota (map r_vis (c_oline c)).
Definition l2_ok (c : case) : bool := follows_l2 (out_levels c) (map r_vis (c_oline c)).
Definition trim_ok (c : case) : bool :=
  let inp := map srun_of (c_line c) in
  let out := map srun_of (firstn (length (c_line c)) (c_oline c)) in
  if w_disable_trim (c_w c) then sruns_eqb inp out
  else trim_follows_spec (toward (w_dir (c_w c))) (c_levels c) inp out.

Definition check_case (c : case) : list nat :=
  (if corr_ok c then [] else [1%nat])
  ++ (if perm_ok c then [] else [2%nat])
  ++ (if l2_ok c && trim_ok c then [] else if deep c then [10%nat] else [2%nat]).

Fixpoint check_from (i : nat) (cs : list case) : list (nat * nat) :=
  match cs with
  | [] => []
  | c :: r => map (fun k => (i, k)) (check_case c) ++ check_from (S i) r
  end.
Definition check_all (cs : list case) : list (nat * nat) := check_from 0 cs.
