(* Case checker for C20: evaluated by vm_compute on the cases the Go driver observed.
   kind 1 = the model and the implementation differ (correspondence),
   kind 2 = the implementation's own output violates the specification (oracle). *)
From TV Require Export Lib.Bytes Model.Unicode Model.Lang Spec.Unicode Model.UnicodeShape.

Definition dval := (Z * (bool * bool * bool * bool))%type.   (* Direction byte, (IsVertical, Progression, HasVerticalOrientation, IsSideways) *)

Inductive case :=
(* one code point: LookupType, LookupCombiningClass, LookupLineBreakClass, LookupGraphemeBreakClass, LookupWordBreakClass
   (class ids, -1 = nil), LookupMirrorChar(r), first result of LookupMirrorChar on that result, Decompose(r),
   Compose of its parts, decomposeHangul(r), LookupScript(r) *)
| CCp (r : Z) (gc cc lb gb wb : Z) (mir : Z * bool) (mir2 : Z) (dec : Z * Z * bool) (comp : Z * bool)
      (hdec : Z * Z * bool) (script : Z) (ccparts : Z * Z)   (* LookupCombiningClass of the two parts of Decompose(r) *)
(* one pair: Compose(a,b), composeHangul(a,b), Decompose of the composed rune *)
| CPair (a b : Z) (comp : Z * bool) (hcomp : Z * bool) (dec : Z * Z * bool)
(* one Direction value: itself observed, Axis, Harfbuzz, SwitchAxis, SetProgression(false/true), SetSideways(false/true),
   SwitchAxis applied twice; every value is observed through IsVertical, Progression, HasVerticalOrientation, IsSideways *)
| CDir (d : dval) (axis : bool) (hb : Z) (sw sp0 sp1 ss0 ss1 sw2 : dval)
(* one string: NewLanguage(s), NewLanguage of that, Primary, binarySearchLang on both table parts, NewLangID,
   Language() of the id, NewLangID of that tag *)
| CLang (s l l2 prim : list Z) (bs1 bs2 : Z * bool) (id : Z * bool) (tag : list Z) (id2 : Z * bool)
(* one LangID: Language(), NewLangID of it *)
| CId (id : Z) (tag : list Z) (id2 : Z * bool).

Definition zb_eqb (x y : Z * bool) : bool := (fst x =? fst y) && Bool.eqb (snd x) (snd y).
Definition zzb_eqb (x y : Z * Z * bool) : bool :=
  (fst (fst x) =? fst (fst y)) && (snd (fst x) =? snd (fst y)) && Bool.eqb (snd x) (snd y).
Definition res_is {A} (eqb : A -> A -> bool) (r : res A) (v : A) : bool :=
  match r with Ok a => eqb a v | _ => false end.
Definition dval_of (d : Z) : dval :=
  (d, (dir_is_vertical d, dir_progression d, dir_has_vertical_orientation d, dir_is_sideways d)).
Definition dval_eqb (x y : dval) : bool :=
  let '(a, (a1, a2, a3, a4)) := x in let '(b, (b1, b2, b3, b4)) := y in
  (a =? b) && Bool.eqb a1 b1 && Bool.eqb a2 b2 && Bool.eqb a3 b3 && Bool.eqb a4 b4.
Definition dobs_of (x : dval) : dobs := let '(_, (a1, a2, a3, a4)) := x in mkDobs a1 a2 a3 a4.

Definition corr_ok (c : case) : bool :=
  match c with
  | CCp r gc cc lb gb wb mir mir2 dec comp hdec script ccparts =>
    res_is Z.eqb (lookup_combining_class (fst (fst dec))) (fst ccparts)
    && res_is Z.eqb (lookup_combining_class (snd (fst dec))) (snd ccparts)
    && res_is Z.eqb (do x <- lookup_type r; Ok (opt_nat_Z x)) gc
    && res_is Z.eqb (lookup_combining_class r) cc
    && res_is Z.eqb (do x <- lookup_line_break r; Ok (Z.of_nat x)) lb
    && res_is Z.eqb (do x <- lookup_grapheme_break r; Ok (opt_nat_Z x)) gb
    && res_is Z.eqb (do x <- lookup_word_break r; Ok (opt_nat_Z x)) wb
    && zb_eqb (lookup_mirror r) mir
    && (fst (lookup_mirror (fst mir)) =? mir2)
    && zzb_eqb (decompose r) dec && zzb_eqb (decompose_code r) dec
    && zb_eqb (compose (fst (fst dec)) (snd (fst dec))) comp && zb_eqb (compose_code (fst (fst dec)) (snd (fst dec))) comp
    && zzb_eqb (decompose_hangul r) hdec && zzb_eqb (decompose_hangul_src r) hdec
    && res_is Z.eqb (lookup_script r) script
  | CPair a b comp hcomp dec =>
    zb_eqb (compose a b) comp && zb_eqb (compose_hangul a b) hcomp && zzb_eqb (decompose (fst comp)) dec
    (* the functions translated from the source on this run *)
    && zb_eqb (compose_code a b) comp && zb_eqb (compose_hangul_src a b) hcomp && zzb_eqb (decompose_code (fst comp)) dec
  | CDir d axis hb sw sp0 sp1 ss0 ss1 sw2 =>
    let x := fst d in
    dval_eqb (dval_of x) d && Bool.eqb (dir_axis x) axis && (dir_harfbuzz x =? hb)
    && dval_eqb (dval_of (dir_switch_axis x)) sw
    && dval_eqb (dval_of (dir_set_progression x false)) sp0 && dval_eqb (dval_of (dir_set_progression x true)) sp1
    && dval_eqb (dval_of (dir_set_sideways x false)) ss0 && dval_eqb (dval_of (dir_set_sideways x true)) ss1
    && dval_eqb (dval_of (dir_switch_axis (dir_switch_axis x))) sw2
  | CLang s l l2 prim bs1 bs2 id tag id2 =>
    list_Z_eqb (new_language s) l && list_Z_eqb (new_language l) l2 && list_Z_eqb (primary l) prim
    && res_is zb_eqb (binary_search_lang l (zfirstn knownLangsCount (lang_tags languagesInfos))) bs1
    && res_is zb_eqb (binary_search_lang l (zskipn knownLangsCount (lang_tags languagesInfos))) bs2
    && res_is zb_eqb (new_lang_id l) id
    && list_Z_eqb (lang_of_id (fst id)) tag
    && res_is zb_eqb (new_lang_id tag) id2
  | CId id tag id2 =>
    list_Z_eqb (lang_of_id id) tag && res_is zb_eqb (new_lang_id tag) id2
  end.

(* oracle: the statement of C20 on what the implementation returned *)
(* r lies in at most one class, and `got` is that class (the first of the linear scan), else the default *)
Definition class_ok (order : list (nat * rtab)) (r : Z) (dflt : Z) (got : Z) : bool :=
  match classes_of order r with
  | [] => got =? dflt
  | [i] => got =? Z.of_nat i
  | _ => false
  end.

Definition prop_ok (c : case) : bool :=
  match c with
  | CCp r gc cc lb gb wb mir mir2 dec comp hdec script ccparts =>
    (* canonical order of a two-part decomposition; the first part of a recomposable code point is a starter *)
    (negb (snd dec) || (snd (fst dec) =? 0)
     || (negb ((snd ccparts <? fst ccparts) && (0 <? snd ccparts)) && (excluded r || (fst ccparts =? 0))))
    && class_ok categories_order r (-1) gc
    && class_ok combiningClasses_order r 0 cc
    && class_ok lineBreaks_order r (Z.of_nat lineBreaks_default) lb
    && class_ok graphemeBreaks_order r (-1) gb
    && class_ok wordBreaks_order r (-1) wb
    && (mir2 =? r) && (snd mir || (fst mir =? r))
    && dec_comp_ok r dec comp
    && (script =? script_scan ScriptRanges r)
  | CPair a b comp hcomp dec => comp_dec_ok a b comp dec
  | CDir d axis hb sw sp0 sp1 ss0 ss1 sw2 =>
    let o := dobs_of d in
    Bool.eqb axis (o_vertical o)
    (* every value reached is coherent: sideways only on the vertical axis; switching the axis twice is the identity *)
    && forallb (fun v => dobs_coherent (dobs_of v)) [d; sw; sp0; sp1; ss0; ss1; sw2]
    && dval_eqb sw2 d
    && (hb =? 4 + (if o_progression o then 1 else 0) + (if o_vertical o then 2 else 0))
    && switch_axis_ok o (dobs_of sw)
    && set_progression_ok o (dobs_of sp0) false && set_progression_ok o (dobs_of sp1) true
    && set_sideways_ok o (dobs_of ss0) false && set_sideways_ok o (dobs_of ss1) true
  | CLang s l l2 prim bs1 bs2 id tag id2 =>
    list_Z_eqb l2 l && canonical l
    && zb_eqb id (lang_id_scan (lang_tags languagesInfos) knownLangsCount l)
    && (negb (snd id) || (zb_eqb id2 id && (list_Z_eqb tag l || list_Z_eqb tag prim)))
  | CId id tag id2 =>
    negb ((0 <=? id) && (id <? zlen languagesInfos)) || zb_eqb id2 (id, true)
  end.

Fixpoint check_from (i : nat) (cs : list case) : list (nat * nat) :=
  match cs with
  | [] => []
  | c :: r => (if corr_ok c then [] else [(i, 1%nat)]) ++ (if prop_ok c then [] else [(i, 2%nat)]) ++ check_from (S i) r
  end.
Definition check_all (cs : list case) : list (nat * nat) := check_from 0 cs.
