(* Case checker for C14 (FontMap.ResolveFace).
   kind 1 = the model differs from what the implementation did (answers, candidate lists, LRU sizes and final
            LRU content, final database);
   kind 2 = oracle: the implementation's answers differ from the specification computed freshly from the
            fonts added / current query / script / rune, or a nil face with a non-empty database, or the rune
            cache exceeded its configured size. *)
From TV Require Export Model.FontMap Spec.Resolve.
Open Scope Z_scope.

Record case := mkCase {
  k_norm : list (Z * Z);                                   (* raw family id -> NormalizeFamily id *)
  k_generic : list Z;                                      (* ids for which isGenericFamily holds *)
  k_empty : Z;                                             (* id of "" *)
  k_subst : list (list Z * Z * list (Z * (Z * bool)));     (* (families, lang) -> crible of fillWithSubstitutionsList *)
  k_slang : list (Z * Z);                                  (* language.ScriptToLang on the scripts used *)
  k_concat : list (list Z * Z);                            (* family list -> id of the concatenation of its strings
                                                              (what KeyFor feeds to the hash) *)
  k_ops : list op;
  k_answers : list (option Z);                             (* faces answered by ResolveFace, in order *)
  k_obs : list (Z * Z * option (list nat * list nat * list nat));
                                                           (* after each op: len(lru.m), length of the lru list,
                                                              candidates when built *)
  k_lru : list (list Z * Z * Z * option Z);                (* final lru list, oldest first: families, script, rune, face *)
  k_db : list footprint                                    (* final database *)
}.

Section Inst.
  Variable c : case.
  Definition i_norm (z : Z) : Z := match assoc_z z (k_norm c) with Some n => n | None => z end.
  Definition i_generic (z : Z) : bool := zmem z (k_generic c).
  Fixpoint subst_find (t : list (list Z * Z * list (Z * (Z * bool)))) (f : list Z) (l : Z) : list (Z * (Z * bool)) :=
    match t with
    | [] => []
    | (f', l', cr) :: r => if zlist_eqb f f' && (l =? l') then cr else subst_find r f l
    end.
  Definition i_subst (f : list Z) (l : Z) := subst_find (k_subst c) f l.
  Definition i_slang (s : Z) : Z := match assoc_z s (k_slang c) with Some l => l | None => 0 end.
  (* the model is run with a hash that is injective on what KeyFor feeds to maphash: the concatenation of the
     family strings (so nil / [""] and ["ab";"c"] / ["a";"bc"] collide as they do in the implementation); the
     theorems hold for every hash function *)
  Fixpoint concat_find (t : list (list Z * Z)) (f : list Z) : Z :=
    match t with
    | [] => -1
    | (f', id) :: r => if zlist_eqb f f' then id else concat_find r f
    end.
  Definition i_hash (seed : Z) (f : list Z) : Z := seed * 1000003 + concat_find (k_concat c) f.

  Definition m_step := step i_hash i_norm i_generic i_subst i_slang (k_empty c).

  Definition obs_of (fm : fontmap) : Z * Z * option (list nat * list nat * list nat) :=
    (zlen (l_map (fm_lru fm)), zlen (l_list (fm_lru fm)),
     if fm_built fm then Some (c_without (fm_cands fm), c_with (fm_cands fm), c_manual (fm_cands fm)) else None).

  Fixpoint m_trace (fm : fontmap) (ops : list op) :
      res (fontmap * list (option Z) * list (Z * Z * option (list nat * list nat * list nat))) :=
    match ops with
    | [] => Ok (fm, [], [])
    | o :: r =>
        do x <- m_step fm o;
        do y <- m_trace (fst x) r;
        Ok (fst (fst y), match snd x with Some a => a :: snd (fst y) | None => snd (fst y) end, obs_of (fst x) :: snd y)
    end.
End Inst.

Definition oz_eqb (a b : option Z) : bool :=
  match a, b with Some x, Some y => x =? y | None, None => true | _, _ => false end.
Fixpoint list_eqb {A} (eqb : A -> A -> bool) (a b : list A) : bool :=
  match a, b with
  | [], [] => true
  | x :: a', y :: b' => eqb x y && list_eqb eqb a' b'
  | _, _ => false
  end.
Definition nats_eqb := list_eqb Nat.eqb.
Definition obs_eqb (a b : Z * Z * option (list nat * list nat * list nat)) : bool :=
  let '(a1, a2, a3) := a in let '(b1, b2, b3) := b in
  (a1 =? b1) && (a2 =? b2) &&
  match a3, b3 with
  | Some (x1, x2, x3), Some (y1, y2, y3) => nats_eqb x1 y1 && nats_eqb x2 y2 && nats_eqb x3 y3
  | None, None => true
  | _, _ => false
  end.
Definition lru_entry_eqb (a b : list Z * Z * Z * option Z) : bool :=
  let '(a1, a2, a3, a4) := a in let '(b1, b2, b3, b4) := b in
  zlist_eqb a1 b1 && (a2 =? b2) && (a3 =? b3) && oz_eqb a4 b4.
Definition fp_eqb (a b : footprint) : bool :=
  (fp_loc a =? fp_loc b) && (fp_family a =? fp_family b) && zlist_eqb (fp_runes a) (fp_runes b)
  && zlist_eqb (fp_scripts a) (fp_scripts b) && aspect_eqb (fp_aspect a) (fp_aspect b)
  && Bool.eqb (fp_user a) (fp_user b) && Bool.eqb (fp_mono a) (fp_mono b) && Bool.eqb (fp_ttf a) (fp_ttf b).

Definition corr_ok (c : case) : bool :=
  match m_trace c new_fontmap (k_ops c) with
  | Ok (fm, answers, obs) =>
      list_eqb oz_eqb answers (k_answers c)
      && list_eqb obs_eqb obs (k_obs c)
      && list_eqb lru_entry_eqb
           (map (fun e => (e_fams e, k_script (e_key e), k_rune (e_key e), e_val e)) (l_list (fm_lru fm))) (k_lru c)
      && list_eqb fp_eqb (fm_db fm) (k_db c)
  | _ => false
  end.

(* ---- oracle ---- *)
(* a nil answer is allowed only while no font has been added *)
Fixpoint total_ok (ops : list op) (nonempty : bool) (answers : list (option Z)) : bool :=
  match ops with
  | [] => true
  | OpAdd l :: r => total_ok r (nonempty || match l with [] => false | _ => true end) answers
  | OpResolve _ :: r =>
      match answers with
      | a :: answers' => (if nonempty then match a with Some _ => true | None => false end else true) && total_ok r nonempty answers'
      | [] => false
      end
  | _ :: r => total_ok r nonempty answers
  end.
(* after a ResolveFace the map holds at most max(configured size, what it held before) entries; the linked
   list holds exactly the entries of the map (no stale node) *)
Fixpoint size_ok (ops : list op) (max prev : Z) (obs : list (Z * Z * option (list nat * list nat * list nat))) : bool :=
  match ops, obs with
  | [], _ => true
  | o :: r, (n, len, _) :: obs' =>
      (n =? len) &&
      match o with
      | OpCacheSize m => size_ok r m n obs'
      | OpResolve _ => (n <=? Z.max max prev) && size_ok r max n obs'
      | _ => size_ok r max n obs'
      end
  | _ :: _, [] => false
  end.

Definition oracle_ok (c : case) : bool :=
  match spec_run (i_norm c) (i_generic c) (i_subst c) (i_slang c) (k_empty c) a_init (k_ops c) with
  | Ok want => list_eqb oz_eqb want (k_answers c)
  | _ => false
  end
  && total_ok (k_ops c) false (k_answers c)
  && size_ok (k_ops c) 4096 0 (k_obs c).

Fixpoint check_from (i : nat) (cs : list case) : list (nat * nat) :=
  match cs with
  | [] => []
  | c :: r =>
      (if corr_ok c then [] else [(i, 1%nat)])
      ++ (if oracle_ok c then [] else [(i, 2%nat)])
      ++ check_from (S i) r
  end.
Definition check_all (cs : list case) : list (nat * nat) := check_from 0 cs.
