(* Case checker for C03 (lines break only where breaking is allowed): same cases and correspondence as
   Check/C02.v; kind 3 = the C03 oracle (check_break_positions) fails on the implementation's output;
   (kind 11, the truncated line ending at a boundary between two input runs - finding F8 - is repaired in the library
   and no longer classified: it would be reported as kind 3);
   kind 12 = it fails only on lines that contain a UAX #14 opportunity which is not a grapheme cluster boundary (F22). *)
From TV Require Export Check.C02.

Definition interior_run_boundary (rs : list out) (n e : Z) : bool :=
  (0 <? e) && (e <? n) && existsb (fun r => o_off r =? e) rs.

(* the lines that fail the C03 oracle, judged one by one: (index, start, end) *)
Fixpoint c03_failing (attrs : list Z) (st0 : store) (rs : list out) (n tsrc pdir policy trunc_k : Z)
         (i : Z) (pos : Z) (lines : list (list out)) (widths : list Z) : list (Z * Z * Z * list out) :=
  match lines with
  | [] => []
  | l :: rest =>
      let e := match rev (text_runs tsrc l) with r :: _ => out_end r | [] => pos end in
      (if check_lines_c03 attrs st0 rs n pdir policy trunc_k (measurable_runs st0 rs) i [(pos, e)] widths then [] else [(i, pos, e, l)])
      ++ c03_failing attrs st0 rs n tsrc pdir policy trunc_k (i + 1) e rest (tl widths)
  end.

(* F22: a UAX #14 opportunity that is not a grapheme cluster boundary (e.g. between a space and a combining mark)
   at or inside the failing line: the wrapper drops that candidate and WrapNextLine returns a nil line *)
Definition lb_not_gb (attrs : list Z) (n p : Z) : bool :=
  (0 <? p) && (p <? n) && line_boundary attrs p && negb (grapheme_boundary attrs p).
Definition exists_in (a b : Z) (f : Z -> bool) : bool :=   (* a <= p <= b *)
  negb (forall_between (a - 1) (b + 1) (fun p => negb (f p))).
Definition f22_line (attrs : list Z) (n : Z) (x : Z * Z * Z * list out) : bool :=
  let '(i, s, e, l) := x in exists_in s e (lb_not_gb attrs n).

Definition c03_kind (c : case) (st0 st1 : store) (cl : call) : nat :=
  if negb (adv_consistent st0 (case_runs c)) then 0%nat      (* inputs already edited by an earlier call (F6): out of scope here *)
  else if check_break_positions (k_attrs c) (case_n c) (case_runs c) st0 (case_tsrc c) (cl_dir cl) (cl_policy cl) (cl_trunc cl)
            (call_lines cl) (call_line_widths cl)
  then 0%nat
  else
    let fl := c03_failing (k_attrs c) st0 (case_runs c) (case_n c) (case_tsrc c) (cl_dir cl) (cl_policy cl) (cl_trunc cl) 0 0
                          (call_lines cl) (call_line_widths cl) in
    let is22 := f22_line (k_attrs c) (case_n c) in
    (* every failing line must match the narrow predicate *)
    if forallb is22 fl then 12%nat else 3%nat.

Definition check_all (cs : list case) : list (nat * nat) := check_from c03_kind 0 cs.
