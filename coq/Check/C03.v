(* Case checker for C03 (lines break only where breaking is allowed): same cases and correspondence as
   Check/C02.v; kind 3 = the C03 oracle (check_break_positions) fails on the implementation's output;
   (kind 11, the truncated line ending at a boundary between two input runs - finding F8 - and kind 12, lines around a
   UAX #14 opportunity that is not a grapheme cluster boundary - finding F37 - are repaired in the library and no longer
   classified: they would be reported as kind 3). *)
From TV Require Export Check.C02.

Definition c03_kind (c : case) (st0 st1 : store) (cl : call) : nat :=
  if check_break_positions (k_attrs c) (case_n c) (case_runs c) st0 (case_tsrc c) (cl_dir cl) (cl_policy cl) (cl_trunc cl)
            (call_lines cl) (call_line_widths cl)
  then 0%nat
  else 3%nat.

Definition check_all (cs : list case) : list (nat * nat) := check_from c03_kind 0 cs.
