(* Case checker for C01 part 3 (recursion budget): the real otApplyContext.recurse driven with a stub recurseFunc.
   kind 1 = model differs; kind 2 = depth above maxNestingLevel, more entries than maxOps, or the harness cut-off hit. *)
From TV Require Export Model.Recurse.

Record case := mkCase {
  c_table : list (list Z); c_start : Z; c_maxops : Z;
  c_entries : Z; c_maxdepth : Z; c_opsleft : Z; c_level : Z; c_ret : bool; c_cut : bool;
  c_consts : list Z     (* maxNestingLevel as compiled *)
}.

Definition body_of (t : list (list Z)) : Z -> Z -> Z -> list Z := fun _ sub _ => nth (Z.to_nat sub) t [].

Definition corr_ok (c : case) : bool :=
  match c_consts c with [mnl] => mnl =? max_nesting_level | _ => false end &&
  match recurse (body_of (c_table c)) 7 (mkR max_nesting_level (c_maxops c) 0 0 0) (c_start c) with
  | Ok (st, r) => (entries st =? c_entries c) && (maxdepth st =? c_maxdepth c) && (ops st =? c_opsleft c)
                  && (nest st =? c_level c) && Bool.eqb r (c_ret c) && negb (c_cut c)
  | _ => false
  end.

Definition prop_ok (c : case) : bool :=
  negb (c_cut c) && (c_maxdepth c <=? max_nesting_level) && (c_entries c <=? Z.max 0 (c_maxops c))
  && (c_level c =? max_nesting_level).

Fixpoint check_from (i : nat) (cs : list case) : list (nat * nat) :=
  match cs with
  | [] => []
  | c :: r => (if corr_ok c then [] else [(i, 1%nat)]) ++ (if prop_ok c then [] else [(i, 2%nat)]) ++ check_from (S i) r
  end.
Definition check_all (cs : list case) : list (nat * nat) := check_from 0 cs.
