(* Shared by the case checkers Check/C18Multi.v and Check/C18Ctx.v: the item constructor of the driver output, comparisons,
   the cluster value of a cut, the persistence oracle. *)
From TV Require Export Model.GsubLig.

Definition FLz (f : Z) : fl := mkFl (Z.testbit f 0) (Z.testbit f 1) (Z.testbit f 2).
Definition I (c f r g u q l xa_ ya_ xo_ yo_ ac_ at_ : Z) : item := mkI (mkGX c (FLz f) r 0 g u q) l (mkP xa_ ya_ xo_ yo_ ac_ at_).

Definition fl_eq (a b : fl) : bool := Bool.eqb (utb a) (utb b) && Bool.eqb (utc a) (utc b) && Bool.eqb (tat a) (tat b).
Definition posn_eqb (a b : posn) : bool :=
  (xa a =? xa b) && (ya a =? ya b) && (xo a =? xo b) && (yo a =? yo b) && (ach a =? ach b) && (aty a =? aty b).
(* everything: cluster, all glyph flags, the rest of the mask, glyph id, unicode props, glyphProps, ligProps (when lig), position *)
Definition item_eqb (lig : bool) (a b : item) : bool :=
  (icl a =? icl b) && fl_eq (gf (ig a)) (gf (ig b)) && (rest (ig a) =? rest (ig b)) && (igid a =? igid b)
  && (up (ig a) =? up (ig b)) && (gp (ig a) =? gp (ig b)) && (negb lig || (ilig a =? ilig b)) && posn_eqb (ip a) (ip b).
Fixpoint items_eqb (lig : bool) (a b : list item) : bool :=
  match a, b with
  | [], [] => true
  | x :: a', y :: b' => item_eqb lig x y && items_eqb lig a' b'
  | _, _ => false
  end.

(* the cluster value of a cut of l ++ r (logical or reverse order), when it is one *)
Definition cut_cluster (l r : list item) : option Z :=
  match l, r with
  | [], _ | _, [] => None
  | _, _ =>
    let a := lminz (icls r) in
    let b := lminz (icls l) in
    if forallb (fun x => icl x <? a) l then Some a
    else if forallb (fun y => icl y <? b) r then Some b
    else None
  end.

(* flags persist (so_persist of Spec/LocalEngine.v over a whole run): a cluster of the input that is flagged
   unsafe-to-break is flagged or gone in the output.  The cluster of the first glyph of the buffer is exempt: no cut
   lies before it, and deleteGlyph merging forward at the start of the buffer clears its flags. *)
Definition persist_ok (i o : list item) : bool :=
  match i with
  | [] => true
  | h :: _ => forallb (fun x => (icl x =? icl h) || negb (iutb x) || fog icl iutb (icl x) o) i
  end.
