(* Case checker for C12 (geometry of shaped output), driver c12.
   kind 1 = model and implementation differ (correspondence),
   kind 2 = a C12 identity (Spec/Geometry.v) is false on the implementation's own result. *)
From TV Require Export Lib.Bytes Model.Output Spec.Geometry.

Inductive case :=
(* one method call on a run.  op: 0 RecomputeAdvance, 1 RecalculateAll, 2 advanceSpaceAware(pdir) -> ret,
   3 sideways (then RecalculateAll), 4 AddWordSpacing(text, s), 5 AddLetterSpacing(s, f1, f2), 6 trimStartLetterSpacing.
   wf: the input comes from shaping / has the shape shaping guarantees (consistent clusters, Advance = sum, cluster
   indices inside text); status 0 = returned, 1 = panicked *)
| COp (op : Z) (wf : bool) (o : output) (text : list Z) (s : Z) (f1 f2 : bool) (pdir : Z) (status : Z) (o' : output) (ret : Z)
(* AddSpacing(runs, text, ws, ls) *)
| CSpacing (wf : bool) (runs : list output) (text : list Z) (ws ls : Z) (status : Z) (runs' : list output)
(* a real call of HarfbuzzShaper.Shape: result, its LineBounds, the font's extents for the run's direction at the same
   scale (read independently), and for a sideways run the shaping of the same text on the horizontal axis *)
| CShape (o : output) (line_bounds ref_extents : bounds) (horiz : option output).

Definition glyph_eqb (a b : glyph) : bool :=
  same_shape a b && (g_xadv a =? g_xadv b) && (g_yadv a =? g_yadv b) && (g_xoff a =? g_xoff b) && (g_yoff a =? g_yoff b)
  && (g_startls a =? g_startls b) && (g_endls a =? g_endls b).
Definition output_eqb (a b : output) : bool :=
  (o_adv a =? o_adv b) && all2 glyph_eqb (o_glyphs a) (o_glyphs b) && bounds_eqb (o_gbounds a) (o_gbounds b) && (o_dir a =? o_dir b).

Definition res_matches (r : res output) (status : Z) (o' : output) : bool :=
  match r with
  | Ok x => (status =? 0) && output_eqb x o'
  | Panic _ => status =? 1
  | _ => false
  end.

Definition corr_op (op : Z) (o : output) (text : list Z) (s : Z) (f1 f2 : bool) (pdir status : Z) (o' : output) (ret : Z) : bool :=
  if op =? 0 then res_matches (Ok (recompute_advance o)) status o'
  else if op =? 1 then res_matches (Ok (recalculate_all o)) status o'
  else if op =? 2 then (status =? 0) && (advance_space_aware o pdir =? ret) && output_eqb o o'
  else if op =? 3 then res_matches (Ok (recalculate_all (sideways o))) status o'
  else if op =? 4 then res_matches (add_word_spacing o text s) status o'
  else if op =? 5 then res_matches (add_letter_spacing o s f1 f2) status o'
  else if op =? 6 then res_matches (Ok (trim_start_letter_spacing o)) status o'
  else false.

Definition untouched_but_advance (o o' : output) : bool :=
  all2 glyph_eqb (o_glyphs o) (o_glyphs o') && (o_dir o =? o_dir o').

(* the identities every run has to satisfy *)
Definition run_ok (o : output) : bool := advance_ok o.
Definition run_full_ok (o : output) : bool := advance_ok o && bounds_enclose o.

Definition oracle_op (op : Z) (wf : bool) (o : output) (text : list Z) (s : Z) (f1 f2 : bool) (status : Z) (o' : output) : bool :=
  if negb (status =? 0) then negb wf      (* a panic on an input shaping can produce is a failure *)
  else if op =? 0 then advance_ok o' && untouched_but_advance o o'
  else if op =? 1 then advance_ok o' && untouched_but_advance o o'
                       && (negb (forallb extents_oriented (o_glyphs o)) || bounds_enclose o')
  (* sideways assumes a horizontal run whose Advance and GlyphBounds are up to date (the driver recalculates first) *)
  else if op =? 3 then is_vertical (o_dir o) || negb (cross_zero o) || sideways_ok o o'
  else if op =? 4 then negb wf || word_spacing_ok text s o o'
  else if op =? 5 then negb wf || letter_spacing_ok s f1 f2 o o'
  else if op =? 6 then trim_start_ok o o' && (o_adv o' =? o_adv o)
  else true.

Fixpoint spacing_oracle (n i : Z) (text : list Z) (ws ls : Z) (runs runs' : list output) : bool :=
  match runs, runs' with
  | [], [] => true
  | a :: r, b :: r' =>
    (* word spacing first, then letter spacing on its result: check the composition through an intermediate the
       specification determines: advances of eligible separators grow by ws, then the letter shares are added *)
    advance_ok b && (o_dir a =? o_dir b)
    && (o_adv b =? axis_sum (is_vertical (o_dir a)) (o_glyphs a)
                   + (if ws =? 0 then 0 else ws * count_if (word_eligible text) (o_glyphs a))
                   + (if ls =? 0 then 0 else
                      match o_glyphs a with
                      | [] => 0
                      | _ => ls * (count_clusters None (o_glyphs a) - 1)
                             + (if i =? 0 then 0 else start_share ls) + (if i =? n - 1 then 0 else end_share ls)
                      end))
    && spacing_oracle n (i + 1) text ws ls r r'
  | _, _ => false
  end.

Definition check_case (c : case) : list nat :=
  match c with
  | COp op wf o text s f1 f2 pdir status o' ret =>
    (if corr_op op o text s f1 f2 pdir status o' ret then [] else [1%nat])
    ++ (if oracle_op op wf o text s f1 f2 status o' then [] else [2%nat])
  | CSpacing wf runs text ws ls status runs' =>
    (if match add_spacing runs text ws ls with
        | Ok x => (status =? 0) && all2 output_eqb x runs'
        | Panic _ => status =? 1
        | _ => false
        end then [] else [1%nat])
    ++ (if (if status =? 0 then negb wf || spacing_oracle (zlen runs) 0 text ws ls runs runs' else negb wf) then [] else [2%nat])
  | CShape o lb ref horiz =>
    (* correspondence: RecalculateAll is the last step of Shape: the model reproduces Advance and GlyphBounds *)
    (if output_eqb (recalculate_all o) o then [] else [1%nat])
    ++ (if advance_ok o && cross_zero o && bounds_enclose o && bounds_eqb lb ref
           && clusters_consistent (o_glyphs o)
           && match horiz with None => true | Some h => sideways_ok h o end
        then [] else [2%nat])
  end.

Fixpoint check_from (i : nat) (cs : list case) : list (nat * nat) :=
  match cs with
  | [] => []
  | c :: r => map (fun k => (i, k)) (check_case c) ++ check_from (S i) r
  end.
Definition check_all (cs : list case) : list (nat * nat) := check_from 0 cs.
