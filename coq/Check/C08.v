(* Case checker for C08 (visual order of the runs of a line), driver c08: computeBidiOrdering.
   kind 1  = model and implementation differ (correspondence),
   kind 2  = the implementation's visual indices are not a permutation of 0..n-1, or do not follow
             rule L2 for the levels of the case although no level exceeds the paragraph level by 2 or more,
   kind 10 = L2 is not followed and some run has level >= paragraph level + 2 (known finding F5:
             Output.Direction keeps only the parity of the level). *)
From TV Require Export Lib.Bytes Model.BidiOrder Spec.L2.

Inductive case :=
| One (pdir : Z) (plevel : nat) (levels : list nat) (dirs vis0 vis : list Z)
    (* paragraph direction and level; per run: level, Direction, VisualIndex before, VisualIndex after *)
| Batch (plevel : nat) (n : nat) (from : Z) (viss : list Z).
    (* exhaustive block: horizontal paragraph of level plevel (direction = plevel), n runs; element i of viss
       is the result for the level sequence number from+i: levels = plevel + base-4 digits (n digits, first run
       first), Direction = parity of the level, VisualIndex 0 before; result = base-16 digits *)

Fixpoint digits (n : nat) (base code : Z) : list Z :=
  match n with
  | O => []
  | S m => digits m base (code / base) ++ [code mod base]
  end.

Definition deep (plevel : nat) (levels : list nat) : bool := existsb (fun l => plevel + 2 <=? l)%nat levels.

Definition check_one (pdir : Z) (plevel : nat) (levels : list nat) (dirs vis0 vis : list Z) : list nat :=
  (if list_Z_eqb (cbo pdir dirs vis0) vis then [] else [1%nat])
  ++ (if is_permutation_of_iota vis then [] else [2%nat])
  ++ (if negb (levels_valid plevel levels) || follows_l2 levels vis then []
      else if deep plevel levels then [10%nat] else [2%nat]).

Fixpoint check_batch (plevel n : nat) (code : Z) (viss : list Z) : list nat :=
  match viss with
  | [] => []
  | vc :: rest =>
    let levels := map (fun d => (plevel + Z.to_nat d)%nat) (digits n 4 code) in
    let dirs := map (dir_of_level 0) levels in
    check_one (Z.of_nat plevel) plevel levels dirs (map (fun _ => 0) levels) (digits n 16 vc)
    ++ check_batch plevel n (code + 1) rest
  end.

Definition check_case (c : case) : list nat :=
  match c with
  | One pdir plevel levels dirs vis0 vis => check_one pdir plevel levels dirs vis0 vis
  | Batch plevel n from viss => nodup Nat.eq_dec (check_batch plevel n from viss)
  end.

Fixpoint check_from (i : nat) (cs : list case) : list (nat * nat) :=
  match cs with
  | [] => []
  | c :: r => map (fun k => (i, k)) (check_case c) ++ check_from (S i) r
  end.
Definition check_all (cs : list case) : list (nat * nat) := check_from 0 cs.
