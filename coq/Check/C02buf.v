(* Case checker for the storage bookkeeping of the line wrapper (C02, driver c02buf).  One case = a sequence of paragraphs run
   on ONE shaping.wrapBuffer through the hook shaping.VerifWrapBufferTrace: reset, then per line startLine, the given
   candidateAppend / markCandidateBest / candidateSave / candidateRestore operations, finalizeBest; every Output carries a tag.
   kind 1 = Model/WrapBuf.v differs from what the implementation did (returned content, nil-ness, bestInLine, offset of the
            returned slice inside the line storage, lineUsed, lineExhausted);
   kind 2 = oracle on the implementation's own observations: a panic, lineUsed beyond the capacity, a returned line that
            reads differently at the end of the paragraph (a later line was written over it), returned views that overlap,
            or a capacity after reset that is not "grown iff the storage ran out". *)
From Coq Require Import List ZArith Bool Lia.
From TV Require Export Model.WrapBuf Spec.WrapBuf.
Import ListNotations.

Record bline := mkBL {
  bl_ops : list bop; bl_nil : bool; bl_ret : list Z; bl_inline : bool; bl_off : Z;   (* -1: not inside the line storage *)
  bl_used : Z; bl_exh : bool; bl_final : list Z }.
Record bpara := mkBP { bp_cap : Z; bp_lines : list bline; bp_panic : bool }.
Record case := mkCase { k_paras : list bpara }.

Definition A := OAppend.
Definition M := OMark.
Definition S_ := OSave.
Definition R_ := ORestore.

Definition line_eqb (r : lres) (o : bline) : bool :=
  match lr_line r with
  | None => bl_nil o
  | Some c => negb (bl_nil o) && zlist_eqb c (bl_ret o)
  end
  && Bool.eqb (lr_inline r) (bl_inline o)
  && match lr_view r with
     | Some (off, S _) => Z.eqb (Z.of_nat off) (bl_off o)
     | _ => true
     end
  && Z.eqb (Z.of_nat (lr_used r)) (bl_used o) && Bool.eqb (lr_exh r) (bl_exh o).

Fixpoint lines_eqb (rs : list lres) (os : list bline) : bool :=
  match rs, os with
  | [], [] => true
  | r :: rs', o :: os' => line_eqb r o && lines_eqb rs' os'
  | _, _ => false
  end.

Fixpoint corr_paras (b : buf) (ps : list bpara) : bool :=
  match ps with
  | [] => true
  | p :: rest =>
      if bp_panic p then true        (* reported by the oracle; the model never panics (Proofs/WrapBuf.v para_no_panic) *)
      else match run_para b (Z.to_nat (bp_cap p)) (map bl_ops (bp_lines p)) with
           | Ok (b', rs) => lines_eqb rs (bp_lines p) && corr_paras b' rest
           | _ => false
           end
  end.
Definition buf_zero : buf := mkBuf [] 0 false [] [] BNone false.
Definition corr_ok (c : case) : bool := corr_paras buf_zero (k_paras c).

(* oracle on the observations *)
Fixpoint obs_ordered (from : Z) (ls : list bline) (cap : Z) : bool :=
  match ls with
  | [] => (from <=? cap)%Z
  | l :: rest =>
      (bl_used l <=? cap)%Z && zlist_eqb (bl_final l) (bl_ret l)
      && if (0 <=? bl_off l)%Z then (from <=? bl_off l)%Z && obs_ordered (bl_off l + Z.of_nat (length (bl_ret l))) rest cap
         else obs_ordered from rest cap
  end.
Fixpoint oracle_paras (oldcap : Z) (exh : bool) (ps : list bpara) : bool :=
  match ps with
  | [] => true
  | p :: rest =>
      negb (bp_panic p)
      && reset_cap_ok (Z.to_nat oldcap) exh (Z.to_nat (bp_cap p))
      && obs_ordered 0 (bp_lines p) (bp_cap p)
      && oracle_paras (bp_cap p) (match rev (bp_lines p) with l :: _ => bl_exh l | [] => false end) rest
  end.
Definition oracle_ok (c : case) : bool := oracle_paras 0 false (k_paras c).

Fixpoint check_from (i : nat) (cs : list case) : list (nat * nat) :=
  match cs with
  | [] => []
  | c :: r => (if corr_ok c then [] else [(i, 1%nat)]) ++ (if oracle_ok c then [] else [(i, 2%nat)]) ++ check_from (S i) r
  end.
Definition check_all (cs : list case) : list (nat * nat) := check_from 0 cs.
