(* Case checker for C15: evaluated by vm_compute on the cases the Go driver observed.
   kind 1 = the model and the implementation differ (correspondence),
   kind 2 = the implementation's own output violates the specification (oracle). *)
From TV Require Export Model.Match Spec.Css.

(* an aspect is (style, 8*weight, 8*stretch); an observation of a call is (status, value) with
   status 0 = returned, 1 = runtime index panic, 2 = panic("should not happen"), 3 = other panic *)
Record case := mkCase {
  c_fs : list (Z * Z * Z);      (* aspects of the synthetic font set *)
  c_cands : list Z;             (* candidates (indices into the font set) *)
  c_query : Z * Z * Z;          (* requested aspect, 0 = unset *)
  c_def : Z * Z * Z;            (* the request after Aspect.SetDefaults *)
  c_res : Z * list Z;           (* retainsBestMatches: status, returned slice *)
  c_after : list Z;             (* the caller's candidates array after the call (status 0) *)
  c_ms : Z * Z;                 (* matchStretch(candidates, query.Stretch) (raw request fields) *)
  c_mt : Z * Z;                 (* matchStyle(candidates, query.Style) *)
  c_mw : Z * Z                  (* matchWeight(candidates, query.Weight) *)
}.

Definition asp3 (t : Z * Z * Z) : aspect := mkAspect (fst (fst t)) (snd (fst t)) (snd t).
Definition tup3 (a : aspect) : Z * Z * Z := (a_style a, a_weight a, a_stretch a).
Definition case_fs (c : case) : fontset := map asp3 (c_fs c).

Definition eq3 (a b : Z * Z * Z) : bool :=
  (fst (fst a) =? fst (fst b)) && (snd (fst a) =? snd (fst b)) && (snd a =? snd b).
Fixpoint lz_eqb (a b : list Z) : bool :=
  match a, b with
  | [], [] => true
  | x :: a', y :: b' => (x =? y) && lz_eqb a' b'
  | _, _ => false
  end.

Definition obs_Z (r : res Z) : Z * Z :=
  match r with
  | Ok v => (0, v)
  | Panic p => (Z.of_nat p, 0)
  | _ => (9, 0)
  end.
Definition eq2 (a b : Z * Z) : bool := (fst a =? fst b) && (snd a =? snd b).

(* correspondence *)
Definition corr_ok (c : case) : bool :=
  let fs := case_fs c in
  let q := asp3 (c_query c) in
  eq3 (tup3 (set_defaults q)) (c_def c)
  && eq2 (obs_Z (match_stretch fs (c_cands c) (a_stretch q))) (c_ms c)
  && eq2 (obs_Z (match_style fs (c_cands c) (a_style q))) (c_mt c)
  && eq2 (obs_Z (match_weight fs (c_cands c) (a_weight q))) (c_mw c)
  && match retains_best_matches fs (slice_of_list (c_cands c)) q with
     | Ok s => (fst (c_res c) =? 0) && lz_eqb (sl_elems s) (snd (c_res c)) && lz_eqb (sl_arr s) (c_after c)
     | Panic p => fst (c_res c) =? Z.of_nat p
     | _ => false
     end.

(* oracle: the statement of C15 on what the implementation returned *)

Definition pre_ok (c : case) : bool :=
  cands_ok (case_fs c) (c_cands c) && valid_query (asp3 (c_query c)).

Definition prop_ok (c : case) : bool :=
  negb (pre_ok c) ||
  (let fs := case_fs c in
   let r := snd (c_res c) in
   (fst (c_res c) =? 0)
   && negb (match r with [] => true | _ => false end)
   && subseqb r (c_cands c)
   && uniformb (asp_of fs) r
   && lz_eqb r (css_narrow (asp_of fs) (c_cands c) (asp3 (c_query c)))).

Fixpoint check_from (i : nat) (cs : list case) : list (nat * nat) :=
  match cs with
  | [] => []
  | c :: r => (if corr_ok c then [] else [(i, 1%nat)]) ++ (if prop_ok c then [] else [(i, 2%nat)]) ++ check_from (S i) r
  end.
Definition check_all (cs : list case) : list (nat * nat) := check_from 0 cs.
