(* Case checker for C11, language and script sets (driver c11lang).
   kind 1 = model and implementation differ (correspondence),
   kind 2 = the implementation's own output violates the specification (oracle). *)
From TV Require Export Model.LangSet Model.Scripts Spec.LangSet Spec.Scripts Check.C11Set.
From TV Require Import Gen.C11Tables Gen.ScriptTable.

Inductive lcase :=
| CLang (ps : pages) (ls : list Z)            (* coverage pages; newLangsetFromCoverage as 8 uint64 words *)
        (probes : list (Z * bool))            (* LangID, LangSet.Contains *)
| CScr (ranges : list (Z * Z)) (out : list Z) (* scriptsFromRanges *)
| CSS (ss : list Z) (s : Z) (out : list Z) (c : bool).   (* ScriptSet.insert, ScriptSet.contains *)
Definition case := lcase.

Definition lang_tab : list RuneSet := map to_runeset languagesRunes.

Definition corr_ok (c : case) : bool :=
  match c with
  | CLang ps ls probes =>
      match new_langset lang_tab (to_rs ps) with
      | Ok m => list_Z_eqb m ls && forallb (fun p => Bool.eqb (ls_contains m (fst p)) (snd p)) probes
      | _ => false
      end
  | CScr ranges out =>
      match scripts_from_ranges ScriptRanges script_Unknown ranges with Ok o => list_Z_eqb o out | _ => false end
  | CSS ss s out c =>
      match ss_insert ss s with Ok o => list_Z_eqb o out | _ => false end && Bool.eqb (ss_contains ss s) c
  end.

(* ---- oracle ---- *)
(* every rune of b is in a, page by page (not the merge loop of the library) *)
Fixpoint rs_find (a : RuneSet) (ref : Z) : option pageSet :=
  match a with [] => None | p :: t => if p_ref p =? ref then Some (p_set p) else rs_find t ref end.
Definition words_included (wa wb : list Z) : bool :=
  forallb (fun ab => Z.land (snd ab) (Z.lxor 4294967295 (fst ab)) =? 0) (combine wa wb).
Definition spec_includes (a b : RuneSet) : bool :=
  forallb (fun pb => forallb (Z.eqb 0) (p_set pb)
                     || match rs_find a (p_ref pb) with Some wa => words_included wa (p_set pb) | None => false end) b.
(* bit l of the 512-bit set *)
Definition spec_ls_bit (ls : list Z) (l : Z) : bool := Z.testbit (znth 0 ls (l / 64)) (l mod 64).

(* the gaps of the script table: runes no entry contains *)
Fixpoint sr_gaps (prev_end : Z) (SR : list (Z * Z * Z)) : list (Z * Z) :=
  match SR with
  | [] => [(prev_end + 1, 2147483647)]
  | (s, e, _) :: t => (if prev_end + 1 <? s then [(prev_end + 1, s - 1)] else []) ++ sr_gaps e t
  end.
Definition meets (ranges : list (Z * Z)) (a b : Z) : bool := existsb (fun ra => (fst ra <=? b) && (a <=? snd ra)) ranges.
Definition spec_scripts (ranges : list (Z * Z)) : list Z :=
  flat_map (fun e => let '(s, en, sc) := e in if meets ranges s en then [sc] else []) ScriptRanges
  ++ (if existsb (fun g => meets ranges (fst g) (snd g)) (sr_gaps (-1) ScriptRanges) then [script_Unknown] else []).

Definition oracle_ok (c : case) : bool :=
  match c with
  | CLang ps ls probes =>
      negb (invb (to_rs ps)) ||
      ((length ls =? 8)%nat
       && forallb (fun id => Bool.eqb (spec_ls_bit ls id)
                                      ((id <? zlen lang_tab) && spec_includes (to_rs ps) (nth (Z.to_nat id) lang_tab [])))
                  (zrange 0 512)
       && forallb (fun p => Bool.eqb (snd p) (spec_ls_bit ls (fst p mod 512))) probes)
  | CScr ranges out =>
      negb (ranges_ok ranges) ||
      (strictly_sorted out
       && forallb (l_mem out) (spec_scripts ranges) && forallb (l_mem (spec_scripts ranges)) out)
  | CSS ss s out c =>
      negb (strictly_sorted ss) ||
      (strictly_sorted out && l_mem out s && forallb (l_mem out) ss && forallb (fun x => (x =? s) || l_mem ss x) out
       && Bool.eqb c (l_mem ss s))
  end.

Fixpoint check_from (i : nat) (cs : list case) : list (nat * nat) :=
  match cs with
  | [] => []
  | c :: r => (if corr_ok c then [] else [(i, 1%nat)]) ++ (if oracle_ok c then [] else [(i, 2%nat)]) ++ check_from (S i) r
  end.
Definition check_all (cs : list case) : list (nat * nat) := check_from 0 cs.
