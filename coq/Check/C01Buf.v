(* Case checker for C01 part 2 (buffer core), evaluated by vm_compute on what the Go driver observed on the REAL
   harfbuzz.Buffer.  A case is an initial buffer and a sequence of operations with the state observed after each.
   kind 1 = the model applied to the state observed before a step differs from the state observed after it,
   kind 2 = a statement of C01 fails on the observed states (WF not preserved, panic under the precondition,
            mergeClusters not yielding the minimum, a deletion losing the smallest cluster). *)
From TV Require Export Model.Buffer Spec.Buffer.

Definition FL (f : Z) : fl := mkFl (Z.testbit f 0) (Z.testbit f 1) (Z.testbit f 2).
Definition G (c f r p g : Z) : glyph := mkG c (FL f) r p g.
(* with GlyphInfo.unicode and glyphProps *)
Definition GX (c f r p g u q : Z) : glyph := mkGX c (FL f) r p g u q.

Inductive obs := OState (b : buffer) | OPanic.
Record case := mkCase { c_init : buffer; c_steps : list (op * obs) }.

Definition buffer_eqb (a b : buffer) : bool :=
  glyphs_eqb (info a) (info b) && glyphs_eqb (out a) (out b) && (idx a =? idx b) && Bool.eqb (have_out a) (have_out b)
  && (pos_len a =? pos_len b) && (pos_cap a =? pos_cap b) && (level a =? level b)
  && Bool.eqb (fl_concat a) (fl_concat b) && Bool.eqb (fl_tatweel a) (fl_tatweel b) && Bool.eqb (has_gf a) (has_gf b).

Fixpoint steps_corr (cur : buffer) (steps : list (op * obs)) : bool :=
  match steps with
  | [] => true
  | (o, ob) :: r =>
    match run_op o cur, ob with
    | Ok m, OState st => buffer_eqb m st && steps_corr st r
    | Panic _, OPanic => true
    | _, _ => false
    end
  end.

Definition lmax (l : list Z) : Z := match l with [] => 0 | a :: r => fold_right Z.max a r end.

Definition step_c01 (o : op) (cur st : buffer) : bool :=
  match o with
  | OMerge s e => (level cur =? 2) || merged_min_ok cur st s e
  | ODelete | ODeleteInplace _ => (level cur =? 2) || keeps_min_ok cur st
  | _ => true
  end.

Section Steps.
  Variable step_ok : op -> buffer -> buffer -> bool.
  Variables lo hi : Z.
  Fixpoint steps_prop (cur : buffer) (steps : list (op * obs)) : bool :=
    match steps with
    | [] => true
    | (o, ob) :: r =>
      if WF lo hi cur && pre o cur && op_rng lo hi o then
        match ob with
        | OState st => WF lo hi st && step_ok o cur st && steps_prop st r
        | OPanic => false
        end
      else match ob with OState st => steps_prop st r | OPanic => true end
    end.
End Steps.

(* the cluster range of a case: the clusters of the initial buffer and those AddRune / AddRunes bring in *)
Definition op_clusters (o : op) : list Z :=
  match o with
  | OAddRune _ c _ => [c]
  | OAddRunes t off len0 _ => map (fun i => off + i) (zseq (add_runes_len t off len0))
  | _ => []
  end.
Definition case_range (c : case) : Z * Z :=
  let l := cls (bseq (c_init c)) ++ flat_map (fun s => op_clusters (fst s)) (c_steps c) in (lmin l, lmax l + 1).

Definition corr_ok (c : case) : bool := steps_corr (c_init c) (c_steps c).
Definition prop_ok (c : case) : bool :=
  let '(lo, hi) := case_range c in steps_prop step_c01 lo hi (c_init c) (c_steps c).

Fixpoint check_from (i : nat) (cs : list case) : list (nat * nat) :=
  match cs with
  | [] => []
  | c :: r => (if corr_ok c then [] else [(i, 1%nat)]) ++ (if prop_ok c then [] else [(i, 2%nat)]) ++ check_from (S i) r
  end.
Definition check_all (cs : list case) : list (nat * nat) := check_from 0 cs.
