(* Case checker for the GSUB contextual lookups of format 3 (driver c18ctx): the REAL ChainedContextualSubs3 /
   ContextualSubs3 with nested single substitutions, run through the real lookup loop (otMap.apply -> applyString ->
   applyForward -> applyGSUB -> chainContextApplyLookup / contextApplyLookup -> matchInput / matchLookahead /
   matchBacktrack / applyLookup -> recurse -> applyRecurseGSUB) on a real Buffer with synthetic tables.
   kind 1 = correspondence: Model/Context3.v run on the input differs from what the implementation produced (glyph ids,
            clusters, all glyph flags, the rest of the mask, glyphProps, unicode props, positions; ligProps are 0 in the
            inputs and compared too);
   kind 2 = oracle on the implementation's OWN outputs: (a) the cut statement of C18: for a cut of the input along cluster
            values whose cluster is present and unflagged in the whole output, the outputs of the two pieces concatenated
            differ from the whole output (everything compared); (b) flags persist: a cluster flagged unsafe-to-break in
            the input (other than the first cluster of the buffer) is neither flagged nor gone in the output. *)
From TV Require Export Model.Context3 Check.C18Items.

Record case := mkXC {
  x_lookups : list cxparams;
  x_in : list item;
  x_out : list item; x_panic : bool;                (* what the implementation produced *)
  x_cuts : list (nat * list item * list item)        (* k, output on input[:k], output on input[k:] *)
}.

Definition corr_ok (c : case) : bool :=
  negb (x_panic c) && items_eqb true (cx_run (x_lookups c) (x_in c)) (x_out c).

Definition cut_ok (c : case) (cut : nat * list item * list item) : bool :=
  let '(k, a, b) := cut in
  match cut_cluster (firstn k (x_in c)) (skipn k (x_in c)) with
  | None => true
  | Some cv => fog icl iutb cv (x_out c) || items_eqb true (x_out c) (a ++ b)
  end.
Definition oracle_ok (c : case) : bool :=
  x_panic c || (forallb (cut_ok c) (x_cuts c) && persist_ok (x_in c) (x_out c)).

Fixpoint check_from (i : nat) (cs : list case) : list (nat * nat) :=
  match cs with
  | [] => []
  | c :: r =>
    (if corr_ok c then [] else [(i, 1%nat)])
    ++ (if oracle_ok c then [] else [(i, 2%nat)])
    ++ check_from (S i) r
  end.
Definition check_all (cs : list case) : list (nat * nat) := check_from 0 cs.
