(* Specification side of C11 for character maps: what "enumeration and lookup agree" means, and the boolean
   well-formedness predicates under which the library's subtables satisfy it. *)
From TV Require Export Lib.GoNum Lib.Res Model.Cmap Spec.RuneSet.

Definition int32_ok (r : Z) : Prop := -2147483648 <= r < 2147483648.

(* the enumeration `pairs` and the point lookup `lookup` describe the same finite map, each rune once *)
Definition iter_agrees (pairs : list (Z * Z)) (lookup : Z -> res (Z * bool)) : Prop :=
  NoDup (map fst pairs) /\
  forall r g, int32_ok r -> (In (r, g) pairs <-> lookup r = Ok (g, true)).

(* the inclusive ranges cover exactly the runes the lookup maps *)
Definition ranges_are_domain (ranges : list (Z * Z)) (lookup : Z -> res (Z * bool)) : Prop :=
  forall r, int32_ok r -> (in_ranges ranges r = true <-> exists g, lookup r = Ok (g, true)).

(* format 4: segments sorted and disjoint, end >= start, 16-bit fields, glyph arrays of the right
   length (entries equal to 0, the missing glyph, are allowed: Iter and RuneRanges skip them) *)
Definition wf_seg4 (e : seg4) : bool :=
  (0 <=? s4_start e) && (s4_start e <=? s4_end e) && (s4_end e <=? 65535)
  && (0 <=? s4_delta e) && (s4_delta e <=? 65535)
  && match s4_idx e with
     | None => true
     | Some ix => (zlen ix =? s4_end e - s4_start e + 1) && forallb (fun g => (0 <=? g) && (g <=? 65535)) ix
     end.
Fixpoint wf_cmap4_from (lo : Z) (s : cmap4) : bool :=
  match s with
  | [] => true
  | e :: r => (lo <=? s4_start e) && wf_seg4 e && wf_cmap4_from (s4_end e + 1) r
  end.
Definition wf_cmap4 (s : cmap4) : bool := wf_cmap4_from 0 s.

(* formats 12/13: groups sorted and disjoint, end >= start, code points below 2^31 (a rune), glyphs uint32
   (the glyph of format 12 may wrap modulo 2^32 inside a group: Iter and Lookup wrap alike) *)
Definition wf_grp (is13 : bool) (e : grp) : bool :=
  (0 <=? g_start e) && (g_start e <=? g_end e) && (g_end e <? 2147483648)
  && (0 <=? g_gid e) && (g_gid e <? 4294967296).
Fixpoint wf_cmap12_from (is13 : bool) (lo : Z) (s : list grp) : bool :=
  match s with
  | [] => true
  | e :: r => (lo <=? g_start e) && wf_grp is13 e && wf_cmap12_from is13 (g_end e + 1) r
  end.
Definition wf_cmap12 (s : list grp) : bool := wf_cmap12_from false 0 s.
Definition wf_cmap13 (s : list grp) : bool := wf_cmap12_from true 0 s.

(* the type invariants alone: what every value of the Go types satisfies.  Format 4 as newCmap4 resolves it (uint16
   fields, a glyph index array has end - start + 1 uint16 entries); formats 12/13 as parsed (uint32 fields). *)
Definition u16b (x : Z) : bool := (0 <=? x) && (x <=? 65535).
Definition u32b (x : Z) : bool := (0 <=? x) && (x <? 4294967296).
Definition ty_seg4 (e : seg4) : bool :=
  u16b (s4_start e) && u16b (s4_end e) && u16b (s4_delta e)
  && match s4_idx e with
     | None => true
     | Some ix => (zlen ix =? s4_end e - s4_start e + 1) && forallb u16b ix
     end.
Definition ty_grp (e : grp) : bool := u32b (g_start e) && u32b (g_end e) && u32b (g_gid e).

(* formats 6/10: the covered interval is a rune interval *)
Definition wf_cmap6 (s : cmap6) : bool :=
  (0 <=? c6_first s) && (c6_first s + zlen (c6_entries s) <=? 2147483648).

(* executable agreement check used on the implementation's own observations *)
Fixpoint nodupb (l : list Z) : bool :=
  match l with [] => true | x :: r => negb (l_mem r x) && nodupb r end.
Fixpoint assoc (l : list (Z * Z)) (r : Z) : option Z :=
  match l with [] => None | (a, g) :: t => if a =? r then Some g else assoc t r end.
