(* Specification side of C11 for language sets: a language is recorded for a font iff the rune coverage contains
   every rune of the language's exemplar set. *)
From TV Require Export Lib.GoNum Lib.Res Model.RuneSet Model.LangSet Spec.RuneSet.

(* boolean form of the rune set invariant (Proofs.RuneSet.inv): strictly increasing refs below 2^16, 8 uint32 words *)
Fixpoint sorted_fromb (lo : Z) (rs : RuneSet) : bool :=
  match rs with [] => true | p :: t => (lo <=? p_ref p) && sorted_fromb (p_ref p + 1) t end.
Definition page_okb (p : runePage) : bool :=
  (p_ref p <? 65536) && (length (p_set p) =? 8)%nat && forallb (fun w => (0 <=? w) && (w <? 4294967296)) (p_set p).
Definition invb (rs : RuneSet) : bool := sorted_fromb 0 rs && forallb page_okb rs.
