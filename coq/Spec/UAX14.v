(* UAX #14 line breaking rules (Unicode 15 numbering, LB25 with the numeric tailoring of Example 7),
   as a function of the text to the left (reversed: nearest rune first) and to the right of a position. *)
From TV Require Export Model.SegClasses.

(* what the tables guarantee about one rune and the rules rely on (checked on every rune of every driver
   case; for all code points it is a table fact of C20): U+200D is the ZWJ class, U+000A the LF class *)
Definition obs_wf_l (o : obs) : bool :=
  Bool.eqb (o_zwjtab o) (lbc_beq (o_lb o) LB_ZWJ) && Bool.eqb (o_lf o) (lbc_beq (o_lb o) LB_LF).

Inductive lbr := Mandatory | Allowed | Prohibited.    (* !  ÷  × *)

(* LB1: resolve AI, SG, XX -> AL; SA -> CM if Mn/Mc else AL; CJ -> NS *)
Definition lb1 (o : obs) : lbc :=
  match o_lb o with
  | LB_AI | LB_SG | LB_XX => LB_AL
  | LB_SA => if o_mnmc o then LB_CM else LB_AL
  | LB_CJ => LB_NS
  | c => c
  end.

Definition cin (c : lbc) (l : list lbc) : bool := existsb (lbc_beq c) l.
Definition is_mark (c : lbc) : bool := cin c [LB_CM; LB_ZWJ].
Definition hard_or_space (c : lbc) : bool := cin c [LB_BK; LB_CR; LB_LF; LB_NL; LB_SP; LB_ZW].

(* LB9 / LB10 on the reversed left context: a CM/ZWJ preceded (after the same treatment) by a class other
   than BK CR LF NL SP ZW is absorbed into it; any other CM/ZWJ counts as AL.  Each effective item
   keeps the rune that carries it (the base), for the rune-level side conditions of LB30 / LB30b. *)
Fixpoint eff (left : list obs) : list (lbc * obs) :=
  match left with
  | [] => []
  | o :: rest =>
      let e := eff rest in
      if is_mark (lb1 o) then
        match e with
        | (x, _) :: _ => if hard_or_space x then (LB_AL, o) :: e else e
        | [] => [(LB_AL, o)]
        end
      else (lb1 o, o) :: e
  end.

Definition ecls (e : list (lbc * obs)) : option lbc := match e with (c, _) :: _ => Some c | [] => None end.
Definition eis (e : list (lbc * obs)) (l : list lbc) : bool := match e with (c, _) :: _ => cin c l | [] => false end.
Fixpoint skip_sp (e : list (lbc * obs)) : list (lbc * obs) :=
  match e with
  | (c, _) :: r => if lbc_beq c LB_SP then skip_sp r else e
  | [] => []
  end.
Fixpoint skip_sp_raw (l : list obs) : list obs :=
  match l with
  | o :: r => if lbc_beq (lb1 o) LB_SP then skip_sp_raw r else l
  | [] => []
  end.
(* first class to the right after skipping the marks attached to the current rune (LB9) *)
Fixpoint skip_marks (l : list obs) : list obs :=
  match l with
  | o :: r => if is_mark (lb1 o) then skip_marks r else l
  | [] => []
  end.

(* reversed numeric prefix  NU (NU|SY|IS)*  directly to the left (Example 7) *)
Fixpoint num_prefix (e : list (lbc * obs)) : bool :=
  match e with
  | (c, _) :: r => if lbc_beq c LB_NU then true else if cin c [LB_SY; LB_IS] then num_prefix r else false
  | [] => false
  end.
Definition num_prefix_close (e : list (lbc * obs)) : bool :=   (* NU (NU|SY|IS)* (CL|CP)? *)
  num_prefix e || match e with (c, _) :: r => cin c [LB_CL; LB_CP] && num_prefix r | [] => false end.

Fixpoint leading_ri (e : list (lbc * obs)) : nat :=
  match e with
  | (c, _) :: r => if lbc_beq c LB_RI then S (leading_ri r) else O
  | [] => O
  end.

Definition base_wide (e : list (lbc * obs)) : bool := match e with (_, o) :: _ => o_wide o | [] => false end.
Definition base_pic_cn (e : list (lbc * obs)) : bool := match e with (_, o) :: _ => o_pic o && o_cn o | [] => false end.

Definition jamo5 := [LB_JL; LB_JV; LB_JT; LB_H2; LB_H3].

(* numeric context of Example 7 directly to the left *)
Inductive numctx := NumNone | NumOpen | NumClosed.   (* -, NU (NU|SY|IS)*, NU (NU|SY|IS)* (CL|CP) *)
Definition numctx_of (e : list (lbc * obs)) : numctx :=
  if num_prefix e then NumOpen
  else match e with
       | (c, _) :: r => if cin c [LB_CL; LB_CP] && num_prefix r then NumClosed else NumNone
       | [] => NumNone
       end.

(* the finite context the rules read at one position *)
Record lctx := mkCtx {
  x_a0 : lbc;            (* class (after LB1) of the rune immediately before the position *)
  x_b0 : lbc;            (* class (after LB1) of the rune after the position *)
  x_zwsp : bool;         (* the text before ends with  ZW SP*  *)
  x_p : lbc;             (* class before the position after LB9 / LB10 *)
  x_s : option lbc;      (* class before the spaces:  x_s SP*  ends the LB9/LB10 string *)
  x_pp_hl : bool;        (* the class before x_p is HL *)
  x_base_wide : bool;    (* the rune carrying x_p has East-Asian width F, W or H *)
  x_base_piccn : bool;   (* the rune carrying x_p is Extended_Pictographic and unassigned *)
  x_b_wide : bool;       (* the rune after the position has East-Asian width F, W or H *)
  x_ri_odd : bool;       (* an odd number of RI directly before *)
  x_num : numctx;
  x_nx_nu : bool         (* the class following the rune after the position, past its combining marks, is NU *)
}.

Definition lb_core (x : lctx) : lbr :=
  let a0 := x_a0 x in
  let b0 := x_b0 x in
  if lbc_beq a0 LB_BK then Mandatory                                  (* LB4  BK ! *)
  else if lbc_beq a0 LB_CR && lbc_beq b0 LB_LF then Prohibited        (* LB5  CR × LF *)
  else if cin a0 [LB_CR; LB_LF; LB_NL] then Mandatory                 (* LB5  CR ! LF ! NL ! *)
  else if cin b0 [LB_BK; LB_CR; LB_LF; LB_NL] then Prohibited         (* LB6 *)
  else if cin b0 [LB_SP; LB_ZW] then Prohibited                       (* LB7 *)
  else if x_zwsp x then Allowed                                       (* LB8  ZW SP* ÷ *)
  else if lbc_beq a0 LB_ZWJ then Prohibited                           (* LB8a ZWJ × *)
  else if is_mark b0 && negb (hard_or_space (x_p x)) then Prohibited  (* LB9  × attached CM / ZWJ *)
  else
    let b1 := if is_mark b0 then LB_AL else b0 in                      (* LB10 *)
    let p l := cin (x_p x) l in
    let c l := cin b1 l in
    let s l := match x_s x with Some k => cin k l | None => false end in
    let numopen := match x_num x with NumOpen => true | _ => false end in
    let numany := match x_num x with NumNone => false | _ => true end in
    if p [LB_WJ] || c [LB_WJ] then Prohibited                        (* LB11 *)
    else if p [LB_GL] then Prohibited                                (* LB12 GL × *)
    else if negb (p [LB_SP; LB_BA; LB_HY]) && c [LB_GL] then Prohibited   (* LB12a *)
    else if c [LB_EX] then Prohibited                                (* LB13 × EX (tailored) *)
    else if negb (p [LB_NU]) && c [LB_CL; LB_CP; LB_IS; LB_SY] then Prohibited   (* LB13 [^NU] × (CL|CP|IS|SY) *)
    else if s [LB_OP] then Prohibited                                (* LB14 OP SP* × *)
    else if s [LB_QU] && c [LB_OP] then Prohibited                   (* LB15 QU SP* × OP *)
    else if s [LB_CL; LB_CP] && c [LB_NS] then Prohibited            (* LB16 *)
    else if s [LB_B2] && c [LB_B2] then Prohibited                   (* LB17 *)
    else if p [LB_SP] then Allowed                                   (* LB18 SP ÷ *)
    else if p [LB_QU] || c [LB_QU] then Prohibited                   (* LB19 *)
    else if p [LB_CB] || c [LB_CB] then Allowed                      (* LB20 *)
    else if c [LB_BA; LB_HY; LB_NS] || p [LB_BB] then Prohibited     (* LB21 *)
    else if p [LB_HY; LB_BA] && x_pp_hl x then Prohibited            (* LB21a HL (HY|BA) × *)
    else if p [LB_SY] && c [LB_HL] then Prohibited                   (* LB21b *)
    else if c [LB_IN] then Prohibited                                (* LB22 *)
    else if p [LB_AL; LB_HL] && c [LB_NU] then Prohibited            (* LB23 *)
    else if p [LB_NU] && c [LB_AL; LB_HL] then Prohibited
    else if p [LB_PR] && c [LB_ID; LB_EB; LB_EM] then Prohibited     (* LB23a *)
    else if p [LB_ID; LB_EB; LB_EM] && c [LB_PO] then Prohibited
    else if p [LB_PR; LB_PO] && c [LB_AL; LB_HL] then Prohibited     (* LB24 *)
    else if p [LB_AL; LB_HL] && c [LB_PR; LB_PO] then Prohibited
    (* LB25, Example 7:  (PR|PO) × (OP|HY)? NU ; (OP|HY) × NU ; NU × (NU|SY|IS) ;
                         NU (NU|SY|IS)* × (NU|SY|IS|CL|CP) ; NU (NU|SY|IS)* (CL|CP)? × (PO|PR) *)
    else if p [LB_PR; LB_PO] && c [LB_NU] then Prohibited
    else if p [LB_PR; LB_PO] && c [LB_OP; LB_HY] && x_nx_nu x then Prohibited
    else if p [LB_OP; LB_HY] && c [LB_NU] then Prohibited
    else if p [LB_NU] && c [LB_NU; LB_SY; LB_IS] then Prohibited
    else if numopen && c [LB_NU; LB_SY; LB_IS; LB_CL; LB_CP] then Prohibited
    else if numany && c [LB_PO; LB_PR] then Prohibited
    else if p [LB_JL] && c [LB_JL; LB_JV; LB_H2; LB_H3] then Prohibited   (* LB26 *)
    else if p [LB_JV; LB_H2] && c [LB_JV; LB_JT] then Prohibited
    else if p [LB_JT; LB_H3] && c [LB_JT] then Prohibited
    else if p jamo5 && c [LB_PO] then Prohibited                     (* LB27 *)
    else if p [LB_PR] && c jamo5 then Prohibited
    else if p [LB_AL; LB_HL] && c [LB_AL; LB_HL] then Prohibited     (* LB28 *)
    else if p [LB_IS] && c [LB_AL; LB_HL] then Prohibited            (* LB29 *)
    else if p [LB_AL; LB_HL; LB_NU] && c [LB_OP] && negb (x_b_wide x) then Prohibited   (* LB30 *)
    else if p [LB_CP] && negb (x_base_wide x) && c [LB_AL; LB_HL; LB_NU] then Prohibited
    else if c [LB_RI] && x_ri_odd x then Prohibited                  (* LB30a *)
    else if p [LB_EB] && c [LB_EM] then Prohibited                   (* LB30b *)
    else if x_base_piccn x && c [LB_EM] then Prohibited
    else Allowed.                                                    (* LB31 *)

(* reading the context off the text around a position (a :: left' reversed before, b :: right' after) *)
Definition ctx_of (a : obs) (left' : list obs) (b : obs) (right' : list obs) : lctx :=
  let left := a :: left' in
  let e := eff left in
  mkCtx (lb1 a) (lb1 b)
        (match skip_sp_raw left with o :: _ => lbc_beq (lb1 o) LB_ZW | [] => false end)
        (match e with (k, _) :: _ => k | [] => LB_AL end)
        (ecls (skip_sp e))
        (eis (tl e) [LB_HL])
        (base_wide e) (base_pic_cn e) (o_wide b)
        (Nat.odd (leading_ri e))
        (numctx_of e)
        (negb (is_mark (lb1 b)) && match skip_marks right' with o :: _ => lbc_beq (lb1 o) LB_NU | [] => false end).

Definition lb_decision (left right : list obs) : lbr :=
  match left, right with
  | _, [] => Mandatory                                                (* LB3  ! eot (also for the empty text) *)
  | [], _ => Prohibited                                               (* LB2  sot × *)
  | a :: left', b :: right' => lb_core (ctx_of a left' b right')
  end.

(* The one place where the library knowingly deviates (finding F3): LB25 "(PR|PO) × (OP|HY) NU" when combining
   marks sit between the (OP|HY) and the digit.  Positions matching this predicate are excluded from the
   equivalence theorem. *)
Definition f3_position (left right : list obs) : bool :=
  match right with
  | b :: ((m :: _) as right') =>
      eis (eff left) [LB_PR; LB_PO] && cin (lb1 b) [LB_OP; LB_HY] && is_mark (lb1 m)
      && match skip_marks right' with o :: _ => lbc_beq (lb1 o) LB_NU | [] => false end
  | _ => false
  end.
Fixpoint f3_free_from (left right : list obs) : bool :=
  negb (f3_position left right) && match right with [] => true | o :: r => f3_free_from (o :: left) r end.
Definition f3_free (text : list obs) : bool := f3_free_from [] text.

Fixpoint lb_positions (left right : list obs) : list lbr :=
  lb_decision left right :: match right with
                            | [] => []
                            | o :: r => lb_positions (o :: left) r
                            end.
Definition lb_spec (text : list obs) : list lbr := lb_positions [] text.
