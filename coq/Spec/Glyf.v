(* What C09 asks of the glyf slicing and of the cmap format 4 builder, as executable predicates on an
   implementation's answer. *)
From TV Require Export Lib.Bytes.

(* every offset pair handed to the glyph parser must lie inside the table and be ordered; an implementation that
   accepts a loca/glyf pair (status 0) must therefore have seen only such pairs *)
Fixpoint offsets_in_range (len : Z) (start : Z) (rest : list Z) : bool :=
  match rest with
  | [] => true
  | e :: r => ((start =? e) || ((start <=? e) && (e <=? len))) && offsets_in_range len e r
  end.
Definition loca_in_range (len : Z) (loca : list Z) : bool :=
  match loca with [] => false | s :: r => offsets_in_range len s r end.

(* ParseLoca: the table must hold numGlyphs+1 entries *)
Definition loca_size (num_glyphs : Z) (is_long : bool) : Z := (num_glyphs + 1) * (if is_long then 4 else 2).
