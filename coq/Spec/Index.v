(* Specification side of C16 (codec): the limits of the wire format as a boolean predicate, structural
   equality of indexes, and the statements of the property as predicates over an encoder/decoder pair. *)
From TV Require Export Model.Index.

(* ---- well-formedness: the limits of the wire format ------------------------------------------------- *)
Definition u8b (x : Z) := (0 <=? x) && (x <? 256).
Definition u16b (x : Z) := (0 <=? x) && (x <? 65536).
Definition u32b (x : Z) := (0 <=? x) && (x <? 4294967296).
Definition u64b (x : Z) := (0 <=? x) && (x <? 18446744073709551616).
Definition i64b (x : Z) := (-9223372036854775808 <=? x) && (x <? 9223372036854775808).
Definition wf_string (s : list Z) : bool := forallb u8b s && (zlen s <=? 65535).
Definition wf_page (p : rune_page) : bool := u16b (pg_ref p) && (zlen (pg_set p) =? 8) && forallb u32b (pg_set p).
Definition wf_aspect (a : aspect) : bool := u32b (as_weight a) && u32b (as_stretch a) && aspect_valid a.
Definition wf_footprint (fp : footprint) : bool :=
  wf_string (fp_file fp) && u16b (fp_index fp) && u16b (fp_instance fp) && wf_string (fp_family fp)
  && forallb wf_page (fp_runes fp) && (zlen (fp_runes fp) <=? 65535)
  && forallb u32b (fp_scripts fp) && (zlen (fp_scripts fp) <=? 255)
  && (zlen (fp_langs fp) =? 8) && forallb u64b (fp_langs fp)
  && wf_aspect (fp_aspect fp).
Definition wf_ff (ff : file_fps) : bool :=
  wf_string (ff_path ff) && i64b (ff_modtime ff) && forallb wf_footprint (ff_fps ff)
  && (zlen (serialize_ff ff) <? 4294967296).
Definition wf_index (ix : index) : bool := forallb wf_ff ix && (zlen ix <? 4294967296).


(* ---- structural equality ------------------------------------------------------------------------------ *)
Fixpoint list_eqb {A} (eq : A -> A -> bool) (a b : list A) : bool :=
  match a, b with
  | [], [] => true
  | x :: a', y :: b' => eq x y && list_eqb eq a' b'
  | _, _ => false
  end.
Definition aspect_eqb (a b : aspect) : bool :=
  (as_style a =? as_style b) && (as_weight a =? as_weight b) && (as_stretch a =? as_stretch b).
Definition page_eqb (a b : rune_page) : bool := (pg_ref a =? pg_ref b) && list_Z_eqb (pg_set a) (pg_set b).
Definition footprint_eqb (a b : footprint) : bool :=
  list_Z_eqb (fp_file a) (fp_file b) && (fp_index a =? fp_index b) && (fp_instance a =? fp_instance b)
  && list_Z_eqb (fp_family a) (fp_family b) && list_eqb page_eqb (fp_runes a) (fp_runes b)
  && list_Z_eqb (fp_scripts a) (fp_scripts b) && list_Z_eqb (fp_langs a) (fp_langs b)
  && aspect_eqb (fp_aspect a) (fp_aspect b).
Definition ff_eqb (a b : file_fps) : bool :=
  list_Z_eqb (ff_path a) (ff_path b) && (ff_modtime a =? ff_modtime b) && list_eqb footprint_eqb (ff_fps a) (ff_fps b).
Definition index_eqb (a b : index) : bool := list_eqb ff_eqb a b.

(* ---- the statements ------------------------------------------------------------------------------------ *)
(* "writing a font index and reading it back yields an identical index" *)
Definition roundtrip_spec (enc : index -> list Z) (dec : list Z -> res index) : Prop :=
  forall ix, wf_index ix = true -> dec (enc ix) = Ok ix.
(* "reading any truncated or corrupted cache ... yields an error or a well-formed index and never a panic" *)
Definition robust_spec (dec : list Z -> res index) : Prop :=
  forall bytes, bytes_okb bytes = true ->
    match dec bytes with Ok ix => wf_index ix = true | Err _ => True | Panic _ => False | OutOfFuel => False end.
(* "... as a crash during writing can leave behind": a strict prefix of a written payload is never accepted *)
Definition prefix_spec (enc : index -> list Z) (dec : list Z -> res index) : Prop :=
  forall ix n, wf_index ix = true -> 0 <= n < zlen (enc ix) -> exists e, dec (zfirstn n (enc ix)) = Err e.
