(* C17 — the rules a write-effect fact of the Go source must satisfy for the contract
     "*Font is safe for concurrent use; Face, Buffer, shapers, FontMap are per goroutine"
   to be an instance of the ownership model (Model/Ownership.v): in the steady state (after package
   initialisation, outside constructors) no code path writes a location that is shared between goroutines,
   i.e. a package-level variable or memory reachable from a *font.Font.

   The facts (Gen/Effects.v) are regenerated from the source on every run; [confined_effects] is evaluated on
   them by the kernel (Proofs/Effects.v: effects_confined).  Adding a memo field to Font, a package-level
   scratch buffer or a lazily filled package-level map produces a new fact that no rule admits. *)
From Coq Require Import String List ZArith Bool.
From TV Require Import Model.Effects Gen.Effects.
Import ListNotations.
Local Open Scope string_scope.

(* Address-takings of package variables that the extractor cannot classify as read-only by type alone and
   that were reviewed by hand: (variable, function taking the address, reason).  Keyed by variable and
   function (not by line) so that unrelated edits do not disturb it; a new address-taking elsewhere, or of
   another variable, is not covered. *)
Definition reviewed_address_takings : list (string * string * string) := [
  ("font/cff.charsetISOAdobe", "font/cff.cffParser.parseCharset",
   "predefined charset (array of uint16 constants) sliced and stored in CFF.charset, which is only read (CFF.GlyphName); the writes charset[i] = .. of parseCharset are in the other branch of the switch, on a slice it has just made");
  ("font/cff.charsetExpert", "font/cff.cffParser.parseCharset", "same");
  ("font/cff.charsetExpertSubset", "font/cff.cffParser.parseCharset", "same");
  ("font.styleStrings", "font.Aspect.inferFromStyle",
   "array of strings filled in init(); sliced and handed to stringContainsConst, which only ranges over it");
  ("font.weightStrings", "font.Aspect.inferFromStyle", "same");
  ("font.stretchStrings", "font.Aspect.inferFromStyle", "same");
  ("harfbuzz.arabicLigature3Table", "harfbuzz.arabicFallbackSynthesizeLookup",
   "constant table (entries hold slices, hence not read-only by type); arabicFallbackSynthesizeLookupLigature only reads it and copies runes into fresh tables");
  ("harfbuzz.arabicLigatureTable", "harfbuzz.arabicFallbackSynthesizeLookup", "same");
  ("harfbuzz.arabicLigatureMarkTable", "harfbuzz.arabicFallbackSynthesizeLookup", "same")
].

Definition reviewed (e : effect) : bool :=
  existsb (fun p => String.eqb (fst (fst p)) (e_var e) && String.eqb (snd (fst p)) (e_func e))
          reviewed_address_takings.

(* (a) effects on package-level variables *)
Definition allowed (e : effect) : bool :=
  match e_class e with
  | CInInit => true          (* init-only: package initialisation happens before any goroutine can use the package *)
  | COnce => true            (* Once-protected: sync.Once orders the write before every later reader *)
  | CSync => true            (* the synchronisation primitive itself *)
  | CReadOnlyAddr => true    (* address of a constant table of reference-free type, never assigned anywhere *)
  | CAddrTaken => reviewed e
  | _ => false               (* CPlain: a write in the steady state *)
  end.

(* (b) writes that go through a reference into a type reachable from font.Font, outside constructors *)
Definition allowed_font (e : effect) : bool :=
  match e_class e with
  | CFresh => true                                                   (* object under construction, not yet shared *)
  | _ => negb (existsb (String.eqb (e_owner e)) font_reachable)      (* private owner type *)
  end.

(* Constructor phase by name is only sound while such a function works on an object nobody else sees yet.  The
   extractor lists every call, from a function that is NOT constructor phase, of a constructor-phase function that
   writes (itself, or through constructor-phase callees it hands its own receiver / parameters to) into a type
   reachable from font.Font through its receiver, a parameter or an expression - i.e. not through an object it has
   allocated itself (plain byte/number slices are not followed).  A query method with a constructor-like name
   (CFF2.LoadGlyph filling a scratch field of the shared CFF2) shows up here.  Reviewed exceptions:
   (callee, caller, reason). *)
Definition reviewed_late_calls : list (string * string * string) := [
  ("font.sanitizeCmap4", "font.ProcessCmap",
   "filters in place (cm[:0] + append) the cmap4 slice that ProcessCmap has just obtained from newCmap4 for this very record; nothing else refers to it yet")
].
Definition late_call_ok (c : string * string) : bool :=
  existsb (fun r => match r with (f, g, _) => String.eqb f (fst c) && String.eqb g (snd c) end) reviewed_late_calls.

Definition confined_effects : bool :=
  forallb allowed package_writes && forallb allowed_font font_writes
  && forallb late_call_ok constructor_functions_called_late.

(* the facts that break the rules, as (file, line, variable/root, function): printed by the failing proof *)
Definition site (e : effect) : string * Z * string * string := (e_file e, e_line e, e_var e, e_func e).
Definition offending_sites : list (string * Z * string * string) :=
  map site (filter (fun e => negb (allowed e)) package_writes)
  ++ map site (filter (fun e => negb (allowed_font e)) font_writes)
  ++ map (fun c => ("<constructor-phase function called late>", 0%Z, fst c, snd c))
         (filter (fun c => negb (late_call_ok c)) constructor_functions_called_late).

(* sanity of the extraction itself (also evaluated in Proofs/Effects.v): the facts the contract is known to
   rest on must be present, otherwise the extractor has gone blind *)
Definition mentions (v : string) (c : eclass) (l : list effect) : bool :=
  existsb (fun e => String.eqb (e_var e) v &&
                    match e_class e, c with
                    | COnce, COnce | CInInit, CInInit | CSync, CSync | CReadOnlyAddr, CReadOnlyAddr => true
                    | _, _ => false
                    end) l.
Definition extraction_sane : bool :=
  mentions "fontscan.systemFonts" COnce package_writes
  && mentions "fontscan.initSystemFontsOnce" CSync package_writes
  && mentions "unicodedata.categories" CInInit package_writes
  && mentions "harfbuzz.otLanguages" CReadOnlyAddr package_writes
  && existsb (String.eqb "font.Font") font_reachable
  && existsb (String.eqb "font/cff.CFF") font_reachable
  && existsb (String.eqb "font/opentype/tables.Hmtx") font_reachable
  && negb (existsb (String.eqb "font.Face") font_reachable)
  && negb (existsb (String.eqb "harfbuzz.Buffer") font_reachable)
  && negb (existsb (String.eqb "fontscan.FontMap") font_reachable).
