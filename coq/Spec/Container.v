(* What C09 asks of the container layer, as executable predicates on what an implementation did with a byte
   string: it answered (no panic), a collection has at most maxNumFonts faces, and the memory it asked for is
   bounded by a linear function of the input size. *)
From TV Require Export Lib.Bytes.

Definition max_faces : Z := 2048.

(* bound for opening a file: c * |input| + c' (c is large because each of up to 2048 collection members gets its
   own table map sized by its own numTables; c' covers one map sized by a 16-bit count that turns out to be wrong) *)
Definition open_alloc_bound (input_len : Z) : Z := 6144 * input_len + 4000000.
(* bound for reading one table: the table itself, or at most the deflate expansion of a compressed section *)
Definition table_alloc_bound (input_len : Z) : Z := 1032 * input_len.

(* status of a call: 0 = returned a value, 1 = returned an error, 2 = panicked *)
Definition answered (status : Z) : bool := (status =? 0) || (status =? 1).

Definition open_ok (input_len status n_faces allocated : Z) : bool :=
  answered status
  && ((status =? 1) || ((1 <=? n_faces) && (n_faces <=? max_faces)))
  && (allocated <=? open_alloc_bound input_len).

(* slack: buffers of the inflater (window, Huffman tables) and the error value *)
Definition table_ok (input_len status allocated slack : Z) : bool :=
  answered status && (allocated <=? table_alloc_bound input_len + slack).
