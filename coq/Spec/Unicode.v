(* Declarative side of C20: what "the value a lookup returns" means, as linear scans of the tables,
   and the bool-valued statements of the property that the oracle evaluates on the implementation's
   outputs.  Everything here is executable. *)
From TV Require Export Model.Unicode Model.Lang.

(* a rune is a member of a range entry / of a range table *)
Definition in_entry (e : Z * Z * Z) (r : Z) : bool :=
  if e_lo e <=? r then if r <=? e_hi e then (r - e_lo e) mod e_stride e =? 0 else false else false.
Definition mem (t : rtab) (r : Z) : bool := existsb (fun e => in_entry e r) t.

(* linear scan of a list of classes: the first class whose table holds r *)
Fixpoint scan_classes (order : list (nat * rtab)) (r : Z) : option nat :=
  match order with
  | [] => None
  | (id, t) :: rest => if mem t r then Some id else scan_classes rest r
  end.
(* all classes whose table holds r *)
Definition classes_of (order : list (nat * rtab)) (r : Z) : list nat :=
  map fst (filter (fun p => mem (snd p) r) order).
Definition at_most_one_class (order : list (nat * rtab)) (r : Z) : bool := (length (classes_of order r) <=? 1)%nat.

(* linear scan of the script table *)
Definition in_script_range (e : Z * Z * Z) (r : Z) : bool := (e_lo e <=? r) && (r <=? e_hi e).
Definition script_scan (t : list (Z * Z * Z)) (r : Z) : Z :=
  match find (fun e => in_script_range e r) t with Some e => snd e | None => script_Unknown end.

(* a rune is an int32 *)
Definition is_rune (r : Z) : Prop := -2147483648 <= r < 2147483648.

(* ---- canonical composition ---- *)
(* c decomposes and composing its parts gives c back *)
Definition roundtrips (c : Z) : bool :=
  match decompose c with
  | (a, b, true) => match compose a b with (c', true) => c' =? c | _ => false end
  | _ => false
  end.
(* the composition exclusions of the tables: decomposable code points that do not recompose
   (singleton decompositions, and pair decompositions without a reverse entry) *)
Definition composition_exclusions_def : list Z :=
  filter (fun c => negb (roundtrips c)) (map fst decompose1_pairs ++ map fst decompose2_pairs).
Definition composition_exclusions : list Z := Eval vm_compute in composition_exclusions_def.
Definition excluded (c : Z) : bool := existsb (Z.eqb c) composition_exclusions.

(* ---- oracle statements on observed outputs ---- *)
Definition opt_nat_Z (o : option nat) : Z := match o with Some i => Z.of_nat i | None => -1 end.

(* decompose then compose: (a,b,ok) = Decompose(c), (c',ok') = Compose(a,b) *)
Definition dec_comp_ok (c : Z) (dec : Z * Z * bool) (comp : Z * bool) : bool :=
  let '(a, b, ok) := dec in
  negb ok || excluded c || (snd comp && (fst comp =? c)).
(* compose then decompose: (c,ok) = Compose(a,b), (a',b',ok') = Decompose(c) *)
Definition comp_dec_ok (a b : Z) (comp : Z * bool) (dec : Z * Z * bool) : bool :=
  let '(a', b', ok') := dec in
  negb (snd comp) || (ok' && (a' =? a) && (b' =? b)).

(* ---- direction: observation of a Direction value through its getters ---- *)
Record dobs := mkDobs { o_vertical : bool; o_progression : bool; o_has_vo : bool; o_sideways : bool }.
Definition dobs_eqb (x y : dobs) : bool :=
  Bool.eqb (o_vertical x) (o_vertical y) && Bool.eqb (o_progression x) (o_progression y)
  && Bool.eqb (o_has_vo x) (o_has_vo y) && Bool.eqb (o_sideways x) (o_sideways y).
Definition observe (d : Z) : dobs :=
  mkDobs (dir_is_vertical d) (dir_progression d) (dir_has_vertical_orientation d) (dir_is_sideways d).

(* IsSideways means "vertical with a sideways orientation" (its documentation): a sideways value is vertical *)
Definition dobs_coherent (o : dobs) : bool := implb (o_sideways o) (o_vertical o).

(* SetProgression p changes the progression and nothing else *)
Definition set_progression_ok (before after : dobs) (p : bool) : bool :=
  Bool.eqb (o_progression after) p && Bool.eqb (o_vertical after) (o_vertical before)
  && Bool.eqb (o_has_vo after) (o_has_vo before) && Bool.eqb (o_sideways after) (o_sideways before).
(* SwitchAxis flips the axis, keeps progression and the orientation flag *)
Definition switch_axis_ok (before after : dobs) : bool :=
  Bool.eqb (o_vertical after) (negb (o_vertical before)) && Bool.eqb (o_progression after) (o_progression before)
  && Bool.eqb (o_has_vo after) (o_has_vo before).
(* SetSideways s makes the direction vertical with orientation s, keeps the progression *)
Definition set_sideways_ok (before after : dobs) (s : bool) : bool :=
  o_vertical after && o_has_vo after && Bool.eqb (o_sideways after) s
  && Bool.eqb (o_progression after) (o_progression before).

(* ---- language ---- *)
Definition canon_byte (b : Z) : bool :=
  ((97 <=? b) && (b <=? 122)) || ((48 <=? b) && (b <=? 57)) || (b =? 45).
Definition canonical (l : list Z) : bool := forallb canon_byte l.

(* NewLangID by linear scans: the index of the tag itself if the table has it, else the index of its primary
   part, looked up in the first part of the table (the languages with orthographic data) before the second *)
Fixpoint index_of (l : list Z) (tags : list (list Z)) (i : Z) : option Z :=
  match tags with
  | [] => None
  | t :: rest => if str_eqb t l then Some i else index_of l rest (i + 1)
  end.
Definition lang_id_scan (tags : list (list Z)) (known : Z) (l : list Z) : Z * bool :=
  match index_of l tags 0 with
  | Some i => (i, true)
  | None =>
    match index_of (primary l) (zfirstn known tags) 0 with
    | Some i => (i, true)
    | None =>
      match index_of (primary l) (zskipn known tags) 0 with
      | Some i => (known + i, true)
      | None => (0, false)
      end
    end
  end.
