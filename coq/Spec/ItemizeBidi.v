(* Specification side of splitByBidi (Model/ItemizeBidi.v): the paragraphs of a range, what is assumed of x/text, the
   direction x/text gives to a rune inside its paragraph, and the statement "every rune is reported in that direction". *)
From TV Require Export Model.ItemizeBidi Spec.Itemize.
Open Scope Z_scope.

Section Spec.
  Variable xbidi : list Z -> bool -> option (list (Z * bool)).
  Variable runes : list Z.

  (* the paragraphs [a, b) of the range [a0, e): each one ends behind its first paragraph separator or at e *)
  Fixpoint paragraphs (n : nat) (a e : Z) : list (Z * Z) :=
    match n with
    | O => []
    | S n' => if a <? e then let b := para_end runes a e in (a, b) :: paragraphs n' b e else []
    end.
  Definition paragraphs_of (x : input) : list (Z * Z) :=
    paragraphs (Z.to_nat (i_end x - i_start x)) (i_start x) (i_end x).

  (* the string splitParagraphByBidi hands to x/text for [a, b) *)
  Definition para_string (a b : Z) : list Z := map norm_rune (slice runes a b).

  (* ASSUMPTION on x/text, for the paragraphs of this range (evaluated on every case against the real library): when
     Order() succeeds with at least one run, the inclusive run ends are strictly increasing, the first run is not empty
     and the last one ends at the last rune of the string.  (bidi_wf n None = bidi_wf n (Some []) = true.) *)
  Definition xbidi_wf (x : input) : bool :=
    forallb (fun ab => bidi_wf (snd ab - fst ab) (xbidi (para_string (fst ab) (snd ab)) (d_prog (i_dir x)))) (paragraphs_of x).

  (* direction of the rune at offset j of a paragraph: the first x/text run ending at or behind j *)
  Fixpoint xdir_at (rs : list (Z * bool)) (j : Z) (d : bool) : bool :=
    match rs with
    | [] => d
    | (e, rtl) :: r => if j <=? e then rtl else xdir_at r j d
    end.
  (* ... of the rune at position i of the text, in the paragraph [a, b); without runs: the caller's direction *)
  Definition para_dir (def : bool) (a b i : Z) : bool :=
    match xbidi (para_string a b) def with
    | None | Some [] => def
    | Some rs => xdir_at rs (i - a) def
    end.

  (* every rune of every paragraph lies in an output run reporting the direction x/text gave it within its paragraph *)
  Definition parity_text_ok (x : input) (out : list input) : bool :=
    forallb (fun ab =>
      forallb (fun i => match run_at out i with
                        | Some r => Bool.eqb (d_prog (i_dir r)) (para_dir (d_prog (i_dir x)) (fst ab) (snd ab) i)
                        | None => false
                        end) (zrange (fst ab) (snd ab))) (paragraphs_of x).

  (* the run list of the range in the format of Model/Itemize.v (end relative to RunStart, inclusive; RightToLeft?) *)
  Definition flat_of (x : input) (out : list input) : list (Z * bool) :=
    map (fun r => (i_end r - i_start x - 1, d_prog (i_dir r))) out.
  Definition text_bidi (x : input) : option (list (Z * bool)) :=
    if i_end x <=? i_start x then None
    else match split_by_bidi_text xbidi runes x with
         | Ok out => Some (flat_of x out)
         | _ => None
         end.

  (* neighbours in the output of splitByBidi have different directions *)
  Fixpoint alternating (l : list input) : bool :=
    match l with
    | a :: (b :: _) as r => negb (Bool.eqb (d_prog (i_dir a)) (d_prog (i_dir b))) && alternating r
    | _ => true
    end.
End Spec.

(* the environment of Model/Itemize.v for a text: its bidi run list is the one splitByBidi computes *)
Definition env_of_text (te : tenv) (x : input) : env :=
  mkEnv (e_text (t_env te)) (text_bidi (t_xbidi te) (t_runes te) x) (e_langid (t_env te)) (e_use (t_env te))
        (e_stl (t_env te)) (e_hint (t_env te)).

Definition trange_ok (te : tenv) (x : input) : bool :=
  range_ok (t_env te) x && (zlen (t_runes te) =? zlen (e_text (t_env te))).
