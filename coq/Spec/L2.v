(* Specification: rule L2 of UAX #9 (Unicode Bidirectional Algorithm), applied to the runs of one line.

   "From the highest level found in the text to the lowest odd level on each line, including
    intermediate levels not actually present in the text, reverse any contiguous sequence of
    characters that are at that level or higher."

   A line is a list of items (runs) with an embedding level each; every character of a run has the
   run's level and the glyphs inside a shaped run are already in visual order, so reversing sequences
   of characters is reversing sequences of runs. *)
From Coq Require Import List Arith ZArith Bool.
Import ListNotations.

Section L2.
Context {A : Type}.

(* one pass at level k: reverse every maximal sequence of items with level >= k.
   pend = the sequence being collected, already reversed *)
Fixpoint rev_pass (k : nat) (items pend : list (nat * A)) : list (nat * A) :=
  match items with
  | [] => pend
  | x :: r => if k <=? fst x then rev_pass k r (x :: pend) else pend ++ x :: rev_pass k r []
  end.
Definition reverse_at_level (k : nat) (items : list (nat * A)) : list (nat * A) := rev_pass k items [].

Definition max_level (ls : list nat) : nat := fold_right Nat.max 0 ls.
Definition lowest_odd (ls : list nat) : option nat :=
  fold_right (fun l acc => if Nat.odd l
                           then match acc with None => Some l | Some m => Some (Nat.min l m) end
                           else acc) None ls.

(* levels hi, hi-1, ..., lo *)
Definition levels_down (hi lo : nat) : list nat := rev (seq lo (S hi - lo)).

(* the items in display order (left to right / top to bottom) *)
Definition l2_reorder (levels : list nat) (items : list A) : list A :=
  match lowest_odd levels with
  | None => items
  | Some lo =>
    map snd (fold_left (fun its k => reverse_at_level k its) (levels_down (max_level levels) lo) (combine levels items))
  end.
End L2.

(* 0, 1, ..., n-1 *)
Definition ziota (n : nat) : list Z := map Z.of_nat (seq 0 n).

Fixpoint list_eqb_Z (a b : list Z) : bool :=
  match a, b with
  | [], [] => true
  | x :: a', y :: b' => Z.eqb x y && list_eqb_Z a' b'
  | _, _ => false
  end.

(* vis = the visual index the implementation gave to each run (logical order).  It follows L2 when
   the runs, put in the order L2 prescribes, carry the visual indices 0, 1, ..., n-1. *)
Definition follows_l2 (levels : list nat) (vis : list Z) : bool :=
  Nat.eqb (length levels) (length vis) && list_eqb_Z (l2_reorder levels vis) (ziota (length vis)).

(* vis is a permutation of 0..n-1: every k < n occurs (pigeonhole gives the rest) *)
Definition is_permutation_of_iota (vis : list Z) : bool :=
  forallb (fun k => existsb (Z.eqb k) vis) (ziota (length vis)).

(* embedding levels of a paragraph of level p (0 = LTR, 1 = RTL) are >= p *)
Definition levels_valid (p : nat) (levels : list nat) : bool := forallb (fun l => p <=? l) levels.
(* direction of a run of level l on the given axis (0 horizontal / 2 vertical): LTR/TTB for even levels *)
Definition dir_of_level (axis : Z) (l : nat) : Z := (axis + (if Nat.odd l then 1 else 0))%Z.

(* ---- trailing white space ------------------------------------------------------------------
   "Trailing-whitespace trimming is applied to the glyph that is visually last in paragraph direction."
   A glyph is given by (Width, Height, XAdvance, YAdvance); the glyphs of a run are in visual order.
   The visually last run in paragraph direction is the last one of the L2 order for a left-to-right /
   top-to-bottom paragraph and the first one otherwise; inside it the last, resp. first, glyph.  That glyph
   loses its advance along the run's axis when it has no extent along it (white space); nothing else changes. *)
Definition sglyph := (Z * Z * Z * Z)%type.
Definition srun := (bool * Z * list sglyph)%type.   (* vertical axis?, Advance, glyphs *)

Definition strim_glyph (vertical : bool) (g : sglyph) : sglyph :=
  let '(w, h, xa, ya) := g in
  if vertical then (if Z.eqb h 0 then (w, h, xa, 0%Z) else g)
  else (if Z.eqb w 0 then (w, h, 0%Z, ya) else g).
Definition sglyph_eqb (a b : sglyph) : bool :=
  let '(w, h, xa, ya) := a in let '(w', h', xa', ya') := b in
  Z.eqb w w' && Z.eqb h h' && Z.eqb xa xa' && Z.eqb ya ya'.
Fixpoint sglyphs_eqb (a b : list sglyph) : bool :=
  match a, b with
  | [], [] => true
  | x :: a', y :: b' => sglyph_eqb x y && sglyphs_eqb a' b'
  | _, _ => false
  end.
Definition axis_sum (vertical : bool) (gs : list sglyph) : Z :=
  fold_right (fun g s => let '(_, _, xa, ya) := g in ((if vertical then ya else xa) + s)%Z) 0%Z gs.
(* expected glyphs of the target run *)
Definition strim_glyphs (toward vertical : bool) (gs : list sglyph) : list sglyph :=
  if toward then match gs with [] => [] | g :: r => strim_glyph vertical g :: r end
  else match rev gs with [] => [] | g :: r => rev (strim_glyph vertical g :: r) end.
Definition srun_eqb (a b : srun) : bool :=
  let '(v, adv, gs) := a in let '(v', adv', gs') := b in
  Bool.eqb v v' && Z.eqb adv adv' && sglyphs_eqb gs gs'.
Definition strim_run (toward : bool) (r : srun) : srun :=
  let '(v, adv, gs) := r in
  match gs with
  | [] => r
  | _ => let gs' := strim_glyphs toward v gs in (v, axis_sum v gs', gs')
  end.
Fixpoint strim_line (toward : bool) (target i : nat) (inp : list srun) : list srun :=
  match inp with
  | [] => []
  | r :: rest => (if Nat.eqb i target then strim_run toward r else r) :: strim_line toward target (S i) rest
  end.
Definition visually_last (toward : bool) (levels : list nat) : nat :=
  let order := l2_reorder levels (seq 0 (length levels)) in
  if toward then hd 0%nat order else last order 0%nat.
Fixpoint sruns_eqb (a b : list srun) : bool :=
  match a, b with
  | [], [] => true
  | x :: a', y :: b' => srun_eqb x y && sruns_eqb a' b'
  | _, _ => false
  end.
(* inp: the runs of the line before, out: after (without truncator) *)
Definition trim_follows_spec (toward : bool) (levels : list nat) (inp out : list srun) : bool :=
  sruns_eqb (strim_line toward (visually_last toward levels) 0 inp) out.
