(* Specification of FontMap.ResolveFace (C14): the answer as a function of the fonts added so far, the current
   query, the current script and the rune - nothing else (no cache, no history of lookups).
   The candidate groups are those documented on ResolveFace; their content is the pure function
   compute_cands of (database, query, script) from the model of match.go. *)
From TV Require Export Model.FontMap.
Open Scope Z_scope.

Section Spec.
  Variable norm : Z -> Z.
  Variable is_generic : Z -> bool.
  Variable subst : list Z -> Z -> list (Z * (Z * bool)).
  Variable script_lang : Z -> Z.
  Variable empty_fam : Z.

  Definition covers (db : list footprint) (r : Z) (i : nat) : bool :=
    match nth_error db i with Some fp => zmem r (fp_runes fp) | None => false end.
  (* step 4: all fonts whose script set contains the current script, in the order they were added *)
  Definition script_indices (db : list footprint) (s : Z) : list nat :=
    filter (fun i => match nth_error db i with Some fp => zmem s (fp_scripts fp) | None => false end) (seq 0 (length db)).
  (* the documented order: exact family matches, substituted families and script fallbacks, manual, script *)
  Definition priority_order (db : list footprint) (c : cands) (s : Z) : list nat :=
    c_without c ++ c_with c ++ c_manual c ++ script_indices db s.

  (* what may influence the answer *)
  Record astate := mkAstate { as_added : list added; as_query : query; as_script : Z }.
  Definition a_db (a : astate) : list footprint := map (footprint_of norm) (as_added a).
  (* the face registered for a location: the last one added with it *)
  Definition face_at (a : astate) (i : nat) : option Z :=
    match nth_error (a_db a) i with
    | Some fp => option_map ad_face (find (fun x => fp_loc fp =? ad_loc x) (rev (as_added a)))
    | None => None
    end.

  (* the first footprint of the priority order whose coverage contains r; else the first face added *)
  Definition spec_answer (a : astate) (r : Z) : res (option Z) :=
    do c <- compute_cands norm is_generic subst script_lang (a_db a) (as_query a) (as_script a);
    Ok (match find (covers (a_db a) r) (priority_order (a_db a) c (as_script a)) with
        | Some i => face_at a i
        | None => option_map ad_face (hd_error (as_added a))
        end).

  Definition astep (a : astate) (o : op) : astate :=
    match o with
    | OpAdd l => mkAstate (as_added a ++ l) (as_query a) (as_script a)
    | OpSetQuery q => mkAstate (as_added a) (match q_fams q with [] => mkQuery [empty_fam] (q_aspect q) | _ => q end) (as_script a)
    | OpSetScript s => mkAstate (as_added a) (as_query a) s
    | _ => a
    end.
  Definition a_init : astate := mkAstate [] (mkQuery [] (mkAspect 0 0 0)) 0.

  (* the answers a sequence of operations must produce *)
  Fixpoint spec_run (a : astate) (ops : list op) : res (list (option Z)) :=
    match ops with
    | [] => Ok []
    | OpResolve r :: rest => do x <- spec_answer a r; do y <- spec_run a rest; Ok (x :: y)
    | o :: rest => spec_run (astep a o) rest
    end.
End Spec.
