(* What C02 needs from the storage of the line wrapper (shaping.wrapBuffer): a line handed out by WrapNextLine stays what it
   was until the next Prepare / WrapParagraph - no later line of the same paragraph is written over it - and the bookkeeping
   never leaves the array (lineUsed <= cap, no slice-bounds panic).  Executable on the results of Model/WrapBuf.v. *)
From Coq Require Import List ZArith Bool Lia.
From TV Require Export Model.WrapBuf.
Import ListNotations.

Fixpoint zlist_eqb (a b : list Z) : bool :=
  match a, b with
  | [], [] => true
  | x :: a', y :: b' => Z.eqb x y && zlist_eqb a' b'
  | _, _ => false
  end.

(* every line that was returned as a view of the array still reads, in the array [line], what it read when it was returned *)
Definition views_intact (line : list Z) (rs : list lres) : bool :=
  forallb (fun r => match lr_view r, lr_line r with
                    | Some (o, n), Some c => zlist_eqb (slice line o n) c
                    | _, _ => true end) rs.

(* the views lie one after the other, below [limit] *)
Fixpoint views_ordered (from : nat) (rs : list lres) (limit : nat) : bool :=
  match rs with
  | [] => from <=? limit
  | r :: rest => match lr_view r with
                 | Some (o, n) => (from <=? o) && views_ordered (o + n) rest limit
                 | None => views_ordered from rest limit
                 end
  end.

Definition used_ok (b : buf) : bool := bf_used b <=? length (bf_line b).

(* the capacity reset leaves: grown when the previous paragraph ran out of storage, else unchanged (at least 100) *)
Definition reset_cap_ok (oldcap : nat) (exh : bool) (newcap : nat) : bool :=
  if exh then oldcap <? newcap else newcap =? Nat.max oldcap 100.
