(* Declarative side of the second part of C20: linear scans of the tables of Gen/ShapeTables.v and the
   bool-valued statements the oracle evaluates on the implementation's outputs.  Executable. *)
From TV Require Export Model.UnicodeShape Spec.Unicode.

(* ---- script tags ---- *)
Definition is_u32 (s : Z) : Prop := 0 <= s < 4294967296.
(* the conventional capitalisation as the code enforces it: bit 0x20 clear in the first byte, set in the other three
   (every tag "Xxxx" of ASCII letters has this form) *)
Definition script_normal (s : Z) : bool :=
  (Z.land s script_mask =? 0) && (Z.land s script_lower =? script_lower).
Definition is_script_const (s : Z) : bool := existsb (Z.eqb s) script_consts.

(* ---- vertical orientation: linear scan for the script, membership in the exceptions ---- *)
Definition vo_find (t : list vo_entry) (s : Z) : option vo_entry := find (fun e => vo_script e =? s) t.
Definition mem_opt (t : option rtab) (r : Z) : bool := match t with Some t => mem t r | None => false end.
(* sideways unless the script is listed; a listed script has its main orientation except on its exceptions *)
Definition vo_sideways_spec (s r : Z) : bool :=
  match vo_find vo_table s with
  | Some e => xorb (vo_main e) (mem_opt (vo_exc e) r)
  | None => true
  end.

(* ---- Arabic joining ---- *)
Definition joining_fallback_spec (gc : Z) : Z :=
  if (gc =? hb_gc_nonSpacingMark) || (gc =? hb_gc_enclosingMark) || (gc =? hb_gc_format) then hb_joiningTypeT else hb_joiningTypeU.
(* the entries of the table for u, by a linear scan *)
Definition joining_entries (tab : list (Z * Z)) (u : Z) : list Z := map snd (filter (fun p => fst p =? u) tab).
Definition joining_spec (tab : list (Z * Z)) (u gc : Z) : Z :=
  match joining_entries tab u with
  | j :: _ => match joining_of_byte j with Some t => t | None => joining_fallback_spec gc end
  | [] => joining_fallback_spec gc
  end.
Definition joining_value_ok (t : Z) : bool :=
  ((0 <=? t) && (t <? hb_numStateMachineCols)) || (t =? hb_joiningTypeT).

(* general category of the shaper by a linear scan of its class list *)
Definition hb_gc_scan (r : Z) : Z :=
  match scan_classes hb_generalCategories_order r with Some i => Z.of_nat i | None => hb_gc_unassigned end.

(* ---- Indic / USE categories: one linear scan over the clauses of all pages, no page dispatch ---- *)
Definition all_clauses (pages : list (Z * list clause)) : list clause := concat (map snd pages).
Definition flat_value (table : list Z) (c : clause) (u : Z) : Z :=
  if c_kind c =? 0 then c_off c else znth 0 table (u - c_sub c + c_off c).
Definition flat_lookup (table : list Z) (cls : list clause) (dflt : Z) (u : Z) : Z :=
  match find (fun c => clause_covers c u) cls with
  | Some c => flat_value table c u
  | None => dflt
  end.
Definition indic_scan (u : Z) : Z := flat_lookup indic_table (all_clauses indic_pages) indic_default u.
Definition use_scan (u : Z) : Z := flat_lookup use_table (all_clauses use_pages) use_default u.

(* ---- cross-table coherence: a code point has a script iff it has a general category other than
        private use / surrogate (UAX #24: Unknown = unassigned, private use, surrogate) ---- *)
Definition gc_is_unassigned_like (gc : Z) : bool :=
  (gc =? hb_gc_unassigned) || (gc =? hb_gc_privateUse) || (gc =? hb_gc_surrogate).
