(* Specification side of C11 for script sets: the script set of a coverage is exactly the set of scripts of its runes. *)
From TV Require Export Lib.GoNum Lib.Res Model.RuneSet Model.Scripts Spec.RuneSet.

(* language.ScriptRanges: non-empty, starts at rune 0, increasing and disjoint, Start <= End, below 2^31 *)
Fixpoint sr_sorted (lo : Z) (SR : list (Z * Z * Z)) : bool :=
  match SR with
  | [] => true
  | (s, e, _) :: t => (lo <=? s) && (s <=? e) && (e <? 2147483648) && sr_sorted (e + 1) t
  end.
Definition sr_ok (SR : list (Z * Z * Z)) : bool :=
  match SR with (s, _, _) :: _ => (s =? 0) && sr_sorted 0 SR | [] => false end.

(* a script set: strictly increasing *)
Fixpoint ss_sorted (ss : list Z) : Prop :=
  match ss with
  | [] => True
  | x :: r => match r with [] => True | y :: _ => x < y end /\ ss_sorted r
  end.
