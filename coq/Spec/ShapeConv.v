(* Specification vocabulary for the conversion part of Shape (C12): statements about the RAW engine result
   (harfbuzz buffer positions in font-scale units) that the theorems of Props/C12.v relate to the shaping.Output. *)
From TV Require Export Lib.GoNum Model.Output Model.ShapeConv Spec.Geometry.

(* the engine returned zero cross-axis advances: y_advance = 0 when asked for a horizontal direction,
   x_advance = 0 when asked for a vertical one *)
Definition hb_cross_zero (vertical : bool) (hb : list hbglyph) : bool :=
  forallb (fun h => (if vertical then hb_xadv h else hb_yadv h) =? 0) hb.

(* the advance of one engine glyph along the axis of the requested run direction `dir`, in 26.6 pixels:
   horizontal: x_advance; vertical upright: y_advance (negative: downwards); vertical sideways: the engine is asked
   horizontally and the glyph is rotated clockwise, x_advance becomes a downward advance.  A glyph id for which the font
   has no extents contributes nothing (Shape leaves such a glyph entirely zero). *)
Definition hb_axis_adv (dir : Z) (h : hbglyph) : Z :=
  if is_sideways dir then - fix_conv (hb_xadv h)
  else if is_vertical dir then fix_conv (hb_yadv h)
  else fix_conv (hb_xadv h).
Definition hb_axis_sum (ext : Z -> Z -> option hbext) (scale dir : Z) (hb : list hbglyph) : Z :=
  fold_right (fun h s => (match ext scale (hb_gid h) with Some _ => hb_axis_adv dir h | None => 0 end) + s) 0 hb.

(* the range on which  fixed.I(int(v)) >> scaleShift  loses nothing *)
Definition exact_range (v : Z) : Prop := - 2 ^ 25 <= v < 2 ^ 25.

(* the direction with the three vertical bits (axisVertical, verticalOrientationSet, verticalSideways) cleared:
   "the same run, treated as horizontal" (the progression bit is kept) *)
Definition horizontal_of (d : Z) : Z := Z.ldiff d 14.

(* the axis the engine is asked to shape on: vertical only for vertical runs that are not sideways (a sideways run is
   shaped horizontally and rotated afterwards) *)
Definition engine_vertical (dir : Z) : bool := is_vertical dir && negb (is_sideways dir).
