(* Declarative statement of the greedy clause of C04 for every break policy, and of the truncation clause ("the truncator
   is appended exactly when runes were cut or the text is declared to continue").
   "A line that ends at an optional break could not have been extended to the next permitted break without exceeding
   maxWidth."  The extension is Spec/WrapGreedy.v extended_line_too_wide: the runes [s, q) placed as the exact pieces of
   the input runs (Spec/Wrap.v piece_ok) measure more than maxWidth by Spec/Wrap.v line_measure (one trailing whitespace
   glyph or the trailing letter spacing at the line end in paragraph direction not counted). *)
From TV Require Export Model.Wrap Spec.Wrap Spec.WrapGreedy.

(* p is a UAX #29 grapheme cluster boundary that shaping did not fuse into a cluster: a candidate the wrapper may use
   when the policy lets it break inside words *)
Definition valid_grapheme_break (attrs : list Z) (st : store) (rs : list out) (p : Z) : Prop :=
  grapheme_boundary attrs p = true /\ cluster_boundary st rs p = true.

(* the two kinds of candidates *)
Definition word_candidate (attrs : list Z) (st : store) (rs : list out) (p : Z) : Prop := valid_line_break attrs st rs p.
Definition any_candidate (attrs : list Z) (st : store) (rs : list out) (p : Z) : Prop :=
  valid_line_break attrs st rs p \/ valid_grapheme_break attrs st rs p.

(* the line [s, e) could not take the next candidate of kind K: up to some q >= e no candidate of kind K lies strictly
   between e and q (the next candidate after e is at q or beyond), and already the runes [s, q) are too wide.
   q = e says that the line itself is too wide (the unit that cannot fit, which the width clause allows). *)
Definition next_too_wide (K : Z -> Prop) (st : store) (rs : list out) (pdir s e mw : Z) : Prop :=
  exists q, e <= q /\ (forall p, e < p < q -> K p -> False) /\ extended_line_too_wide st rs pdir s q mw.

(* greedy clause for one returned line [s, e), every policy (0 WhenNecessary, 1 Never, 2 Always):
   - a mandatory break ended the line; or
   - the next valid UAX #14 opportunity after e is too wide (every policy: under Always / inside a split word the line
     ends at or before the UAX #14 option that did not fit), AND
     when the policy is Always, or WhenNecessary and the line does not end at a UAX #14 opportunity (the line was split
     inside a word), the next valid candidate of either kind (UAX #14 opportunity or grapheme boundary) is too wide. *)
Definition greedy_stmt (attrs : list Z) (st : store) (rs : list out) (pdir policy s e mw : Z) : Prop :=
  mandatory_boundary attrs e = true
  \/ (next_too_wide (word_candidate attrs st rs) st rs pdir s e mw
      /\ ((policy = 2 \/ (policy = 0 /\ line_boundary attrs e = false)) ->
          next_too_wide (any_candidate attrs st rs) st rs pdir s e mw)).

(* ---- truncation ------------------------------------------------------------------------------------------------- *)

(* the last run of the line is the truncator reporting (off, cnt), and no other run of the line is *)
Definition ends_with_truncator (tsrc off cnt : Z) (line : list out) : Prop :=
  exists body t, line = body ++ [t] /\ o_src t = tsrc /\ o_off t = off /\ o_cnt t = cnt /\ has_truncator tsrc body = false.

(* the truncation clause for one WrapNextLine call that returned (wl, done), k = what is left of TruncateAfterLines when the
   call starts (k = 1: this call returns the last permitted line; k <> 1: an earlier line, or truncation disabled):
   - k = 1: the call reports done, Truncated = n - NextLine (the cut range), and the truncator is appended - last run of the
     line, the only one, Runes = (NextLine, Truncated) - EXACTLY WHEN Truncated > 0 or TextContinues;
   - otherwise Truncated = 0 and the line holds no truncator. *)
Definition trunc_when (n tsrc : Z) (k : Z) (cont : bool) (wl : wrapped) (d : bool) : Prop :=
  0 <= wl_truncated wl
  /\ (k = 1 ->
        d = true /\ wl_truncated wl = n - wl_next wl
        /\ ((0 < wl_truncated wl \/ cont = true) ->
              exists line, wl_line wl = Some line /\ ends_with_truncator tsrc (wl_next wl) (wl_truncated wl) line)
        /\ (~ (0 < wl_truncated wl \/ cont = true) -> forall line, wl_line wl = Some line -> has_truncator tsrc line = false))
  /\ (k <> 1 -> wl_truncated wl = 0 /\ forall line, wl_line wl = Some line -> has_truncator tsrc line = false).

