(* Executable statements of C02, C03, C04 about what a wrapping call returned.
   Data: n runes, break attributes (1 line, 2 mandatory, 4 grapheme; n+1 entries), the input runs
   (as values over a glyph store), the store on entry (st0) and on return (st1), the configuration,
   the returned lines each with the width it was wrapped against, the truncated count.
   The truncator's glyph array is the store entry [tsrc]; a returned run with that source is the
   appended truncator, every other run is text. *)
From TV Require Export Model.Wrap.

(* ---- helpers --------------------------------------------------------------------------------- *)

Fixpoint forall_range (lo : Z) (cnt : nat) (f : Z -> bool) : bool :=
  match cnt with O => true | S c => f lo && forall_range (lo + 1) c f end.
(* all p with a < p < b *)
Definition forall_between (a b : Z) (f : Z -> bool) : bool := forall_range (a + 1) (Z.to_nat (b - a - 1)) f.
(* first p in [lo, lo+cnt) with f p *)
Fixpoint first_from (lo : Z) (cnt : nat) (f : Z -> bool) : option Z :=
  match cnt with O => None | S c => if f lo then Some lo else first_from (lo + 1) c f end.

Definition attr_at (attrs : list Z) (p : Z) : Z := znth 0 attrs p.
Definition line_boundary (attrs : list Z) (p : Z) : bool := has_flag (attr_at attrs p) fl_line.
Definition mandatory_boundary (attrs : list Z) (p : Z) : bool := has_flag (attr_at attrs p) fl_mandatory.
Definition grapheme_boundary (attrs : list Z) (p : Z) : bool := has_flag (attr_at attrs p) fl_grapheme.

Definition is_text (tsrc : Z) (o : out) : bool := negb (o_src o =? tsrc).
Definition text_runs (tsrc : Z) (line : list out) : list out := filter (is_text tsrc) line.
Definition out_end (o : out) : Z := o_off o + o_cnt o.

(* ---- well-formed input (the hypothesis of all three properties) ---------------------------------- *)

Definition same_cluster (a b : glyph) : bool :=
  (g_cluster a =? g_cluster b) && (g_rc a =? g_rc b) && (g_gc a =? g_gc b).

(* gs (in logical order) = clusters covering [pos, stop): each cluster is g_gc identical-keyed glyphs *)
Fixpoint wf_clusters (fuel : nat) (gs : list glyph) (pos stop : Z) : bool :=
  match fuel with
  | O => false
  | S f =>
      match gs with
      | [] => pos =? stop
      | g :: _ =>
          (g_cluster g =? pos) && (1 <=? g_rc g) && (1 <=? g_gc g) && (g_gc g <=? zlen gs)
          && forallb (same_cluster g) (zfirstn (g_gc g) gs)
          && wf_clusters f (zskipn (g_gc g) gs) (pos + g_rc g) stop
      end
  end.

Definition logical_glyphs (dir : Z) (gs : list glyph) : list glyph := if dir_rtl dir then rev gs else gs.

Definition wf_run (st : store) (i : Z) (r : out) : bool :=
  let gs := src_array st i in
  (o_src r =? i) && (o_lo r =? 0) && (o_len r =? zlen gs) && (1 <=? o_cnt r) && (0 <=? o_dir r) && (o_dir r <? 4)
  && wf_clusters (S (length gs)) (logical_glyphs (o_dir r) gs) (o_off r) (out_end r).

Fixpoint wf_runs_from (st : store) (i pos : Z) (rs : list out) (n : Z) : bool :=
  match rs with
  | [] => pos =? n
  | r :: rest => (o_off r =? pos) && wf_run st i r && wf_runs_from st (i + 1) (out_end r) rest n
  end.
Definition wf_runs (st : store) (rs : list out) (n : Z) : bool := wf_runs_from st 0 0 rs n.

Definition adv_consistent (st : store) (rs : list out) : bool :=
  forallb (fun r => o_adv r =? sum_adv (out_glyphs st r)) rs.
Definition nonneg_adv (st : store) : bool :=
  forallb (forallb (fun g => (0 <=? g_adv g) && (0 <=? g_sls g) && (g_sls g <=? g_adv g) && (0 <=? g_els g) && (g_els g <=? g_adv g))) st.

(* p is not strictly inside a shaped cluster of any run *)
Definition cluster_boundary (st : store) (rs : list out) (p : Z) : bool :=
  forallb (fun r => forallb (fun g => negb ((g_cluster g <? p) && (p <? g_cluster g + g_rc g))) (src_array st (o_src r))) rs.

(* ---- C02: conservation -------------------------------------------------------------------------- *)

Definition glyph_struct_eqb (a b : glyph) : bool :=
  (g_cluster a =? g_cluster b) && (g_rc a =? g_rc b) && (g_gc a =? g_gc b) && (g_ext a =? g_ext b) && (g_els a =? g_els b).
Fixpoint list_eqb {A} (eqb : A -> A -> bool) (a b : list A) : bool :=
  match a, b with
  | [], [] => true
  | x :: a', y :: b' => eqb x y && list_eqb eqb a' b'
  | _, _ => false
  end.
Definition structure_kept (st0 st1 : store) : bool := list_eqb (list_eqb glyph_struct_eqb) st0 st1.

(* the run r placed on a line is a contiguous piece of input run number o_src r, holding exactly the
   glyphs of the clusters in its rune range (judged glyph by glyph on the whole input array) *)
Fixpoint piece_glyphs_ok (gs : list glyph) (i lo hi a b : Z) : bool :=
  match gs with
  | [] => true
  | g :: rest =>
      let inside := (lo <=? i) && (i <? hi) in
      let within := (a <=? g_cluster g) && (g_cluster g + g_rc g <=? b) in
      let disjoint := (g_cluster g + g_rc g <=? a) || (b <=? g_cluster g) in
      (if inside then within else disjoint) && piece_glyphs_ok rest (i + 1) lo hi a b
  end.
Definition piece_ok (st : store) (rs : list out) (r : out) : bool :=
  let inp := znth out_zero rs (o_src r) in
  let arr := src_array st (o_src r) in
  (0 <=? o_src r) && (o_src r <? zlen rs)
  && (o_dir r =? o_dir inp) && (1 <=? o_cnt r)
  && (o_off inp <=? o_off r) && (out_end r <=? out_end inp)
  && (0 <=? o_lo r) && (0 <=? o_len r) && (o_lo r + o_len r <=? zlen arr)
  && piece_glyphs_ok arr 0 (o_lo r) (o_lo r + o_len r) (o_off r) (out_end r).
Definition advance_ok (st : store) (r : out) : bool := o_adv r =? sum_adv (out_glyphs st r).

(* rune ranges contiguous from [pos]; returns the end *)
Fixpoint contiguous_from (pos : Z) (rs : list out) : option Z :=
  match rs with
  | [] => Some pos
  | r :: rest => if o_off r =? pos then contiguous_from (out_end r) rest else None
  end.

Definition lines_nonempty (lines : list (list out)) : bool :=
  forallb (fun l => match l with [] => false | _ => true end) lines.

(* everything of C02 except "advance = sum of the glyph advances" *)
Definition conservation_structure (n : Z) (rs : list out) (st0 st1 : store) (tsrc : Z)
           (lines : list (list out)) (truncated : Z) : bool :=
  let txt := concat (map (text_runs tsrc) lines) in
  lines_nonempty lines
  && match contiguous_from 0 txt with Some e => (0 <=? truncated) && (e + truncated =? n) | None => false end
  && forallb (piece_ok st1 rs) txt
  && structure_kept st0 st1.
Definition conservation_advance (st1 : store) (tsrc : Z) (lines : list (list out)) : bool :=
  forallb (advance_ok st1) (concat (map (text_runs tsrc) lines)).

Definition check_conservation (n : Z) (rs : list out) (st0 st1 : store) (tsrc : Z)
           (lines : list (list out)) (truncated : Z) : bool :=
  conservation_structure n rs st0 st1 tsrc lines truncated && conservation_advance st1 tsrc lines.

(* ---- line geometry shared by C03 and C04 --------------------------------------------------------- *)

(* (start, end) of the text on each line, top to bottom; a line holding only the truncator is (s, s) *)
Fixpoint line_spans (tsrc : Z) (pos : Z) (lines : list (list out)) : list (Z * Z) :=
  match lines with
  | [] => []
  | l :: rest =>
      let e := match rev (text_runs tsrc l) with r :: _ => out_end r | [] => pos end in
      (pos, e) :: line_spans tsrc e rest
  end.

(* break permitted by the policy at p (0 WhenNecessary / 2 Always: grapheme boundaries too) and not inside a cluster *)
Definition word_break_ok (attrs : list Z) (st : store) (rs : list out) (n p : Z) : bool :=
  ((p =? n) || line_boundary attrs p) && cluster_boundary st rs p.
Definition any_break_ok (attrs : list Z) (st : store) (rs : list out) (n policy p : Z) : bool :=
  ((p =? n) || line_boundary attrs p || (negb (policy =? 1) && grapheme_boundary attrs p)) && cluster_boundary st rs p.

(* the glyphs of runes [s, p) of run r, in store order *)
Definition piece_of (st : store) (r : out) (s p : Z) : list glyph :=
  filter (fun g => (s <=? g_cluster g) && (g_cluster g <? p)) (src_array st (o_src r)).

(* width of the hypothetical line [s, p) measured as the property says (sum of the advances, not counting one
   trailing whitespace glyph or the trailing letter spacing at the line end when the last run runs in the
   paragraph direction), the line being placed the way the wrapper places lines: the start letter spacing of
   the first glyph is removed when the first run of the line is a cut piece (a run placed whole keeps it) *)
Definition hyp_measure (st : store) (rs : list out) (pdir s p : Z) : Z :=
  let pieces := filter (fun x => match snd x with [] => false | _ => true end)
                       (map (fun r => (r, piece_of st r s p)) rs) in
  let total := fold_right (fun x a => sum_adv (snd x) + a) 0 pieces in
  let trim := match pieces with
              | (r, (g :: _) as gs) :: _ => if zlen gs <? zlen (src_array st (o_src r)) then g_sls g else 0
              | _ => 0 end in
  let tail :=
    match rev pieces with
    | (r, gs) :: _ =>
        if pdir =? o_dir r then
          let lastG := if dir_rtl (o_dir r) then znth glyph_zero gs 0 else znth glyph_zero gs (zlen gs - 1) in
          let single := match pieces with [_] => zlen gs =? 1 | _ => false end in
          if g_ext lastG =? 0 then g_adv lastG - (if single then trim else 0) else g_els lastG
        else 0
    | [] => 0
    end in
  total - trim - tail.

(* width of a returned line on the returned store *)
Definition line_measure (st : store) (tsrc pdir : Z) (line : list out) : Z :=
  let txt := text_runs tsrc line in
  let total := fold_right (fun r a => sum_adv (out_glyphs st r) + a) 0 txt in
  match rev txt with
  | r :: _ =>
      let gs := out_glyphs st r in
      if (pdir =? o_dir r) && (0 <? zlen gs) then
        let lastG := if dir_rtl (o_dir r) then znth glyph_zero gs 0 else znth glyph_zero gs (zlen gs - 1) in
        total - (if g_ext lastG =? 0 then g_adv lastG else g_els lastG)
      else total
  | [] => total
  end.

(* ---- C03: break positions ------------------------------------------------------------------------ *)

(* trunc_k = TruncateAfterLines of the call (0 = none); widths: one per line *)
Definition split_needed (attrs : list Z) (st0 : store) (rs : list out) (n pdir : Z) (s e w : Z) : bool :=
  (* the rest of the word that was split, [max(p0,s), p), does not fit the line's width by itself *)
  let p0 := match first_from 0 (Z.to_nat (e - s)) (fun d => word_break_ok attrs st0 rs n (e - 1 - d)) with
            | Some d => Z.max s (e - 1 - d) | None => s end in
  match first_from (e + 1) (Z.to_nat (n - e)) (word_break_ok attrs st0 rs n) with
  | Some p => w <? ceil26 (hyp_measure st0 rs pdir p0 p)
  | None => true
  end.

Definition break_position_ok (attrs : list Z) (st : store) (rs : list out) (n policy e : Z) : bool :=
  ((e =? n) || line_boundary attrs e || (negb (policy =? 1) && grapheme_boundary attrs e))
  && cluster_boundary st rs e.

Definition mandatory_ok (attrs : list Z) (st : store) (rs : list out) (n s e : Z) : bool :=
  forall_between s e (fun p => negb (mandatory_boundary attrs p && cluster_boundary st rs p)).

Fixpoint check_lines_c03 (attrs : list Z) (st0 : store) (rs : list out) (n pdir policy trunc_k : Z) (measurable : bool)
         (i : Z) (spans : list (Z * Z)) (widths : list Z) : bool :=
  match spans with
  | [] => true
  | (s, e) :: rest =>
      let w := match widths with x :: _ => x | [] => 0 end in
      ((s =? e) ||
       (break_position_ok attrs st0 rs n policy e
        && mandatory_ok attrs st0 rs n s e
        && ((negb (policy =? 0)) || (e =? n) || line_boundary attrs e
            || ((0 <? trunc_k) && (i =? trunc_k - 1))
            || negb measurable
            || split_needed attrs st0 rs n pdir s e w)))
      && check_lines_c03 attrs st0 rs n pdir policy trunc_k measurable (i + 1) rest (tl widths)
  end.

(* hypothetical widths are exact when no right-to-left run carries start letter spacing
   (the wrapper trims Glyphs[0] of every candidate it cuts, which in a right-to-left run is a different glyph each time) *)
Definition measurable_runs (st : store) (rs : list out) : bool :=
  forallb (fun r => negb (dir_rtl (o_dir r)) || forallb (fun g => g_sls g =? 0) (src_array st (o_src r))) rs.

Definition check_break_positions (attrs : list Z) (n : Z) (rs : list out) (st0 : store) (tsrc pdir policy trunc_k : Z)
           (lines : list (list out)) (widths : list Z) : bool :=
  check_lines_c03 attrs st0 rs n pdir policy trunc_k (measurable_runs st0 rs) 0 (line_spans tsrc 0 lines) widths.

(* ---- C04: width, greedy fill, truncation --------------------------------------------------------- *)

Definition has_truncator (tsrc : Z) (line : list out) : bool := existsb (fun o => o_src o =? tsrc) line.

(* the line [s,e) may exceed the width only when no permitted break lies strictly inside it *)
Definition single_unit (attrs : list Z) (st : store) (rs : list out) (n policy s e : Z) : bool :=
  forall_between s e (fun p => negb (any_break_ok attrs st rs n policy p)).

Definition width_ok (attrs : list Z) (st0 st1 : store) (rs : list out) (n tsrc pdir policy : Z) (tadv : Z)
           (line : list out) (s e w : Z) : bool :=
  let m := ceil26 (line_measure st1 tsrc pdir line) in
  if has_truncator tsrc line then (s =? e) || (m <=? w - ceil26 tadv)
  else (m <=? w) || single_unit attrs st0 rs n policy s e.

(* a line ending at an optional break could not have been extended to the next permitted break *)
Definition greedy_ok (attrs : list Z) (st0 : store) (rs : list out) (n pdir policy : Z) (s e w : Z) : bool :=
  if (e =? n) || (s =? e) || (mandatory_boundary attrs e && cluster_boundary st0 rs e) then true
  else
    let next_ok :=
      if (policy =? 2) || ((policy =? 0) && negb (line_boundary attrs e)) then any_break_ok attrs st0 rs n policy
      else word_break_ok attrs st0 rs n in
    match first_from (e + 1) (Z.to_nat (n - e)) next_ok with
    | Some p =>
        (* a mandatory break between e and p would have ended the line anyway *)
        negb (mandatory_ok attrs st0 rs n e p) || (w <? ceil26 (hyp_measure st0 rs pdir s p))
    | None => true
    end.

Fixpoint check_lines_c04 (attrs : list Z) (st0 st1 : store) (rs : list out) (n tsrc pdir policy trunc_k tadv : Z) (measurable : bool)
         (i : Z) (lines : list (list out)) (spans : list (Z * Z)) (widths : list Z) : bool :=
  match lines, spans with
  | line :: lrest, (s, e) :: srest =>
      let w := match widths with x :: _ => x | [] => 0 end in
      let truncating := (0 <? trunc_k) && (i =? trunc_k - 1) in
      width_ok attrs st0 st1 rs n tsrc pdir policy tadv line s e w
      && (truncating || negb measurable || greedy_ok attrs st0 rs n pdir policy s e w)
      && (truncating || negb (has_truncator tsrc line))
      && check_lines_c04 attrs st0 st1 rs n tsrc pdir policy trunc_k tadv measurable (i + 1) lrest srest (tl widths)
  | _, _ => true
  end.

(* truncation bookkeeping: at most k lines; on the k-th line the truncator is the last run exactly when
   runes were cut or the text continues, and it reports the cut range; otherwise nothing is truncated *)
Definition truncation_ok (n tsrc trunc_k : Z) (cont : bool) (lines : list (list out)) (truncated : Z) : bool :=
  if trunc_k <=? 0 then (truncated =? 0) && forallb (fun l => negb (has_truncator tsrc l)) lines
  else
    (zlen lines <=? trunc_k)
    && if zlen lines =? trunc_k then
         match rev lines with
         | last :: _ =>
             let shown := match rev (line_spans tsrc 0 lines) with (_, e) :: _ => e | [] => 0 end in
             (truncated =? n - shown)
             && match rev last with
                | t :: before =>
                    if (0 <? truncated) || cont
                    then (o_src t =? tsrc) && (o_off t =? shown) && (o_cnt t =? truncated)
                         && negb (existsb (fun o => o_src o =? tsrc) before)
                    else negb (has_truncator tsrc last)
                | [] => false
                end
         | [] => false
         end
       else (truncated =? 0)
  .

Definition check_width_truncation (attrs : list Z) (n : Z) (rs : list out) (st0 st1 : store) (tsrc pdir policy trunc_k : Z)
           (cont : bool) (tadv : Z) (lines : list (list out)) (widths : list Z) (truncated : Z) : bool :=
  check_lines_c04 attrs st0 st1 rs n tsrc pdir policy trunc_k tadv (measurable_runs st0 rs) 0 lines (line_spans tsrc 0 lines) widths
  && truncation_ok n tsrc trunc_k cont lines truncated.
