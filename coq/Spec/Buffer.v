(* Specification side of the buffer core: the glyph sequence a buffer stands for, the invariant WF, the preconditions
   upstream asserts for each operation, and the C01 / C18 statements as executable checkers. *)
From TV Require Export Model.Buffer Spec.ShapeGlue.

(* the glyphs the buffer currently stands for: output so far followed by the unread input *)
Definition bseq (b : buffer) : list glyph := if have_out b then out b ++ zskipn (idx b) (info b) else info b.
Definition cls (l : list glyph) : list Z := map cl l.

(* monotone in one of the two directions *)
Definition monotone (l : list Z) : bool := mono false l || mono true l.

(* WF lo hi b: cursor inside the buffer; clusters of the glyph sequence monotone (for cluster levels other than
   Characters) and inside [lo, hi) *)
Definition WF (lo hi : Z) (b : buffer) : bool :=
  (0 <=? idx b) && (idx b <=? zlen (info b))
  && ((level b =? 2) || monotone (cls (bseq b)))
  && in_range lo hi (cls (bseq b)).

Definition olen_ok (c g : option (list Z)) : bool :=
  match c, g with Some a, Some b => zlen a =? zlen b | _, _ => true end.

(* every continuation glyph carries the cluster of the glyph before it *)
Fixpoint groups_uniform (l : list glyph) : bool :=
  match l with
  | a :: ((b :: _) as r) => (negb (is_cont b) || (cl a =? cl b)) && groups_uniform r
  | _ => true
  end.

(* the preconditions (upstream assertions kept as comments in the Go port) under which an operation is used *)
Definition pre (o : op) (b : buffer) : bool :=
  let n := zlen (info b) in
  match o with
  | ONext | OSkip => idx b <? n
  | ONextN k => (0 <=? k) && (idx b + k <=? n)
  | OCopy | OReplIdx _ | ODelete => have_out b && (idx b <? n)
  | OReplace k c g => have_out b && (0 <=? k) && (idx b + k <=? n) && ((idx b <? n) || negb (zlen (out b) =? 0)) && olen_ok c g
  | ODeleteInplace _ => negb (have_out b) && (idx b =? 0)
  | OMerge s e => (0 <=? s) && (s <=? e) && (e <=? n) && (negb (have_out b) || (idx b <=? s))
  | OMergeOut s e => have_out b && (0 <=? s) && (s <=? e) && (e <=? zlen (out b))
  | OMoveTo i => (0 <=? i) && (if have_out b then i <=? zlen (out b) + (n - idx b) else i <=? n)
  | OSwap => have_out b
  | OClearOut | ORemoveOut _ | OClearPos | OPropagate | OReverse | ORevClusters => negb (have_out b)
  | OSetFlags _ s e interior from_out =>
      (0 <=? s) && (if from_out then
                      if have_out b then (s <=? zlen (out b)) && (idx b <=? e)
                      else negb interior || (s <=? Z.min e n)       (* start <= end, implicit upstream *)
                    else true)
  | OUnsafeBreak s _ | OUnsafeConcat s _ | OTatweel s _ => 0 <=? s
  | OUnsafeBreakOut s e =>
      (0 <=? s) && (if have_out b then (s <=? zlen (out b)) && (idx b <=? e) else s <=? Z.min e n)
  | OUnsafeConcatOut s e =>
      (0 <=? s) && (if have_out b then (s <=? zlen (out b)) && (idx b <=? e) else true)
  (* shiftForward: upstream asserts have_output *)
  | OShiftFwd k => have_out b && (0 <=? k)
  (* reverseRange(s, e) without output: the whole buffer, or a range of glyphs of one cluster (what the callers
     reverse after merging the clusters of the range) *)
  | ORevRange s e =>
      negb (have_out b) && (0 <=? s) && (s <=? e) && (e <=? n)
      && (((s =? 0) && (e =? n)) || forallb (fun g => cl g =? cl (nth (Z.to_nat s) (info b) g0)) (slice s e (info b)))
  (* AddRune / AddRunes: the client supplies cluster values that continue the buffer monotonically (AddRunes: the rune
     indices of the item, inside the text); the capacity the runtime chose for Pos holds the new length *)
  | OAddRune _ c k => monotone (cls (bseq b) ++ [c]) && (pos_len b + 1 <=? k)
  | OAddRunes t off len0 k =>
      let len := add_runes_len t off len0 in
      (0 <=? off) && (0 <=? len) && (off + len <=? zlen t)
      && monotone (cls (bseq b) ++ map (fun i => off + i) (zseq len)) && (pos_len b + len <=? k)
  (* sort: after swapBuffers, inside the buffer *)
  | OSort s e => negb (have_out b) && (0 <=? s) && (e <=? n)
  (* reverseGraphemes: no output; without cluster merging (cluster levels other than MonotoneCharacters) every
     continuation glyph already carries the cluster of its predecessor (what formClusters establishes) *)
  | ORevGraphemes m => negb (have_out b) && (m || groups_uniform (info b))
  end.

(* the cluster values an operation brings into the buffer lie in [lo, hi) (only AddRune / AddRunes bring any) *)
Definition op_rng (lo hi : Z) (o : op) : bool :=
  match o with
  | OAddRune _ c _ => (lo <=? c) && (c <? hi)
  | OAddRunes t off len0 _ => (add_runes_len t off len0 <=? 0) || ((lo <=? off) && (off + add_runes_len t off len0 <=? hi))
  | _ => true
  end.

(* ---- C01 statements on one step ---- *)

(* after mergeClusters(s, e) every glyph of [s, e) carries the smallest cluster value of the range *)
Definition merged_min_ok (before after : buffer) (s e : Z) : bool :=
  let c := lmin (cls (slice s e (info before))) in
  forallb (fun g => cl g =? c) (slice s e (info after)).

(* deleting never loses the smallest cluster value while a glyph remains *)
Definition keeps_min_ok (before after : buffer) : bool :=
  match cls (bseq after) with [] => true | l => lmin l =? lmin (cls (bseq before)) end.

(* ---- C18 statements ---- *)

(* glyph flags are uniform within a cluster *)
Fixpoint flags_uniform (l : list glyph) : bool :=
  match l with
  | [] => true
  | g :: r => forallb (fun h => negb (cl g =? cl h) || fl_eqb (gf g) (gf h)) r && flags_uniform r
  end.

(* unsafeToBreak(s, e) without output: exactly the glyphs of [s, min(e,len)) outside the minimal cluster of that range
   receive the flags, everything else is unchanged *)
Definition glyph_eqb (a b : glyph) : bool :=
  (cl a =? cl b) && fl_eqb (gf a) (gf b) && (rest a =? rest b) && (cp a =? cp b) && (gid a =? gid b)
  && (up a =? up b) && (gp a =? gp b).
Fixpoint glyphs_eqb (a b : list glyph) : bool :=
  match a, b with
  | [], [] => true
  | x :: a', y :: b' => glyph_eqb x y && glyphs_eqb a' b'
  | _, _ => false
  end.
Definition marks_interior (m : fl) (s e0 : Z) (before : list glyph) : list glyph :=
  let e := Z.min e0 (zlen before) in
  if e - s <? 2 then before
  else let c := lmin (cls (slice s e before)) in
       map_range (fun g => if cl g =? c then g else or_flags m g) s e before.
