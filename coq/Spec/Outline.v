(* Declarative specification used by C10: what a decoded TrueType contour must look like, what a bounding box is,
   what the hmtx advance rule is.  Prop-valued statements with boolean checkers proved equivalent (Proofs/Outline.v),
   so that the oracle of the check evaluates exactly the proved statements on the implementation's output. *)
From TV Require Export Model.Outline.
Open Scope Z_scope.

(* ------------------------------------------------------------------------------------------------ *)
(* contours                                                                                             *)

(* a contour point: position and on-curve flag.  Input contours are in font units, traces in half units. *)
Definition cpt := (pt * bool)%type.

(* the points a segment list visits, in order: MoveTo/LineTo end points are on the curve, the first argument of a
   QuadTo is a control point *)
Definition seg_trace (s : seg) : list cpt :=
  match s with
  | MoveTo p => [(p, true)]
  | LineTo p => [(p, true)]
  | QuadTo c p => [(c, false); (p, true)]
  end.
Definition trace (l : list seg) : list cpt := flat_map seg_trace l.

(* TrueType rule: between two consecutive off-curve points lies an implied on-curve point, their midpoint.
   [expand prev l] lists the points of l (doubled, i.e. in half units), each preceded by the implied midpoint when it and its
   predecessor are both off the curve.  Every input point occurs exactly once, in order. *)
Fixpoint expand (prev : cpt) (l : list cpt) : list cpt :=
  match l with
  | [] => []
  | q :: r =>
      (if negb (snd prev) && negb (snd q) then [(mid_u (fst prev) (fst q), true)] else [])
      ++ (dbl_u (fst q), snd q) :: expand q r
  end.
(* the contour is a cycle: the predecessor of the first point is the last one *)
Definition expand_cyclic (c : list cpt) : list cpt :=
  match c with
  | [] => []
  | p :: _ => expand (last c p) c
  end.

Definition is_draw (s : seg) : bool := match s with MoveTo _ => false | _ => true end.
Definition seg_end (s : seg) : pt := match s with MoveTo p => p | LineTo p => p | QuadTo _ p => p end.

(* MoveTo s, then at least one drawing segment, no further MoveTo, and the last segment ends on s *)
Definition closed_contour (out : list seg) : Prop :=
  exists s segs, out = MoveTo s :: segs /\ segs <> [] /\ forallb is_draw segs = true
                 /\ seg_end (last segs (MoveTo s)) = s.

Definition rotation {A} (a b : list A) : Prop := exists l1 l2, a = l1 ++ l2 /\ b = l2 ++ l1.

(* The specification of the outline of one contour c:
   the path is closed, and the points it visits (the closing return to the start left out) are, up to the choice of
   the starting point, exactly the points of the contour in order with the implied midpoints inserted. *)
Definition contour_spec (c : list cpt) (out : list seg) : Prop :=
  closed_contour out /\ rotation (expand_cyclic c) (removelast (trace out)).

(* A contour the rule applies to: not empty and not reduced to one single off-curve point (which describes no curve) *)
Definition good_contour (c : list cpt) : bool :=
  match c with
  | [] => false
  | [(_, false)] => false
  | _ => true
  end.

(* the contour as the point list buildSegments receives: isEndPoint on the last point only *)
Fixpoint mark (c : list cpt) : list cpoint :=
  match c with
  | [] => []
  | [(p, on)] => [mkCP (fst p) (snd p) on true]
  | (p, on) :: r => mkCP (fst p) (snd p) on false :: mark r
  end.

(* cut a point list after every end point; a trailing unterminated part is returned separately *)
Fixpoint split_contours (pts : list cpoint) : list (list cpt) * list cpt :=
  match pts with
  | [] => ([], [])
  | p :: r =>
      let '(cs, t) := split_contours r in
      let q := ((cp_x p, cp_y p), cp_on p) in
      if cp_end p then ([q] :: cs, t)
      else match cs with
           | c :: cs' => ((q :: c) :: cs', t)
           | [] => ([], q :: t)
           end
  end.

(* cut a segment list before every MoveTo *)
Fixpoint split_segs (l : list seg) : list (list seg) :=
  match l with
  | [] => []
  | s :: r =>
      match split_segs r with
      | [] => [[s]]
      | g :: gs => match g with
                   | MoveTo _ :: _ => [s] :: g :: gs
                   | _ => (s :: g) :: gs
                   end
      end
  end.

(* ---- boolean checkers ---- *)
Definition pt_eqb (a b : pt) : bool := (fst a =? fst b) && (snd a =? snd b).
Definition cpt_eqb (a b : cpt) : bool := pt_eqb (fst a) (fst b) && Bool.eqb (snd a) (snd b).
Fixpoint cpts_eqb (a b : list cpt) : bool :=
  match a, b with
  | [], [] => true
  | x :: a', y :: b' => cpt_eqb x y && cpts_eqb a' b'
  | _, _ => false
  end.

Definition closed_contourb (out : list seg) : bool :=
  match out with
  | MoveTo s :: segs =>
      match segs with
      | [] => false
      | _ => forallb is_draw segs && pt_eqb (seg_end (last segs (MoveTo s))) s
      end
  | _ => false
  end.
Definition rotationb (a b : list cpt) : bool :=
  existsb (fun k => cpts_eqb (skipn k a ++ firstn k a) b) (seq 0 (S (length a))).
Definition contour_specb (c : list cpt) (out : list seg) : bool :=
  closed_contourb out && rotationb (expand_cyclic c) (removelast (trace out)).

Fixpoint all2 {A B} (f : A -> B -> bool) (a : list A) (b : list B) : bool :=
  match a, b with
  | [], [] => true
  | x :: a', y :: b' => f x y && all2 f a' b'
  | _, _ => false
  end.

(* the statement about a whole glyph, on an arbitrary segment list: one closed path per contour *)
Definition outline_specb (pts : list cpoint) (out : list seg) : bool :=
  let '(cs, t) := split_contours pts in
  match t with
  | [] => all2 contour_specb cs (split_segs out)
  | _ => false
  end.
Definition good_points (pts : list cpoint) : bool :=
  let '(cs, t) := split_contours pts in
  match t with [] => forallb good_contour cs | _ => false end.

(* ------------------------------------------------------------------------------------------------ *)
(* boxes                                                                                                *)

Definition in_box (e : extents) (x y : Z) : Prop :=
  let '(xb, yb, w, h) := e in xb <= x <= xb + w /\ yb + h <= y <= yb.
(* the same for a point in half units *)
Definition in_box2 (e : extents) (p : pt) : Prop :=
  let '(xb, yb, w, h) := e in 2 * xb <= fst p <= 2 * (xb + w) /\ 2 * (yb + h) <= snd p <= 2 * yb.
Definition in_box2b (e : extents) (p : pt) : bool :=
  let '(xb, yb, w, h) := e in
  (2 * xb <=? fst p) && (fst p <=? 2 * (xb + w)) && (2 * (yb + h) <=? snd p) && (snd p <=? 2 * yb).
Definition box_encloses_segsb (e : extents) (out : list seg) : bool :=
  forallb (fun q => in_box2b e (fst q)) (trace out).

(* the glyf header states the exact bounding box of the decoded points, and the int16 arithmetic of the library
   does not wrap on it *)
Definition header_exact (h : glyph_hdr) (lsb : Z) (pts : list cpoint) : bool :=
  match pts with
  | [] => false
  | p0 :: _ =>
      let '(minx, miny, maxx, maxy) := bbox_acc pts (cp_x p0) (cp_y p0) (cp_x p0) (cp_y p0) in
      (h_xmin h =? minx) && (h_ymin h =? miny) && (h_xmax h =? maxx) && (h_ymax h =? maxy)
      && (maxx - minx <? 32768) && (maxy - miny <=? 32768)
      && (-32768 <=? minx - lsb) && (minx - lsb <? 32768)
  end.

(* ------------------------------------------------------------------------------------------------ *)
(* hmtx: OpenType "hmtx" — numberOfHMetrics long records (advance, lsb), then numGlyphs - numberOfHMetrics
   left side bearings; glyphs beyond the long records take the advance of the LAST long record.
   (The library reads the advance as int16; see the assumptions of the check.) *)
Definition wf_hmtx (hmtx : list Z) (n_long num_glyphs : Z) : Prop :=
  1 <= n_long <= num_glyphs /\ n_long * 4 + (num_glyphs - n_long) * 2 <= zlen hmtx.
Definition wf_hmtxb (hmtx : list Z) (n_long num_glyphs : Z) : bool :=
  (1 <=? n_long) && (n_long <=? num_glyphs) && (n_long * 4 + (num_glyphs - n_long) * 2 <=? zlen hmtx).
Definition advance_spec (hmtx : list Z) (n_long gid : Z) : Z :=
  i16_at (4 * Z.min gid (n_long - 1)) hmtx.
Definition lsb_spec (hmtx : list Z) (n_long gid : Z) : Z :=
  if gid <? n_long then i16_at (4 * gid + 2) hmtx else i16_at (4 * n_long + 2 * (gid - n_long)) hmtx.
(* the value the OpenType specification gives (advanceWidth is a uint16) *)
Definition advance_spec_u (hmtx : list Z) (n_long gid : Z) : Z :=
  u16_at (4 * Z.min gid (n_long - 1)) hmtx.
