(* Declarative rules for vertical metrics (OpenType vmtx, VORG) used by C10. *)
From TV Require Export Model.VMetrics Spec.Outline.
Open Scope Z_scope.

(* VORG: the entry of the glyph if there is one, the default otherwise (entries are sorted by glyph index) *)
Fixpoint vorg_assoc (l : list (Z * Z)) (gid : Z) : option Z :=
  match l with
  | [] => None
  | (g, y) :: r => if g =? gid then Some y else vorg_assoc r gid
  end.
Definition vorg_spec (t : vorg_tab) (gid : Z) : Z :=
  match vorg_assoc (vo_entries t) gid with Some y => y | None => vo_default t end.
Fixpoint sorted_strict (l : list (Z * Z)) : bool :=
  match l with
  | a :: ((b :: _) as r) => (fst a <? fst b) && sorted_strict r
  | _ => true
  end.
Definition sorted_entries (l : list (Z * Z)) : Prop := forall i j : nat, (i < j < length l)%nat -> fst (nth i l (0, 0)) < fst (nth j l (0, 0)).
