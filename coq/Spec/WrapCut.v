(* Declarative statements for the rune -> glyph mapping and for cutRun (C02: map3_correct, cut_run_exact).
   A run's glyph slice [gs] is in storage (visual) order; its logical order is [logical_glyphs dir gs].
   Cluster well-formedness of one run = the clause of wf_run about its glyphs (Spec/Wrap.v: wf_clusters). *)
From TV Require Export Model.Wrap Spec.Wrap.

(* the glyphs [gs] of a run over runes [off, off+cnt) are whole clusters, monotone in the run's progression, with
   RuneCount/GlyphCount consistent (every glyph of a cluster carries the cluster's first rune, rune count, glyph count) *)
Definition wf_glyphs (dir : Z) (gs : list glyph) (off cnt : Z) : bool :=
  wf_clusters (S (length gs)) (logical_glyphs dir gs) off (off + cnt).

(* rune p belongs to the cluster of glyph g *)
Definition holds (p : Z) (g : glyph) : bool := (g_cluster g <=? p) && (p <? g_cluster g + g_rc g).

(* index (counted from i) of the first element satisfying f; i + length when there is none *)
Fixpoint first_index {A} (f : A -> bool) (l : list A) (i : Z) : Z :=
  match l with [] => i | x :: r => if f x then i else first_index f r (i + 1) end.

Fixpoint zseq (lo : Z) (cnt : nat) : list Z :=
  match cnt with O => [] | S c => lo :: zseq (lo + 1) c end.

(* the mapping the property text describes: entry i = storage index of the first glyph of the cluster holding rune off+i *)
Definition map3_spec (gs : list glyph) (off cnt : Z) : list Z :=
  map (fun i => first_index (holds (off + i)) gs 0) (zseq 0 (Z.to_nat cnt)).

(* the glyph's cluster starts inside the rune range [a, b) *)
Definition in_range (a b : Z) (g : glyph) : bool := (a <=? g_cluster g) && (g_cluster g <? b).

(* position p is a cluster boundary of the run: outside the run's interior or the first rune of one of its clusters *)
Definition cluster_start (gs : list glyph) (off cnt p : Z) : bool :=
  (p <=? off) || (off + cnt <=? p) || existsb (fun g => g_cluster g =? p) gs.

(* the first glyph of a slice after trimStartLetterSpacing *)
Definition trim_first (gs : list glyph) : list glyph :=
  match gs with [] => [] | g :: r => trim_glyph g :: r end.
