(* Specification side of C11 for the rune-set container: a rune set is a mathematical set of runes,
   i.e. a predicate Z -> bool; the executable variant used by the case checker keeps the members in a list. *)
From TV Require Export Lib.GoNum.

Definition rset := Z -> bool.
Definition s_empty : rset := fun _ => false.
Definition s_add (m : rset) (r : Z) : rset := fun x => (x =? r) || m x.
Definition s_del (m : rset) (r : Z) : rset := fun x => negb (x =? r) && m x.
(* a includes b *)
Definition s_includes (a b : rset) : Prop := forall x, b x = true -> a x = true.

(* operations of a history: (0, r) = Add r, (1, r) = Delete r *)
Definition s_apply (m : rset) (op : Z * Z) : rset :=
  if fst op =? 0 then s_add m (snd op) else s_del m (snd op).
Definition s_run (ops : list (Z * Z)) : rset := fold_left s_apply ops s_empty.

(* the runes a RuneSet distinguishes: page ref = uint16(r >> 8), so 24 bits *)
Definition rune_ok (r : Z) : Prop := 0 <= r < 16777216.
Definition rune_okb (r : Z) : bool := (0 <=? r) && (r <? 16777216).

(* executable: members as a duplicate-free list *)
Definition l_mem (l : list Z) (x : Z) : bool := existsb (Z.eqb x) l.
Definition l_add (l : list Z) (r : Z) : list Z := if l_mem l r then l else r :: l.
Definition l_del (l : list Z) (r : Z) : list Z := filter (fun x => negb (x =? r)) l.
Definition l_apply (l : list Z) (op : Z * Z) : list Z :=
  if fst op =? 0 then l_add l (snd op) else l_del l (snd op).
Definition l_run (ops : list (Z * Z)) : list Z := fold_left l_apply ops [].
Definition l_includes (a b : list Z) : bool := forallb (l_mem a) b.

(* inclusive ranges *)
Definition in_ranges (rs : list (Z * Z)) (x : Z) : bool :=
  existsb (fun ab => (fst ab <=? x) && (x <=? snd ab)) rs.
(* sorted, non-overlapping, non-empty, within the rune domain *)
Fixpoint ranges_sorted_from (lo : Z) (rs : list (Z * Z)) : bool :=
  match rs with
  | [] => true
  | (a, b) :: r => (lo <=? a) && (a <=? b) && (b <? 16777216) && ranges_sorted_from (b + 1) r
  end.
Definition ranges_ok (rs : list (Z * Z)) : bool := ranges_sorted_from 0 rs.

(* bit b (0..255) of a page of 8 uint32 words *)
Definition page_bit (p : list Z) (b : Z) : bool := Z.testbit (znth 0 p (b / 32)) (b mod 32).
