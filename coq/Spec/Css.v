(* CSS Fonts, section 5.2 "Matching font styles" (font-stretch, font-style, font-weight), written as a
   declarative choice over the SET of values that are available, independently of the library code:
   no accumulators, no loop over candidates; minima / maxima of filtered sets and "first of a
   preference list that is available".

   Units: as in Model/Match.v a stretch or weight v is the integer 8*v (only needed to write the
   constants 1.0, 400 and 500).  Style tags: 1 = normal, 2 = italic; the library identifies oblique
   with italic (tag 2). *)
From TV Require Export Lib.GoNum.
From TV Require Import Model.Match.   (* only for the record `aspect` *)

Definition css_normal : Z := 1.
Definition css_italic : Z := 2.
Definition css_oblique : Z := 2.
Definition css_stretch_normal : Z := 8.     (* 100% *)
Definition css_w400 : Z := 3200.
Definition css_w500 : Z := 4000.

(* --- finite sets of numbers as lists ----------------------------------------------------------- *)
Definition omax (a b : option Z) : option Z :=
  match a, b with
  | Some x, Some y => Some (Z.max x y)
  | Some x, None => Some x
  | None, _ => b
  end.
Definition omin (a b : option Z) : option Z :=
  match a, b with
  | Some x, Some y => Some (Z.min x y)
  | Some x, None => Some x
  | None, _ => b
  end.
Definition set_max (S : list Z) : option Z := fold_right (fun x acc => omax (Some x) acc) None S.
Definition set_min (S : list Z) : option Z := fold_right (fun x acc => omin (Some x) acc) None S.
Definition mem (x : Z) (S : list Z) : bool := existsb (Z.eqb x) S.
Definition below (q : Z) (S : list Z) : list Z := filter (fun x => x <? q) S.
Definition above (q : Z) (S : list Z) : list Z := filter (fun x => q <? x) S.
(* "if no match is found, ... are checked" *)
Definition orelse (a b : option Z) : option Z := match a with Some _ => a | None => b end.

(* --- font-stretch ------------------------------------------------------------------------------
   "If the matching set contains faces with the desired width, faces with other widths are removed.
    Otherwise, if the desired value is normal or narrower (<= 100%), narrower widths are checked first
    [closest first], then wider ones [closest first].  Otherwise wider values first, then narrower." *)
Definition css_stretch (S : list Z) (q : Z) : option Z :=
  if mem q S then Some q
  else if q <=? css_stretch_normal
  then orelse (set_max (below q S)) (set_min (above q S))
  else orelse (set_min (above q S)) (set_max (below q S)).

(* --- font-style --------------------------------------------------------------------------------
   "italic: italic faces, then oblique, then normal.  oblique: oblique, italic, normal.
    normal: normal, then oblique, then italic." *)
Definition style_preference (q : Z) : list Z :=
  if q =? css_normal then [css_normal; css_oblique; css_italic]
  else if q =? css_italic then [css_italic; css_oblique; css_normal]
  else [].
Definition css_style (T : list Z) (q : Z) : option Z :=
  find (fun t => mem t T) (style_preference q).

(* --- font-weight -------------------------------------------------------------------------------
   "If the desired weight is available that face matches.  Otherwise
    - desired >= 400 and <= 500: weights >= desired and <= 500 in ascending order, then weights less
      than the desired one in descending order, then weights greater than 500 in ascending order;
    - desired < 400: weights less than desired in descending order, then weights greater in ascending order;
    - desired > 500: weights greater than desired in ascending order, then weights less in descending order." *)
Definition css_weight (W : list Z) (q : Z) : option Z :=
  if mem q W then Some q
  else if (css_w400 <=? q) && (q <=? css_w500) then
    orelse (set_min (filter (fun x => (q <? x) && (x <=? css_w500)) W))
   (orelse (set_max (below q W))
           (set_min (above css_w500 W)))
  else if q <? css_w400 then orelse (set_max (below q W)) (set_min (above q W))
  else orelse (set_min (above q W)) (set_max (below q W)).

(* --- the same rules as an ORDER OF TRIAL (used only to cross-check the definitions above, see
   Props/C15.v css_*_first_in_trial_order): rank of an available value x for the request q, compared
   lexicographically; CSS tries the values in increasing rank and takes the first one available. *)
Definition lex_le (a b : Z * Z) : Prop := fst a < fst b \/ (fst a = fst b /\ snd a <= snd b).
Definition stretch_rank (q x : Z) : Z * Z :=
  if x =? q then (0, 0)
  else if q <=? css_stretch_normal
       then (if x <? q then (1, q - x) else (2, x - q))       (* narrower, closest first; then wider *)
       else (if q <? x then (1, x - q) else (2, q - x)).      (* wider, closest first; then narrower *)
Definition weight_rank (q x : Z) : Z * Z :=
  if x =? q then (0, 0)
  else if (css_w400 <=? q) && (q <=? css_w500)
       then (if (q <? x) && (x <=? css_w500) then (1, x - q)  (* up to 500 ascending *)
             else if x <? q then (2, q - x)                   (* below, descending *)
             else (3, x - q))                                 (* above 500, ascending *)
       else if q <? css_w400
            then (if x <? q then (1, q - x) else (2, x - q))
            else (if q <? x then (1, x - q) else (2, q - x)).

(* --- unset fields of the request take the initial values normal / 100% / 400 ---------------------- *)
Definition css_defaults (q : aspect) : aspect :=
  mkAspect (if a_style q =? 0 then css_normal else a_style q)
           (if a_weight q =? 0 then css_w400 else a_weight q)
           (if a_stretch q =? 0 then css_stretch_normal else a_stretch q).

(* --- narrowing a candidate list: stretch, then style, then weight, each on the survivors ---------- *)
Section Narrow.
  Context {A : Type} (asp : A -> aspect).

  Definition keep_eq (f : aspect -> Z) (choice : option Z) (c : list A) : list A :=
    match choice with
    | Some v => filter (fun x => f (asp x) =? v) c
    | None => []
    end.

  Definition css_step (f : aspect -> Z) (choose : list Z -> Z -> option Z) (q : aspect) (c : list A) : list A :=
    keep_eq f (choose (map (fun x => f (asp x)) c) (f q)) c.

  Definition css_narrow (cands : list A) (q : aspect) : list A :=
    let q := css_defaults q in
    css_step a_weight css_weight q (css_step a_style css_style q (css_step a_stretch css_stretch q cands)).

  (* the values chosen at the three steps *)
  Definition css_choices (cands : list A) (q : aspect) : option Z * option Z * option Z :=
    let q := css_defaults q in
    let c1 := css_step a_stretch css_stretch q cands in
    let c2 := css_step a_style css_style q c1 in
    (css_stretch (map (fun x => a_stretch (asp x)) cands) (a_stretch q),
     css_style (map (fun x => a_style (asp x)) c1) (a_style q),
     css_weight (map (fun x => a_weight (asp x)) c2) (a_weight q)).
End Narrow.

(* --- candidates are indices into a database (font set); the aspect of candidate i ----------------- *)
Definition dflt_aspect : aspect := mkAspect 0 0 0.
Definition asp_of (fs : list aspect) (i : Z) : aspect := if i <? 0 then dflt_aspect else nth (Z.to_nat i) fs dflt_aspect.
Definition in_range (fs : list aspect) (i : Z) : bool := (0 <=? i) && (i <? zlen fs).

(* --- the candidates the property quantifies over ---------------------------------------------------- *)
Definition valid_style (s : Z) : bool := (s =? css_normal) || (s =? css_italic).
Definition valid_aspect (a : aspect) : bool := valid_style (a_style a) && (0 <? a_weight a) && (0 <? a_stretch a).
(* a request: every field either unset (0) or a valid value *)
Definition valid_query (q : aspect) : bool := (a_style q =? 0) || valid_style (a_style q).

(* non-empty candidate list, every index inside the database, every candidate aspect valid *)
Definition cands_ok (fs : list aspect) (cands : list Z) : bool :=
  negb (match cands with [] => true | _ => false end)
  && forallb (fun i => in_range fs i && valid_aspect (asp_of fs i)) cands.

(* r is a subsequence of l (order kept, nothing added) *)
Fixpoint subseqb (r l : list Z) : bool :=
  match r, l with
  | [], _ => true
  | _ :: _, [] => false
  | x :: r', y :: l' => if x =? y then subseqb r' l' else subseqb r l'
  end.
Inductive subseq {A} : list A -> list A -> Prop :=
| subseq_nil : subseq [] []
| subseq_keep x r l : subseq r l -> subseq (x :: r) (x :: l)
| subseq_drop x r l : subseq r l -> subseq r (x :: l).

(* all members share one stretch, one style, one weight *)
Definition uniformb {A} (asp : A -> aspect) (r : list A) : bool :=
  match r with
  | [] => true
  | x :: _ => forallb (fun y => (a_stretch (asp y) =? a_stretch (asp x)) && (a_style (asp y) =? a_style (asp x))
                               && (a_weight (asp y) =? a_weight (asp x))) r
  end.
