(* UAX #29 grapheme-cluster and word boundary rules, as a function of the text to the left (reversed:
   nearest rune first) and to the right of a position.  Written from the rule tables of UAX #29
   (Unicode 15), over the library's merged word classes (NewlineCRLF = Newline|CR|LF,
   ExtendFormat = Extend|Format|ZWJ).  true = boundary (÷), false = no boundary (×). *)
From TV Require Export Model.SegClasses.

Definition gb_is (c : gbc) (o : obs) : bool := gbc_beq (o_gb o) c.
Definition wb_is (c : wbc) (o : obs) : bool := wbc_beq (o_wb o) c.

(* what the tables guarantee about one rune (checked on every driver run for the runes used, and for all
   code points by the table theorems of C20): pictographic runes have no grapheme class, and CR / LF are
   exactly the runes of their grapheme classes *)
Definition obs_wf_g (o : obs) : bool :=
  (negb (o_pic o) || gbc_beq (o_gb o) GB_None)
  && Bool.eqb (o_cr o) (gbc_beq (o_gb o) GB_CR)
  && Bool.eqb (o_lf o) (gbc_beq (o_gb o) GB_LF).


(* ---------- grapheme clusters ---------- *)
Definition gb_control (o : obs) : bool := gb_is GB_Control o || gb_is GB_CR o || gb_is GB_LF o.

(* reversed context  Extend* \p{Extended_Pictographic}  *)
Fixpoint extends_then_pict (left : list obs) : bool :=
  match left with
  | [] => false
  | o :: r => if o_pic o then true else if gb_is GB_Extend o then extends_then_pict r else false
  end.

Fixpoint leading (p : obs -> bool) (l : list obs) : nat :=
  match l with
  | o :: r => if p o then S (leading p r) else O
  | [] => O
  end.

Definition gb_boundary (left right : list obs) : bool :=
  match left, right with
  | [], _ => true                                                        (* GB1  sot ÷ *)
  | _, [] => true                                                        (* GB2  ÷ eot *)
  | a :: left', b :: _ =>
      if gb_is GB_CR a && gb_is GB_LF b then false                       (* GB3  CR × LF *)
      else if gb_control a then true                                     (* GB4  (Control|CR|LF) ÷ *)
      else if gb_control b then true                                     (* GB5  ÷ (Control|CR|LF) *)
      else if gb_is GB_L a && (gb_is GB_L b || gb_is GB_V b || gb_is GB_LV b || gb_is GB_LVT b) then false   (* GB6 *)
      else if (gb_is GB_LV a || gb_is GB_V a) && (gb_is GB_V b || gb_is GB_T b) then false                  (* GB7 *)
      else if (gb_is GB_LVT a || gb_is GB_T a) && gb_is GB_T b then false                                   (* GB8 *)
      else if gb_is GB_Extend b || gb_is GB_ZWJ b then false             (* GB9  × (Extend|ZWJ) *)
      else if gb_is GB_SpacingMark b then false                          (* GB9a × SpacingMark *)
      else if gb_is GB_Prepend a then false                              (* GB9b Prepend × *)
      else if gb_is GB_ZWJ a && extends_then_pict left' && o_pic b then false   (* GB11 ExtPict Extend* ZWJ × ExtPict *)
      else if gb_is GB_RI b && Nat.odd (leading (gb_is GB_RI) left) then false  (* GB12/13 (RI RI)* RI × RI *)
      else true                                                          (* GB999 *)
  end.

(* boundaries of a whole text: position i is between firstn i and skipn i *)
Fixpoint positions {A} (f : list obs -> list obs -> A) (left right : list obs) : list A :=
  f left right :: match right with
                  | [] => []
                  | o :: r => positions f (o :: left) r
                  end.
Definition gb_spec (text : list obs) : list bool := positions gb_boundary [] text.

(* ---------- words ---------- *)
Definition wb_ef (o : obs) : bool := wb_is WB_ExtendFormat o.
(* WB4: skip Extend|Format|ZWJ *)
Fixpoint skip_ef (l : list obs) : list obs :=
  match l with
  | o :: r => if wb_ef o then skip_ef r else l
  | [] => []
  end.
Definition hd_wb (l : list obs) : wbc := match l with o :: _ => o_wb o | [] => WB_None end.
Definition w_ahletter (c : wbc) : bool := wbc_beq c WB_ALetter || wbc_beq c WB_Hebrew_Letter.
Definition w_midletterq (c : wbc) : bool := wbc_beq c WB_MidLetter || wbc_beq c WB_MidNumLet || wbc_beq c WB_Single_Quote.
Definition w_midnumq (c : wbc) : bool := wbc_beq c WB_MidNum || wbc_beq c WB_MidNumLet || wbc_beq c WB_Single_Quote.
Definition w_is (k c : wbc) : bool := wbc_beq c k.

(* table facts the word rules rely on (checked on every rune of every driver case): CR and LF belong to
   NewlineCRLF, U+200D to ExtendFormat *)
Definition obs_wf_w (o : obs) : bool :=
  (negb (o_cr o) || wb_is WB_NewlineCRLF o) && (negb (o_lf o) || wb_is WB_NewlineCRLF o)
  && (negb (o_zwj o) || wb_is WB_ExtendFormat o).

(* the finite context the word rules read at one position *)
Record wctx := mkW {
  y_a_cr : bool;        (* the rune before is CR *)
  y_a_zwj : bool;       (* the rune before is U+200D *)
  y_a : wbc;            (* class of the rune before *)
  y_b_lf : bool;        (* the rune after is LF *)
  y_b_pic : bool;       (* the rune after is Extended_Pictographic *)
  y_c : wbc;            (* class of the rune after *)
  y_p : wbc;            (* class of the previous significant rune (WB4: Extend|Format|ZWJ skipped) *)
  y_pp : wbc;           (* class of the significant rune before that *)
  y_n : wbc;            (* class of the next significant rune after the rune after the position *)
  y_ri_odd : bool       (* an odd number of RI directly before, Extend|Format|ZWJ skipped *)
}.

Definition wb_core (x : wctx) : bool :=
  let a := y_a x in let c := y_c x in let p := y_p x in let pp := y_pp x in let n := y_n x in
  if y_a_cr x && y_b_lf x then false                                 (* WB3  CR × LF *)
  else if w_is WB_NewlineCRLF a then true                            (* WB3a (Newline|CR|LF) ÷ *)
  else if w_is WB_NewlineCRLF c then true                            (* WB3b ÷ (Newline|CR|LF) *)
  else if y_a_zwj x && y_b_pic x then false                          (* WB3c ZWJ × ExtPict *)
  else if w_is WB_WSegSpace a && w_is WB_WSegSpace c then false      (* WB3d WSegSpace × WSegSpace *)
  else if w_is WB_ExtendFormat c then false                          (* WB4  × (Extend|Format|ZWJ) *)
  (* WB4: in the remaining rules Extend|Format|ZWJ are skipped on both sides *)
  else if w_ahletter p && w_ahletter c then false                                   (* WB5 *)
  else if w_ahletter p && w_midletterq c && w_ahletter n then false                 (* WB6 *)
  else if w_ahletter pp && w_midletterq p && w_ahletter c then false                (* WB7 *)
  else if w_is WB_Hebrew_Letter p && w_is WB_Single_Quote c then false              (* WB7a *)
  else if w_is WB_Hebrew_Letter p && w_is WB_Double_Quote c && w_is WB_Hebrew_Letter n then false   (* WB7b *)
  else if w_is WB_Hebrew_Letter pp && w_is WB_Double_Quote p && w_is WB_Hebrew_Letter c then false  (* WB7c *)
  else if w_is WB_Numeric p && w_is WB_Numeric c then false                         (* WB8 *)
  else if w_ahletter p && w_is WB_Numeric c then false                              (* WB9 *)
  else if w_is WB_Numeric p && w_ahletter c then false                              (* WB10 *)
  else if w_is WB_Numeric pp && w_midnumq p && w_is WB_Numeric c then false         (* WB11 *)
  else if w_is WB_Numeric p && w_midnumq c && w_is WB_Numeric n then false          (* WB12 *)
  else if w_is WB_Katakana p && w_is WB_Katakana c then false                       (* WB13 *)
  else if (w_ahletter p || w_is WB_Numeric p || w_is WB_Katakana p || w_is WB_ExtendNumLet p)
          && w_is WB_ExtendNumLet c then false                                      (* WB13a *)
  else if w_is WB_ExtendNumLet p
          && (w_ahletter c || w_is WB_Numeric c || w_is WB_Katakana c) then false   (* WB13b *)
  else if w_is WB_RI c && y_ri_odd x then false                                     (* WB15/16 *)
  else true.                                                                        (* WB999 *)

Definition nonef (l : list obs) : list obs := filter (fun o => negb (wb_ef o)) l.

(* the context at the position between (a :: left') (reversed) and b, the next significant class being n *)
Definition wctx_of (a : obs) (left' : list obs) (b : obs) (n : wbc) : wctx :=
  let l1 := nonef (a :: left') in
  mkW (o_cr a) (o_zwj a) (o_wb a) (o_lf b) (o_pic b) (o_wb b)
      (hd_wb l1) (hd_wb (tl l1)) n (Nat.odd (leading (wb_is WB_RI) l1)).

Definition wbn (left : list obs) (b : obs) (n : wbc) : bool :=
  match left with
  | [] => true                                                        (* WB1 *)
  | a :: left' => wb_core (wctx_of a left' b n)
  end.

Definition wb_boundary (left right : list obs) : bool :=
  match right with
  | [] => true                                                        (* WB2 *)
  | b :: right' => wbn left b (hd_wb (skip_ef right'))
  end.
Definition wb_spec (text : list obs) : list bool := positions wb_boundary [] text.

(* the words the specification prescribes: UAX #29 word segments starting with a rune of the Word table *)
Fixpoint spec_words (text : list obs) (bounds : list bool) (pos start : Z) (inw : bool) : list (Z * Z) :=
  (* bounds = word boundary flags of positions pos, pos+1, ... ; text = runes from pos *)
  match bounds with
  | [] => []
  | bd :: bounds' =>
      let emit := if bd && inw && (start <? pos)%Z then [(start, pos - start)%Z] else [] in
      match text with
      | [] => emit
      | o :: text' =>
          let start' := if bd then pos else start in
          let inw' := if bd then o_word o else inw in
          emit ++ spec_words text' bounds' (pos + 1)%Z start' inw'
      end
  end.
(* the words of a text: its UAX #29 word segments whose first rune is in the library's Word table *)
Definition uax29_words (text : list obs) : list (Z * Z) := spec_words text (wb_spec text) 0%Z 0%Z false.
