(* Specification side of C11 for the legacy remapers: agreement of enumeration and lookup on the non-negative
   runes (a rune is a code point; remaperSymbol.Lookup also answers for some negative int32 values, which no
   enumeration yields and no caller passes). *)
From TV Require Export Lib.GoNum Lib.Res Model.Cmap Spec.Cmap.

Definition rune_nn (r : Z) : Prop := 0 <= r < 2147483648.
Definition iter_agrees_nn (pairs : list (Z * Z)) (lookup : Z -> res (Z * bool)) : Prop :=
  NoDup (map fst pairs) /\
  (forall r g, In (r, g) pairs -> rune_nn r) /\
  forall r g, rune_nn r -> (In (r, g) pairs <-> lookup r = Ok (g, true)).

(* a lookup function that never fails *)
Definition total_lookup (f : Z -> res (Z * bool)) : Prop := forall r, exists v, f r = Ok v.
