(* Specification for C12: geometry identities of a shaped run (shaping.Output), executable checkers.
   Coordinates: y grows upwards; a glyph's ink box has the corner (XOffset+XBearing, YOffset+YBearing) (top left for the
   usual signs Width >= 0, Height <= 0) and the extent vector (Width, Height). *)
From TV Require Export Lib.GoNum Model.Output.

(* ---- 1. advance ---------------------------------------------------------------------------- *)
Definition axis_sum (vertical : bool) (gs : list glyph) : Z := fold_right (fun g s => axis_adv vertical g + s) 0 gs.
Definition cross_adv (vertical : bool) (g : glyph) : Z := if vertical then g_xadv g else g_yadv g.
(* "The run advance equals the sum of glyph advances along the run's axis" *)
Definition advance_ok (o : output) : bool := o_adv o =? axis_sum (is_vertical (o_dir o)) (o_glyphs o).
(* "every glyph's cross-axis advance is zero" *)
Definition cross_zero (o : output) : bool := forallb (fun g => cross_adv (is_vertical (o_dir o)) g =? 0) (o_glyphs o).

(* ---- 2. glyph bounds ----------------------------------------------------------------------- *)
Definition ink_x0 (g : glyph) : Z := g_xoff g + g_xbearing g.
Definition ink_x1 (g : glyph) : Z := ink_x0 g + g_width g.
Definition ink_y0 (g : glyph) : Z := g_yoff g + g_ybearing g.
Definition ink_y1 (g : glyph) : Z := ink_y0 g + g_height g.
(* extent of the ink box on the cross axis (vertical extent for horizontal runs) *)
Definition cross_lo (vertical : bool) (g : glyph) : Z := if vertical then Z.min (ink_x0 g) (ink_x1 g) else Z.min (ink_y0 g) (ink_y1 g).
Definition cross_hi (vertical : bool) (g : glyph) : Z := if vertical then Z.max (ink_x0 g) (ink_x1 g) else Z.max (ink_y0 g) (ink_y1 g).
(* "glyph bounds enclose the baseline and every glyph's ink box" (Gap is always zero) *)
Definition bounds_enclose (o : output) : bool :=
  let b := o_gbounds o in
  (b_descent b <=? 0) && (0 <=? b_ascent b) && (b_gap b =? 0)
  && forallb (fun g => (b_descent b <=? cross_lo (is_vertical (o_dir o)) g) && (cross_hi (is_vertical (o_dir o)) g <=? b_ascent b)) (o_glyphs o).
(* the usual orientation of font extents: Width >= 0, Height <= 0 *)
Definition extents_oriented (g : glyph) : bool := (0 <=? g_width g) && (g_height g <=? 0).

(* ---- 3. line bounds ------------------------------------------------------------------------ *)
Definition bounds_eqb (a b : bounds) : bool :=
  (b_ascent a =? b_ascent b) && (b_descent a =? b_descent b) && (b_gap a =? b_gap b).

(* ---- 4. sideways = rotation by 90 degrees clockwise around the dot: (x, y) -> (y, -x) -------- *)
Definition is_rot90 (h v : glyph) : bool :=
  (* the two corners of the ink box are mapped *)
  (ink_x0 v =? ink_y1 h) && (ink_x1 v =? ink_y0 h) && (ink_y0 v =? - ink_x0 h) && (ink_y1 v =? - ink_x1 h)
  (* the advance vector is mapped *)
  && (g_xadv v =? g_yadv h) && (g_yadv v =? - g_xadv h)
  (* the text mapping is kept *)
  && (g_cluster v =? g_cluster h) && (g_runes v =? g_runes h) && (g_glyphs v =? g_glyphs h).
Fixpoint all2 {A} (f : A -> A -> bool) (a b : list A) : bool :=
  match a, b with
  | [], [] => true
  | x :: a', y :: b' => f x y && all2 f a' b'
  | _, _ => false
  end.
(* v is the sideways shaping, h the horizontal shaping of the same text *)
Definition sideways_ok (h v : output) : bool :=
  all2 is_rot90 (o_glyphs h) (o_glyphs v)
  && (o_adv v =? - o_adv h)
  && bounds_eqb (o_gbounds v) (o_gbounds h)       (* the cross-axis extent [Descent, Ascent] is carried over *)
  && (o_dir v =? Z.lor (o_dir h) 14).             (* vertical, orientation set, sideways; progression kept *)

(* ---- 5. spacing ---------------------------------------------------------------------------- *)
(* fields that no spacing operation may touch *)
Definition same_shape (a b : glyph) : bool :=
  (g_width a =? g_width b) && (g_height a =? g_height b) && (g_xbearing a =? g_xbearing b) && (g_ybearing a =? g_ybearing b)
  && (g_cluster a =? g_cluster b) && (g_runes a =? g_runes b) && (g_glyphs a =? g_glyphs b).

(* word separators of css-text-3 *)
Definition word_separator (r : Z) : bool :=
  existsb (Z.eqb r) [32; 160; 4961; 65792; 65793; 66463; 67871].
(* eligible: a separator shaped one rune to one glyph *)
Definition word_eligible (text : list Z) (g : glyph) : bool :=
  (g_runes g =? 1) && (g_glyphs g =? 1) && (0 <=? g_cluster g) && (g_cluster g <? zlen text)
  && word_separator (znth 0 text (g_cluster g)).
Definition word_glyph_ok (vertical : bool) (text : list Z) (s : Z) (a b : glyph) : bool :=
  same_shape a b
  && (axis_adv vertical b =? axis_adv vertical a + (if word_eligible text a then s else 0))
  && (cross_adv vertical b =? cross_adv vertical a)
  && (g_startls b =? g_startls a) && (g_endls b =? g_endls a).
Definition count_if {A} (f : A -> bool) (l : list A) : Z := fold_right (fun x n => (if f x then 1 else 0) + n) 0 l.
Definition word_spacing_ok (text : list Z) (s : Z) (a b : output) : bool :=
  let v := is_vertical (o_dir a) in
  (o_dir b =? o_dir a)
  && all2 (word_glyph_ok v text s) (o_glyphs a) (o_glyphs b)
  && (o_adv b =? axis_sum v (o_glyphs a) + s * count_if (word_eligible text) (o_glyphs a))
  && advance_ok b.

(* letter spacing: clusters are the maximal sequences of equal ClusterIndex.  Every boundary between two clusters
   receives s in total (end side of the first + start side of the second); the outer sides of the run receive their
   share only when a run is adjacent: the start share is s/2 (towards zero), the end share the remainder, so that two
   adjacent runs also add up to s.  ds/de: growth of startLetterSpacing / endLetterSpacing. *)
Definition start_share (s : Z) : Z := Z.quot s 2.
Definition end_share (s : Z) : Z := s - Z.quot s 2.
Fixpoint letter_ok_from (vertical : bool) (s : Z) (is_end : bool) (prev : option Z) (first : bool) (is_start : bool)
                        (a b : list glyph) : bool :=
  match a, b with
  | [], [] => true
  | x :: a', y :: b' =>
    let ds := g_startls y - g_startls x in
    let de := g_endls y - g_endls x in
    let starts := match prev with None => true | Some c => negb (c =? g_cluster x) end in
    let ends := match a' with [] => true | x' :: _ => negb (g_cluster x' =? g_cluster x) end in
    let last := match a' with [] => true | _ => false end in
    same_shape x y
    && (axis_adv vertical y =? axis_adv vertical x + ds + de)
    && (cross_adv vertical y =? cross_adv vertical x)
    && (ds =? (if starts && (negb first || negb is_start) then start_share s else 0))
    && (de =? (if ends && (negb last || negb is_end) then end_share s else 0))
    && letter_ok_from vertical s is_end (Some (g_cluster x)) false is_start a' b'
  | _, _ => false
  end.
Fixpoint count_clusters (prev : option Z) (a : list glyph) : Z :=
  match a with
  | [] => 0
  | x :: a' => (match prev with None => 1 | Some c => if c =? g_cluster x then 0 else 1 end) + count_clusters (Some (g_cluster x)) a'
  end.
Definition letter_spacing_ok (s : Z) (is_start is_end : bool) (a b : output) : bool :=
  let v := is_vertical (o_dir a) in
  (o_dir b =? o_dir a)
  && letter_ok_from v s is_end None true is_start (o_glyphs a) (o_glyphs b)
  && (match o_glyphs a with
      | [] => o_adv b =? 0
      | _ => o_adv b =? axis_sum v (o_glyphs a) + s * (count_clusters None (o_glyphs a) - 1)
                        + (if is_start then 0 else start_share s) + (if is_end then 0 else end_share s)
      end)
  && advance_ok b.

(* trimming removes exactly what the bookkeeping recorded at the start of the run *)
Definition trim_start_ok (a b : output) : bool :=
  let v := is_vertical (o_dir a) in
  match o_glyphs a, o_glyphs b with
  | [], [] => true
  | x :: a', y :: b' =>
    same_shape x y && (axis_adv v y =? axis_adv v x - g_startls x) && (cross_adv v y =? cross_adv v x)
    && (g_startls y =? 0) && (g_endls y =? g_endls x)
    && all2 (fun p q => same_shape p q && (g_xadv p =? g_xadv q) && (g_yadv p =? g_yadv q) && (g_xoff p =? g_xoff q)
                        && (g_yoff p =? g_yoff q) && (g_startls p =? g_startls q) && (g_endls p =? g_endls q)) a' b'
  | _, _ => false
  end.

(* the cluster annotation is consistent: GlyphCount = size of the maximal sequence of equal ClusterIndex the glyph is in
   (what shaping produces, C01); given as the list of cluster sizes *)
Fixpoint clusters_of (prev : option (Z * Z)) (a : list glyph) : list (Z * Z) :=   (* (cluster index, size), reversed accumulation avoided: returns in order *)
  match a with
  | [] => match prev with None => [] | Some p => [p] end
  | x :: a' =>
    match prev with
    | None => clusters_of (Some (g_cluster x, 1)) a'
    | Some (c, k) => if c =? g_cluster x then clusters_of (Some (c, k + 1)) a' else (c, k) :: clusters_of (Some (g_cluster x, 1)) a'
    end
  end.
Fixpoint annot_ok (cl : list (Z * Z)) (a : list glyph) : bool :=
  match cl with
  | [] => match a with [] => true | _ => false end
  | (c, k) :: cl' =>
    let grp := zfirstn k a in
    (zlen grp =? k) && forallb (fun g => (g_cluster g =? c) && (g_glyphs g =? k)) grp && annot_ok cl' (zskipn k a)
  end.
Definition clusters_consistent (a : list glyph) : bool := annot_ok (clusters_of None a) a.
