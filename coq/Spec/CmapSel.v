(* Specification side of C11 for format 0, format 14, and the choice of the subtable by ProcessCmap. *)
From TV Require Export Lib.GoNum Lib.Res Model.Cmap Model.CmapSel Spec.Cmap Spec.CmapRemap.

(* ---------------- format 14: what GetGlyphVariant must answer ---------------- *)
Definition in_def (r : Z) (e : Z * Z) : bool := (fst e <=? r) && (r <=? fst e + snd e).
Definition uvs_spec (t : list varsel) (r sel : Z) : Z * Z :=
  match find (fun v => vs_sel v =? sel) t with
  | None => (0, VariantNotFound)
  | Some v =>
      if existsb (in_def r) (vs_def v) then (0, VariantUseDefault)
      else match find (fun e => fst e =? r) (vs_nondef v) with
           | Some e => (snd e, VariantFound)
           | None => (0, VariantNotFound)
           end
  end.
(* the order the OpenType specification requires: records by selector, default ranges increasing and disjoint,
   non-default mappings by code point (all strictly) *)
Fixpoint def_sorted (lo : Z) (l : list (Z * Z)) : bool :=
  match l with [] => true | (s, c) :: t => (lo <=? s) && (0 <=? c) && def_sorted (s + c + 1) t end.
Fixpoint keys_sorted (lo : Z) (l : list (Z * Z)) : bool :=
  match l with [] => true | (k, _) :: t => (lo <=? k) && keys_sorted (k + 1) t end.
Definition wf_varsel (v : varsel) : bool := def_sorted 0 (vs_def v) && keys_sorted 0 (vs_nondef v).
Fixpoint sels_sorted (lo : Z) (t : list varsel) : bool :=
  match t with [] => true | v :: r => (lo <=? vs_sel v) && sels_sorted (vs_sel v + 1) r end.
Definition wf_uvs (t : list varsel) : bool := sels_sorted 0 t && forallb wf_varsel t.

(* ---------------- ProcessCmap ---------------- *)
Definition rec_id (r : enc_record) : Z * Z := (fst (fst r), snd (fst r)).
Definition cand_id (c : Z * Z * mcmap) : Z * Z := (fst (fst c), snd (fst c)).
Definition is_candidate (st : subtable) : bool := match st with S2 | S14 _ => false | _ => true end.
Definition wrap_page (fp : Z) (cm : mcmap) : mcmap :=
  if fp =? FPNone then MSym cm else if fp =? FPSimpArabic then MSimp cm else if fp =? FPTradArabic then MTrad cm else cm.
(* the documented order: symbol first, then 32-bit, then 16-bit subtables *)
Definition full_preference : list (Z * Z) := (3, 0) :: preference.

(* `res` is the right choice among the candidates `cands`: the first candidate carrying the first identifier of the
   preference order that is present at all (wrapped by the legacy remaper when that identifier is the symbol one);
   the very first candidate when no preferred identifier is present *)
Definition right_choice (cands : list (Z * Z * mcmap)) (fp : Z) (res : mcmap) : Prop :=
  exists (i : nat) (c : Z * Z * mcmap), nth_error cands i = Some c /\
    ((exists k : nat, nth_error full_preference k = Some (cand_id c)
        /\ (forall j c', (j < i)%nat -> nth_error cands j = Some c' -> cand_id c' <> cand_id c)
        /\ (forall k' id, (k' < k)%nat -> nth_error full_preference k' = Some id -> ~ In id (map cand_id cands))
        /\ res = (if Nat.eqb k 0 then wrap_page fp (snd c) else snd c))
     \/ ((forall id, In id full_preference -> ~ In id (map cand_id cands)) /\ i = 0%nat /\ res = snd c)).

(* type invariants of the parsed subtables (what tables.ParseCmap can produce) *)
Definition byteb (x : Z) : bool := (0 <=? x) && (x <? 256).
Definition u16quad (q : Z * Z * Z * Z) : bool := let '(e, st, d, iro) := q in u16b e && u16b st && u16b d && u16b iro.
Definition typed_sub (st : subtable) : Prop :=
  match st with
  | S0 ga => length ga = 256%nat /\ forallb byteb ga = true
  | S2 => True
  | S4 qs ga => forallb u16quad qs = true /\ forallb byteb ga = true
  | S6 f en => u16b f = true /\ zlen en <= 65535 /\ forallb u16b en = true
  | S10 f en => u32b f = true /\ forallb u16b en = true
  | S12 g | S13 g => forallb ty_grp g = true
  | S14 _ => True
  end.
(* the byte decoding table of format 0: 256 non-negative runes *)
Definition decode_ok (decode : list Z) : bool := (length decode =? 256)%nat && forallb (fun r => (0 <=? r) && (r <? 2147483648)) decode.
(* a legacy arabic remapping table: keys strictly increasing in 0 .. arabicPUALastRune, targets positive runes that
   are not remapped again *)
Definition pua_table_ok (tab : list (Z * Z)) : bool :=
  keys_sorted 0 tab
  && forallb (fun e => (fst e <=? arabicPUALastRune) && (0 <? snd e) && (snd e <? 2147483648)
                       && match lookup0_raw tab (snd e) with None => true | Some _ => false end) tab.
