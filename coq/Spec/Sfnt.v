(* Declarative specification of a structurally valid sfnt file holding a given table list
   (OpenType spec, "Organization of an OpenType font" + "Calculating checksums"). *)
From TV Require Export Lib.Bytes.

(* "Calculating checksums": treat the data as though zero-padded to a multiple of four bytes and sum
   the big-endian 32-bit words modulo 2^32.  Byte i of the padded data is byte (i mod 4) of its word and
   so contributes b * 256^(3 - i mod 4). *)
Definition pad4 (l : list Z) : list Z := l ++ repeat 0 (Z.to_nat ((4 - zlen l mod 4) mod 4)).
Definition weight (i : Z) : Z := 256 ^ (3 - i mod 4).
Fixpoint wsum (l : list Z) (i : Z) : Z :=
  match l with
  | [] => 0
  | b :: r => b * weight i + wsum r (i + 1)
  end.
Definition checksum_spec (l : list Z) : Z := wsum (pad4 l) 0 mod 4294967296.

Definition slice_of (file : list Z) (off len : Z) : list Z := zfirstn len (zskipn off file).

(* entries: the i-th table (tag, content) is described by the i-th 16-byte directory record and stored at
   the running offset after the directory *)
Fixpoint entries_valid (file : list Z) (ts : list (Z * list Z)) (i : Z) (off : Z) : bool :=
  match ts with
  | [] => zlen file =? off
  | (tag, content) :: r =>
      let e := slice_of file (12 + 16 * i) 16 in
      (zlen e =? 16)
      && (get32 e =? tag)
      && (get32 (skipn 4 e) =? checksum_spec content)
      && (get32 (skipn 8 e) =? off)
      && (get32 (skipn 12 e) =? zlen content)
      && list_Z_eqb (slice_of file off (zlen content)) content
      && entries_valid file r (i + 1) (off + zlen content)
  end.

Definition header_valid (file : list Z) (n : Z) : bool :=
  (12 <=? zlen file)
  && (get32 file =? 65536)
  && (get16 (skipn 4 file) =? n)
  && ((n =? 0) ||
      ((get16 (skipn 6 file) =? 16 * 2 ^ Z.log2 n)
       && (get16 (skipn 8 file) =? Z.log2 n)
       && (get16 (skipn 10 file) =? 16 * n - 16 * 2 ^ Z.log2 n))).

Definition valid_sfnt (file : list Z) (ts : list (Z * list Z)) : bool :=
  let n := zlen ts in
  header_valid file n && entries_valid file ts 0 (12 + 16 * n).

(* independent directory reader (what the written file "contains") *)
Fixpoint spec_dir (file : list Z) (n : nat) (i : Z) : list (Z * list Z) :=
  match n with
  | O => []
  | S n' =>
      let e := slice_of file (12 + 16 * i) 16 in
      (get32 e, slice_of file (get32 (skipn 8 e)) (get32 (skipn 12 e))) :: spec_dir file n' (i + 1)
  end.
Definition spec_read (file : list Z) : list (Z * list Z) :=
  spec_dir file (Z.to_nat (get16 (skipn 4 file))) 0.
