(* Specification of C07 "Itemization partitions the text into uniform runs", as boolean checkers over
   a list of output runs.  `check_itemization` is evaluated on what the Go implementation returned
   (oracle) and is proved of the model (Proofs/Itemize.v). *)
From TV Require Export Model.Itemize.
Open Scope Z_scope.

Definition dflt_obs := mkObs 0 (-1) false [] [].
Definition obs_at (text : list obs) (i : Z) : obs := znth dflt_obs text i.

(* the positions a, a+1, ..., b-1 *)
Definition zrange (a b : Z) : list Z := map (fun k => a + Z.of_nat k) (seq 0 (Z.to_nat (b - a))).
Definition all_pos (r : input) (p : Z -> bool) : bool := forallb p (zrange (i_start r) (i_end r)).

(* ---- partition -------------------------------------------------------------------------- *)
(* consecutive non-empty runs from a to b *)
Fixpoint chainb (a b : Z) (l : list input) : bool :=
  match l with
  | [] => a =? b
  | r :: l' => (i_start r =? a) && (a <? i_end r) && chainb (i_end r) b l'
  end.
Definition same_payload (x r : input) : bool :=
  (i_text r =? i_text x) && (i_size r =? i_size x) && (i_feat r =? i_feat x).
Definition partition_ok (x : input) (runs : list input) : bool :=
  chainb (i_start x) (i_end x) runs && forallb (same_payload x) runs.

(* ---- bidi ------------------------------------------------------------------------------- *)
(* hypothesis on the external bidi result for a range of n runes: ends strictly increasing, last = n - 1 *)
Fixpoint ends_increasing (prev : Z) (runs : list (Z * bool)) : bool :=
  match runs with
  | [] => true
  | (e, _) :: r => (prev <? e) && ends_increasing e r
  end.
Definition bidi_wf (n : Z) (bidi : option (list (Z * bool))) : bool :=
  match bidi with
  | None | Some [] => true
  | Some runs => ends_increasing (-1) runs && (fst (last runs (0, false)) =? n - 1)
  end.

(* absolute intervals [s, e) with the direction, for a range starting at `start` *)
Fixpoint bidi_intervals (s : Z) (start : Z) (runs : list (Z * bool)) : list (Z * Z * bool) :=
  match runs with
  | [] => []
  | (e, rtl) :: r => (s, e + start + 1, rtl) :: bidi_intervals (e + start + 1) start r
  end.
Definition intervals_of (bidi : option (list (Z * bool))) (x : input) : list (Z * Z * bool) :=
  match bidi with
  | None | Some [] => [(i_start x, i_end x, d_prog (i_dir x))]
  | Some runs => bidi_intervals (i_start x) (i_start x) runs
  end.
Definition in_interval (iv : Z * Z * bool) (r : input) : bool :=
  let '(s, e, _) := iv in (s <=? i_start r) && (i_end r <=? e).
(* every run lies inside one bidi run and reports its direction; the axis bit is the caller's *)
Definition bidi_ok (bidi : option (list (Z * bool))) (x : input) (runs : list input) : bool :=
  forallb (fun r => existsb (fun iv => in_interval iv r && Bool.eqb (d_prog (i_dir r)) (snd iv)) (intervals_of bidi x)) runs.

(* ---- script ----------------------------------------------------------------------------- *)
Definition run_at (runs : list input) (pos : Z) : option input :=
  find (fun r => (i_start r <=? pos) && (pos <? i_end r)) runs.
Definition script_at_run (runs : list input) (pos : Z) : Z :=
  match run_at runs pos with Some r => i_script r | None => -1 end.

(* (a) every rune whose own script is strong (neither Common nor Inherited) has the script of its run *)
Definition strong_ok (text : list obs) (runs : list input) : bool :=
  forallb (fun r => all_pos r (fun i => let s := o_script (obs_at text i) in negb (strong s) || (s =? i_script r))) runs.

(* paired delimiters of the range: the stack discipline of UAX #24 on positions (a closing delimiter pops up to
   its counterpart; an unmatched closing delimiter empties the stack).  Result: (closing position, opening position) *)
Fixpoint match_loop (text : list obs) (idxs : list Z) (stk : dstack) : list (Z * Z) :=
  match idxs with
  | [] => []
  | i :: rest =>
      let o := obs_at text i in
      let di := if strong (o_script o) then -1 else o_delim o in
      if 0 <=? di then
        if Z.even di then match_loop text rest ((di, i) :: stk)
        else match pop_match stk (di - 1) with
             | (Some p, stk') => (i, p) :: match_loop text rest stk'
             | (None, stk') => match_loop text rest stk'
             end
      else match_loop text rest stk
  end.
Definition delim_matches (text : list obs) (x : input) : list (Z * Z) :=
  match_loop text (zrange (i_start x) (i_end x)) [].

Definition interval_at (ivs : list (Z * Z * bool)) (pos : Z) : Z * Z * bool :=
  match find (fun iv => let '(s, e, _) := iv in (s <=? pos) && (pos <? e)) ivs with
  | Some iv => iv
  | None => (-1, -1, false)
  end.
(* (b) a matched closing delimiter has the script of its opening delimiter's run when both lie in the same bidi run;
   when the pair spans bidi runs it has the script of the first run of its own bidi run *)
Definition brackets_ok (text : list obs) (bidi : option (list (Z * bool))) (x : input) (runs : list input) : bool :=
  let ivs := intervals_of bidi x in
  forallb (fun ip =>
    let '(i, p) := ip in
    let '(s, e, _) := interval_at ivs i in
    if (s <=? p) && (p <? e) then script_at_run runs i =? script_at_run runs p
    else script_at_run runs i =? script_at_run runs s) (delim_matches text x).

(* (c) neutral characters never open a script run: a run whose script differs from the script of the rune before it
   starts a bidi run, or its first rune is strong or one of the admissible closing delimiters `ms` *)
Definition neutrals_ok (text : list obs) (ivs : list (Z * Z * bool)) (ms : list Z) (runs : list input) : bool :=
  forallb (fun r =>
       (script_at_run runs (i_start r - 1) =? i_script r)
       || existsb (fun iv => fst (fst iv) =? i_start r) ivs
       || strong (o_script (obs_at text (i_start r)))
       || existsb (fun m => m =? i_start r) ms) runs.

(* the full statement: (a), (b) and (c) with matched closing delimiters only; evaluated on the implementation and
   proved of the model *)
Definition script_ok (text : list obs) (bidi : option (list (Z * bool))) (x : input) (runs : list input) : bool :=
  strong_ok text runs && brackets_ok text bidi x runs
  && neutrals_ok text (intervals_of bidi x) (map fst (delim_matches text x)) runs.

(* ---- orientation ------------------------------------------------------------------------ *)
Definition resolve_orientation (x : input) : bool := d_vert (i_dir x) && negb (d_oset (i_dir x)).
Definition orient_ok (text : list obs) (x : input) (runs : list input) : bool :=
  if resolve_orientation x then
    forallb (fun r => d_vert (i_dir r) && d_oset (i_dir r)
                      && all_pos r (fun i => Bool.eqb (side_of (obs_at text i) (i_script r)) (d_side (i_dir r)))) runs
  else
    forallb (fun r => Bool.eqb (d_vert (i_dir r)) (d_vert (i_dir x)) && Bool.eqb (d_oset (i_dir r)) (d_oset (i_dir x))
                      && Bool.eqb (d_side (i_dir r)) (d_side (i_dir x))) runs.

(* ---- face ------------------------------------------------------------------------------- *)
(* every rune that may select a font (and for which the Fontmap keeps its contract of a non-nil face) resolves to the
   face of its run; every run
   whose runes all resolve to non-nil faces gets a face *)
Definition face_ok (text : list obs) (hint : bool) (runs : list input) : bool :=
  forallb (fun r =>
    all_pos r (fun i => let o := obs_at text i in o_ignore o || (face_of o (face_key hint r) =? 0) || (face_of o (face_key hint r) =? i_face r))
    && (negb (all_pos r (fun i => negb (face_of (obs_at text i) (face_key hint r) =? 0))) || negb (i_face r =? 0))) runs.

(* ---- language --------------------------------------------------------------------------- *)
Definition lang_ok (langid : option Z) (use : Z -> bool) (stl : Z -> Z) (x : input) (runs : list input) : bool :=
  match langid with
  | None => forallb (fun r => i_lang r =? i_lang x) runs
  | Some id =>
      forallb (fun r => if use (i_script r) then i_lang r =? id
                        else if stl (i_script r) =? 0 then i_lang r =? id
                        else i_lang r =? stl (i_script r)) runs
  end.

(* ---- the whole statement ---------------------------------------------------------------- *)
Definition range_ok (e : env) (x : input) : bool :=
  (0 <=? i_start x) && (i_start x <? i_end x) && (i_end x <=? zlen (e_text e)).

Definition check_itemization (e : env) (x : input) (runs : list input) : bool :=
  partition_ok x runs
  && bidi_ok (e_bidi e) x runs
  && script_ok (e_text e) (e_bidi e) x runs
  && orient_ok (e_text e) x runs
  && face_ok (e_text e) (e_hint e) runs
  && lang_ok (e_langid e) (e_use e) (e_stl e) x runs.

(* the empty range (RunStart >= RunEnd): one run, the input itself with Script = Common and the language enforced
   for Common; the face stays the caller's (nil if it was nil) *)
Definition input_eqb (a b : input) : bool :=
  (i_text a =? i_text b) && (i_start a =? i_start b) && (i_end a =? i_end b)
  && Bool.eqb (d_prog (i_dir a)) (d_prog (i_dir b)) && Bool.eqb (d_vert (i_dir a)) (d_vert (i_dir b))
  && Bool.eqb (d_oset (i_dir a)) (d_oset (i_dir b)) && Bool.eqb (d_side (i_dir a)) (d_side (i_dir b))
  && (i_face a =? i_face b) && (i_feat a =? i_feat b) && (i_size a =? i_size b)
  && (i_script a =? i_script b) && (i_lang a =? i_lang b).
Definition empty_result (e : env) (x : input) : input :=
  let y := set_script x SC_COMMON in
  match e_langid e with
  | None => y
  | Some id => set_lang y (enforce_lang (e_use e) (e_stl e) id SC_COMMON)
  end.
Definition empty_ok (e : env) (x : input) (runs : list input) : bool :=
  match runs with
  | [r] => input_eqb r (empty_result e x)
  | _ => false
  end.

(* reference bidi parity per rune (computed paragraph by paragraph by the harness; None = unconstrained,
   e.g. the paragraph separator itself): every rune has the parity its run reports *)
Definition parity_ok (ref : list (option bool)) (runs : list input) : bool :=
  forallb (fun r => all_pos r (fun i => match znth None ref i with
                                        | Some rtl => Bool.eqb rtl (d_prog (i_dir r))
                                        | None => true
                                        end)) runs.
