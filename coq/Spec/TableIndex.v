(* What C09 asks of the name / hmtx / cmap 6-10-12-13 readers, as executable predicates on an implementation's
   answer: no panic, and what an accepting implementation built is no larger than the table it read. *)
From TV Require Export Lib.Bytes.

(* name: `nrecs` records of 12 bytes after the 6-byte header; every decoded value has at most |src| units *)
Definition name_answer_ok (src_len nrecs : Z) (value_lens : list Z) : bool :=
  (6 + 12 * nrecs <=? src_len) && forallb (fun l => l <=? src_len) value_lens.

(* hmtx: nm long metrics of 4 bytes then nl side bearings of 2 bytes; one answer per glyph id asked *)
Definition hmtx_answer_ok (src_len nm nl ngids nadv nsb : Z) : bool :=
  (0 <=? nm) && (0 <=? nl) && (4 * nm + 2 * nl <=? src_len) && (nadv =? ngids) && (nsb =? ngids).

(* cmap 6/10 (2 bytes per entry) and 12/13 (12 bytes per group): at most |src| / 2 entries or groups;
   one answer per rune *)
Definition cmap_answer_ok (src_len size nrunes nres : Z) : bool :=
  (0 <=? size) && (2 * size <=? src_len) && (nres =? nrunes).
