(* Declarative specification of composite glyph assembly (OpenType 'glyf', composite glyph description), in the arithmetic
   the library uses (binary32, Model/F32.v): a composite glyph is the concatenation, in component order, of the images of
   its components' own outlines under the component's placement map. *)
From TV Require Export Model.Composite.
Open Scope Z_scope.

(* The placement map of component [p] whose own points are [comp], when [all] has been collected so far:
   the component transform (scale / 2x2 matrix and offset, offset scaled or not), the (zero) variation offset, and for an
   anchored component whose two point numbers are in range the translation that moves its point arg2 towards the
   already placed point arg1. *)
Definition base_map (p : cpart) : cpoint -> cpoint := fun c => fp_translate 0 0 (part_transform p c).
Definition placement (p : cpart) (all comp : list cpoint) (T : cpoint -> cpoint) : Prop :=
  if part_anchored p && (p_arg1 p <? zlen all) && (p_arg2 p <? zlen comp) then
    let a := znth fp_zero all (p_arg1 p) in
    let b := znth fp_zero (map (base_map p) comp) (p_arg2 p) in
    T = (fun c => fp_translate (f32_sub (cp_x a) (cp_x b)) (f32_sub (cp_y a) (cp_y b)) (base_map p c))
  else T = base_map p.

(* [assembled rc parts all ph ec all' ph' ec']: starting from the collected points [all], phantom points [ph] and the count
   [ec] of glyphs visited so far, the component list [parts] yields [all'], [ph'] and the count [ec'].  [rc g c] is the
   decoding of glyph g one level down when c glyphs have been visited (its points followed by its four phantom points, or
   fewer than four points when the component is skipped: out of range, nested too deeply, or the budget of 1024 visited
   glyphs is used up) together with the new count. *)
Inductive assembled (rc : Z -> Z -> res (list cpoint * Z)) :
    list cpart -> list cpoint -> list cpoint -> Z -> list cpoint -> list cpoint -> Z -> Prop :=
| as_nil all ph ec : assembled rc [] all ph ec all ph ec
| as_skip p r all ph ec all' ph' ec' comp ec1 :
    rc (p_gid p) ec = Ok (comp, ec1) -> zlen comp < 4 ->
    assembled rc r all ph ec1 all' ph' ec' -> assembled rc (p :: r) all ph ec all' ph' ec'
| as_part p r all ph ec all' ph' ec' comp ec1 T :
    rc (p_gid p) ec = Ok (comp, ec1) -> 4 <= zlen comp -> placement p all comp T ->
    assembled rc r (all ++ map T (drop_last4 comp)) (if part_use_my_metrics p then last4 comp else ph) ec1 all' ph' ec' ->
    assembled rc (p :: r) all ph ec all' ph' ec'.

(* a point list made of complete contours: empty, or its last point is an end point *)
Definition complete (pts : list cpoint) : Prop := pts = [] \/ cp_end (last pts fp_zero) = true.

(* Placement maps keep the on-curve and end-of-contour marks *)
Definition keeps_marks (T : cpoint -> cpoint) : Prop := forall c, cp_on (T c) = cp_on c /\ cp_end (T c) = cp_end c.
