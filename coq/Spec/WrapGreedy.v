(* Declarative statements for the greedy clause of C04 and for the truncated line.
   "A line that ends at an optional break could not have been extended to the next permitted break without exceeding
   maxWidth": the extension is the line [s, p) made of the exact pieces (Spec/Wrap.v piece_ok: contiguous pieces of the
   input runs holding exactly the glyphs of the clusters in their rune range) and its width is Spec/Wrap.v line_measure
   (sum of the advances, one trailing whitespace glyph or the trailing letter spacing at the line end in paragraph
   direction not counted). *)
From TV Require Export Model.Wrap Spec.Wrap.

(* the runes [s, p) placed as exact pieces of the input runs measure more than mw on the store st.
   (pieces of input runs have o_src >= 0, so -1 names no truncator and line_measure counts every run) *)
Definition extended_line_too_wide (st : store) (rs : list out) (pdir s p mw : Z) : Prop :=
  exists l, contiguous_from s l = Some p /\ forallb (piece_ok st rs) l = true
            /\ mw < ceil26 (line_measure st (-1) pdir l).

(* p is a UAX #14 opportunity that shaping did not fuse into a cluster: a candidate the wrapper may use under every policy *)
Definition valid_line_break (attrs : list Z) (st : store) (rs : list out) (p : Z) : Prop :=
  line_boundary attrs p = true /\ cluster_boundary st rs p = true.

(* greedy clause for one returned line [s, e) under BreakPolicy Never, with q = the position right after the option the
   breaker keeps pending for the next line (q = 0 when none is pending):
   - no option pending: the line ends exactly where the last option read ends, and that option is a mandatory break
     (required) or nothing before it was breakable (the single unbreakable unit of the width clause);
   - an option pending at q > e: no valid UAX #14 opportunity lies strictly between e and q (q is the next permitted
     break) and the line extended to q is too wide. *)
Definition greedy_never_stmt (attrs : list Z) (st : store) (rs : list out) (pdir s e mw : Z)
           (pending : bool) (q : Z) (required : bool) : Prop :=
  (pending = false ->
     e = q /\ (required = true \/ forall p, s < p < e -> valid_line_break attrs st rs p -> False))
  /\ (pending = true ->
     e < q /\ (forall p, e < p < q -> valid_line_break attrs st rs p -> False)
     /\ extended_line_too_wide st rs pdir s q mw).
