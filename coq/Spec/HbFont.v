(* Specification vocabulary for harfbuzz/fonts.go and the default positioning (C12), written on exact integers and
   rationals, independently of the float32 arithmetic of the model:

     "a value v of the face (font units) under the scale s of a font with upem u"  =  v * s / u  rounded to the nearest
     integer, halves away from zero                                                                   (rha (v * s) u).

   The implementation computes this in binary32 (product, quotient: two roundings) before rounding to an integer, so it
   equals the specification exactly only inside [scale_exact], and is within [scale_err_ok] of v*s/u everywhere. *)
From Coq Require Import ZArith List Bool.
From TV Require Import Lib.GoNum Model.F32 Model.HbFont Model.HbPos.
Import ListNotations.
Open Scope Z_scope.

(* p/q (q > 0) rounded to the nearest integer, halves away from zero *)
Definition rha (p q : Z) : Z := Z.sgn p * ((2 * Z.abs p + q) / (2 * q)).

(* the face value v (an integer number of font units) under scale s and upem u *)
Definition scale_spec (v s u : Z) : Z := rha (v * s) u.

(* n is a binary32 value: at most 24 significant bits *)
Definition repr24 (n : Z) : bool := Z.abs n mod 2 ^ Z.max 0 (Z.log2 (Z.abs n) - 23) =? 0.
Definition is_pow2 (u : Z) : bool := (0 <? u) && (u =? 2 ^ Z.log2 u).

(* sufficient conditions for emScalef to be exact:
   the scale and the upem are binary32 values, and either |v*s| < 2^22 (product exact, and the binary32 quotient is
   closer to v*s/u than any half-integer is), or u is a power of two and v*s is a binary32 value (then the quotient is
   exact); the result fits int32 *)
Definition scale_exact (v s u : Z) : bool :=
  (0 <? u) && (u <? 2 ^ 24) && repr24 s && (Z.abs v <? 2 ^ 24)
  && ((Z.abs (v * s) <? 2 ^ 22) || (is_pow2 u && repr24 (v * s) && (Z.abs (v * s) <? 2 ^ 30 * u))).

(* everywhere else (v, s, u binary32 integers, u > 0, v*s/u >= 1 or v*s = 0 ... see the theorem): the result r satisfies
   |r - v*s/u| <= 1/2 + |v*s/u| * (2^-23 + 2^-48), as an integer inequality *)
Definition scale_err_ok (v s u r : Z) : bool :=
  2 ^ 48 * Z.abs (r * u - v * s) <=? 2 ^ 47 * u + Z.abs (v * s) * (2 ^ 25 + 1).

(* the range of the property text: sizes 1 .. 4096 px (scale = 64 * px), |v| <= 32767 font units, 16 <= upem <= 16384
   (tables.Head.Upem); we allow upem up to 65535 (uint16) *)
Definition in_range (v s u : Z) : bool :=
  (Z.abs v <=? 32767) && (64 <=? s) && (s <=? 4096 * 64) && (s mod 64 =? 0) && (16 <=? u) && (u <=? 65535).

(* integer-valued float32 (units of 2^-149) and its value *)
Definition f32_int (x : Z) : Z := Z.shiftr x 149.
Definition f32_is_int (x : Z) : bool := Z.shiftl (f32_int x) 149 =? x.

(* ---- default positioning -------------------------------------------------------------------- *)
(* cross-axis advance zero / axis advance equal to the font's advance for the direction *)
Definition cross_adv (horizontal : bool) (p : ppos) : Z := if horizontal then pp_ya p else pp_xa p.
Definition all_cross_zero (horizontal : bool) (ps : list ppos) : bool := forallb (fun p => cross_adv horizontal p =? 0) ps.
