(* Specification of the rune accounting of C01, independent of the way countClusters computes it. *)
From TV Require Export Model.ShapeGlue.

(* monotone in the reading direction of the run: non-decreasing (FromTopLeft) or non-increasing (TowardTopLeft) *)
Fixpoint mono (rtl : bool) (l : list Z) : bool :=
  match l with
  | a :: ((b :: _) as r) => (if rtl then b <=? a else a <=? b) && mono rtl r
  | _ => true
  end.

Definition in_range (s e : Z) (l : list Z) : bool := forallb (fun c => (s <=? c) && (c <? e)) l.

(* glyph multiplicity of cluster c *)
Definition mult (c : Z) (l : list Z) : Z := zlen (filter (Z.eqb c) l).

(* the smallest cluster value of l above c, or e when there is none: where the next cluster starts *)
Definition next_above (e c : Z) (l : list Z) : Z :=
  fold_right (fun x acc => if c <? x then Z.min x acc else acc) e l.

Definition lmin (l : list Z) : Z := match l with [] => 0 | a :: r => fold_right Z.min a r end.

Definition zsum (l : list Z) : Z := fold_right Z.add 0 l.

(* per glyph: GlyphCount is the multiplicity of its cluster, RuneCount the distance to the next cluster *)
Definition glyph_ok (e : Z) (cls : list Z) (g : cglyph) : bool :=
  (cg_gc g =? mult (cg_cl g) cls) && (cg_rc g =? next_above e (cg_cl g) cls - cg_cl g).

(* RuneCount of cluster c as carried by the glyphs of the output *)
Definition rc_of (out : list cglyph) (c : Z) : Z :=
  match find (fun g => cg_cl g =? c) out with Some g => cg_rc g | None => 0 end.

(* sum over the clusters (each counted once) of their RuneCount *)
Definition sum_rune_counts (out : list cglyph) : Z :=
  zsum (map (rc_of out) (nodup Z.eq_dec (map cg_cl out))).

Definition uniform_counts (out : list cglyph) : Prop :=
  forall g h, In g out -> In h out -> cg_cl g = cg_cl h -> cg_rc g = cg_rc h /\ cg_gc g = cg_gc h.

Fixpoint uniform_counts_b (out : list cglyph) : bool :=
  match out with
  | [] => true
  | g :: r => forallb (fun h => negb (cg_cl g =? cg_cl h) || ((cg_rc g =? cg_rc h) && (cg_gc g =? cg_gc h))) r
              && uniform_counts_b r
  end.

(* the C01 statement on an Output, as an executable checker: s, e = RunStart, RunEnd *)
Definition accounting_ok (rtl : bool) (s e : Z) (out : list cglyph) : bool :=
  let cls := map cg_cl out in
  mono rtl cls && in_range s e cls && forallb (glyph_ok e cls) out && uniform_counts_b out
  && match cls with [] => true | _ => sum_rune_counts out =? e - lmin cls end.
