(* Window-local rule engines (C18): the CONTRACT a pass must respect, and the cut statement.

   Inv is an invariant of glyph sequences (monotone clusters, table-specific side conditions); it has to hold of the
   whole text and of the two pieces.

   Obligations of one pass p (step_ok):
   - so_progress   every step consumes input;
   - so_inv        a step preserves the invariant;
   - so_cls        clusters are only merged, never invented: every cluster value after a step occurred before it;
   - so_persist    flags persist: if cluster c was "flagged or gone" it still is after a step (a rule may merge a flagged
                   cluster away, it may not clear the flag of a cluster that survives);
   - so_fwd        LOCALITY + FLAGGING, cut ahead of the cursor: the unread input is t1 ++ t2 with a cluster cut
                   between t1 and t2.  Either the step flags the cut (or merges it away), or it behaves exactly as on the
                   piece that ends at the cut (t1 alone, the text beyond the cut being visible as context R' only
                   through psumR), leaving t2 untouched;
   - so_bwd        the same with the cut behind the cursor (or at it): what was passed is d1 ++ d2 with a cut between
                   d1 and d2.  Either the step flags the cut, or it behaves as on the piece that starts at the cut and
                   leaves d1 untouched.
   A rule that fires on a window, or whose decision read glyphs of a window, meets so_fwd / so_bwd by calling
   unsafeToBreak(window) or mergeClusters(window): every cluster boundary strictly inside the window is then flagged or
   gone.  A rule that does neither must decide the same on the truncated window (a failed match stays failed).

   stable q p: no step of pass q changes what pass p can see of a neighbouring piece (psumL p / psumR p).  The engine
   is well formed when every pass meets step_ok and is stable for itself and for all later passes: a pass that reads the
   context reads the ORIGINAL neighbouring text in a piece and the neighbour's current glyphs in the whole run, so the
   earlier passes must not have changed what it looks at. *)
From TV Require Export Model.LocalEngine.

Section Contract.
Context {A C : Type}.
Variable icl : A -> Z.
Variable iutb : A -> bool.
Variable side : Z -> Z -> bool.
Variable Inv : list A -> Prop.

Notation fog := (fog icl iutb).
Notation cutv := (cutv icl side).

Record step_ok (p : @pass A C) : Prop := mkStepOk {
  so_progress : forall L R d t, t <> [] -> (length (snd (pstep p L R d t)) < length t)%nat;
  so_inv : forall L R d t, t <> [] -> Inv (d ++ t) -> Inv (fst (pstep p L R d t) ++ snd (pstep p L R d t));
  so_cls : forall L R d t x, t <> [] -> Inv (d ++ t) ->
     In x (fst (pstep p L R d t) ++ snd (pstep p L R d t)) -> exists y, In y (d ++ t) /\ icl y = icl x;
  so_persist : forall L R d t c, t <> [] -> Inv (d ++ t) ->
     fog c (d ++ t) = true -> fog c (fst (pstep p L R d t) ++ snd (pstep p L R d t)) = true;
  so_fwd : forall L R R' d t1 t2 c, t1 <> [] ->
     Inv (d ++ t1 ++ t2) -> Inv (d ++ t1) -> cutv c (d ++ t1) t2 = true ->
     psumR p (R' ++ R) = psumR p (t2 ++ R) ->
     let r := pstep p L R d (t1 ++ t2) in
     let r1 := pstep p L (R' ++ R) d t1 in
     fog c (fst r ++ snd r) = true \/ r = (fst r1, snd r1 ++ t2);
  so_bwd : forall L L' R d1 d2 t c, t <> [] ->
     Inv (d1 ++ d2 ++ t) -> Inv (d2 ++ t) -> cutv c d1 (d2 ++ t) = true ->
     psumL p (L ++ L') = psumL p (L ++ d1) ->
     let r := pstep p L R (d1 ++ d2) t in
     let r2 := pstep p (L ++ L') R d2 t in
     fog c (fst r ++ snd r) = true \/ r = (d1 ++ fst r2, snd r2)
}.

(* steps of q do not change what p sees of a neighbouring piece *)
Definition stable (q p : @pass A C) : Prop :=
  forall L R d t, t <> [] -> Inv (d ++ t) ->
    (forall X, psumR p ((fst (pstep q L R d t) ++ snd (pstep q L R d t)) ++ X) = psumR p ((d ++ t) ++ X))
    /\ (forall X, psumL p (X ++ fst (pstep q L R d t) ++ snd (pstep q L R d t)) = psumL p (X ++ d ++ t)).

Fixpoint wf_engine (ps : list (@pass A C)) : Prop :=
  match ps with
  | [] => True
  | q :: r => step_ok q /\ Forall (stable q) (q :: r) /\ wf_engine r
  end.

(* THE CUT STATEMENT: the run pre ++ suf, cut along cluster value c; L, R the context of the whole run.  If after all
   passes cluster c is neither flagged nor merged away, shaping the whole equals shaping the pieces, each with the
   other piece's original text as context, and concatenating. *)
Definition cut_safe (ps : list (@pass A C)) : Prop :=
  forall L R pre suf c,
    Inv (pre ++ suf) -> Inv pre -> Inv suf -> cutv c pre suf = true ->
    fog c (erun ps L R (pre ++ suf)) = false ->
    erun ps L R (pre ++ suf) = erun ps L (suf ++ R) pre ++ erun ps (L ++ pre) R suf.

End Contract.
