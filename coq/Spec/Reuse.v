(* Specification of C13, "reusable objects never leak state": every answer of a reused object is
   what is recomputed from the arguments of that call and the settings currently in force.
   The reference machines below keep NO cache; the theorems (Props/C13.v) say that the models of
   the caching code return exactly the answers of these machines, for every history. *)
From TV Require Export Model.FaceCache Model.ShaperCache Model.PlanCache.

Section FaceRef.
  Variables coords variations extents : Type.
  Variable raw : Z -> coords -> Z * Z -> option extents.
  Variable norm : variations -> coords.

  (* answers of a fresh face carrying the current coordinates and ppem *)
  Fixpoint face_ref (c : coords) (p : Z * Z) (ops : list (FaceCache.op coords variations)) : list (option extents) :=
    match ops with
    | [] => []
    | FaceCache.SetCoords _ _ c' :: r => face_ref c' p r
    | FaceCache.SetVariations _ _ v :: r => face_ref (norm v) p r
    | FaceCache.SetPpem _ _ x y :: r => face_ref c (x, y) r
    | FaceCache.GlyphExtents _ _ g :: r => raw g c p :: face_ref c p r
    end.
End FaceRef.

Section ShaperRef.
  Variable hbfont : Type.
  Variable mk : Z -> hbfont.
  (* a fresh shaper builds the harfbuzz font from the input's own face *)
  Fixpoint shaper_ref (ops : list ShaperCache.op) : list hbfont :=
    match ops with
    | [] => []
    | ShaperCache.Shape f :: r => mk f :: shaper_ref r
    | ShaperCache.SetFontCacheSize _ :: r => shaper_ref r
    end.
  Fixpoint sizes_set (ops : list ShaperCache.op) : list Z :=
    match ops with
    | [] => []
    | ShaperCache.Shape _ :: r => sizes_set r
    | ShaperCache.SetFontCacheSize n :: r => n :: sizes_set r
    end.
End ShaperRef.

Section PlanRef.
  Variables coords plan : Type.
  Variable font_of : Z -> Z.
  Variable varidx : Z -> coords -> Z * Z.
  Variable compile : Z -> Z -> list feature -> Z * Z -> plan.
  (* a fresh Buffer compiles the plan from the call's arguments and the face's current coordinates *)
  Fixpoint plan_ref (cs : Z -> coords) (ops : list (PlanCache.op coords)) : list plan :=
    match ops with
    | [] => []
    | PlanCache.SetCoords _ f c :: r => plan_ref (fun g => if g =? f then c else cs g) r
    | PlanCache.ShapeB _ f props feats :: r =>
        compile (font_of f) props feats (varidx (font_of f) (cs f)) :: plan_ref cs r
    end.
End PlanRef.

(* executable equalities used by the case checkers *)
Definition list_eqb {A B} (eqb : A -> B -> bool) : list A -> list B -> bool :=
  fix go a b := match a, b with
                | [], [] => true
                | x :: a', y :: b' => eqb x y && go a' b'
                | _, _ => false
                end.
Definition option_eqb {A} (eqb : A -> A -> bool) (a b : option A) : bool :=
  match a, b with
  | Some x, Some y => eqb x y
  | None, None => true
  | _, _ => false
  end.
Definition zlist_eqb : list Z -> list Z -> bool := list_eqb Z.eqb.
Definition pair_eqb (a b : Z * Z) : bool := (fst a =? fst b) && (snd a =? snd b).
