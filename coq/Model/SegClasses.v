(* Alphabet of the segmenter automaton: what the rules of segmenter/ read from one rune
   (DESIGN.md appendix C).  Shared by Model/Segmenter.v and Spec/UAX*.v. *)
From Coq Require Export List Bool ZArith Lia.
Export ListNotations.

(* Line_Break classes, in the order of unicodedata.lineBreaks (index = position) *)
Inductive lbc :=
| LB_BK | LB_CR | LB_LF | LB_NL | LB_SP | LB_NU | LB_AL | LB_IS | LB_PR | LB_PO | LB_OP | LB_CL | LB_CP
| LB_QU | LB_HY | LB_SG | LB_GL | LB_NS | LB_EX | LB_SY | LB_HL | LB_ID | LB_IN | LB_BA | LB_BB | LB_B2
| LB_ZW | LB_CM | LB_EB | LB_EM | LB_WJ | LB_ZWJ | LB_H2 | LB_H3 | LB_JL | LB_JV | LB_JT | LB_RI | LB_CB
| LB_AI | LB_CJ | LB_SA | LB_XX.

(* Grapheme_Cluster_Break: GB_None = LookupGraphemeBreakClass returned nil; then unicodedata.graphemeBreaks order *)
Inductive gbc :=
| GB_None | GB_CR | GB_Control | GB_Extend | GB_L | GB_LF | GB_LV | GB_LVT | GB_Prepend | GB_RI
| GB_SpacingMark | GB_T | GB_V | GB_ZWJ.

(* Word_Break as merged by the library: NewlineCRLF = Newline|CR|LF, ExtendFormat = Extend|Format|ZWJ *)
Inductive wbc :=
| WB_None | WB_ALetter | WB_Double_Quote | WB_ExtendFormat | WB_ExtendNumLet | WB_Hebrew_Letter | WB_Katakana
| WB_MidLetter | WB_MidNum | WB_MidNumLet | WB_NewlineCRLF | WB_Numeric | WB_RI | WB_Single_Quote | WB_WSegSpace.

Scheme Equality for lbc.
Scheme Equality for gbc.
Scheme Equality for wbc.

Record obs := mkObs {
  o_lb : lbc;        (* LookupLineBreakClass r (raw, before LB1) *)
  o_mnmc : bool;     (* LookupType r is Mn or Mc *)
  o_cn : bool;       (* LookupType r == nil (unassigned) *)
  o_wide : bool;     (* r in LargeEastAsian (ea = F, W, H) *)
  o_pic : bool;      (* r in Extended_Pictographic *)
  o_zwjtab : bool;   (* unicode.Is(BreakZWJ, r) *)
  o_gb : gbc;
  o_wb : wbc;
  o_lf : bool;       (* r == '\n' *)
  o_cr : bool;       (* r == '\r' *)
  o_zwj : bool;      (* r == U+200D *)
  o_dq : bool;       (* r == U+0022 *)
  o_word : bool      (* r in unicodedata.Word *)
}.

(* the initial value of cursor.r / the `next` sentinel: rune 0 *)
Definition obs_nul : obs :=
  mkObs LB_CM false false false false false GB_Control WB_None false false false false false.
(* the end-of-text sentinel U+2029 PARAGRAPH SEPARATOR *)
Definition obs_psep : obs :=
  mkObs LB_BK false false false false false GB_Control WB_NewlineCRLF false false false false false.

Record attr := mkAttr { a_line : bool; a_mandatory : bool; a_grapheme : bool; a_word : bool }.
Definition attr_eqb (a b : attr) : bool :=
  Bool.eqb (a_line a) (a_line b) && Bool.eqb (a_mandatory a) (a_mandatory b)
  && Bool.eqb (a_grapheme a) (a_grapheme b) && Bool.eqb (a_word a) (a_word b).
